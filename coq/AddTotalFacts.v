(* AddTotalFacts.v — C04, TOTAL specifications of [add] and [rm] for whole
   argument lists on reachable worlds.

   ExactFacts.v has total specifications for ONE argument and frames for any
   argument list.  This file adds, for argument LISTS mixing files, directories,
   deleted-but-tracked paths and deleted-but-tracked directories:

   (A1) [add_total] (command level: [cmd_add_total]).  On a reachable world without
        collision, with [ex_wt_consistent], for a non-empty list of valid, pairwise
        non-overlapping arguments: `add <args>` answers Ok and [add_result] holds:
        every file the arguments stage ([add_stages]) is staged with the blob id of its
        bytes and (no collision flagged afterwards, [faithful], [small]) that blob is
        stored; every path the arguments unstage ([add_unstages]) is unstaged; every other
        path keeps its staged value; work tree, refs, HEAD, logs, configs untouched; every
        readable object still readable; the staging area canonical.
        [re_add_unchanged_changes_nothing]: when every staged-to-be file already is staged
        with the id of its bytes and nothing is to be unstaged, the step returns the SAME
        world and the EMPTY trace (any argument list, overlapping or not).
   (A2) [rm_total] (command level: [cmd_rm_total]).  For valid, pairwise non-overlapping
        arguments whose selected paths ([rm_selected]) are files or absent on disk:
        `rm <args>` answers Ok; exactly the selected paths leave the staging area and the
        work tree ([rm_many_post]); no untracked file is touched; no directory name but
        a selected one leaves the set of directories; objects, refs, HEAD, logs, configs
        untouched.  ([ex_nodup_keys (w_files w)] is DERIVED from reachability here:
        [reachable_files_nodup].)

   The exclusion test of the model, made explicit in [arg_stages]: the ARGUMENT is tested
   once with [ignored]; each file beneath a directory argument is tested with [ignored] on
   its own full path (= [ign_match] on that path); intermediate directories are never
   tested on their own, there is no pruning of excluded sub-directories other than through
   the match on the file's path.

   Findings (closed computations in section 7):
   (W-1) `add p p`, p tracked and deleted: Err AFTER p has been unstaged.
   (W-2) `add m m/a`, m a deleted tracked directory: Err AFTER m/a and m/b were unstaged.
         Hence [no_overlap].  (Overlapping arguments that exist on disk are harmless.)
   (W-3) `rm p`, p tracked and now a non-empty directory on disk: Err.
   (W-4) `rm p p` when p AND p/b are tracked (reachable: ExactFacts F-b) and neither is on
         disk: Ok, and p/b is unstaged although no argument selects it.  Hence
         [no_overlap] for (A2) too.
   (N)   [add] skips the blob write when the staged id equals the file's id; "the blob of
         the file's bytes is stored" then rests on the staged blob being that file
         ([faithful]): the collision flag cannot witness it. *)
From Coq Require Import Strings.String Strings.Byte.
From Coq Require Import List Bool NArith ZArith Arith Lia Sorted.
From Goit Require Import Bytes Sha1 Obj Tree Index Regex GoRegex Commit Reflog Config Ignore World Repo.
From Goit Require Import BytesFacts ObjFacts IndexFacts TreeFacts IgnoreFacts MonadFacts Inv.
From Goit Require Import BranchFacts ConnectedFacts SnapshotFacts ExactFacts AddressFacts IgnoreCmdFacts.
Import ListNotations.

#[local] Arguments sha1 : simpl never.
#[local] Arguments obj_id : simpl never.
#[local] Arguments payload : simpl never.
#[local] Arguments header : simpl never.

(* ================================================================== *)
(** * 0. The work-tree map of a reachable world has no duplicate key *)

Definition files_sorted (w : world) : Prop := am_sorted (w_files w).

Lemma at_filter_sorted : forall (V : Type) (f : bytes * V -> bool) (m : amap V),
  am_sorted m -> am_sorted (filter f m).
Proof.
  intros V f m. induction m as [|[k v] r IH]; intro Hs; [exact Hs|].
  apply am_sorted_cons in Hs. destruct Hs as [Hs Hf]. cbn [filter].
  destruct (f (k, v)); [|apply IH; exact Hs].
  apply am_sorted_cons. split; [apply IH; exact Hs|].
  apply Forall_forall. intros kv Hin. apply filter_In in Hin.
  apply (proj1 (Forall_forall _ _) Hf kv (proj1 Hin)).
Qed.

Lemma files_sorted_effect : forall e w, files_sorted w -> files_sorted (apply_effect e w).
Proof.
  intros e w Hs. unfold files_sorted in *.
  destruct e; autorewrite with wfields; try exact Hs.
  - apply am_set_sorted. exact Hs.
  - apply am_del_sorted. exact Hs.
Qed.

Lemma files_sorted_edit : forall u w, files_sorted w -> files_sorted (apply_edit u w).
Proof.
  intros u w Hs. destruct u as [p d|p|p|p]; cbn [apply_edit].
  - apply files_sorted_effect. destruct (parent_dir p); [apply files_sorted_effect|]; exact Hs.
  - apply files_sorted_effect. exact Hs.
  - unfold files_sorted, set_wt. cbn [w_files]. apply at_filter_sorted. exact Hs.
  - apply files_sorted_effect. exact Hs.
Qed.

Theorem files_sorted_run : forall h, files_sorted (run h w_empty).
Proof.
  intro h. apply (run_invariant files_sorted (fun _ _ => True)).
  - apply run_cmd_emits_stable. intros e w Hs. split; [exact Logic.I | apply files_sorted_effect; exact Hs].
  - exact files_sorted_edit.
  - apply am_sorted_nil.
Qed.

Lemma reachable_files_nodup : forall w, Reachable w -> ex_nodup_keys (w_files w).
Proof.
  intros w (h & _ & ->). unfold ex_nodup_keys. apply (am_sorted_nodup (w_files (run h w_empty))).
  apply files_sorted_run.
Qed.

(* ================================================================== *)
(** * 1. What a run of [add] has done so far: [add_state] *)

(* the blob already stored under the id of [data], if [q] is staged with that
   id, IS [data]: no SHA-1 collision between the file and what was staged.
   ([add] does not write the blob again when the staged id is the file's id.) *)
Definition faithful (w : world) (q data : bytes) : Prop :=
  staged w q = Some (blob_id data) -> get_obj (w_objs w) (blob_id data) = Some (KBlob, data).
(* Goit cannot read back an object of 2^63 bytes or more *)
Definition small (data : bytes) : Prop := (lenN data < 2 ^ 63)%N.

Definition touched (S : bytes -> bytes -> Prop) (U : bytes -> Prop) (q : bytes) : Prop :=
  (exists data, S q data) \/ U q.

(* from [w] to [w1]: the paths [S] are staged with the blob of the given bytes,
   the paths [U] are unstaged, every other path keeps its staged value; only
   objects and the staging area moved *)
Record add_state (w : world) (S : bytes -> bytes -> Prop) (U : bytes -> Prop) (w1 : world) : Prop := {
  as_canon : Canonical (idx_of w1);
  as_wt : same_wt w w1;
  as_meta : same_meta w w1;
  as_coll : w_coll w1 = false -> w_coll w = false;
  as_kept : w_coll w1 = false -> objs_kept w w1;
  as_staged : forall q data, S q data -> staged w1 q = Some (blob_id data);
  as_stored : forall q data, S q data -> faithful w q data -> small data -> w_coll w1 = false ->
              get_obj (w_objs w1) (blob_id data) = Some (KBlob, data);
  as_unstaged : forall q, U q -> staged w1 q = None;
  as_others : forall q, ~ touched S U q -> staged w1 q = staged w q
}.

Lemma add_state_refl : forall w, Canonical (idx_of w) ->
  add_state w (fun _ _ => False) (fun _ => False) w.
Proof.
  intros w Hc. constructor; try (intros; contradiction); auto.
  - apply same_wt_refl.
  - apply same_meta_refl.
  - intros _ id kd Hg. exact Hg.
Qed.

Lemma add_state_ext : forall w (S S' : bytes -> bytes -> Prop) (U U' : bytes -> Prop) w1,
  (forall q d, S' q d -> S q d) -> (forall q, U' q -> U q) ->
  (forall q, touched S U q -> touched S' U' q) ->
  add_state w S U w1 -> add_state w S' U' w1.
Proof.
  intros w S S' U U' w1 HS HU HT [Ac Aw Am Acl Ak As Ast Au Ao]. constructor; try assumption.
  - intros q d Hq. apply As. apply HS. exact Hq.
  - intros q d Hq. apply Ast. apply HS. exact Hq.
  - intros q Hq. apply Au. apply HU. exact Hq.
  - intros q Hq. apply Ao. intro Ht. apply Hq. apply HT. exact Ht.
Qed.

Lemma add_state_seq : forall w (S S' : bytes -> bytes -> Prop) (U U' : bytes -> Prop) w1 w2,
  add_state w S U w1 -> add_state w1 S' U' w2 ->
  (forall q, touched S' U' q -> ~ touched S U q) ->
  add_state w (fun q d => S q d \/ S' q d) (fun q => U q \/ U' q) w2.
Proof.
  intros w S S' U U' w1 w2 [Ac Aw Am Acl Ak As Ast Au Ao] [Bc Bw Bm Bcl Bk Bs Bst Bu Bo] Hdis.
  assert (Hdis' : forall q, touched S U q -> ~ touched S' U' q).
  { intros q H1 H2. exact (Hdis q H2 H1). }
  constructor.
  - exact Bc.
  - apply (same_wt_trans _ _ _ Aw Bw).
  - apply (same_meta_trans _ _ _ Am Bm).
  - intro H2. apply Acl. apply Bcl. exact H2.
  - intros H2 id kd Hg. apply (Bk H2). apply (Ak (Bcl H2)). exact Hg.
  - intros q d [Hq|Hq].
    + rewrite (Bo q); [apply As; exact Hq|]. apply Hdis'. left. exists d. exact Hq.
    + apply Bs. exact Hq.
  - intros q d [Hq|Hq] Hf Hsm H2.
    + apply (Bk H2). apply (Ast q d Hq Hf Hsm (Bcl H2)).
    + apply (Bst q d Hq); [|exact Hsm|exact H2].
      intro Hs1. apply (Ak (Bcl H2)). apply Hf. rewrite <- Hs1. symmetry. apply Ao.
      apply Hdis. left. exists d. exact Hq.
  - intros q [Hq|Hq].
    + rewrite (Bo q); [apply Au; exact Hq|]. apply Hdis'. right. exact Hq.
    + apply Bu. exact Hq.
  - intros q Hq. rewrite (Bo q), (Ao q); [reflexivity| |].
    + intros [[d Hd]|Hu]; apply Hq; [left; exists d; left; exact Hd | right; left; exact Hu].
    + intros [[d Hd]|Hu]; apply Hq; [left; exists d; right; exact Hd | right; right; exact Hu].
Qed.

(* ---------- one file ---------- *)
Lemma add_file_state : forall w p data, Canonical (idx_of w) -> file w p = Some data ->
  exists tr, runs (add_file p) w (Ok tt) tr /\ Forall add_eff tr /\
             (staged w p = Some (blob_id data) -> tr = []) /\
             add_state w (fun q d => q = p /\ d = data) (fun _ => False) (apply_effects tr w).
Proof.
  intros w p data Hc Hf. destruct (add_file_spec w p data Hc Hf) as (tr & Hr & Hg & Hn & Hp).
  exists tr. split; [exact Hr|]. split; [exact Hg|]. split; [exact Hn|].
  destruct Hp as [Pc Ps Po Pw Pm Pk Pst Pno]. constructor.
  - exact Pc.
  - exact Pw.
  - exact Pm.
  - apply coll_false_before.
  - exact Pk.
  - intros q d [-> ->]. exact Ps.
  - intros q d [-> ->] Hfa Hsm Hcl.
    destruct (ex_opt_bytes_dec (staged w p) (Some (blob_id data))) as [E|E].
    + rewrite (Pno E). apply Hfa. exact E.
    + apply Pst; assumption.
  - intros q [].
  - intros q Hq. apply Po. intros ->. apply Hq. left. exists data. split; reflexivity.
Qed.

(* ---------- one path unstaged ---------- *)
Lemma unstage_state : forall w p i, Canonical (idx_of w) -> idx_delete (idx_of w) p = Some i ->
  add_state w (fun _ _ => False) (fun q => q = p) (apply_effect (ESetIndex i) w).
Proof.
  intros w p i Hc Hd. destruct (stg_delete (idx_of w) p i Hc Hd) as (Hci & Hsp & Hso).
  constructor.
  - exact Hci.
  - split; reflexivity.
  - repeat split.
  - intro H. exact H.
  - intros _ id kd Hg. exact Hg.
  - intros q d [].
  - intros q d [].
  - intros q ->. rewrite staged_stg. exact Hsp.
  - intros q Hq. rewrite !staged_stg. apply Hso. intros ->. apply Hq. right. reflexivity.
Qed.

(* ---------- the files beneath a directory argument ---------- *)
Lemma add_files_state : forall c w l, Canonical (idx_of w) -> ex_wt_consistent w ->
  (forall f, In f l -> exists data, file w f = Some data) ->
  exists tr, runs (iterM (add_dir_body c) l) w (Ok tt) tr /\ Forall add_eff tr /\
    add_state w (fun q d => In q l /\ file w q = Some d /\ ign_match (x_pats c) q = false)
              (fun _ => False) (apply_effects tr w).
Proof.
  intros c w l Hc Hcons Hl.
  apply (runs_iterM _ (add_dir_body c)
           (fun done w1 => add_state w (fun q d => In q done /\ file w q = Some d /\ ign_match (x_pats c) q = false)
                                     (fun _ => False) w1)).
  - apply (add_state_ext w (fun _ _ => False) _ (fun _ => False) _ w); [| | |apply add_state_refl; exact Hc].
    + intros q d [[] _].
    + intros q [].
    + intros q [[d []]|[]].
  - intros done x rest w1 El J.
    assert (Hx : In x l) by (rewrite El; apply in_or_app; right; left; reflexivity).
    destruct (Hl x Hx) as [data Hdata]. pose proof (Hcons x data Hdata) as Hsx.
    pose proof (as_wt _ _ _ _ J) as [Jf Jd].
    destruct (ignored_file_indep w w1 (x_pats c) x Jf Jd Hsx) as [Hi1 Hi2].
    assert (Hdata1 : file w1 x = Some data) by (unfold file; rewrite Jf; exact Hdata).
    destruct (ign_match (x_pats c) x) eqn:Eig.
    + (* excluded: skipped *)
      exists []. split; [apply add_dir_body_runs_ignored; congruence|]. split; [constructor|].
      cbn [apply_effects fold_left]. revert J. apply add_state_ext.
      * intros q d (Hin & Hf & Hm). apply in_app_or in Hin. destruct Hin as [Hin|[<-|[]]]; [auto | congruence].
      * intros q [].
      * intros q [[d (Hin & Hf & Hm)]|[]]. left. exists d. split; [apply in_or_app; left; exact Hin | auto].
    + destruct (add_file_state w1 x data (as_canon _ _ _ _ J) Hdata1) as (tr & Hr & Hg & Hn & B).
      exists tr. split; [apply add_dir_body_runs_add; [congruence | exact Hr]|]. split; [exact Hg|].
      destruct (in_dec bytes_eq_dec x done) as [Hxd|Hxd].
      * (* listed twice: already staged with this very id *)
        assert (Hst : staged w1 x = Some (blob_id data)).
        { apply (as_staged _ _ _ _ J). split; [exact Hxd|]. split; [exact Hdata | exact Eig]. }
        rewrite (Hn Hst). cbn [apply_effects fold_left]. revert J. apply add_state_ext.
        -- intros q d (Hin & Hf & Hm). apply in_app_or in Hin.
           destruct Hin as [Hin|[<-|[]]]; [auto | split; [exact Hxd | auto]].
        -- intros q [].
        -- intros q [[d (Hin & Hf & Hm)]|[]]. left. exists d. split; [apply in_or_app; left; exact Hin | auto].
      * pose proof (add_state_seq _ _ _ _ _ _ _ J B) as JB.
        assert (Hdis : forall q, touched (fun q0 d => q0 = x /\ d = data) (fun _ => False) q ->
                  ~ touched (fun q0 d => In q0 done /\ file w q0 = Some d /\ ign_match (x_pats c) q0 = false)
                            (fun _ => False) q).
        { intros q [[d [-> _]]|[]] [[d' [Hin _]]|[]]. exact (Hxd Hin). }
        specialize (JB Hdis). revert JB. apply add_state_ext.
        -- intros q d (Hin & Hf & Hm). apply in_app_or in Hin. destruct Hin as [Hin|[<-|[]]].
           ++ left. auto.
           ++ right. split; [reflexivity | congruence].
        -- intros q [].
        -- intros q [[d [(Hin & Hf & Hm)|[-> ->]]]|[[]|[]]]; left.
           ++ exists d. split; [apply in_or_app; left; exact Hin | auto].
           ++ exists data. split; [apply in_or_app; right; left; reflexivity | auto].
Qed.

(* ---------- one argument ---------- *)
(* the files [add a] stages, with their bytes: [a] itself when it is a file; every file
   beneath [a] when it is a directory.  The model's exclusion test: the ARGUMENT is
   tested once with [ignored] (for a directory: the name with a trailing slash); each file
   beneath a directory argument is tested on its own full path ([ignored w pats q], which
   for an existing file is [ign_match pats q]); intermediate directories are NOT tested
   separately (a directory pattern "out/" excludes "d/out/f" through the match on the
   file's own path). *)
Definition arg_stages (w : world) (pats : list regex) (a q data : bytes) : Prop :=
  ignored w pats a = false /\ file w q = Some data /\
  ((q = a /\ wt_stat w a = SFile) \/
   (wt_stat w a = SDir /\ under_dir a q = true /\ ignored w pats q = false)).
(* the paths [add a] unstages: [a] is not on disk (nothing there, or a file sits where a
   directory of its path should be); then [a] itself when tracked, else every tracked path
   beneath it *)
Definition arg_unstages (w : world) (pats : list regex) (a q : bytes) : Prop :=
  ignored w pats a = false /\ exists_on_disk w a = false /\
  ((q = a /\ staged w a <> None) \/
   (staged w a = None /\ under_dir a q = true /\ staged w q <> None)).

Lemma tracked_true_staged : forall w p, tracked w p = true <-> staged w p <> None.
Proof.
  intros w p. rewrite stg_tracked. destruct (staged w p); split; intro H; try reflexivity; try discriminate.
  contradiction H. reflexivity.
Qed.

Lemma tracked_false_staged : forall w p, tracked w p = false <-> staged w p = None.
Proof. intros w p. rewrite stg_tracked. destruct (staged w p); split; intro H; try reflexivity; discriminate. Qed.

Lemma add_missing_state : forall w pats a, Canonical (idx_of w) ->
  exists_on_disk w a = false -> add_valid w a = true -> ignored w pats a = false ->
  exists tr, runs (add_missing_body w a) w (Ok tt) tr /\ Forall add_eff tr /\
             add_state w (arg_stages w pats a) (arg_unstages w pats a) (apply_effects tr w).
Proof.
  intros w pats a Hc Hdisk Hv Hig. unfold add_valid in Hv. rewrite Hdisk in Hv. cbn [orb] in Hv.
  assert (Hnost : forall q d, ~ arg_stages w pats a q d).
  { intros q d (_ & _ & [[_ Hs]|[Hs _]]); unfold exists_on_disk in Hdisk; rewrite Hs in Hdisk; discriminate Hdisk. }
  unfold add_missing_body. destruct (tracked w a) eqn:Ht.
  - (* a tracked path that is gone *)
    pose proof (proj1 (tracked_true_staged w a) Ht) as Hst.
    destruct (stg_delete_some (idx_of w) a Hc Hst) as [i Hd].
    exists [ESetIndex i]. split; [ropt i Hd; rstep|]. split; [repeat constructor|].
    rewrite apply_effects_one. generalize (unstage_state w a i Hc Hd). apply add_state_ext.
    + intros q d Hq. exact (Hnost q d Hq).
    + intros q (_ & _ & [[-> _]|[Hn _]]); [reflexivity | contradiction (Hst Hn)].
    + intros q [[d []]| ->]. right. split; [exact Hig|]. split; [exact Hdisk|]. left. split; [reflexivity | exact Hst].
  - (* a tracked directory that is gone *)
    cbn [orb] in Hv. rewrite Hv. pose proof (proj1 (tracked_false_staged w a) Ht) as Hst.
    set (l := map e_path (entries_by_dir (idx_of w) a)).
    assert (Hl : forall q, In q l <-> staged w q <> None /\ under_dir a q = true).
    { intro q. apply (dir_targets_iff (idx_of w) a q Hc). }
    destruct (add_unstage_list_spec l w Hc (dir_targets_nodup (idx_of w) a Hc)) as (tr & Hr & Hg & _ & Hp).
    { intros q Hq. apply Hl in Hq. exact (proj1 Hq). }
    exists tr. split; [exact Hr|]. split.
    { apply (Forall_impl _ (P := fun e => is_idx e = true)); [|exact Hg].
      intros e He. destruct e; try discriminate He. exact Logic.I. }
    destruct Hp as [Pc Pg Po Pw Pm [Pob Pcl]]. constructor.
    + exact Pc.
    + exact Pw.
    + exact Pm.
    + intro H. rewrite <- Pcl. exact H.
    + intros _ id kd Hgo. rewrite Pob. exact Hgo.
    + intros q d Hq. contradiction (Hnost q d Hq).
    + intros q d Hq. contradiction (Hnost q d Hq).
    + intros q (_ & _ & [[-> Hn]|(_ & Hu & Hq)]); [contradiction (Hn Hst)|]. apply Pg. apply Hl. auto.
    + intros q Hq. apply Po. intro Hin. apply Hl in Hin. destruct Hin as [H1 H2]. apply Hq. right.
      split; [exact Hig|]. split; [exact Hdisk|]. right. auto.
Qed.

Lemma add_arg_state : forall c w a, Canonical (idx_of w) -> ex_wt_consistent w -> add_valid w a = true ->
  exists tr, runs (add_arg c a) w (Ok tt) tr /\ Forall add_eff tr /\
             add_state w (arg_stages w (x_pats c) a) (arg_unstages w (x_pats c) a) (apply_effects tr w).
Proof.
  intros c w a Hc Hcons Hv. unfold add_arg.
  destruct (ignored w (x_pats c) a) eqn:Hig.
  - (* the argument itself is excluded: skipped *)
    exists []. split; [rstep; rewrite Hig; rstep|]. split; [constructor|].
    cbn [apply_effects fold_left]. generalize (add_state_refl w Hc). apply add_state_ext.
    + intros q d (H & _). congruence.
    + intros q (H & _). congruence.
    + intros q [[d []]|[]].
  - destruct (wt_stat w a) eqn:Hs.
    + (* a file *)
      destruct (file w a) as [data|] eqn:Hf; [|contradiction (wt_stat_SFile w a Hs Hf)].
      destruct (add_file_state w a data Hc Hf) as (tr & Hr & Hg & _ & B).
      exists tr. split; [rstep; rewrite Hig, Hs; exact Hr|]. split; [exact Hg|].
      revert B. apply add_state_ext.
      * intros q d (_ & Hfq & [[-> _]|[H _]]); [split; [reflexivity | congruence] | congruence].
      * intros q (_ & Hd & _). unfold exists_on_disk in Hd. rewrite Hs in Hd. discriminate Hd.
      * intros q [[d [-> ->]]|[]]. left. exists data. split; [exact Hig|]. split; [exact Hf|]. left. auto.
    + (* a directory *)
      destruct (add_files_state c w (files_under w a) Hc Hcons) as (tr & Hr & Hg & B).
      { intros f Hf. exact (proj2 (files_under_in w a f Hf)). }
      exists tr. split; [rstep; rewrite Hig, Hs; exact Hr|]. split; [exact Hg|].
      revert B. apply add_state_ext.
      * intros q d (_ & Hfq & [[_ H]|(_ & Hu & Hiq)]); [congruence|].
        split; [apply (files_under_intro w a q d); [apply am_get_In; exact Hfq | exact Hu]|].
        split; [exact Hfq|]. rewrite <- (ignored_file w (x_pats c) q (Hcons q d Hfq)). exact Hiq.
      * intros q (_ & Hd & _). unfold exists_on_disk in Hd. rewrite Hs in Hd. discriminate Hd.
      * intros q [[d (Hin & Hfq & Hm)]|[]]. left. exists d. split; [exact Hig|]. split; [exact Hfq|].
        right. split; [exact Hs|]. split; [exact (proj1 (files_under_in w a q Hin))|].
        rewrite (ignored_file w (x_pats c) q (Hcons q d Hfq)). exact Hm.
    + destruct (add_missing_state w (x_pats c) a Hc) as (tr & Hr & Hg & B); try assumption.
      { unfold exists_on_disk. rewrite Hs. reflexivity. }
      exists tr. split; [rstep; rewrite Hig, Hs; exact Hr|]. split; assumption.
    + destruct (add_missing_state w (x_pats c) a Hc) as (tr & Hr & Hg & B); try assumption.
      { unfold exists_on_disk. rewrite Hs. reflexivity. }
      exists tr. split; [rstep; rewrite Hig, Hs; exact Hr|]. split; assumption.
Qed.

(* ================================================================== *)
(** * 2. Argument lists *)

(* the paths an argument can touch: itself and what lies beneath it *)
Definition covers (a q : bytes) : Prop := q = a \/ under_dir a q = true.
(* two arguments that cannot touch a common path: neither equals the other, neither lies
   beneath the other ("." covers every non-empty path) *)
Definition apart (a b : bytes) : Prop := forall q, covers a q -> covers b q -> False.
Fixpoint no_overlap (l : list bytes) : Prop :=
  match l with
  | [] => True
  | x :: r => (forall a, In a r -> apart x a) /\ no_overlap r
  end.

Lemma apart_sym : forall a b, apart a b -> apart b a.
Proof. intros a b H q Hb Ha. exact (H q Ha Hb). Qed.

Lemma no_overlap_mid : forall done x rest, no_overlap (done ++ x :: rest) ->
  forall a, In a done -> apart a x.
Proof.
  induction done as [|y done IH]; intros x rest Hno a Ha; [contradiction Ha|].
  cbn [app no_overlap] in Hno. destruct Hno as [Hy Hrest]. destruct Ha as [<-|Ha].
  - apply Hy. apply in_or_app. right. left. reflexivity.
  - apply (IH x rest Hrest a Ha).
Qed.

Definition add_stages (w : world) (pats : list regex) (args : list bytes) (q data : bytes) : Prop :=
  exists a, In a args /\ arg_stages w pats a q data.
Definition add_unstages (w : world) (pats : list regex) (args : list bytes) (q : bytes) : Prop :=
  exists a, In a args /\ arg_unstages w pats a q.

Lemma arg_stages_covers : forall w pats a q d, arg_stages w pats a q d -> covers a q.
Proof. intros w pats a q d (_ & _ & [[-> _]|(_ & Hu & _)]); [left; reflexivity | right; exact Hu]. Qed.

Lemma arg_unstages_covers : forall w pats a q, arg_unstages w pats a q -> covers a q.
Proof. intros w pats a q (_ & _ & [[-> _]|(_ & Hu & _)]); [left; reflexivity | right; exact Hu]. Qed.

(* ---------- an argument sees the same thing after the arguments apart from it ---------- *)
Lemma bool_eq_iff : forall a b : bool, (a = true <-> b = true) -> a = b.
Proof.
  intros a b [H1 H2]. destruct a, b; try reflexivity.
  - symmetry. apply H1. reflexivity.
  - apply H2. reflexivity.
Qed.

Section Transfer.
  Variables (w w1 : world) (x : bytes).
  Hypothesis Hc : Canonical (idx_of w).
  Hypothesis Hc1 : Canonical (idx_of w1).
  Hypothesis Hwt : same_wt w w1.
  Hypothesis Hsame : forall q, covers x q -> staged w1 q = staged w q.

  Lemma tr_tracked : tracked w1 x = tracked w x.
  Proof. rewrite !stg_tracked, (Hsame x); [reflexivity | left; reflexivity]. Qed.

  Lemma tr_is_dir : is_dir (idx_of w1) x = is_dir (idx_of w) x.
  Proof.
    apply bool_eq_iff. rewrite (tracked_dir_iff_canonical w1 x Hc1), (tracked_dir_iff_canonical w x Hc).
    split; intros [p [Ht Hu]]; exists p; (split; [|exact Hu]);
      rewrite stg_tracked in *; [rewrite <- (Hsame p) | rewrite (Hsame p)]; try exact Ht; right; exact Hu.
  Qed.

  Lemma tr_stat : forall q, wt_stat w1 q = wt_stat w q.
  Proof. intro q. destruct Hwt as [Hf Hd]. apply wt_stat_ext; assumption. Qed.

  Lemma tr_file : forall q, file w1 q = file w q.
  Proof. intro q. destruct Hwt as [Hf Hd]. unfold file. rewrite Hf. reflexivity. Qed.

  Lemma tr_ignored : forall pats, ignored w1 pats x = ignored w pats x.
  Proof.
    intro pats. unfold ignored. rewrite tr_stat.
    assert (E : is_nil (entries_by_dir (idx_of w1) x) = is_nil (entries_by_dir (idx_of w) x)).
    { pose proof tr_is_dir as H. unfold is_dir in H.
      destruct (is_nil (entries_by_dir (idx_of w1) x)), (is_nil (entries_by_dir (idx_of w) x));
        try reflexivity; discriminate H. }
    rewrite E. reflexivity.
  Qed.

  Lemma tr_valid : add_valid w1 x = add_valid w x.
  Proof. unfold add_valid, exists_on_disk. rewrite tr_stat, tr_tracked, tr_is_dir. reflexivity. Qed.

  Lemma tr_consistent : ex_wt_consistent w -> ex_wt_consistent w1.
  Proof. intros H f d Hf. rewrite tr_stat. apply (H f d). rewrite <- tr_file. exact Hf. Qed.

  Lemma tr_stages : forall pats q d, ex_wt_consistent w ->
    (arg_stages w1 pats x q d <-> arg_stages w pats x q d).
  Proof.
    intros pats q d Hcons. unfold arg_stages. rewrite tr_ignored, tr_file, !tr_stat.
    destruct Hwt as [Hf Hd].
    split; intros (H1 & H2 & H3); (split; [exact H1|]); (split; [exact H2|]);
      (destruct H3 as [H3|(H3 & H4 & H5)]; [left; exact H3|right]); (split; [exact H3|]); (split; [exact H4|]);
      destruct (ignored_file_indep w w1 pats q Hf Hd (Hcons q d H2)) as [E _]; congruence.
  Qed.

  Lemma tr_unstages : forall pats q, arg_unstages w1 pats x q <-> arg_unstages w pats x q.
  Proof.
    intros pats q. unfold arg_unstages, exists_on_disk. rewrite tr_ignored, tr_stat.
    rewrite (Hsame x) by (left; reflexivity).
    split; intros (H1 & H2 & H3); (split; [exact H1|]); (split; [exact H2|]);
      (destruct H3 as [H3|(H3 & H4 & H5)]; [left; exact H3|right]); (split; [exact H3|]); (split; [exact H4|]);
      [rewrite <- (Hsame q) | rewrite (Hsame q)]; try exact H5; right; exact H4.
  Qed.
End Transfer.

(* ---------- (A1) at the level of the command ---------- *)
Theorem cmd_add_total : forall c w args, Canonical (idx_of w) -> ex_wt_consistent w ->
  args <> [] -> (forall a, In a args -> add_valid w a = true) -> no_overlap args ->
  exists tr, runs (cmd_add c args) w (Ok []) tr /\ Forall add_eff tr /\
             add_state w (add_stages w (x_pats c) args) (add_unstages w (x_pats c) args) (apply_effects tr w).
Proof.
  intros c w args Hc Hcons Hne Hvalid Hno.
  destruct (runs_iterM _ (add_arg c)
              (fun done w1 => add_state w (add_stages w (x_pats c) done) (add_unstages w (x_pats c) done) w1)
              add_eff args w) as (tr & Hr & Hg & Hp).
  - generalize (add_state_refl w Hc). apply add_state_ext.
    + intros q d [a [[] _]].
    + intros q [a [[] _]].
    + intros q [[d []]|[]].
  - intros done x rest w1 El J.
    assert (Hx : In x args) by (rewrite El; apply in_or_app; right; left; reflexivity).
    assert (Hap : forall a, In a done -> apart a x) by (rewrite El in Hno; apply (no_overlap_mid done x rest Hno)).
    assert (Hnt : forall q, covers x q ->
              ~ touched (add_stages w (x_pats c) done) (add_unstages w (x_pats c) done) q).
    { intros q Hq [[d [a [Ha Hs]]]|[a [Ha Hu]]].
      - apply (Hap a Ha q); [apply (arg_stages_covers _ _ _ _ _ Hs) | exact Hq].
      - apply (Hap a Ha q); [apply (arg_unstages_covers _ _ _ _ Hu) | exact Hq]. }
    assert (Hsame : forall q, covers x q -> staged w1 q = staged w q).
    { intros q Hq. apply (as_others _ _ _ _ J). apply Hnt. exact Hq. }
    pose proof (as_canon _ _ _ _ J) as Hc1. pose proof (as_wt _ _ _ _ J) as Hwt.
    destruct (add_arg_state c w1 x Hc1 (tr_consistent w w1 Hwt Hcons)) as (tr & Hr & Hg & B).
    { rewrite (tr_valid w w1 x Hc Hc1 Hwt Hsame). apply Hvalid. exact Hx. }
    exists tr. split; [exact Hr|]. split; [exact Hg|].
    assert (B' : add_state w1 (arg_stages w (x_pats c) x) (arg_unstages w (x_pats c) x) (apply_effects tr w1)).
    { revert B. apply add_state_ext.
      - intros q d H. apply (tr_stages w w1 x Hc Hc1 Hwt Hsame); assumption.
      - intros q H. apply (tr_unstages w w1 x Hc Hc1 Hwt Hsame); assumption.
      - intros q [[d H]|H]; [left; exists d; apply (tr_stages w w1 x Hc Hc1 Hwt Hsame); assumption
                            | right; apply (tr_unstages w w1 x Hc Hc1 Hwt Hsame); assumption]. }
    assert (Hdis : forall q, touched (arg_stages w (x_pats c) x) (arg_unstages w (x_pats c) x) q ->
              ~ touched (add_stages w (x_pats c) done) (add_unstages w (x_pats c) done) q).
    { intros q [[d H]|H]; apply Hnt; [apply (arg_stages_covers _ _ _ _ _ H) | apply (arg_unstages_covers _ _ _ _ H)]. }
    generalize (add_state_seq _ _ _ _ _ _ _ J B' Hdis). apply add_state_ext.
    + intros q d [a [Ha Hs]]. apply in_app_or in Ha. destruct Ha as [Ha|[<-|[]]]; [left; exists a; auto | right; exact Hs].
    + intros q [a [Ha Hs]]. apply in_app_or in Ha. destruct Ha as [Ha|[<-|[]]]; [left; exists a; auto | right; exact Hs].
    + intros q [[d [[a [Ha Hs]]|Hs]]|[[a [Ha Hs]]|Hs]].
      * left. exists d, a. split; [apply in_or_app; left; exact Ha | exact Hs].
      * left. exists d, x. split; [apply in_or_app; right; left; reflexivity | exact Hs].
      * right. exists a. split; [apply in_or_app; left; exact Ha | exact Hs].
      * right. exists x. split; [apply in_or_app; right; left; reflexivity | exact Hs].
  - exists tr. split; [|split; [exact Hg | exact Hp]].
    rewrite cmd_add_uses_arg.
    apply runs_bind_guard; [destruct args; [contradiction Hne; reflexivity | reflexivity]|]. rstep. rstep.
    apply runs_bind_guard.
    { apply forallb_forall. intros a Ha. apply (Hvalid a Ha). }
    rewrite <- (app_nil_r tr). apply runs_seq; [exact Hr|]. rstep.
Qed.

(* ---------- re-adding unchanged files: nothing at all happens ---------- *)
Lemma add_files_noop : forall c w l,
  Canonical (idx_of w) ->
  (forall f, In f l -> exists data, file w f = Some data /\
                        (ignored w (x_pats c) f = false -> staged w f = Some (blob_id data))) ->
  runs (iterM (add_dir_body c) l) w (Ok tt) [].
Proof.
  intros c w l Hc. induction l as [|f l IH]; intro Hl; [apply runs_ret|].
  cbn [iterM]. change (@nil effect) with (@nil effect ++ []). apply runs_seq.
  - destruct (Hl f (or_introl eq_refl)) as (data & Hf & Hst).
    destruct (ignored w (x_pats c) f) eqn:Hig.
    + apply add_dir_body_runs_ignored. exact Hig.
    + apply add_dir_body_runs_add; [exact Hig|].
      exact (proj1 (add_file_unchanged w f data Hc Hf (Hst eq_refl))).
  - cbn [apply_effects fold_left]. apply IH. intros g Hg. apply Hl. right. exact Hg.
Qed.

Lemma add_arg_noop : forall c w a, Canonical (idx_of w) -> add_valid w a = true ->
  (forall q d, arg_stages w (x_pats c) a q d -> staged w q = Some (blob_id d)) ->
  (forall q, ~ arg_unstages w (x_pats c) a q) ->
  runs (add_arg c a) w (Ok tt) [].
Proof.
  intros c w a Hc Hv Hst Hun. unfold add_arg. rstep.
  destruct (ignored w (x_pats c) a) eqn:Hig; [rstep|].
  assert (Hmiss : exists_on_disk w a = false -> runs (add_missing_body w a) w (Ok tt) []).
  { intro Hdisk. exfalso. unfold add_valid in Hv. rewrite Hdisk in Hv. cbn [orb] in Hv.
    destruct (tracked w a) eqn:Ht.
    - apply (Hun a). split; [exact Hig|]. split; [exact Hdisk|]. left.
      split; [reflexivity | apply tracked_true_staged; exact Ht].
    - cbn [orb] in Hv. apply is_dir_iff in Hv. destruct Hv as [en [Hin Hu]].
      apply (Hun (e_path en)). split; [exact Hig|]. split; [exact Hdisk|]. right.
      split; [apply tracked_false_staged; exact Ht|]. split; [exact Hu|].
      apply tracked_true_staged. apply In_tracked; assumption. }
  destruct (wt_stat w a) eqn:Hs.
  - destruct (file w a) as [data|] eqn:Hf; [|contradiction (wt_stat_SFile w a Hs Hf)].
    apply (add_file_unchanged w a data Hc Hf). apply Hst.
    split; [exact Hig|]. split; [exact Hf|]. left. split; [reflexivity | exact Hs].
  - apply add_files_noop; [exact Hc|]. intros f Hf.
    destruct (files_under_in w a f Hf) as [Hu [data Hd]]. exists data. split; [exact Hd|].
    intro Hif. apply Hst. split; [exact Hig|]. split; [exact Hd|]. right. auto.
  - apply Hmiss. unfold exists_on_disk. rewrite Hs. reflexivity.
  - apply Hmiss. unfold exists_on_disk. rewrite Hs. reflexivity.
Qed.

(* any argument list, repeated and overlapping arguments included *)
Theorem cmd_add_noop : forall c w args, Canonical (idx_of w) ->
  args <> [] -> (forall a, In a args -> add_valid w a = true) ->
  (forall q d, add_stages w (x_pats c) args q d -> staged w q = Some (blob_id d)) ->
  (forall q, ~ add_unstages w (x_pats c) args q) ->
  runs (cmd_add c args) w (Ok []) [].
Proof.
  intros c w args Hc Hne Hvalid Hst Hun.
  assert (Hloop : forall l, (forall a, In a l -> In a args) -> runs (iterM (add_arg c) l) w (Ok tt) []).
  { induction l as [|a l IH]; intro Hsub; [apply runs_ret|].
    cbn [iterM]. change (@nil effect) with (@nil effect ++ []). apply runs_seq.
    - assert (Ha : In a args) by (apply Hsub; left; reflexivity).
      apply add_arg_noop; [exact Hc | apply Hvalid; exact Ha | |].
      + intros q d H. apply Hst. exists a. auto.
      + intros q H. apply (Hun q). exists a. auto.
    - cbn [apply_effects fold_left]. apply IH. intros b Hb. apply Hsub. right. exact Hb. }
  rewrite cmd_add_uses_arg.
  apply runs_bind_guard; [destruct args; [contradiction Hne; reflexivity | reflexivity]|]. rstep. rstep.
  apply runs_bind_guard.
  { apply forallb_forall. intros a Ha. apply (Hvalid a Ha). }
  change (@nil effect) with (@nil effect ++ []). apply runs_seq; [apply Hloop; auto|]. rstep.
Qed.

(* ================================================================== *)
(** * 3. (A1) on reachable worlds, at the level of [step] *)

Lemma step_add_runs : forall e c w args r tr,
  w_inited w = true -> ctx_of w = Some c ->
  runs (cmd_add c args) w r tr ->
  step (ACmd e (CAdd args)) w = (apply_effects tr w, outcome_of r, tr).
Proof.
  intros e c w args r tr Hi Hx Hr.
  rewrite (step_loaded e (CAdd args) w c); [|discriminate | exact Hi | exact Hx].
  cbn [dispatch]. rewrite (Hr []). reflexivity.
Qed.

Lemma step_rm_runs : forall e c w args r tr,
  w_inited w = true -> ctx_of w = Some c ->
  runs (cmd_rm args) w r tr ->
  step (ACmd e (CRm args)) w = (apply_effects tr w, outcome_of r, tr).
Proof.
  intros e c w args r tr Hi Hx Hr.
  rewrite (step_loaded e (CRm args) w c); [|discriminate | exact Hi | exact Hx].
  cbn [dispatch]. rewrite (Hr []). reflexivity.
Qed.

Record add_result (w : world) (pats : list regex) (args : list bytes) (w' : world) : Prop := {
  (* every selected, non-excluded file is staged with the blob id of its current bytes ... *)
  ar_staged : forall q data, add_stages w pats args q data -> staged w' q = Some (blob_id data);
  (* ... and that blob is stored (no collision met by this command; when the file was
     already staged with this id, the blob stored under it is the file: [faithful]) *)
  ar_stored : w_coll w' = false ->
              forall q data, add_stages w pats args q data -> faithful w q data -> small data ->
              get_obj (w_objs w') (blob_id data) = Some (KBlob, data);
  (* every missing tracked path named, or beneath a missing tracked directory named, is unstaged *)
  ar_unstaged : forall q, add_unstages w pats args q -> staged w' q = None;
  (* every other path keeps its staged value *)
  ar_others : forall q, (forall data, ~ add_stages w pats args q data) -> ~ add_unstages w pats args q ->
              staged w' q = staged w q;
  (* work tree, refs, HEAD, logs, configs untouched; no stored object lost *)
  ar_wt : same_wt w w';
  ar_meta : same_meta w w';
  ar_kept : w_coll w' = false -> objs_kept w w';
  ar_canon : Canonical (idx_of w')
}.

Lemma add_state_result : forall w pats args w',
  add_state w (add_stages w pats args) (add_unstages w pats args) w' -> add_result w pats args w'.
Proof.
  intros w pats args w' [Ac Aw Am Acl Ak As Ast Au Ao]. constructor; try assumption.
  - intros Hcl q d Hq Hf Hsm. apply (Ast q d); assumption.
  - intros q H1 H2. apply Ao. intros [[d Hd]|Hu]; [exact (H1 d Hd) | exact (H2 Hu)].
Qed.

(* (A1) *)
Theorem add_total : forall e c w args,
  Reachable w -> w_coll w = false -> SmallStore (w_objs w) ->
  w_inited w = true -> ctx_of w = Some c -> ex_wt_consistent w ->
  args <> [] -> (forall a, In a args -> add_valid w a = true) -> no_overlap args ->
  exists w' tr,
    step (ACmd e (CAdd args)) w = (w', OOk [], tr) /\
    w' = apply_effects tr w /\ Forall add_eff tr /\
    add_result w (x_pats c) args w'.
Proof.
  intros e c w args Hr Hcl Hsm Hi Hx Hcons Hne Hvalid Hno.
  destruct (cmd_add_total c w args (reach_canonical w Hr Hcl Hsm) Hcons Hne Hvalid Hno) as (tr & Hruns & Hg & Hp).
  exists (apply_effects tr w), tr. split; [|split; [reflexivity|split; [exact Hg|]]].
  - rewrite (step_add_runs e c w args (Ok []) tr Hi Hx Hruns). reflexivity.
  - apply add_state_result. exact Hp.
Qed.

(* "re-adding unchanged files changes nothing": when every file the arguments select is
   already staged with the blob id of its bytes and no named path is missing, the command
   answers Ok, performs no effect and leaves the world as it is.  Any argument list. *)
Corollary re_add_unchanged_changes_nothing : forall e c w args,
  Reachable w -> w_coll w = false -> SmallStore (w_objs w) ->
  w_inited w = true -> ctx_of w = Some c ->
  args <> [] -> (forall a, In a args -> add_valid w a = true) ->
  (forall q data, add_stages w (x_pats c) args q data -> staged w q = Some (blob_id data)) ->
  (forall q, ~ add_unstages w (x_pats c) args q) ->
  step (ACmd e (CAdd args)) w = (w, OOk [], []).
Proof.
  intros e c w args Hr Hcl Hsm Hi Hx Hne Hvalid Hst Hun.
  pose proof (cmd_add_noop c w args (reach_canonical w Hr Hcl Hsm) Hne Hvalid Hst Hun) as Hruns.
  rewrite (step_add_runs e c w args (Ok []) [] Hi Hx Hruns). reflexivity.
Qed.

(* the same as a statement about the outcome of [add_total] *)
Corollary add_total_unchanged : forall e c w args w' tr,
  Reachable w -> w_coll w = false -> SmallStore (w_objs w) ->
  w_inited w = true -> ctx_of w = Some c ->
  args <> [] -> (forall a, In a args -> add_valid w a = true) ->
  (forall q data, add_stages w (x_pats c) args q data -> staged w q = Some (blob_id data)) ->
  (forall q, ~ add_unstages w (x_pats c) args q) ->
  step (ACmd e (CAdd args)) w = (w', OOk [], tr) -> w' = w /\ tr = [].
Proof.
  intros e c w args w' tr Hr Hcl Hsm Hi Hx Hne Hvalid Hst Hun Hstep.
  rewrite (re_add_unchanged_changes_nothing e c w args Hr Hcl Hsm Hi Hx Hne Hvalid Hst Hun) in Hstep.
  injection Hstep as <- <-. split; reflexivity.
Qed.

(* ================================================================== *)
(** * 4. [rm]: argument lists *)

(* what [rm a] removes: [a] itself when it is a tracked path, else the tracked paths beneath it *)
Definition arg_removes (w : world) (a q : bytes) : Prop :=
  (q = a /\ staged w a <> None) \/
  (staged w a = None /\ under_dir a q = true /\ staged w q <> None).
Definition rm_selected (w : world) (args : list bytes) (q : bytes) : Prop :=
  exists a, In a args /\ arg_removes w a q.

Lemma arg_removes_covers : forall w a q, arg_removes w a q -> covers a q.
Proof. intros w a q [[-> _]|(_ & Hu & _)]; [left; reflexivity | right; exact Hu]. Qed.

Lemma arg_removes_staged : forall w a q, arg_removes w a q -> staged w q <> None.
Proof. intros w a q [[-> H]|(_ & _ & H)]; exact H. Qed.

Lemma rm_selected_staged : forall w args q, rm_selected w args q -> staged w q <> None.
Proof. intros w args q [a [_ H]]. exact (arg_removes_staged w a q H). Qed.

Lemma rm_post_ext : forall w (sel sel' : bytes -> Prop) w',
  (forall q, sel q <-> sel' q) -> rm_many_post w sel w' -> rm_many_post w sel' w'.
Proof.
  intros w sel sel' w' Hiff [Pc Pnd Po Pm Pg Pk Psf Psn]. constructor; try assumption.
  - intros q Hq. apply Pg. apply Hiff. exact Hq.
  - intros q Hq. apply Pk. intro H. apply Hq. apply Hiff. exact H.
  - intros q Hs Hq. apply Psf; [exact Hs|]. intro H. apply Hq. apply Hiff. exact H.
Qed.

Lemma rm_post_refl : forall w, Canonical (idx_of w) -> ex_nodup_keys (w_files w) ->
  rm_many_post w (fun _ => False) w.
Proof.
  intros w Hc Hnd. constructor; try (intros; contradiction); auto.
  - apply same_objs_refl.
  - apply same_meta_refl.
Qed.

Lemma rm_post_seq : forall w (sel sel' : bytes -> Prop) w1 w2,
  rm_many_post w sel w1 -> rm_many_post w1 sel' w2 -> (forall q, sel' q -> ~ sel q) ->
  rm_many_post w (fun q => sel q \/ sel' q) w2.
Proof.
  intros w sel sel' w1 w2 [Ac And Ao Am Ag Ak Asf Asn] [Bc Bnd Bo Bm Bg Bk Bsf Bsn] Hdis.
  constructor.
  - exact Bc.
  - exact Bnd.
  - apply (same_objs_trans _ _ _ Ao Bo).
  - apply (same_meta_trans _ _ _ Am Bm).
  - intros q [Hq|Hq]; [|apply Bg; exact Hq].
    assert (Hn : ~ sel' q) by (intro H; exact (Hdis q H Hq)).
    destruct (Bk q Hn) as [E1 E2]. rewrite E1, E2. apply Ag. exact Hq.
  - intros q Hq.
    assert (Hn : ~ sel q) by (intro H; apply Hq; left; exact H).
    assert (Hn' : ~ sel' q) by (intro H; apply Hq; right; exact H).
    destruct (Bk q Hn') as [E1 E2]. destruct (Ak q Hn) as [E3 E4]. rewrite E1, E2. auto.
  - intros q Hs Hq. apply Bsf; [apply Asf; [exact Hs|] |]; intro H; apply Hq; [left | right]; exact H.
  - intros q Hs. apply Bsn. apply Asn. exact Hs.
Qed.

(* ---------- one argument ---------- *)
Lemma rm_arg_spec : forall w a, Canonical (idx_of w) -> ex_nodup_keys (w_files w) ->
  (forall q, arg_removes w a q -> wt_stat w q = SFile \/ wt_stat w q = SNone) ->
  exists tr, runs (rm_body a) w (Ok tt) tr /\
             Forall (fun e => rm_eff e /\ forall q, e = ERemovePath q -> arg_removes w a q) tr /\
             rm_many_post w (arg_removes w a) (apply_effects tr w).
Proof.
  intros w a Hc Hnd Hdisk. unfold rm_body. destruct (tracked w a) eqn:Ht.
  - pose proof (proj1 (tracked_true_staged w a) Ht) as Hst.
    assert (Hsel : arg_removes w a a) by (left; split; [reflexivity | exact Hst]).
    destruct (rm_one_spec w a Hc Hnd Hst (Hdisk a Hsel)) as (tr & Hr & Hg & Hrm & Hp).
    exists tr. split; [rstep; rewrite Ht; exact Hr|]. split.
    { apply Forall_forall. intros e He. split; [apply (proj1 (Forall_forall _ _) Hg e He)|].
      intros q ->. rewrite (Hrm q He). exact Hsel. }
    destruct Hp as [Pc Ps Pso Pf Pfo Pnd Po Pm Psf Psn].
    assert (Hiff : forall q, arg_removes w a q <-> q = a).
    { intro q. split; [intros [[E _]|[Hn _]]; [exact E | contradiction (Hst Hn)] | intros ->; exact Hsel]. }
    constructor; try assumption.
    + intros q Hq. apply Hiff in Hq. subst q. split; assumption.
    + intros q Hq. assert (Hne : q <> a) by (intro E; apply Hq; apply Hiff; exact E).
      split; [apply Pso | apply Pfo]; exact Hne.
    + intros q Hs Hq. apply Psf; [exact Hs|]. intro E. apply Hq. apply Hiff. exact E.
  - pose proof (proj1 (tracked_false_staged w a) Ht) as Hst.
    set (l := map e_path (entries_by_dir (idx_of w) a)).
    assert (Hl : forall q, In q l <-> arg_removes w a q).
    { intro q. unfold l. rewrite (dir_targets_iff (idx_of w) a q Hc), <- staged_stg. split.
      - intros [H1 H2]. right. auto.
      - intros [[-> H]|(_ & H1 & H2)]; [contradiction (H Hst) | auto]. }
    destruct (rm_list_spec w l Hc Hnd (dir_targets_nodup (idx_of w) a Hc)) as (tr & Hr & Hg & Hp).
    { intros q Hq. apply Hl in Hq. split; [exact (arg_removes_staged w a q Hq) | apply Hdisk; exact Hq]. }
    exists tr. split; [rstep; rewrite Ht; exact Hr|]. split.
    { apply Forall_forall. intros e He. destruct (proj1 (Forall_forall _ _) Hg e He) as [H1 H2].
      split; [exact H1|]. intros q Eq. apply Hl. apply H2. exact Eq. }
    revert Hp. apply rm_post_ext. exact Hl.
Qed.

(* ---------- (A2) at the level of the command ---------- *)
Theorem cmd_rm_total : forall w args, Canonical (idx_of w) -> ex_nodup_keys (w_files w) ->
  (forall a, In a args -> rm_valid w a = true) -> no_overlap args ->
  (forall q, rm_selected w args q -> wt_stat w q = SFile \/ wt_stat w q = SNone) ->
  exists tr, runs (cmd_rm args) w (Ok []) tr /\
             Forall (fun e => rm_eff e /\ forall q, e = ERemovePath q -> rm_selected w args q) tr /\
             rm_many_post w (rm_selected w args) (apply_effects tr w).
Proof.
  intros w args Hc Hnd Hvalid Hno Hdisk.
  destruct (runs_iterM _ rm_body
              (fun done w1 => rm_many_post w (rm_selected w done) w1)
              (fun e => rm_eff e /\ forall q, e = ERemovePath q -> rm_selected w args q) args w)
    as (tr & Hr & Hg & Hp).
  - generalize (rm_post_refl w Hc Hnd). apply rm_post_ext.
    intro q. split; [intros [] | intros [a [[] _]]].
  - intros done x rest w1 El J.
    assert (Hx : In x args) by (rewrite El; apply in_or_app; right; left; reflexivity).
    assert (Hap : forall a, In a done -> apart a x) by (rewrite El in Hno; apply (no_overlap_mid done x rest Hno)).
    assert (Hnt : forall q, covers x q -> ~ rm_selected w done q).
    { intros q Hq [a [Ha Hs]]. apply (Hap a Ha q); [apply (arg_removes_covers _ _ _ Hs) | exact Hq]. }
    destruct J as [Jc Jnd Jo Jm Jg Jk Jsf Jsn].
    assert (Hsame : forall q, covers x q -> staged w1 q = staged w q).
    { intros q Hq. exact (proj1 (Jk q (Hnt q Hq))). }
    assert (Hrem : forall q, arg_removes w1 x q <-> arg_removes w x q).
    { intro q. unfold arg_removes. rewrite (Hsame x) by (left; reflexivity). split.
      - intros [H|(H1 & H2 & H3)]; [left; exact H | right]. rewrite <- (Hsame q) by (right; exact H2). auto.
      - intros [H|(H1 & H2 & H3)]; [left; exact H | right]. rewrite (Hsame q) by (right; exact H2). auto. }
    assert (Hsel : forall q, arg_removes w x q -> rm_selected w args q).
    { intros q Hq. exists x. auto. }
    destruct (rm_arg_spec w1 x Jc Jnd) as (tr & Hr & Hg & B).
    { intros q Hq. apply Hrem in Hq. pose proof (Hnt q (arg_removes_covers _ _ _ Hq)) as Hnq.
      destruct (Hdisk q (Hsel q Hq)) as [Hs|Hs]; [left; apply Jsf; assumption | right; apply Jsn; exact Hs]. }
    exists tr. split; [exact Hr|]. split.
    { apply Forall_forall. intros e He. destruct (proj1 (Forall_forall _ _) Hg e He) as [H1 H2].
      split; [exact H1|]. intros q Eq. apply Hsel. apply Hrem. apply H2. exact Eq. }
    assert (J : rm_many_post w (rm_selected w done) w1) by (constructor; assumption).
    assert (B' : rm_many_post w1 (arg_removes w x) (apply_effects tr w1)).
    { revert B. apply rm_post_ext. exact Hrem. }
    assert (Hdis : forall q, arg_removes w x q -> ~ rm_selected w done q).
    { intros q Hq. apply Hnt. apply (arg_removes_covers _ _ _ Hq). }
    generalize (rm_post_seq _ _ _ _ _ J B' Hdis). apply rm_post_ext.
    intro q. split.
    + intros [[a [Ha Hs]]|Hs].
      * exists a. split; [apply in_or_app; left; exact Ha | exact Hs].
      * exists x. split; [apply in_or_app; right; left; reflexivity | exact Hs].
    + intros [a [Ha Hs]]. apply in_app_or in Ha. destruct Ha as [Ha|[<-|[]]]; [left; exists a; auto | right; exact Hs].
  - exists tr. split; [|split; [exact Hg | exact Hp]].
    rewrite cmd_rm_uses_body. rstep. rstep.
    apply runs_bind_guard.
    { apply forallb_forall. intros a Ha. apply (Hvalid a Ha). }
    rewrite <- (app_nil_r tr). apply runs_seq; [exact Hr|]. rstep.
Qed.

(* directories: none but a selected name can leave the set of directories *)
Lemma set_mem_del_other : forall s p d, d <> p -> set_mem (set_del s p) d = set_mem s d.
Proof.
  intros s p d Hne. unfold set_mem, set_del. induction s as [|k s IH]; [reflexivity|].
  cbn [filter existsb]. destruct (bytes_eqb k p) eqn:E; cbn [negb].
  - apply bytes_eqb_eq in E. subst k. rewrite IH.
    replace (bytes_eqb d p) with false; [reflexivity|]. symmetry. apply bytes_eqb_neq. exact Hne.
  - cbn [existsb]. rewrite IH. reflexivity.
Qed.

Lemma rm_trace_dirs : forall (sel : bytes -> Prop) tr w,
  Forall (fun e => rm_eff e /\ forall q, e = ERemovePath q -> sel q) tr ->
  forall d, ~ sel d -> set_mem (w_dirs (apply_effects tr w)) d = set_mem (w_dirs w) d.
Proof.
  intros sel tr. induction tr as [|e tr IH]; intros w Hall d Hd; [reflexivity|].
  inversion Hall as [|e' tr' [He Hq] Htr]; subst. rewrite apply_effects_cons, (IH _ Htr d Hd).
  destruct e; try contradiction He; autorewrite with wfields; [reflexivity|].
  apply set_mem_del_other. intros ->. apply Hd. apply Hq. reflexivity.
Qed.

(* (A2) *)
Theorem rm_total : forall e c w args,
  Reachable w -> w_coll w = false -> SmallStore (w_objs w) ->
  w_inited w = true -> ctx_of w = Some c ->
  (forall a, In a args -> rm_valid w a = true) -> no_overlap args ->
  (forall q, rm_selected w args q -> wt_stat w q = SFile \/ wt_stat w q = SNone) ->
  exists w' tr,
    step (ACmd e (CRm args)) w = (w', OOk [], tr) /\
    w' = apply_effects tr w /\
    Forall (fun ef => rm_eff ef /\ forall q, ef = ERemovePath q -> rm_selected w args q) tr /\
    (* exactly the selected tracked paths leave the staging area and the work tree;
       objects, refs, HEAD, logs, configs untouched; the staging area stays canonical *)
    rm_many_post w (rm_selected w args) w' /\
    (* in particular no untracked file is touched *)
    (forall q, staged w q = None -> file w' q = file w q) /\
    (* and no directory but a selected name leaves the set of directories *)
    (forall d, ~ rm_selected w args d -> set_mem (w_dirs w') d = set_mem (w_dirs w) d).
Proof.
  intros e c w args Hr Hcl Hsm Hi Hx Hvalid Hno Hdisk.
  destruct (cmd_rm_total w args (reach_canonical w Hr Hcl Hsm) (reachable_files_nodup w Hr) Hvalid Hno Hdisk)
    as (tr & Hruns & Hg & Hp).
  exists (apply_effects tr w), tr. split; [|split; [reflexivity|split; [exact Hg|split; [exact Hp|split]]]].
  - rewrite (step_rm_runs e c w args (Ok []) tr Hi Hx Hruns). reflexivity.
  - intros q Hq. apply (rmp_kept _ _ _ Hp). intro Hs. exact (rm_selected_staged w args q Hs Hq).
  - intros d Hd. apply (rm_trace_dirs (rm_selected w args) tr w Hg d Hd).
Qed.

(* ================================================================== *)
(** * 5. [apart], syntactically *)

(* a name that is not empty and has no trailing slash *)
Definition plain (a : bytes) : Prop := a <> [] /\ last a x00 <> c_slash.

(* necessary: arguments that are apart are different and neither is beneath the other *)
Lemma apart_elim : forall a b, apart a b -> a <> b /\ under_dir a b = false /\ under_dir b a = false.
Proof.
  intros a b H. split; [|split].
  - intros ->. apply (H b); left; reflexivity.
  - destruct (under_dir a b) eqn:E; [|reflexivity]. exfalso. apply (H b); [right; exact E | left; reflexivity].
  - destruct (under_dir b a) eqn:E; [|reflexivity]. exfalso. apply (H a); [left; reflexivity | right; exact E].
Qed.

Lemma at_under_common : forall a b q, a <> [x2e] -> b <> [x2e] -> plain a -> a <> b ->
  under_dir a q = true -> under_dir b q = true -> length b <= length a -> under_dir b a = true.
Proof.
  intros a b q Ha Hb [_ Hla] Hne Hua Hub Hlen.
  apply (under_dir_shape a q Ha) in Hua. destruct Hua as [r1 [Hr1 E1]].
  apply (under_dir_shape b q Hb) in Hub. destruct Hub as [r2 [Hr2 E2]].
  rewrite E1 in E2. apply app_eq_app in E2. destruct E2 as [l [[E3 E4]|[E3 E4]]].
  - (* a = b ++ l *)
    destruct l as [|ch l]; [rewrite app_nil_r in E3; contradiction (Hne E3)|].
    cbn [app] in E4. injection E4 as Ech E4. subst ch.
    destruct l as [|ch l].
    + exfalso. apply Hla. rewrite E3. apply last_last.
    + apply (under_dir_shape b a Hb). exists (ch :: l). split; [discriminate | exact E3].
  - (* b = a ++ l: then b is not shorter than a only if l is empty *)
    destruct l as [|ch l]; [rewrite app_nil_r in E3; symmetry in E3; contradiction (Hne E3)|].
    exfalso. rewrite E3, app_length in Hlen. cbn [length] in Hlen. lia.
Qed.

(* sufficient, for plain names *)
Lemma apart_intro : forall a b, plain a -> plain b ->
  a <> b -> under_dir a b = false -> under_dir b a = false -> apart a b.
Proof.
  intros a b Pa Pb Hne Hab Hba q [Hqa|Hqa] [Hqb|Hqb].
  - apply Hne. congruence.
  - subst q. congruence.
  - subst q. congruence.
  - destruct (bytes_eq_dec a [x2e]) as [Ea|Ea].
    { subst a. rewrite (proj2 (under_dot_everything b) (proj1 Pb)) in Hab. discriminate Hab. }
    destruct (bytes_eq_dec b [x2e]) as [Eb|Eb].
    { subst b. rewrite (proj2 (under_dot_everything a) (proj1 Pa)) in Hba. discriminate Hba. }
    destruct (Nat.le_ge_cases (length b) (length a)) as [Hl|Hl].
    + rewrite (at_under_common a b q Ea Eb Pa Hne Hqa Hqb Hl) in Hba. discriminate Hba.
    + rewrite (at_under_common b a q Eb Ea Pb (fun E => Hne (eq_sym E)) Hqb Hqa Hl) in Hab. discriminate Hab.
Qed.

(* a checker for concrete argument lists *)
Definition plain_b (a : bytes) : bool := negb (is_nil a) && negb (beqb (last a x00) c_slash).
Definition apart_b (a b : bytes) : bool := negb (bytes_eqb a b) && negb (under_dir a b) && negb (under_dir b a).
Fixpoint no_overlap_b (l : list bytes) : bool :=
  match l with
  | [] => true
  | x :: r => forallb (apart_b x) r && no_overlap_b r
  end.

Lemma plain_b_sound : forall a, plain_b a = true -> plain a.
Proof.
  intros a H. unfold plain_b in H. apply andb_true_iff in H. destruct H as [H1 H2]. split.
  - intros ->. discriminate H1.
  - intro E. rewrite E in H2. rewrite (proj2 (beqb_eq c_slash c_slash) eq_refl) in H2. discriminate H2.
Qed.

Lemma no_overlap_b_sound : forall l, forallb plain_b l = true -> no_overlap_b l = true -> no_overlap l.
Proof.
  induction l as [|x r IH]; intros Hp Hb; [exact Logic.I|].
  cbn [forallb] in Hp. apply andb_true_iff in Hp. destruct Hp as [Hx Hr].
  cbn [no_overlap_b] in Hb. apply andb_true_iff in Hb. destruct Hb as [Hb1 Hb2].
  split; [|apply IH; assumption].
  intros a Ha. rewrite forallb_forall in Hb1, Hr. specialize (Hb1 a Ha). specialize (Hr a Ha).
  unfold apart_b in Hb1. apply andb_true_iff in Hb1. destruct Hb1 as [Hb1 Hb3].
  apply andb_true_iff in Hb1. destruct Hb1 as [Hb1 Hb4].
  apply apart_intro.
  - apply plain_b_sound. exact Hx.
  - apply plain_b_sound. exact Hr.
  - apply bytes_eqb_neq. apply negb_true_iff. exact Hb1.
  - apply negb_true_iff. exact Hb4.
  - apply negb_true_iff. exact Hb3.
Qed.

(* ================================================================== *)
(** * 6. Checkers for concrete worlds *)

Definition covers_b (a q : bytes) : bool := bytes_eqb q a || under_dir a q.

Lemma covers_b_complete : forall a q, covers a q -> covers_b a q = true.
Proof.
  intros a q [->|H]; unfold covers_b; [rewrite bytes_eqb_refl; reflexivity | rewrite H; apply orb_true_r].
Qed.

Definition stat_ok (w : world) (q : bytes) : bool :=
  match wt_stat w q with SFile | SNone => true | _ => false end.

(* every tracked path the arguments cover is a file or absent on disk *)
Lemma rm_disk_check : forall w args, Canonical (idx_of w) ->
  forallb (fun q => negb (existsb (fun a => covers_b a q) args) || stat_ok w q) (paths (idx_of w)) = true ->
  forall q, rm_selected w args q -> wt_stat w q = SFile \/ wt_stat w q = SNone.
Proof.
  intros w args Hc Hb q Hq. pose proof (rm_selected_staged w args q Hq) as Hst.
  destruct (in_dec bytes_eq_dec q (paths (idx_of w))) as [Hin|Hn].
  - rewrite forallb_forall in Hb. specialize (Hb q Hin).
    destruct Hq as [a [Ha Hr]].
    assert (Hex : existsb (fun a0 => covers_b a0 q) args = true).
    { apply existsb_exists. exists a. split; [exact Ha|]. apply covers_b_complete. apply (arg_removes_covers w a q Hr). }
    rewrite Hex in Hb. cbn [negb orb] in Hb. unfold stat_ok in Hb.
    destruct (wt_stat w q); try discriminate Hb; auto.
  - exfalso. apply Hst. rewrite staged_stg. apply (stg_none_iff _ _ Hc). exact Hn.
Qed.

(* every file the arguments cover is excluded or staged with the id of its bytes;
   every argument is on disk: the hypotheses of [re_add_unchanged_changes_nothing] *)
Lemma readd_check : forall w pats args,
  forallb (fun kv => negb (existsb (fun a => covers_b a (fst kv)) args) || ignored w pats (fst kv)
                     || match staged w (fst kv) with
                        | Some i => bytes_eqb i (blob_id (snd kv))
                        | None => false
                        end) (w_files w) = true ->
  forallb (exists_on_disk w) args = true ->
  (forall q data, add_stages w pats args q data -> staged w q = Some (blob_id data)) /\
  (forall q, ~ add_unstages w pats args q).
Proof.
  intros w pats args Hb Hd. split.
  - intros q data [a [Ha Hs]]. pose proof (arg_stages_covers _ _ _ _ _ Hs) as Hcov.
    destruct Hs as (Hig & Hf & Hcase).
    assert (Hiq : ignored w pats q = false).
    { destruct Hcase as [[-> _]|(_ & _ & H)]; [exact Hig | exact H]. }
    rewrite forallb_forall in Hb. specialize (Hb (q, data) (am_get_In _ _ _ _ Hf)). cbn [fst snd] in Hb.
    assert (Hex : existsb (fun a0 => covers_b a0 q) args = true).
    { apply existsb_exists. exists a. split; [exact Ha | apply covers_b_complete; exact Hcov]. }
    rewrite Hex, Hiq in Hb. cbn [negb orb] in Hb.
    destruct (staged w q) as [i|]; [|discriminate Hb]. apply bytes_eqb_eq in Hb. rewrite Hb. reflexivity.
  - intros q [a [Ha (_ & Hdisk & _)]]. rewrite forallb_forall in Hd. rewrite (Hd a Ha) in Hdisk. discriminate Hdisk.
Qed.

(* ================================================================== *)
(** * 7. Non-vacuity: a history with nested directories, the sibling names
      d / d-old / d.c, a deleted tracked file, a deleted tracked directory,
      excluded files, an untracked file *)
Local Open Scope string_scope.

Definition at_env : env := mkEnv 1700000000 32400.
Definition at_hist : list action :=
  [ ACmd at_env CInit;
    AEdit (UWrite (str ".goitignore") (str "out/" ++ [c_nl] ++ str "*.log" ++ [c_nl])%list);
    AEdit (UWrite (str "d/x") (str "one"));
    AEdit (UWrite (str "d/sub/y") (str "two"));
    AEdit (UWrite (str "d-old") (str "three"));
    AEdit (UWrite (str "d.c/z") (str "four"));
    AEdit (UWrite (str "top.txt") (str "five"));
    AEdit (UWrite (str "gone.txt") (str "six"));
    AEdit (UWrite (str "m/a") (str "seven"));
    AEdit (UWrite (str "m/b") (str "eight"));
    ACmd at_env (CAdd [str "."]);
    (* the user then deletes a tracked file and a tracked directory, edits d/x, creates
       d/sub/new, two excluded files (a .log file, a file under out/) and a file that stays untracked *)
    AEdit (UDelete (str "gone.txt"));
    AEdit (URmTree (str "m"));
    AEdit (UWrite (str "d/x") (str "one, edited"));
    AEdit (UWrite (str "d/sub/new") (str "nine"));
    AEdit (UWrite (str "d/t.log") (str "noise"));
    AEdit (UWrite (str "d/out/o") (str "object"));
    AEdit (UWrite (str "untracked") (str "ten")) ].
Definition at_w : world := Eval vm_compute in run at_hist w_empty.
Lemma at_w_run : run at_hist w_empty = at_w.
Proof. vm_compute. reflexivity. Qed.

Lemma at_hist_ok : Forall action_ok at_hist.
Proof.
  unfold at_hist.
  repeat (apply Forall_cons || apply Forall_nil); cbn [action_ok edit_ok]; try exact Logic.I.
  all: unfold valid_path; simpl; tf_valid.
Qed.

Lemma at_reachable : Reachable at_w.
Proof. exists at_hist. split; [exact at_hist_ok | symmetry; exact at_w_run]. Qed.
Lemma at_coll : w_coll at_w = false. Proof. vm_compute. reflexivity. Qed.
Lemma at_small : SmallStore (w_objs at_w). Proof. apply small_store_b. vm_compute. reflexivity. Qed.
Lemma at_inited : w_inited at_w = true. Proof. vm_compute. reflexivity. Qed.
Definition at_c : ctx :=
  Eval vm_compute in match ctx_of at_w with Some c => c | None => mkCtx [] [] None [] end.
Lemma at_ctx : ctx_of at_w = Some at_c. Proof. vm_compute. reflexivity. Qed.
Lemma at_consistent : ex_wt_consistent at_w.
Proof. apply wt_consistent_b. vm_compute. reflexivity. Qed.

Example at_tracked : paths (idx_of at_w) =
  [str ".goitignore"; str "d-old"; str "d.c/z"; str "d/sub/y"; str "d/x"; str "gone.txt";
   str "m/a"; str "m/b"; str "top.txt"].
Proof. vm_compute. reflexivity. Qed.

Example at_on_disk : map fst (w_files at_w) =
  [str ".goitignore"; str "d-old"; str "d.c/z"; str "d/out/o"; str "d/sub/new"; str "d/sub/y";
   str "d/t.log"; str "d/x"; str "top.txt"; str "untracked"].
Proof. vm_compute. reflexivity. Qed.

(* ---------- (A1) applies ---------- *)
(* a directory, a deleted tracked file, a deleted tracked directory, a file *)
Definition at_args : list bytes := [str "d"; str "gone.txt"; str "m"; str "top.txt"].

Lemma at_args_valid : forall a, In a at_args -> add_valid at_w a = true.
Proof. intros a Ha. repeat (destruct Ha as [<-|Ha]; [vm_compute; reflexivity|]). contradiction Ha. Qed.
Lemma at_args_apart : no_overlap at_args.
Proof. apply no_overlap_b_sound; vm_compute; reflexivity. Qed.

Definition at_add : world * outcome * list effect :=
  Eval vm_compute in step (ACmd at_env (CAdd at_args)) at_w.
Lemma at_add_eq : step (ACmd at_env (CAdd at_args)) at_w = at_add.
Proof. vm_compute. reflexivity. Qed.
Definition at_w' : world := fst (fst at_add).

Ltac at_no H := vm_compute in H; discriminate H.

(* a path no argument stages: every case of [arg_stages] is refuted by computation *)
Ltac at_not_staged :=
  let data := fresh "data" in let a := fresh "a" in let Ha := fresh "Ha" in
  let Hig := fresh "Hig" in let Hf := fresh "Hf" in let Hcase := fresh "Hcase" in
  let E := fresh "E" in let Hs := fresh "Hs" in let Hu := fresh "Hu" in let Hi := fresh "Hi" in
  intros data [a [Ha (Hig & Hf & Hcase)]];
  repeat (destruct Ha as [<-|Ha];
          [destruct Hcase as [[E Hs]|(Hs & Hu & Hi)];
           [first [at_no E | at_no Hs | at_no Hf]
           |first [at_no Hs | at_no Hu | at_no Hi | at_no Hf]]|]);
  contradiction Ha.
Ltac at_not_unstaged :=
  let a := fresh "a" in let Ha := fresh "Ha" in
  let Hig := fresh "Hig" in let Hd := fresh "Hd" in let Hcase := fresh "Hcase" in
  let E := fresh "E" in let Hs := fresh "Hs" in let Hu := fresh "Hu" in let Hq := fresh "Hq" in
  intros [a [Ha (Hig & Hd & Hcase)]];
  repeat (destruct Ha as [<-|Ha];
          [first [at_no Hd
                 |destruct Hcase as [[E Hs]|(Hs & Hu & Hq)];
                  [first [at_no E | exfalso; apply Hs; vm_compute; reflexivity]
                  |first [at_no Hs | at_no Hu | exfalso; apply Hq; vm_compute; reflexivity]]]|]);
  contradiction Ha.

Example at_add_total_applies :
  exists w' tr,
    step (ACmd at_env (CAdd at_args)) at_w = (w', OOk [], tr) /\ length tr = 7 /\
    (* the edited file and the new file beneath the named directory: staged with the id
       of their current bytes, blob stored *)
    staged w' (str "d/x") = Some (blob_id (str "one, edited")) /\
    get_obj (w_objs w') (blob_id (str "one, edited")) = Some (KBlob, str "one, edited") /\
    staged w' (str "d/sub/new") = Some (blob_id (str "nine")) /\
    get_obj (w_objs w') (blob_id (str "nine")) = Some (KBlob, str "nine") /\
    (* an unchanged file beneath it and the named unchanged file: still staged, blob stored *)
    staged w' (str "d/sub/y") = Some (blob_id (str "two")) /\
    staged w' (str "top.txt") = Some (blob_id (str "five")) /\
    get_obj (w_objs w') (blob_id (str "five")) = Some (KBlob, str "five") /\
    (* the deleted tracked file and the paths of the deleted tracked directory: unstaged *)
    staged w' (str "gone.txt") = None /\ staged w' (str "m/a") = None /\ staged w' (str "m/b") = None /\
    (* excluded files beneath the named directory: not staged *)
    staged w' (str "d/t.log") = None /\ staged w' (str "d/out/o") = None /\
    (* the look-alike siblings of d and everything else: as before *)
    staged w' (str "d-old") = staged at_w (str "d-old") /\
    staged w' (str "d.c/z") = staged at_w (str "d.c/z") /\
    staged w' (str ".goitignore") = staged at_w (str ".goitignore") /\
    staged w' (str "untracked") = None /\
    (* no working file is touched *)
    w_files w' = w_files at_w /\ w_dirs w' = w_dirs at_w /\
    Canonical (idx_of w').
Proof.
  destruct (add_total at_env at_c at_w at_args at_reachable at_coll at_small at_inited at_ctx at_consistent)
    as (w' & tr & Hstep & Hw' & Hg & R).
  { discriminate. }
  { exact at_args_valid. }
  { exact at_args_apart. }
  exists w', tr. split; [exact Hstep|].
  assert (Ew : w' = at_w' /\ tr = snd at_add).
  { rewrite at_add_eq in Hstep. unfold at_w'. rewrite Hstep. split; reflexivity. }
  destruct Ew as [Ew Etr].
  assert (Hcl : w_coll w' = false) by (rewrite Ew; vm_compute; reflexivity).
  destruct R as [Rs Rst Ru Ro Rw Rm Rk Rc].
  assert (Sx : add_stages at_w (x_pats at_c) at_args (str "d/x") (str "one, edited")).
  { exists (str "d"). split; [left; reflexivity|]. split; [vm_compute; reflexivity|].
    split; [vm_compute; reflexivity|]. right. repeat split; vm_compute; reflexivity. }
  assert (Sn : add_stages at_w (x_pats at_c) at_args (str "d/sub/new") (str "nine")).
  { exists (str "d"). split; [left; reflexivity|]. split; [vm_compute; reflexivity|].
    split; [vm_compute; reflexivity|]. right. repeat split; vm_compute; reflexivity. }
  assert (Sy : add_stages at_w (x_pats at_c) at_args (str "d/sub/y") (str "two")).
  { exists (str "d"). split; [left; reflexivity|]. split; [vm_compute; reflexivity|].
    split; [vm_compute; reflexivity|]. right. repeat split; vm_compute; reflexivity. }
  assert (St : add_stages at_w (x_pats at_c) at_args (str "top.txt") (str "five")).
  { exists (str "top.txt"). split; [right; right; right; left; reflexivity|]. split; [vm_compute; reflexivity|].
    split; [vm_compute; reflexivity|]. left. split; [reflexivity | vm_compute; reflexivity]. }
  assert (Ug : add_unstages at_w (x_pats at_c) at_args (str "gone.txt")).
  { exists (str "gone.txt"). split; [right; left; reflexivity|]. split; [vm_compute; reflexivity|].
    split; [vm_compute; reflexivity|]. left. split; [reflexivity | vm_compute; discriminate]. }
  assert (Ua : add_unstages at_w (x_pats at_c) at_args (str "m/a")).
  { exists (str "m"). split; [right; right; left; reflexivity|]. split; [vm_compute; reflexivity|].
    split; [vm_compute; reflexivity|]. right. repeat split; try (vm_compute; reflexivity). vm_compute; discriminate. }
  assert (Ub : add_unstages at_w (x_pats at_c) at_args (str "m/b")).
  { exists (str "m"). split; [right; right; left; reflexivity|]. split; [vm_compute; reflexivity|].
    split; [vm_compute; reflexivity|]. right. repeat split; try (vm_compute; reflexivity). vm_compute; discriminate. }
  split; [rewrite Etr; vm_compute; reflexivity|].
  split; [apply Rs; exact Sx|].
  split; [apply (Rst Hcl _ _ Sx); [intro H; at_no H | vm_compute; reflexivity]|].
  split; [apply Rs; exact Sn|].
  split; [apply (Rst Hcl _ _ Sn); [intro H; at_no H | vm_compute; reflexivity]|].
  split; [apply Rs; exact Sy|].
  split; [apply Rs; exact St|].
  split; [apply (Rst Hcl _ _ St); [intros _; vm_compute; reflexivity | vm_compute; reflexivity]|].
  split; [apply Ru; exact Ug|]. split; [apply Ru; exact Ua|]. split; [apply Ru; exact Ub|].
  split; [rewrite Ro; [vm_compute; reflexivity | at_not_staged | at_not_unstaged]|].
  split; [rewrite Ro; [vm_compute; reflexivity | at_not_staged | at_not_unstaged]|].
  split; [apply Ro; [at_not_staged | at_not_unstaged]|].
  split; [apply Ro; [at_not_staged | at_not_unstaged]|].
  split; [apply Ro; [at_not_staged | at_not_unstaged]|].
  split; [rewrite Ro; [vm_compute; reflexivity | at_not_staged | at_not_unstaged]|].
  destruct Rw as [Rf Rd]. split; [exact Rf|]. split; [exact Rd | exact Rc].
Qed.

(* the concrete outcome, by computation: the staging area afterwards *)
Example at_add_index : snd (fst at_add) = OOk [] /\
  paths (idx_of at_w') =
  [str ".goitignore"; str "d-old"; str "d.c/z"; str "d/sub/new"; str "d/sub/y"; str "d/x"; str "top.txt"].
Proof. vm_compute. split; reflexivity. Qed.

(* ---------- why the arguments must not overlap ---------- *)
(* (W-1) `add p p` with p tracked and deleted: the validation (done once, before anything
   is written) accepts both; the first p is unstaged; the second p is then neither on disk
   nor tracked and the command answers Err AFTER having rewritten the staging area *)
Example at_add_twice_missing :
  let '(w', o, tr) := step (ACmd at_env (CAdd [str "gone.txt"; str "gone.txt"])) at_w in
  o = OErr /\ length tr = 1 /\ staged w' (str "gone.txt") = None /\ staged at_w (str "gone.txt") <> None.
Proof. vm_compute. repeat split. discriminate. Qed.

(* (W-2) the same with a deleted tracked directory and a path beneath it *)
Example at_add_missing_dir_and_child :
  let '(w', o, tr) := step (ACmd at_env (CAdd [str "m"; str "m/a"])) at_w in
  o = OErr /\ length tr = 2 /\ staged w' (str "m/a") = None /\ staged w' (str "m/b") = None /\
  staged at_w (str "m/b") <> None.
Proof. vm_compute. repeat split. discriminate. Qed.

(* both argument lists are rejected by the hypothesis [no_overlap] *)
Example at_twice_overlaps : ~ no_overlap [str "gone.txt"; str "gone.txt"] /\ ~ no_overlap [str "m"; str "m/a"].
Proof.
  split; intros [H _].
  - apply (H (str "gone.txt") (or_introl eq_refl) (str "gone.txt")); left; reflexivity.
  - apply (H (str "m/a") (or_introl eq_refl) (str "m/a")); [right; vm_compute; reflexivity | left; reflexivity].
Qed.

(* overlapping arguments that exist on disk are harmless (`add d d/x`) *)
Example at_add_dir_and_child :
  let '(w', o, tr) := step (ACmd at_env (CAdd [str "d"; str "d/x"])) at_w in
  o = OOk [] /\ length tr = 4 /\ staged w' (str "d/x") = Some (blob_id (str "one, edited")).
Proof. vm_compute. repeat split. Qed.

(* ---------- re-adding unchanged files changes nothing ---------- *)
Lemma at_w'_run : run (at_hist ++ [ACmd at_env (CAdd at_args)])%list w_empty = at_w'.
Proof. vm_compute. reflexivity. Qed.
Lemma at_reachable' : Reachable at_w'.
Proof.
  exists (at_hist ++ [ACmd at_env (CAdd at_args)])%list. split; [|symmetry; exact at_w'_run].
  apply Forall_app. split; [exact at_hist_ok | repeat constructor].
Qed.
Definition at_c' : ctx :=
  Eval vm_compute in match ctx_of at_w' with Some c => c | None => mkCtx [] [] None [] end.

(* a directory holding staged files and excluded files, two files, the directory again *)
Definition at_args2 : list bytes := [str "d"; str "d-old"; str "top.txt"; str "d"].

Example at_readd_changes_nothing :
  step (ACmd at_env (CAdd at_args2)) at_w' = (at_w', OOk [], []).
Proof.
  destruct (readd_check at_w' (x_pats at_c') at_args2) as [H1 H2]; [vm_compute; reflexivity | vm_compute; reflexivity |].
  apply (re_add_unchanged_changes_nothing at_env at_c' at_w' at_args2 at_reachable').
  - vm_compute. reflexivity.
  - apply small_store_b. vm_compute. reflexivity.
  - vm_compute. reflexivity.
  - vm_compute. reflexivity.
  - discriminate.
  - intros a Ha. repeat (destruct Ha as [<-|Ha]; [vm_compute; reflexivity|]). contradiction Ha.
  - exact H1.
  - exact H2.
Qed.

(* ---------- (A2) applies ---------- *)
(* a directory with a nested directory, a tracked file that is gone from disk, a file *)
Definition at_rm_args : list bytes := [str "d"; str "gone.txt"; str "d-old"].

Lemma at_canonical : Canonical (idx_of at_w).
Proof. apply (reach_canonical at_w at_reachable at_coll at_small). Qed.

Definition at_rm : world * outcome * list effect :=
  Eval vm_compute in step (ACmd at_env (CRm at_rm_args)) at_w.
Lemma at_rm_eq : step (ACmd at_env (CRm at_rm_args)) at_w = at_rm.
Proof. vm_compute. reflexivity. Qed.

Ltac at_not_removed :=
  let a := fresh "a" in let Ha := fresh "Ha" in let Hcase := fresh "Hcase" in
  let E := fresh "E" in let Hs := fresh "Hs" in let Hu := fresh "Hu" in let Hq := fresh "Hq" in
  intros [a [Ha Hcase]];
  repeat (destruct Ha as [<-|Ha];
          [destruct Hcase as [[E Hs]|(Hs & Hu & Hq)];
           [first [at_no E | exfalso; apply Hs; vm_compute; reflexivity]
           |first [at_no Hs | at_no Hu | exfalso; apply Hq; vm_compute; reflexivity]]|]);
  contradiction Ha.

Example at_rm_total_applies :
  exists w' tr,
    step (ACmd at_env (CRm at_rm_args)) at_w = (w', OOk [], tr) /\
    (* the tracked files beneath d (nested ones included), the named file, the named
       tracked file that is already gone from disk: out of the staging area and the work tree *)
    (staged w' (str "d/x") = None /\ file w' (str "d/x") = None) /\
    (staged w' (str "d/sub/y") = None /\ file w' (str "d/sub/y") = None) /\
    (staged w' (str "d-old") = None /\ file w' (str "d-old") = None) /\
    (staged w' (str "gone.txt") = None /\ file w' (str "gone.txt") = None) /\
    (* untracked files beneath d, excluded or not, and elsewhere: untouched *)
    file w' (str "d/sub/new") = Some (str "nine") /\
    file w' (str "d/t.log") = Some (str "noise") /\
    file w' (str "d/out/o") = Some (str "object") /\
    file w' (str "untracked") = Some (str "ten") /\
    (* the look-alike sibling d.c/z and the other tracked paths: kept, staged and on disk *)
    (staged w' (str "d.c/z") = staged at_w (str "d.c/z") /\ file w' (str "d.c/z") = Some (str "four")) /\
    (staged w' (str "top.txt") = staged at_w (str "top.txt") /\ file w' (str "top.txt") = Some (str "five")) /\
    (staged w' (str "m/a") = staged at_w (str "m/a")) /\
    (* objects, refs, HEAD, logs, configs *)
    same_objs at_w w' /\ same_meta at_w w' /\ Canonical (idx_of w').
Proof.
  destruct (rm_total at_env at_c at_w at_rm_args at_reachable at_coll at_small at_inited at_ctx)
    as (w' & tr & Hstep & Hw' & Hg & [Pc Pnd Po Pm Pg Pk Psf Psn] & Hun & Hdirs).
  { intros a Ha. repeat (destruct Ha as [<-|Ha]; [vm_compute; reflexivity|]). contradiction Ha. }
  { apply no_overlap_b_sound; vm_compute; reflexivity. }
  { apply (rm_disk_check at_w at_rm_args at_canonical). vm_compute. reflexivity. }
  exists w', tr. split; [exact Hstep|].
  assert (Rd : forall q, rm_selected at_w at_rm_args q -> staged w' q = None /\ file w' q = None) by exact Pg.
  split; [apply Rd; exists (str "d"); split; [left; reflexivity|]; right;
          repeat split; try (vm_compute; reflexivity); vm_compute; discriminate|].
  split; [apply Rd; exists (str "d"); split; [left; reflexivity|]; right;
          repeat split; try (vm_compute; reflexivity); vm_compute; discriminate|].
  split; [apply Rd; exists (str "d-old"); split; [right; right; left; reflexivity|]; left;
          split; [reflexivity | vm_compute; discriminate]|].
  split; [apply Rd; exists (str "gone.txt"); split; [right; left; reflexivity|]; left;
          split; [reflexivity | vm_compute; discriminate]|].
  split; [rewrite Hun; vm_compute; reflexivity|].
  split; [rewrite Hun; vm_compute; reflexivity|].
  split; [rewrite Hun; vm_compute; reflexivity|].
  split; [rewrite Hun; vm_compute; reflexivity|].
  split; [destruct (Pk (str "d.c/z")) as [E1 E2]; [at_not_removed|]; split; [exact E1 | rewrite E2; vm_compute; reflexivity]|].
  split; [destruct (Pk (str "top.txt")) as [E1 E2]; [at_not_removed|]; split; [exact E1 | rewrite E2; vm_compute; reflexivity]|].
  split; [destruct (Pk (str "m/a")) as [E1 E2]; [at_not_removed|]; exact E1|].
  split; [exact Po|]. split; [exact Pm | exact Pc].
Qed.

Example at_rm_outcome : snd (fst at_rm) = OOk [] /\
  paths (idx_of (fst (fst at_rm))) = [str ".goitignore"; str "d.c/z"; str "m/a"; str "m/b"; str "top.txt"] /\
  map fst (w_files (fst (fst at_rm))) =
    [str ".goitignore"; str "d.c/z"; str "d/out/o"; str "d/sub/new"; str "d/t.log"; str "top.txt"; str "untracked"] /\
  filter (fun e => match e with ERemovePath _ => true | _ => false end) (snd at_rm) =
    [ERemovePath (str "d/sub/y"); ERemovePath (str "d/x"); ERemovePath (str "d-old")].
Proof. vm_compute. repeat split. Qed.

(* ---------- why [rm_total] carries its hypotheses ---------- *)
(* (W-3) a selected tracked path that has become a NON-EMPTY DIRECTORY on disk:
   `rm d-old` answers Err (here before anything is written) *)
Definition at_w3 : world :=
  Eval vm_compute in run [AEdit (UDelete (str "d-old")); AEdit (UWrite (str "d-old/b") (str "bb"))] at_w.
Example at_rm_nonempty_dir :
  wt_stat at_w3 (str "d-old") = SDir /\ tracked at_w3 (str "d-old") = true /\
  step (ACmd at_env (CRm [str "d-old"])) at_w3 = (at_w3, OErr, []).
Proof. vm_compute. repeat split. Qed.

(* (W-4) a repeated argument removes MORE than what the arguments select when the staging
   area holds a path and a path beneath it (a reachable situation: ExactFacts, F-b).
   In at_w4 both d-old and d-old/b are tracked and neither is on disk.  `rm d-old d-old`
   answers Ok; the first d-old, a tracked path, selects itself; the second d-old is no
   longer tracked and is taken for a tracked DIRECTORY: d-old/b is unstaged although no
   argument selects it.  (With `rm d-old` alone d-old/b stays.) *)
Definition at_w4 : world :=
  Eval vm_compute in run [AEdit (UDelete (str "d-old")); AEdit (UWrite (str "d-old/b") (str "bb"));
                          ACmd at_env (CAdd [str "d-old/b"]); AEdit (URmTree (str "d-old"))] at_w.
Example at_rm_twice_removes_more :
  staged at_w4 (str "d-old") <> None /\ staged at_w4 (str "d-old/b") <> None /\
  ~ rm_selected at_w4 [str "d-old"; str "d-old"] (str "d-old/b") /\
  (let '(w', o, tr) := step (ACmd at_env (CRm [str "d-old"; str "d-old"])) at_w4 in
   o = OOk [] /\ staged w' (str "d-old/b") = None) /\
  (let '(w', o, tr) := step (ACmd at_env (CRm [str "d-old"])) at_w4 in
   o = OOk [] /\ staged w' (str "d-old/b") = staged at_w4 (str "d-old/b")).
Proof.
  split; [vm_compute; discriminate|]. split; [vm_compute; discriminate|]. split.
  - intros [a [Ha Hcase]].
    repeat (destruct Ha as [<-|Ha];
            [destruct Hcase as [[E _]|(Hs & _)]; [at_no E | at_no Hs]|]).
    contradiction Ha.
  - vm_compute. repeat split.
Qed.

(* in an ordinary world a repeated argument is harmless for [rm] *)
Example at_rm_twice_plain :
  let '(w', o, tr) := step (ACmd at_env (CRm [str "top.txt"; str "top.txt"])) at_w in
  o = OOk [] /\ length tr = 2 /\ staged w' (str "top.txt") = None /\ file w' (str "top.txt") = None.
Proof. vm_compute. repeat split. Qed.

(* ================================================================== *)
Print Assumptions reachable_files_nodup.
Print Assumptions cmd_add_total.
Print Assumptions add_total.
Print Assumptions cmd_add_noop.
Print Assumptions re_add_unchanged_changes_nothing.
Print Assumptions add_total_unchanged.
Print Assumptions cmd_rm_total.
Print Assumptions rm_total.
Print Assumptions apart_intro.
Print Assumptions no_overlap_b_sound.
Print Assumptions at_add_total_applies.
Print Assumptions at_readd_changes_nothing.
Print Assumptions at_rm_total_applies.
