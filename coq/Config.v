(* Config.v — the config file format (internal/store/config.go, after the
   SplitN / malformed-line repair) and identity look-up. *)
From Coq Require Import Strings.String Strings.Byte.
From Coq Require Import List Bool NArith.
From Goit Require Import Bytes Regex GoRegex.
Import ListNotations.

Definition kvs := list (bytes * bytes).
Definition cfg := list (bytes * kvs).

Fixpoint kv_get (m : kvs) (k : bytes) : option bytes :=
  match m with
  | [] => None
  | (k', v) :: r => if bytes_eqb k' k then Some v else kv_get r k
  end.
Fixpoint kv_set (m : kvs) (k v : bytes) : kvs :=
  match m with
  | [] => [(k, v)]
  | (k', v') :: r => if bytes_eqb k' k then (k', v) :: r else (k', v') :: kv_set r k v
  end.
Fixpoint sec_get (c : cfg) (s : bytes) : option kvs :=
  match c with
  | [] => None
  | (s', m) :: r => if bytes_eqb s' s then Some m else sec_get r s
  end.
Fixpoint sec_set (c : cfg) (s : bytes) (m : kvs) : cfg :=
  match c with
  | [] => [(s, m)]
  | (s', m') :: r => if bytes_eqb s' s then (s', m) :: r else (s', m') :: sec_set r s m
  end.

(* Config.Add *)
Definition cfg_add (c : cfg) (s k v : bytes) : cfg :=
  match sec_get c s with
  | Some m => sec_set c s (kv_set m k v)
  | None => sec_set c s [(k, v)]
  end.

(* Config.Write, for one particular iteration order of the two maps *)
Definition render_kv (kv : bytes * bytes) : bytes :=
  [c_tab] ++ fst kv ++ [c_sp; x3d; c_sp] ++ snd kv ++ [c_nl].
Definition render_sec (s : bytes * kvs) : bytes :=
  [x5b] ++ fst s ++ [x5d; c_nl] ++ flat_map render_kv (snd s).
Definition cfg_render (c : cfg) : bytes := flat_map render_sec c.

Definition remove_tabs (s : bytes) : bytes := filter (fun c => negb (beqb c c_tab)) s.

(* Config.load, line by line.  State: the map so far and the current section
   (None before the first "[...]" line). *)
Fixpoint cfg_load_lines (ls : list bytes) (c : cfg) (cur : option bytes) : option cfg :=
  match ls with
  | [] => Some c
  | l :: r =>
    if re_search re_identRegexp l then
      if Nat.leb (length l) 2 then None
      else
        let ident := firstn (length l - 2) (skipn 1 l) in
        cfg_load_lines r (sec_set c ident []) (Some ident)
    else if is_nil (trim_space l) then cfg_load_lines r c cur
    else
      match split1 x3d (remove_tabs l), cur with
      | (k, Some v), Some s =>
          let m := match sec_get c s with Some m => m | None => [] end in
          cfg_load_lines r (sec_set c s (kv_set m (trim_space k) (trim_space v))) cur
      | _, _ => None
      end
  end.
Definition cfg_load (b : bytes) : option cfg := cfg_load_lines (scan_lines b) [] None.

(* on-disk state of one config file *)
Inductive cfgst := CfgAbsent | CfgFile (raw_ok : option cfg).
(* CfgFile None = a file the loader rejects: every command then fails *)

Definition cfg_of (s : cfgst) : option cfg :=
  match s with
  | CfgAbsent => Some []
  | CfgFile o => o
  end.

(* what the next process will load after this one has written the file *)
Definition cfg_written (c : cfg) : cfgst := CfgFile (cfg_load (cfg_render c)).

(* look-up with local-over-global precedence *)
Definition ident_get (l g : cfg) (key : bytes) : option bytes :=
  match sec_get l (str "user"%string) with
  | Some m => match kv_get m key with
              | Some v => Some v
              | None => match sec_get g (str "user"%string) with Some m' => kv_get m' key | None => None end
              end
  | None => match sec_get g (str "user"%string) with Some m' => kv_get m' key | None => None end
  end.
Definition user_set (l g : cfg) : bool :=
  match ident_get l g (str "name"%string), ident_get l g (str "email"%string) with
  | Some _, Some _ => true
  | _, _ => false
  end.
Definition user_name (l g : cfg) : bytes := match ident_get l g (str "name"%string) with Some v => v | None => [] end.
Definition user_email (l g : cfg) : bytes := match ident_get l g (str "email"%string) with Some v => v | None => [] end.
