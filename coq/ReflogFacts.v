(* ReflogFacts.v — property C11: the reflog is a faithful, append-only journal
   that always reads back.

   1. a line written by [log_line] reads back ([parse_log_line]) as the record
      (new id, type, message) it was written for;
   2. appending a line to a journal leaves every earlier record in place;
   3. [get_record] positions shift by exactly the number of records appended;
   4. [show_reflog] and [get_record] resolve a position to the same record;
   5. [show_reflog] is total. *)
From Coq Require Import Strings.Byte Strings.String.
From Coq Require Import List Bool NArith ZArith Arith.
From Coq Require Import Lia ZifyBool ZifyNat ZifyN.
From Goit Require Import Bytes Sha1 Obj Reflog BytesFacts ObjFacts.
Import ListNotations.

(* ------------------------------------------------------------------ *)
(** * 0. List helpers *)

Lemma not_in_app : forall (c : byte) (a b : bytes),
  ~ In c a -> ~ In c b -> ~ In c (a ++ b).
Proof.
  intros c a b Ha Hb Hin. apply in_app_or in Hin.
  destruct Hin as [Hin | Hin]; [apply Ha | apply Hb]; exact Hin.
Qed.

Lemma not_in_cons : forall (c x : byte) (a : bytes),
  x <> c -> ~ In c a -> ~ In c (x :: a).
Proof.
  intros c x a Hx Ha [Hin | Hin]; [apply Hx | apply Ha]; exact Hin.
Qed.

Lemma last_app_ne : forall (a b : bytes) (d : byte),
  b <> [] -> last (a ++ b) d = last b d.
Proof.
  intros a b d Hb. induction a as [|x a' IH].
  - reflexivity.
  - cbn [app]. destruct (a' ++ b) as [|y t] eqn:E.
    + apply app_eq_nil in E. destruct E as [_ E]. contradiction.
    + exact IH.
Qed.

(* ------------------------------------------------------------------ *)
(** * 1. The characters of the generated fields *)

Definition zero_id : bytes := repeat x00 20.

Lemma zero_hex_hex : zero_hex = hex zero_id.
Proof. vm_compute. reflexivity. Qed.

Definition id_text (o : option bytes) : bytes :=
  match o with Some h => hex h | None => zero_hex end.

Lemma hex_only_hex : forall (c : byte) (b : bytes),
  is_lower_hex c = false -> ~ In c (hex b).
Proof.
  intros c b Hc Hin. pose proof (hex_lower b) as Hall.
  rewrite forallb_forall in Hall. rewrite (Hall c Hin) in Hc. discriminate Hc.
Qed.

Lemma id_text_only_hex : forall (c : byte) (o : option bytes),
  is_lower_hex c = false -> ~ In c (id_text o).
Proof.
  intros c o Hc. destruct o as [h|]; cbn [id_text].
  - apply hex_only_hex. exact Hc.
  - rewrite zero_hex_hex. apply hex_only_hex. exact Hc.
Qed.

(* sign characters and digits: all that [dec_z] and [log_tz] produce *)
Definition is_numch (c : byte) : bool := is_digit c || beqb c x2d || beqb c x2b.

Lemma numch_digit : forall c, is_digit c = true -> is_numch c = true.
Proof. intros c Hc. unfold is_numch. rewrite Hc. reflexivity. Qed.

Lemma dec_numch : forall n c, In c (dec n) -> is_numch c = true.
Proof. intros n c Hin. apply numch_digit. apply (dec_digit_in n c Hin). Qed.

Lemma dec_z_numch : forall t c, In c (dec_z t) -> is_numch c = true.
Proof.
  intros t c Hin. unfold dec_z in Hin. destruct (Z.ltb t 0) eqn:Et.
  - destruct Hin as [Hc | Hin].
    + subst c. reflexivity.
    + apply (dec_numch _ c Hin).
  - apply (dec_numch _ c Hin).
Qed.

Lemma pad2_numch : forall a c,
  In c (if N.ltb a 10 then x30 :: dec a else dec a) -> is_numch c = true.
Proof.
  intros a c Hin. destruct (N.ltb a 10) eqn:Ea.
  - destruct Hin as [Hc | Hin].
    + subst c. reflexivity.
    + apply (dec_numch _ c Hin).
  - apply (dec_numch _ c Hin).
Qed.

Lemma fmt_plus03_numch : forall z c, In c (fmt_plus03 z) -> is_numch c = true.
Proof.
  intros z c Hin. unfold fmt_plus03 in Hin. apply in_app_or in Hin.
  destruct Hin as [Hin | Hin].
  - destruct (Z.ltb z 0) eqn:Ez; destruct Hin as [Hc | []]; subst c; reflexivity.
  - apply (pad2_numch _ c Hin).
Qed.

Lemma fmt_02_numch : forall z c, In c (fmt_02 z) -> is_numch c = true.
Proof.
  intros z c Hin. unfold fmt_02 in Hin. destruct (Z.ltb z 0) eqn:Ez.
  - destruct Hin as [Hc | Hin].
    + subst c. reflexivity.
    + apply (dec_numch _ c Hin).
  - apply (pad2_numch _ c Hin).
Qed.

Lemma log_tz_numch : forall off c, In c (log_tz off) -> is_numch c = true.
Proof.
  intros off c Hin. unfold log_tz in Hin. apply in_app_or in Hin.
  destruct Hin as [Hin | Hin].
  - apply (fmt_plus03_numch _ c Hin).
  - apply (fmt_02_numch _ c Hin).
Qed.

Lemma dec_z_no : forall t c, is_numch c = false -> ~ In c (dec_z t).
Proof. intros t c Hc Hin. rewrite (dec_z_numch t c Hin) in Hc. discriminate Hc. Qed.

Lemma log_tz_no : forall off c, is_numch c = false -> ~ In c (log_tz off).
Proof. intros off c Hc Hin. rewrite (log_tz_numch off c Hin) in Hc. discriminate Hc. Qed.

Lemma rtype_of_s_rtype_s : forall ty, rtype_of_s (rtype_s ty) = Some ty.
Proof. intro ty. destruct ty; vm_compute; reflexivity. Qed.

Lemma rtype_s_no_colon : forall ty, ~ In x3a (rtype_s ty).
Proof.
  intros ty Hin.
  assert (Hc : contains_byte x3a (rtype_s ty) = true).
  { revert Hin. generalize (rtype_s ty). intro s. induction s as [|x s' IH]; intro Hin.
    - destruct Hin.
    - cbn [contains_byte]. destruct Hin as [Hx | Hin].
      + subst x. reflexivity.
      + rewrite (IH Hin). apply orb_true_r. }
  destruct ty; vm_compute in Hc; discriminate Hc.
Qed.

Lemma rtype_s_no_ctl : forall ty c, (c = c_nl \/ c = c_cr \/ c = c_tab) -> ~ In c (rtype_s ty).
Proof.
  intros ty c Hc Hin.
  assert (Hcb : contains_byte c (rtype_s ty) = true).
  { revert Hin. generalize (rtype_s ty). intro s. induction s as [|x s' IH]; intro Hin.
    - destruct Hin.
    - cbn [contains_byte]. destruct Hin as [Hx | Hin].
      + subst x. rewrite beqb_refl. reflexivity.
      + rewrite (IH Hin). apply orb_true_r. }
  destruct Hc as [Hc | [Hc | Hc]]; subst c; destruct ty; vm_compute in Hcb; discriminate Hcb.
Qed.

(* the first line of a commit message, which is all that commit() logs *)
Lemma first_line_no_nl : forall m, ~ In c_nl (first_line m).
Proof.
  intro m. unfold first_line. destruct (split1 c_nl m) as [a ob] eqn:E.
  cbn [fst]. destruct (split1_inv c_nl m a ob E) as [Hnin _]. exact Hnin.
Qed.

Lemma first_line_prefix : forall m, exists r, m = first_line m ++ r.
Proof.
  intro m. unfold first_line. destruct (split1 c_nl m) as [a ob] eqn:E.
  cbn [fst]. destruct (split1_inv c_nl m a ob E) as [_ Hsh]. destruct ob as [b|].
  - exists (c_nl :: b). exact Hsh.
  - exists []. rewrite app_nil_r. exact Hsh.
Qed.

(* ------------------------------------------------------------------ *)
(** * 2. One line reads back *)

(* the line without its final newline *)
Definition log_body (from to : option bytes) (name email : bytes) (t off : Z)
                    (ty : rtype) (msg : bytes) : bytes :=
  id_text from ++ c_sp :: id_text to ++ c_sp ::
  (name ++ [c_sp; x3c] ++ email ++ [x3e; c_sp] ++ dec_z t ++ [c_sp] ++ log_tz off)
  ++ c_tab :: rtype_s ty ++ [x3a; c_sp] ++ msg.

Lemma log_line_body : forall from to name email t off ty msg,
  log_line from to name email t off ty msg
  = log_body from to name email t off ty msg ++ [c_nl].
Proof.
  intros from to name email t off ty msg. unfold log_line, log_body.
  fold (id_text from). fold (id_text to).
  repeat (rewrite <- app_assoc || rewrite <- app_comm_cons). reflexivity.
Qed.

(* how the reader decodes the id field *)
Definition read_id (t : bytes) : option (option bytes) :=
  if bytes_eqb t zero_hex then Some None
  else match read_hash t with Some h => Some (Some h) | None => None end.

Lemma parse_log_line_shape : forall f t pre ty msg id,
  ~ In c_sp f -> ~ In c_sp t -> ~ In c_tab pre ->
  read_id t = Some id ->
  parse_log_line (f ++ c_sp :: t ++ c_sp :: pre ++ c_tab :: rtype_s ty ++ [x3a; c_sp] ++ msg)
  = Some (Some (mkRec id ty msg)).
Proof.
  intros f t pre ty msg id Hf Ht Hpre Hid. unfold parse_log_line.
  rewrite (split1_app_sep c_sp f _ Hf). cbv beta iota.
  rewrite (split1_app_sep c_sp t _ Ht). cbv beta iota zeta.
  unfold read_id in Hid. rewrite Hid.
  rewrite (split1_app_sep c_tab pre _ Hpre). cbv beta iota.
  rewrite (split1s_app_nofirst x3a [c_sp] (rtype_s ty) msg (rtype_s_no_colon ty)).
  cbv beta iota. rewrite rtype_of_s_rtype_s. reflexivity.
Qed.

(* the id that reads back: twenty 0x00 bytes print as forty '0', which the
   reader takes for "no id" *)
Definition id_back (o : option bytes) : option bytes :=
  match o with
  | Some h => if bytes_eqb h zero_id then None else Some h
  | None => None
  end.

Lemma read_id_id_text : forall o,
  (forall h, o = Some h -> length h = 20%nat) ->
  read_id (id_text o) = Some (id_back o).
Proof.
  intros o Hlen. unfold read_id. destruct o as [h|]; cbn [id_text id_back].
  - destruct (bytes_eqb h zero_id) eqn:Eh.
    + apply bytes_eqb_eq in Eh. subst h. rewrite <- zero_hex_hex.
      rewrite bytes_eqb_refl. reflexivity.
    + assert (Ehex : bytes_eqb (hex h) zero_hex = false).
      { apply bytes_eqb_neq. intro Heq. rewrite zero_hex_hex in Heq.
        apply hex_inj in Heq. apply bytes_eqb_neq in Eh. apply Eh. exact Heq. }
      rewrite Ehex. rewrite (read_hash_hex h (Hlen h eq_refl)). reflexivity.
  - rewrite bytes_eqb_refl. reflexivity.
Qed.

Lemma id_back_id : forall o, o <> Some zero_id -> id_back o = o.
Proof.
  intros o Ho. destruct o as [h|]; cbn [id_back]; [|reflexivity].
  destruct (bytes_eqb h zero_id) eqn:Eh; [|reflexivity].
  apply bytes_eqb_eq in Eh. subst h. contradiction Ho. reflexivity.
Qed.

Lemma pre_no_tab : forall name email t off,
  ~ In c_tab name -> ~ In c_tab email ->
  ~ In c_tab (name ++ [c_sp; x3c] ++ email ++ [x3e; c_sp] ++ dec_z t ++ [c_sp] ++ log_tz off).
Proof.
  intros name email t off Hn He.
  apply not_in_app; [exact Hn|].
  cbn [app]. apply not_in_cons; [discriminate|]. apply not_in_cons; [discriminate|].
  apply not_in_app; [exact He|].
  apply not_in_cons; [discriminate|]. apply not_in_cons; [discriminate|].
  apply not_in_app; [apply dec_z_no; reflexivity|].
  apply not_in_cons; [discriminate|].
  apply log_tz_no; reflexivity.
Qed.

(* General form: whatever the id, the reader gets [id_back to]. The message
   and the type read back exactly; name and e-mail may contain blanks, ": ",
   '<', '>' — only a TAB would move the type/message boundary. *)
Theorem log_line_roundtrip_gen : forall from to name email t off ty msg,
  (forall h, to = Some h -> length h = 20%nat) ->
  ~ In c_tab name -> ~ In c_tab email ->
  parse_log_line (log_body from to name email t off ty msg)
  = Some (Some (mkRec (id_back to) ty msg)).
Proof.
  intros from to name email t off ty msg Hto Hn He. unfold log_body.
  apply parse_log_line_shape.
  - apply id_text_only_hex. reflexivity.
  - apply id_text_only_hex. reflexivity.
  - apply pre_no_tab; assumption.
  - apply read_id_id_text. exact Hto.
Qed.

Lemma log_body_no_nl : forall from to name email t off ty msg,
  ~ In c_nl name -> ~ In c_nl email -> ~ In c_nl msg ->
  ~ In c_nl (log_body from to name email t off ty msg).
Proof.
  intros from to name email t off ty msg Hnn Hne Hnm. unfold log_body.
  apply not_in_app; [apply id_text_only_hex; reflexivity|].
  apply not_in_cons; [discriminate|].
  apply not_in_app; [apply id_text_only_hex; reflexivity|].
  apply not_in_cons; [discriminate|].
  apply not_in_app.
  - apply not_in_app; [exact Hnn|].
    cbn [app]. apply not_in_cons; [discriminate|]. apply not_in_cons; [discriminate|].
    apply not_in_app; [exact Hne|].
    apply not_in_cons; [discriminate|]. apply not_in_cons; [discriminate|].
    apply not_in_app; [apply dec_z_no; reflexivity|].
    apply not_in_cons; [discriminate|].
    apply log_tz_no; reflexivity.
  - apply not_in_cons; [discriminate|].
    apply not_in_app; [apply rtype_s_no_ctl; left; reflexivity|].
    cbn [app]. apply not_in_cons; [discriminate|]. apply not_in_cons; [discriminate|].
    exact Hnm.
Qed.

(* The [from] hypothesis is not needed (the old id is never read back); it is
   kept so that the statement reads as the tool's invariant. *)
Theorem log_line_roundtrip : forall from to name email t off ty msg,
  (forall h, from = Some h -> length h = 20%nat) ->
  (forall h, to = Some h -> length h = 20%nat) ->
  to <> Some (repeat x00 20) ->
  ~ In c_tab name -> ~ In c_tab email ->
  ~ In c_nl name -> ~ In c_nl email -> ~ In c_nl msg ->
  exists body,
    log_line from to name email t off ty msg = body ++ [c_nl] /\
    ~ In c_nl body /\
    parse_log_line body = Some (Some (mkRec to ty msg)).
Proof.
  intros from to name email t off ty msg _ Hto Hz Htn Hte Hnn Hne Hnm.
  exists (log_body from to name email t off ty msg).
  split; [apply log_line_body|]. split.
  - apply log_body_no_nl; assumption.
  - rewrite (log_line_roundtrip_gen from to name email t off ty msg Hto Htn Hte).
    rewrite (id_back_id to Hz). reflexivity.
Qed.

(* the body ends in '\r' only if the message does *)
Lemma log_body_last : forall from to name email t off ty msg,
  (msg = [] \/ last msg x00 <> c_cr) ->
  last (log_body from to name email t off ty msg) x00 <> c_cr.
Proof.
  intros from to name email t off ty msg Hm. unfold log_body.
  rewrite last_app_ne by discriminate.
  change (c_sp :: id_text to ++ c_sp ::
            (name ++ [c_sp; x3c] ++ email ++ [x3e; c_sp] ++ dec_z t ++ [c_sp] ++ log_tz off)
            ++ c_tab :: rtype_s ty ++ [x3a; c_sp] ++ msg)
    with ((c_sp :: id_text to) ++ c_sp ::
            (name ++ [c_sp; x3c] ++ email ++ [x3e; c_sp] ++ dec_z t ++ [c_sp] ++ log_tz off)
            ++ c_tab :: rtype_s ty ++ [x3a; c_sp] ++ msg).
  rewrite last_app_ne by discriminate.
  change (c_sp :: (name ++ [c_sp; x3c] ++ email ++ [x3e; c_sp] ++ dec_z t ++ [c_sp] ++ log_tz off)
            ++ c_tab :: rtype_s ty ++ [x3a; c_sp] ++ msg)
    with ((c_sp :: (name ++ [c_sp; x3c] ++ email ++ [x3e; c_sp] ++ dec_z t ++ [c_sp] ++ log_tz off))
            ++ c_tab :: rtype_s ty ++ [x3a; c_sp] ++ msg).
  rewrite last_app_ne by discriminate.
  change (c_tab :: rtype_s ty ++ [x3a; c_sp] ++ msg)
    with ((c_tab :: rtype_s ty) ++ [x3a; c_sp] ++ msg).
  rewrite last_app_ne by discriminate.
  destruct Hm as [Hm | Hm].
  - subst msg. cbn. discriminate.
  - destruct msg as [|m0 mr].
    + cbn. discriminate.
    + change ([x3a; c_sp] ++ m0 :: mr) with ([x3a; c_sp] ++ (m0 :: mr)).
      rewrite last_app_ne by discriminate. exact Hm.
Qed.

(* ------------------------------------------------------------------ *)
(** * 3. Appending to the journal *)

Lemma scan_lines_aux_app : forall a cur b,
  scan_lines_aux cur ((a ++ [c_nl]) ++ b)
  = scan_lines_aux cur (a ++ [c_nl]) ++ scan_lines_aux [] b.
Proof.
  intro a. induction a as [|x a' IH]; intros cur b.
  - cbn [app]. rewrite !scan_lines_aux_cons. rewrite beqb_refl. reflexivity.
  - cbn [app]. rewrite !scan_lines_aux_cons. destruct (beqb x c_nl) eqn:Ex.
    + rewrite IH. reflexivity.
    + apply IH.
Qed.

Lemma ends_nl_split : forall a : bytes,
  a <> [] -> last a x00 = c_nl -> exists a', a = a' ++ [c_nl].
Proof.
  intros a Hne Hlast. destruct (exists_last Hne) as [a' [c Ha]].
  subst a. rewrite last_last in Hlast. subst c. exists a'. reflexivity.
Qed.

Theorem scan_lines_app : forall a b,
  (a = [] \/ last a x00 = c_nl) ->
  scan_lines (a ++ b) = scan_lines a ++ scan_lines b.
Proof.
  intros a b Ha. destruct a as [|x a0].
  - reflexivity.
  - destruct Ha as [Ha | Ha]; [discriminate Ha|].
    destruct (ends_nl_split (x :: a0)) as [a' Ea]; [discriminate | exact Ha |].
    rewrite Ea. unfold scan_lines. apply scan_lines_aux_app.
Qed.

Lemma parse_log_lines_app : forall l1 l2,
  parse_log_lines (l1 ++ l2) =
  match parse_log_lines l1, parse_log_lines l2 with
  | Some a, Some b => Some (a ++ b)
  | _, _ => None
  end.
Proof.
  intros l1 l2. induction l1 as [|l r IH].
  - cbn [app parse_log_lines]. destruct (parse_log_lines l2); reflexivity.
  - cbn [app parse_log_lines]. rewrite IH.
    destruct (parse_log_line l) as [[x|]|];
      destruct (parse_log_lines r) as [xs|];
      destruct (parse_log_lines l2) as [ys|]; reflexivity.
Qed.

(* any single well-formed line *)
Theorem parse_reflog_app_line : forall file rs body r,
  parse_reflog file = Some rs ->
  (file = [] \/ last file x00 = c_nl) ->
  ~ In c_nl body -> (body = [] \/ last body x00 <> c_cr) ->
  parse_log_line body = Some (Some r) ->
  parse_reflog (file ++ body ++ [c_nl]) = Some (rs ++ [r]).
Proof.
  intros file rs body r Hfile Hend Hnl Hcr Hline. unfold parse_reflog in *.
  rewrite (scan_lines_app file (body ++ [c_nl]) Hend).
  rewrite parse_log_lines_app, Hfile.
  change (body ++ [c_nl]) with (body ++ c_nl :: []).
  rewrite (scan_lines_app_nl body [] Hnl Hcr), scan_lines_nil.
  cbn [parse_log_lines]. rewrite Hline. reflexivity.
Qed.

(* the line the tool writes *)
Theorem parse_reflog_app : forall file rs from to name email t off ty msg,
  parse_reflog file = Some rs ->
  (file = [] \/ last file x00 = c_nl) ->
  (forall h, to = Some h -> length h = 20%nat) ->
  to <> Some (repeat x00 20) ->
  ~ In c_tab name -> ~ In c_tab email ->
  ~ In c_nl name -> ~ In c_nl email -> ~ In c_nl msg ->
  (msg = [] \/ last msg x00 <> c_cr) ->
  parse_reflog (file ++ log_line from to name email t off ty msg)
  = Some (rs ++ [mkRec to ty msg]).
Proof.
  intros file rs from to name email t off ty msg Hfile Hend Hto Hz Htn Hte Hnn Hne Hnm Hcr.
  rewrite log_line_body.
  apply (parse_reflog_app_line file rs _ _ Hfile Hend).
  - apply log_body_no_nl; assumption.
  - right. apply log_body_last. exact Hcr.
  - rewrite (log_line_roundtrip_gen from to name email t off ty msg Hto Htn Hte).
    rewrite (id_back_id to Hz). reflexivity.
Qed.

(* appending never disturbs what is already there: every earlier record is
   still there, at the same index from the start *)
Corollary parse_reflog_app_prefix : forall file rs body r i,
  parse_reflog file = Some rs ->
  (file = [] \/ last file x00 = c_nl) ->
  ~ In c_nl body -> (body = [] \/ last body x00 <> c_cr) ->
  parse_log_line body = Some (Some r) ->
  (i < length rs)%nat ->
  exists rs', parse_reflog (file ++ body ++ [c_nl]) = Some rs' /\
              nth_error rs' i = nth_error rs i /\ length rs' = S (length rs).
Proof.
  intros file rs body r i Hfile Hend Hnl Hcr Hline Hi.
  exists (rs ++ [r]). split.
  - apply parse_reflog_app_line; assumption.
  - split.
    + apply nth_error_app1. exact Hi.
    + rewrite app_length. cbn [length]. lia.
Qed.

(* the file the tool writes keeps the shape that [parse_reflog_app] asks for *)
Lemma log_line_ends_nl : forall file from to name email t off ty msg,
  last (file ++ log_line from to name email t off ty msg) x00 = c_nl.
Proof.
  intros file from to name email t off ty msg. rewrite log_line_body.
  rewrite app_assoc. apply last_last.
Qed.

(* ------------------------------------------------------------------ *)
(** * 4. Positions *)

Theorem get_record_app : forall rs r n,
  get_record (rs ++ [r]) 0 = Some r /\
  get_record (rs ++ [r]) (S n) = get_record rs n.
Proof.
  intros rs r n. unfold get_record. rewrite app_length. cbn [length]. split.
  - assert (E : Nat.leb (length rs + 1) 0 = false) by (apply Nat.leb_gt; lia).
    rewrite E.
    replace (length rs + 1 - 1 - 0)%nat with (length rs + 0)%nat by lia.
    rewrite nth_error_app2 by lia.
    replace (length rs + 0 - length rs)%nat with 0%nat by lia. reflexivity.
  - destruct (Nat.leb (length rs) n) eqn:E.
    + assert (E' : Nat.leb (length rs + 1) (S n) = true).
      { apply Nat.leb_le. apply Nat.leb_le in E. lia. }
      rewrite E'. reflexivity.
    + assert (E' : Nat.leb (length rs + 1) (S n) = false).
      { apply Nat.leb_gt. apply Nat.leb_gt in E. lia. }
      rewrite E'. apply Nat.leb_gt in E.
      replace (length rs + 1 - 1 - S n)%nat with (length rs - 1 - n)%nat by lia.
      apply nth_error_app1. lia.
Qed.

(* k records appended: positions shift by exactly k *)
Theorem get_record_app_many : forall rs rs' n,
  get_record (rs ++ rs') (length rs' + n) = get_record rs n.
Proof.
  intros rs rs'. revert rs. induction rs' as [|r rs'' IH]; intros rs n.
  - rewrite app_nil_r. reflexivity.
  - change (rs ++ r :: rs'') with (rs ++ [r] ++ rs''). rewrite app_assoc.
    cbn [length]. replace (S (length rs'') + n)%nat with (length rs'' + S n)%nat by lia.
    rewrite IH. apply (proj2 (get_record_app rs r n)).
Qed.

Lemma nth_error_rev : forall (rs : list lrec) n,
  (n < length rs)%nat -> nth_error (rev rs) n = nth_error rs (length rs - 1 - n).
Proof.
  intro rs. induction rs as [|a rs' IH]; intros n Hn.
  - cbn [length] in Hn. lia.
  - cbn [rev length] in *. destruct (Nat.eq_dec n (length rs')) as [En | En].
    + rewrite nth_error_app2 by (rewrite rev_length; lia).
      rewrite rev_length.
      replace (n - length rs')%nat with 0%nat by lia.
      replace (S (length rs') - 1 - n)%nat with 0%nat by lia. reflexivity.
    + rewrite nth_error_app1 by (rewrite rev_length; lia).
      rewrite IH by lia.
      replace (S (length rs') - 1 - n)%nat with (S (length rs' - 1 - n))%nat by lia.
      reflexivity.
Qed.

Lemma get_record_rev : forall rs n, get_record rs n = nth_error (rev rs) n.
Proof.
  intros rs n. unfold get_record. destruct (Nat.leb (length rs) n) eqn:E.
  - apply Nat.leb_le in E. symmetry. apply nth_error_None. rewrite rev_length. exact E.
  - apply Nat.leb_gt in E. symmetry. apply nth_error_rev. exact E.
Qed.

Lemma number_from_length : forall (A : Type) (l : list A) i, length (number_from i l) = length l.
Proof.
  intros A l. induction l as [|x r IH]; intro i.
  - reflexivity.
  - cbn [number_from length]. rewrite IH. reflexivity.
Qed.

Lemma number_from_fst : forall (A : Type) (l : list A) i,
  map fst (number_from i l) = seq i (length l).
Proof.
  intros A l. induction l as [|x r IH]; intro i.
  - reflexivity.
  - cbn [number_from map length seq fst]. rewrite IH. reflexivity.
Qed.

Lemma number_from_nth : forall (A : Type) (l : list A) i n x,
  nth_error l n = Some x -> nth_error (number_from i l) n = Some ((i + n)%nat, x).
Proof.
  intros A l. induction l as [|y r IH]; intros i n x Hn.
  - destruct n; discriminate Hn.
  - destruct n as [|n'].
    + cbn [nth_error] in Hn. injection Hn as Hy. subst y.
      cbn [number_from nth_error]. rewrite Nat.add_0_r. reflexivity.
    + cbn [nth_error] in Hn. cbn [number_from nth_error].
      rewrite (IH (S i) n' x Hn). f_equal. f_equal. lia.
Qed.

Definition show_entry (ir : nat * lrec) : bytes * nat * rtype * bytes :=
  let '(i, r) := ir in (short_id (r_id r), i, r_type r, r_msg r).

Lemma show_reflog_eq : forall rs, show_reflog rs = map show_entry (number_from 0 (rev rs)).
Proof. reflexivity. Qed.

Theorem show_reflog_total : forall rs, length (show_reflog rs) = length rs.
Proof.
  intro rs. rewrite show_reflog_eq, map_length, number_from_length, rev_length. reflexivity.
Qed.

Theorem show_reflog_positions : forall rs,
  map (fun x => snd (fst (fst x))) (show_reflog rs) = seq 0 (length rs).
Proof.
  intro rs. rewrite show_reflog_eq, map_map.
  rewrite <- (rev_length rs), <- (number_from_fst lrec (rev rs) 0).
  apply map_ext. intros [i r]. reflexivity.
Qed.

Theorem show_reflog_get_record : forall rs n r,
  get_record rs n = Some r ->
  nth_error (show_reflog rs) n = Some (short_id (r_id r), n, r_type r, r_msg r).
Proof.
  intros rs n r Hg. rewrite get_record_rev in Hg.
  rewrite show_reflog_eq.
  rewrite (map_nth_error show_entry n (number_from 0 (rev rs))
             (number_from_nth lrec (rev rs) 0 n r Hg)).
  reflexivity.
Qed.

(* and conversely: what [reflog] prints at position n is a record that
   [reset HEAD@{n}] resolves *)
Theorem show_reflog_get_record_inv : forall rs n e,
  nth_error (show_reflog rs) n = Some e ->
  exists r, get_record rs n = Some r /\ e = (short_id (r_id r), n, r_type r, r_msg r).
Proof.
  intros rs n e He.
  destruct (get_record rs n) as [r|] eqn:Hg.
  - exists r. split; [reflexivity|].
    rewrite (show_reflog_get_record rs n r Hg) in He. injection He as He. symmetry. exact He.
  - exfalso. rewrite get_record_rev in Hg. apply nth_error_None in Hg.
    rewrite rev_length in Hg.
    assert (Hlt : (n < length (show_reflog rs))%nat).
    { apply nth_error_Some. rewrite He. discriminate. }
    rewrite show_reflog_total in Hlt. lia.
Qed.

Theorem get_record_total : forall rs n, (n < length rs)%nat <-> exists r, get_record rs n = Some r.
Proof.
  intros rs n. rewrite get_record_rev. split.
  - intro Hn. destruct (nth_error (rev rs) n) as [r|] eqn:E.
    + exists r. reflexivity.
    + apply nth_error_None in E. rewrite rev_length in E. lia.
  - intros [r Hr]. rewrite <- (rev_length rs). apply nth_error_Some. rewrite Hr. discriminate.
Qed.

(* ------------------------------------------------------------------ *)
(** * 5. [short_id] is total *)

Theorem short_id_length : forall o,
  (forall h, o = Some h -> (4 <= length h)%nat) -> length (short_id o) = 7%nat.
Proof.
  intros o Ho. destruct o as [h|]; cbn [short_id].
  - rewrite firstn_length, hex_length. specialize (Ho h eq_refl). lia.
  - reflexivity.
Qed.

Theorem short_id_none : short_id None = [x30; x30; x30; x30; x30; x30; x30].
Proof. reflexivity. Qed.

(* ------------------------------------------------------------------ *)
(** * 6. Non-vacuity *)

Definition ex_id1 : bytes := repeat x01 20.
Definition ex_id2 : bytes :=
  [xde; xad; xbe; xef; x00; x01; x02; x03; x04; x05; x06; x07; x08; x09; x0a; x0b; x0c; x0d; x0e; xff].
(* "fix: a: b\tc" *)
Definition ex_msg : bytes := [x66; x69; x78; x3a; x20; x61; x3a; x20; x62; x09; x63].
Definition ex_name : bytes := [x41; x6c; x20; x42; x6f].                   (* "Al Bo" *)
Definition ex_email : bytes := [x61; x40; x62; x2e; x63; x6f].             (* "a@b.co" *)

Example ex_line_reads_back :
  parse_reflog (log_line None (Some ex_id1) ex_name ex_email 1700000000%Z 32400%Z RCommit ex_msg)
  = Some [mkRec (Some ex_id1) RCommit ex_msg].
Proof. vm_compute. reflexivity. Qed.

Example ex_two_lines :
  parse_reflog (log_line None (Some ex_id1) ex_name ex_email 1700000000%Z 32400%Z RCommit ex_msg
                ++ log_line (Some ex_id1) (Some ex_id2) ex_name ex_email (-5)%Z (-12600)%Z RReset [])
  = Some [mkRec (Some ex_id1) RCommit ex_msg; mkRec (Some ex_id2) RReset []]
  /\ show_reflog [mkRec (Some ex_id1) RCommit ex_msg; mkRec (Some ex_id2) RReset []]
     = [(str "deadbee"%string, 0%nat, RReset, []); (str "0101010"%string, 1%nat, RCommit, ex_msg)].
Proof. split; vm_compute; reflexivity. Qed.

(* the hypotheses of [parse_reflog_app] are satisfiable by that very line *)
Example ex_hyps :
  (forall h, Some ex_id1 = Some h -> length h = 20%nat) /\
  Some ex_id1 <> Some (repeat x00 20) /\
  ~ In c_tab ex_name /\ ~ In c_tab ex_email /\
  ~ In c_nl ex_name /\ ~ In c_nl ex_email /\ ~ In c_nl ex_msg /\
  (ex_msg = [] \/ last ex_msg x00 <> c_cr).
Proof.
  repeat split.
  - intros h Hh. injection Hh as Hh. subst h. reflexivity.
  - discriminate.
  - cbn. intuition discriminate.
  - cbn. intuition discriminate.
  - cbn. intuition discriminate.
  - cbn. intuition discriminate.
  - cbn. intuition discriminate.
  - right. cbn. discriminate.
Qed.

(* the two restrictions are needed: twenty 0x00 bytes read back as "no id",
   and a message ending in '\r' loses it through the line splitter *)
Example ex_zero_id_reads_none :
  parse_reflog (log_line None (Some (repeat x00 20)) ex_name ex_email 0%Z 0%Z RCommit ex_msg)
  = Some [mkRec None RCommit ex_msg].
Proof. vm_compute. reflexivity. Qed.

Example ex_cr_lost :
  parse_reflog (log_line None (Some ex_id1) ex_name ex_email 0%Z 0%Z RCommit [x61; x0d])
  = Some [mkRec (Some ex_id1) RCommit [x61]].
Proof. vm_compute. reflexivity. Qed.

Example ex_tab_in_name_breaks :
  parse_reflog (log_line None (Some ex_id1) [x41; x09; x42] ex_email 0%Z 0%Z RCommit ex_msg)
  = Some [].
Proof. vm_compute. reflexivity. Qed.

Print Assumptions log_line_roundtrip.
Print Assumptions log_line_roundtrip_gen.
Print Assumptions first_line_no_nl.
Print Assumptions scan_lines_app.
Print Assumptions parse_reflog_app.
Print Assumptions parse_reflog_app_line.
Print Assumptions parse_reflog_app_prefix.
Print Assumptions get_record_app.
Print Assumptions get_record_app_many.
Print Assumptions show_reflog_positions.
Print Assumptions show_reflog_get_record.
Print Assumptions show_reflog_get_record_inv.
Print Assumptions show_reflog_total.
Print Assumptions short_id_length.
Print Assumptions ex_line_reads_back.
Print Assumptions ex_two_lines.
