(* RefusalFacts.v — property C18 "a command refused for invalid arguments
   leaves the repository unchanged", for EVERY command and EVERY world, and the
   corners of C14 (`log` before the first commit, `log -n k` for k <= 0).

   1. [readonly]           the commands that never write, whatever they answer
   2. [refused_unchanged_<cmd>], [refused_unchanged_all]
                           the commands whose every refusal comes before the
                           first write, on every world
   3. [config_malformed_refused]
   4. [late_refusal], [refusal_cases]
                           the uniform statement: a refused command wrote
                           nothing, or it is one of the listed late refusals
   5. what a late refusal leaves untouched
   6. `log` corners *)
From Coq Require Import Strings.String Strings.Byte.
From Coq Require Import List Bool NArith ZArith Arith Lia ZifyBool ZifyNat ZifyN.
From Goit Require Import Bytes Sha1 Obj Tree Index Regex GoRegex Commit Reflog Config Ignore World Repo.
From Goit Require Import BytesFacts ObjFacts IndexFacts TreeFacts CommitFacts MonadFacts Inv.
From Goit Require Import BranchFacts ExactFacts TotalFacts.
From Goit Require ConfigCmdFacts CommitCmdFacts GateFacts AddressFacts LogFacts.
From Goit Require ConnectedFacts SnapshotFacts HeadFacts RestoreFacts ResetFacts AddTotalFacts.
Import ListNotations.

#[local] Arguments sha1 : simpl never.
#[local] Arguments obj_id : simpl never.
#[local] Arguments payload : simpl never.
#[local] Arguments header : simpl never.

(* ================================================================== *)
(** * 0. Taking a step apart *)

Lemma rf_triple : forall (A B C : Type) (a a' : A) (b b' : B) (c c' : C),
  (a, b, c) = (a', b', c') -> a = a' /\ b = b' /\ c = c'.
Proof. intros A B C a a' b b' c c' H. injection H as H1 H2 H3. auto. Qed.

Lemma outcome_of_err : forall r, outcome_of r = OErr -> r = Err.
Proof. intros [out| |] H; try discriminate H. reflexivity. Qed.

(* a command other than `init`: either it is refused before it starts (not
   initialised, or the context does not load) or it is its [dispatch] *)
Lemma step_inv : forall e c w w' o tr,
  c <> CInit -> step (ACmd e c) w = (w', o, tr) ->
  (o = OErr /\ tr = [] /\ w' = w) \/
  exists x r s', w_inited w = true /\ ctx_of w = Some x /\
    dispatch e c x (mkMS w [] None) = (r, s') /\
    o = outcome_of r /\ w' = ms_w s' /\ tr = ms_trace s'.
Proof.
  intros e c w w' o tr Hc Hstep.
  destruct (w_inited w) eqn:Hi; [destruct (ctx_of w) as [x|] eqn:Hx|].
  - right. rewrite (step_loaded e c w x Hc Hi Hx) in Hstep.
    destruct (dispatch e c x (mkMS w [] None)) as [r s'] eqn:Ed. cbn [fst snd] in Hstep.
    apply rf_triple in Hstep. destruct Hstep as (Hw & Ho & Ht).
    exists x, r, s'. auto 10.
  - left. rewrite (step_not_loaded e c w Hc (or_intror Hx)) in Hstep.
    apply rf_triple in Hstep. destruct Hstep as (Hw & Ho & Ht). auto.
  - left. rewrite (step_not_loaded e c w Hc (or_introl Hi)) in Hstep.
    apply rf_triple in Hstep. destruct Hstep as (Hw & Ho & Ht). auto.
Qed.

Lemma step_err_inv : forall e c w w' tr,
  c <> CInit -> step (ACmd e c) w = (w', OErr, tr) ->
  (tr = [] /\ w' = w) \/
  exists x s', w_inited w = true /\ ctx_of w = Some x /\
    dispatch e c x (mkMS w [] None) = (Err, s') /\ w' = ms_w s' /\ tr = ms_trace s'.
Proof.
  intros e c w w' tr Hc Hstep.
  destruct (step_inv e c w w' OErr tr Hc Hstep) as [(_ & Ht & Hw)|(x & r & s' & Hi & Hx & Hd & Ho & Hw & Ht)].
  - left. auto.
  - right. symmetry in Ho. apply outcome_of_err in Ho. subst r. exists x, s'. auto.
Qed.

(* a dispatch that, when it answers [Err], has left the state alone *)
Definition err_clean (e : env) (c : cmd) : Prop :=
  forall x w s', ctx_of w = Some x ->
    dispatch e c x (mkMS w [] None) = (Err, s') -> s' = mkMS w [] None.

Lemma err_clean_step : forall e c w w' tr,
  c <> CInit -> err_clean e c -> step (ACmd e c) w = (w', OErr, tr) -> tr = [] /\ w' = w.
Proof.
  intros e c w w' tr Hc Hcl Hstep.
  destruct (step_err_inv e c w w' tr Hc Hstep) as [H|(x & s' & _ & Hx & Hd & Hw & Ht)]; [exact H|].
  rewrite (Hcl x w s' Hx Hd) in Hw, Ht. cbn [ms_w ms_trace] in Hw, Ht. auto.
Qed.

(* ================================================================== *)
(** * 1. Commands that never write *)

(* whatever the state (ANY fault setting) and whatever the answer *)
Definition readonly {A} (m : M A) : Prop := forall s, snd (m s) = s.

Lemma ro_ret : forall A (a : A), readonly (ret a).
Proof. intros A a s. reflexivity. Qed.
Lemma ro_fail : forall A, readonly (@fail A).
Proof. intros A s. reflexivity. Qed.
Lemma ro_getw : readonly getw.
Proof. intros s. reflexivity. Qed.
Lemma ro_of_opt : forall A (o : option A), readonly (of_opt o).
Proof. intros A [a|] s; reflexivity. Qed.
Lemma ro_guard : forall b, readonly (guard b).
Proof. intros [|] s; reflexivity. Qed.
Lemma ro_bind : forall A B (m : M A) (f : A -> M B),
  readonly m -> (forall a, readonly (f a)) -> readonly (bind m f).
Proof.
  intros A B m f Hm Hf s. unfold bind. pose proof (Hm s) as H1.
  destruct (m s) as [[a| |] s1]; cbn [snd] in H1; subst s1; [apply Hf | reflexivity | reflexivity].
Qed.

Ltac rostep :=
  first
  [ assumption
  | lazymatch goal with
    | |- readonly (bind _ _) => apply ro_bind; [ | intro ]
    | |- readonly (ret _) => apply ro_ret
    | |- readonly fail => apply ro_fail
    | |- readonly getw => apply ro_getw
    | |- readonly (of_opt _) => apply ro_of_opt
    | |- readonly (guard _) => apply ro_guard
    | |- readonly (let _ := _ in _) => cbv zeta
    | |- readonly (match ?x with _ => _ end) => destruct x; cbv beta iota
    | |- readonly ((fix f (l : list _) {struct l} : M _ := _) ?args) =>
        induction args; cbv beta iota
    end ].
Ltac ro_tac := repeat rostep.

Lemma load_ctx_readonly : readonly load_ctx.
Proof. unfold load_ctx. ro_tac. Qed.
Lemma head_tree_nodes_readonly : forall c, readonly (head_tree_nodes c).
Proof. intro c. unfold head_tree_nodes. ro_tac. Qed.
Lemma cmd_status_readonly : forall c, readonly (cmd_status c).
Proof. intro c. unfold cmd_status. rostep. rostep. rostep; [apply head_tree_nodes_readonly|]. ro_tac. Qed.
Lemma cmd_log_readonly : forall c n, readonly (cmd_log c n).
Proof. intros c n. unfold cmd_log. ro_tac. Qed.
Lemma cmd_reflog_readonly : readonly cmd_reflog.
Proof. unfold cmd_reflog. ro_tac. Qed.
Lemma cmd_cat_file_readonly : forall t p args, readonly (cmd_cat_file t p args).
Proof. intros t p args. unfold cmd_cat_file. ro_tac. Qed.
Lemma cmd_hash_object_readonly : forall args, readonly (cmd_hash_object args).
Proof. intros args. unfold cmd_hash_object. ro_tac. Qed.
Lemma cmd_ls_files_readonly : forall s, readonly (cmd_ls_files s).
Proof. intros s. unfold cmd_ls_files. ro_tac. Qed.
Lemma cmd_rev_parse_readonly : forall args, readonly (cmd_rev_parse args).
Proof. intros args. unfold cmd_rev_parse. ro_tac. Qed.

Definition readonly_cmd (c : cmd) : Prop :=
  match c with
  | CStatus | CLog _ | CReflog | CCatFile _ _ _ | CHashObject _ | CLsFiles _ | CRevParse _ => True
  | CBranch [] true [] [] => True
  | _ => False
  end.

Lemma dispatch_readonly : forall e c x, readonly_cmd c -> readonly (dispatch e c x).
Proof.
  intros e c x Hc. destruct c; try contradiction Hc; cbn [dispatch].
  - apply cmd_status_readonly.
  - destruct args as [|a0 ar]; [|contradiction Hc]. destruct list_flag; [|contradiction Hc].
    destruct rename as [|r0 rr]; [|contradiction Hc]. destruct delete as [|d0 dr]; [|contradiction Hc].
    intro s. rewrite cmd_branch_list_eq. reflexivity.
  - apply cmd_log_readonly.
  - apply cmd_reflog_readonly.
  - apply cmd_cat_file_readonly.
  - apply cmd_hash_object_readonly.
  - apply cmd_ls_files_readonly.
  - apply cmd_rev_parse_readonly.
Qed.

Lemma readonly_cmd_not_init : forall c, readonly_cmd c -> c <> CInit.
Proof. intros c Hc ->. exact Hc. Qed.

(* also under an injected fault: there is no write that could fail *)
Theorem run_cmd_readonly : forall e c, readonly_cmd c -> readonly (run_cmd e c).
Proof.
  intros e c Hc s. rewrite run_cmd_eq.
  destruct c; try contradiction Hc;
    (destruct (w_inited (ms_w s)); [|reflexivity];
     destruct (ctx_of (ms_w s)) as [x|]; [|reflexivity];
     apply (dispatch_readonly e _ x Hc)).
Qed.

(* status, log, reflog, cat-file, hash-object, ls-files, rev-parse and
   `branch --list`: no effect and the same world, whatever the outcome *)
Theorem readonly_step : forall e c w w' o tr,
  readonly_cmd c -> step (ACmd e c) w = (w', o, tr) -> tr = [] /\ w' = w.
Proof.
  intros e c w w' o tr Hc Hstep. rewrite step_cmd_eq in Hstep.
  pose proof (run_cmd_readonly e c Hc (mkMS w [] None)) as Hro.
  apply rf_triple in Hstep. destruct Hstep as (Hw & _ & Ht).
  rewrite Hro in Hw, Ht. cbn [ms_w ms_trace] in Hw, Ht. auto.
Qed.

Corollary readonly_step_world : forall e c w, readonly_cmd c -> step_w (ACmd e c) w = w.
Proof.
  intros e c w Hc. unfold step_w. destruct (step (ACmd e c) w) as [[w' o] tr] eqn:Hs.
  cbn [fst]. exact (proj2 (readonly_step e c w w' o tr Hc Hs)).
Qed.

(* ================================================================== *)
(** * 2. Commands whose every refusal comes before the first write *)

(* ---------- the read-only ones ---------- *)
Theorem refused_unchanged_status : forall e w w' tr,
  step (ACmd e CStatus) w = (w', OErr, tr) -> tr = [] /\ w' = w.
Proof. intros e w w' tr. apply readonly_step. exact Logic.I. Qed.
Theorem refused_unchanged_log : forall e n w w' tr,
  step (ACmd e (CLog n)) w = (w', OErr, tr) -> tr = [] /\ w' = w.
Proof. intros e n w w' tr. apply readonly_step. exact Logic.I. Qed.
Theorem refused_unchanged_reflog : forall e w w' tr,
  step (ACmd e CReflog) w = (w', OErr, tr) -> tr = [] /\ w' = w.
Proof. intros e w w' tr. apply readonly_step. exact Logic.I. Qed.
Theorem refused_unchanged_cat_file : forall e t p args w w' tr,
  step (ACmd e (CCatFile t p args)) w = (w', OErr, tr) -> tr = [] /\ w' = w.
Proof. intros e t p args w w' tr. apply readonly_step. exact Logic.I. Qed.
Theorem refused_unchanged_hash_object : forall e args w w' tr,
  step (ACmd e (CHashObject args)) w = (w', OErr, tr) -> tr = [] /\ w' = w.
Proof. intros e args w w' tr. apply readonly_step. exact Logic.I. Qed.
Theorem refused_unchanged_ls_files : forall e s w w' tr,
  step (ACmd e (CLsFiles s)) w = (w', OErr, tr) -> tr = [] /\ w' = w.
Proof. intros e s w w' tr. apply readonly_step. exact Logic.I. Qed.
Theorem refused_unchanged_rev_parse : forall e args w w' tr,
  step (ACmd e (CRevParse args)) w = (w', OErr, tr) -> tr = [] /\ w' = w.
Proof. intros e args w w' tr. apply readonly_step. exact Logic.I. Qed.

(* ---------- init (refused exactly on an initialised repository) ---------- *)
Lemma cmd_init_eq : forall w t,
  cmd_init (mkMS w t None) =
  if w_inited w then (Err, mkMS w t None)
  else (Ok [], mkMS (apply_effect EInit w) (t ++ [EInit]) None).
Proof. intros w t. unfold cmd_init. ev. destruct (w_inited w); reflexivity. Qed.

Theorem refused_unchanged_init : forall e w w' tr,
  step (ACmd e CInit) w = (w', OErr, tr) -> tr = [] /\ w' = w /\ w_inited w = true.
Proof.
  intros e w w' tr Hstep. rewrite step_cmd_eq, run_cmd_eq, cmd_init_eq in Hstep.
  destruct (w_inited w); cbn [fst snd outcome_of ms_w ms_trace] in Hstep;
    apply rf_triple in Hstep; destruct Hstep as (Hw & Ho & Ht); [auto | discriminate Ho].
Qed.

(* ---------- config ---------- *)
Lemma err_clean_config : forall e g args, err_clean e (CConfig g args).
Proof.
  intros e g args x w s' _ Hd. cbn [dispatch] in Hd. rewrite ConfigCmdFacts.cmd_config_eq in Hd.
  destruct (ConfigCmdFacts.config_trace w x g args); [discriminate Hd|].
  injection Hd as <-. reflexivity.
Qed.

Theorem refused_unchanged_config : forall e g args w w' tr,
  step (ACmd e (CConfig g args)) w = (w', OErr, tr) -> tr = [] /\ w' = w.
Proof. intros e g args w w' tr. apply err_clean_step; [discriminate | apply err_clean_config]. Qed.

(* ---------- write-tree ---------- *)
Lemma cmd_write_tree_eq : forall w t,
  cmd_write_tree (mkMS w t None) =
  match write_tree_top (idx_of w) with
  | Some (root, subs) =>
      (Ok [hex (obj_id KTree root)],
       mkMS (apply_effects (map CommitCmdFacts.put_tree_eff (subs ++ [root])) w)
            (t ++ map CommitCmdFacts.put_tree_eff (subs ++ [root])) None)
  | None => (Err, mkMS w t None)
  end.
Proof.
  intros w t. unfold cmd_write_tree. ev.
  destruct (write_tree_top (idx_of w)) as [[root subs]|]; [|reflexivity]. cbn [fst snd].
  pose proof (CommitCmdFacts.put_trees_runs (subs ++ [root]) w t) as Hr.
  unfold bind at 1. rewrite Hr. reflexivity.
Qed.

Lemma err_clean_write_tree : forall e, err_clean e CWriteTree.
Proof.
  intros e x w s' _ Hd. cbn [dispatch] in Hd. rewrite cmd_write_tree_eq in Hd.
  destruct (write_tree_top (idx_of w)) as [[root subs]|]; [discriminate Hd|].
  injection Hd as <-. reflexivity.
Qed.

Theorem refused_unchanged_write_tree : forall e w w' tr,
  step (ACmd e CWriteTree) w = (w', OErr, tr) -> tr = [] /\ w' = w.
Proof. intros e w w' tr. apply err_clean_step; [discriminate | apply err_clean_write_tree]. Qed.

(* ---------- update-ref ---------- *)
Lemma err_clean_update_ref : forall e args, err_clean e (CUpdateRef args).
Proof.
  intros e args x w s' _ Hd. cbn [dispatch] in Hd.
  destruct args as [|r0 [|h [|y rest]]]; try (injection Hd as <-; reflexivity).
  rewrite cmd_update_ref_eq in Hd.
  destruct (update_ref_target w r0 h) as [[name id]|]; [discriminate Hd|].
  injection Hd as <-. reflexivity.
Qed.

Theorem refused_unchanged_update_ref : forall e args w w' tr,
  step (ACmd e (CUpdateRef args)) w = (w', OErr, tr) -> tr = [] /\ w' = w.
Proof. intros e args w w' tr. apply err_clean_step; [discriminate | apply err_clean_update_ref]. Qed.

(* ---------- branch: everything but --rename / --delete ---------- *)
Lemma err_clean_branch_plain : forall e args lst, err_clean e (CBranch args lst [] []).
Proof.
  intros e args lst x w s' _ Hd. cbn [dispatch] in Hd.
  destruct (cmd_branch_shapes e x args lst [] [] (mkMS w [] None))
    as [(name & -> & -> & _ & _) | [(-> & -> & _ & _) | [(_ & _ & Hn & _) | [(_ & _ & _ & Hn) | Herr]]]].
  - rewrite cmd_branch_create_eq in Hd.
    destruct (x_headc x) as [[hid cm]|];
      [destruct (negb (am_mem (w_refs w) name) && valid_branch_name name); [discriminate Hd|]|];
      injection Hd as <-; reflexivity.
  - rewrite cmd_branch_list_eq in Hd. discriminate Hd.
  - discriminate Hn.
  - discriminate Hn.
  - rewrite Herr in Hd. injection Hd as <-. reflexivity.
Qed.

Theorem refused_unchanged_branch_plain : forall e args lst w w' tr,
  step (ACmd e (CBranch args lst [] [])) w = (w', OErr, tr) -> tr = [] /\ w' = w.
Proof. intros e args lst w w' tr. apply err_clean_step; [discriminate | apply err_clean_branch_plain]. Qed.

(* ---------- switch: everything but `switch <existing branch>` ---------- *)
Definition switch_plain (args : list bytes) (create : bytes) : Prop :=
  create <> [] \/ length args <> 1.

Lemma err_clean_switch_plain : forall e args create,
  switch_plain args create -> err_clean e (CSwitch args create).
Proof.
  intros e args create Hp x w s' Hx Hd. cbn [dispatch] in Hd.
  destruct (cmd_switch_shapes e x args create (mkMS w [] None)) as [(a & -> & ->) | [(-> & Hn) | Herr]].
  - destruct Hp as [Hp|Hp]; contradiction Hp; reflexivity.
  - rewrite cmd_switch_create_eq in Hd by exact Hn.
    pose proof (loaded_headc w x Hx) as Hh.
    destruct (x_headc x) as [[hid cm]|]; [|injection Hd as <-; reflexivity].
    destruct Hh as [_ Hcm]. rewrite Hcm in Hd.
    destruct (negb (am_mem (w_refs w) create) && valid_branch_name create); [discriminate Hd|].
    injection Hd as <-. reflexivity.
  - rewrite Herr in Hd. injection Hd as <-. reflexivity.
Qed.

Theorem refused_unchanged_switch_plain : forall e args create w w' tr,
  switch_plain args create ->
  step (ACmd e (CSwitch args create)) w = (w', OErr, tr) -> tr = [] /\ w' = w.
Proof.
  intros e args create w w' tr Hp. apply err_clean_step; [discriminate | apply err_clean_switch_plain; exact Hp].
Qed.

(* ---------- reset: --soft, and every combination of flags that is refused ---------- *)
Definition reset_plain (soft mixed hard : bool) : Prop := soft = true \/ (mixed = false /\ hard = false).

Lemma err_clean_reset_plain : forall e soft mixed hard args,
  reset_plain soft mixed hard -> err_clean e (CReset soft mixed hard args).
Proof.
  intros e soft mixed hard args Hp x w s' _ Hd. cbn [dispatch] in Hd. unfold cmd_reset in Hd. cbv zeta in Hd.
  assert (Hm : (if soft || hard then false else mixed) || hard = false \/
               (soft && negb (if soft || hard then false else mixed) && negb hard
                || negb soft && (if soft || hard then false else mixed) && negb hard
                || negb soft && negb (if soft || hard then false else mixed) && hard) = false).
  { destruct soft, mixed, hard; cbn; auto; destruct Hp as [Hp|[Hp1 Hp2]]; discriminate. }
  rewrite ev_bind_guard in Hd.
  destruct (soft && negb (if soft || hard then false else mixed) && negb hard
            || negb soft && (if soft || hard then false else mixed) && negb hard
            || negb soft && negb (if soft || hard then false else mixed) && hard) eqn:Eg.
  2:{ injection Hd as <-. reflexivity. }
  destruct Hm as [Hm|Hm]; [|discriminate Hm].
  destruct args as [|a [|b rest]]; try (injection Hd as <-; reflexivity).
  rewrite Hm in Hd. revert Hd. ev.
  destruct (reset_arg a) as [n|]; [|intro Hd; injection Hd as <-; reflexivity]. ev.
  destruct (N.leb n 9223372036854775807); [|intro Hd; injection Hd as <-; reflexivity]. ev.
  destruct (w_hlog w) as [hl|]; [|intro Hd; injection Hd as <-; reflexivity]. ev.
  destruct (parse_reflog hl) as [rs|]; [|intro Hd; injection Hd as <-; reflexivity]. ev.
  destruct (get_record rs (N.to_nat (N.min n (N.of_nat (length rs))))) as [r|];
    [|intro Hd; injection Hd as <-; reflexivity]. ev.
  destruct (r_id r) as [tid|]; [|intro Hd; injection Hd as <-; reflexivity].
  destruct (x_headc x) as [[prev pc]|]; [|intro Hd; injection Hd as <-; reflexivity]. ev.
  destruct (get_commit (w_objs w) tid) as [tc|]; [|intro Hd; injection Hd as <-; reflexivity]. ev.
  destruct (am_mem (w_refs w) (w_head w)); [|intro Hd; injection Hd as <-; reflexivity]. ev.
  intro Hd. discriminate Hd.
Qed.

Theorem refused_unchanged_reset_plain : forall e soft mixed hard args w w' tr,
  reset_plain soft mixed hard ->
  step (ACmd e (CReset soft mixed hard args)) w = (w', OErr, tr) -> tr = [] /\ w' = w.
Proof.
  intros e soft mixed hard args w w' tr Hp.
  apply err_clean_step; [discriminate | apply err_clean_reset_plain; exact Hp].
Qed.

(* ---------- the whole set ---------- *)
(* init, config, status, log, reflog, cat-file, hash-object, ls-files,
   rev-parse, write-tree, update-ref in every form; branch without --rename /
   --delete (creation, --list, wrong usage); switch --create and every wrong
   usage of switch; reset --soft and every refused combination of flags *)
Definition early_cmd (c : cmd) : Prop :=
  match c with
  | CInit | CConfig _ _ | CStatus | CLog _ | CReflog | CCatFile _ _ _ | CHashObject _
  | CLsFiles _ | CRevParse _ | CWriteTree | CUpdateRef _ => True
  | CBranch _ _ rn dl => rn = [] /\ dl = []
  | CSwitch args cr => switch_plain args cr
  | CReset s m h _ => reset_plain s m h
  | CAdd _ | CRm _ | CCommit _ | CRestore _ _ => False
  end.

(* EVERY world: initialised or not, loadable or not, reachable or not *)
Theorem refused_unchanged_all : forall e c w w' tr,
  early_cmd c -> step (ACmd e c) w = (w', OErr, tr) -> tr = [] /\ w' = w.
Proof.
  intros e c w w' tr Hc Hstep. destruct c; try contradiction Hc.
  - destruct (refused_unchanged_init e w w' tr Hstep) as (H1 & H2 & _). auto.
  - exact (refused_unchanged_config e _ _ w w' tr Hstep).
  - exact (refused_unchanged_status e w w' tr Hstep).
  - destruct Hc as [-> ->]. exact (refused_unchanged_branch_plain e _ _ w w' tr Hstep).
  - exact (refused_unchanged_switch_plain e _ _ w w' tr Hc Hstep).
  - exact (refused_unchanged_reset_plain e _ _ _ _ w w' tr Hc Hstep).
  - exact (refused_unchanged_update_ref e _ w w' tr Hstep).
  - exact (refused_unchanged_log e _ w w' tr Hstep).
  - exact (refused_unchanged_reflog e w w' tr Hstep).
  - exact (refused_unchanged_cat_file e _ _ _ w w' tr Hstep).
  - exact (refused_unchanged_hash_object e _ w w' tr Hstep).
  - exact (refused_unchanged_ls_files e _ w w' tr Hstep).
  - exact (refused_unchanged_rev_parse e _ w w' tr Hstep).
  - exact (refused_unchanged_write_tree e w w' tr Hstep).
Qed.

(* ================================================================== *)
(** * 3. `config` with malformed arguments: refused, nothing written, in every world *)

Definition config_malformed (args : list bytes) : Prop :=
  (* not exactly <section>.<key> <value> *)
  (forall key value, args <> [key; value]) \/
  exists key value, args = [key; value] /\
    ((* not exactly one dot in the first argument *)
     TotalFacts.count_byte x2e key <> 1 \/
     (* an empty section name *)
     (exists k, key = x2e :: k) \/
     (* a line break in the key or in the value *)
     In c_nl key \/ In c_nl value \/
     (* a key part (after the dot) the loader would read back as another key:
        an '=' or a TAB in it, or white space around it *)
     (exists sec k, split_all x2e key = [sec; k] /\
                    (In x3d k \/ In c_tab k \/ trim_space k <> k))).

Theorem config_malformed_refused : forall e g args w,
  config_malformed args -> step (ACmd e (CConfig g args)) w = (w, OErr, []).
Proof.
  intros e g args w Hbad.
  destruct Hbad as [Har|(key & value & -> & Hbad)].
  - destruct (w_inited w) eqn:Ei; [|apply step_not_loaded; [discriminate | left; exact Ei]].
    destruct (ctx_of w) as [x|] eqn:Ex; [|apply step_not_loaded; [discriminate | right; exact Ex]].
    rewrite (ConfigCmdFacts.step_config_eq e g args w x Ei Ex). unfold ConfigCmdFacts.config_trace.
    destruct args as [|k [|v [|a3 ar]]]; try reflexivity. contradiction (Har k v). reflexivity.
  - destruct Hbad as [Hdots|[(k & ->)|[Hk|[Hv|(sec & k & Hsp & Hamb)]]]].
    + apply ConfigCmdFacts.hostile_config_refused. intros sec k Hsp.
      contradiction (TotalFacts.config_key_dots key Hdots sec k Hsp).
    + apply ConfigCmdFacts.config_empty_section_refused.
    + apply ConfigCmdFacts.config_newline_in_key_refused. exact Hk.
    + apply ConfigCmdFacts.config_newline_in_value_refused. exact Hv.
    + exact (ConfigCmdFacts.config_ambiguous_key_refused e g key value sec k w Hsp Hamb).
Qed.

(* and these are ALL the refusals of `config` on a repository that loads *)
Theorem config_refused_iff_malformed : forall e g args w x,
  w_inited w = true -> ctx_of w = Some x ->
  (snd (fst (step (ACmd e (CConfig g args)) w)) = OErr <-> config_malformed args).
Proof.
  intros e g args w x Hi Hx. split.
  - intro Ho. rewrite (ConfigCmdFacts.step_config_eq e g args w x Hi Hx) in Ho.
    unfold ConfigCmdFacts.config_trace in Ho.
    destruct args as [|key [|value [|a3 ar]]];
      try (left; intros k v Heq; discriminate Heq).
    right. exists key, value. split; [reflexivity|].
    destruct (split_all x2e key) as [|sec [|k [|s3 sr]]] eqn:Esp.
    + left. intro Hc. pose proof (TotalFacts.split_all_length x2e key) as Hl. rewrite Esp in Hl. cbn [length] in Hl. lia.
    + left. intro Hc. pose proof (TotalFacts.split_all_length x2e key) as Hl. rewrite Esp in Hl. cbn [length] in Hl. lia.
    + destruct (config_args_ok sec k key value) eqn:Eok; [discriminate Ho|].
      assert (Hcb : forall c s, contains_byte c s = true -> In c s).
      { intros c s Hc. destruct (in_dec byte_eq_dec c s) as [Hin|Hn]; [exact Hin|].
        apply (ConfigCmdFacts.cc_contains_byte_iff c s) in Hn. rewrite Hn in Hc. discriminate Hc. }
      unfold config_args_ok, config_lines_ok in Eok.
      destruct sec as [|s0 sec'].
      * right. left. exists k. rewrite (ConfigCmdFacts.cc_split2_join x2e key [] k Esp). reflexivity.
      * cbn [is_nil negb andb] in Eok.
        destruct (contains_byte c_nl key) eqn:Ek; [right; right; left; exact (Hcb _ _ Ek)|].
        destruct (contains_byte c_nl value) eqn:Ev; [right; right; right; left; exact (Hcb _ _ Ev)|].
        cbn [negb andb] in Eok. right. right. right. right. exists (s0 :: sec'), k.
        split; [reflexivity|]. unfold config_key_ok in Eok.
        destruct (contains_byte x3d k) eqn:E1; [left; exact (Hcb _ _ E1)|].
        destruct (contains_byte c_tab k) eqn:E2; [right; left; exact (Hcb _ _ E2)|].
        cbn [negb andb] in Eok. right. right. apply bytes_eqb_neq. exact Eok.
    + left. intro Hc. pose proof (TotalFacts.split_all_length x2e key) as Hl. rewrite Esp in Hl. cbn [length] in Hl. lia.
  - intro Hbad. rewrite (config_malformed_refused e g args w Hbad). reflexivity.
Qed.

(* ================================================================== *)
(** * 4. Late refusals *)

(* ---------- 4.0 footprints: the class of effects a procedure can perform ---------- *)
Definition foot (P : effect -> Prop) {A} (m : M A) : Prop :=
  emits (fun _ => True) (fun _ e => P e) m.

Lemma foot_elim : forall (P : effect -> Prop) A (m : M A) w t fk r s',
  foot P m -> m (mkMS w t fk) = (r, s') ->
  exists tr, ms_trace s' = t ++ tr /\ ms_w s' = apply_effects tr w /\ Forall P tr.
Proof.
  intros P A m w t fk r s' Hm Hrun.
  destruct (emits_elim _ _ _ m (mkMS w t fk) r s' Hm Logic.I Hrun) as (tr & Ht & Hs & Hw & _).
  cbn [ms_w ms_trace] in Ht, Hs, Hw. exists tr. split; [exact Ht|]. split; [exact Hw|].
  apply (steps_ok_forall _ _ P (fun _ e0 He => He) tr w Hs).
Qed.

Lemma foot_emit : forall (P : effect -> Prop) e, P e -> foot P (emit e).
Proof. intros P e He. apply emits_emit. intros w _. split; [exact He | exact Logic.I]. Qed.

Lemma foot_weaken : forall (P Q : effect -> Prop) A (m : M A),
  (forall e, P e -> Q e) -> foot P m -> foot Q m.
Proof. intros P Q A m H Hm. apply (hoare_weaken_G _ _ _ _ _ _ _ (fun _ e _ He => H e He) Hm). Qed.

Ltac footstep :=
  first
  [ assumption
  | lazymatch goal with
    | |- foot _ _ => unfold foot
    | |- emits _ _ (bind _ _) => apply emits_bind; [ | intro ]
    | |- emits _ _ (ret _) => apply emits_ret
    | |- emits _ _ fail => apply emits_fail
    | |- emits _ _ getw => apply emits_getw
    | |- emits _ _ (emit _) => apply foot_emit
    | |- emits _ _ (of_opt _) => apply emits_of_opt
    | |- emits _ _ (guard _) => apply emits_guard
    | |- emits _ _ (iterM _ _) => apply emits_iterM; intros ? ?
    | |- emits _ _ (let _ := _ in _) => cbv zeta
    | |- emits _ _ (match ?x with _ => _ end) => destruct x; cbv beta iota
    end ].
Ltac foot_tac := repeat footstep.

(* the four classes *)
Definition wt_eff (ok : bytes -> Prop) (e : effect) : Prop :=
  match e with EWriteFile q _ => ok q | EMkdirAll _ => True | _ => False end.
Definition idx_eff (e : effect) : Prop := match e with ESetIndex _ => True | _ => False end.
Definition put_eff (e : effect) : Prop := match e with EPutObj _ _ => True | _ => False end.
(* [add_eff] (object writes and index writes) and [rm_eff] (path removals and
   index writes) are those of ExactFacts *)

Lemma put_obj_foot : forall (P : effect -> Prop) k d,
  P (EPutObj (obj_id k d) (payload k d)) -> foot P (put_obj k d).
Proof. intros P k d Hp. unfold put_obj. foot_tac. Qed.

Lemma wt_put_foot : forall (ok : bytes -> Prop) p data, ok p -> foot (wt_eff ok) (wt_put p data).
Proof. intros ok p data Hok. unfold wt_put. foot_tac; try exact Logic.I; exact Hok. Qed.

Lemma add_file_foot : forall p, foot add_eff (add_file p).
Proof. intro p. unfold add_file. foot_tac; try apply put_obj_foot; exact Logic.I. Qed.

Lemma cmd_add_foot : forall c args, foot add_eff (cmd_add c args).
Proof. intros c args. unfold cmd_add. foot_tac; try apply add_file_foot; exact Logic.I. Qed.

Lemma rm_one_foot : forall p, foot rm_eff (rm_one p).
Proof. intro p. unfold rm_one. foot_tac; exact Logic.I. Qed.

Lemma cmd_rm_foot : forall args, foot rm_eff (cmd_rm args).
Proof. intros args. unfold cmd_rm. foot_tac; apply rm_one_foot. Qed.

Lemma restore_wd_foot : forall p, foot (wt_eff (eq p)) (restore_wd p).
Proof. intro p. unfold restore_wd. foot_tac. apply wt_put_foot. reflexivity. Qed.

Lemma restore_index_foot : forall ns p, foot idx_eff (restore_index ns p).
Proof. intros ns p. unfold restore_index. foot_tac; exact Logic.I. Qed.

Lemma head_tree_nodes_foot : forall P c, foot P (head_tree_nodes c).
Proof. intros P c. unfold head_tree_nodes. foot_tac. Qed.

Lemma cmd_restore_wd_foot : forall c args,
  foot (wt_eff (fun _ => True)) (cmd_restore c false args).
Proof.
  intros c args. unfold cmd_restore. foot_tac.
  match goal with |- emits _ _ (restore_wd ?q) =>
    apply (foot_weaken (wt_eff (eq q))); [|apply restore_wd_foot] end.
  intros ef Hef. destruct ef; try contradiction Hef; exact Logic.I.
Qed.

Lemma cmd_restore_idx_foot : forall c args, foot idx_eff (cmd_restore c true args).
Proof.
  intros c args. unfold cmd_restore. foot_tac; try apply head_tree_nodes_foot. apply restore_index_foot.
Qed.

(* ---------- 4.0' prefixes: a loop that stops has performed a prefix of what it would have performed ---------- *)
(* [performs m w full]: started in [w] (no fault), [m] performs a prefix of
   [full], and all of it when it answers [Ok] *)
Definition performs {A} (m : M A) (w : world) (full : list effect) : Prop :=
  forall t r s', m (mkMS w t None) = (r, s') ->
    exists k, s' = mkMS (apply_effects (firstn k full) w) (t ++ firstn k full) None /\
              (forall a, r = Ok a -> firstn k full = full).

Lemma firstn_prefix_app : forall k (a b : list effect), exists k', firstn k' (a ++ b) = firstn k a.
Proof.
  intros k a b. exists (Nat.min k (length a)). rewrite firstn_app.
  replace (Nat.min k (length a) - length a) with 0 by lia. rewrite firstn_O, app_nil_r.
  destruct (Nat.le_gt_cases k (length a)) as [Hle|Hgt].
  - rewrite Nat.min_l by exact Hle. reflexivity.
  - rewrite Nat.min_r by lia. rewrite firstn_all, firstn_all2 by lia. reflexivity.
Qed.

(* what the loop over [l] performs when nothing stops it: each element
   contributes the trace [f_tr] gives for it in the world reached so far *)
Fixpoint intended {A} (f_tr : world -> A -> option (list effect)) (w : world) (l : list A) : list effect :=
  match l with
  | [] => []
  | x :: r =>
      match f_tr w x with
      | Some tr => tr ++ intended f_tr (apply_effects tr w) r
      | None => []
      end
  end.

Lemma iterM_performs : forall A (f : A -> M unit) (f_tr : world -> A -> option (list effect)),
  (forall w x, match f_tr w x with
               | Some tr => performs (f x) w tr
               | None => forall t, f x (mkMS w t None) = (Err, mkMS w t None)
               end) ->
  forall l w, performs (iterM f l) w (intended f_tr w l).
Proof.
  intros A f f_tr Hf l. induction l as [|x l IH]; intros w t r s' Hrun.
  - cbn [iterM intended] in Hrun |- *. injection Hrun as <- <-. exists 0. cbn [firstn apply_effects fold_left].
    rewrite app_nil_r. split; [reflexivity | intros a _; reflexivity].
  - cbn [iterM] in Hrun. cbn [intended]. unfold bind in Hrun.
    destruct (f x (mkMS w t None)) as [r1 s1] eqn:E1. pose proof (Hf w x) as Hx.
    destruct (f_tr w x) as [tr1|].
    + destruct (Hx t r1 s1 E1) as (k1 & Hs1 & Hfull1).
      destruct r1 as [u| |].
      * rewrite (Hfull1 u eq_refl) in Hs1. subst s1.
        destruct (IH (apply_effects tr1 w) (t ++ tr1) r s' Hrun) as (k2 & Hs' & Hfull2).
        exists (length tr1 + k2). rewrite firstn_app_2, apply_effects_app, app_assoc.
        split; [exact Hs'|]. intros a Ha. rewrite (Hfull2 a Ha). reflexivity.
      * injection Hrun as <- <-. subst s1.
        destruct (firstn_prefix_app k1 tr1 (intended f_tr (apply_effects tr1 w) l)) as [k' Hk'].
        exists k'. rewrite Hk'. split; [reflexivity | intros a Ha; discriminate Ha].
      * injection Hrun as <- <-. subst s1.
        destruct (firstn_prefix_app k1 tr1 (intended f_tr (apply_effects tr1 w) l)) as [k' Hk'].
        exists k'. rewrite Hk'. split; [reflexivity | intros a Ha; discriminate Ha].
    + rewrite (Hx t) in E1. injection E1 as <- <-. injection Hrun as <- <-.
      exists 0. cbn [firstn apply_effects fold_left]. rewrite app_nil_r.
      split; [reflexivity | intros a Ha; discriminate Ha].
Qed.

Lemma wt_put_tail_cases : forall p data w t r s',
  (w0 <- getw ;; match wt_stat w0 p with SFile | SNone => emit (EWriteFile p data) | _ => fail end)
    (mkMS w t None) = (r, s') ->
  (r = Ok tt /\ s' = mkMS (apply_effect (EWriteFile p data) w) (t ++ [EWriteFile p data]) None) \/
  (r = Err /\ s' = mkMS w t None).
Proof.
  intros p data w t r s' H. rewrite ev_bind_getw in H. cbn [ms_w] in H.
  destruct (wt_stat w p); first [rewrite ev_emit in H | unfold fail in H]; injection H as <- <-; auto.
Qed.

(* [wt_put] performs a prefix of [wt_put_trace] *)
Lemma wt_put_performs : forall p data w, performs (wt_put p data) w (wt_put_trace w p data).
Proof.
  intros p data w t r s' H. unfold wt_put in H. rewrite ev_bind_getw in H. cbn [ms_w] in H.
  unfold wt_put_trace.
  assert (Hstop : forall full, (r, s') = (Err, mkMS w t None) ->
            exists k, s' = mkMS (apply_effects (firstn k full) w) (t ++ firstn k full) None /\
                      (forall a : unit, r = Ok a -> firstn k full = full)).
  { intros full Heq. injection Heq as -> ->. exists 0. cbn [firstn apply_effects fold_left].
    rewrite app_nil_r. split; [reflexivity | intros a Ha; discriminate Ha]. }
  assert (Hplain : (w0 <- getw ;; match wt_stat w0 p with SFile | SNone => emit (EWriteFile p data) | _ => fail end)
                     (mkMS w t None) = (r, s') ->
            exists k, s' = mkMS (apply_effects (firstn k [EWriteFile p data]) w) (t ++ firstn k [EWriteFile p data]) None /\
                      (forall a : unit, r = Ok a -> firstn k [EWriteFile p data] = [EWriteFile p data])).
  { intro Ht. destruct (wt_put_tail_cases p data w t r s' Ht) as [[-> ->]|[-> ->]].
    - exists 1. split; [reflexivity | intros a _; reflexivity].
    - apply Hstop. reflexivity. }
  destruct (parent_dir p) as [d|].
  - destruct (wt_stat w d) eqn:Ed.
    + rewrite ev_bind_fail in H. apply Hstop. symmetry. exact H.
    + rewrite ev_bind_ret in H. cbn [app]. apply Hplain. exact H.
    + rewrite ev_bind_emit in H. cbn [app].
      destruct (wt_put_tail_cases p data _ _ r s' H) as [[-> ->]|[-> ->]].
      * exists 2. cbn [firstn]. rewrite <- app_assoc. split; [reflexivity | intros a _; reflexivity].
      * exists 1. cbn [firstn]. split; [reflexivity | intros a Ha; discriminate Ha].
    + rewrite ev_bind_fail in H. apply Hstop. symmetry. exact H.
  - rewrite ev_bind_ret in H. cbn [app]. apply Hplain. exact H.
Qed.

(* the loop of [reset --hard] *)
Definition hard_body (en : entry) : M unit :=
  w' <- getw ;; kd <- of_opt (get_obj (w_objs w') (e_id en)) ;; wt_put (e_path en) (snd kd).
Definition hard_tr (w : world) (en : entry) : option (list effect) :=
  match get_obj (w_objs w) (e_id en) with
  | Some kd => Some (wt_put_trace w (e_path en) (snd kd))
  | None => None
  end.

Lemma hard_loop_performs : forall es w, performs (iterM hard_body es) w (intended hard_tr w es).
Proof.
  intro es. apply iterM_performs. intros w en. unfold hard_tr, hard_body.
  destruct (get_obj (w_objs w) (e_id en)) as [kd|] eqn:Eo.
  - intros t r s' H. rewrite ev_bind_getw, ev_bind_of_opt in H. cbn [ms_w] in H. rewrite Eo in H.
    exact (wt_put_performs (e_path en) (snd kd) w t r s' H).
  - intro t. rewrite ev_bind_getw, ev_bind_of_opt. cbn [ms_w]. rewrite Eo. reflexivity.
Qed.

(* the loop of [restore] *)
Definition restore_wd_tr (w : world) (p : bytes) : option (list effect) :=
  match get_entry (idx_of w) p with
  | Some (_, en) =>
      match get_obj (w_objs w) (e_id en) with
      | Some kd => Some (wt_put_trace w p (snd kd))
      | None => None
      end
  | None => None
  end.

Lemma restore_wd_loop_performs : forall l w, performs (iterM restore_wd l) w (intended restore_wd_tr w l).
Proof.
  intro l. apply iterM_performs. intros w p. unfold restore_wd_tr, restore_wd.
  destruct (get_entry (idx_of w) p) as [[i en]|] eqn:Eg.
  - destruct (get_obj (w_objs w) (e_id en)) as [kd|] eqn:Eo.
    + intros t r s' H. rewrite ev_bind_getw in H. cbn [ms_w] in H. rewrite Eg in H.
      rewrite ev_bind_of_opt, Eo in H. exact (wt_put_performs p (snd kd) w t r s' H).
    + intro t. rewrite ev_bind_getw. cbn [ms_w]. rewrite Eg. rewrite ev_bind_of_opt, Eo. reflexivity.
  - intro t. rewrite ev_bind_getw. cbn [ms_w]. rewrite Eg. reflexivity.
Qed.

(* ---------- 4.1 the list of late refusals ---------- *)
(* [late_refusal e w c tr]: command [c], started in world [w], can be refused
   after having performed exactly the effects [tr] *)
Inductive late_refusal (e : env) (w : world) : cmd -> list effect -> Prop :=
(* commit: the text of the commit object does not read back (an identity
   outside [sign_ok]); the tree objects have been written, nothing else *)
| LR_commit_text : forall msg x root subs,
    ctx_of w = Some x -> CommitCmdFacts.gate_open w x ->
    write_tree_top (idx_of w) = Some (root, subs) ->
    parse_commit (CommitCmdFacts.commit_data e x msg w root) = None ->
    late_refusal e w (CCommit msg) (map CommitCmdFacts.put_tree_eff (subs ++ [root]))
(* commit: no branch yet and HEAD holds a name Goit refuses; the tree objects
   and the commit object have been written, nothing else *)
| LR_commit_head : forall msg x root subs cm,
    ctx_of w = Some x -> CommitCmdFacts.gate_open w x ->
    write_tree_top (idx_of w) = Some (root, subs) ->
    parse_commit (CommitCmdFacts.commit_data e x msg w root) = Some cm ->
    CommitCmdFacts.tip_of w = None -> valid_branch_name (w_head w) = false ->
    late_refusal e w (CCommit msg)
      (map CommitCmdFacts.put_tree_eff (subs ++ [root]) ++
       [EPutObj (CommitCmdFacts.commit_id e x msg w root)
                (payload KCommit (CommitCmdFacts.commit_data e x msg w root))])
(* branch --rename: the current branch has no log file *)
| LR_branch_rename : forall x hid cm new,
    ctx_of w = Some x -> x_headc x = Some (hid, cm) -> is_nil new = false ->
    am_mem (w_refs w) new = false -> valid_branch_name new = true ->
    am_mem (w_blogs w) (w_head w) = false ->
    late_refusal e w (CBranch [] false new []) (rename_trace1 e x w new hid)
(* branch --delete: the branch has no log file *)
| LR_branch_delete : forall d,
    is_nil d = false -> bytes_eqb d (w_head w) = false -> am_mem (w_refs w) d = true ->
    am_mem (w_blogs w) d = false ->
    late_refusal e w (CBranch [] false [] d) [EDelRef d]
(* switch: the branch file holds an id that does not load as a commit *)
| LR_switch : forall a id,
    am_get (w_refs w) a = Some id -> get_commit (w_objs w) id = None ->
    late_refusal e w (CSwitch [a] []) [ESetHead a]
(* reset --mixed / --hard: the snapshot of the target commit does not load;
   the branch and the two journals have moved *)
| LR_reset_snapshot : forall x prev pc mixed hard a tid,
    ctx_of w = Some x -> x_headc x = Some (prev, pc) ->
    reset_mode_ok false mixed hard = true ->
    ExactFacts.reset_target w a = Some tid -> get_commit (w_objs w) tid <> None ->
    reset_entries w a = None ->
    late_refusal e w (CReset false mixed hard [a]) (reset_head_trace e x w prev tid a)
(* reset --hard stopped while writing the work tree: the branch, the journals
   and the staging area have moved; [wt] only creates directories and writes
   files at paths of the target snapshot *)
| LR_reset_hard : forall x prev pc mixed a tid es wt,
    ctx_of w = Some x -> x_headc x = Some (prev, pc) ->
    ExactFacts.reset_target w a = Some tid -> reset_entries w a = Some es ->
    Forall (wt_eff (fun q => In q (paths es))) wt ->
    (* a prefix of what the loop over the snapshot performs when nothing stops it *)
    (exists k, wt = firstn k (intended hard_tr
                     (apply_effect (ESetIndex es) (apply_effects (reset_head_trace e x w prev tid a) w)) es)) ->
    late_refusal e w (CReset false mixed true [a])
      (reset_head_trace e x w prev tid a ++ ESetIndex es :: wt)
(* add / rm / restore: every argument passed the check made before the first
   write; the command stopped at a later argument (or path) *)
| LR_add : forall args tr,
    args <> [] -> forallb (AddressFacts.add_valid w) args = true -> Forall add_eff tr ->
    late_refusal e w (CAdd args) tr
| LR_rm : forall args tr,
    forallb (AddressFacts.rm_valid w) args = true -> Forall rm_eff tr ->
    late_refusal e w (CRm args) tr
| LR_restore_wd : forall args tr,
    args <> [] -> forallb (AddressFacts.rm_valid w) args = true ->
    Forall (wt_eff (fun q => In q (wd_targets w args))) tr ->
    (* a prefix of what the loop over the selected paths performs when nothing stops it *)
    (exists k, tr = firstn k (intended restore_wd_tr w (wd_targets w args))) ->
    late_refusal e w (CRestore false args) tr
| LR_restore_idx : forall x ns args tr,
    ctx_of w = Some x -> head_nodes x w = Some ns ->
    args <> [] -> forallb (AddressFacts.restore_idx_valid w ns) args = true ->
    Forall idx_eff tr ->
    late_refusal e w (CRestore true args) tr.

(* what the per-command lemmas below conclude *)
Definition clean_or_late (e : env) (c : cmd) (w : world) (s' : mstate) : Prop :=
  s' = mkMS w [] None \/ late_refusal e w c (ms_trace s').

(* ---------- 4.2 commit ---------- *)
Lemma commit_err_cases : forall e msg x w s',
  ctx_of w = Some x -> cmd_commit e x msg (mkMS w [] None) = (Err, s') ->
  clean_or_late e (CCommit msg) w s'.
Proof.
  intros e msg x w s' Hx Hd.
  assert (Hruns : forall tr0, runs (cmd_commit e x msg) w Err tr0 -> s' = mkMS (apply_effects tr0 w) tr0 None).
  { intros tr0 Hr. rewrite (Hr []) in Hd. injection Hd as <-. reflexivity. }
  assert (Hok : forall out tr0, runs (cmd_commit e x msg) w (Ok out) tr0 -> False).
  { intros out tr0 Hr. rewrite (Hr []) in Hd. discriminate Hd. }
  destruct (user_set (x_l x) (x_g x)) eqn:Hu.
  2:{ left. apply (Hruns []). apply CommitCmdFacts.cmd_commit_no_identity_runs. exact Hu. }
  assert (Hgate : CommitCmdFacts.gate_open w x \/ s' = mkMS w [] None).
  { unfold CommitCmdFacts.gate_open. destruct (w_refs w) as [|kv rs] eqn:Er.
    - destruct (idx_of w) as [|en es] eqn:Ei.
      + right. apply (Hruns []). apply CommitCmdFacts.cmd_commit_first_nothing; assumption.
      + left. split; [exact Hu | discriminate].
    - assert (Hr : w_refs w <> []) by (rewrite Er; discriminate).
      destruct (head_nodes x w) as [ns|] eqn:Hn.
      + destruct (diff_with_tree (idx_of w) ns) as [|y l] eqn:Hdf.
        * right. apply (Hruns []). apply (CommitCmdFacts.cmd_commit_nothing_staged e x msg w ns); assumption.
        * left. split; [exact Hu|]. exists ns. split; [reflexivity|]. rewrite Hdf. discriminate.
      + right. apply (Hruns []). apply CommitCmdFacts.cmd_commit_no_head; assumption. }
  destruct Hgate as [Hgate|Hcl]; [|left; exact Hcl].
  destruct (TreeFacts.write_tree_fuel_any (idx_of w)) as [[root subs] Hw].
  destruct (parse_commit (CommitCmdFacts.commit_data e x msg w root)) as [cm|] eqn:Hp.
  2:{ right.
      rewrite (Hruns (map CommitCmdFacts.put_tree_eff (subs ++ [root]))).
      - cbn [ms_trace]. apply (LR_commit_text e w msg x root subs); assumption.
      - apply (proj2 (CommitCmdFacts.cmd_commit_passes e x msg w _ Hgate)).
        apply CommitCmdFacts.do_commit_unparsable; assumption. }
  assert (Hcase : (CommitCmdFacts.tip_of w = None -> valid_branch_name (w_head w) = true) \/
                  (CommitCmdFacts.tip_of w = None /\ valid_branch_name (w_head w) = false)).
  { destruct (CommitCmdFacts.tip_of w) as [tip|]; [left; intro H; discriminate H|].
    destruct (valid_branch_name (w_head w)); [left; intros _; reflexivity | right; split; reflexivity]. }
  destruct Hcase as [Hv|[Et Hvb]].
  - exfalso. apply (Hok [] (CommitCmdFacts.do_commit_trace e x msg w root subs)).
    apply (proj1 (CommitCmdFacts.cmd_commit_passes e x msg w _ Hgate)).
    apply (CommitCmdFacts.do_commit_runs e x msg w root subs cm Hw Hp).
    apply CommitCmdFacts.head_ok_loaded; assumption.
  - right.
    rewrite (Hruns (map CommitCmdFacts.put_tree_eff (subs ++ [root]) ++
                    [EPutObj (CommitCmdFacts.commit_id e x msg w root)
                             (payload KCommit (CommitCmdFacts.commit_data e x msg w root))])).
    + cbn [ms_trace]. apply (LR_commit_head e w msg x root subs cm); assumption.
    + apply (proj2 (CommitCmdFacts.cmd_commit_passes e x msg w _ Hgate)).
      apply (GateFacts.do_commit_bad_branch e x msg w root subs cm); assumption.
Qed.

(* ---------- 4.3 branch, switch ---------- *)
Lemma branch_err_cases : forall e args lst rn dl x w s',
  ctx_of w = Some x -> cmd_branch e x args lst rn dl (mkMS w [] None) = (Err, s') ->
  clean_or_late e (CBranch args lst rn dl) w s'.
Proof.
  intros e args lst rn dl x w s' Hx Hd.
  destruct (cmd_branch_shapes e x args lst rn dl (mkMS w [] None))
    as [(name & -> & -> & -> & ->) | [(-> & -> & -> & ->) | [(-> & -> & Hn & ->) | [(-> & -> & -> & Hn) | Herr]]]].
  - left. apply (err_clean_branch_plain e [name] false x w s' Hx). exact Hd.
  - left. apply (err_clean_branch_plain e [] true x w s' Hx). exact Hd.
  - rewrite cmd_branch_rename_eq in Hd by exact Hn.
    destruct (x_headc x) as [[hid cm]|] eqn:Ehc; [|left; injection Hd as <-; reflexivity].
    destruct (am_mem (w_refs w) rn) eqn:E1; cbn [negb andb] in Hd; [left; injection Hd as <-; reflexivity|].
    destruct (am_mem (w_refs w) (w_head w)) eqn:E2; cbn [andb] in Hd; [|left; injection Hd as <-; reflexivity].
    destruct (valid_branch_name rn) eqn:E3; [|left; injection Hd as <-; reflexivity].
    destruct (am_mem (w_blogs w) (w_head w)) eqn:E4; [discriminate Hd|].
    right. injection Hd as <-. cbn [ms_trace app].
    apply (LR_branch_rename e w x hid cm rn); assumption.
  - rewrite cmd_branch_delete_eq in Hd by exact Hn.
    destruct (bytes_eqb dl (w_head w)) eqn:E1; cbn [negb andb] in Hd; [left; injection Hd as <-; reflexivity|].
    destruct (am_mem (w_refs w) dl) eqn:E2; [|left; injection Hd as <-; reflexivity].
    destruct (am_mem (w_blogs w) dl) eqn:E3; [discriminate Hd|].
    right. injection Hd as <-. cbn [ms_trace app].
    apply (LR_branch_delete e w dl); assumption.
  - left. rewrite Herr in Hd. injection Hd as <-. reflexivity.
Qed.

Lemma switch_err_cases : forall e args cr x w s',
  ctx_of w = Some x -> cmd_switch e x args cr (mkMS w [] None) = (Err, s') ->
  clean_or_late e (CSwitch args cr) w s'.
Proof.
  intros e args cr x w s' Hx Hd.
  destruct (cmd_switch_shapes e x args cr (mkMS w [] None)) as [(a & -> & ->) | [(-> & Hn) | Herr]].
  - rewrite cmd_switch_eq in Hd.
    destruct (x_headc x) as [hc|]; [|left; injection Hd as <-; reflexivity].
    destruct (am_get (w_refs w) a) as [id|] eqn:Ea; [|left; injection Hd as <-; reflexivity].
    destruct (get_commit (w_objs w) id) as [ca|] eqn:Eca; [discriminate Hd|].
    right. injection Hd as <-. cbn [ms_trace app]. apply (LR_switch e w a id); assumption.
  - left. apply (err_clean_switch_plain e [] cr) with (x := x); [left; intros ->; discriminate Hn | exact Hx | exact Hd].
  - left. rewrite Herr in Hd. injection Hd as <-. reflexivity.
Qed.

(* ---------- 4.4 reset ---------- *)
(* what remains of an accepted `reset --mixed` / `reset --hard` once the
   branch and the journals have been written *)
Definition reset_tail (w : world) (tc : commit) (hard : bool) : M (list bytes) :=
  (d <- of_opt (get_kind (w_objs w) KTree (c_tree tc)) ;;
   ns <- of_opt (walk_tree (S (length (w_objs w))) (w_objs w) d) ;;
   let es := flatten [] ns in
   emit (ESetIndex es) ;;;
   (if hard then
      iterM (fun en =>
               w' <- getw ;;
               kd <- of_opt (get_obj (w_objs w') (e_id en)) ;;
               wt_put (e_path en) (snd kd)) es
    else ret tt)) ;;; ret [].

Lemma cmd_reset_eval : forall e c w a tid mixed hard t,
  reset_mode_ok false mixed hard = true -> ExactFacts.reset_target w a = Some tid ->
  cmd_reset e c false mixed hard [a] (mkMS w t None) =
  match x_headc c with
  | None => (Err, mkMS w t None)
  | Some (prev, _) =>
      match get_commit (w_objs w) tid with
      | None => (Err, mkMS w t None)
      | Some tc =>
          if am_mem (w_refs w) (w_head w) then
            reset_tail w tc hard
              (mkMS (apply_effects (reset_head_trace e c w prev tid a) w)
                    (t ++ reset_head_trace e c w prev tid a) None)
          else (Err, mkMS w t None)
      end
  end.
Proof.
  intros e c w a tid mixed hard t Em Ht.
  destruct (reset_target_elim w a tid Ht) as (n & hl & rs & r & H1 & H2 & H3 & H4 & H5 & H6).
  assert (Hmh : (if false || hard then false else mixed) || hard = true).
  { destruct hard; [reflexivity|]. destruct mixed; [reflexivity | discriminate Em]. }
  unfold cmd_reset. cbv zeta. unfold reset_mode_ok in Em. cbv zeta in Em.
  rewrite ev_bind_guard, Em. cbv beta iota.
  rewrite ev_bind_of_opt, H1. cbv beta iota.
  rewrite ev_bind_guard, H2. cbv beta iota.
  rewrite ev_bind_getw. cbn [ms_w].
  rewrite ev_bind_of_opt, H3. cbv beta iota.
  rewrite ev_bind_of_opt, H4. cbv beta iota.
  rewrite ev_bind_of_opt, H5. cbv beta iota.
  rewrite ev_bind_of_opt, H6. cbv beta iota.
  destruct (x_headc c) as [[prev pc]|]; [|reflexivity].
  rewrite ev_bind_of_opt. destruct (get_commit (w_objs w) tid) as [tc|]; [|reflexivity].
  rewrite ev_bind_guard. destruct (am_mem (w_refs w) (w_head w)); [|reflexivity].
  rewrite ev_bind_emit. cbv beta. rewrite ev_bind_emit. cbv beta. rewrite ev_bind_emit. cbv beta.
  rewrite Hmh. cbv iota.
  unfold reset_tail, reset_head_trace, reset_line. rewrite <- !app_assoc. reflexivity.
Qed.

Lemma reset_loop_foot : forall es,
  foot (wt_eff (fun q => In q (paths es)))
       (iterM (fun en => w' <- getw ;; kd <- of_opt (get_obj (w_objs w') (e_id en)) ;;
                         wt_put (e_path en) (snd kd)) es).
Proof.
  intro es. apply emits_iterM. intros en Hen. foot_tac. apply wt_put_foot.
  unfold paths. apply in_map. exact Hen.
Qed.

Lemma reset_err_cases : forall e soft mixed hard args x w s',
  ctx_of w = Some x -> cmd_reset e x soft mixed hard args (mkMS w [] None) = (Err, s') ->
  clean_or_late e (CReset soft mixed hard args) w s'.
Proof.
  intros e soft mixed hard args x w s' Hx Hd.
  assert (Hrefused : (reset_mode_ok soft mixed hard = false \/ length args <> 1 \/
                      (exists a, args = [a] /\ ExactFacts.reset_target w a = None)) ->
                     s' = mkMS w [] None).
  { intro H. destruct (ExactFacts.cmd_reset_refused e x soft mixed hard args w H) as [Hr _].
    rewrite (Hr []) in Hd. injection Hd as <-. reflexivity. }
  destruct soft.
  { left. apply (err_clean_reset_plain e true mixed hard args (or_introl eq_refl) x w s' Hx). exact Hd. }
  destruct (reset_mode_ok false mixed hard) eqn:Em; [|left; apply Hrefused; left; reflexivity].
  destruct args as [|a [|b rest]];
    [left; apply Hrefused; right; left; discriminate | | left; apply Hrefused; right; left; discriminate].
  destruct (ExactFacts.reset_target w a) as [tid|] eqn:Et;
    [|left; apply Hrefused; right; right; exists a; split; [reflexivity | exact Et]].
  rewrite (cmd_reset_eval e x w a tid mixed hard [] Em Et) in Hd.
  destruct (x_headc x) as [[prev pc]|] eqn:Ehc; [|left; injection Hd as <-; reflexivity].
  destruct (get_commit (w_objs w) tid) as [tc|] eqn:Etc; [|left; injection Hd as <-; reflexivity].
  destruct (am_mem (w_refs w) (w_head w)) eqn:Ehd; [|left; injection Hd as <-; reflexivity].
  right. cbn [app] in Hd. unfold reset_tail in Hd.
  assert (Hc : get_commit (w_objs w) tid <> None) by (rewrite Etc; discriminate).
  rewrite ev_bind_assoc, ev_bind_of_opt in Hd.
  destruct (get_kind (w_objs w) KTree (c_tree tc)) as [d|] eqn:Ek.
  2:{ injection Hd as <-. cbn [ms_trace].
      apply (LR_reset_snapshot e w x prev pc mixed hard a tid); try assumption.
      unfold reset_entries. rewrite Et, Etc, Ek. reflexivity. }
  rewrite ev_bind_assoc, ev_bind_of_opt in Hd.
  destruct (walk_tree (S (length (w_objs w))) (w_objs w) d) as [ns|] eqn:Ewt.
  2:{ injection Hd as <-. cbn [ms_trace].
      apply (LR_reset_snapshot e w x prev pc mixed hard a tid); try assumption.
      unfold reset_entries. rewrite Et, Etc, Ek, Ewt. reflexivity. }
  cbv zeta in Hd. rewrite ev_bind_assoc, ev_bind_emit in Hd. cbv beta in Hd.
  assert (He : reset_entries w a = Some (flatten [] ns)).
  { apply (reset_entries_intro w a tid tc d ns); assumption. }
  destruct hard.
  - assert (Hf : foot (wt_eff (fun q => In q (paths (flatten [] ns))))
                   (bind (iterM (fun en => w' <- getw ;; kd <- of_opt (get_obj (w_objs w') (e_id en)) ;;
                                           wt_put (e_path en) (snd kd)) (flatten [] ns))
                         (fun _ => ret (@nil bytes)))).
    { unfold foot. apply emits_bind; [apply reset_loop_foot | intro; apply emits_ret]. }
    destruct (foot_elim _ _ _ _ _ _ _ _ Hf Hd) as (wt & Ht & _ & Hall).
    assert (Hpre : exists k, wt = firstn k (intended hard_tr
                     (apply_effect (ESetIndex (flatten [] ns))
                        (apply_effects (reset_head_trace e x w prev tid a) w)) (flatten [] ns))).
    { unfold bind in Hd.
      match type of Hd with (match ?m ?s4 with _ => _ end) = _ =>
        destruct (m s4) as [r1 s1] eqn:E1 end.
      destruct (hard_loop_performs (flatten [] ns) _ _ r1 s1 E1) as (k & Hs1 & _).
      destruct r1 as [u| |]; [discriminate Hd | |]; injection Hd as Hd; subst s'; subst s1;
        cbn [ms_trace] in Ht; apply app_inv_head in Ht; exists k; symmetry; exact Ht. }
    rewrite Ht. unfold reset_head_trace at 1. cbn [app].
    change (ESetRef (w_head w) tid :: EAppendHlog (reset_line e x prev tid a)
              :: EAppendBlog (w_head w) (reset_line e x prev tid a) :: ESetIndex (flatten [] ns) :: wt)
      with (reset_head_trace e x w prev tid a ++ ESetIndex (flatten [] ns) :: wt).
    apply (LR_reset_hard e w x prev pc mixed a tid (flatten [] ns) wt); assumption.
  - unfold bind, ret in Hd. discriminate Hd.
Qed.

(* ---------- 4.5 add, rm, restore ---------- *)
Lemma is_nil_false : forall (A : Type) (l : list A), negb (is_nil l) = true -> l <> [].
Proof. intros A [|y l] H; [discriminate H | discriminate]. Qed.

Lemma add_err_cases : forall e args x w s',
  cmd_add x args (mkMS w [] None) = (Err, s') -> clean_or_late e (CAdd args) w s'.
Proof.
  intros e args x w s' Hd. pose proof Hd as Hd2.
  rewrite AddressFacts.cmd_add_validation in Hd2. cbn [ms_w] in Hd2.
  destruct (negb (is_nil args)) eqn:En; cbn [andb] in Hd2; [|left; injection Hd2 as <-; reflexivity].
  destruct (forallb (AddressFacts.add_valid w) args) eqn:Ev; [|left; injection Hd2 as <-; reflexivity].
  right. destruct (foot_elim _ _ _ _ _ _ _ _ (cmd_add_foot x args) Hd) as (tr & Ht & _ & Hall).
  cbn [app] in Ht. rewrite Ht. apply LR_add; [apply is_nil_false; exact En | exact Ev | exact Hall].
Qed.

Lemma rm_err_cases : forall e args w s',
  cmd_rm args (mkMS w [] None) = (Err, s') -> clean_or_late e (CRm args) w s'.
Proof.
  intros e args w s' Hd. pose proof Hd as Hd2.
  rewrite AddressFacts.cmd_rm_validation in Hd2. cbn [ms_w] in Hd2.
  destruct (forallb (AddressFacts.rm_valid w) args) eqn:Ev; [|left; injection Hd2 as <-; reflexivity].
  right. destruct (foot_elim _ _ _ _ _ _ _ _ (cmd_rm_foot args) Hd) as (tr & Ht & _ & Hall).
  cbn [app] in Ht. rewrite Ht. apply LR_rm; [exact Ev | exact Hall].
Qed.

Lemma restore_wd_err_cases : forall e args x w s',
  cmd_restore x false args (mkMS w [] None) = (Err, s') -> clean_or_late e (CRestore false args) w s'.
Proof.
  intros e args x w s' Hd.
  rewrite AddressFacts.cmd_restore_wd_validation in Hd. cbn [ms_w] in Hd.
  destruct (negb (is_nil args)) eqn:En; cbn [andb] in Hd; [|left; injection Hd as <-; reflexivity].
  destruct (forallb (AddressFacts.rm_valid w) args) eqn:Ev; [|left; injection Hd as <-; reflexivity].
  right.
  assert (Hf : foot (wt_eff (fun q => In q (wd_targets w args)))
                 (bind (iterM restore_wd (wd_targets w args)) (fun _ => ret (@nil bytes)))).
  { unfold foot. apply emits_bind; [|intro; apply emits_ret].
    apply emits_iterM. intros q Hq.
    apply (foot_weaken (wt_eff (eq q))); [|apply restore_wd_foot].
    intros ef Hef. destruct ef; try contradiction Hef; try exact Logic.I.
    cbn [wt_eff] in Hef |- *. rewrite <- Hef. exact Hq. }
  destruct (foot_elim _ _ _ _ _ _ _ _ Hf Hd) as (tr & Ht & _ & Hall).
  cbn [app] in Ht.
  assert (Hpre : exists k, tr = firstn k (intended restore_wd_tr w (wd_targets w args))).
  { unfold bind in Hd.
    destruct (iterM restore_wd (wd_targets w args) (mkMS w [] None)) as [r1 s1] eqn:E1.
    destruct (restore_wd_loop_performs (wd_targets w args) w [] r1 s1 E1) as (k & Hs1 & _).
    destruct r1 as [u| |]; [discriminate Hd | |]; injection Hd as Hd; subst s'; subst s1;
      cbn [ms_trace app] in Ht; exists k; symmetry; exact Ht. }
  rewrite Ht. apply (LR_restore_wd e w args tr); [apply is_nil_false; exact En | exact Ev | exact Hall | exact Hpre].
Qed.

Lemma restore_idx_err_cases : forall e args x w s',
  ctx_of w = Some x ->
  cmd_restore x true args (mkMS w [] None) = (Err, s') -> clean_or_late e (CRestore true args) w s'.
Proof.
  intros e args x w s' Hx Hd. pose proof Hd as Hd2.
  rewrite AddressFacts.cmd_restore_idx_validation in Hd2. cbn [ms_w] in Hd2.
  destruct (negb (is_nil args)) eqn:En; cbn [andb] in Hd2; [|left; injection Hd2 as <-; reflexivity].
  destruct (am_mem (w_refs w) (w_head w)); [|left; injection Hd2 as <-; reflexivity].
  destruct (head_nodes x w) as [ns|] eqn:Hn; [|left; injection Hd2 as <-; reflexivity].
  destruct (forallb (AddressFacts.restore_idx_valid w ns) args) eqn:Ev; [|left; injection Hd2 as <-; reflexivity].
  right. destruct (foot_elim _ _ _ _ _ _ _ _ (cmd_restore_idx_foot x args) Hd) as (tr & Ht & _ & Hall).
  cbn [app] in Ht. rewrite Ht.
  apply (LR_restore_idx e w x ns); [exact Hx | exact Hn | apply is_nil_false; exact En | exact Ev | exact Hall].
Qed.

(* ---------- 4.6 the uniform statement ---------- *)
Lemma dispatch_err_cases : forall e c x w s',
  ctx_of w = Some x -> dispatch e c x (mkMS w [] None) = (Err, s') -> clean_or_late e c w s'.
Proof.
  intros e c x w s' Hx Hd. destruct c; cbn [dispatch] in Hd.
  - left. injection Hd as <-. reflexivity.
  - left. exact (err_clean_config e global args x w s' Hx Hd).
  - exact (add_err_cases e args x w s' Hd).
  - exact (rm_err_cases e args w s' Hd).
  - exact (commit_err_cases e msg x w s' Hx Hd).
  - left. pose proof (cmd_status_readonly x (mkMS w [] None)) as Hro. rewrite Hd in Hro. exact Hro.
  - exact (branch_err_cases e args list_flag rename delete x w s' Hx Hd).
  - exact (switch_err_cases e args create x w s' Hx Hd).
  - exact (reset_err_cases e soft mixed hard args x w s' Hx Hd).
  - destruct staged.
    + exact (restore_idx_err_cases e args x w s' Hx Hd).
    + exact (restore_wd_err_cases e args x w s' Hd).
  - left. exact (err_clean_update_ref e args x w s' Hx Hd).
  - left. pose proof (cmd_log_readonly x n (mkMS w [] None)) as Hro. rewrite Hd in Hro. exact Hro.
  - left. pose proof (cmd_reflog_readonly (mkMS w [] None)) as Hro. rewrite Hd in Hro. exact Hro.
  - left. pose proof (cmd_cat_file_readonly t p args (mkMS w [] None)) as Hro. rewrite Hd in Hro. exact Hro.
  - left. pose proof (cmd_hash_object_readonly args (mkMS w [] None)) as Hro. rewrite Hd in Hro. exact Hro.
  - left. pose proof (cmd_ls_files_readonly s (mkMS w [] None)) as Hro. rewrite Hd in Hro. exact Hro.
  - left. pose proof (cmd_rev_parse_readonly args (mkMS w [] None)) as Hro. rewrite Hd in Hro. exact Hro.
  - left. exact (err_clean_write_tree e x w s' Hx Hd).
Qed.

(* C18, every command, every world: a refused command has written nothing and
   left the world as it was, or it is one of the late refusals of [late_refusal];
   in both cases the world it leaves is the one its effects produce *)
Theorem refusal_cases : forall e c w w' tr,
  step (ACmd e c) w = (w', OErr, tr) ->
  w' = apply_effects tr w /\ ((tr = [] /\ w' = w) \/ late_refusal e w c tr).
Proof.
  intros e c w w' tr Hstep. split; [exact (step_trace _ _ _ _ _ Hstep)|].
  assert (Hgen : c <> CInit -> (tr = [] /\ w' = w) \/ late_refusal e w c tr).
  { intro Hc.
    destruct (step_err_inv e c w w' tr Hc Hstep) as [H|(x & s' & _ & Hx & Hd & Hw & Ht)]; [left; exact H|].
    destruct (dispatch_err_cases e c x w s' Hx Hd) as [Hs|Hl].
    - left. rewrite Hs in Hw, Ht. cbn [ms_w ms_trace] in Hw, Ht. auto.
    - right. rewrite Ht. exact Hl. }
  destruct c; try (apply Hgen; discriminate).
  left. destruct (refused_unchanged_init e w w' tr Hstep) as (H1 & H2 & _). auto.
Qed.

(* no late refusal is listed for the commands of [early_cmd]: the list is exact there *)
Lemma late_refusal_not_early : forall e w c tr, late_refusal e w c tr -> ~ early_cmd c.
Proof.
  intros e w c tr Hl Hc. destruct Hl; cbn [early_cmd] in Hc; try contradiction Hc.
  - destruct Hc as [Hc _]. subst new.
    match goal with Hn : is_nil [] = false |- _ => discriminate Hn end.
  - destruct Hc as [_ Hc]. subst d.
    match goal with Hn : is_nil [] = false |- _ => discriminate Hn end.
  - destruct Hc as [Hc|Hc]; contradiction Hc; reflexivity.
  - destruct Hc as [Hc|[-> ->]]; [discriminate Hc|].
    match goal with Hm : reset_mode_ok false false false = true |- _ => discriminate Hm end.
  - destruct Hc as [Hc|[_ Hc]]; discriminate Hc.
Qed.

(* and every listed late refusal has written something, except that the
   loops of add / rm / restore may stop at their first element *)
Lemma late_refusal_nonempty : forall e w c tr,
  late_refusal e w c tr ->
  match c with CAdd _ | CRm _ | CRestore _ _ => True | _ => tr <> [] end.
Proof.
  intros e w c tr Hl. destruct Hl; try exact Logic.I; try discriminate;
    intro Hn; apply (f_equal (@length effect)) in Hn;
    rewrite ?app_length, ?map_length, ?app_length in Hn; cbn [length] in Hn; lia.
Qed.

(* ---------- 4.7 "a prefix of the successful trace" ---------- *)
(* the traces [intended ...] of [LR_reset_hard] and [LR_restore_wd] are what
   the two commands perform when they succeed: *)
Theorem restore_wd_ok_trace : forall e args w w' out tr,
  step (ACmd e (CRestore false args)) w = (w', OOk out, tr) ->
  tr = intended restore_wd_tr w (wd_targets w args).
Proof.
  intros e args w w' out tr Hstep.
  destruct (step_inv e (CRestore false args) w w' (OOk out) tr ltac:(discriminate) Hstep)
    as [(Ho & _)|(x & r & s' & _ & _ & Hd & Ho & _ & Ht)]; [discriminate Ho|].
  destruct r as [out'| |]; try discriminate Ho. cbn [dispatch] in Hd.
  rewrite AddressFacts.cmd_restore_wd_validation in Hd. cbn [ms_w] in Hd.
  destruct (negb (is_nil args) && forallb (AddressFacts.rm_valid w) args); [|discriminate Hd].
  unfold bind in Hd.
  destruct (iterM restore_wd (wd_targets w args) (mkMS w [] None)) as [r1 s1] eqn:E1.
  destruct (restore_wd_loop_performs (wd_targets w args) w [] r1 s1 E1) as (k & Hs1 & Hfull).
  destruct r1 as [u| |]; try discriminate Hd. rewrite (Hfull u eq_refl) in Hs1.
  unfold ret in Hd. injection Hd as _ Hs'. subst s' s1. exact Ht.
Qed.

Theorem reset_hard_ok_trace : forall e mixed a w w' out tr,
  step (ACmd e (CReset false mixed true [a])) w = (w', OOk out, tr) ->
  exists x prev pc tid es,
    ctx_of w = Some x /\ x_headc x = Some (prev, pc) /\
    ExactFacts.reset_target w a = Some tid /\ reset_entries w a = Some es /\
    tr = reset_head_trace e x w prev tid a ++
         ESetIndex es ::
         intended hard_tr (apply_effect (ESetIndex es) (apply_effects (reset_head_trace e x w prev tid a) w)) es.
Proof.
  intros e mixed a w w' out tr Hstep.
  destruct (step_inv e (CReset false mixed true [a]) w w' (OOk out) tr ltac:(discriminate) Hstep)
    as [(Ho & _)|(x & r & s' & _ & Hx & Hd & Ho & _ & Ht)]; [discriminate Ho|].
  destruct r as [out'| |]; try discriminate Ho. cbn [dispatch] in Hd.
  destruct (ExactFacts.reset_target w a) as [tid|] eqn:Et.
  2:{ destruct (ExactFacts.cmd_reset_refused e x false mixed true [a] w) as [Hr _].
      { right. right. exists a. split; [reflexivity | exact Et]. }
      rewrite (Hr []) in Hd. discriminate Hd. }
  rewrite (cmd_reset_eval e x w a tid mixed true [] eq_refl Et) in Hd.
  destruct (x_headc x) as [[prev pc]|] eqn:Ehc; [|discriminate Hd].
  destruct (get_commit (w_objs w) tid) as [tc|] eqn:Etc; [|discriminate Hd].
  destruct (am_mem (w_refs w) (w_head w)); [|discriminate Hd].
  cbn [app] in Hd. unfold reset_tail in Hd.
  rewrite ev_bind_assoc, ev_bind_of_opt in Hd.
  destruct (get_kind (w_objs w) KTree (c_tree tc)) as [d|] eqn:Ek; [|discriminate Hd].
  rewrite ev_bind_assoc, ev_bind_of_opt in Hd.
  destruct (walk_tree (S (length (w_objs w))) (w_objs w) d) as [ns|] eqn:Ewt; [|discriminate Hd].
  cbv zeta in Hd. rewrite ev_bind_assoc, ev_bind_emit in Hd. cbv beta in Hd.
  exists x, prev, pc, tid, (flatten [] ns).
  split; [exact Hx|]. split; [exact Ehc|]. split; [reflexivity|].
  split; [apply (reset_entries_intro w a tid tc d ns); assumption|].
  unfold bind in Hd.
  match type of Hd with (match ?m ?s4 with _ => _ end) = _ =>
    destruct (m s4) as [r1 s1] eqn:E1 end.
  destruct (hard_loop_performs (flatten [] ns) _ _ r1 s1 E1) as (k & Hs1 & Hfull).
  destruct r1 as [u| |]; try discriminate Hd. rewrite (Hfull u eq_refl) in Hs1.
  unfold ret in Hd. injection Hd as _ Hs'. subst s' s1. cbn [ms_trace] in Ht. rewrite Ht.
  unfold reset_head_trace. reflexivity.
Qed.

(* ================================================================== *)
(** * 5. What a late refusal leaves untouched *)

Ltac keep_field Hall :=
  match goal with
  | |- ?f (apply_effects ?tr ?w) = ?f ?w =>
      refine (apply_effects_preserve _ f _ _ tr w Hall);
      let e0 := fresh "e0" in let w0 := fresh "w0" in let He0 := fresh "He0" in
      intros e0 w0 He0; destruct e0; try contradiction He0; reflexivity
  end.

Lemma put_eff_frame : forall tr w, Forall put_eff tr ->
  same_meta w (apply_effects tr w) /\ same_wt w (apply_effects tr w) /\
  w_index (apply_effects tr w) = w_index w.
Proof.
  intros tr w Hall. unfold same_meta, same_wt. repeat split; keep_field Hall.
Qed.

Lemma wt_eff_frame : forall ok tr w, Forall (wt_eff ok) tr ->
  same_meta w (apply_effects tr w) /\ same_objs w (apply_effects tr w) /\
  w_index (apply_effects tr w) = w_index w.
Proof.
  intros ok tr w Hall. unfold same_meta, same_objs. repeat split; keep_field Hall.
Qed.

Lemma idx_eff_frame : forall tr w, Forall idx_eff tr ->
  same_meta w (apply_effects tr w) /\ same_objs w (apply_effects tr w) /\
  same_wt w (apply_effects tr w).
Proof.
  intros tr w Hall. unfold same_meta, same_objs, same_wt. repeat split; keep_field Hall.
Qed.

Lemma rm_eff_trace_frame : forall tr w, Forall rm_eff tr ->
  same_meta w (apply_effects tr w) /\ same_objs w (apply_effects tr w).
Proof.
  intros tr w Hall. unfold same_meta, same_objs. repeat split; keep_field Hall.
Qed.

(* a file is only written at a path the class allows *)
Lemma wt_eff_files : forall (ok : bytes -> Prop) tr w q, Forall (wt_eff ok) tr -> ~ ok q ->
  file (apply_effects tr w) q = file w q.
Proof.
  intros ok tr. induction tr as [|ef tr IH]; intros w q Hall Hq; [reflexivity|].
  inversion Hall as [|ef' tr' Hef Htr]; subst. rewrite apply_effects_cons, (IH _ q Htr Hq).
  destruct ef; try contradiction Hef; try reflexivity.
  unfold file. autorewrite with wfields. apply ex_am_get_set_other. intros ->. exact (Hq Hef).
Qed.

(* (i) commit: only objects were written — tree objects and, in the second
   case, the commit object; the branches, HEAD, the journals, the
   configuration, the staging area and the work tree are those of [w] *)
Theorem late_commit_frame : forall e w msg tr,
  late_refusal e w (CCommit msg) tr ->
  Forall put_eff tr /\
  same_meta w (apply_effects tr w) /\ same_wt w (apply_effects tr w) /\
  w_index (apply_effects tr w) = w_index w.
Proof.
  intros e w msg tr Hl.
  assert (Hall : Forall put_eff tr).
  { inversion Hl; subst.
    - apply Forall_forall. intros ef Hin. apply in_map_iff in Hin. destruct Hin as (d & <- & _). exact Logic.I.
    - apply Forall_app. split; [|repeat constructor].
      apply Forall_forall. intros ef Hin. apply in_map_iff in Hin. destruct Hin as (d & <- & _). exact Logic.I. }
  split; [exact Hall | apply put_eff_frame; exact Hall].
Qed.

(* when the text does not read back, every object written is a tree *)
Theorem late_commit_text_trees : forall e w msg tr,
  late_refusal e w (CCommit msg) tr ->
  (CommitCmdFacts.tip_of w = None -> valid_branch_name (w_head w) = true) ->
  Forall (fun ef => exists d, ef = CommitCmdFacts.put_tree_eff d) tr.
Proof.
  intros e w msg tr Hl Hv. inversion Hl; subst.
  - apply Forall_forall. intros ef Hin. apply in_map_iff in Hin. destruct Hin as (d & <- & _). exists d. reflexivity.
  - match goal with Ht : CommitCmdFacts.tip_of w = None,
                    Hb : valid_branch_name (w_head w) = false |- _ =>
      rewrite (Hv Ht) in Hb; discriminate Hb end.
Qed.

(* the identity is the cause: with an identity inside [sign_ok] the text reads back *)
Theorem late_commit_text_identity : forall e w msg x root,
  ctx_of w = Some x ->
  parse_commit (CommitCmdFacts.commit_data e x msg w root) = None ->
  ~ sign_ok (user_name (x_l x) (x_g x)) (user_email (x_l x) (x_g x)) (e_time e) (e_off e).
Proof.
  intros e w msg x root Hx Hp Hs.
  rewrite (CommitCmdFacts.commit_parses e x msg w root Hs) in Hp; [discriminate Hp|].
  intros tip Ht. exact (CommitCmdFacts.loaded_tip_length w x tip Hx Ht).
Qed.

(* (ii) reset: the objects, the configuration and HEAD are those of [w]; the
   current branch points at the target; a file outside the target snapshot is
   never written *)
Theorem late_reset_frame : forall e w soft mixed hard args tr,
  late_refusal e w (CReset soft mixed hard args) tr ->
  exists a tid, args = [a] /\ ExactFacts.reset_target w a = Some tid /\
    reset_common_post w tid (apply_effects tr w) /\
    (forall q, (forall es, reset_entries w a = Some es -> ~ In q (paths es)) ->
               file (apply_effects tr w) q = file w q).
Proof.
  intros e w soft mixed hard args tr Hl. inversion Hl; subst.
  - match goal with Ht : ExactFacts.reset_target w ?a = Some ?tid |- _ =>
      exists a, tid; split; [reflexivity|]; split; [exact Ht|] end.
    split.
    + match goal with |- reset_common_post _ _ (apply_effects (reset_head_trace ?e0 ?x0 ?w0 ?p0 ?t0 ?a0) _) =>
        rewrite <- (app_nil_r (reset_head_trace e0 x0 w0 p0 t0 a0)) end.
      apply reset_common_after. constructor.
    + intros q _. unfold reset_head_trace, file. autorewrite with wfields. reflexivity.
  - match goal with Ht : ExactFacts.reset_target w ?a = Some ?tid |- _ =>
      exists a, tid; split; [reflexivity|]; split; [exact Ht|] end.
    match goal with Hwt : Forall (wt_eff (fun q => In q (paths ?es))) ?wt |- _ =>
      rename Hwt into Hall; rename es into es0; rename wt into wt0 end.
    split.
    + apply reset_common_after. constructor; [exact Logic.I|].
      apply (Forall_impl _ (P := wt_eff (fun q => In q (paths es0)))); [|exact Hall].
      intros ef Hef. destruct ef; try contradiction Hef; exact Logic.I.
    + intros q Hq. rewrite apply_effects_app. rewrite apply_effects_cons.
      match goal with He : reset_entries w _ = Some es0 |- _ =>
        rewrite (wt_eff_files _ wt0 _ q Hall (Hq es0 He)) end.
      unfold reset_head_trace, file. autorewrite with wfields. reflexivity.
Qed.

(* (iii) add: objects and the staging area only *)
Theorem late_add_frame : forall e w args tr,
  late_refusal e w (CAdd args) tr ->
  Forall add_eff tr /\ same_wt w (apply_effects tr w) /\ same_meta w (apply_effects tr w).
Proof.
  intros e w args tr Hl. inversion Hl; subst.
  split; [assumption | apply add_eff_trace_frame; assumption].
Qed.

(* rm: the work tree and the staging area only *)
Theorem late_rm_frame : forall e w args tr,
  late_refusal e w (CRm args) tr ->
  Forall rm_eff tr /\ same_meta w (apply_effects tr w) /\ same_objs w (apply_effects tr w).
Proof.
  intros e w args tr Hl. inversion Hl; subst.
  split; [assumption | apply rm_eff_trace_frame; assumption].
Qed.

(* restore: the work tree only, at paths the arguments select; restore
   --staged: the staging area only *)
Theorem late_restore_frame : forall e w staged args tr,
  late_refusal e w (CRestore staged args) tr ->
  same_meta w (apply_effects tr w) /\ same_objs w (apply_effects tr w) /\
  if staged then Forall idx_eff tr /\ same_wt w (apply_effects tr w)
  else Forall (wt_eff (fun q => In q (wd_targets w args))) tr /\
       w_index (apply_effects tr w) = w_index w /\
       forall q, ~ In q (wd_targets w args) -> file (apply_effects tr w) q = file w q.
Proof.
  intros e w staged args tr Hl. inversion Hl; subst.
  - match goal with Hall : Forall (wt_eff _) tr |- _ =>
      destruct (wt_eff_frame _ tr w Hall) as (Hm & Ho & Hi);
      split; [exact Hm|]; split; [exact Ho|]; split; [exact Hall|]; split; [exact Hi|];
      intros q Hq; exact (wt_eff_files _ tr w q Hall Hq) end.
  - match goal with Hall : Forall idx_eff tr |- _ =>
      destruct (idx_eff_frame tr w Hall) as (Hm & Ho & Hwt); auto end.
Qed.

(* branch --rename / --delete, switch: the objects, the staging area, the
   work tree and the configuration are those of [w] *)
Theorem late_branch_switch_frame : forall e w c tr,
  late_refusal e w c tr -> branch_family c ->
  same_objs w (apply_effects tr w) /\ same_wt w (apply_effects tr w) /\
  w_index (apply_effects tr w) = w_index w /\
  w_lcfg (apply_effects tr w) = w_lcfg w /\ w_gcfg (apply_effects tr w) = w_gcfg w.
Proof.
  intros e w c tr Hl Hf. destruct Hl; try contradiction Hf;
    unfold same_objs, same_wt, rename_trace1; autorewrite with wfields; auto 10.
Qed.

(* ================================================================== *)
(** * 6. C14 corners: `log` before the first commit, `log -n k` for k <= 0 *)

(* the whole of `log`, on every world: the world is returned as it was, no
   effect is performed, and the outcome is this function of the world *)
Definition log_outcome (w : world) (n : Z) : outcome :=
  if w_inited w then
    match ctx_of w with
    | Some x => outcome_of (LogFacts.log_result (w_objs w) (is_nil (w_refs w)) (option_map fst (x_headc x)) n)
    | None => OErr
    end
  else OErr.

Theorem log_step : forall e n w, step (ACmd e (CLog n)) w = (w, log_outcome w n, []).
Proof.
  intros e n w. unfold log_outcome.
  destruct (w_inited w) eqn:Hi; [|apply step_not_loaded; [discriminate | left; exact Hi]].
  destruct (ctx_of w) as [x|] eqn:Hx; [|apply step_not_loaded; [discriminate | right; exact Hx]].
  rewrite (step_loaded e (CLog n) w x); [|discriminate | exact Hi | exact Hx].
  cbn [dispatch]. rewrite LogFacts.cmd_log_reads. reflexivity.
Qed.

(* `log` never changes the world: no effect, the same world, whatever the
   outcome; and there is no write an injected fault could hit *)
Theorem log_never_writes : forall e n w w' o tr,
  step (ACmd e (CLog n)) w = (w', o, tr) -> tr = [] /\ w' = w.
Proof. intros e n w w' o tr. apply readonly_step. exact Logic.I. Qed.

Theorem log_never_writes_fault : forall e n s, snd (run_cmd e (CLog n) s) = s.
Proof. intros e n s. apply (run_cmd_readonly e (CLog n) Logic.I). Qed.

(* no commit yet on the current branch (in particular: a fresh repository):
   `log` is refused — "no commits yet" — and the world is unchanged *)
Theorem log_no_commit_refused : forall e n w,
  (forall x, ctx_of w = Some x -> x_headc x = None) ->
  step (ACmd e (CLog n)) w = (w, OErr, []).
Proof.
  intros e n w Hno. rewrite log_step. unfold log_outcome.
  destruct (w_inited w); [|reflexivity].
  destruct (ctx_of w) as [x|] eqn:Hx; [|reflexivity].
  rewrite (Hno x eq_refl). cbn [option_map]. unfold LogFacts.log_result.
  destruct (is_nil (w_refs w)); reflexivity.
Qed.

(* the same, read on the world: the branch HEAD names does not exist *)
Corollary log_unborn_branch_refused : forall e n w,
  am_get (w_refs w) (w_head w) = None -> step (ACmd e (CLog n)) w = (w, OErr, []).
Proof.
  intros e n w Hg. apply log_no_commit_refused. intros x Hx.
  pose proof (loaded_headc w x Hx) as Hh.
  destruct (x_headc x) as [[hid cm]|]; [|reflexivity].
  destruct Hh as [Hh _]. rewrite Hh in Hg. discriminate Hg.
Qed.

Corollary log_no_branch_at_all_refused : forall e n w,
  w_refs w = [] -> step (ACmd e (CLog n)) w = (w, OErr, []).
Proof. intros e n w Hr. apply log_unborn_branch_refused. rewrite Hr. reflexivity. Qed.

(* conversely, once the repository loads and HEAD resolves to a commit the
   refusal above does not apply: see [log_nonpositive] and Props/C14 *)

(* `log -n k` with k <= 0 on a branch that has a commit: accepted, prints
   nothing, changes nothing — whatever the store holds, even when the history
   below the tip is damaged *)
Theorem log_nonpositive : forall e n w x tip cm,
  w_inited w = true -> ctx_of w = Some x -> x_headc x = Some (tip, cm) -> (n <= 0)%Z ->
  step (ACmd e (CLog n)) w = (w, OOk [], []).
Proof.
  intros e n w x tip cm Hi Hx Hh Hn. rewrite log_step. unfold log_outcome. rewrite Hi, Hx, Hh.
  cbn [option_map fst]. unfold LogFacts.log_result.
  pose proof (loaded_headc w x Hx) as Hl. rewrite Hh in Hl. destruct Hl as [Hg _].
  destruct (w_refs w) as [|kv rs] eqn:Er; [discriminate Hg|]. cbn [is_nil].
  cbn [walk_history].
  assert (Hlt : Z.ltb n (0 + 1) = true) by lia. rewrite Hlt. reflexivity.
Qed.

(* without -n restriction on the sign: for EVERY k the listing has at most
   max(k,0) lines (Props/C14.C14_bounded); at k <= 0 that is none *)
Corollary log_nonpositive_any_world : forall e n w,
  (n <= 0)%Z -> exists o, step (ACmd e (CLog n)) w = (w, o, []) /\ (o = OErr \/ o = OOk []).
Proof.
  intros e n w Hn. exists (log_outcome w n). split; [apply log_step|].
  unfold log_outcome. destruct (w_inited w) eqn:Hi; [|left; reflexivity].
  destruct (ctx_of w) as [x|] eqn:Hx; [|left; reflexivity].
  destruct (x_headc x) as [[tip cm]|] eqn:Hh.
  - right. pose proof (log_nonpositive e n w x tip cm Hi Hx Hh Hn) as Hs.
    rewrite log_step in Hs. unfold log_outcome in Hs. rewrite Hi, Hx, Hh in Hs.
    injection Hs as Hs. exact Hs.
  - left. cbn [option_map]. unfold LogFacts.log_result. destruct (is_nil (w_refs w)); reflexivity.
Qed.

(* ================================================================== *)
(** * 7. On the repositories Goit can produce: which late refusals remain, and why *)

(* In a world reached by a history from the empty directory (no SHA-1
   collision flagged, no giant object) the refusals after the first write that
   the invariants exclude are gone: branch --rename / --delete and switch are
   never refused late (every branch has its log, every branch names a commit);
   commit is not refused for the name HEAD holds; reset never finds the
   snapshot of a journal entry missing.  What remains has a cause that can be
   read on the arguments and the work tree: *)
Definition reachable_cause (e : env) (w : world) (c : cmd) (tr : list effect) : Prop :=
  match c with
  (* (i) commit: the identity is outside [sign_ok], the text does not read back; only trees were written *)
  | CCommit msg =>
      exists x root subs, ctx_of w = Some x /\ write_tree_top (idx_of w) = Some (root, subs) /\
        parse_commit (CommitCmdFacts.commit_data e x msg w root) = None /\
        tr = map CommitCmdFacts.put_tree_eff (subs ++ [root]) /\
        ~ sign_ok (user_name (x_l x) (x_g x)) (user_email (x_l x) (x_g x)) (e_time e) (e_off e)
  (* (ii) reset --hard: the work tree obstructs a path of the target snapshot
     (a directory where a file must go, a file where a directory must go), or
     the snapshot holds a path beneath another of its paths *)
  | CReset false _ true [a] =>
      exists es, reset_entries w a = Some es /\
        ~ ((forall q, In q (paths es) -> RestoreFacts.restorable w q) /\
           (forall q1 q2, In q1 (paths es) -> In q2 (paths es) -> ~ In q1 (ancestors q2)))
  (* (iii) add: two arguments cover a common path (a repeated argument, a
     directory and something beneath it) *)
  | CAdd args => ex_wt_consistent w -> ~ AddTotalFacts.no_overlap args
  (* rm: overlapping arguments, or a selected tracked path that is a directory on disk / lies beneath a file *)
  | CRm args =>
      ~ (AddTotalFacts.no_overlap args /\
         forall q, AddTotalFacts.rm_selected w args q -> wt_stat w q = SFile \/ wt_stat w q = SNone)
  (* restore: the work tree obstructs a selected path, or a selected path lies beneath another *)
  | CRestore false args =>
      ~ ((forall q, RestoreFacts.wd_selected w args q -> RestoreFacts.restorable w q) /\
         RestoreFacts.wd_flat w args)
  (* restore --staged: a path selected twice that HEAD does not have *)
  | CRestore true args =>
      exists x ns, ctx_of w = Some x /\ head_nodes x w = Some ns /\
        ~ RestoreFacts.repeats_in_head ns (idx_targets w ns args)
  | _ => False
  end.

Section Reachable.
  Variable w : world.
  Hypothesis Hreach : Reachable w.
  Hypothesis Hcoll : w_coll w = false.
  Hypothesis Hsmall : SnapshotFacts.SmallStore (w_objs w).

  Let Hcan : Canonical (idx_of w) := RestoreFacts.reachable_canonical w Hreach Hcoll Hsmall.

  Lemma rc_commit : forall e msg tr,
    w_inited w = true -> late_refusal e w (CCommit msg) tr -> reachable_cause e w (CCommit msg) tr.
  Proof.
    intros e msg tr Hi Hl. inversion Hl; subst.
    - match goal with Hx : ctx_of w = Some ?x, Hw : write_tree_top _ = Some (?root, ?subs),
                      Hp : parse_commit _ = None |- _ =>
        exists x, root, subs; split; [exact Hx|]; split; [exact Hw|]; split; [exact Hp|];
        split; [reflexivity|]; exact (late_commit_text_identity e w msg x root Hx Hp) end.
    - match goal with Hb : valid_branch_name (w_head w) = false |- _ =>
        rewrite (HeadFacts.reachable_head_valid w Hreach Hi) in Hb; discriminate Hb end.
  Qed.

  Lemma rc_reset_hard_ok : forall e x a tid es mixed prev pc,
    ctx_of w = Some x -> x_headc x = Some (prev, pc) ->
    ExactFacts.reset_target w a = Some tid -> reset_entries w a = Some es ->
    (forall q, In q (paths es) -> RestoreFacts.restorable w q) ->
    (forall q1 q2, In q1 (paths es) -> In q2 (paths es) -> ~ In q1 (ancestors q2)) ->
    exists s', cmd_reset e x false mixed true [a] (mkMS w [] None) = (Ok [], s').
  Proof.
    intros e x a tid es mixed prev pc Hx Hhc Ht He Hres Hflat.
    unfold reset_entries in He. rewrite Ht in He.
    destruct (get_commit (w_objs w) tid) as [tc|] eqn:Etc; [|discriminate He].
    destruct (get_kind (w_objs w) KTree (c_tree tc)) as [d|] eqn:Ek; [|discriminate He].
    destruct (walk_tree (S (length (w_objs w))) (w_objs w) d) as [ns|] eqn:Ewt; [|discriminate He].
    injection He as He.
    assert (Hsnap : SnapshotFacts.snapshot (w_objs w) tid = Some es).
    { unfold SnapshotFacts.snapshot. rewrite Etc, Ek, Ewt, He. reflexivity. }
    destruct (ResetFacts.reachable_snapshot_blobs w tid es Hreach Hcoll Hsmall Hsnap) as (Hces & _ & Hblobs).
    pose proof (loaded_headc w x Hx) as Hl. rewrite Hhc in Hl. destruct Hl as [Hg _].
    assert (Hm : am_mem (w_refs w) (w_head w) = true) by (unfold am_mem; rewrite Hg; reflexivity).
    rewrite (cmd_reset_eval e x w a tid mixed true [] eq_refl Ht), Hhc, Etc, Hm.
    cbn [app]. unfold reset_tail.
    rewrite ev_bind_assoc, ev_bind_of_opt, Ek. cbv beta iota.
    rewrite ev_bind_assoc, ev_bind_of_opt, Ewt. cbv beta iota zeta.
    rewrite ev_bind_assoc, ev_bind_emit. cbv beta. rewrite He.
    set (w4 := apply_effect (ESetIndex es) (apply_effects (reset_head_trace e x w prev tid a) w)).
    destruct (ResetFacts.reset_hard_loop w4 es) as (trl & Hrl & _ & _).
    { reflexivity. }
    { exact Hces. }
    { intros en Hen. apply Hblobs. exact Hen. }
    { intros q Hq. apply (ResetFacts.wt_put_ok_ext w w4 q); [reflexivity | reflexivity |].
      apply RestoreFacts.restorable_iff. apply Hres. exact Hq. }
    { exact Hflat. }
    unfold bind at 1. rewrite (Hrl _). eexists. reflexivity.
  Qed.

  Lemma rc_reset : forall e x soft mixed hard args s',
    ctx_of w = Some x ->
    cmd_reset e x soft mixed hard args (mkMS w [] None) = (Err, s') ->
    late_refusal e w (CReset soft mixed hard args) (ms_trace s') ->
    reachable_cause e w (CReset soft mixed hard args) (ms_trace s').
  Proof.
    intros e x soft mixed hard args s' Hx Hd Hl. inversion Hl; subst.
    - (* the snapshot of a stored commit of a reachable world loads *)
      exfalso.
      match goal with Hc : get_commit (w_objs w) ?tid <> None, He : reset_entries w ?a = None,
                      Ht : ExactFacts.reset_target w ?a = Some ?tid |- _ =>
        destruct (get_commit (w_objs w) tid) as [tc|] eqn:Etc; [|contradiction Hc; reflexivity];
        destruct (ResetFacts.reachable_snapshot w tid tc Hreach Hcoll Hsmall Etc) as (d & ns & Hk & Hwt & _);
        unfold reset_entries in He; rewrite Ht, Etc, Hk, Hwt in He; discriminate He end.
    - match goal with He : reset_entries w ?a = Some ?es |- _ =>
        cbn [reachable_cause]; exists es; split; [exact He|] end.
      intros [Hres Hflat].
      match goal with Hx' : ctx_of w = Some ?x', Hhc : x_headc ?x' = Some (?prev, ?pc),
                      Ht : ExactFacts.reset_target w ?a = Some ?tid, He : reset_entries w ?a = Some ?es |- _ =>
        rewrite Hx in Hx'; injection Hx' as <-;
        destruct (rc_reset_hard_ok e x a tid es mixed prev pc Hx Hhc Ht He Hres Hflat) as (s2 & Hok) end.
      rewrite Hok in Hd. discriminate Hd.
  Qed.

  Lemma rc_add : forall e x args s',
    cmd_add x args (mkMS w [] None) = (Err, s') ->
    late_refusal e w (CAdd args) (ms_trace s') -> reachable_cause e w (CAdd args) (ms_trace s').
  Proof.
    intros e x args s' Hd Hl. cbn [reachable_cause]. intros Hcons Hno. inversion Hl; subst.
    match goal with Hne : args <> [], Hv : forallb _ args = true |- _ =>
      destruct (AddTotalFacts.cmd_add_total x w args Hcan Hcons Hne
                  (fun a Ha => proj1 (forallb_forall _ _) Hv a Ha) Hno) as (tr0 & Hr & _) end.
    rewrite (Hr []) in Hd. discriminate Hd.
  Qed.

  Lemma rc_rm : forall e args s',
    cmd_rm args (mkMS w [] None) = (Err, s') ->
    late_refusal e w (CRm args) (ms_trace s') -> reachable_cause e w (CRm args) (ms_trace s').
  Proof.
    intros e args s' Hd Hl. cbn [reachable_cause]. intros [Hno Hdisk]. inversion Hl; subst.
    match goal with Hv : forallb _ args = true |- _ =>
      destruct (AddTotalFacts.cmd_rm_total w args Hcan (AddTotalFacts.reachable_files_nodup w Hreach)
                  (fun a Ha => proj1 (forallb_forall _ _) Hv a Ha) Hno Hdisk) as (tr0 & Hr & _) end.
    rewrite (Hr []) in Hd. discriminate Hd.
  Qed.

  Lemma rc_restore_wd : forall e x args s',
    cmd_restore x false args (mkMS w [] None) = (Err, s') ->
    late_refusal e w (CRestore false args) (ms_trace s') ->
    reachable_cause e w (CRestore false args) (ms_trace s').
  Proof.
    intros e x args s' Hd Hl. cbn [reachable_cause]. intros [Hres Hflat]. inversion Hl; subst.
    rewrite AddressFacts.cmd_restore_wd_validation in Hd. cbn [ms_w] in Hd.
    match goal with Hne : args <> [], Hv : forallb _ args = true |- _ =>
      rewrite Hv in Hd; destruct args as [|a0 ar]; [contradiction Hne; reflexivity|] end.
    cbn [is_nil negb andb] in Hd.
    set (l := wd_targets w (a0 :: ar)) in *.
    assert (Hsel : forall q, In q l <-> RestoreFacts.wd_selected w (a0 :: ar) q).
    { intro q. apply RestoreFacts.wd_targets_selected. exact Hcan. }
    destruct (RestoreFacts.restore_wd_list_total w l) as (tr0 & Hr & _).
    { intros q Hq. apply RestoreFacts.restorable_iff. apply Hres. apply Hsel. exact Hq. }
    { intros q1 q2 Hq1 Hq2. apply Hflat; apply Hsel; assumption. }
    { intros q Hq. apply Hsel in Hq. pose proof (RestoreFacts.wd_selected_staged w _ q Hq) as Hs.
      destruct (staged w q) as [id|] eqn:Es; [|contradiction Hs; reflexivity].
      destruct (RestoreFacts.blobs_stored_blob_of w q id
                  (RestoreFacts.reachable_blobs_stored w Hreach Hcoll Hsmall) Es) as (data & _ & Hb).
      exists data. exact Hb. }
    unfold bind at 1 in Hd. rewrite (Hr []) in Hd. discriminate Hd.
  Qed.

  Lemma rc_restore_idx : forall e x args s',
    ctx_of w = Some x ->
    cmd_restore x true args (mkMS w [] None) = (Err, s') ->
    late_refusal e w (CRestore true args) (ms_trace s') ->
    reachable_cause e w (CRestore true args) (ms_trace s').
  Proof.
    intros e x args s' Hx Hd Hl. cbn [reachable_cause]. inversion Hl; subst.
    match goal with Hx' : ctx_of w = Some ?x', Hn : head_nodes ?x' w = Some ?ns |- _ =>
      rewrite Hx in Hx'; injection Hx' as <-; exists x, ns; split; [exact Hx|]; split; [exact Hn|];
      rename Hn into Hnodes; rename ns into ns0 end.
    intro Hrep.
    destruct (RestoreFacts.reachable_head_nodes w x ns0 Hreach Hcoll Hsmall Hx Hnodes)
      as (hid & cm & d & Hh & Href & Hk & Hwt & Hns & _).
    rewrite AddressFacts.cmd_restore_idx_validation in Hd. cbn [ms_w] in Hd.
    match goal with Hne : args <> [], Hv : forallb _ args = true |- _ =>
      rewrite Hnodes, Hv in Hd; destruct args as [|a0 ar]; [contradiction Hne; reflexivity|] end.
    cbn [is_nil negb andb] in Hd.
    assert (Hm : am_mem (w_refs w) (w_head w) = true) by (unfold am_mem; rewrite Href; reflexivity).
    rewrite Hm in Hd.
    destruct (RestoreFacts.restore_index_list_total w ns0 (idx_targets w ns0 (a0 :: ar)) Hcan Hrep)
      as (tr0 & Hr & _).
    { intros q Hq. apply (RestoreFacts.idx_targets_accepted w ns0 (a0 :: ar) q Hcan Hns Hq). }
    unfold bind at 1 in Hd. rewrite (Hr []) in Hd. discriminate Hd.
  Qed.

  Lemma rc_generic : forall e c w' tr,
    c <> CInit -> step (ACmd e c) w = (w', OErr, tr) ->
    (forall x s', w_inited w = true -> ctx_of w = Some x ->
       dispatch e c x (mkMS w [] None) = (Err, s') ->
       late_refusal e w c (ms_trace s') -> reachable_cause e w c (ms_trace s')) ->
    (tr = [] /\ w' = w) \/ (late_refusal e w c tr /\ reachable_cause e w c tr).
  Proof.
    intros e c w' tr Hc Hstep Hcause.
    destruct (step_err_inv e c w w' tr Hc Hstep) as [H|(x & s' & Hi & Hx & Hd & Hw & Ht)]; [left; exact H|].
    destruct (dispatch_err_cases e c x w s' Hx Hd) as [Hs|Hl].
    - left. rewrite Hs in Hw, Ht. cbn [ms_w ms_trace] in Hw, Ht. auto.
    - right. rewrite Ht. split; [exact Hl | exact (Hcause x s' Hi Hx Hd Hl)].
  Qed.

  (* C18 on the repositories Goit can produce *)
  Theorem refusal_cases_reachable : forall e c w' tr,
    step (ACmd e c) w = (w', OErr, tr) ->
    (tr = [] /\ w' = w) \/ (late_refusal e w c tr /\ reachable_cause e w c tr).
  Proof.
    intros e c w' tr Hstep.
    destruct c;
      try (left; refine (refused_unchanged_all e _ w w' tr _ Hstep); exact Logic.I).
    - (* add *)
      apply rc_generic; [discriminate | exact Hstep|]. intros x s' Hi Hx Hd Hl. cbn [dispatch] in Hd.
      exact (rc_add e x args s' Hd Hl).
    - (* rm *)
      apply rc_generic; [discriminate | exact Hstep|]. intros x s' Hi Hx Hd Hl. cbn [dispatch] in Hd.
      exact (rc_rm e args s' Hd Hl).
    - (* commit *)
      apply rc_generic; [discriminate | exact Hstep|]. intros x s' Hi Hx Hd Hl.
      exact (rc_commit e msg _ Hi Hl).
    - (* branch *)
      left. refine (refused_branch_ops_unchanged e _ w w' tr _ _ _ Hstep); [exact Logic.I | |].
      + pose proof Hreach as Hr2. destruct Hr2 as (h & _ & Heq). rewrite Heq. apply blogs_cover_refs_run.
      + destruct (ConnectedFacts.reachable_connected w Hreach Hcoll Hsmall) as (Hrefs & _). exact Hrefs.
    - (* switch *)
      left. refine (refused_branch_ops_unchanged e _ w w' tr _ _ _ Hstep); [exact Logic.I | |].
      + pose proof Hreach as Hr2. destruct Hr2 as (h & _ & Heq). rewrite Heq. apply blogs_cover_refs_run.
      + destruct (ConnectedFacts.reachable_connected w Hreach Hcoll Hsmall) as (Hrefs & _). exact Hrefs.
    - (* reset *)
      apply rc_generic; [discriminate | exact Hstep|]. intros x s' Hi Hx Hd Hl. cbn [dispatch] in Hd.
      exact (rc_reset e x soft mixed hard args s' Hx Hd Hl).
    - (* restore *)
      apply rc_generic; [discriminate | exact Hstep|]. intros x s' Hi Hx Hd Hl. cbn [dispatch] in Hd.
      destruct staged; [exact (rc_restore_idx e x args s' Hx Hd Hl) | exact (rc_restore_wd e x args s' Hd Hl)].
  Qed.
End Reachable.

(* ================================================================== *)
(** * 8. The late refusals happen: closed computations *)

(* "refused => nothing written" is FALSE for commit, reset --hard, add, rm,
   restore and restore --staged, on repositories Goit itself produced; and for
   branch --rename / --delete, switch and commit-with-a-bad-HEAD on damaged
   repositories.  One run of each, with the real SHA-1. *)
Local Open Scope string_scope.

Definition lx_env : env := mkEnv 1700000000 32400.
Definition lx_cmd (c : cmd) : action := ACmd lx_env c.
Definition lx_show (x : world * outcome * list effect) : outcome * list bytes :=
  let '(w', o, tr) := x in
  (o, map (fun ef => match ef with
                     | EWriteFile q _ => (str "write " ++ q)%list
                     | EMkdirAll q => (str "mkdir " ++ q)%list
                     | ERemovePath q => (str "remove " ++ q)%list
                     | ESetRef _ _ => str "branch"
                     | EDelRef _ => str "delete-branch"
                     | ESetHead _ => str "HEAD"
                     | ESetIndex _ => str "index"
                     | EPutObj _ _ => str "object"
                     | _ => str "log"
                     end) tr).

(* a repository with one commit holding a, d/x and gone; a second branch *)
Definition lx_base : list action :=
  [ lx_cmd CInit;
    lx_cmd (CConfig false [str "user.name"; str "Ada L"]);
    lx_cmd (CConfig false [str "user.email"; str "ada@example.com"]);
    AEdit (UWrite (str "a") (str "one"));
    AEdit (UWrite (str "d/x") (str "dx"));
    AEdit (UWrite (str "gone") (str "g"));
    lx_cmd (CAdd [str "."]);
    lx_cmd (CCommit (str "c1"));
    lx_cmd (CBranch [str "side"] false [] []) ].

Lemma lx_reachable : forall extra,
  forallb ConnectedFacts.action_ok_b (lx_base ++ extra)%list = true ->
  Reachable (run (lx_base ++ extra)%list w_empty).
Proof.
  intros extra H. exists (lx_base ++ extra)%list. split; [|reflexivity].
  apply ConnectedFacts.action_ok_b_ok. exact H.
Qed.

Definition lx_live (w : world) : bool :=
  negb (w_coll w) && forallb (fun kv => N.ltb (lenN (snd kv)) (2 ^ 63)) (w_objs w).

(* (iii) add, a repeated argument: the first occurrence unstages the deleted
   file, the second finds nothing of that name any more *)
Definition lx_add_extra : list action := [AEdit (UDelete (str "gone"))].
Example lx_add_repeated :
  forallb ConnectedFacts.action_ok_b (lx_base ++ lx_add_extra)%list = true /\
  lx_live (run (lx_base ++ lx_add_extra)%list w_empty) = true /\
  lx_show (step (lx_cmd (CAdd [str "gone"; str "gone"])) (run (lx_base ++ lx_add_extra)%list w_empty))
  = (OErr, [str "index"]).
Proof. vm_compute. repeat split. Qed.

(* (i) commit, `config user.email ada` (no '@'): the two tree objects are
   written, then the commit text does not read back *)
Definition lx_commit_extra : list action :=
  [ lx_cmd (CConfig false [str "user.email"; str "ada"]);
    AEdit (UWrite (str "a") (str "two"));
    lx_cmd (CAdd [str "a"]) ].
Example lx_commit_bad_email :
  forallb ConnectedFacts.action_ok_b (lx_base ++ lx_commit_extra)%list = true /\
  lx_live (run (lx_base ++ lx_commit_extra)%list w_empty) = true /\
  lx_show (step (lx_cmd (CCommit (str "c2"))) (run (lx_base ++ lx_commit_extra)%list w_empty))
  = (OErr, [str "object"; str "object"]).
Proof. vm_compute. repeat split. Qed.

(* the same with `config user.name "Ada <L"` *)
Definition lx_commit_extra2 : list action :=
  [ lx_cmd (CConfig false [str "user.name"; str "Ada <L"]);
    AEdit (UWrite (str "a") (str "two"));
    lx_cmd (CAdd [str "a"]) ].
Example lx_commit_bad_name :
  lx_show (step (lx_cmd (CCommit (str "c2"))) (run (lx_base ++ lx_commit_extra2)%list w_empty))
  = (OErr, [str "object"; str "object"]).
Proof. vm_compute. reflexivity. Qed.

(* (ii) reset --hard, a file where the snapshot needs the directory d *)
Definition lx_blocked_extra : list action :=
  [ AEdit (URmTree (str "d")); AEdit (UWrite (str "d") (str "in the way")) ].
Example lx_reset_hard_blocked :
  forallb ConnectedFacts.action_ok_b (lx_base ++ lx_blocked_extra)%list = true /\
  lx_live (run (lx_base ++ lx_blocked_extra)%list w_empty) = true /\
  lx_show (step (lx_cmd (CReset false false true [str "HEAD@{0}"])) (run (lx_base ++ lx_blocked_extra)%list w_empty))
  = (OErr, [str "branch"; str "log"; str "log"; str "index"; str "write a"]).
Proof. vm_compute. repeat split. Qed.

(* restore, the same work tree: a is restored, d/x cannot be *)
Example lx_restore_blocked :
  lx_show (step (lx_cmd (CRestore false [str "a"; str "d/x"])) (run (lx_base ++ lx_blocked_extra)%list w_empty))
  = (OErr, [str "write a"]).
Proof. vm_compute. reflexivity. Qed.

(* rm, a non-empty directory where the tracked file d/x was *)
Definition lx_rm_extra : list action :=
  [ AEdit (URmTree (str "d")); AEdit (UWrite (str "d/x/y") (str "deep")) ].
Example lx_rm_blocked :
  forallb ConnectedFacts.action_ok_b (lx_base ++ lx_rm_extra)%list = true /\
  lx_live (run (lx_base ++ lx_rm_extra)%list w_empty) = true /\
  lx_show (step (lx_cmd (CRm [str "a"; str "d/x"])) (run (lx_base ++ lx_rm_extra)%list w_empty))
  = (OErr, [str "remove a"; str "index"]).
Proof. vm_compute. repeat split. Qed.

(* restore --staged, a repeated argument that HEAD does not have *)
Definition lx_staged_extra : list action :=
  [ AEdit (UWrite (str "n") (str "new")); lx_cmd (CAdd [str "n"]) ].
Example lx_restore_staged_repeated :
  forallb ConnectedFacts.action_ok_b (lx_base ++ lx_staged_extra)%list = true /\
  lx_live (run (lx_base ++ lx_staged_extra)%list w_empty) = true /\
  lx_show (step (lx_cmd (CRestore true [str "n"; str "n"])) (run (lx_base ++ lx_staged_extra)%list w_empty))
  = (OErr, [str "index"]).
Proof. vm_compute. repeat split. Qed.

(* on damaged repositories only (no history produces them): the log files
   of the branches removed by hand; a branch file holding an id that is no commit;
   HEAD holding a name with a slash *)
Example lx_branch_delete_no_log :
  lx_show (step (lx_cmd (CBranch [] false [] (str "side"))) (set_blogs (run lx_base w_empty) []))
  = (OErr, [str "delete-branch"]).
Proof. vm_compute. reflexivity. Qed.
Example lx_branch_rename_no_log :
  lx_show (step (lx_cmd (CBranch [] false (str "trunk") [])) (set_blogs (run lx_base w_empty) []))
  = (OErr, [str "branch"; str "HEAD"; str "delete-branch"; str "log"; str "log"]).
Proof. vm_compute. reflexivity. Qed.
Example lx_switch_not_a_commit :
  lx_show (step (lx_cmd (CSwitch [str "ghost"] []))
             (set_refs (run lx_base w_empty) (am_set (w_refs (run lx_base w_empty)) (str "ghost") (repeat x00 20))))
  = (OErr, [str "HEAD"]).
Proof. vm_compute. reflexivity. Qed.
Example lx_commit_bad_head :
  lx_show (step (lx_cmd (CCommit (str "c")))
             (set_head (run [ lx_cmd CInit;
                              lx_cmd (CConfig false [str "user.name"; str "Ada L"]);
                              lx_cmd (CConfig false [str "user.email"; str "ada@example.com"]);
                              AEdit (UWrite (str "a") (str "one"));
                              lx_cmd (CAdd [str "a"]) ] w_empty) (str "a/b")))
  = (OErr, [str "object"; str "object"]).
Proof. vm_compute. reflexivity. Qed.

(* `log` before the first commit, and `log -n 0` / `log -n -3` after it *)
Example lx_log_corners :
  lx_show (step (lx_cmd (CLog 5)) (run [lx_cmd CInit] w_empty)) = (OErr, []) /\
  lx_show (step (lx_cmd (CLog 0)) (run lx_base w_empty)) = (OOk [], []) /\
  lx_show (step (lx_cmd (CLog (-3))) (run lx_base w_empty)) = (OOk [], []) /\
  (match fst (lx_show (step (lx_cmd (CLog 1)) (run lx_base w_empty))) with OOk [_] => true | _ => false end) = true.
Proof. vm_compute. repeat split. Qed.

(* the first of these runs, read through [refusal_cases_reachable] *)
Lemma lx_live_ok : forall w, lx_live w = true -> w_coll w = false /\ SnapshotFacts.SmallStore (w_objs w).
Proof.
  intros w H. unfold lx_live in H. apply andb_true_iff in H. destruct H as [Hc Hs].
  split; [destruct (w_coll w); [discriminate Hc | reflexivity] | apply SnapshotFacts.small_store_b; exact Hs].
Qed.

Example lx_add_repeated_is_listed :
  exists w' tr,
    step (lx_cmd (CAdd [str "gone"; str "gone"])) (run (lx_base ++ lx_add_extra)%list w_empty) = (w', OErr, tr) /\
    tr <> [] /\
    late_refusal lx_env (run (lx_base ++ lx_add_extra)%list w_empty) (CAdd [str "gone"; str "gone"]) tr /\
    reachable_cause lx_env (run (lx_base ++ lx_add_extra)%list w_empty) (CAdd [str "gone"; str "gone"]) tr.
Proof.
  destruct lx_add_repeated as (Hok & Hlive & Hshow).
  set (w := run (lx_base ++ lx_add_extra)%list w_empty) in *.
  destruct (step (lx_cmd (CAdd [str "gone"; str "gone"])) w) as [[w' o] tr] eqn:Hs.
  cbn [lx_show] in Hshow. injection Hshow as Ho Htr. subst o.
  exists w', tr. split; [reflexivity|].
  assert (Hne : tr <> []) by (intros ->; discriminate Htr).
  split; [exact Hne|].
  destruct (lx_live_ok w Hlive) as [Hc Hsm].
  destruct (refusal_cases_reachable w (lx_reachable lx_add_extra Hok) Hc Hsm lx_env _ w' tr Hs) as [[Ht _]|H];
    [contradiction | exact H].
Qed.

(* ================================================================== *)
Print Assumptions readonly_step.
Print Assumptions run_cmd_readonly.
Print Assumptions refused_unchanged_all.
Print Assumptions config_malformed_refused.
Print Assumptions config_refused_iff_malformed.
Print Assumptions refusal_cases.
Print Assumptions restore_wd_ok_trace.
Print Assumptions reset_hard_ok_trace.
Print Assumptions late_refusal_not_early.
Print Assumptions late_refusal_nonempty.
Print Assumptions late_commit_frame.
Print Assumptions late_commit_text_trees.
Print Assumptions late_commit_text_identity.
Print Assumptions late_reset_frame.
Print Assumptions late_add_frame.
Print Assumptions late_rm_frame.
Print Assumptions late_restore_frame.
Print Assumptions late_branch_switch_frame.
Print Assumptions refusal_cases_reachable.
Print Assumptions log_step.
Print Assumptions log_never_writes.
Print Assumptions log_never_writes_fault.
Print Assumptions log_no_commit_refused.
Print Assumptions log_unborn_branch_refused.
Print Assumptions log_nonpositive.
Print Assumptions log_nonpositive_any_world.
Print Assumptions lx_add_repeated.
Print Assumptions lx_commit_bad_email.
Print Assumptions lx_reset_hard_blocked.
Print Assumptions lx_add_repeated_is_listed.
