(* Reflog.v — log record lines (internal/log/logger.go) and their reader
   (internal/store/reflog.go, after the SplitN / zero-id repairs). *)
From Coq Require Import Strings.String Strings.Byte.
From Coq Require Import List Bool NArith ZArith.
From Goit Require Import Bytes Sha1 Obj.
Import ListNotations.
Local Open Scope N_scope.

Inductive rtype := RCommit | RCheckout | RBranch | RReset.
Definition rtype_eqb (a b : rtype) : bool :=
  match a, b with
  | RCommit, RCommit | RCheckout, RCheckout | RBranch, RBranch | RReset, RReset => true
  | _, _ => false
  end.
Definition rtype_s (t : rtype) : bytes :=
  match t with
  | RCommit => str "commit"%string | RCheckout => str "checkout"%string
  | RBranch => str "branch"%string | RReset => str "reset"%string
  end.
Definition rtype_of_s (s : bytes) : option rtype :=
  if bytes_eqb s (str "commit"%string) then Some RCommit
  else if bytes_eqb s (str "checkout"%string) then Some RCheckout
  else if bytes_eqb s (str "branch"%string) then Some RBranch
  else if bytes_eqb s (str "reset"%string) then Some RReset
  else None.

Definition zero_hex : bytes := repeat x30 40.

(* fmt "%+03d" and "%02d" of an integer *)
Definition fmt_plus03 (z : Z) : bytes :=
  let a := Z.to_N (Z.abs z) in
  (if Z.ltb z 0 then [x2d] else [x2b]) ++ (if N.ltb a 10 then x30 :: dec a else dec a).
Definition fmt_02 (z : Z) : bytes :=
  let a := Z.to_N (Z.abs z) in
  if Z.ltb z 0 then x2d :: dec a else (if N.ltb a 10 then x30 :: dec a else dec a).

(* NewRecord's timeDiff: offset in seconds -> minutes, then hours and minutes
   by Go's truncating division *)
Definition log_tz (off : Z) : bytes :=
  let m := Z.quot off 60 in
  fmt_plus03 (Z.quot m 60) ++ fmt_02 (Z.rem m 60).

Definition dec_z (t : Z) : bytes := if Z.ltb t 0 then x2d :: dec (Z.to_N (- t)) else dec (Z.to_N t).

(* record.String *)
Definition log_line (from to : option bytes) (name email : bytes) (t off : Z)
                    (ty : rtype) (msg : bytes) : bytes :=
  (match from with Some h => hex h | None => zero_hex end) ++ [c_sp]
  ++ (match to with Some h => hex h | None => zero_hex end) ++ [c_sp]
  ++ name ++ [c_sp; x3c] ++ email ++ [x3e; c_sp] ++ dec_z t ++ [c_sp] ++ log_tz off
  ++ [c_tab] ++ rtype_s ty ++ [x3a; c_sp] ++ msg ++ [c_nl].

Record lrec := mkRec { r_id : option bytes; r_type : rtype; r_msg : bytes }.

(* Reflog.load on one line: None = the whole load fails, Some None = the
   line is skipped *)
Definition parse_log_line (l : bytes) : option (option lrec) :=
  match split1 c_sp l with
  | (_, None) => Some None
  | (_, Some r1) =>
    match split1 c_sp r1 with
    | (_, None) => Some None
    | (to, Some rest) =>
      let hid :=
        if bytes_eqb to zero_hex then Some None
        else match read_hash to with Some h => Some (Some h) | None => None end in
      match hid with
      | None => None
      | Some id =>
        match split1 c_tab rest with
        | (_, None) => Some None
        | (_, Some tail) =>
          match split1s [x3a; c_sp] tail with
          | (_, None) => Some None
          | (ty, Some msg) =>
            match rtype_of_s ty with
            | Some t => Some (Some (mkRec id t msg))
            | None => Some None
            end
          end
        end
      end
    end
  end.

Fixpoint parse_log_lines (ls : list bytes) : option (list lrec) :=
  match ls with
  | [] => Some []
  | l :: r =>
    match parse_log_line l, parse_log_lines r with
    | Some (Some x), Some xs => Some (x :: xs)
    | Some None, Some xs => Some xs
    | _, _ => None
    end
  end.
Definition parse_reflog (b : bytes) : option (list lrec) := parse_log_lines (scan_lines b).

(* Reflog.GetRecord: position 0 is the newest record *)
Definition get_record (rs : list lrec) (n : nat) : option lrec :=
  if Nat.leb (length rs) n then None else nth_error rs (length rs - 1 - n).

(* Reflog.Show, projected: (short id, position, type, message), newest first *)
Definition short_id (o : option bytes) : bytes :=
  match o with Some h => firstn 7 (hex h) | None => repeat x30 7 end.
Fixpoint number_from {A} (i : nat) (l : list A) : list (nat * A) :=
  match l with [] => [] | x :: r => (i, x) :: number_from (S i) r end.
Definition show_reflog (rs : list lrec) : list (bytes * nat * rtype * bytes) :=
  map (fun '(i, r) => (short_id (r_id r), i, r_type r, r_msg r)) (number_from 0 (rev rs)).

(* first line of a commit message (what commit() logs after the repair) *)
Definition first_line (msg : bytes) : bytes := fst (split1 c_nl msg).
