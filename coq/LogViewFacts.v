(* LogViewFacts.v — the fields `log` shows are the fields that were written.
   Proofs about LogView.v. *)
From Coq Require Import Strings.String Strings.Byte.
From Coq Require Import List Bool NArith ZArith Arith Lia.
From Goit Require Import Bytes Sha1 Obj Tree Index Regex GoRegex Commit Reflog Config Ignore World Repo.
From Goit Require Import BytesFacts RegexFacts ObjFacts IndexFacts TreeFacts CommitFacts DiffFacts MonadFacts Inv.
From Goit Require Import BranchFacts ExactFacts TotalFacts.
From Goit Require Import CommitFacts LogFacts CommitCmdFacts ObjCmdFacts ChainFacts LogView.
Import ListNotations.

(* every commit of a parent chain has an entry, and it is the stored commit's *)
Theorem chain_entries : forall st tip l,
  chain st tip l ->
  Forall (fun id => exists c, get_commit st id = Some c /\
                              log_entry st id = Some (hex id, c_author c, c_msg c)) l.
Proof.
  intros st tip l Hch.
  induction Hch as [id c Hget Hpar | id c p l0 Hget Hpar Hch IH].
  - constructor; [|constructor]. exists c. split; [exact Hget|]. unfold log_entry. rewrite Hget. reflexivity.
  - constructor; [|exact IH]. exists c. split; [exact Hget|]. unfold log_entry. rewrite Hget. reflexivity.
Qed.

(* the entry depends on the stored commit object only *)
Theorem log_entry_stable : forall h w id v,
  log_entry (w_objs w) id = Some v ->
  w_coll (run h w) = false ->
  log_entry (w_objs (run h w)) id = Some v.
Proof.
  intros h w id v He Hc. unfold log_entry, get_commit, get_kind in *.
  destruct (get_obj (w_objs w) id) as [[k d]|] eqn:Hg; [|discriminate].
  rewrite (objects_never_lost h w id (k, d) Hg Hc). exact He.
Qed.

(* what is read back from the commit text commit() formats: the name, e-mail,
   instant and UTC offset of the author and the message, exactly as given *)
Theorem log_entry_of_commit_text : forall st id tree parent na ea ta oa nc ec tc oc msg,
  get_kind st KCommit id
  = Some (commit_text tree (option_map hex parent) (sign_string na ea ta oa) (sign_string nc ec tc oc) msg) ->
  length tree = 20%nat -> (forall p, parent = Some p -> length p = 20%nat) ->
  sign_ok na ea ta oa -> sign_ok nc ec tc oc ->
  log_entry st id = Some (hex id, Some (mkSign na ea ta oa), msg).
Proof.
  intros st id tree parent na ea ta oa nc ec tc oc msg Hg Ht Hp Ha Hc.
  unfold log_entry, get_commit. rewrite Hg.
  rewrite (commit_roundtrip tree parent na ea ta oa nc ec tc oc msg Ht Hp Ha Hc). reflexivity.
Qed.

(* the commit a successful `commit` wrote shows the configured identity, the
   clock reading and zone offset of that moment and the message given *)
Theorem log_entry_after_commit : forall e c msg w root subs,
  Forall valid_entry (idx_of w) ->
  write_tree_top (idx_of w) = Some (root, subs) ->
  (forall d, In d (subs ++ [root]) -> (lenN d < 2 ^ 63)%N) ->
  (lenN (commit_data e c msg w root) < 2 ^ 63)%N ->
  sign_ok (user_name (x_l c) (x_g c)) (user_email (x_l c) (x_g c)) (e_time e) (e_off e) ->
  (forall tip, tip_of w = Some tip -> length tip = 20%nat) ->
  head_ok w c ->
  log_entry (w_objs (after_commit e c msg w root subs)) (commit_id e c msg w root)
  = Some (hex (commit_id e c msg w root),
          Some (mkSign (user_name (x_l c) (x_g c)) (user_email (x_l c) (x_g c)) (e_time e) (e_off e)),
          msg).
Proof.
  intros e c msg w root subs Hv Hw Hsz Hszc Hs Htip Hh.
  destruct (commit_spec_ok e c msg w root subs Hv Hw Hsz Hszc Hs Htip Hh) as (_ & Hpost & _).
  unfold log_entry. rewrite (cp_commit _ _ _ _ _ _ _ Hpost). reflexivity.
Qed.

(* ... and keeps showing them after any later history *)
Corollary log_entry_after_commit_for_ever : forall e c msg w root subs h,
  Forall valid_entry (idx_of w) ->
  write_tree_top (idx_of w) = Some (root, subs) ->
  (forall d, In d (subs ++ [root]) -> (lenN d < 2 ^ 63)%N) ->
  (lenN (commit_data e c msg w root) < 2 ^ 63)%N ->
  sign_ok (user_name (x_l c) (x_g c)) (user_email (x_l c) (x_g c)) (e_time e) (e_off e) ->
  (forall tip, tip_of w = Some tip -> length tip = 20%nat) ->
  head_ok w c ->
  w_coll (run h (after_commit e c msg w root subs)) = false ->
  log_entry (w_objs (run h (after_commit e c msg w root subs))) (commit_id e c msg w root)
  = Some (hex (commit_id e c msg w root),
          Some (mkSign (user_name (x_l c) (x_g c)) (user_email (x_l c) (x_g c)) (e_time e) (e_off e)),
          msg).
Proof.
  intros e c msg w root subs h Hv Hw Hsz Hszc Hs Htip Hh Hc.
  apply log_entry_stable; [|exact Hc].
  apply log_entry_after_commit; assumption.
Qed.

Lemma in_firstn : forall (A : Type) n (l : list A) x, In x (firstn n l) -> In x l.
Proof.
  intros A n. induction n as [|n IH]; intros l x Hin; [destruct Hin|].
  destruct l as [|a l]; [destruct Hin|]. destruct Hin as [->|Hin]; [left; reflexivity|right; apply IH; exact Hin].
Qed.

(* every line `log` prints on a reachable repository has an entry *)
Theorem log_lines_have_entries : forall h e x tip cm n,
  w_coll (run h w_empty) = false -> w_inited (run h w_empty) = true ->
  ctx_of (run h w_empty) = Some x -> x_headc x = Some (tip, cm) ->
  exists l, chain (w_objs (run h w_empty)) tip l /\ NoDup l /\
    step (ACmd e (CLog n)) (run h w_empty) = (run h w_empty, OOk (map hex (firstn (Z.to_nat n) l)), []) /\
    Forall (fun id => exists c, get_commit (w_objs (run h w_empty)) id = Some c /\
              log_entry (w_objs (run h w_empty)) id = Some (hex id, c_author c, c_msg c))
           (firstn (Z.to_nat n) l).
Proof.
  intros h e x tip cm n Hc Hi Hx Hh.
  destruct (step_log_on_reachable h e x tip cm n Hc Hi Hx Hh) as (l & Hch & Hnd & Hst).
  exists l. repeat split; try assumption.
  pose proof (chain_entries _ _ _ Hch) as HF.
  rewrite Forall_forall in *. intros id Hin. apply HF. eapply in_firstn; exact Hin.
Qed.
