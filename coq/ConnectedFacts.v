(* ConnectedFacts.v — C03 "the repository never references something that is
   not there", and from it C15/C16 (crash and fault consistency) at the level
   of the model's effects.

   Shape of the development
   0.  small libraries (association maps, store order, split_all, config).
   A.  [GoodNH] / [HeadOk] : the inductive strengthening of [Connected];
       [Gc] : what each effect must satisfy; [Inv_step] : every effect that
       satisfies [Gc] preserves the invariant.
   B.  every command only emits effects satisfying [Gc] ([run_cmd_conn]).
   C.  the theorems about [step], [run], prefixes of traces, injected faults,
       the (closed) K8 crash window of [branch --rename], and the counterexamples that
       show why the hypotheses are needed.

   Two situations are excluded, both flagged by a predicate on the FINAL
   world that is sticky ([Bad]): a SHA-1 collision met by a write
   ([w_coll]), and an object file of 2^63 bytes or more (Goit's header reader
   uses a signed 64-bit size: such an object cannot be read back, see
   [payload_too_big]). *)
From Coq Require Import Strings.String Strings.Byte.
From Coq Require Import List Bool NArith ZArith Arith Lia.
From Goit Require Import Bytes Sha1 Obj Tree Index Regex GoRegex Commit Reflog Config Ignore World Repo Inv.
From Goit Require Import BytesFacts ObjFacts TreeFacts IndexFacts CommitFacts MonadFacts.
Import ListNotations.

#[local] Arguments sha1 : simpl never.
#[local] Arguments obj_id : simpl never.
#[local] Arguments payload : simpl never.
#[local] Arguments header : simpl never.
#[local] Arguments tree_line : simpl never.

(* ================================================================== *)
(** * 0. Libraries *)

(** ** association maps (no sortedness is assumed anywhere) *)
Section AmFacts.
  Context {V : Type}.
  Implicit Types m : amap V.

  Lemma am_get_In : forall m k v, am_get m k = Some v -> In (k, v) m.
  Proof.
    induction m as [|[k' v'] r IH]; intros k v H; cbn [am_get] in H.
    - discriminate H.
    - destruct (bytes_eqb k' k) eqn:E.
      + apply bytes_eqb_eq in E. injection H as Hv. subst. left. reflexivity.
      + right. apply IH. exact H.
  Qed.

  Lemma am_set_In : forall m k v kv, In kv (am_set m k v) -> kv = (k, v) \/ In kv m.
  Proof.
    induction m as [|[k' v'] r IH]; intros k v kv H; cbn [am_set] in H.
    - destruct H as [H|[]]. left. symmetry. exact H.
    - destruct (bytes_eqb k' k) eqn:E.
      + destruct H as [H|H]; [left; symmetry; exact H | right; right; exact H].
      + destruct (blt k k') eqn:Eb.
        * destruct H as [H|H]; [left; symmetry; exact H | right; exact H].
        * destruct H as [H|H]; [right; left; exact H|].
          destruct (IH _ _ _ H) as [H1|H1]; [left; exact H1 | right; right; exact H1].
  Qed.

  Lemma am_del_In : forall m k kv, In kv (am_del m k) -> In kv m.
  Proof.
    induction m as [|[k' v'] r IH]; intros k kv H; cbn [am_del] in H.
    - destruct H.
    - destruct (bytes_eqb k' k) eqn:E.
      + right. exact H.
      + destruct H as [H|H]; [left; exact H | right; apply (IH _ _ H)].
  Qed.

  Lemma am_get_set_same : forall m k v, am_get (am_set m k v) k = Some v.
  Proof.
    induction m as [|[k' v'] r IH]; intros k v; cbn [am_set].
    - cbn [am_get]. rewrite bytes_eqb_refl. reflexivity.
    - destruct (bytes_eqb k' k) eqn:E.
      + cbn [am_get]. rewrite bytes_eqb_refl. reflexivity.
      + destruct (blt k k') eqn:Eb.
        * cbn [am_get]. rewrite bytes_eqb_refl. reflexivity.
        * cbn [am_get]. rewrite E. apply IH.
  Qed.

  Lemma am_get_set_other : forall m k v q, q <> k -> am_get (am_set m k v) q = am_get m q.
  Proof.
    induction m as [|[k' v'] r IH]; intros k v q Hne; cbn [am_set].
    - cbn [am_get]. assert (E : bytes_eqb k q = false) by (apply bytes_eqb_neq; congruence).
      rewrite E. reflexivity.
    - assert (Ekq : bytes_eqb k q = false) by (apply bytes_eqb_neq; congruence).
      destruct (bytes_eqb k' k) eqn:E.
      + apply bytes_eqb_eq in E. subst k'. cbn [am_get]. rewrite Ekq. reflexivity.
      + destruct (blt k k') eqn:Eb.
        * cbn [am_get]. rewrite Ekq. reflexivity.
        * cbn [am_get]. destruct (bytes_eqb k' q); [reflexivity | apply IH; exact Hne].
  Qed.

  Lemma am_get_del_other : forall m k q, q <> k -> am_get (am_del m k) q = am_get m q.
  Proof.
    induction m as [|[k' v'] r IH]; intros k q Hne; cbn [am_del].
    - reflexivity.
    - destruct (bytes_eqb k' k) eqn:E.
      + apply bytes_eqb_eq in E. subst k'. cbn [am_get].
        assert (Ekq : bytes_eqb k q = false) by (apply bytes_eqb_neq; congruence).
        rewrite Ekq. reflexivity.
      + cbn [am_get]. destruct (bytes_eqb k' q); [reflexivity | apply IH; exact Hne].
  Qed.

  Lemma am_set_not_nil : forall m k v, am_set m k v <> [].
  Proof.
    intros [|[k' v'] r] k v; cbn [am_set].
    - discriminate.
    - destruct (bytes_eqb k' k); [discriminate|]. destruct (blt k k'); discriminate.
  Qed.

  Lemma am_mem_true : forall m k, am_mem m k = true <-> exists v, am_get m k = Some v.
  Proof.
    intros m k. unfold am_mem. destruct (am_get m k) as [v|].
    - split; [intros _; exists v; reflexivity | reflexivity].
    - split; [intro H; discriminate H | intros [v H]; discriminate H].
  Qed.

  Lemma am_mem_not_nil : forall m k, am_mem m k = true -> m <> [].
  Proof. intros m k H ->. discriminate H. Qed.
End AmFacts.

(** ** the order "every readable object stays readable, unchanged" *)
Definition store_le (st st' : store) : Prop :=
  forall id kd, get_obj st id = Some kd -> get_obj st' id = Some kd.

Lemma store_le_refl : forall st, store_le st st.
Proof. intros st id kd H. exact H. Qed.

Lemma get_kind_iff : forall st k id d, get_kind st k id = Some d <-> get_obj st id = Some (k, d).
Proof.
  intros st k id d. unfold get_kind. destruct (get_obj st id) as [[k' d']|].
  - destruct (kind_eqb k k') eqn:E.
    + apply kind_eqb_eq in E. subst k'. split; intro H; injection H as H; subst; reflexivity.
    + split; intro H; [discriminate H|]. injection H as Hk Hd. subst.
      assert (X : kind_eqb k k = true) by (apply kind_eqb_eq; reflexivity).
      rewrite X in E. discriminate E.
  - split; intro H; discriminate H.
Qed.

Lemma get_kind_le : forall st st' k id d, store_le st st' ->
  get_kind st k id = Some d -> get_kind st' k id = Some d.
Proof. intros st st' k id d Hle H. apply get_kind_iff. apply Hle. apply get_kind_iff. exact H. Qed.

Lemma get_commit_le : forall st st' id c, store_le st st' ->
  get_commit st id = Some c -> get_commit st' id = Some c.
Proof.
  intros st st' id c Hle H. unfold get_commit in *.
  destruct (get_kind st KCommit id) as [d|] eqn:E; [|discriminate H].
  rewrite (get_kind_le _ _ _ _ _ Hle E). exact H.
Qed.

Lemma blob_ok_le : forall st st' id, store_le st st' -> blob_ok st id -> blob_ok st' id.
Proof. intros st st' id Hle [d H]. exists d. apply (get_kind_le _ _ _ _ _ Hle H). Qed.
Lemma tree_ok_le : forall st st' id, store_le st st' -> tree_ok st id -> tree_ok st' id.
Proof. intros st st' id Hle [d H]. exists d. apply (get_kind_le _ _ _ _ _ Hle H). Qed.
Lemma commit_ok_le : forall st st' id, store_le st st' -> commit_ok st id -> commit_ok st' id.
Proof. intros st st' id Hle [c H]. exists c. apply (get_commit_le _ _ _ _ Hle H). Qed.

(* writing without a collision only adds *)
Lemma put_le : forall st id p, st_collides st id p = false -> store_le st (st_set st id p).
Proof.
  intros st id p Hc i kd H. unfold get_obj in *.
  destruct (st_lookup st i) as [q|] eqn:El; [|discriminate H].
  rewrite (st_set_keeps st id p i q Hc El). exact H.
Qed.

Lemma lookup_put_inv : forall st id p i q,
  st_collides st id p = false -> st_lookup (st_set st id p) i = Some q ->
  (i = id /\ q = p) \/ st_lookup st i = Some q.
Proof.
  intros st id p i q Hc H. destruct (bytes_eq_dec i id) as [->|Hne].
  - rewrite st_lookup_set_same in H. injection H as <-. left. split; reflexivity.
  - rewrite st_lookup_set_other in H by exact Hne. right. exact H.
Qed.

Lemma get_obj_put_inv : forall st id p i kd,
  st_collides st id p = false -> get_obj (st_set st id p) i = Some kd ->
  (i = id /\ sha1 p = id /\ parse_payload p = Some kd) \/ get_obj st i = Some kd.
Proof.
  intros st id p i kd Hc H. destruct kd as [k d].
  destruct (get_obj_integrity _ _ _ _ H) as (q & Hl & Hs & Hp).
  destruct (lookup_put_inv _ _ _ _ _ Hc Hl) as [[-> ->]|Hl'].
  - left. split; [reflexivity|]. split; assumption.
  - right. apply (get_obj_intro _ _ q); assumption.
Qed.

Lemma lenN_payload : forall k d, (lenN d <= lenN (payload k d))%N.
Proof. intros k d. unfold lenN, payload. rewrite app_length. lia. Qed.

(** ** [split_all] and valid paths *)
Lemma split_all_not_nil : forall sep s, split_all sep s <> [].
Proof.
  intros sep s. destruct s as [|c r]; cbn [split_all]; [discriminate|].
  destruct (beqb c sep); [discriminate|]. destruct (split_all sep r); discriminate.
Qed.

Lemma split_all_app_sep : forall sep a b,
  split_all sep (a ++ sep :: b) = split_all sep a ++ split_all sep b.
Proof.
  intros sep a b. induction a as [|c a IH].
  - cbn [app split_all]. rewrite beqb_refl. reflexivity.
  - cbn [app split_all]. destruct (beqb c sep).
    + rewrite IH. reflexivity.
    + rewrite IH. pose proof (split_all_not_nil sep a) as Hn.
      destruct (split_all sep a) as [|h t]; [contradiction|]. reflexivity.
Qed.

Lemma valid_path_comp : forall n, valid_comp n -> valid_path n.
Proof.
  intros n Hn. unfold valid_path. rewrite tf_split_all_split1.
  destruct Hn as (Hne & Hsl & Hnul). rewrite (tf_split1_none c_slash n Hsl).
  constructor; [|constructor]. repeat split; assumption.
Qed.

Lemma valid_path_join : forall root n,
  (root = [] \/ valid_path root) -> valid_comp n -> valid_path (join_path root n).
Proof.
  intros root n Hr Hn. destruct root as [|c root].
  - apply valid_path_comp. exact Hn.
  - destruct Hr as [Hr|Hr]; [discriminate Hr|].
    cbn [join_path]. change ((c :: root) ++ [c_slash] ++ n) with ((c :: root) ++ c_slash :: n).
    unfold valid_path. rewrite split_all_app_sep. apply Forall_app. split; [exact Hr|].
    apply valid_path_comp. exact Hn.
Qed.

Lemma valid_path_cons : forall d rest, valid_comp d -> valid_path rest -> valid_path (d ++ c_slash :: rest).
Proof.
  intros d rest Hd Hr. unfold valid_path. rewrite split_all_app_sep. apply Forall_app.
  split; [apply valid_path_comp; exact Hd | exact Hr].
Qed.

(** ** the staging area: membership after an update *)
Lemma sort_entries_In : forall es x, In x (sort_entries es) <-> In x es.
Proof.
  induction es as [|e es IH]; intro x; cbn [sort_entries fold_right].
  - tauto.
  - fold (sort_entries es). rewrite insert_sorted_In, IH. cbn [In]. intuition congruence.
Qed.

Lemma idx_update_mem : forall es id p es' x,
  idx_update es id p = Some es' -> In x es' -> x = mkE id p \/ In x es.
Proof.
  intros es id p es' x H Hin. unfold idx_update in H.
  destruct (get_entry es p) as [[pos e]|].
  - destruct (bytes_eqb (e_id e) id); [discriminate H|]. injection H as <-.
    apply (proj1 (sort_entries_In _ _)) in Hin. apply in_app_or in Hin. destruct Hin as [Hin|[Hin|[]]].
    + right. apply (remove_nth_In _ _ _ _ Hin).
    + left. symmetry. exact Hin.
  - injection H as <-. apply (proj1 (sort_entries_In _ _)) in Hin. apply in_app_or in Hin.
    destruct Hin as [Hin|[Hin|[]]]; [right; exact Hin | left; symmetry; exact Hin].
Qed.

Lemma idx_delete_mem : forall es p es' x, idx_delete es p = Some es' -> In x es' -> In x es.
Proof.
  intros es p es' x H Hin. unfold idx_delete in H.
  destruct (get_entry es p) as [[pos e]|]; [|discriminate H]. injection H as <-.
  apply (remove_nth_In _ _ _ _ Hin).
Qed.

Lemma get_entry_In : forall es p i e, get_entry es p = Some (i, e) -> In e es /\ e_path e = p.
Proof.
  intros es p i e H. destruct (get_entry_sound _ _ _ _ H) as [Hn Hp].
  split; [apply (nth_error_In _ _ Hn) | exact Hp].
Qed.

(** ** config: no value that the loader produces contains a newline *)
Definition cfg_nonl (c : cfg) : Prop :=
  Forall (fun sm => Forall (fun kv => ~ In c_nl (snd kv)) (snd sm)) c.

Lemma kv_set_nonl : forall m k v, Forall (fun kv : bytes * bytes => ~ In c_nl (snd kv)) m -> ~ In c_nl v ->
  Forall (fun kv : bytes * bytes => ~ In c_nl (snd kv)) (kv_set m k v).
Proof.
  induction m as [|[k' v'] r IH]; intros k v Hm Hv; cbn [kv_set].
  - constructor; [exact Hv | constructor].
  - inversion Hm as [|? ? H1 H2]; subst. destruct (bytes_eqb k' k).
    + constructor; [exact Hv | exact H2].
    + constructor; [exact H1 | apply IH; assumption].
Qed.

Lemma sec_set_nonl : forall c s m, cfg_nonl c -> Forall (fun kv : bytes * bytes => ~ In c_nl (snd kv)) m ->
  cfg_nonl (sec_set c s m).
Proof.
  induction c as [|[s' m'] r IH]; intros s m Hc Hm; cbn [sec_set].
  - constructor; [exact Hm | constructor].
  - inversion Hc as [|? ? H1 H2]; subst. destruct (bytes_eqb s' s).
    + constructor; [exact Hm | exact H2].
    + constructor; [exact H1 | apply IH; assumption].
Qed.

Lemma sec_get_nonl : forall c s m, cfg_nonl c -> sec_get c s = Some m ->
  Forall (fun kv : bytes * bytes => ~ In c_nl (snd kv)) m.
Proof.
  induction c as [|[s' m'] r IH]; intros s m Hc H; cbn [sec_get] in H.
  - discriminate H.
  - inversion Hc as [|? ? H1 H2]; subst. destruct (bytes_eqb s' s).
    + injection H as <-. exact H1.
    + apply (IH _ _ H2 H).
Qed.

Lemma kv_get_nonl : forall m k v, Forall (fun kv : bytes * bytes => ~ In c_nl (snd kv)) m ->
  kv_get m k = Some v -> ~ In c_nl v.
Proof.
  induction m as [|[k' v'] r IH]; intros k v Hm H; cbn [kv_get] in H.
  - discriminate H.
  - inversion Hm as [|? ? H1 H2]; subst. destruct (bytes_eqb k' k).
    + injection H as <-. exact H1.
    + apply (IH _ _ H2 H).
Qed.

Lemma trim_left_incl : forall s c, In c (trim_left s) -> In c s.
Proof.
  induction s as [|x r IH]; intros c H; cbn [trim_left] in H.
  - exact H.
  - destruct (is_space x); [right; apply IH; exact H | exact H].
Qed.

Lemma trim_space_incl : forall s c, In c (trim_space s) -> In c s.
Proof.
  intros s c H. unfold trim_space in H. apply in_rev in H. apply trim_left_incl in H.
  apply in_rev in H. apply trim_left_incl in H. exact H.
Qed.

Lemma split1_incl : forall sep s a ob, split1 sep s = (a, ob) ->
  (forall c, In c a -> In c s) /\ (forall b, ob = Some b -> forall c, In c b -> In c s).
Proof.
  intros sep s. induction s as [|x r IH]; intros a ob H; cbn [split1] in H.
  - injection H as <- <-. split; [auto|]. intros b Hb. discriminate Hb.
  - destruct (beqb x sep).
    + injection H as <- <-. split; [intros c []|]. intros b Hb c Hc. injection Hb as <-. right. exact Hc.
    + destruct (split1 sep r) as [a' ob'] eqn:E. injection H as <- <-.
      destruct (IH _ _ eq_refl) as [H1 H2]. split.
      * intros c [Hc|Hc]; [left; exact Hc | right; apply H1; exact Hc].
      * intros b Hb c Hc. right. apply (H2 b Hb c Hc).
Qed.

Lemma drop_cr_incl : forall l c, In c (drop_cr l) -> In c l.
Proof.
  intros l c H. unfold drop_cr in H. destruct (rev l) as [|x r] eqn:E; [exact H|].
  destruct (beqb x c_cr); [|exact H].
  apply in_rev. rewrite E. right. apply (proj2 (in_rev r c)) in H. exact H.
Qed.

Lemma scan_lines_aux_no_nl : forall s cur l,
  ~ In c_nl cur -> In l (scan_lines_aux cur s) -> ~ In c_nl l.
Proof.
  induction s as [|c r IH]; intros cur l Hcur Hin; cbn [scan_lines_aux] in Hin.
  - destruct cur as [|x cur']; [destruct Hin|]. destruct Hin as [<-|[]].
    intro H. apply drop_cr_incl in H. apply in_rev in H. exact (Hcur H).
  - destruct (beqb c c_nl) eqn:E.
    + destruct Hin as [<-|Hin].
      * intro H. apply drop_cr_incl in H. apply in_rev in H. exact (Hcur H).
      * apply (IH [] l); [intros [] | exact Hin].
    + apply (IH (c :: cur) l); [|exact Hin]. apply beqb_neq in E.
      intros [H|H]; [apply E; exact H | exact (Hcur H)].
Qed.

Lemma scan_lines_no_nl : forall s l, In l (scan_lines s) -> ~ In c_nl l.
Proof. intros s l H. apply (scan_lines_aux_no_nl s [] l); [intros [] | exact H]. Qed.

Lemma remove_tabs_incl : forall s c, In c (remove_tabs s) -> In c s.
Proof. intros s c H. unfold remove_tabs in H. apply filter_In in H. apply H. Qed.

Lemma cfg_load_lines_nonl : forall ls c cur c',
  (forall l, In l ls -> ~ In c_nl l) -> cfg_nonl c ->
  cfg_load_lines ls c cur = Some c' -> cfg_nonl c'.
Proof.
  induction ls as [|l r IH]; intros c cur c' Hls Hc H; cbn [cfg_load_lines] in H.
  - injection H as <-. exact Hc.
  - assert (Hr : forall l0, In l0 r -> ~ In c_nl l0) by (intros l0 H0; apply Hls; right; exact H0).
    assert (Hl : ~ In c_nl l) by (apply Hls; left; reflexivity).
    destruct (re_search re_identRegexp l).
    + destruct (Nat.leb (length l) 2); [discriminate H|].
      apply (IH _ _ _ Hr) in H; [exact H|]. apply sec_set_nonl; [exact Hc | constructor].
    + destruct (is_nil (trim_space l)).
      * apply (IH _ _ _ Hr Hc H).
      * destruct (split1 x3d (remove_tabs l)) as [k [v|]] eqn:Es; [|discriminate H].
        destruct cur as [s|]; [|discriminate H].
        apply (IH _ _ _ Hr) in H; [exact H|]. apply sec_set_nonl; [exact Hc|].
        apply kv_set_nonl.
        -- destruct (sec_get c s) as [m|] eqn:Eg; [apply (sec_get_nonl _ _ _ Hc Eg) | constructor].
        -- intro Hin. apply trim_space_incl in Hin.
           destruct (split1_incl _ _ _ _ Es) as [_ H2]. apply (H2 v eq_refl) in Hin.
           apply remove_tabs_incl in Hin. exact (Hl Hin).
Qed.

Lemma cfg_load_nonl : forall b c, cfg_load b = Some c -> cfg_nonl c.
Proof.
  intros b c H. unfold cfg_load in H.
  apply (cfg_load_lines_nonl _ _ _ _ (scan_lines_no_nl b) (Forall_nil _) H).
Qed.

Lemma ident_get_nonl : forall l g key v, cfg_nonl l -> cfg_nonl g ->
  ident_get l g key = Some v -> ~ In c_nl v.
Proof.
  intros l g key v Hl Hg H. unfold ident_get in H.
  assert (Hglob : match sec_get g (str "user"%string) with Some m' => kv_get m' key | None => None end = Some v -> ~ In c_nl v).
  { destruct (sec_get g (str "user"%string)) as [m'|] eqn:Eg; [|intro X; discriminate X].
    intro X. apply (kv_get_nonl _ _ _ (sec_get_nonl _ _ _ Hg Eg) X). }
  destruct (sec_get l (str "user"%string)) as [m|] eqn:El.
  - destruct (kv_get m key) as [v0|] eqn:Ek.
    + injection H as <-. apply (kv_get_nonl _ _ _ (sec_get_nonl _ _ _ Hl El) Ek).
    + apply Hglob. exact H.
  - apply Hglob. exact H.
Qed.

Lemma user_name_nonl : forall l g, cfg_nonl l -> cfg_nonl g -> ~ In c_nl (user_name l g).
Proof.
  intros l g Hl Hg. unfold user_name. destruct (ident_get l g (str "name"%string)) as [v|] eqn:E.
  - apply (ident_get_nonl _ _ _ _ Hl Hg E).
  - intros [].
Qed.
Lemma user_email_nonl : forall l g, cfg_nonl l -> cfg_nonl g -> ~ In c_nl (user_email l g).
Proof.
  intros l g Hl Hg. unfold user_email. destruct (ident_get l g (str "email"%string)) as [v|] eqn:E.
  - apply (ident_get_nonl _ _ _ _ Hl Hg E).
  - intros [].
Qed.

(* ================================================================== *)
(** * A. The invariant and the per-effect guarantees *)

(** ** strengthened tree predicate *)
(* a directory entry must name a stored tree that has at least one entry
   (Goit's reader takes a node without children for a file) *)
Definition nonempty_tree (st : store) (cid : bytes) : Prop :=
  exists d its, get_kind st KTree cid = Some d /\
                parse_tree_items (S (length d)) d = Some its /\ its <> [].

Definition item_good (st : store) (it : bytes * bytes * bytes) : Prop :=
  let '(mode, name, cid) := it in
  valid_comp name /\
  if bytes_eqb mode mode_dir then nonempty_tree st cid else blob_ok st cid.

Definition tree_good (st : store) (d : bytes) : Prop :=
  exists items, parse_tree_items (S (length d)) d = Some items /\ Forall (item_good st) items.

Lemma nonempty_tree_ok : forall st cid, nonempty_tree st cid -> tree_ok st cid.
Proof. intros st cid (d & its & H & _). exists d. exact H. Qed.

Lemma tree_good_items_ok : forall st d, tree_good st d -> tree_items_ok st d.
Proof.
  intros st d (items & Hp & Hall). exists items. split; [exact Hp|].
  apply (Forall_impl _ (P := item_good st)); [|exact Hall].
  intros [[mode name] cid] [_ H]. destruct (bytes_eqb mode mode_dir); [apply nonempty_tree_ok|]; exact H.
Qed.

Lemma nonempty_tree_le : forall st st' cid, store_le st st' -> nonempty_tree st cid -> nonempty_tree st' cid.
Proof.
  intros st st' cid Hle (d & its & H & Hp & Hn). exists d, its.
  split; [apply (get_kind_le _ _ _ _ _ Hle H)|]. split; assumption.
Qed.

Lemma item_good_le : forall st st' it, store_le st st' -> item_good st it -> item_good st' it.
Proof.
  intros st st' [[mode name] cid] Hle [Hn H]. split; [exact Hn|].
  destruct (bytes_eqb mode mode_dir); [apply (nonempty_tree_le _ _ _ Hle H) | apply (blob_ok_le _ _ _ Hle H)].
Qed.

Lemma tree_good_le : forall st st' d, store_le st st' -> tree_good st d -> tree_good st' d.
Proof.
  intros st st' d Hle (items & Hp & Hall). exists items. split; [exact Hp|].
  apply (Forall_impl _ (P := item_good st)); [|exact Hall]. intros it. apply item_good_le. exact Hle.
Qed.

Lemma tree_items_ok_le : forall st st' d, store_le st st' -> tree_items_ok st d -> tree_items_ok st' d.
Proof.
  intros st st' d Hle (items & Hp & Hall). exists items. split; [exact Hp|].
  apply Forall_forall. intros [[mode name] cid] Hin. rewrite Forall_forall in Hall. specialize (Hall _ Hin).
  cbv beta iota in Hall |- *.
  destruct (bytes_eqb mode mode_dir); [apply (tree_ok_le _ _ _ Hle Hall) | apply (blob_ok_le _ _ _ Hle Hall)].
Qed.

(** ** the invariant *)
Definition entry_good (st : store) (e : entry) : Prop := blob_ok st (e_id e) /\ valid_entry e.

Definition TreesGood (st : store) : Prop := forall id d, get_kind st KTree id = Some d -> tree_good st d.
Definition CommitsOk (st : store) : Prop :=
  forall id c, get_commit st id = Some c -> tree_ok st (c_tree c) /\ Forall (commit_ok st) (c_parents c).
Definition CfgNoNl (w : world) : Prop :=
  (forall c, cfg_of (w_lcfg w) = Some c -> cfg_nonl c) /\
  (forall c, cfg_of (w_gcfg w) = Some c -> cfg_nonl c).

(* everything except "HEAD names an existing branch" *)
Record GoodNH (w : world) : Prop := mkGood {
  g_refs : Forall (fun kv => commit_ok (w_objs w) (snd kv)) (w_refs w);
  g_idx : Forall (entry_good (w_objs w)) (idx_of w);
  g_trees : TreesGood (w_objs w);
  g_commits : CommitsOk (w_objs w);
  g_named : WellNamed (w_objs w);
  g_wt : Forall (fun kv => valid_path (fst kv)) (w_files w);
  g_cfg : CfgNoNl w;
  g_init : w_inited w = true \/ w_refs w = []
}.

Definition HeadOk (w : world) : Prop := w_refs w = [] \/ am_mem (w_refs w) (w_head w) = true.

(* the two situations no theorem covers; sticky *)
Definition Bad (w : world) : Prop :=
  w_coll w = true \/ exists id p, st_lookup (w_objs w) id = Some p /\ (2 ^ 63 <= lenN p)%N.

Definition Good (w : world) : Prop := GoodNH w /\ HeadOk w.
Definition CInv (w : world) : Prop := ~ Bad w -> Good w.

Definition ConnectedNoHead (w : world) : Prop :=
  (forall n id, am_get (w_refs w) n = Some id -> commit_ok (w_objs w) id) /\
  Forall (fun e => blob_ok (w_objs w) (e_id e)) (idx_of w) /\
  Closed (w_objs w) /\
  WellNamed (w_objs w).

Lemma good_connected_nh : forall w, GoodNH w -> ConnectedNoHead w.
Proof.
  intros w Hg. split; [|split; [|split]].
  - intros n id H. apply am_get_In in H. pose proof (g_refs w Hg) as Hr.
    rewrite Forall_forall in Hr. apply (Hr (n, id) H).
  - apply (Forall_impl _ (P := entry_good (w_objs w))); [|apply (g_idx w Hg)]. intros e [H _]. exact H.
  - split.
    + intros id d H. apply tree_good_items_ok. apply (g_trees w Hg id d H).
    + apply (g_commits w Hg).
  - apply (g_named w Hg).
Qed.

Lemma connected_split : forall w, Connected w <-> ConnectedNoHead w /\ HeadOk w.
Proof. intros w. unfold Connected, ConnectedNoHead, HeadOk. tauto. Qed.

Lemma good_connected : forall w, Good w -> Connected w.
Proof.
  intros w [Hg Hh]. apply connected_split. split; [apply good_connected_nh; exact Hg | exact Hh].
Qed.

(** ** [Bad] is sticky *)
Lemma bad_sticky : forall e w, Bad w -> Bad (apply_effect e w).
Proof.
  intros e w [Hc|(id & p & Hl & Hbig)].
  - left. apply coll_sticky. exact Hc.
  - destruct (w_coll (apply_effect e w)) eqn:Ec; [left; exact Ec|].
    right. exists id, p. split; [|exact Hbig]. apply effect_store_grows; assumption.
Qed.

Lemma bad_sticky_trace : forall tr w, Bad w -> Bad (apply_effects tr w).
Proof.
  induction tr as [|e tr IH]; intros w Hb; [exact Hb|].
  rewrite apply_effects_cons. apply IH. apply bad_sticky. exact Hb.
Qed.

Lemma bad_not_put : forall e w, is_put e = false -> (Bad (apply_effect e w) <-> Bad w).
Proof.
  intros e w He. unfold Bad. rewrite (w_objs_not_put e w He), (w_coll_not_put e w He). tauto.
Qed.

(** ** what each effect must satisfy *)
Definition obj_good (st : store) (k : kind) (d : bytes) : Prop :=
  match k with
  | KTree => tree_good st d
  | KCommit => forall c, parse_commit d = Some c -> tree_ok st (c_tree c) /\ Forall (commit_ok st) (c_parents c)
  | _ => True
  end.

Definition Gc (w : world) (e : effect) : Prop :=
  match e with
  | EInit => w_inited w = false
  | EPutObj id p => exists k d, id = obj_id k d /\ p = payload k d /\
                               ((lenN d < 2 ^ 63)%N -> obj_good (w_objs w) k d)
  | ESetRef n id => w_inited w = true /\ commit_ok (w_objs w) id /\ (w_refs w = [] -> n = w_head w)
  | EDelRef n => n <> w_head w
  (* no command emits [ERenameRef] any more ([branch --rename] writes the new
     branch, re-points HEAD, removes the old branch); as a single effect it is
     only safe on a branch HEAD does not name *)
  | ERenameRef o n => am_mem (w_refs w) o = true /\ o <> w_head w
  | ESetHead n => w_refs w = [] \/ am_mem (w_refs w) n = true
  | ESetIndex es => Forall (entry_good (w_objs w)) es
  | ESetLcfg c => forall cf, cfg_of c = Some cf -> cfg_nonl cf
  | ESetGcfg c => forall cf, cfg_of c = Some cf -> cfg_nonl cf
  | EWriteFile p _ => valid_path p
  | _ => True
  end.

(* the form used with the program logic: the guarantee is only owed when the
   effect does not make the world [Bad] *)
Definition CG (w : world) (e : effect) : Prop := ~ Bad (apply_effect e w) -> Gc w e.

(** ** preservation, effect by effect *)
Lemma good_put : forall w id p, Good w -> Gc w (EPutObj id p) ->
  ~ Bad (apply_effect (EPutObj id p) w) -> Good (apply_effect (EPutObj id p) w).
Proof.
  intros w id p [Hg Hh] (k & d & Hid & Hp & Hobj) Hnb.
  assert (Hcoll : st_collides (w_objs w) id p = false).
  { destruct (st_collides (w_objs w) id p) eqn:E; [|reflexivity].
    exfalso. apply Hnb. left. rewrite w_coll_EPutObj, E. apply orb_true_r. }
  assert (Hsmall : (lenN d < 2 ^ 63)%N).
  { destruct (N.ltb (lenN p) (2 ^ 63)) eqn:E.
    - apply N.ltb_lt in E. pose proof (lenN_payload k d) as Hle. rewrite <- Hp in Hle. lia.
    - apply N.ltb_ge in E. exfalso. apply Hnb. right. exists id, p.
      rewrite w_objs_EPutObj, st_lookup_set_same. split; [reflexivity | exact E]. }
  specialize (Hobj Hsmall).
  pose proof (put_le _ _ _ Hcoll) as Hle.
  assert (Hnew : forall i kd, get_obj (st_set (w_objs w) id p) i = Some kd ->
                   (i = id /\ kd = (k, d)) \/ get_obj (w_objs w) i = Some kd).
  { intros i kd H. destruct (get_obj_put_inv _ _ _ _ _ Hcoll H) as [(-> & _ & Hpp)|H']; [|right; exact H'].
    left. split; [reflexivity|]. rewrite Hp, (payload_roundtrip k d Hsmall) in Hpp. injection Hpp as <-. reflexivity. }
  split.
  - constructor; autorewrite with wfields.
    + apply (Forall_impl _ (P := fun kv => commit_ok (w_objs w) (snd kv))); [|apply (g_refs w Hg)].
      intros kv. apply commit_ok_le. exact Hle.
    + unfold idx_of. rewrite w_index_EPutObj. fold (idx_of w).
      apply (Forall_impl _ (P := entry_good (w_objs w))); [|apply (g_idx w Hg)].
      intros e [H1 H2]. split; [apply (blob_ok_le _ _ _ Hle H1) | exact H2].
    + intros i t Ht. apply get_kind_iff in Ht. destruct (Hnew _ _ Ht) as [[-> Hkd]|H'].
      * injection Hkd as <- <-. apply (tree_good_le _ _ _ Hle). exact Hobj.
      * apply (tree_good_le _ _ _ Hle). apply (g_trees w Hg i). apply get_kind_iff. exact H'.
    + intros i c Hc. unfold get_commit in Hc.
      destruct (get_kind (st_set (w_objs w) id p) KCommit i) as [t|] eqn:Et; [|discriminate Hc].
      apply get_kind_iff in Et.
      assert (Hold : tree_ok (w_objs w) (c_tree c) /\ Forall (commit_ok (w_objs w)) (c_parents c)).
      { destruct (Hnew _ _ Et) as [[-> Hkd]|H'].
        - injection Hkd as <- <-. apply Hobj. exact Hc.
        - apply (g_commits w Hg i). unfold get_commit. apply get_kind_iff in H'. rewrite H'. exact Hc. }
      destruct Hold as [H1 H2]. split; [apply (tree_ok_le _ _ _ Hle H1)|].
      apply (Forall_impl _ (P := commit_ok (w_objs w))); [|exact H2]. intros x. apply commit_ok_le. exact Hle.
    + intros i q Hl. destruct (lookup_put_inv _ _ _ _ _ Hcoll Hl) as [[-> ->]|H'].
      * rewrite Hid, Hp. reflexivity.
      * apply (g_named w Hg i q H').
    + apply (g_wt w Hg).
    + destruct (g_cfg w Hg) as [H1 H2]. split; autorewrite with wfields; assumption.
    + apply (g_init w Hg).
  - unfold HeadOk in *. autorewrite with wfields. exact Hh.
Qed.

(* effects that leave the store alone: the store-level clauses carry over *)
Ltac frame_store Hg :=
  first [ apply (g_trees _ Hg) | apply (g_commits _ Hg) | apply (g_named _ Hg) ].

Lemma HeadOk_frame : forall w w', w_refs w' = w_refs w -> w_head w' = w_head w -> HeadOk w -> HeadOk w'.
Proof. intros w w' Hr Hh H. unfold HeadOk in *. rewrite Hr, Hh. exact H. Qed.

Lemma good_other : forall w e, Good w -> Gc w e -> is_put e = false -> Good (apply_effect e w).
Proof.
  intros w e [Hg Hh] Hgc Hput.
  assert (Hobjs : w_objs (apply_effect e w) = w_objs w) by (apply w_objs_not_put; exact Hput).
  destruct e; try discriminate Hput; cbn [Gc] in Hgc.
  - (* EInit *)
    assert (Hrefs : w_refs w = []) by (destruct (g_init w Hg) as [H|H]; [rewrite H in Hgc; discriminate Hgc | exact H]).
    split.
    + constructor; autorewrite with wfields; try frame_store Hg.
      * apply (g_refs w Hg).
      * unfold idx_of. rewrite w_index_EInit. apply (g_idx w Hg).
      * apply (g_wt w Hg).
      * destruct (g_cfg w Hg) as [H1 H2]. split; autorewrite with wfields; [|exact H2].
        intros c Hc. cbn [cfg_of] in Hc. injection Hc as <-. constructor.
      * left. reflexivity.
    + left. autorewrite with wfields. exact Hrefs.
  - (* ESetRef *)
    destruct Hgc as (Hin & Hok & Hhd). split.
    + constructor; autorewrite with wfields; try frame_store Hg.
      * apply Forall_forall. intros kv Hkv. apply am_set_In in Hkv. destruct Hkv as [->|Hkv]; [exact Hok|].
        pose proof (g_refs w Hg) as Hr. rewrite Forall_forall in Hr. apply (Hr kv Hkv).
      * unfold idx_of. rewrite w_index_ESetRef. apply (g_idx w Hg).
      * apply (g_wt w Hg).
      * destruct (g_cfg w Hg) as [H1 H2]. split; autorewrite with wfields; assumption.
      * left. exact Hin.
    + right. unfold am_mem. autorewrite with wfields.
      destruct (bytes_eq_dec (w_head w) name) as [<-|Hne].
      * rewrite am_get_set_same. reflexivity.
      * rewrite am_get_set_other by exact Hne. destruct Hh as [Hh|Hh]; [|exact Hh].
        exfalso. apply Hne. symmetry. apply Hhd. exact Hh.
  - (* EDelRef *)
    split.
    + constructor; autorewrite with wfields; try frame_store Hg.
      * apply Forall_forall. intros kv Hkv. apply am_del_In in Hkv.
        pose proof (g_refs w Hg) as Hr. rewrite Forall_forall in Hr. apply (Hr kv Hkv).
      * unfold idx_of. rewrite w_index_EDelRef. apply (g_idx w Hg).
      * apply (g_wt w Hg).
      * destruct (g_cfg w Hg) as [H1 H2]. split; autorewrite with wfields; assumption.
      * destruct (g_init w Hg) as [H|H]; [left; exact H | right; rewrite H; reflexivity].
    + unfold HeadOk. autorewrite with wfields.
      destruct Hh as [Hh|Hh]; [left; rewrite Hh; reflexivity|]. right. unfold am_mem.
      rewrite am_get_del_other by (intro X; apply Hgc; symmetry; exact X). exact Hh.
  - (* ERenameRef *)
    destruct Hgc as [Hmem Hne]. apply am_mem_true in Hmem. destruct Hmem as [id Hid].
    assert (Hinit : w_inited w = true).
    { destruct (g_init w Hg) as [H|H]; [exact H|]. rewrite H in Hid. discriminate Hid. }
    split.
    + constructor; autorewrite with wfields; rewrite ?Hid; try frame_store Hg.
      * apply Forall_forall. intros kv Hkv. pose proof (g_refs w Hg) as Hr. rewrite Forall_forall in Hr.
        apply am_set_In in Hkv. destruct Hkv as [->|Hkv].
        -- apply (Hr (old, id)). apply am_get_In. exact Hid.
        -- apply am_del_In in Hkv. apply (Hr kv Hkv).
      * unfold idx_of. rewrite w_index_ERenameRef. apply (g_idx w Hg).
      * apply (g_wt w Hg).
      * destruct (g_cfg w Hg) as [H1 H2]. split; autorewrite with wfields; assumption.
      * left. exact Hinit.
    + right. unfold am_mem. autorewrite with wfields. rewrite Hid.
      destruct Hh as [Hh|Hh]; [rewrite Hh in Hid; discriminate Hid|].
      destruct (bytes_eq_dec (w_head w) new) as [<-|Hne2].
      * rewrite am_get_set_same. reflexivity.
      * rewrite am_get_set_other by exact Hne2.
        rewrite am_get_del_other by (intro X; apply Hne; symmetry; exact X). exact Hh.
  - (* ESetHead *)
    split.
    + constructor; autorewrite with wfields; try frame_store Hg.
      * apply (g_refs w Hg).
      * unfold idx_of. rewrite w_index_ESetHead. apply (g_idx w Hg).
      * apply (g_wt w Hg).
      * destruct (g_cfg w Hg) as [H1 H2]. split; autorewrite with wfields; assumption.
      * apply (g_init w Hg).
    + unfold HeadOk. autorewrite with wfields. exact Hgc.
  - (* ESetIndex *)
    split.
    + constructor; autorewrite with wfields; try frame_store Hg.
      * apply (g_refs w Hg).
      * unfold idx_of. rewrite w_index_ESetIndex. exact Hgc.
      * apply (g_wt w Hg).
      * destruct (g_cfg w Hg) as [H1 H2]. split; autorewrite with wfields; assumption.
      * apply (g_init w Hg).
    + revert Hh. apply HeadOk_frame; autorewrite with wfields; reflexivity.
  - (* EAppendHlog *)
    split.
    + constructor; autorewrite with wfields; try frame_store Hg.
      * apply (g_refs w Hg).
      * unfold idx_of. rewrite w_index_EAppendHlog. apply (g_idx w Hg).
      * apply (g_wt w Hg).
      * destruct (g_cfg w Hg) as [H1 H2]. split; autorewrite with wfields; assumption.
      * apply (g_init w Hg).
    + revert Hh. apply HeadOk_frame; autorewrite with wfields; reflexivity.
  - (* EAppendBlog *)
    split.
    + constructor; autorewrite with wfields; try frame_store Hg.
      * apply (g_refs w Hg).
      * unfold idx_of. rewrite w_index_EAppendBlog. apply (g_idx w Hg).
      * apply (g_wt w Hg).
      * destruct (g_cfg w Hg) as [H1 H2]. split; autorewrite with wfields; assumption.
      * apply (g_init w Hg).
    + revert Hh. apply HeadOk_frame; autorewrite with wfields; reflexivity.
  - (* EDelBlog *)
    split.
    + constructor; autorewrite with wfields; try frame_store Hg.
      * apply (g_refs w Hg).
      * unfold idx_of. rewrite w_index_EDelBlog. apply (g_idx w Hg).
      * apply (g_wt w Hg).
      * destruct (g_cfg w Hg) as [H1 H2]. split; autorewrite with wfields; assumption.
      * apply (g_init w Hg).
    + revert Hh. apply HeadOk_frame; autorewrite with wfields; reflexivity.
  - (* ESetLcfg *)
    split.
    + constructor; autorewrite with wfields; try frame_store Hg.
      * apply (g_refs w Hg).
      * unfold idx_of. rewrite w_index_ESetLcfg. apply (g_idx w Hg).
      * apply (g_wt w Hg).
      * destruct (g_cfg w Hg) as [H1 H2]. split; autorewrite with wfields; assumption.
      * apply (g_init w Hg).
    + revert Hh. apply HeadOk_frame; autorewrite with wfields; reflexivity.
  - (* ESetGcfg *)
    split.
    + constructor; autorewrite with wfields; try frame_store Hg.
      * apply (g_refs w Hg).
      * unfold idx_of. rewrite w_index_ESetGcfg. apply (g_idx w Hg).
      * apply (g_wt w Hg).
      * destruct (g_cfg w Hg) as [H1 H2]. split; autorewrite with wfields; assumption.
      * apply (g_init w Hg).
    + revert Hh. apply HeadOk_frame; autorewrite with wfields; reflexivity.
  - (* EWriteFile *)
    split.
    + constructor; autorewrite with wfields; try frame_store Hg.
      * apply (g_refs w Hg).
      * unfold idx_of. rewrite w_index_EWriteFile. apply (g_idx w Hg).
      * apply Forall_forall. intros kv Hkv. apply am_set_In in Hkv. destruct Hkv as [->|Hkv]; [exact Hgc|].
        pose proof (g_wt w Hg) as Hr. rewrite Forall_forall in Hr. apply (Hr kv Hkv).
      * destruct (g_cfg w Hg) as [H1 H2]. split; autorewrite with wfields; assumption.
      * apply (g_init w Hg).
    + revert Hh. apply HeadOk_frame; autorewrite with wfields; reflexivity.
  - (* ERemovePath *)
    split.
    + constructor; autorewrite with wfields; try frame_store Hg.
      * apply (g_refs w Hg).
      * unfold idx_of. rewrite w_index_ERemovePath. apply (g_idx w Hg).
      * apply Forall_forall. intros kv Hkv. apply am_del_In in Hkv.
        pose proof (g_wt w Hg) as Hr. rewrite Forall_forall in Hr. apply (Hr kv Hkv).
      * destruct (g_cfg w Hg) as [H1 H2]. split; autorewrite with wfields; assumption.
      * apply (g_init w Hg).
    + revert Hh. apply HeadOk_frame; autorewrite with wfields; reflexivity.
  - (* EMkdirAll *)
    split.
    + constructor; autorewrite with wfields; try frame_store Hg.
      * apply (g_refs w Hg).
      * unfold idx_of. rewrite w_index_EMkdirAll. apply (g_idx w Hg).
      * apply (g_wt w Hg).
      * destruct (g_cfg w Hg) as [H1 H2]. split; autorewrite with wfields; assumption.
      * apply (g_init w Hg).
    + revert Hh. apply HeadOk_frame; autorewrite with wfields; reflexivity.
Qed.

Theorem Inv_step : forall w e, CInv w -> CG w e -> CInv (apply_effect e w).
Proof.
  intros w e Hi Hg Hnb.
  assert (Hnb0 : ~ Bad w) by (intro H; apply Hnb; apply bad_sticky; exact H).
  specialize (Hi Hnb0). specialize (Hg Hnb).
  destruct (is_put e) eqn:Ep.
  - destruct e; try discriminate Ep. apply good_put; assumption.
  - apply good_other; assumption.
Qed.

(* the rule used at every [emit] *)
Lemma emit_ok : forall w e,
  (~ Bad (apply_effect e w) -> ~ Bad w -> GoodNH w -> HeadOk w -> Gc w e) ->
  CInv w -> CG w e /\ CInv (apply_effect e w).
Proof.
  intros w e H Hi.
  assert (Hcg : CG w e).
  { intro Hnb. assert (Hnb0 : ~ Bad w) by (intro X; apply Hnb; apply bad_sticky; exact X).
    destruct (Hi Hnb0) as [Hg Hh]. apply H; assumption. }
  split; [exact Hcg | apply Inv_step; assumption].
Qed.

(* ================================================================== *)
(** * B0. Pure facts about what the commands write and read *)

(** ** items: induction principle, leaf ids *)
Section ItemInd.
  Variable P : item -> Prop.
  Hypothesis Hf : forall n id, P (IFile n id).
  Hypothesis Hd : forall n sub, Forall P sub -> P (IDir n sub).
  Fixpoint item_ind2 (i : item) : P i :=
    match i with
    | IFile n id => Hf n id
    | IDir n sub =>
        Hd n sub ((fix go (l : list item) : Forall P l :=
                     match l with
                     | [] => Forall_nil P
                     | x :: r => Forall_cons x (item_ind2 x) (go r)
                     end) sub)
    end.
End ItemInd.

Fixpoint leaves_item (i : item) : list bytes :=
  match i with
  | IFile _ id => [id]
  | IDir _ sub => flat_map leaves_item sub
  end.
Definition leaves (its : list item) : list bytes := flat_map leaves_item its.

Lemma leaves_flat_item : forall i pre, map e_id (flat_item pre i) = leaves_item i.
Proof.
  intro i. induction i as [n id | n sub IH] using item_ind2; intro pre.
  - reflexivity.
  - cbn [flat_item leaves_item]. generalize (join_path pre n). intro q.
    induction IH as [|x r Hx Hr IHr]; [reflexivity|].
    cbn [flat_map]. rewrite map_app, Hx, IHr. reflexivity.
Qed.

Lemma leaves_flat : forall its pre, map e_id (flat_items pre its) = leaves its.
Proof.
  induction its as [|i its IH]; intro pre; [reflexivity|].
  unfold flat_items, leaves in *. cbn [flat_map]. rewrite map_app, leaves_flat_item, IH. reflexivity.
Qed.

(** ** a tree whose sub-trees are readable and whose files are stored is good *)
Lemma ser_tree_good : forall st its,
  Forall wf_item its -> Forall (blob_ok st) (leaves its) ->
  (forall x, In x (subsl its) -> get_kind st KTree (obj_id KTree x) = Some x) ->
  tree_good st (ser its).
Proof.
  intros st its Hwf Hleaves Hsubs. exists (map triple its). split.
  - apply parse_items_ser; [exact Hwf|]. pose proof (ser_length its Hwf). lia.
  - apply Forall_forall. intros it Hin. apply in_map_iff in Hin. destruct Hin as (i & <- & Hi).
    rewrite Forall_forall in Hwf. pose proof (Hwf i Hi) as Hwi.
    destruct i as [n id | n sub]; cbn [triple item_good].
    + inversion Hwi as [? ? Hn Hid|]; subst. split; [exact Hn|].
      change (bytes_eqb mode_file mode_dir) with false. cbv iota.
      rewrite Forall_forall in Hleaves. apply Hleaves. unfold leaves. apply in_flat_map.
      exists (IFile n id). split; [exact Hi | left; reflexivity].
    + inversion Hwi as [|? ? Hn Hne Hsub]; subst. split; [exact Hn|].
      change (bytes_eqb mode_dir mode_dir) with true. cbv iota.
      exists (ser sub), (map triple sub). split; [|split].
      * apply Hsubs. apply (proj1 (in_dir_subs n sub its Hi)).
      * apply parse_items_ser; [exact Hsub|]. pose proof (ser_length sub Hsub). lia.
      * destruct sub; [contradiction | discriminate].
Qed.

(** ** the order in which [write_tree] lists the trees: children first *)
Section Ready.
  Variable ids : list bytes.       (* the ids of the staged entries *)

  Definition tree_ready (acc : list bytes) (d : bytes) : Prop :=
    exists sub, d = ser sub /\ Forall wf_item sub /\ incl (leaves sub) ids /\ incl (subsl sub) acc.

  Fixpoint ready_list (acc : list bytes) (l : list bytes) : Prop :=
    match l with
    | [] => True
    | d :: r => tree_ready acc d /\ ready_list (acc ++ [d]) r
    end.

  Lemma ready_list_app : forall a acc b,
    ready_list acc a -> ready_list (acc ++ a) b -> ready_list acc (a ++ b).
  Proof.
    induction a as [|d a IH]; intros acc b Ha Hb.
    - rewrite app_nil_r in Hb. exact Hb.
    - destruct Ha as [Hd Ha]. cbn [app ready_list]. split; [exact Hd|].
      apply IH; [exact Ha|]. rewrite <- app_assoc. exact Hb.
  Qed.

  Definition ready_item (i : item) : Prop :=
    wf_item i -> incl (leaves_item i) ids -> forall acc, ready_list acc (subs_item i).

  Lemma ready_subsl_aux : forall its, Forall ready_item its ->
    Forall wf_item its -> incl (leaves its) ids -> forall acc, ready_list acc (subsl its).
  Proof.
    induction its as [|i its IH]; intros Hall Hwf Hl acc; [exact Logic.I|].
    inversion Hall as [|? ? Hi Hr]; subst. inversion Hwf as [|? ? Hwi Hwr]; subst.
    unfold leaves in Hl. cbn [flat_map] in Hl. apply incl_app_inv in Hl. destruct Hl as [Hl1 Hl2].
    unfold subsl. cbn [flat_map]. apply ready_list_app.
    - apply Hi; assumption.
    - apply IH; assumption.
  Qed.

  Lemma ready_item_all : forall i, ready_item i.
  Proof.
    intro i. induction i as [n id | n sub IH] using item_ind2; intros Hwf Hl acc.
    - exact Logic.I.
    - inversion Hwf as [|? ? Hn Hne Hsub]; subst.
      change (subs_item (IDir n sub)) with (subsl sub ++ [ser sub]).
      apply ready_list_app.
      + apply ready_subsl_aux; assumption.
      + split; [|exact Logic.I]. exists sub. split; [reflexivity|]. split; [exact Hsub|].
        split; [exact Hl | apply incl_appr; apply incl_refl].
  Qed.

  Lemma ready_top : forall its, Forall wf_item its -> incl (leaves its) ids ->
    ready_list [] (subsl its ++ [ser its]).
  Proof.
    intros its Hwf Hl. apply ready_list_app.
    - apply ready_subsl_aux; [|assumption|assumption]. apply Forall_forall. intros i _. apply ready_item_all.
    - split; [|exact Logic.I]. exists its. split; [reflexivity|]. split; [exact Hwf|].
      split; [exact Hl | apply incl_appr; apply incl_refl].
  Qed.
End Ready.

(* what [write_tree_top] returns, in these terms *)
Lemma write_tree_top_ready : forall es tr,
  Forall valid_entry es -> write_tree_top es = Some tr ->
  ready_list (map e_id es) [] (snd tr ++ [fst tr]).
Proof.
  intros es [root subs] Hv H. destruct (write_tree_top_inv es root subs H) as (its & Hg & -> & ->).
  cbn [fst snd]. unfold group_top in Hg.
  pose proof (group_wf ix_bytes_eqb_eq _ _ _ Hv Hg) as Hwf.
  pose proof (group_flat ix_bytes_eqb_eq _ _ _ Hv Hg) as Hflat.
  apply ready_top; [exact Hwf|]. rewrite <- (leaves_flat its []), Hflat. apply incl_refl.
Qed.

(** ** what Goit's reader returns from a good store *)
Section NodeInd.
  Variable P : node -> Prop.
  Hypothesis H : forall id name ch, Forall P ch -> P (Node id name ch).
  Fixpoint node_ind2 (n : node) : P n :=
    match n with
    | Node id name ch =>
        H id name ch ((fix go (l : list node) : Forall P l :=
                         match l with
                         | [] => Forall_nil P
                         | x :: r => Forall_cons x (node_ind2 x) (go r)
                         end) ch)
    end.
End NodeInd.

Inductive node_good (st : store) : node -> Prop :=
| ng_leaf : forall id name, valid_comp name -> length id = 20 -> blob_ok st id ->
            node_good st (Node id name [])
| ng_dir : forall id name c ch, valid_comp name -> length id = 20 ->
           node_good st c -> Forall (node_good st) ch -> node_good st (Node id name (c :: ch)).

Lemma parse_items_id_len : forall fuel d items,
  parse_tree_items fuel d = Some items -> Forall (fun it => length (snd it) = 20) items.
Proof.
  induction fuel as [|f IH]; intros d items H; cbn [parse_tree_items] in H; [discriminate H|].
  destruct (split1 c_nul d) as [line rest]. destruct line as [|c line]; [injection H as <-; constructor|].
  destruct (split1 c_sp (c :: line)) as [mode [name|]]; [|discriminate H].
  set (r := match rest with Some r => r | None => [] end) in *.
  destruct (Nat.eqb (length (firstn 20 r)) 20) eqn:E; [|discriminate H].
  destruct (parse_tree_items f (skipn 20 r)) as [l|] eqn:El; [|discriminate H].
  injection H as <-. constructor; [apply Nat.eqb_eq in E; exact E | apply (IH _ _ El)].
Qed.

Lemma wk_go_nonempty : forall rec st items ns, wk_go rec st items = Some ns -> items <> [] -> ns <> [].
Proof.
  intros rec st items ns H Hne. destruct items as [|[[mode name] id] r]; [contradiction|].
  cbn [wk_go] in H.
  destruct (if bytes_eqb mode mode_dir then match get_kind st KTree id with Some d => rec d | None => None end else Some []) as [ch|];
    [|discriminate H].
  destruct (wk_go rec st r) as [ns'|]; [|discriminate H]. injection H as <-. discriminate.
Qed.

Lemma walk_good : forall st, TreesGood st -> forall fuel d ns,
  tree_good st d -> walk_tree fuel st d = Some ns -> Forall (node_good st) ns.
Proof.
  intros st Hst. induction fuel as [|f IH]; intros d ns Hd H; [discriminate H|].
  rewrite walk_tree_S in H. destruct Hd as (items & Hp & Hall). rewrite Hp in H.
  pose proof (parse_items_id_len _ _ _ Hp) as Hlen.
  clear Hp. revert ns H. induction items as [|[[mode name] id] r IHr]; intros ns H.
  - injection H as <-. constructor.
  - inversion Hall as [|? ? Hit0 Hr]; subst.
    change (valid_comp name /\ if bytes_eqb mode mode_dir then nonempty_tree st id else blob_ok st id) in Hit0.
    destruct Hit0 as [Hn Hit]. inversion Hlen as [|? ? Hl Hlr]; subst. cbn [snd] in Hl.
    cbn [wk_go] in H. destruct (bytes_eqb mode mode_dir).
    + destruct Hit as (d' & its' & Hk & Hp' & Hne). rewrite Hk in H.
      destruct (walk_tree f st d') as [ch|] eqn:Ew; [|discriminate H].
      destruct (wk_go (walk_tree f st) st r) as [ns'|] eqn:Er; [|discriminate H].
      injection H as <-. constructor; [|apply (IHr Hr Hlr _ eq_refl)].
      pose proof (IH d' ch (Hst _ _ Hk) Ew) as Hch.
      assert (Hchne : ch <> []).
      { destruct f as [|f']; [discriminate Ew|]. rewrite walk_tree_S, Hp' in Ew.
        apply (wk_go_nonempty _ _ _ _ Ew Hne). }
      destruct ch as [|c ch]; [contradiction|]. inversion Hch; subst. apply ng_dir; assumption.
    + destruct (wk_go (walk_tree f st) st r) as [ns'|] eqn:Er; [|discriminate H].
      injection H as <-. constructor; [|apply (IHr Hr Hlr _ eq_refl)].
      apply ng_leaf; assumption.
Qed.

Lemma flatten_node_good : forall st n root,
  (root = [] \/ valid_path root) -> node_good st n -> Forall (entry_good st) (flatten_node root n).
Proof.
  intros st n. induction n as [id name ch IH] using node_ind2. intros root Hroot Hn.
  rewrite flatten_node_eq. inversion Hn as [? ? Hname Hid Hb | ? ? c ch' Hname Hid Hc Hch]; subst.
  - constructor; [|constructor]. split; [exact Hb|]. split; [exact Hid|].
    cbn [e_path]. apply valid_path_join; assumption.
  - assert (Hall : Forall (node_good st) (c :: ch')) by (constructor; assumption).
    assert (Hr' : join_path root name = [] \/ valid_path (join_path root name)).
    { right. apply valid_path_join; assumption. }
    revert IH Hall. generalize (c :: ch'). intros l IH Hall.
    induction l as [|x l IHl]; [constructor|].
    inversion IH as [|? ? Hx Hl]; subst. inversion Hall as [|? ? Hgx Hgl]; subst.
    cbn [flat_map]. apply Forall_app. split; [apply Hx; assumption | apply IHl; assumption].
Qed.

Lemma flatten_good : forall st ns, Forall (node_good st) ns -> Forall (entry_good st) (flatten [] ns).
Proof.
  intros st ns H. unfold flatten. induction H as [|n ns Hn Hns IH]; [constructor|].
  cbn [flat_map]. apply Forall_app. split; [|exact IH].
  apply flatten_node_good; [left; reflexivity | exact Hn].
Qed.

Lemma node_good_children : forall st n, node_good st n -> Forall (node_good st) (n_children n).
Proof. intros st n H. inversion H; subst; cbn [n_children]; constructor; assumption. Qed.

Lemma node_good_name : forall st n, node_good st n -> valid_comp (n_name n).
Proof. intros st n H. inversion H; subst; cbn [n_name]; assumption. Qed.

Lemma node_good_leaf : forall st n, node_good st n -> is_leaf n = true ->
  blob_ok st (n_id n) /\ length (n_id n) = 20.
Proof.
  intros st n H Hl. inversion H; subst; cbn [n_id]; [split; assumption|].
  discriminate Hl.
Qed.

Lemma get_node_good : forall st fuel ns p n,
  Forall (node_good st) ns -> get_node_fuel fuel ns p = Some n -> node_good st n /\ valid_path p.
Proof.
  intros st. induction fuel as [|f IH]; intros ns p n Hns H; [discriminate H|].
  cbn [get_node_fuel] in H. destruct (split1 c_slash p) as [name rest] eqn:Es.
  induction Hns as [|c r Hc Hr IHr]; [discriminate H|].
  destruct (bytes_eqb (n_name c) name) eqn:En.
  - apply bytes_eqb_eq in En. destruct rest as [p'|].
    + destruct (is_leaf c); [apply IHr; exact H|].
      destruct (get_node_fuel f (n_children c) p') as [x|] eqn:Ex.
      * injection H as <-. destruct (IH _ _ _ (node_good_children _ _ Hc) Ex) as [Hx Hp'].
        split; [exact Hx|]. apply tf_split1_some_inv in Es. destruct Es as [-> _].
        apply valid_path_cons; [rewrite <- En; apply (node_good_name _ _ Hc) | exact Hp'].
      * apply IHr; exact H.
    + injection H as <-. split; [exact Hc|]. apply tf_split1_none_inv in Es. destruct Es as [-> _].
      apply valid_path_comp. rewrite <- En. apply (node_good_name _ _ Hc).
  - apply IHr; exact H.
Qed.

(** ** the commit text: which tree and parents the reader finds *)
Lemma tail_headers : forall a cm rest c0 c' r,
  ~ In c_nl a -> ~ In c_nl cm ->
  parse_headers (lf_lines (str "author "%string ++ a ++ [c_nl] ++ str "committer "%string ++ cm ++ [c_nl] ++ [c_nl] ++ rest)) c0
    = Some (c', r) ->
  c_tree c' = c_tree c0 /\ c_parents c' = c_parents c0.
Proof.
  intros a cm rest c0 c' r Ha Hc H.
  rewrite (lf_sign_line (str "author "%string) a _ eq_refl Ha) in H.
  rewrite (lf_sign_line (str "committer "%string) cm _ eq_refl Hc) in H.
  change ([c_nl] ++ rest) with (c_nl :: rest) in H. rewrite lf_lines_nl in H.
  rewrite parse_headers_author in H.
  destruct (read_sign a) as [sa|]; [|discriminate H].
  rewrite parse_headers_committer in H.
  destruct (read_sign cm) as [sc|]; [|discriminate H].
  rewrite parse_headers_blank in H. injection H as <- _. split; reflexivity.
Qed.

Lemma commit_text_parse : forall tree parent a cm msg c,
  ~ In c_nl a -> ~ In c_nl cm -> length tree = 20 ->
  (forall p, parent = Some p -> length p = 20) ->
  parse_commit (commit_text tree (option_map hex parent) a cm msg) = Some c ->
  c_tree c = tree /\ c_parents c = parent_list parent.
Proof.
  intros tree parent a cm msg c Ha Hc Htree Hparent H. unfold parse_commit in H.
  destruct (parse_headers (lf_lines (commit_text tree (option_map hex parent) a cm msg))
              (mkCommit [] [] None None [])) as [[c1 ml]|] eqn:E; [|discriminate H].
  injection H as <-. cbn [c_tree c_parents]. unfold commit_text in E.
  rewrite (lf_hex_line (str "tree "%string) tree _ eq_refl) in E.
  rewrite parse_headers_tree, (read_hash_hex tree Htree) in E.
  cbn [c_tree c_parents c_author c_committer c_msg] in E.
  destruct parent as [p|]; cbn [option_map parent_list] in *.
  - rewrite <- !app_assoc in E.
    rewrite (lf_hex_line (str "parent "%string) p _ eq_refl) in E.
    rewrite parse_headers_parent, (read_hash_hex p (Hparent p eq_refl)) in E.
    cbn [c_tree c_parents c_author c_committer c_msg] in E.
    apply tail_headers in E; [|assumption|assumption]. exact E.
  - rewrite app_nil_l in E.
    apply tail_headers in E; [|assumption|assumption]. exact E.
Qed.

Lemma dec_no_nl : forall n, ~ In c_nl (dec n).
Proof. intro n. apply dec_no_byte. reflexivity. Qed.

Lemma dec2_no_nl : forall n, ~ In c_nl (dec2 n).
Proof.
  intro n. unfold dec2. destruct (N.ltb n 10).
  - intros [H|H]; [discriminate H | exact (dec_no_nl n H)].
  - apply dec_no_nl.
Qed.

Lemma sign_string_nonl : forall n e t off, ~ In c_nl n -> ~ In c_nl e -> ~ In c_nl (sign_string n e t off).
Proof.
  intros n e t off Hn He. unfold sign_string, tz_string. intro H.
  repeat (apply in_app_or in H; destruct H as [H|H]); try contradiction.
  - destruct H as [H|[H|[]]]; discriminate H.
  - destruct H as [H|[H|[]]]; discriminate H.
  - destruct (Z.ltb t 0); [destruct H as [H|H]; [discriminate H|]|]; exact (dec_no_nl _ H).
  - destruct H as [H|[]]; discriminate H.
  - destruct (Z.leb 0 off); destruct H as [H|[]]; discriminate H.
  - exact (dec2_no_nl _ H).
  - exact (dec2_no_nl _ H).
Qed.

(* ================================================================== *)
(** * B1. The program logic instantiated *)

Definition same_meta (w0 w : world) : Prop :=
  w_inited w = w_inited w0 /\ w_head w = w_head w0 /\ w_refs w = w_refs w0 /\
  w_index w = w_index w0 /\ w_lcfg w = w_lcfg w0 /\ w_gcfg w = w_gcfg w0 /\
  (~ Bad w -> ~ Bad w0).

Lemma same_meta_refl : forall w, same_meta w w.
Proof. intro w. unfold same_meta. tauto. Qed.

Definition retrievable (w : world) (acc : list bytes) : Prop :=
  ~ Bad w -> forall x, In x acc -> get_kind (w_objs w) KTree (obj_id KTree x) = Some x.

Lemma not_bad_put : forall id p w, ~ Bad (apply_effect (EPutObj id p) w) ->
  ~ Bad w /\ st_collides (w_objs w) id p = false /\ (lenN p < 2 ^ 63)%N.
Proof.
  intros id p w Hnb. split; [intro X; apply Hnb; apply bad_sticky; exact X|]. split.
  - destruct (st_collides (w_objs w) id p) eqn:E; [|reflexivity].
    exfalso. apply Hnb. left. rewrite w_coll_EPutObj, E. apply orb_true_r.
  - destruct (N.ltb (lenN p) (2 ^ 63)) eqn:E; [apply N.ltb_lt in E; exact E|].
    apply N.ltb_ge in E. exfalso. apply Hnb. right. exists id, p.
    rewrite w_objs_EPutObj, st_lookup_set_same. split; [reflexivity | exact E].
Qed.

Lemma put_small : forall k d w, ~ Bad (apply_effect (EPutObj (obj_id k d) (payload k d)) w) -> (lenN d < 2 ^ 63)%N.
Proof.
  intros k d w Hnb. destruct (not_bad_put _ _ _ Hnb) as (_ & _ & Hs).
  pose proof (lenN_payload k d). lia.
Qed.

Lemma put_get : forall k d w, ~ Bad (apply_effect (EPutObj (obj_id k d) (payload k d)) w) ->
  get_obj (w_objs (apply_effect (EPutObj (obj_id k d) (payload k d)) w)) (obj_id k d) = Some (k, d).
Proof. intros k d w Hnb. rewrite w_objs_EPutObj. apply get_put. apply (put_small _ _ _ Hnb). Qed.

Lemma put_store_le : forall id p w, ~ Bad (apply_effect (EPutObj id p) w) ->
  store_le (w_objs w) (w_objs (apply_effect (EPutObj id p) w)).
Proof.
  intros id p w Hnb. destruct (not_bad_put _ _ _ Hnb) as (_ & Hc & _).
  rewrite w_objs_EPutObj. apply put_le. exact Hc.
Qed.

Lemma retrievable_put : forall w acc a, retrievable w acc ->
  retrievable (apply_effect (EPutObj (obj_id KTree a) (payload KTree a)) w) (acc ++ [a]).
Proof.
  intros w acc a Hr Hnb x Hin. destruct (not_bad_put _ _ _ Hnb) as (Hnb0 & _ & _).
  apply in_app_or in Hin. destruct Hin as [Hin|[<-|[]]].
  - apply (get_kind_le _ _ _ _ _ (put_store_le _ _ _ Hnb)). apply Hr; assumption.
  - apply get_kind_iff. apply put_get. exact Hnb.
Qed.

Lemma same_meta_put : forall w0 w id p, same_meta w0 w -> same_meta w0 (apply_effect (EPutObj id p) w).
Proof.
  intros w0 w id p (H1 & H2 & H3 & H4 & H5 & H6 & H7). unfold same_meta. autorewrite with wfields.
  repeat (split; [assumption|]). intro Hnb. apply H7. intro X. apply Hnb. apply bad_sticky. exact X.
Qed.

Lemma put_trees_hoare : forall w0 l acc,
  (~ Bad w0 -> ready_list (map e_id (idx_of w0)) acc l) ->
  hoare CInv CG (fun w => same_meta w0 w /\ retrievable w acc)
        (iterM (fun d => put_obj KTree d ;;; ret tt) l)
        (fun _ w => same_meta w0 w /\ retrievable w (acc ++ l)).
Proof.
  intros w0. induction l as [|a l IH]; intros acc Hr.
  - cbn [iterM]. apply hoare_ret. intros w _ H. rewrite app_nil_r. exact H.
  - cbn [iterM]. apply hoare_bind with (R := fun _ w => same_meta w0 w /\ retrievable w (acc ++ [a])).
    + apply hoare_world. intros w Hi [Hm Hret]. unfold put_obj. hsteps.
      * apply emit_ok; [|assumption]. intros Hnb Hnb0 Hg Hh. cbn [Gc].
        exists KTree, a. split; [reflexivity|]. split; [reflexivity|]. intros _. cbn [obj_good].
        destruct Hm as (_ & _ & _ & Hidx & _ & _ & Hlater).
        destruct (Hr (Hlater Hnb0)) as [(sub & -> & Hwf & Hleaves & Hsubs) _].
        apply ser_tree_good; [exact Hwf | |].
        -- apply Forall_forall. intros x Hx. apply Hleaves in Hx. apply in_map_iff in Hx.
           destruct Hx as (e & <- & He). pose proof (g_idx w Hg) as Hgi. rewrite Forall_forall in Hgi.
           unfold idx_of in Hgi. rewrite Hidx in Hgi. apply (Hgi e He).
        -- intros x Hx. apply (Hret Hnb0). apply Hsubs. exact Hx.
      * split; [apply same_meta_put; exact Hm | apply retrievable_put; exact Hret].
    + intros _. replace (acc ++ a :: l) with ((acc ++ [a]) ++ l) by (rewrite <- app_assoc; reflexivity).
      apply IH. intro Hnb. apply (Hr Hnb).
Qed.

(* the tree-writing prefix of [commit] and [write-tree] *)
Lemma write_trees_at : forall w tr B (g : unit -> M B) Q,
  write_tree_top (idx_of w) = Some tr ->
  (forall w', CInv w' -> same_meta w w' -> retrievable w' (snd tr ++ [fst tr]) ->
     hoare CInv CG (eq w') (g tt) Q) ->
  hoare CInv CG (eq w)
        (bind (iterM (fun d => put_obj KTree d ;;; ret tt) (snd tr ++ [fst tr])) g) Q.
Proof.
  intros w tr B g Q Htr Hg. apply at_Inv. intro Hi.
  apply at_bind_call with (P := fun w' => same_meta w w' /\ retrievable w' [])
                          (R := fun _ w' => same_meta w w' /\ retrievable w' ([] ++ snd tr ++ [fst tr])).
  - apply put_trees_hoare. intro Hnb. destruct (Hi Hnb) as [Hgood _].
    apply write_tree_top_ready; [|exact Htr].
    apply (Forall_impl _ (P := entry_good (w_objs w))); [|apply (g_idx w Hgood)]. intros e [_ H]. exact H.
  - intros _. split; [apply same_meta_refl|]. intros _ x [].
  - intros [] w' Hi' [Hm Hr]. apply Hg; assumption.
Qed.

Lemma cmd_write_tree_conn : emits CInv CG cmd_write_tree.
Proof.
  hinline. hsteps.
  apply write_trees_at; [assumption|]. intros w' Hi' Hm Hr. hsteps. exact Logic.I.
Qed.

(* ================================================================== *)
(** * B2. Every command only emits effects satisfying [Gc] *)

Definition later (w w' : world) : Prop := ~ Bad w' -> ~ Bad w.
Lemma later_refl : forall w, later w w.
Proof. intros w H. exact H. Qed.
Lemma later_step : forall w w' e, later w w' -> later w (apply_effect e w').
Proof. intros w w' e H Hnb. apply H. intro X. apply Hnb. apply bad_sticky. exact X. Qed.

(* at the last effect of a procedure the goal also carries the postcondition *)
Lemma emit_ok_last : forall w e (Q : Prop),
  (~ Bad (apply_effect e w) -> ~ Bad w -> GoodNH w -> HeadOk w -> Gc w e) ->
  CInv w -> Q -> CG w e /\ CInv (apply_effect e w) /\ Q.
Proof. intros w e Q H Hi Hq. destruct (emit_ok w e H Hi) as [H1 H2]. auto. Qed.

(* an effect with nothing to show *)
Ltac emit_triv := apply emit_ok; [intros; exact Logic.I | assumption].

Definition ctx_rel (w : world) (c : ctx) : Prop :=
  cfg_of (w_lcfg w) = Some (x_l c) /\ cfg_of (w_gcfg w) = Some (x_g c) /\
  match x_headc c with
  | Some (hid, cm) => am_get (w_refs w) (w_head w) = Some hid /\ get_commit (w_objs w) hid = Some cm
  | None => am_get (w_refs w) (w_head w) = None
  end.

Lemma load_ctx_at : forall w B (f : ctx -> M B) Q,
  (forall c, ctx_rel w c -> hoare CInv CG (eq w) (f c) Q) ->
  hoare CInv CG (eq w) (bind load_ctx f) Q.
Proof.
  intros w B f Q H. unfold load_ctx. hsteps.
  - apply H. unfold ctx_rel. cbn [x_l x_g x_headc]. repeat split; assumption.
  - apply H. unfold ctx_rel. cbn [x_l x_g x_headc]. repeat split; assumption.
Qed.

Lemma cmd_init_conn : emits CInv CG cmd_init.
Proof.
  hinline. hsteps.
  - apply emit_ok; [|assumption]. intros. cbn [Gc].
    match goal with Hg : negb (w_inited _) = true |- _ => apply negb_true_iff in Hg; exact Hg end.
  - exact Logic.I.
Qed.

Lemma gc_cfg_written : forall c cf, cfg_of (cfg_written c) = Some cf -> cfg_nonl cf.
Proof. intros c cf H. cbn [cfg_written cfg_of] in H. apply (cfg_load_nonl _ _ H). Qed.

Lemma cmd_config_conn : forall c global args w,
  hoare CInv CG (eq w) (cmd_config c global args) (fun _ _ => True).
Proof.
  intros c global args w. hinline. hsteps; try exact Logic.I.
  all: try (apply emit_ok; [|assumption]; intros; cbn [Gc]; first [apply gc_cfg_written | idtac]).
  all: try (intros cf Hcf; cbn [cfg_of] in Hcf; injection Hcf as <-; constructor).
Qed.

Lemma idx_update_good : forall st es id p,
  Forall (entry_good st) es -> entry_good st (mkE id p) ->
  Forall (entry_good st) (match idx_update es id p with Some i => i | None => es end).
Proof.
  intros st es id p Hes He. destruct (idx_update es id p) as [i|] eqn:E; [|exact Hes].
  apply Forall_forall. intros x Hx. destruct (idx_update_mem _ _ _ _ _ E Hx) as [->|Hin]; [exact He|].
  rewrite Forall_forall in Hes. apply (Hes x Hin).
Qed.

Lemma idx_delete_good : forall st es p i,
  Forall (entry_good st) es -> idx_delete es p = Some i -> Forall (entry_good st) i.
Proof.
  intros st es p i Hes E. apply Forall_forall. intros x Hx.
  rewrite Forall_forall in Hes. apply (Hes x (idx_delete_mem _ _ _ _ E Hx)).
Qed.

Lemma obj_id_length : forall k d, length (obj_id k d) = 20.
Proof. intros k d. unfold obj_id. apply sha1_length. Qed.

(* the body shared by the two branches of [add_file] *)
Lemma add_file_body : forall w p data,
  am_get (w_files w) p = Some data ->
  hoare CInv CG (eq w)
    (put_obj KBlob data ;;;
     emit (ESetIndex (match idx_update (idx_of w) (obj_id KBlob data) p with Some i => i | None => idx_of w end)))
    (fun _ _ => True).
Proof.
  intros w p data Hf. unfold put_obj. hsteps.
  - apply emit_ok; [|assumption]. intros. cbn [Gc]. exists KBlob, data.
    split; [reflexivity|]. split; [reflexivity|]. intros _. exact Logic.I.
  - apply emit_ok_last; [|assumption|exact Logic.I]. intros Hnb Hnb0 Hg Hh. cbn [Gc].
    pose proof (g_idx _ Hg) as Hgi. unfold idx_of in Hgi at 1. rewrite w_index_EPutObj in Hgi. fold (idx_of w) in Hgi.
    apply idx_update_good; [exact Hgi|]. split; cbn [e_id e_path].
    + exists data. apply get_kind_iff. apply put_get. exact Hnb0.
    + split; [apply obj_id_length|]. cbn [e_path].
      pose proof (g_wt _ Hg) as Hwt. rewrite w_files_EPutObj in Hwt. rewrite Forall_forall in Hwt.
      apply (Hwt (p, data)). apply am_get_In. exact Hf.
Qed.

Lemma add_file_conn : forall p, emits CInv CG (add_file p).
Proof.
  intros p. hinline. hsteps; try exact Logic.I.
  - apply add_file_body. assumption.
  - apply add_file_body. assumption.
Qed.

Lemma emits_at : forall A (m : M A) w, emits CInv CG m ->
  hoare CInv CG (eq w) m (fun _ _ => True).
Proof. intros A m w H. apply hoare_at with (P := fun _ => True); [exact H | exact Logic.I]. Qed.

Ltac gc_idx_delete :=
  intros ?Hnb ?Hnb0 ?Hg ?Hh; cbn [Gc];
  match goal with
  | He : idx_delete _ _ = Some _, Hg : GoodNH _ |- _ => apply (idx_delete_good _ _ _ _ (g_idx _ Hg) He)
  end.

Lemma cmd_add_conn : forall c args, emits CInv CG (cmd_add c args).
Proof.
  intros c args. hinline. hsteps.
  apply at_bind_iterM with (J := fun _ => True).
  - intros _. exact Logic.I.
  - intros a w' _ Hi' _. hsteps; try exact Logic.I.
    all: try (apply emits_at; apply add_file_conn).
    all: try (apply emit_ok_last; [gc_idx_delete | assumption | exact Logic.I]).
    (* the loops: the files below a directory on disk; the tracked paths below a directory that is gone *)
    all: apply at_iterM with (J := fun _ => True); [intros _; exact Logic.I | | intros; exact Logic.I].
    all: intros f w'' _ _ _; hsteps; try exact Logic.I.
    all: try (apply emits_at; apply add_file_conn).
    all: try (apply emit_ok_last; [gc_idx_delete | assumption | exact Logic.I]).
  - intros w' _ _. hsteps. exact Logic.I.
Qed.

Lemma rm_one_conn : forall p, emits CInv CG (rm_one p).
Proof.
  intros p. hinline. hsteps; try exact Logic.I.
  all: try emit_triv.
  all: try (apply emit_ok_last; [gc_idx_delete | assumption | exact Logic.I]).
Qed.

Lemma cmd_rm_conn : forall args, emits CInv CG (cmd_rm args).
Proof.
  intros args. hinline. hsteps.
  apply at_bind_iterM with (J := fun _ => True).
  - intros _. exact Logic.I.
  - intros a w' _ Hi' _. hsteps; try exact Logic.I.
    + apply emits_at. apply rm_one_conn.
    + apply at_iterM with (J := fun _ => True); [intros _; exact Logic.I | | intros; exact Logic.I].
      intros f w'' _ _ _. apply emits_at. apply rm_one_conn.
  - intros w' _ _. hsteps. exact Logic.I.
Qed.

Lemma head_update_conn : forall name, emits CInv CG (head_update name).
Proof.
  intros name. hinline. hsteps; try exact Logic.I.
  apply emit_ok; [|assumption]. intros Hnb Hnb0 Hg Hh. cbn [Gc]. right.
  apply am_mem_true. eexists. eassumption.
Qed.

Lemma cmd_update_ref_conn : forall args w, w_inited w = true ->
  hoare CInv CG (eq w) (cmd_update_ref args) (fun _ _ => True).
Proof.
  intros args w Hin. hinline. hsteps; try exact Logic.I.
  - apply emit_ok; [|assumption]. intros Hnb Hnb0 Hg Hh. cbn [Gc].
    split; [exact Hin|]. split; [eexists; eassumption|].
    intro Hr. match goal with Hm : am_mem (w_refs w) _ = true |- _ => rewrite Hr in Hm; discriminate Hm end.
  - apply at_bind_emits; [apply head_update_conn|]. intros ? w' Hi'. hsteps. exact Logic.I.
Qed.

Lemma head_tree_nodes_conn : forall c, emits CInv CG (head_tree_nodes c).
Proof. intros c. hinline. hsteps; exact Logic.I. Qed.

Lemma cmd_status_conn : forall c, emits CInv CG (cmd_status c).
Proof.
  intros c. hinline. hsteps.
  apply at_bind_emits; [apply head_tree_nodes_conn|]. intros ns w' Hi'. hsteps. exact Logic.I.
Qed.

Lemma cmd_log_conn : forall c n, emits CInv CG (cmd_log c n).
Proof. intros c n. hinline. hsteps; exact Logic.I. Qed.

Lemma cmd_reflog_conn : emits CInv CG cmd_reflog.
Proof. hinline. hsteps; exact Logic.I. Qed.

Lemma cmd_cat_file_conn : forall t p args, emits CInv CG (cmd_cat_file t p args).
Proof. intros t p args. hinline. hsteps; exact Logic.I. Qed.

Lemma cmd_ls_files_conn : forall s, emits CInv CG (cmd_ls_files s).
Proof. intros s. hinline. hsteps; exact Logic.I. Qed.

(* the two commands with a local recursive loop: it performs no effect *)
Ltac pure_fix_loop :=
  match goal with
  | |- hoare _ _ (eq ?w0) (?g ?args) _ =>
      let Hgen := fresh "Hgen" in
      assert (Hgen : hoare CInv CG (eq w0) (g args) (fun _ w' => w' = w0));
      [ induction args as [|a r IH]; cbv beta iota; hsteps; try reflexivity;
        apply at_bind with (R := fun _ w' => w' = w0); [exact IH|];
        let rest := fresh "rest" in let w1 := fresh "w1" in
        intros rest w1 _ ->; hsteps; reflexivity
      | apply (hoare_conseq _ _ _ _ _ _ _ _ Hgen); auto ]
  end.

Lemma cmd_hash_object_conn : forall args, emits CInv CG (cmd_hash_object args).
Proof. intros args. hinline. hsteps. pure_fix_loop. Qed.

Lemma cmd_rev_parse_conn : forall args, emits CInv CG (cmd_rev_parse args).
Proof. intros args. hinline. hsteps. pure_fix_loop. Qed.

Ltac solve_later := repeat apply later_step; apply later_refl.
(* [~ Bad w0] from [~ Bad] of a world reached from [w0] by explicit effects *)
Ltac not_bad_back w0 :=
  match goal with
  | Hnb : ~ Bad ?wc |- _ =>
      let L := fresh "L" in
      assert (L : later w0 wc) by solve_later; exact (L Hnb)
  end.

Ltac emit_with tac :=
  first [ apply emit_ok; [tac | assumption]
        | apply emit_ok_last; [tac | assumption | try exact Logic.I] ].

Lemma wt_put_conn : forall p data w, (~ Bad w -> valid_path p) ->
  hoare CInv CG (eq w) (wt_put p data) (fun _ w' => later w w').
Proof.
  intros p data w Hv. hinline. hsteps.
  all: try emit_triv.
  all: try (apply emit_ok_last; [intros Hnb Hnb0 Hg Hh; cbn [Gc]; apply Hv; not_bad_back w | assumption | solve_later]).
Qed.

Lemma restore_wd_conn : forall p, emits CInv CG (restore_wd p).
Proof.
  intros p. hinline. hsteps.
  match goal with |- hoare _ _ (eq ?w0) (wt_put _ ?d) _ =>
    assert (Hv : ~ Bad w0 -> valid_path p) end.
  { intro Hnb. match goal with Hi : CInv _ |- _ => destruct (Hi Hnb) as [Hg _] end.
    match goal with He : get_entry _ _ = Some _ |- _ => apply get_entry_In in He; destruct He as [Hin Hp] end.
    pose proof (g_idx _ Hg) as Hgi. rewrite Forall_forall in Hgi. destruct (Hgi _ Hin) as [_ [_ Hvp]].
    rewrite <- Hp. exact Hvp. }
  apply (hoare_conseq _ _ _ _ _ _ _ _ (wt_put_conn p _ _ Hv)); auto.
Qed.

Definition NG (ns : list node) (w : world) : Prop := ~ Bad w -> Forall (node_good (w_objs w)) ns.

Lemma leaf_node_good : forall st ns p n, Forall (node_good st) ns -> leaf_node ns p = Some n ->
  entry_good st (mkE (n_id n) p).
Proof.
  intros st ns p n Hns H. unfold leaf_node in H.
  destruct (get_node ns p) as [n0|] eqn:E; [|discriminate H].
  destruct (is_leaf n0) eqn:El; [|discriminate H]. injection H as <-.
  unfold get_node in E. destruct (get_node_good _ _ _ _ _ Hns E) as [Hn Hp].
  destruct (node_good_leaf _ _ Hn El) as [Hb Hl].
  split; [exact Hb|]. split; [exact Hl | exact Hp].
Qed.

Lemma NG_set_index : forall ns es w, NG ns w -> NG ns (apply_effect (ESetIndex es) w).
Proof.
  intros ns es w H Hnb. rewrite w_objs_ESetIndex. apply H.
  intro X. apply Hnb. apply (proj2 (bad_not_put (ESetIndex es) w eq_refl)). exact X.
Qed.

Lemma restore_index_conn : forall ns p,
  hoare CInv CG (NG ns) (restore_index ns p) (fun _ => NG ns).
Proof.
  intros ns p. apply hoare_world. intros w Hi Hng. hinline. hsteps; try assumption.
  all: try (apply emit_ok_last; [gc_idx_delete | assumption | apply NG_set_index; exact Hng]).
  all: apply emit_ok_last; [ | assumption | apply NG_set_index; exact Hng].
  all: intros Hnb Hnb0 Hg Hh; cbn [Gc];
    match goal with
    | Hu : idx_update _ _ _ = Some ?i, Hl : leaf_node _ _ = Some _ |- Forall _ ?i =>
        pose proof (idx_update_good _ _ _ _ (g_idx _ Hg) (leaf_node_good _ _ _ _ (Hng Hnb0) Hl)) as X;
        rewrite Hu in X; exact X
    end.
Qed.

Lemma head_tree_nodes_spec : forall c w,
  hoare CInv CG (eq w) (head_tree_nodes c) (fun ns w' => w' = w /\ NG ns w).
Proof.
  intros c w. hinline. hsteps.
  - split; [reflexivity|]. intro Hnb. match goal with Hi : CInv _ |- _ => destruct (Hi Hnb) as [Hg _] end.
    match goal with
    | Hk : get_kind _ KTree _ = Some ?d, Hw : walk_tree _ _ ?d = Some _ |- _ =>
        apply (walk_good _ (g_trees _ Hg) _ _ _ (g_trees _ Hg _ _ Hk) Hw)
    end.
  - split; [reflexivity|]. intros _. constructor.
Qed.

Lemma cmd_restore_conn : forall c staged args, emits CInv CG (cmd_restore c staged args).
Proof.
  intros c staged args. hinline. destruct staged; cbv beta iota.
  - hsteps.
    apply at_bind with (R := fun ns w' => w' = w /\ NG ns w); [apply head_tree_nodes_spec|].
    intros ns w' _ [-> Hng]. hsteps.
    apply at_bind_iterM with (J := NG ns).
    + intros _. exact Hng.
    + intros t w' _ _ Hng'. apply at_iterM with (J := NG ns); [intros _; exact Hng' | | auto].
      intros q w'' _ _ Hng''. apply hoare_at with (P := NG ns); [apply restore_index_conn | exact Hng''].
    + intros w' _ _. hsteps. exact Logic.I.
  - hsteps.
    apply at_bind_iterM with (J := fun _ => True).
    + intros _. exact Logic.I.
    + intros t w' _ _ _. apply at_iterM with (J := fun _ => True); [intros _; exact Logic.I | | auto].
      intros q w'' _ _ _. apply emits_at. apply restore_wd_conn.
    + intros w' _ _. hsteps. exact Logic.I.
Qed.

Lemma cmd_reset_conn : forall e c soft mixed hard args w,
  w_inited w = true -> ctx_rel w c ->
  hoare CInv CG (eq w) (cmd_reset e c soft mixed hard args) (fun _ _ => True).
Proof.
  intros e c soft mixed hard args w Hin Hctx. hinline. hsteps; try exact Logic.I.
  all: try emit_triv.
  - (* ESetRef HEAD's branch := target *)
    apply emit_ok; [|assumption]. intros Hnb Hnb0 Hg Hh. cbn [Gc].
    split; [exact Hin|]. split; [eexists; eassumption | intros _; reflexivity].
  - (* ESetIndex (entries of the target's tree) *)
    apply emit_ok; [|assumption]. intros Hnb Hnb0 Hg Hh. cbn [Gc].
    pose proof (g_trees _ Hg) as Ht. autorewrite with wfields in Ht |- *.
    apply flatten_good.
    match goal with
    | Hk : get_kind _ KTree _ = Some ?d, Hw : walk_tree _ _ ?d = Some _ |- _ =>
        apply (walk_good _ Ht _ _ _ (Ht _ _ Hk) Hw)
    end.
  - (* --hard: rewrite the work tree from the new index *)
    match goal with |- hoare _ _ (eq ?w4) (bind (iterM _ ?es) _) _ =>
      apply at_bind_iterM with (J := fun w' => ~ Bad w' -> Forall valid_entry es) end.
    + intros Hi4 Hnb. destruct (Hi4 Hnb) as [Hg _]. pose proof (g_idx _ Hg) as Hgi.
      unfold idx_of in Hgi. rewrite w_index_ESetIndex in Hgi.
      apply Forall_forall. intros x Hx. rewrite Forall_forall in Hgi. destruct (Hgi x Hx) as [_ Hv]. exact Hv.
    + intros en w' Hen Hi' HJ. hsteps.
      match goal with |- hoare _ _ (eq w') (wt_put ?q ?d) _ =>
        assert (Hv : ~ Bad w' -> valid_path q) end.
      { intro Hnb. pose proof (HJ Hnb) as Hall. rewrite Forall_forall in Hall. apply (Hall en Hen). }
      apply (hoare_conseq _ _ _ _ _ _ _ _ (wt_put_conn _ _ _ Hv)); [auto|].
      intros _ w'' _ Hl Hnb. apply HJ. apply Hl. exact Hnb.
    + intros w' _ _. hsteps. exact Logic.I.
Qed.

(* [ESetRef n hid] where [hid] is the commit the context resolved HEAD to *)
Ltac gc_setref_head Hin Hctx c :=
  intros ?Hnb ?Hnb0 ?Hg ?Hh; cbn [Gc];
  let Hhc := fresh "Hhc" in let Hhead := fresh "Hhead" in let Hcm := fresh "Hcm" in
  destruct Hctx as (_ & _ & Hhc);
  match goal with Hx : x_headc c = Some _ |- _ => rewrite Hx in Hhc end;
  destruct Hhc as [Hhead Hcm];
  split; [exact Hin|]; split;
  [eexists; exact Hcm | let Hr := fresh "Hr" in intro Hr; rewrite Hr in Hhead; discriminate Hhead].

Lemma cmd_switch_conn : forall e c args create w,
  w_inited w = true -> ctx_rel w c ->
  hoare CInv CG (eq w) (cmd_switch e c args create) (fun _ _ => True).
Proof.
  intros e c args create w Hin Hctx. hinline. hsteps; try exact Logic.I.
  all: try emit_triv.
  all: try (apply emit_ok; [gc_setref_head Hin Hctx c | assumption]).
  all: try (apply at_bind_emits; [apply head_update_conn|]; intros ? w' Hi'; hsteps; try exact Logic.I; try emit_triv).
  all: try (exfalso;
            match goal with
            | H1 : negb (negb (is_nil ?cr) && negb (is_nil (_ :: _))) = true,
              H2 : negb (is_nil ?cr) = true |- _ => rewrite H2 in H1; discriminate H1
            | H1 : negb (true && negb (is_nil (_ :: _))) = true |- _ => discriminate H1
            end).
Qed.

Lemma cmd_branch_conn : forall e c args lst rename delete w,
  w_inited w = true -> ctx_rel w c ->
  hoare CInv CG (eq w) (cmd_branch e c args lst rename delete) (fun _ _ => True).
Proof.
  intros e c args lst rename delete w Hin Hctx.
  destruct args as [|a [|a' l]]; destruct lst; destruct rename as [|r0 rn]; destruct delete as [|d0 dl];
    hinline; cbv zeta; cbn [is_nil negb length Nat.eqb andb orb]; hsteps; try exact Logic.I;
    try match goal with Hf : false = true |- _ => discriminate Hf end.
  all: try emit_triv.
  all: try (apply emit_ok; [gc_setref_head Hin Hctx c | assumption]).
  all: apply emit_ok; [|assumption]; intros Hnb Hnb0 Hg Hh; cbn [Gc].
  - (* --delete: not the current branch *)
    match goal with
    | Hd : negb (bytes_eqb ?d ?h) = true |- ?d <> ?h =>
        apply negb_true_iff in Hd; apply bytes_eqb_neq in Hd; exact Hd
    end.
  - (* --rename, HEAD is pointed at the new branch: it was written just before *)
    right. rewrite w_refs_ESetRef. unfold am_mem. rewrite am_get_set_same. reflexivity.
  - (* --rename, the old branch is removed: HEAD no longer names it *)
    rewrite w_head_ESetHead. intro Heq.
    match goal with
    | Hnew : negb (am_mem (w_refs w) ?n) = true, Hold : am_mem (w_refs w) (w_head w) = true |- _ =>
        rewrite Heq in Hold; rewrite Hold in Hnew; discriminate Hnew
    end.
Qed.

Lemma commit_ok_len : forall st id, commit_ok st id -> length id = 20.
Proof.
  intros st id [c H]. unfold get_commit in H.
  destruct (get_kind st KCommit id) as [d|] eqn:E; [|discriminate H].
  apply get_kind_iff in E. apply (get_obj_id_length _ _ _ E).
Qed.

Lemma do_commit_conn : forall e c msg w, w_inited w = true -> ctx_rel w c ->
  hoare CInv CG (eq w) (do_commit e c msg) (fun _ _ => True).
Proof.
  intros e c msg w Hin Hctx. hinline. hsteps.
  apply write_trees_at; [assumption|]. intros w' Hi' Hm Hr. cbv zeta.
  match goal with |- context [commit_text ?a ?p ?s1 ?s2 ?m] => set (data := commit_text a p s1 s2 m) end.
  hsteps. hinline. hsteps; try exact Logic.I.
  all: try emit_triv.
  all: destruct Hm as (Hin' & Hhd & Hrefs & Hidx & Hlc & Hgc & Hlater).
  - (* the commit object *)
    apply emit_ok; [|assumption]. intros Hnb Hnb0 Hg Hh. cbn [Gc].
    exists KCommit, data. split; [reflexivity|]. split; [reflexivity|]. intros _. cbn [obj_good].
    intros cm Hcm. unfold data in Hcm.
    change (match am_get (w_refs w) (w_head w) with Some id => Some (hex id) | None => None end)
      with (option_map hex (am_get (w_refs w) (w_head w))) in Hcm.
    destruct Hctx as (Hcl & Hcg & _). destruct (g_cfg _ Hg) as [Hn1 Hn2].
    rewrite Hlc in Hn1. rewrite Hgc in Hn2. specialize (Hn1 _ Hcl). specialize (Hn2 _ Hcg).
    pose proof (g_refs _ Hg) as Hgr. rewrite Hrefs in Hgr. rewrite Forall_forall in Hgr.
    apply commit_text_parse in Hcm.
    + destruct Hcm as [Ht Hp]. rewrite Ht, Hp. split.
      * exists (fst a). apply (Hr Hnb0). apply in_or_app. right. left. reflexivity.
      * destruct (am_get (w_refs w) (w_head w)) as [id|] eqn:Eh; cbn [parent_list]; [|constructor].
        constructor; [|constructor]. apply (Hgr (w_head w, id)). apply am_get_In. exact Eh.
    + apply sign_string_nonl; [apply user_name_nonl | apply user_email_nonl]; assumption.
    + apply sign_string_nonl; [apply user_name_nonl | apply user_email_nonl]; assumption.
    + apply obj_id_length.
    + intros p Hp. apply (commit_ok_len (w_objs w')). apply (Hgr (w_head w, p)). apply am_get_In. exact Hp.
  - (* the branch named by HEAD exists: move it *)
    apply emit_ok; [|assumption]. intros Hnb Hnb0 Hg Hh. cbn [Gc]. autorewrite with wfields.
    split; [rewrite Hin'; exact Hin|]. split; [|intros _; symmetry; exact Hhd].
    match goal with Hp : parse_commit data = Some ?cm |- _ => exists cm end.
    unfold get_commit. pose proof (put_get KCommit data w' Hnb0) as Hget. rewrite w_objs_EPutObj in Hget.
    apply get_kind_iff in Hget. rewrite Hget. assumption.
  - (* ... and HEAD keeps naming it *)
    apply emit_ok_last; [|assumption|exact Logic.I]. intros Hnb Hnb0 Hg Hh. cbn [Gc]. right.
    autorewrite with wfields. unfold am_mem. rewrite am_get_set_same. reflexivity.
  - (* unborn branch: create the branch HEAD names *)
    apply emit_ok; [|assumption]. intros Hnb Hnb0 Hg Hh. cbn [Gc]. autorewrite with wfields.
    split; [rewrite Hin'; exact Hin|]. split; [|intros _; symmetry; exact Hhd].
    match goal with Hp : parse_commit data = Some ?cm |- _ => exists cm end.
    unfold get_commit. pose proof (put_get KCommit data w' Hnb0) as Hget. rewrite w_objs_EPutObj in Hget.
    apply get_kind_iff in Hget. rewrite Hget. assumption.
  - apply emit_ok_last; [|assumption|exact Logic.I]. intros Hnb Hnb0 Hg Hh. cbn [Gc]. right.
    autorewrite with wfields. unfold am_mem. rewrite am_get_set_same. reflexivity.
Qed.

Lemma cmd_commit_conn : forall e c msg w, w_inited w = true -> ctx_rel w c ->
  hoare CInv CG (eq w) (cmd_commit e c msg) (fun _ _ => True).
Proof.
  intros e c msg w Hin Hctx. hinline. hsteps.
  - apply at_bind with (R := fun _ _ => True); [apply do_commit_conn; assumption|].
    intros ? w' _ _. hsteps. exact Logic.I.
  - apply at_bind with (R := fun _ w' => w' = w).
    + apply (hoare_conseq _ _ _ _ _ _ _ _ (head_tree_nodes_spec c w)); [auto|]. intros ? ? _ [-> _]. reflexivity.
    + intros ns w' _ ->. hsteps.
      apply at_bind with (R := fun _ _ => True); [apply do_commit_conn; assumption|].
      intros ? w' _ _. hsteps. exact Logic.I.
Qed.

(* [branch --rename]: no theorem excepts it any more; the predicate only says
   what kind of command the witness of [crash_window_rename_closed] is *)
Definition is_rename (c : cmd) : Prop :=
  match c with CBranch _ _ rename _ => rename <> [] | _ => False end.

Theorem run_cmd_conn : forall e c, emits CInv CG (run_cmd e c).
Proof.
  intros e c. hinline. hsteps.
  all: try (apply emits_at; apply cmd_init_conn).
  all: match goal with Hi : w_inited ?w = true |- _ => apply load_ctx_at; intros x Hx end.
  - apply cmd_config_conn.
  - apply emits_at. apply cmd_add_conn.
  - apply emits_at. apply cmd_rm_conn.
  - apply cmd_commit_conn; assumption.
  - apply emits_at. apply cmd_status_conn.
  - apply cmd_branch_conn; assumption.
  - apply cmd_switch_conn; assumption.
  - apply cmd_reset_conn; assumption.
  - apply emits_at. apply cmd_restore_conn.
  - apply cmd_update_ref_conn; assumption.
  - apply emits_at. apply cmd_log_conn.
  - apply emits_at. apply cmd_reflog_conn.
  - apply emits_at. apply cmd_cat_file_conn.
  - apply emits_at. apply cmd_hash_object_conn.
  - apply emits_at. apply cmd_ls_files_conn.
  - apply emits_at. apply cmd_rev_parse_conn.
  - apply emits_at. apply cmd_write_tree_conn.
Qed.

(* ================================================================== *)
(** * C. The theorems *)

(** ** the empty world, user edits *)
Lemma not_bad_empty : ~ Bad w_empty.
Proof. intros [H|(id & p & H & _)]; discriminate H. Qed.

Lemma good_empty : Good w_empty.
Proof.
  split.
  - constructor; cbn.
    + constructor.
    + constructor.
    + intros id d H. discriminate H.
    + intros id c H. discriminate H.
    + intros id p H. discriminate H.
    + constructor.
    + split; intros c H; injection H as <-; constructor.
    + right. reflexivity.
  - left. reflexivity.
Qed.

Theorem connected_init : Connected w_empty.
Proof. apply good_connected. apply good_empty. Qed.

Lemma bad_set_wt : forall w f d, Bad (set_wt w f d) <-> Bad w.
Proof. intros w f d. unfold Bad. cbn [set_wt w_coll w_objs]. tauto. Qed.

Lemma good_set_wt : forall w f d,
  Forall (fun kv : bytes * bytes => valid_path (fst kv)) f -> Good w -> Good (set_wt w f d).
Proof.
  intros w f d Hf [Hg Hh]. split.
  - constructor.
    + apply (g_refs w Hg).
    + apply (g_idx w Hg).
    + apply (g_trees w Hg).
    + apply (g_commits w Hg).
    + apply (g_named w Hg).
    + exact Hf.
    + apply (g_cfg w Hg).
    + apply (g_init w Hg).
  - exact Hh.
Qed.

Lemma edit_inv : forall u w, edit_ok u -> CInv w -> CInv (apply_edit u w).
Proof.
  intros u w Hok Hi. destruct u as [p d | p | p | p]; cbn [apply_edit].
  - apply Inv_step.
    + destruct (parent_dir p); [apply Inv_step; [exact Hi | intros _; exact Logic.I] | exact Hi].
    + intros _. exact Hok.
  - apply Inv_step; [exact Hi | intros _; exact Logic.I].
  - intro Hnb. apply good_set_wt.
    + assert (Hnb0 : ~ Bad w) by (intro X; apply Hnb; apply bad_set_wt; exact X).
      destruct (Hi Hnb0) as [Hg _]. pose proof (g_wt w Hg) as Hwt. rewrite Forall_forall in Hwt.
      apply Forall_forall. intros kv Hkv. apply filter_In in Hkv. apply Hwt. apply Hkv.
    + apply Hi. intro X. apply Hnb. apply bad_set_wt. exact X.
  - apply Inv_step; [exact Hi | intros _; exact Logic.I].
Qed.

(** ** C.1  every action preserves the invariant *)
Lemma cmd_inv : forall e c w r w' tr, CInv w ->
  run_m (run_cmd e c) w = (r, w', tr) ->
  CInv w' /\ w' = apply_effects tr w /\ forall n, CInv (apply_effects (firstn n tr) w).
Proof.
  intros e c w r w' tr Hi Hrun.
  destruct (emits_sound CInv CG _ (run_cmd e c) w r w' tr (run_cmd_conn e c) Hi Hrun)
    as (Hi' & Hw & _ & Hpre & _).
  auto.
Qed.

Theorem inv_step : forall a w, action_ok a -> CInv w -> CInv (step_w a w).
Proof.
  intros [e c|u] w Hok Hi.
  - unfold step_w. cbn [step]. destruct (run_m (run_cmd e c) w) as [[r w'] tr] eqn:Erun.
    assert (Hw' : CInv w') by apply (cmd_inv e c w r w' tr Hi Erun).
    destruct r; exact Hw'.
  - unfold step_w. cbn [step fst]. apply edit_inv; assumption.
Qed.

(* the strengthened invariant, in the positive form *)
Theorem good_step : forall a w, action_ok a -> Good w -> ~ Bad (step_w a w) -> Good (step_w a w).
Proof. intros a w Hok Hg Hnb. apply (inv_step a w Hok); [intros _; exact Hg | exact Hnb]. Qed.

Theorem connected_step : forall a w, action_ok a -> Good w -> ~ Bad (step_w a w) -> Connected (step_w a w).
Proof. intros a w Hok Hg Hnb. apply good_connected. apply good_step; assumption. Qed.

(** ** C.2  all histories *)
Theorem inv_run : forall h w, Forall action_ok h -> CInv w -> CInv (run h w).
Proof.
  induction h as [|a h IH]; intros w Hall Hi; [exact Hi|].
  inversion Hall as [|? ? Ha Hh]; subst. rewrite run_cons. apply IH; [exact Hh|]. apply inv_step; assumption.
Qed.

Theorem good_run : forall h, Forall action_ok h -> ~ Bad (run h w_empty) -> Good (run h w_empty).
Proof. intros h Hall Hnb. apply (inv_run h w_empty Hall); [intros _; exact good_empty | exact Hnb]. Qed.

Theorem connected_run : forall h, Forall action_ok h -> ~ Bad (run h w_empty) -> Connected (run h w_empty).
Proof. intros h Hall Hnb. apply good_connected. apply good_run; assumption. Qed.

(* [Bad], spelled out and as a computable test *)
Lemma not_bad_iff : forall w,
  ~ Bad w <-> w_coll w = false /\ forall id p, st_lookup (w_objs w) id = Some p -> (lenN p < 2 ^ 63)%N.
Proof.
  intro w. unfold Bad. split.
  - intro H. split.
    + destruct (w_coll w); [exfalso; apply H; left; reflexivity | reflexivity].
    + intros id p Hl. destruct (N.ltb (lenN p) (2 ^ 63)) eqn:E; [apply N.ltb_lt in E; exact E|].
      apply N.ltb_ge in E. exfalso. apply H. right. exists id, p. split; assumption.
  - intros [Hc Hs] [H|(id & p & Hl & Hb)]; [rewrite Hc in H; discriminate H|].
    specialize (Hs id p Hl). lia.
Qed.

Definition bad_b (w : world) : bool :=
  w_coll w || existsb (fun kv => N.leb (2 ^ 63) (lenN (snd kv))) (w_objs w).

Lemma st_lookup_In : forall st id p, st_lookup st id = Some p -> exists k, In (k, p) st.
Proof.
  induction st as [|[k v] r IH]; intros id p H; cbn [st_lookup] in H; [discriminate H|].
  destruct (bytes_eqb k id).
  - injection H as <-. exists k. left. reflexivity.
  - destruct (IH _ _ H) as [k' Hk]. exists k'. right. exact Hk.
Qed.

Lemma bad_b_false : forall w, bad_b w = false -> ~ Bad w.
Proof.
  intros w H. unfold bad_b in H. apply orb_false_elim in H. destruct H as [Hc He].
  intros [X|(id & p & Hl & Hb)]; [rewrite Hc in X; discriminate X|].
  destruct (st_lookup_In _ _ _ Hl) as [k Hk].
  assert (Ht : existsb (fun kv => N.leb (2 ^ 63) (lenN (snd kv))) (w_objs w) = true).
  { apply existsb_exists. exists (k, p). split; [exact Hk|]. apply N.leb_le. exact Hb. }
  rewrite Ht in He. discriminate He.
Qed.

(** ** C.6  no branch points to a commit lacking its snapshot or a parent *)
Theorem refs_commits : forall w, Connected w -> forall n id, am_get (w_refs w) n = Some id ->
  exists c, get_commit (w_objs w) id = Some c /\ tree_ok (w_objs w) (c_tree c) /\
            Forall (commit_ok (w_objs w)) (c_parents c).
Proof.
  intros w (Hrefs & _ & _ & [_ Hcl] & _) n id H. destruct (Hrefs n id H) as [c Hc].
  exists c. split; [exact Hc|]. apply (Hcl id c Hc).
Qed.

(** ** C.3  crash consistency: every prefix of the effects of every command *)
Lemma prefix_not_bad : forall tr w k, ~ Bad (apply_effects tr w) -> ~ Bad (apply_effects (firstn k tr) w).
Proof.
  intros tr w k Hnb X. apply Hnb. rewrite <- (firstn_skipn k tr) at 1.
  rewrite apply_effects_app. apply bad_sticky_trace. exact X.
Qed.

Theorem crash_safe : forall e c w r w' tr k,
  CInv w -> run_m (run_cmd e c) w = (r, w', tr) -> ~ Bad w' ->
  Connected (apply_effects (firstn k tr) w).
Proof.
  intros e c w r w' tr k Hi Hrun Hnb.
  destruct (cmd_inv e c w r w' tr Hi Hrun) as (_ & Hw & Hpre).
  assert (Hnbk : ~ Bad (apply_effects (firstn k tr) w)) by (apply prefix_not_bad; rewrite <- Hw; exact Hnb).
  apply good_connected. apply (Hpre k Hnbk).
Qed.

(** ** C.5  one injected failure *)
Theorem fault_safe : forall e c w k r s',
  CInv w -> run_cmd e c (mkMS w [] (Some k)) = (r, s') -> ~ Bad (ms_w s') ->
  Connected (ms_w s') /\
  (forall r0 w0 tr, run_m (run_cmd e c) w = (r0, w0, tr) -> k < length tr ->
     r = Err /\ ms_w s' = apply_effects (firstn k tr) w).
Proof.
  intros e c w k r s' Hi Hrun Hnb. split.
  - destruct (emits_sound_fault CInv CG _ (run_cmd e c) w k r s'
                (run_cmd_conn e c) Hi Hrun) as (Hi' & _).
    apply good_connected. apply (Hi' Hnb).
  - intros r0 w0 tr Hrun0 Hk. rewrite (cmd_fault_prefix e c w r0 w0 tr k Hrun0 Hk) in Hrun.
    injection Hrun as <- <-. split; reflexivity.
Qed.

(* in the terms of [Inv.ConnectedOrCollided] *)
Theorem run_connected_or_collided : forall h, Forall action_ok h ->
  (forall id p, st_lookup (w_objs (run h w_empty)) id = Some p -> (lenN p < 2 ^ 63)%N) ->
  ConnectedOrCollided (run h w_empty).
Proof.
  intros h Hall Hs. destruct (w_coll (run h w_empty)) eqn:E; [left; exact E|].
  right. apply connected_run; [exact Hall|]. apply not_bad_iff. split; assumption.
Qed.

(* the same for the worlds of [Inv.Reachable], with [Bad] spelled out *)
Theorem reachable_connected : forall w, Reachable w ->
  w_coll w = false -> (forall id p, st_lookup (w_objs w) id = Some p -> (lenN p < 2 ^ 63)%N) ->
  Connected w.
Proof.
  intros w (h & Hall & ->) Hc Hs. apply connected_run; [exact Hall|]. apply not_bad_iff. split; assumption.
Qed.

Corollary reachable_crash_safe : forall h e c r w' tr k,
  Forall action_ok h -> run_m (run_cmd e c) (run h w_empty) = (r, w', tr) -> ~ Bad w' ->
  Connected (apply_effects (firstn k tr) (run h w_empty)).
Proof.
  intros h e c r w' tr k Hall Hrun Hnb. apply (crash_safe e c _ r w' tr k); [|exact Hrun|exact Hnb].
  apply inv_run; [exact Hall | intros _; exact good_empty].
Qed.

Corollary reachable_fault_safe : forall h e c k r s',
  Forall action_ok h -> run_cmd e c (mkMS (run h w_empty) [] (Some k)) = (r, s') -> ~ Bad (ms_w s') ->
  Connected (ms_w s') /\
  (forall r0 w0 tr, run_m (run_cmd e c) (run h w_empty) = (r0, w0, tr) -> k < length tr ->
     r = Err /\ ms_w s' = apply_effects (firstn k tr) (run h w_empty)).
Proof.
  intros h e c k r s' Hall Hrun Hnb. apply (fault_safe e c _ k r s'); [|exact Hrun|exact Hnb].
  apply inv_run; [exact Hall | intros _; exact good_empty].
Qed.

(** ** computable side conditions for concrete histories *)
Definition valid_comp_b (c : bytes) : bool :=
  negb (is_nil c) && negb (contains_byte c_slash c) && negb (contains_byte c_nul c).
Definition valid_path_b (p : bytes) : bool := forallb valid_comp_b (split_all c_slash p).
Definition action_ok_b (a : action) : bool :=
  match a with AEdit (UWrite p _) => valid_path_b p | _ => true end.

Lemma valid_path_b_ok : forall p, valid_path_b p = true -> valid_path p.
Proof.
  intros p H. unfold valid_path_b in H. rewrite forallb_forall in H. apply Forall_forall. intros c Hc.
  specialize (H c Hc). unfold valid_comp_b in H.
  apply andb_prop in H. destruct H as [H H3]. apply andb_prop in H. destruct H as [H1 H2].
  apply negb_true_iff in H1, H2, H3. split; [|split].
  - intro X. subst c. discriminate H1.
  - apply contains_byte_false. exact H2.
  - apply contains_byte_false. exact H3.
Qed.

Lemma action_ok_b_ok : forall h, forallb action_ok_b h = true -> Forall action_ok h.
Proof.
  intros h H. rewrite forallb_forall in H. apply Forall_forall. intros a Ha. specialize (H a Ha).
  destruct a as [e c|u]; [exact Logic.I|]. destruct u; try exact Logic.I.
  apply valid_path_b_ok. exact H.
Qed.

Lemma step_w_cmd : forall e c w, step_w (ACmd e c) w = snd (fst (run_m (run_cmd e c) w)).
Proof.
  intros e c w. unfold step_w. cbn [step]. destruct (run_m (run_cmd e c) w) as [[r w'] tr].
  destruct r; reflexivity.
Qed.
Lemma step_trace_cmd : forall e c w, snd (step (ACmd e c) w) = snd (run_m (run_cmd e c) w).
Proof.
  intros e c w. cbn [step]. destruct (run_m (run_cmd e c) w) as [[r w'] tr]. destruct r; reflexivity.
Qed.

(** ** C.4, C.7 and the counterexamples: concrete histories *)
Section Examples.
  Local Open Scope string_scope.
  Definition ex_env : env := mkEnv 1700000000 0.

  (* one commit on [main] *)
  Definition ex_hist0 : list action :=
    [ ACmd ex_env CInit;
      ACmd ex_env (CConfig false [str "user.name"; str "A"]);
      ACmd ex_env (CConfig false [str "user.email"; str "a@b.cd"]);
      AEdit (UWrite (str "f.txt") (str "hello"));
      ACmd ex_env (CAdd [str "f.txt"]);
      ACmd ex_env (CCommit (str "first")) ].

  (* two commits, a second branch, HEAD on it *)
  Definition ex_hist1 : list action :=
    (ex_hist0 ++
     [ AEdit (UWrite (str "d/g.txt") (str "world"));
       ACmd ex_env (CAdd [str "d/g.txt"]);
       ACmd ex_env (CCommit (str "second"));
       ACmd ex_env (CBranch [str "dev"] false [] []);
       ACmd ex_env (CSwitch [str "dev"] []) ])%list.

  (* the worlds these histories end in, computed once *)
  Definition ex_w0 : world := Eval vm_compute in run ex_hist0 w_empty.
  Definition ex_w1 : world := Eval vm_compute in run ex_hist1 w_empty.
  Lemma ex_w0_run : run ex_hist0 w_empty = ex_w0.
  Proof. vm_compute. reflexivity. Qed.
  Lemma ex_w1_run : run ex_hist1 w_empty = ex_w1.
  Proof. vm_compute. reflexivity. Qed.

  Lemma ex_w0_good : Good ex_w0.
  Proof.
    rewrite <- ex_w0_run. apply good_run.
    - apply action_ok_b_ok. vm_compute. reflexivity.
    - rewrite ex_w0_run. apply bad_b_false. vm_compute. reflexivity.
  Qed.

  (* C.7  the theorems are not vacuous: a history with two commits (the
     second has the first as its only parent), two branches and two staged
     files ends in a world that is not [Bad], and [connected_run] applies *)
  Example nonvacuous :
    run ex_hist1 w_empty = ex_w1 /\
    w_coll ex_w1 = false /\ length (w_objs ex_w1) = 7 /\
    map fst (w_refs ex_w1) = [str "dev"; str "main"] /\
    w_head ex_w1 = str "dev" /\ length (idx_of ex_w1) = 2 /\
    match am_get (w_refs ex_w1) (w_head ex_w1) with
    | Some id2 =>
        match get_commit (w_objs ex_w1) id2 with
        | Some c2 =>
            match c_parents c2 with
            | [id1] => match get_commit (w_objs ex_w1) id1 with Some c1 => c_parents c1 = [] | None => False end
            | _ => False
            end
        | None => False
        end
    | None => False
    end /\
    Connected ex_w1.
  Proof.
    split; [exact ex_w1_run|]. do 6 (split; [vm_compute; reflexivity|]).
    rewrite <- ex_w1_run. apply connected_run.
    - apply action_ok_b_ok. vm_compute. reflexivity.
    - rewrite ex_w1_run. apply bad_b_false. vm_compute. reflexivity.
  Qed.

  (* C.4  the crash window of [branch --rename] (finding K8) is closed.  The
     command used to rename the branch file first and rewrite HEAD second, so
     that after the first of the two effects HEAD named a branch that did not
     exist.  It now writes the new branch file, points HEAD at it and only then
     removes the old branch file.  On the witness that refuted the old order
     (one commit on [main], renamed to [trunk]) the command performs eight
     effects; HEAD and the branch names after 0, 1, 2 and 3 of them are listed,
     and EVERY prefix state has HEAD naming an existing branch and is connected. *)
  Definition ex_rename : cmd := CBranch [] false (str "trunk") [].

  Theorem crash_window_rename_closed :
    exists w e c,
      is_rename c /\ Connected w /\
      ~ Bad (step_w (ACmd e c) w) /\ Connected (step_w (ACmd e c) w) /\
      length (snd (step (ACmd e c) w)) = 8 /\
      map (fun k => let w' := apply_effects (firstn k (snd (step (ACmd e c) w))) w in
                    (w_head w', map fst (w_refs w'))) [0; 1; 2; 3]
      = [ (str "main", [str "main"]);
          (str "main", [str "main"; str "trunk"]);
          (str "trunk", [str "main"; str "trunk"]);
          (str "trunk", [str "trunk"]) ] /\
      forall k, HeadOk (apply_effects (firstn k (snd (step (ACmd e c) w))) w) /\
                Connected (apply_effects (firstn k (snd (step (ACmd e c) w))) w).
  Proof.
    exists ex_w0, ex_env, ex_rename.
    assert (Hnb : ~ Bad (step_w (ACmd ex_env ex_rename) ex_w0)).
    { apply bad_b_false. vm_compute. reflexivity. }
    split; [discriminate|].
    split; [apply good_connected; exact ex_w0_good|].
    split; [exact Hnb|].
    split; [apply connected_step; [exact Logic.I | exact ex_w0_good | exact Hnb]|].
    split; [vm_compute; reflexivity|].
    split; [vm_compute; reflexivity|].
    intro k.
    assert (Hc : Connected (apply_effects (firstn k (snd (step (ACmd ex_env ex_rename) ex_w0))) ex_w0)).
    { rewrite step_trace_cmd.
      destruct (run_m (run_cmd ex_env ex_rename) ex_w0) as [[r w'] tr] eqn:Erun. cbn [snd].
      apply (crash_safe ex_env ex_rename ex_w0 r w' tr k); [intros _; exact ex_w0_good | exact Erun |].
      rewrite step_w_cmd, Erun in Hnb. exact Hnb. }
    split; [|exact Hc]. apply connected_split in Hc. apply Hc.
  Qed.

  (* why [action_ok] is needed: a file name containing NUL (which no file
     system allows) is written into a tree that Goit's own reader rejects *)
  Definition ex_nul : bytes := [x61; x00; x62].
  Definition ex_hist_nul : list action :=
    [ ACmd ex_env CInit;
      ACmd ex_env (CConfig false [str "user.name"; str "A"]);
      ACmd ex_env (CConfig false [str "user.email"; str "a@b.cd"]);
      AEdit (UWrite ex_nul (str "hello"));
      ACmd ex_env (CAdd [ex_nul]);
      ACmd ex_env (CCommit (str "first")) ].
  Definition ex_wn : world := Eval vm_compute in run ex_hist_nul w_empty.

  (* the tree of the commit HEAD resolves to *)
  Definition root_of (w : world) : bytes :=
    match am_get (w_refs w) (w_head w) with
    | Some id => match get_commit (w_objs w) id with Some c => c_tree c | None => [] end
    | None => []
    end.
  Definition tree_of (w : world) : bytes :=
    match get_kind (w_objs w) KTree (root_of w) with Some d => d | None => [] end.
  Definition ex_nul_tree : bytes := Eval vm_compute in tree_of ex_wn.

  Example nul_path_not_connected :
    run ex_hist_nul w_empty = ex_wn /\ ~ Bad ex_wn /\ ~ Connected ex_wn.
  Proof.
    split; [vm_compute; reflexivity|].
    split; [apply bad_b_false; vm_compute; reflexivity|].
    assert (E : get_kind (w_objs ex_wn) KTree (root_of ex_wn) = Some ex_nul_tree) by (vm_compute; reflexivity).
    assert (P : parse_tree_items (S (length ex_nul_tree)) ex_nul_tree = None) by (vm_compute; reflexivity).
    intros (_ & _ & _ & [Ht _] & _). destruct (Ht _ _ E) as (items & Hp & _).
    rewrite P in Hp. discriminate Hp.
  Qed.
End Examples.

Section Examples2.
  Local Open Scope string_scope.
  (* why the invariant has to be stronger than [Connected]: [Connected] alone
     is not preserved by [commit] (the staged path decides whether the tree
     that is written can be read back) *)
  Definition ex_wp : world := Eval vm_compute in run (firstn 5 ex_hist_nul) w_empty.

  Lemma one_blob_store : forall k0 p0 d0,
    parse_payload p0 = Some (KBlob, d0) -> sha1 p0 = k0 ->
    (forall id d, get_kind [(k0, p0)] KTree id = Some d -> False) /\
    (forall id c, get_commit [(k0, p0)] id = Some c -> False) /\
    WellNamed [(k0, p0)].
  Proof.
    intros k0 p0 d0 Hp Hs.
    assert (Hobj : forall id kd, get_obj [(k0, p0)] id = Some kd -> kd = (KBlob, d0)).
    { intros id kd H. unfold get_obj in H. cbn [st_lookup] in H.
      destruct (bytes_eqb k0 id); [|discriminate H]. rewrite Hp in H.
      destruct (bytes_eqb (sha1 p0) id); [|discriminate H]. injection H as <-. reflexivity. }
    split; [|split].
    - intros id d H. apply get_kind_iff in H. apply Hobj in H. discriminate H.
    - intros id c H. unfold get_commit in H.
      destruct (get_kind [(k0, p0)] KCommit id) as [d|] eqn:E; [|discriminate H].
      apply get_kind_iff in E. apply Hobj in E. discriminate E.
    - intros id p H. cbn [st_lookup] in H. destruct (bytes_eqb k0 id) eqn:E; [|discriminate H].
      apply bytes_eqb_eq in E. injection H as <-. rewrite Hs. exact E.
  Qed.

  Example connected_not_inductive :
    exists w a, action_ok a /\ Connected w /\ ~ Bad (step_w a w) /\ ~ Connected (step_w a w).
  Proof.
    exists ex_wp, (ACmd ex_env (CCommit (str "first"))).
    assert (Hstep : step_w (ACmd ex_env (CCommit (str "first"))) ex_wp = ex_wn) by (vm_compute; reflexivity).
    split; [exact Logic.I|]. split.
    - destruct (one_blob_store (fst (hd ([], []) (w_objs ex_wp))) (snd (hd ([], []) (w_objs ex_wp)))
                  (str "hello")) as (Ht & Hc & Hn); [vm_compute; reflexivity | vm_compute; reflexivity |].
      change [(fst (hd ([], []) (w_objs ex_wp)), snd (hd ([], []) (w_objs ex_wp)))] with (w_objs ex_wp) in *.
      split; [|split; [|split; [|split]]].
      + intros n id H. discriminate H.
      + left. reflexivity.
      + constructor; [|constructor]. exists (str "hello"). vm_compute. reflexivity.
      + split.
        * intros id d H. destruct (Ht id d H).
        * intros id c H. destruct (Hc id c H).
      + exact Hn.
    - rewrite Hstep. destruct nul_path_not_connected as (_ & H1 & H2). split; assumption.
  Qed.
End Examples2.

(* ================================================================== *)
Print Assumptions Inv_step.
Print Assumptions run_cmd_conn.
Print Assumptions connected_init.
Print Assumptions connected_step.
Print Assumptions connected_run.
Print Assumptions reachable_connected.
Print Assumptions run_connected_or_collided.
Print Assumptions crash_safe.
Print Assumptions fault_safe.
Print Assumptions refs_commits.
Print Assumptions crash_window_rename_closed.
Print Assumptions nonvacuous.
Print Assumptions nul_path_not_connected.
Print Assumptions connected_not_inductive.
