(* ConnectedFacts.v — C03 "the repository never references something that is
   not there", and from it C15/C16 (crash and fault consistency) at the level
   of the model's effects.

   Shape of the development
   0.  small libraries (association maps, store order, split_all, config).
   A.  [GoodNH] / [HeadOk] : the inductive strengthening of [Connected];
       [Gc] : what each effect must satisfy; [Inv_step] : every effect that
       satisfies [Gc] preserves the invariant.
   B.  every command only emits effects satisfying [Gc] ([run_cmd_emits]).
   C.  the theorems about [step], [run], prefixes of traces, injected faults,
       the K8 crash window of [branch --rename], and the counterexamples that
       show why the hypotheses are needed.

   Two situations are excluded, both flagged by a predicate on the FINAL
   world that is sticky ([Bad]): a SHA-1 collision met by a write
   ([w_coll]), and an object file of 2^63 bytes or more (Goit's header reader
   uses a signed 64-bit size: such an object cannot be read back, see
   [payload_too_big]). *)
From Coq Require Import Strings.String Strings.Byte.
From Coq Require Import List Bool NArith ZArith Arith Lia.
From Goit Require Import Bytes Sha1 Obj Tree Index Regex GoRegex Commit Reflog Config Ignore World Repo Inv.
From Goit Require Import BytesFacts ObjFacts TreeFacts IndexFacts CommitFacts MonadFacts.
Import ListNotations.

#[local] Arguments sha1 : simpl never.
#[local] Arguments obj_id : simpl never.
#[local] Arguments payload : simpl never.
#[local] Arguments header : simpl never.
#[local] Arguments tree_line : simpl never.

(* ================================================================== *)
(** * 0. Libraries *)

(** ** association maps (no sortedness is assumed anywhere) *)
Section AmFacts.
  Context {V : Type}.
  Implicit Types m : amap V.

  Lemma am_get_In : forall m k v, am_get m k = Some v -> In (k, v) m.
  Proof.
    induction m as [|[k' v'] r IH]; intros k v H; cbn [am_get] in H.
    - discriminate H.
    - destruct (bytes_eqb k' k) eqn:E.
      + apply bytes_eqb_eq in E. injection H as Hv. subst. left. reflexivity.
      + right. apply IH. exact H.
  Qed.

  Lemma am_set_In : forall m k v kv, In kv (am_set m k v) -> kv = (k, v) \/ In kv m.
  Proof.
    induction m as [|[k' v'] r IH]; intros k v kv H; cbn [am_set] in H.
    - destruct H as [H|[]]. left. symmetry. exact H.
    - destruct (bytes_eqb k' k) eqn:E.
      + destruct H as [H|H]; [left; symmetry; exact H | right; right; exact H].
      + destruct (blt k k') eqn:Eb.
        * destruct H as [H|H]; [left; symmetry; exact H | right; exact H].
        * destruct H as [H|H]; [right; left; exact H|].
          destruct (IH _ _ _ H) as [H1|H1]; [left; exact H1 | right; right; exact H1].
  Qed.

  Lemma am_del_In : forall m k kv, In kv (am_del m k) -> In kv m.
  Proof.
    induction m as [|[k' v'] r IH]; intros k kv H; cbn [am_del] in H.
    - destruct H.
    - destruct (bytes_eqb k' k) eqn:E.
      + right. exact H.
      + destruct H as [H|H]; [left; exact H | right; apply (IH _ _ H)].
  Qed.

  Lemma am_get_set_same : forall m k v, am_get (am_set m k v) k = Some v.
  Proof.
    induction m as [|[k' v'] r IH]; intros k v; cbn [am_set].
    - cbn [am_get]. rewrite bytes_eqb_refl. reflexivity.
    - destruct (bytes_eqb k' k) eqn:E.
      + cbn [am_get]. rewrite bytes_eqb_refl. reflexivity.
      + destruct (blt k k') eqn:Eb.
        * cbn [am_get]. rewrite bytes_eqb_refl. reflexivity.
        * cbn [am_get]. rewrite E. apply IH.
  Qed.

  Lemma am_get_set_other : forall m k v q, q <> k -> am_get (am_set m k v) q = am_get m q.
  Proof.
    induction m as [|[k' v'] r IH]; intros k v q Hne; cbn [am_set].
    - cbn [am_get]. assert (E : bytes_eqb k q = false) by (apply bytes_eqb_neq; congruence).
      rewrite E. reflexivity.
    - assert (Ekq : bytes_eqb k q = false) by (apply bytes_eqb_neq; congruence).
      destruct (bytes_eqb k' k) eqn:E.
      + apply bytes_eqb_eq in E. subst k'. cbn [am_get]. rewrite Ekq. reflexivity.
      + destruct (blt k k') eqn:Eb.
        * cbn [am_get]. rewrite Ekq. reflexivity.
        * cbn [am_get]. destruct (bytes_eqb k' q); [reflexivity | apply IH; exact Hne].
  Qed.

  Lemma am_get_del_other : forall m k q, q <> k -> am_get (am_del m k) q = am_get m q.
  Proof.
    induction m as [|[k' v'] r IH]; intros k q Hne; cbn [am_del].
    - reflexivity.
    - destruct (bytes_eqb k' k) eqn:E.
      + apply bytes_eqb_eq in E. subst k'. cbn [am_get].
        assert (Ekq : bytes_eqb k q = false) by (apply bytes_eqb_neq; congruence).
        rewrite Ekq. reflexivity.
      + cbn [am_get]. destruct (bytes_eqb k' q); [reflexivity | apply IH; exact Hne].
  Qed.

  Lemma am_set_not_nil : forall m k v, am_set m k v <> [].
  Proof.
    intros [|[k' v'] r] k v; cbn [am_set].
    - discriminate.
    - destruct (bytes_eqb k' k); [discriminate|]. destruct (blt k k'); discriminate.
  Qed.

  Lemma am_mem_true : forall m k, am_mem m k = true <-> exists v, am_get m k = Some v.
  Proof.
    intros m k. unfold am_mem. destruct (am_get m k) as [v|].
    - split; [intros _; exists v; reflexivity | reflexivity].
    - split; [intro H; discriminate H | intros [v H]; discriminate H].
  Qed.

  Lemma am_mem_not_nil : forall m k, am_mem m k = true -> m <> [].
  Proof. intros m k H ->. discriminate H. Qed.
End AmFacts.

(** ** the order "every readable object stays readable, unchanged" *)
Definition store_le (st st' : store) : Prop :=
  forall id kd, get_obj st id = Some kd -> get_obj st' id = Some kd.

Lemma store_le_refl : forall st, store_le st st.
Proof. intros st id kd H. exact H. Qed.

Lemma get_kind_iff : forall st k id d, get_kind st k id = Some d <-> get_obj st id = Some (k, d).
Proof.
  intros st k id d. unfold get_kind. destruct (get_obj st id) as [[k' d']|].
  - destruct (kind_eqb k k') eqn:E.
    + apply kind_eqb_eq in E. subst k'. split; intro H; injection H as H; subst; reflexivity.
    + split; intro H; [discriminate H|]. injection H as Hk Hd. subst.
      assert (X : kind_eqb k k = true) by (apply kind_eqb_eq; reflexivity).
      rewrite X in E. discriminate E.
  - split; intro H; discriminate H.
Qed.

Lemma get_kind_le : forall st st' k id d, store_le st st' ->
  get_kind st k id = Some d -> get_kind st' k id = Some d.
Proof. intros st st' k id d Hle H. apply get_kind_iff. apply Hle. apply get_kind_iff. exact H. Qed.

Lemma get_commit_le : forall st st' id c, store_le st st' ->
  get_commit st id = Some c -> get_commit st' id = Some c.
Proof.
  intros st st' id c Hle H. unfold get_commit in *.
  destruct (get_kind st KCommit id) as [d|] eqn:E; [|discriminate H].
  rewrite (get_kind_le _ _ _ _ _ Hle E). exact H.
Qed.

Lemma blob_ok_le : forall st st' id, store_le st st' -> blob_ok st id -> blob_ok st' id.
Proof. intros st st' id Hle [d H]. exists d. apply (get_kind_le _ _ _ _ _ Hle H). Qed.
Lemma tree_ok_le : forall st st' id, store_le st st' -> tree_ok st id -> tree_ok st' id.
Proof. intros st st' id Hle [d H]. exists d. apply (get_kind_le _ _ _ _ _ Hle H). Qed.
Lemma commit_ok_le : forall st st' id, store_le st st' -> commit_ok st id -> commit_ok st' id.
Proof. intros st st' id Hle [c H]. exists c. apply (get_commit_le _ _ _ _ Hle H). Qed.

(* writing without a collision only adds *)
Lemma put_le : forall st id p, st_collides st id p = false -> store_le st (st_set st id p).
Proof.
  intros st id p Hc i kd H. unfold get_obj in *.
  destruct (st_lookup st i) as [q|] eqn:El; [|discriminate H].
  rewrite (st_set_keeps st id p i q Hc El). exact H.
Qed.

Lemma lookup_put_inv : forall st id p i q,
  st_collides st id p = false -> st_lookup (st_set st id p) i = Some q ->
  (i = id /\ q = p) \/ st_lookup st i = Some q.
Proof.
  intros st id p i q Hc H. destruct (bytes_eq_dec i id) as [->|Hne].
  - rewrite st_lookup_set_same in H. injection H as <-. left. split; reflexivity.
  - rewrite st_lookup_set_other in H by exact Hne. right. exact H.
Qed.

Lemma get_obj_put_inv : forall st id p i kd,
  st_collides st id p = false -> get_obj (st_set st id p) i = Some kd ->
  (i = id /\ sha1 p = id /\ parse_payload p = Some kd) \/ get_obj st i = Some kd.
Proof.
  intros st id p i kd Hc H. destruct kd as [k d].
  destruct (get_obj_integrity _ _ _ _ H) as (q & Hl & Hs & Hp).
  destruct (lookup_put_inv _ _ _ _ _ Hc Hl) as [[-> ->]|Hl'].
  - left. split; [reflexivity|]. split; assumption.
  - right. apply (get_obj_intro _ _ q); assumption.
Qed.

Lemma lenN_payload : forall k d, (lenN d <= lenN (payload k d))%N.
Proof. intros k d. unfold lenN, payload. rewrite app_length. lia. Qed.

(** ** [split_all] and valid paths *)
Lemma split_all_not_nil : forall sep s, split_all sep s <> [].
Proof.
  intros sep s. destruct s as [|c r]; cbn [split_all]; [discriminate|].
  destruct (beqb c sep); [discriminate|]. destruct (split_all sep r); discriminate.
Qed.

Lemma split_all_app_sep : forall sep a b,
  split_all sep (a ++ sep :: b) = split_all sep a ++ split_all sep b.
Proof.
  intros sep a b. induction a as [|c a IH].
  - cbn [app split_all]. rewrite beqb_refl. reflexivity.
  - cbn [app split_all]. destruct (beqb c sep).
    + rewrite IH. reflexivity.
    + rewrite IH. pose proof (split_all_not_nil sep a) as Hn.
      destruct (split_all sep a) as [|h t]; [contradiction|]. reflexivity.
Qed.

Lemma valid_path_comp : forall n, valid_comp n -> valid_path n.
Proof.
  intros n Hn. unfold valid_path. rewrite tf_split_all_split1.
  destruct Hn as (Hne & Hsl & Hnul). rewrite (tf_split1_none c_slash n Hsl).
  constructor; [|constructor]. repeat split; assumption.
Qed.

Lemma valid_path_join : forall root n,
  (root = [] \/ valid_path root) -> valid_comp n -> valid_path (join_path root n).
Proof.
  intros root n Hr Hn. destruct root as [|c root].
  - apply valid_path_comp. exact Hn.
  - destruct Hr as [Hr|Hr]; [discriminate Hr|].
    cbn [join_path]. change ((c :: root) ++ [c_slash] ++ n) with ((c :: root) ++ c_slash :: n).
    unfold valid_path. rewrite split_all_app_sep. apply Forall_app. split; [exact Hr|].
    apply valid_path_comp. exact Hn.
Qed.

Lemma valid_path_cons : forall d rest, valid_comp d -> valid_path rest -> valid_path (d ++ c_slash :: rest).
Proof.
  intros d rest Hd Hr. unfold valid_path. rewrite split_all_app_sep. apply Forall_app.
  split; [apply valid_path_comp; exact Hd | exact Hr].
Qed.

(** ** the staging area: membership after an update *)
Lemma sort_entries_In : forall es x, In x (sort_entries es) <-> In x es.
Proof.
  induction es as [|e es IH]; intro x; cbn [sort_entries fold_right].
  - tauto.
  - fold (sort_entries es). rewrite insert_sorted_In, IH. cbn [In]. intuition congruence.
Qed.

Lemma idx_update_mem : forall es id p es' x,
  idx_update es id p = Some es' -> In x es' -> x = mkE id p \/ In x es.
Proof.
  intros es id p es' x H Hin. unfold idx_update in H.
  destruct (get_entry es p) as [[pos e]|].
  - destruct (bytes_eqb (e_id e) id); [discriminate H|]. injection H as <-.
    apply (proj1 (sort_entries_In _ _)) in Hin. apply in_app_or in Hin. destruct Hin as [Hin|[Hin|[]]].
    + right. apply (remove_nth_In _ _ _ _ Hin).
    + left. symmetry. exact Hin.
  - injection H as <-. apply (proj1 (sort_entries_In _ _)) in Hin. apply in_app_or in Hin.
    destruct Hin as [Hin|[Hin|[]]]; [right; exact Hin | left; symmetry; exact Hin].
Qed.

Lemma idx_delete_mem : forall es p es' x, idx_delete es p = Some es' -> In x es' -> In x es.
Proof.
  intros es p es' x H Hin. unfold idx_delete in H.
  destruct (get_entry es p) as [[pos e]|]; [|discriminate H]. injection H as <-.
  apply (remove_nth_In _ _ _ _ Hin).
Qed.

Lemma get_entry_In : forall es p i e, get_entry es p = Some (i, e) -> In e es /\ e_path e = p.
Proof.
  intros es p i e H. destruct (get_entry_sound _ _ _ _ H) as [Hn Hp].
  split; [apply (nth_error_In _ _ Hn) | exact Hp].
Qed.

(** ** config: no value that the loader produces contains a newline *)
Definition cfg_nonl (c : cfg) : Prop :=
  Forall (fun sm => Forall (fun kv => ~ In c_nl (snd kv)) (snd sm)) c.

Lemma kv_set_nonl : forall m k v, Forall (fun kv : bytes * bytes => ~ In c_nl (snd kv)) m -> ~ In c_nl v ->
  Forall (fun kv : bytes * bytes => ~ In c_nl (snd kv)) (kv_set m k v).
Proof.
  induction m as [|[k' v'] r IH]; intros k v Hm Hv; cbn [kv_set].
  - constructor; [exact Hv | constructor].
  - inversion Hm as [|? ? H1 H2]; subst. destruct (bytes_eqb k' k).
    + constructor; [exact Hv | exact H2].
    + constructor; [exact H1 | apply IH; assumption].
Qed.

Lemma sec_set_nonl : forall c s m, cfg_nonl c -> Forall (fun kv : bytes * bytes => ~ In c_nl (snd kv)) m ->
  cfg_nonl (sec_set c s m).
Proof.
  induction c as [|[s' m'] r IH]; intros s m Hc Hm; cbn [sec_set].
  - constructor; [exact Hm | constructor].
  - inversion Hc as [|? ? H1 H2]; subst. destruct (bytes_eqb s' s).
    + constructor; [exact Hm | exact H2].
    + constructor; [exact H1 | apply IH; assumption].
Qed.

Lemma sec_get_nonl : forall c s m, cfg_nonl c -> sec_get c s = Some m ->
  Forall (fun kv : bytes * bytes => ~ In c_nl (snd kv)) m.
Proof.
  induction c as [|[s' m'] r IH]; intros s m Hc H; cbn [sec_get] in H.
  - discriminate H.
  - inversion Hc as [|? ? H1 H2]; subst. destruct (bytes_eqb s' s).
    + injection H as <-. exact H1.
    + apply (IH _ _ H2 H).
Qed.

Lemma kv_get_nonl : forall m k v, Forall (fun kv : bytes * bytes => ~ In c_nl (snd kv)) m ->
  kv_get m k = Some v -> ~ In c_nl v.
Proof.
  induction m as [|[k' v'] r IH]; intros k v Hm H; cbn [kv_get] in H.
  - discriminate H.
  - inversion Hm as [|? ? H1 H2]; subst. destruct (bytes_eqb k' k).
    + injection H as <-. exact H1.
    + apply (IH _ _ H2 H).
Qed.

Lemma trim_left_incl : forall s c, In c (trim_left s) -> In c s.
Proof.
  induction s as [|x r IH]; intros c H; cbn [trim_left] in H.
  - exact H.
  - destruct (is_space x); [right; apply IH; exact H | exact H].
Qed.

Lemma trim_space_incl : forall s c, In c (trim_space s) -> In c s.
Proof.
  intros s c H. unfold trim_space in H. apply in_rev in H. apply trim_left_incl in H.
  apply in_rev in H. apply trim_left_incl in H. exact H.
Qed.

Lemma split1_incl : forall sep s a ob, split1 sep s = (a, ob) ->
  (forall c, In c a -> In c s) /\ (forall b, ob = Some b -> forall c, In c b -> In c s).
Proof.
  intros sep s. induction s as [|x r IH]; intros a ob H; cbn [split1] in H.
  - injection H as <- <-. split; [auto|]. intros b Hb. discriminate Hb.
  - destruct (beqb x sep).
    + injection H as <- <-. split; [intros c []|]. intros b Hb c Hc. injection Hb as <-. right. exact Hc.
    + destruct (split1 sep r) as [a' ob'] eqn:E. injection H as <- <-.
      destruct (IH _ _ eq_refl) as [H1 H2]. split.
      * intros c [Hc|Hc]; [left; exact Hc | right; apply H1; exact Hc].
      * intros b Hb c Hc. right. apply (H2 b Hb c Hc).
Qed.

Lemma drop_cr_incl : forall l c, In c (drop_cr l) -> In c l.
Proof.
  intros l c H. unfold drop_cr in H. destruct (rev l) as [|x r] eqn:E; [exact H|].
  destruct (beqb x c_cr); [|exact H].
  apply in_rev. rewrite E. right. apply (proj2 (in_rev r c)) in H. exact H.
Qed.

Lemma scan_lines_aux_no_nl : forall s cur l,
  ~ In c_nl cur -> In l (scan_lines_aux cur s) -> ~ In c_nl l.
Proof.
  induction s as [|c r IH]; intros cur l Hcur Hin; cbn [scan_lines_aux] in Hin.
  - destruct cur as [|x cur']; [destruct Hin|]. destruct Hin as [<-|[]].
    intro H. apply drop_cr_incl in H. apply in_rev in H. exact (Hcur H).
  - destruct (beqb c c_nl) eqn:E.
    + destruct Hin as [<-|Hin].
      * intro H. apply drop_cr_incl in H. apply in_rev in H. exact (Hcur H).
      * apply (IH [] l); [intros [] | exact Hin].
    + apply (IH (c :: cur) l); [|exact Hin]. apply beqb_neq in E.
      intros [H|H]; [apply E; exact H | exact (Hcur H)].
Qed.

Lemma scan_lines_no_nl : forall s l, In l (scan_lines s) -> ~ In c_nl l.
Proof. intros s l H. apply (scan_lines_aux_no_nl s [] l); [intros [] | exact H]. Qed.

Lemma remove_tabs_incl : forall s c, In c (remove_tabs s) -> In c s.
Proof. intros s c H. unfold remove_tabs in H. apply filter_In in H. apply H. Qed.

Lemma cfg_load_lines_nonl : forall ls c cur c',
  (forall l, In l ls -> ~ In c_nl l) -> cfg_nonl c ->
  cfg_load_lines ls c cur = Some c' -> cfg_nonl c'.
Proof.
  induction ls as [|l r IH]; intros c cur c' Hls Hc H; cbn [cfg_load_lines] in H.
  - injection H as <-. exact Hc.
  - assert (Hr : forall l0, In l0 r -> ~ In c_nl l0) by (intros l0 H0; apply Hls; right; exact H0).
    assert (Hl : ~ In c_nl l) by (apply Hls; left; reflexivity).
    destruct (re_search re_identRegexp l).
    + destruct (Nat.leb (length l) 2); [discriminate H|].
      apply (IH _ _ _ Hr) in H; [exact H|]. apply sec_set_nonl; [exact Hc | constructor].
    + destruct (is_nil (trim_space l)).
      * apply (IH _ _ _ Hr Hc H).
      * destruct (split1 x3d (remove_tabs l)) as [k [v|]] eqn:Es; [|discriminate H].
        destruct cur as [s|]; [|discriminate H].
        apply (IH _ _ _ Hr) in H; [exact H|]. apply sec_set_nonl; [exact Hc|].
        apply kv_set_nonl.
        -- destruct (sec_get c s) as [m|] eqn:Eg; [apply (sec_get_nonl _ _ _ Hc Eg) | constructor].
        -- intro Hin. apply trim_space_incl in Hin.
           destruct (split1_incl _ _ _ _ Es) as [_ H2]. apply (H2 v eq_refl) in Hin.
           apply remove_tabs_incl in Hin. exact (Hl Hin).
Qed.

Lemma cfg_load_nonl : forall b c, cfg_load b = Some c -> cfg_nonl c.
Proof.
  intros b c H. unfold cfg_load in H.
  apply (cfg_load_lines_nonl _ _ _ _ (scan_lines_no_nl b) (Forall_nil _) H).
Qed.

Lemma ident_get_nonl : forall l g key v, cfg_nonl l -> cfg_nonl g ->
  ident_get l g key = Some v -> ~ In c_nl v.
Proof.
  intros l g key v Hl Hg H. unfold ident_get in H.
  assert (Hglob : match sec_get g (str "user"%string) with Some m' => kv_get m' key | None => None end = Some v -> ~ In c_nl v).
  { destruct (sec_get g (str "user"%string)) as [m'|] eqn:Eg; [|intro X; discriminate X].
    intro X. apply (kv_get_nonl _ _ _ (sec_get_nonl _ _ _ Hg Eg) X). }
  destruct (sec_get l (str "user"%string)) as [m|] eqn:El.
  - destruct (kv_get m key) as [v0|] eqn:Ek.
    + injection H as <-. apply (kv_get_nonl _ _ _ (sec_get_nonl _ _ _ Hl El) Ek).
    + apply Hglob. exact H.
  - apply Hglob. exact H.
Qed.

Lemma user_name_nonl : forall l g, cfg_nonl l -> cfg_nonl g -> ~ In c_nl (user_name l g).
Proof.
  intros l g Hl Hg. unfold user_name. destruct (ident_get l g (str "name"%string)) as [v|] eqn:E.
  - apply (ident_get_nonl _ _ _ _ Hl Hg E).
  - intros [].
Qed.
Lemma user_email_nonl : forall l g, cfg_nonl l -> cfg_nonl g -> ~ In c_nl (user_email l g).
Proof.
  intros l g Hl Hg. unfold user_email. destruct (ident_get l g (str "email"%string)) as [v|] eqn:E.
  - apply (ident_get_nonl _ _ _ _ Hl Hg E).
  - intros [].
Qed.

(* ================================================================== *)
(** * A. The invariant and the per-effect guarantees *)

(** ** strengthened tree predicate *)
(* a directory entry must name a stored tree that has at least one entry
   (Goit's reader takes a node without children for a file) *)
Definition nonempty_tree (st : store) (cid : bytes) : Prop :=
  exists d its, get_kind st KTree cid = Some d /\
                parse_tree_items (S (length d)) d = Some its /\ its <> [].

Definition item_good (st : store) (it : bytes * bytes * bytes) : Prop :=
  let '(mode, name, cid) := it in
  valid_comp name /\
  if bytes_eqb mode mode_dir then nonempty_tree st cid else blob_ok st cid.

Definition tree_good (st : store) (d : bytes) : Prop :=
  exists items, parse_tree_items (S (length d)) d = Some items /\ Forall (item_good st) items.

Lemma nonempty_tree_ok : forall st cid, nonempty_tree st cid -> tree_ok st cid.
Proof. intros st cid (d & its & H & _). exists d. exact H. Qed.

Lemma tree_good_items_ok : forall st d, tree_good st d -> tree_items_ok st d.
Proof.
  intros st d (items & Hp & Hall). exists items. split; [exact Hp|].
  apply (Forall_impl _ (P := item_good st)); [|exact Hall].
  intros [[mode name] cid] [_ H]. destruct (bytes_eqb mode mode_dir); [apply nonempty_tree_ok|]; exact H.
Qed.

Lemma nonempty_tree_le : forall st st' cid, store_le st st' -> nonempty_tree st cid -> nonempty_tree st' cid.
Proof.
  intros st st' cid Hle (d & its & H & Hp & Hn). exists d, its.
  split; [apply (get_kind_le _ _ _ _ _ Hle H)|]. split; assumption.
Qed.

Lemma item_good_le : forall st st' it, store_le st st' -> item_good st it -> item_good st' it.
Proof.
  intros st st' [[mode name] cid] Hle [Hn H]. split; [exact Hn|].
  destruct (bytes_eqb mode mode_dir); [apply (nonempty_tree_le _ _ _ Hle H) | apply (blob_ok_le _ _ _ Hle H)].
Qed.

Lemma tree_good_le : forall st st' d, store_le st st' -> tree_good st d -> tree_good st' d.
Proof.
  intros st st' d Hle (items & Hp & Hall). exists items. split; [exact Hp|].
  apply (Forall_impl _ (P := item_good st)); [|exact Hall]. intros it. apply item_good_le. exact Hle.
Qed.

(** ** the invariant *)
Definition entry_good (st : store) (e : entry) : Prop := blob_ok st (e_id e) /\ valid_entry e.

Definition TreesGood (st : store) : Prop := forall id d, get_kind st KTree id = Some d -> tree_good st d.
Definition CommitsOk (st : store) : Prop :=
  forall id c, get_commit st id = Some c -> tree_ok st (c_tree c) /\ Forall (commit_ok st) (c_parents c).
Definition CfgNoNl (w : world) : Prop :=
  (forall c, cfg_of (w_lcfg w) = Some c -> cfg_nonl c) /\
  (forall c, cfg_of (w_gcfg w) = Some c -> cfg_nonl c).

(* everything except "HEAD names an existing branch" *)
Record GoodNH (w : world) : Prop := mkGood {
  g_refs : Forall (fun kv => commit_ok (w_objs w) (snd kv)) (w_refs w);
  g_idx : Forall (entry_good (w_objs w)) (idx_of w);
  g_trees : TreesGood (w_objs w);
  g_commits : CommitsOk (w_objs w);
  g_named : WellNamed (w_objs w);
  g_wt : Forall (fun kv => valid_path (fst kv)) (w_files w);
  g_cfg : CfgNoNl w;
  g_init : w_inited w = true \/ w_refs w = []
}.

Definition HeadOk (w : world) : Prop := w_refs w = [] \/ am_mem (w_refs w) (w_head w) = true.

(* the two situations no theorem covers; sticky *)
Definition Bad (w : world) : Prop :=
  w_coll w = true \/ exists id p, st_lookup (w_objs w) id = Some p /\ (2 ^ 63 <= lenN p)%N.

(* [b = true]: the HEAD clause is not claimed (needed for the crash window of
   [branch --rename]); [b = false]: it is *)
Definition Good (b : bool) (w : world) : Prop := GoodNH w /\ (b = true \/ HeadOk w).
Definition CInv (b : bool) (w : world) : Prop := ~ Bad w -> Good b w.

Definition ConnectedNoHead (w : world) : Prop :=
  (forall n id, am_get (w_refs w) n = Some id -> commit_ok (w_objs w) id) /\
  Forall (fun e => blob_ok (w_objs w) (e_id e)) (idx_of w) /\
  Closed (w_objs w) /\
  WellNamed (w_objs w).

Lemma good_connected_nh : forall w, GoodNH w -> ConnectedNoHead w.
Proof.
  intros w Hg. split; [|split; [|split]].
  - intros n id H. apply am_get_In in H. pose proof (g_refs w Hg) as Hr.
    rewrite Forall_forall in Hr. apply (Hr (n, id) H).
  - apply (Forall_impl _ (P := entry_good (w_objs w))); [|apply (g_idx w Hg)]. intros e [H _]. exact H.
  - split.
    + intros id d H. apply tree_good_items_ok. apply (g_trees w Hg id d H).
    + apply (g_commits w Hg).
  - apply (g_named w Hg).
Qed.

Lemma connected_split : forall w, Connected w <-> ConnectedNoHead w /\ HeadOk w.
Proof. intros w. unfold Connected, ConnectedNoHead, HeadOk. tauto. Qed.

Lemma good_connected : forall w, Good false w -> Connected w.
Proof.
  intros w [Hg [Hb|Hh]]; [discriminate Hb|]. apply connected_split. split; [apply good_connected_nh; exact Hg | exact Hh].
Qed.

(** ** [Bad] is sticky *)
Lemma bad_sticky : forall e w, Bad w -> Bad (apply_effect e w).
Proof.
  intros e w [Hc|(id & p & Hl & Hbig)].
  - left. apply coll_sticky. exact Hc.
  - destruct (w_coll (apply_effect e w)) eqn:Ec; [left; exact Ec|].
    right. exists id, p. split; [|exact Hbig]. apply effect_store_grows; assumption.
Qed.

Lemma bad_sticky_trace : forall tr w, Bad w -> Bad (apply_effects tr w).
Proof.
  induction tr as [|e tr IH]; intros w Hb; [exact Hb|].
  rewrite apply_effects_cons. apply IH. apply bad_sticky. exact Hb.
Qed.

Lemma bad_not_put : forall e w, is_put e = false -> (Bad (apply_effect e w) <-> Bad w).
Proof.
  intros e w He. unfold Bad. rewrite (w_objs_not_put e w He), (w_coll_not_put e w He). tauto.
Qed.

(** ** what each effect must satisfy *)
Definition obj_good (st : store) (k : kind) (d : bytes) : Prop :=
  match k with
  | KTree => tree_good st d
  | KCommit => forall c, parse_commit d = Some c -> tree_ok st (c_tree c) /\ Forall (commit_ok st) (c_parents c)
  | _ => True
  end.

Definition Gc (b : bool) (w : world) (e : effect) : Prop :=
  match e with
  | EInit => w_inited w = false
  | EPutObj id p => exists k d, id = obj_id k d /\ p = payload k d /\
                               ((lenN d < 2 ^ 63)%N -> obj_good (w_objs w) k d)
  | ESetRef n id => w_inited w = true /\ commit_ok (w_objs w) id /\ (w_refs w = [] -> n = w_head w)
  | EDelRef n => n <> w_head w
  | ERenameRef o n => am_mem (w_refs w) o = true /\ (b = true \/ o <> w_head w)
  | ESetHead n => w_refs w = [] \/ am_mem (w_refs w) n = true
  | ESetIndex es => Forall (entry_good (w_objs w)) es
  | ESetLcfg c => forall cf, cfg_of c = Some cf -> cfg_nonl cf
  | ESetGcfg c => forall cf, cfg_of c = Some cf -> cfg_nonl cf
  | EWriteFile p _ => valid_path p
  | _ => True
  end.

(* the form used with the program logic: the guarantee is only owed when the
   effect does not make the world [Bad] *)
Definition CG (b : bool) (w : world) (e : effect) : Prop := ~ Bad (apply_effect e w) -> Gc b w e.

(** ** preservation, effect by effect *)
Lemma good_put : forall b w id p, Good b w -> Gc b w (EPutObj id p) ->
  ~ Bad (apply_effect (EPutObj id p) w) -> Good b (apply_effect (EPutObj id p) w).
Proof.
  intros b w id p [Hg Hh] (k & d & Hid & Hp & Hobj) Hnb.
  assert (Hcoll : st_collides (w_objs w) id p = false).
  { destruct (st_collides (w_objs w) id p) eqn:E; [|reflexivity].
    exfalso. apply Hnb. left. rewrite w_coll_EPutObj, E. apply orb_true_r. }
  assert (Hsmall : (lenN d < 2 ^ 63)%N).
  { destruct (N.ltb (lenN p) (2 ^ 63)) eqn:E.
    - apply N.ltb_lt in E. pose proof (lenN_payload k d) as Hle. rewrite <- Hp in Hle. lia.
    - apply N.ltb_ge in E. exfalso. apply Hnb. right. exists id, p.
      rewrite w_objs_EPutObj, st_lookup_set_same. split; [reflexivity | exact E]. }
  specialize (Hobj Hsmall).
  pose proof (put_le _ _ _ Hcoll) as Hle.
  assert (Hnew : forall i kd, get_obj (st_set (w_objs w) id p) i = Some kd ->
                   (i = id /\ kd = (k, d)) \/ get_obj (w_objs w) i = Some kd).
  { intros i kd H. destruct (get_obj_put_inv _ _ _ _ _ Hcoll H) as [(-> & _ & Hpp)|H']; [|right; exact H'].
    left. split; [reflexivity|]. rewrite Hp, (payload_roundtrip k d Hsmall) in Hpp. injection Hpp as <-. reflexivity. }
  split.
  - constructor; autorewrite with wfields.
    + apply (Forall_impl _ (P := fun kv => commit_ok (w_objs w) (snd kv))); [|apply (g_refs w Hg)].
      intros kv. apply commit_ok_le. exact Hle.
    + unfold idx_of. rewrite w_index_EPutObj. fold (idx_of w).
      apply (Forall_impl _ (P := entry_good (w_objs w))); [|apply (g_idx w Hg)].
      intros e [H1 H2]. split; [apply (blob_ok_le _ _ _ Hle H1) | exact H2].
    + intros i t Ht. apply get_kind_iff in Ht. destruct (Hnew _ _ Ht) as [[-> Hkd]|H'].
      * injection Hkd as <- <-. apply (tree_good_le _ _ _ Hle). exact Hobj.
      * apply (tree_good_le _ _ _ Hle). apply (g_trees w Hg i). apply get_kind_iff. exact H'.
    + intros i c Hc. unfold get_commit in Hc.
      destruct (get_kind (st_set (w_objs w) id p) KCommit i) as [t|] eqn:Et; [|discriminate Hc].
      apply get_kind_iff in Et.
      assert (Hold : tree_ok (w_objs w) (c_tree c) /\ Forall (commit_ok (w_objs w)) (c_parents c)).
      { destruct (Hnew _ _ Et) as [[-> Hkd]|H'].
        - injection Hkd as <- <-. apply Hobj. exact Hc.
        - apply (g_commits w Hg i). unfold get_commit. apply get_kind_iff in H'. rewrite H'. exact Hc. }
      destruct Hold as [H1 H2]. split; [apply (tree_ok_le _ _ _ Hle H1)|].
      apply (Forall_impl _ (P := commit_ok (w_objs w))); [|exact H2]. intros x. apply commit_ok_le. exact Hle.
    + intros i q Hl. destruct (lookup_put_inv _ _ _ _ _ Hcoll Hl) as [[-> ->]|H'].
      * rewrite Hid, Hp. reflexivity.
      * apply (g_named w Hg i q H').
    + apply (g_wt w Hg).
    + destruct (g_cfg w Hg) as [H1 H2]. split; autorewrite with wfields; assumption.
    + apply (g_init w Hg).
  - destruct Hh as [Hh|Hh]; [left; exact Hh|]. right. unfold HeadOk in *. autorewrite with wfields. exact Hh.
Qed.

(* effects that leave the store alone: the store-level clauses carry over *)
Ltac frame_store Hg :=
  first [ apply (g_trees _ Hg) | apply (g_commits _ Hg) | apply (g_named _ Hg) ].

Lemma HeadOk_frame : forall w w', w_refs w' = w_refs w -> w_head w' = w_head w -> HeadOk w -> HeadOk w'.
Proof. intros w w' Hr Hh H. unfold HeadOk in *. rewrite Hr, Hh. exact H. Qed.

Lemma good_other : forall b w e, Good b w -> Gc b w e -> is_put e = false -> Good b (apply_effect e w).
Proof.
  intros b w e [Hg Hh] Hgc Hput.
  assert (Hobjs : w_objs (apply_effect e w) = w_objs w) by (apply w_objs_not_put; exact Hput).
  destruct e; try discriminate Hput; cbn [Gc] in Hgc.
  - (* EInit *)
    assert (Hrefs : w_refs w = []) by (destruct (g_init w Hg) as [H|H]; [rewrite H in Hgc; discriminate Hgc | exact H]).
    split.
    + constructor; autorewrite with wfields; try frame_store Hg.
      * apply (g_refs w Hg).
      * unfold idx_of. rewrite w_index_EInit. apply (g_idx w Hg).
      * apply (g_wt w Hg).
      * destruct (g_cfg w Hg) as [H1 H2]. split; autorewrite with wfields; [|exact H2].
        intros c Hc. cbn [cfg_of] in Hc. injection Hc as <-. constructor.
      * left. reflexivity.
    + right. left. autorewrite with wfields. exact Hrefs.
  - (* ESetRef *)
    destruct Hgc as (Hin & Hok & Hhd). split.
    + constructor; autorewrite with wfields; try frame_store Hg.
      * apply Forall_forall. intros kv Hkv. apply am_set_In in Hkv. destruct Hkv as [->|Hkv]; [exact Hok|].
        pose proof (g_refs w Hg) as Hr. rewrite Forall_forall in Hr. apply (Hr kv Hkv).
      * unfold idx_of. rewrite w_index_ESetRef. apply (g_idx w Hg).
      * apply (g_wt w Hg).
      * destruct (g_cfg w Hg) as [H1 H2]. split; autorewrite with wfields; assumption.
      * left. exact Hin.
    + destruct Hh as [Hh|Hh]; [left; exact Hh|]. right. right. unfold am_mem. autorewrite with wfields.
      destruct (bytes_eq_dec (w_head w) name) as [<-|Hne].
      * rewrite am_get_set_same. reflexivity.
      * rewrite am_get_set_other by exact Hne. destruct Hh as [Hh|Hh]; [|exact Hh].
        exfalso. apply Hne. symmetry. apply Hhd. exact Hh.
  - (* EDelRef *)
    split.
    + constructor; autorewrite with wfields; try frame_store Hg.
      * apply Forall_forall. intros kv Hkv. apply am_del_In in Hkv.
        pose proof (g_refs w Hg) as Hr. rewrite Forall_forall in Hr. apply (Hr kv Hkv).
      * unfold idx_of. rewrite w_index_EDelRef. apply (g_idx w Hg).
      * apply (g_wt w Hg).
      * destruct (g_cfg w Hg) as [H1 H2]. split; autorewrite with wfields; assumption.
      * destruct (g_init w Hg) as [H|H]; [left; exact H | right; rewrite H; reflexivity].
    + destruct Hh as [Hh|Hh]; [left; exact Hh|]. right. unfold HeadOk. autorewrite with wfields.
      destruct Hh as [Hh|Hh]; [left; rewrite Hh; reflexivity|]. right. unfold am_mem.
      rewrite am_get_del_other by (intro X; apply Hgc; symmetry; exact X). exact Hh.
  - (* ERenameRef *)
    destruct Hgc as [Hmem Hhd]. apply am_mem_true in Hmem. destruct Hmem as [id Hid].
    assert (Hinit : w_inited w = true).
    { destruct (g_init w Hg) as [H|H]; [exact H|]. rewrite H in Hid. discriminate Hid. }
    split.
    + constructor; autorewrite with wfields; rewrite ?Hid; try frame_store Hg.
      * apply Forall_forall. intros kv Hkv. pose proof (g_refs w Hg) as Hr. rewrite Forall_forall in Hr.
        apply am_set_In in Hkv. destruct Hkv as [->|Hkv].
        -- apply (Hr (old, id)). apply am_get_In. exact Hid.
        -- apply am_del_In in Hkv. apply (Hr kv Hkv).
      * unfold idx_of. rewrite w_index_ERenameRef. apply (g_idx w Hg).
      * apply (g_wt w Hg).
      * destruct (g_cfg w Hg) as [H1 H2]. split; autorewrite with wfields; assumption.
      * left. exact Hinit.
    + destruct Hh as [Hh|Hh]; [left; exact Hh|]. destruct Hhd as [Hb|Hne]; [left; exact Hb|].
      right. right. unfold am_mem. autorewrite with wfields. rewrite Hid.
      destruct Hh as [Hh|Hh]; [rewrite Hh in Hid; discriminate Hid|].
      destruct (bytes_eq_dec (w_head w) new) as [<-|Hne2].
      * rewrite am_get_set_same. reflexivity.
      * rewrite am_get_set_other by exact Hne2.
        rewrite am_get_del_other by (intro X; apply Hne; symmetry; exact X). exact Hh.
  - (* ESetHead *)
    split.
    + constructor; autorewrite with wfields; try frame_store Hg.
      * apply (g_refs w Hg).
      * unfold idx_of. rewrite w_index_ESetHead. apply (g_idx w Hg).
      * apply (g_wt w Hg).
      * destruct (g_cfg w Hg) as [H1 H2]. split; autorewrite with wfields; assumption.
      * apply (g_init w Hg).
    + right. unfold HeadOk. autorewrite with wfields. exact Hgc.
  - (* ESetIndex *)
    split.
    + constructor; autorewrite with wfields; try frame_store Hg.
      * apply (g_refs w Hg).
      * unfold idx_of. rewrite w_index_ESetIndex. exact Hgc.
      * apply (g_wt w Hg).
      * destruct (g_cfg w Hg) as [H1 H2]. split; autorewrite with wfields; assumption.
      * apply (g_init w Hg).
    + destruct Hh as [Hh|Hh]; [left; exact Hh|]. right. revert Hh. apply HeadOk_frame; autorewrite with wfields; reflexivity.
  - (* EAppendHlog *)
    split.
    + constructor; autorewrite with wfields; try frame_store Hg.
      * apply (g_refs w Hg).
      * unfold idx_of. rewrite w_index_EAppendHlog. apply (g_idx w Hg).
      * apply (g_wt w Hg).
      * destruct (g_cfg w Hg) as [H1 H2]. split; autorewrite with wfields; assumption.
      * apply (g_init w Hg).
    + destruct Hh as [Hh|Hh]; [left; exact Hh|]. right. revert Hh. apply HeadOk_frame; autorewrite with wfields; reflexivity.
  - (* EAppendBlog *)
    split.
    + constructor; autorewrite with wfields; try frame_store Hg.
      * apply (g_refs w Hg).
      * unfold idx_of. rewrite w_index_EAppendBlog. apply (g_idx w Hg).
      * apply (g_wt w Hg).
      * destruct (g_cfg w Hg) as [H1 H2]. split; autorewrite with wfields; assumption.
      * apply (g_init w Hg).
    + destruct Hh as [Hh|Hh]; [left; exact Hh|]. right. revert Hh. apply HeadOk_frame; autorewrite with wfields; reflexivity.
  - (* EDelBlog *)
    split.
    + constructor; autorewrite with wfields; try frame_store Hg.
      * apply (g_refs w Hg).
      * unfold idx_of. rewrite w_index_EDelBlog. apply (g_idx w Hg).
      * apply (g_wt w Hg).
      * destruct (g_cfg w Hg) as [H1 H2]. split; autorewrite with wfields; assumption.
      * apply (g_init w Hg).
    + destruct Hh as [Hh|Hh]; [left; exact Hh|]. right. revert Hh. apply HeadOk_frame; autorewrite with wfields; reflexivity.
  - (* ESetLcfg *)
    split.
    + constructor; autorewrite with wfields; try frame_store Hg.
      * apply (g_refs w Hg).
      * unfold idx_of. rewrite w_index_ESetLcfg. apply (g_idx w Hg).
      * apply (g_wt w Hg).
      * destruct (g_cfg w Hg) as [H1 H2]. split; autorewrite with wfields; assumption.
      * apply (g_init w Hg).
    + destruct Hh as [Hh|Hh]; [left; exact Hh|]. right. revert Hh. apply HeadOk_frame; autorewrite with wfields; reflexivity.
  - (* ESetGcfg *)
    split.
    + constructor; autorewrite with wfields; try frame_store Hg.
      * apply (g_refs w Hg).
      * unfold idx_of. rewrite w_index_ESetGcfg. apply (g_idx w Hg).
      * apply (g_wt w Hg).
      * destruct (g_cfg w Hg) as [H1 H2]. split; autorewrite with wfields; assumption.
      * apply (g_init w Hg).
    + destruct Hh as [Hh|Hh]; [left; exact Hh|]. right. revert Hh. apply HeadOk_frame; autorewrite with wfields; reflexivity.
  - (* EWriteFile *)
    split.
    + constructor; autorewrite with wfields; try frame_store Hg.
      * apply (g_refs w Hg).
      * unfold idx_of. rewrite w_index_EWriteFile. apply (g_idx w Hg).
      * apply Forall_forall. intros kv Hkv. apply am_set_In in Hkv. destruct Hkv as [->|Hkv]; [exact Hgc|].
        pose proof (g_wt w Hg) as Hr. rewrite Forall_forall in Hr. apply (Hr kv Hkv).
      * destruct (g_cfg w Hg) as [H1 H2]. split; autorewrite with wfields; assumption.
      * apply (g_init w Hg).
    + destruct Hh as [Hh|Hh]; [left; exact Hh|]. right. revert Hh. apply HeadOk_frame; autorewrite with wfields; reflexivity.
  - (* ERemovePath *)
    split.
    + constructor; autorewrite with wfields; try frame_store Hg.
      * apply (g_refs w Hg).
      * unfold idx_of. rewrite w_index_ERemovePath. apply (g_idx w Hg).
      * apply Forall_forall. intros kv Hkv. apply am_del_In in Hkv.
        pose proof (g_wt w Hg) as Hr. rewrite Forall_forall in Hr. apply (Hr kv Hkv).
      * destruct (g_cfg w Hg) as [H1 H2]. split; autorewrite with wfields; assumption.
      * apply (g_init w Hg).
    + destruct Hh as [Hh|Hh]; [left; exact Hh|]. right. revert Hh. apply HeadOk_frame; autorewrite with wfields; reflexivity.
  - (* EMkdirAll *)
    split.
    + constructor; autorewrite with wfields; try frame_store Hg.
      * apply (g_refs w Hg).
      * unfold idx_of. rewrite w_index_EMkdirAll. apply (g_idx w Hg).
      * apply (g_wt w Hg).
      * destruct (g_cfg w Hg) as [H1 H2]. split; autorewrite with wfields; assumption.
      * apply (g_init w Hg).
    + destruct Hh as [Hh|Hh]; [left; exact Hh|]. right. revert Hh. apply HeadOk_frame; autorewrite with wfields; reflexivity.
Qed.

Theorem Inv_step : forall b w e, CInv b w -> CG b w e -> CInv b (apply_effect e w).
Proof.
  intros b w e Hi Hg Hnb.
  assert (Hnb0 : ~ Bad w) by (intro H; apply Hnb; apply bad_sticky; exact H).
  specialize (Hi Hnb0). specialize (Hg Hnb).
  destruct (is_put e) eqn:Ep.
  - destruct e; try discriminate Ep. apply good_put; assumption.
  - apply good_other; assumption.
Qed.

(* the rule used at every [emit] *)
Lemma emit_ok : forall b w e,
  (~ Bad (apply_effect e w) -> ~ Bad w -> GoodNH w -> (b = true \/ HeadOk w) -> Gc b w e) ->
  CInv b w -> CG b w e /\ CInv b (apply_effect e w).
Proof.
  intros b w e H Hi.
  assert (Hcg : CG b w e).
  { intro Hnb. assert (Hnb0 : ~ Bad w) by (intro X; apply Hnb; apply bad_sticky; exact X).
    destruct (Hi Hnb0) as [Hg Hh]. apply H; assumption. }
  split; [exact Hcg | apply Inv_step; assumption].
Qed.

(* ================================================================== *)
(** * B0. Pure facts about what the commands write and read *)

(** ** items: induction principle, leaf ids *)
Section ItemInd.
  Variable P : item -> Prop.
  Hypothesis Hf : forall n id, P (IFile n id).
  Hypothesis Hd : forall n sub, Forall P sub -> P (IDir n sub).
  Fixpoint item_ind2 (i : item) : P i :=
    match i with
    | IFile n id => Hf n id
    | IDir n sub =>
        Hd n sub ((fix go (l : list item) : Forall P l :=
                     match l with
                     | [] => Forall_nil P
                     | x :: r => Forall_cons x (item_ind2 x) (go r)
                     end) sub)
    end.
End ItemInd.

Fixpoint leaves_item (i : item) : list bytes :=
  match i with
  | IFile _ id => [id]
  | IDir _ sub => flat_map leaves_item sub
  end.
Definition leaves (its : list item) : list bytes := flat_map leaves_item its.

Lemma leaves_flat_item : forall i pre, map e_id (flat_item pre i) = leaves_item i.
Proof.
  intro i. induction i as [n id | n sub IH] using item_ind2; intro pre.
  - reflexivity.
  - cbn [flat_item leaves_item]. generalize (join_path pre n). intro q.
    induction IH as [|x r Hx Hr IHr]; [reflexivity|].
    cbn [flat_map]. rewrite map_app, Hx, IHr. reflexivity.
Qed.

Lemma leaves_flat : forall its pre, map e_id (flat_items pre its) = leaves its.
Proof.
  induction its as [|i its IH]; intro pre; [reflexivity|].
  unfold flat_items, leaves in *. cbn [flat_map]. rewrite map_app, leaves_flat_item, IH. reflexivity.
Qed.

(** ** a tree whose sub-trees are readable and whose files are stored is good *)
Lemma ser_tree_good : forall st its,
  Forall wf_item its -> Forall (blob_ok st) (leaves its) ->
  (forall x, In x (subsl its) -> get_kind st KTree (obj_id KTree x) = Some x) ->
  tree_good st (ser its).
Proof.
  intros st its Hwf Hleaves Hsubs. exists (map triple its). split.
  - apply parse_items_ser; [exact Hwf|]. pose proof (ser_length its Hwf). lia.
  - apply Forall_forall. intros it Hin. apply in_map_iff in Hin. destruct Hin as (i & <- & Hi).
    rewrite Forall_forall in Hwf. pose proof (Hwf i Hi) as Hwi.
    destruct i as [n id | n sub]; cbn [triple item_good].
    + inversion Hwi as [? ? Hn Hid|]; subst. split; [exact Hn|].
      change (bytes_eqb mode_file mode_dir) with false. cbv iota.
      rewrite Forall_forall in Hleaves. apply Hleaves. unfold leaves. apply in_flat_map.
      exists (IFile n id). split; [exact Hi | left; reflexivity].
    + inversion Hwi as [|? ? Hn Hne Hsub]; subst. split; [exact Hn|].
      change (bytes_eqb mode_dir mode_dir) with true. cbv iota.
      exists (ser sub), (map triple sub). split; [|split].
      * apply Hsubs. apply (in_dir_subs n sub its Hi).
      * apply parse_items_ser; [exact Hsub|]. pose proof (ser_length sub Hsub). lia.
      * destruct sub; [contradiction | discriminate].
Qed.

(** ** the order in which [write_tree] lists the trees: children first *)
Section Ready.
  Variable ids : list bytes.       (* the ids of the staged entries *)

  Definition tree_ready (acc : list bytes) (d : bytes) : Prop :=
    exists sub, d = ser sub /\ Forall wf_item sub /\ incl (leaves sub) ids /\ incl (subsl sub) acc.

  Fixpoint ready_list (acc : list bytes) (l : list bytes) : Prop :=
    match l with
    | [] => True
    | d :: r => tree_ready acc d /\ ready_list (acc ++ [d]) r
    end.

  Lemma ready_list_app : forall a acc b,
    ready_list acc a -> ready_list (acc ++ a) b -> ready_list acc (a ++ b).
  Proof.
    induction a as [|d a IH]; intros acc b Ha Hb.
    - rewrite app_nil_r in Hb. exact Hb.
    - destruct Ha as [Hd Ha]. cbn [app ready_list]. split; [exact Hd|].
      apply IH; [exact Ha|]. rewrite <- app_assoc. exact Hb.
  Qed.

  Definition ready_item (i : item) : Prop :=
    wf_item i -> incl (leaves_item i) ids -> forall acc, ready_list acc (subs_item i).

  Lemma ready_subsl_aux : forall its, Forall ready_item its ->
    Forall wf_item its -> incl (leaves its) ids -> forall acc, ready_list acc (subsl its).
  Proof.
    induction its as [|i its IH]; intros Hall Hwf Hl acc; [exact Logic.I|].
    inversion Hall as [|? ? Hi Hr]; subst. inversion Hwf as [|? ? Hwi Hwr]; subst.
    unfold leaves in Hl. cbn [flat_map] in Hl. apply incl_app_inv in Hl. destruct Hl as [Hl1 Hl2].
    unfold subsl. cbn [flat_map]. apply ready_list_app.
    - apply Hi; assumption.
    - apply IH; assumption.
  Qed.

  Lemma ready_item_all : forall i, ready_item i.
  Proof.
    intro i. induction i as [n id | n sub IH] using item_ind2; intros Hwf Hl acc.
    - exact Logic.I.
    - inversion Hwf as [|? ? Hn Hne Hsub]; subst.
      change (subs_item (IDir n sub)) with (subsl sub ++ [ser sub]).
      apply ready_list_app.
      + apply ready_subsl_aux; assumption.
      + split; [|exact Logic.I]. exists sub. split; [reflexivity|]. split; [exact Hsub|].
        split; [exact Hl | apply incl_appr; apply incl_refl].
  Qed.

  Lemma ready_top : forall its, Forall wf_item its -> incl (leaves its) ids ->
    ready_list [] (subsl its ++ [ser its]).
  Proof.
    intros its Hwf Hl. apply ready_list_app.
    - apply ready_subsl_aux; [|assumption|assumption]. apply Forall_forall. intros i _. apply ready_item_all.
    - split; [|exact Logic.I]. exists its. split; [reflexivity|]. split; [exact Hwf|].
      split; [exact Hl | apply incl_appr; apply incl_refl].
  Qed.
End Ready.

(* what [write_tree_top] returns, in these terms *)
Lemma write_tree_top_ready : forall es tr,
  Forall valid_entry es -> write_tree_top es = Some tr ->
  ready_list (map e_id es) [] (snd tr ++ [fst tr]).
Proof.
  intros es [root subs] Hv H. destruct (write_tree_top_inv es root subs H) as (its & Hg & -> & ->).
  cbn [fst snd]. unfold group_top in Hg.
  pose proof (group_wf ix_bytes_eqb_eq _ _ _ Hv Hg) as Hwf.
  pose proof (group_flat ix_bytes_eqb_eq _ _ _ Hv Hg) as Hflat.
  apply ready_top; [exact Hwf|]. rewrite <- (leaves_flat its []), Hflat. apply incl_refl.
Qed.

(** ** what Goit's reader returns from a good store *)
Section NodeInd.
  Variable P : node -> Prop.
  Hypothesis H : forall id name ch, Forall P ch -> P (Node id name ch).
  Fixpoint node_ind2 (n : node) : P n :=
    match n with
    | Node id name ch =>
        H id name ch ((fix go (l : list node) : Forall P l :=
                         match l with
                         | [] => Forall_nil P
                         | x :: r => Forall_cons x (node_ind2 x) (go r)
                         end) ch)
    end.
End NodeInd.

Inductive node_good (st : store) : node -> Prop :=
| ng_leaf : forall id name, valid_comp name -> length id = 20 -> blob_ok st id ->
            node_good st (Node id name [])
| ng_dir : forall id name c ch, valid_comp name -> length id = 20 ->
           node_good st c -> Forall (node_good st) ch -> node_good st (Node id name (c :: ch)).

Lemma parse_items_id_len : forall fuel d items,
  parse_tree_items fuel d = Some items -> Forall (fun it => length (snd it) = 20) items.
Proof.
  induction fuel as [|f IH]; intros d items H; cbn [parse_tree_items] in H; [discriminate H|].
  destruct (split1 c_nul d) as [line rest]. destruct line as [|c line]; [injection H as <-; constructor|].
  destruct (split1 c_sp (c :: line)) as [mode [name|]]; [|discriminate H].
  set (r := match rest with Some r => r | None => [] end) in *.
  destruct (Nat.eqb (length (firstn 20 r)) 20) eqn:E; [|discriminate H].
  destruct (parse_tree_items f (skipn 20 r)) as [l|] eqn:El; [|discriminate H].
  injection H as <-. constructor; [apply Nat.eqb_eq in E; exact E | apply (IH _ _ El)].
Qed.

Lemma wk_go_nonempty : forall rec st items ns, wk_go rec st items = Some ns -> items <> [] -> ns <> [].
Proof.
  intros rec st items ns H Hne. destruct items as [|[[mode name] id] r]; [contradiction|].
  cbn [wk_go] in H.
  destruct (if bytes_eqb mode mode_dir then match get_kind st KTree id with Some d => rec d | None => None end else Some []) as [ch|];
    [|discriminate H].
  destruct (wk_go rec st r) as [ns'|]; [|discriminate H]. injection H as <-. discriminate.
Qed.

Lemma walk_good : forall st, TreesGood st -> forall fuel d ns,
  tree_good st d -> walk_tree fuel st d = Some ns -> Forall (node_good st) ns.
Proof.
  intros st Hst. induction fuel as [|f IH]; intros d ns Hd H; [discriminate H|].
  rewrite walk_tree_S in H. destruct Hd as (items & Hp & Hall). rewrite Hp in H.
  pose proof (parse_items_id_len _ _ _ Hp) as Hlen.
  clear Hp. revert ns H. induction items as [|[[mode name] id] r IHr]; intros ns H.
  - injection H as <-. constructor.
  - inversion Hall as [|? ? [Hn Hit] Hr]; subst. inversion Hlen as [|? ? Hl Hlr]; subst. cbn [snd] in Hl.
    cbn [wk_go] in H. destruct (bytes_eqb mode mode_dir).
    + destruct Hit as (d' & its' & Hk & Hp' & Hne). rewrite Hk in H.
      destruct (walk_tree f st d') as [ch|] eqn:Ew; [|discriminate H].
      destruct (wk_go (walk_tree f st) st r) as [ns'|] eqn:Er; [|discriminate H].
      injection H as <-. constructor; [|apply (IHr Hr Hlr _ eq_refl)].
      pose proof (IH d' ch (Hst _ _ Hk) Ew) as Hch.
      assert (Hchne : ch <> []).
      { destruct f as [|f']; [discriminate Ew|]. rewrite walk_tree_S, Hp' in Ew.
        apply (wk_go_nonempty _ _ _ _ Ew Hne). }
      destruct ch as [|c ch]; [contradiction|]. inversion Hch; subst. apply ng_dir; assumption.
    + destruct (wk_go (walk_tree f st) st r) as [ns'|] eqn:Er; [|discriminate H].
      injection H as <-. constructor; [|apply (IHr Hr Hlr _ eq_refl)].
      apply ng_leaf; assumption.
Qed.

Lemma flatten_node_good : forall st n root,
  (root = [] \/ valid_path root) -> node_good st n -> Forall (entry_good st) (flatten_node root n).
Proof.
  intros st n. induction n as [id name ch IH] using node_ind2. intros root Hroot Hn.
  rewrite flatten_node_eq. inversion Hn as [? ? Hname Hid Hb | ? ? c ch' Hname Hid Hc Hch]; subst.
  - constructor; [|constructor]. split; [exact Hb|]. split; [exact Hid|].
    cbn [e_path]. apply valid_path_join; assumption.
  - assert (Hall : Forall (node_good st) (c :: ch')) by (constructor; assumption).
    assert (Hr' : join_path root name = [] \/ valid_path (join_path root name)).
    { right. apply valid_path_join; assumption. }
    revert IH Hall. generalize (c :: ch'). intros l IH Hall.
    induction l as [|x l IHl]; [constructor|].
    inversion IH as [|? ? Hx Hl]; subst. inversion Hall as [|? ? Hgx Hgl]; subst.
    cbn [flat_map]. apply Forall_app. split; [apply Hx; assumption | apply IHl; assumption].
Qed.

Lemma flatten_good : forall st ns, Forall (node_good st) ns -> Forall (entry_good st) (flatten [] ns).
Proof.
  intros st ns H. unfold flatten. induction H as [|n ns Hn Hns IH]; [constructor|].
  cbn [flat_map]. apply Forall_app. split; [|exact IH].
  apply flatten_node_good; [left; reflexivity | exact Hn].
Qed.

Lemma node_good_children : forall st n, node_good st n -> Forall (node_good st) (n_children n).
Proof. intros st n H. inversion H; subst; cbn [n_children]; constructor; assumption. Qed.

Lemma node_good_name : forall st n, node_good st n -> valid_comp (n_name n).
Proof. intros st n H. inversion H; subst; cbn [n_name]; assumption. Qed.

Lemma node_good_leaf : forall st n, node_good st n -> is_leaf n = true ->
  blob_ok st (n_id n) /\ length (n_id n) = 20.
Proof.
  intros st n H Hl. inversion H; subst; cbn [n_id]; [split; assumption|].
  discriminate Hl.
Qed.

Lemma get_node_good : forall st fuel ns p n,
  Forall (node_good st) ns -> get_node_fuel fuel ns p = Some n -> node_good st n /\ valid_path p.
Proof.
  intros st. induction fuel as [|f IH]; intros ns p n Hns H; [discriminate H|].
  cbn [get_node_fuel] in H. destruct (split1 c_slash p) as [name rest] eqn:Es.
  induction Hns as [|c r Hc Hr IHr]; [discriminate H|].
  destruct (bytes_eqb (n_name c) name) eqn:En.
  - apply bytes_eqb_eq in En. destruct rest as [p'|].
    + destruct (is_leaf c); [apply IHr; exact H|].
      destruct (get_node_fuel f (n_children c) p') as [x|] eqn:Ex.
      * injection H as <-. destruct (IH _ _ _ (node_good_children _ _ Hc) Ex) as [Hx Hp'].
        split; [exact Hx|]. apply tf_split1_some_inv in Es. destruct Es as [-> _].
        apply valid_path_cons; [rewrite <- En; apply (node_good_name _ _ Hc) | exact Hp'].
      * apply IHr; exact H.
    + injection H as <-. split; [exact Hc|]. apply tf_split1_none_inv in Es. destruct Es as [-> _].
      apply valid_path_comp. rewrite <- En. apply (node_good_name _ _ Hc).
  - apply IHr; exact H.
Qed.

(** ** the commit text: which tree and parents the reader finds *)
Lemma drop_cr_prefix : forall p s, p <> [] -> last p x00 <> c_cr -> exists s', drop_cr (p ++ s) = p ++ s'.
Proof.
  intros p s Hne Hlast. unfold drop_cr. destruct (rev (p ++ s)) as [|c l] eqn:E; [exists s; reflexivity|].
  destruct (beqb c c_cr) eqn:Ec; [|exists s; reflexivity].
  apply beqb_eq in Ec. subst c.
  assert (Hps : p ++ s = rev l ++ [c_cr]).
  { rewrite <- (rev_involutive (p ++ s)), E. reflexivity. }
  destruct (exists_last (l := s)) as [(s0 & x & ->)|]; [| | ].
  - intro Hs. subst s. rewrite app_nil_r in Hps. rewrite Hps, last_last in Hlast. apply Hlast. reflexivity.
  - rewrite app_assoc in Hps. apply app_inj_tail in Hps. destruct Hps as [Hps _].
    exists s0. rewrite <- Hps. reflexivity.
Qed.
