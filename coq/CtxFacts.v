(* CtxFacts.v — when does the context every command loads first ([load_ctx],
   [BranchFacts.ctx_of]) load, and C02 (`commit`) as a TOTAL statement.

   [ctx_of w = Some c] is a hypothesis of most history-level theorems and is
   NOT an invariant of histories: a .goitignore line outside the alphabet of
   Ignore.v is outside the model.  On a reachable world (no collision, no
   giant object) this is the ONLY way.  (Before the repair of `config` there
   was a second one: a call with a newline in its value or key, or an empty
   section name, wrote a file the next process rejected.  Such a call is now
   refused, ConfigCmdFacts.hostile_config_refused, and both configuration
   files of every reachable world load: [reachable_cfgs_load].)

   1. [ctx_of_iff] [connected_head_commit] [reachable_ctx_loads]
      [reachable_ctx_loads_iff]          the context loads iff the two
                                         configuration files and .goitignore load
      [ign_line_ok_iff] [ign_load_iff]   a decidable reading of the third condition
      [renderable_loads] [loadable_run]  which `config` arguments keep the two
                                         files loadable: a non-empty section
                                         and no newline ([loadable_action],
                                         weaker than ConfigCmdFacts.ok_action)
      [every_action_loadable_or_refused] [cmd_config_loads] [run_cmd_emits_cfgs]
      [reachable_cfgs_load] [cfgs_load_fault]
                                         ... which is exactly what `config`
                                         accepts: the two files load on EVERY
                                         reachable world, and after a failed write
      [reachable_ctx_loads''] [history_ctx_loads'] [reachable_ctx_loads_iff']
                                         the context loads iff .goitignore does
      [history_ctx_loads] ...            (the statements with the hypothesis
                                         [Forall loadable_action h], kept)
      [cx_newline_refused] [broken_config_unreachable] [cx_ignore_*]
                                         by computation: the hostile `config`
                                         calls are refused; a reachable world
                                         whose context does not load (.goitignore)
   2. [commit_total] [commit_total_live] [commit_total_gate]
      [history_commit_total']            HeadFacts.commit_step_spec' with its
                                         remaining hypotheses derived
   3. non-vacuity by computation *)
From Coq Require Import Strings.String Strings.Byte.
From Coq Require Import List Bool NArith ZArith Arith Lia ZifyBool ZifyNat ZifyN.
From Goit Require Import Bytes Sha1 Obj Tree Index Regex GoRegex Commit Reflog Config Ignore World Repo.
From Goit Require Import BytesFacts ObjFacts MonadFacts BranchFacts Inv.
From Goit Require TreeFacts RegexFacts ConfigFacts IgnoreFacts CommitFacts CommitCmdFacts ConfigCmdFacts.
From Goit Require SnapshotFacts ConnectedFacts GateFacts HeadFacts.
Import ListNotations.

Arguments sha1 : simpl never.
#[local] Arguments obj_id : simpl never.
#[local] Arguments payload : simpl never.

(* ================================================================== *)
(** * 1. When the context loads *)

(* the user's ignore file, if there is one *)
Definition ignore_file (w : world) : option bytes := am_get (w_files w) (str ".goitignore"%string).

(* [ctx_of] is four look-ups; it loads exactly when each of them does *)
Lemma ctx_of_iff : forall w,
  (exists c, ctx_of w = Some c) <->
  (cfg_of (w_lcfg w) <> None /\ cfg_of (w_gcfg w) <> None /\
   head_commit w <> None /\ ign_load (ignore_file w) <> None).
Proof.
  intro w. unfold ctx_of, ignore_file. split.
  - intros [c Hc].
    destruct (cfg_of (w_gcfg w)) as [g|]; [|discriminate Hc].
    destruct (cfg_of (w_lcfg w)) as [l|]; [|discriminate Hc].
    destruct (head_commit w) as [hc|]; [|discriminate Hc].
    destruct (ign_load (am_get (w_files w) (str ".goitignore"%string))) as [pats|]; [|discriminate Hc].
    repeat split; discriminate.
  - intros (Hl & Hg & Hh & Hp).
    destruct (cfg_of (w_gcfg w)) as [g|]; [|contradiction Hg; reflexivity].
    destruct (cfg_of (w_lcfg w)) as [l|]; [|contradiction Hl; reflexivity].
    destruct (head_commit w) as [hc|]; [|contradiction Hh; reflexivity].
    destruct (ign_load (am_get (w_files w) (str ".goitignore"%string))) as [pats|];
      [|contradiction Hp; reflexivity].
    exists (mkCtx l g hc pats). reflexivity.
Qed.

(* what the loaded context then holds *)
Lemma ctx_of_fields : forall w c,
  ctx_of w = Some c ->
  cfg_of (w_lcfg w) = Some (x_l c) /\ cfg_of (w_gcfg w) = Some (x_g c) /\
  head_commit w = Some (x_headc c) /\ ign_load (ignore_file w) = Some (x_pats c).
Proof.
  intros w c Hc. unfold ctx_of in Hc. unfold ignore_file.
  destruct (cfg_of (w_gcfg w)) as [g|]; [|discriminate Hc].
  destruct (cfg_of (w_lcfg w)) as [l|]; [|discriminate Hc].
  destruct (head_commit w) as [hc|]; [|discriminate Hc].
  destruct (ign_load (am_get (w_files w) (str ".goitignore"%string))) as [pats|]; [|discriminate Hc].
  injection Hc as Hc. subst c. repeat split.
Qed.

(* the third look-up (the commit HEAD resolves to) never fails in a connected
   repository: every branch holds the id of a commit that reads *)
Lemma connected_head_commit : forall w, Connected w -> head_commit w <> None.
Proof.
  intros w (Hrefs & _) Hn. unfold head_commit in Hn.
  destruct (am_get (w_refs w) (w_head w)) as [id|] eqn:Eh; [|discriminate Hn].
  destruct (Hrefs (w_head w) id Eh) as [cm Hcm]. rewrite Hcm in Hn. discriminate Hn.
Qed.

Theorem connected_ctx_loads : forall w,
  Connected w ->
  cfg_of (w_lcfg w) <> None -> cfg_of (w_gcfg w) <> None ->
  ign_load (am_get (w_files w) (str ".goitignore"%string)) <> None ->
  exists c, ctx_of w = Some c.
Proof.
  intros w Hc Hl Hg Hp. apply ctx_of_iff.
  split; [exact Hl|]. split; [exact Hg|]. split; [apply connected_head_commit; exact Hc | exact Hp].
Qed.

Lemma reachable_not_bad_connected : forall w,
  Reachable w -> ~ ConnectedFacts.Bad w -> Connected w.
Proof.
  intros w Hr Hnb. apply ConnectedFacts.not_bad_iff in Hnb. destruct Hnb as [Hc Hs].
  apply ConnectedFacts.reachable_connected; assumption.
Qed.

(* MAIN (1).  [w_inited w = true] is not needed: see [reachable_ctx_loads'] *)
Theorem reachable_ctx_loads' : forall w,
  Reachable w -> ~ ConnectedFacts.Bad w ->
  cfg_of (w_lcfg w) <> None -> cfg_of (w_gcfg w) <> None ->
  ign_load (am_get (w_files w) (str ".goitignore"%string)) <> None ->
  exists c, ctx_of w = Some c.
Proof.
  intros w Hr Hnb Hl Hg Hp.
  apply connected_ctx_loads; try assumption. apply reachable_not_bad_connected; assumption.
Qed.

Theorem reachable_ctx_loads : forall w,
  Reachable w -> ~ ConnectedFacts.Bad w ->
  w_inited w = true ->
  cfg_of (w_lcfg w) <> None -> cfg_of (w_gcfg w) <> None ->
  ign_load (am_get (w_files w) (str ".goitignore"%string)) <> None ->
  exists c, ctx_of w = Some c.
Proof. intros w Hr Hnb _. apply reachable_ctx_loads'; assumption. Qed.

(* the same with the guard spelled the way the other history theorems spell it *)
Theorem reachable_ctx_loads_live : forall w,
  Reachable w -> w_coll w = false -> SnapshotFacts.SmallStore (w_objs w) ->
  cfg_of (w_lcfg w) <> None -> cfg_of (w_gcfg w) <> None ->
  ign_load (am_get (w_files w) (str ".goitignore"%string)) <> None ->
  exists c, ctx_of w = Some c.
Proof.
  intros w Hr Hc Hs. apply reachable_ctx_loads'; [exact Hr|].
  apply ConnectedFacts.not_bad_iff. split; [exact Hc | exact Hs].
Qed.

(* ... and it is an equivalence: on a reachable world (no collision, no giant
   object) the context loads EXACTLY when the three files load, and then it
   holds what they hold *)
Theorem reachable_ctx_loads_iff : forall w,
  Reachable w -> ~ ConnectedFacts.Bad w ->
  ((exists c, ctx_of w = Some c) <->
   (cfg_of (w_lcfg w) <> None /\ cfg_of (w_gcfg w) <> None /\ ign_load (ignore_file w) <> None)).
Proof.
  intros w Hr Hnb. split.
  - intro Hx. apply ctx_of_iff in Hx. destruct Hx as (Hl & Hg & _ & Hp). auto.
  - intros (Hl & Hg & Hp). apply reachable_ctx_loads'; assumption.
Qed.

Theorem reachable_ctx_loads_with : forall w l g pats,
  Reachable w -> ~ ConnectedFacts.Bad w ->
  cfg_of (w_lcfg w) = Some l -> cfg_of (w_gcfg w) = Some g ->
  ign_load (ignore_file w) = Some pats ->
  exists hc, head_commit w = Some hc /\ ctx_of w = Some (mkCtx l g hc pats).
Proof.
  intros w l g pats Hr Hnb Hl Hg Hp.
  pose proof (connected_head_commit w (reachable_not_bad_connected w Hr Hnb)) as Hh.
  destruct (head_commit w) as [hc|] eqn:Eh; [|contradiction Hh; reflexivity].
  exists hc. split; [reflexivity|]. unfold ctx_of. unfold ignore_file in Hp.
  rewrite Hl, Hg, Eh, Hp. reflexivity.
Qed.

(* ------------------------------------------------------------------ *)
(** ** the third condition, decidably: which .goitignore files load *)

(* a line with a '/' (after the first ".*/" match of directoryRegexp): every
   byte inert or '.'; another line: inert, '.' or '*' *)
Definition dir_char_ok (c : byte) : bool := is_inert c || beqb c x2e.
Definition file_char_ok (c : byte) : bool := beqb c x2a || beqb c x2e || is_inert c.

Definition ign_line_ok (l : bytes) : bool :=
  if re_search re_directoryRegexp l then forallb dir_char_ok l else forallb file_char_ok l.

Definition ign_file_ok (file : option bytes) : bool :=
  match file with
  | None => true
  | Some b => forallb ign_line_ok (scan_lines b)
  end.

Lemma dir_line_regex_iff : forall l, dir_line_regex l <> None <-> forallb dir_char_ok l = true.
Proof.
  induction l as [|c r IH]; cbn [dir_line_regex forallb].
  - split; [reflexivity | discriminate].
  - unfold dir_char_ok at 1. destruct (dir_line_regex r) as [t|].
    + assert (Hr : forallb dir_char_ok r = true) by (apply IH; discriminate).
      rewrite Hr, andb_true_r.
      destruct (is_inert c); [split; [reflexivity | discriminate]|].
      destruct (beqb c x2e); cbn [orb]; split; try discriminate; try reflexivity.
      intro H. contradiction H. reflexivity.
    + assert (Hr : forallb dir_char_ok r = false).
      { destruct (forallb dir_char_ok r) eqn:E; [|reflexivity].
        exfalso. apply (proj2 IH); reflexivity. }
      rewrite Hr, andb_false_r. split; [intro H; contradiction H; reflexivity | discriminate].
Qed.

Lemma file_line_regex_iff : forall l, file_line_regex l <> None <-> forallb file_char_ok l = true.
Proof.
  induction l as [|c r IH]; cbn [file_line_regex forallb].
  - split; [reflexivity | discriminate].
  - unfold file_char_ok at 1. destruct (file_line_regex r) as [t|].
    + assert (Hr : forallb file_char_ok r = true) by (apply IH; discriminate).
      rewrite Hr, andb_true_r.
      destruct (beqb c x2a); [split; [reflexivity | discriminate]|].
      destruct (beqb c x2e); [split; [reflexivity | discriminate]|].
      destruct (is_inert c); cbn [orb]; split; try discriminate; try reflexivity.
      intro H. contradiction H. reflexivity.
    + assert (Hr : forallb file_char_ok r = false).
      { destruct (forallb file_char_ok r) eqn:E; [|reflexivity].
        exfalso. apply (proj2 IH); reflexivity. }
      rewrite Hr, andb_false_r. split; [intro H; contradiction H; reflexivity | discriminate].
Qed.

Theorem ign_line_ok_iff : forall l, ign_line l <> None <-> ign_line_ok l = true.
Proof.
  intro l. unfold ign_line, ign_line_ok.
  destruct (re_search re_directoryRegexp l); [apply dir_line_regex_iff | apply file_line_regex_iff].
Qed.

(* an empty line is always fine: it was the (harmful but loadable) empty
   pattern before the repair, and is skipped since *)
Lemma ign_line_ok_nil : ign_line_ok [] = true.
Proof. vm_compute. reflexivity. Qed.

Lemma ign_lines_iff : forall ls, ign_lines ls <> None <-> forallb ign_line_ok ls = true.
Proof.
  induction ls as [|l r IH]; [cbn [ign_lines forallb]; split; [reflexivity | discriminate]|].
  destruct l as [|c0 l0].
  - (* an empty line is skipped by [ign_lines] and is always fine *)
    cbn [ign_lines forallb]. rewrite ign_line_ok_nil. cbn [andb]. exact IH.
  - rewrite IgnoreFacts.ign_lines_cons by discriminate.
    generalize (c0 :: l0). clear c0 l0. intro l. cbn [forallb].
    pose proof (ign_line_ok_iff l) as Hl.
    destruct (ign_line l) as [x|].
    + assert (El : ign_line_ok l = true) by (apply Hl; discriminate). rewrite El. cbn [andb].
      destruct (ign_lines r) as [xs|].
      * assert (Er : forallb ign_line_ok r = true) by (apply IH; discriminate).
        rewrite Er. split; [reflexivity | discriminate].
      * assert (Er : forallb ign_line_ok r = false).
        { destruct (forallb ign_line_ok r) eqn:E; [|reflexivity]. exfalso. apply (proj2 IH); reflexivity. }
        rewrite Er. split; [intro H; contradiction H; reflexivity | discriminate].
    + assert (El : ign_line_ok l = false).
      { destruct (ign_line_ok l) eqn:E; [|reflexivity]. exfalso. apply (proj2 Hl); reflexivity. }
      rewrite El. cbn [andb]. split; [intro H; contradiction H; reflexivity | discriminate].
Qed.

Theorem ign_load_iff : forall file, ign_load file <> None <-> ign_file_ok file = true.
Proof.
  intros [b|]; cbn [ign_load ign_file_ok].
  - pose proof (ign_lines_iff (scan_lines b)) as H.
    destruct (ign_lines (scan_lines b)) as [xs|].
    + split; [intros _; apply H; discriminate | discriminate].
    + split; [intro X; contradiction X; reflexivity|].
      intro E. exfalso. apply (proj2 H E). reflexivity.
  - split; [reflexivity | discriminate].
Qed.

(* empty lines play no part in whether the file loads (F55: they are skipped;
   before they were the loadable empty pattern) *)
Corollary ign_file_ok_blank_line : forall b1 b2,
  ign_file_ok (Some (b1 ++ [c_nl] ++ [c_nl] ++ b2)) = ign_file_ok (Some (b1 ++ [c_nl] ++ b2)).
Proof.
  intros b1 b2. cbn [app ign_file_ok].
  rewrite (IgnoreFacts.scan_lines_nl_split b1 (c_nl :: b2)), (IgnoreFacts.scan_lines_nl_split b1 b2).
  rewrite IgnoreFacts.scan_lines_nl_cons, !forallb_app. cbn [forallb].
  rewrite ign_line_ok_nil. reflexivity.
Qed.

(* no .goitignore: only the built-in pattern is loaded *)
Lemma no_ignore_file_loads : forall w,
  am_get (w_files w) (str ".goitignore"%string) = None ->
  ign_load (am_get (w_files w) (str ".goitignore"%string)) <> None.
Proof. intros w E. rewrite E. discriminate. Qed.

(* ------------------------------------------------------------------ *)
(** ** exactly which `config` arguments keep the file loadable *)

(* [ConfigCmdFacts.ok_action] is the domain in which the value SET is the
   value READ (C20).  For the file merely to LOAD again much less is needed:
   no newline in the section name, the key and the value, and a non-empty
   section name.  (A tab, surrounding blanks, an '=' in the key change what
   is read back, not whether the file reads.) *)
Definition rd_kv (kv : bytes * bytes) : Prop := ~ In c_nl (fst kv) /\ ~ In c_nl (snd kv).
Definition rd_sec (sm : bytes * kvs) : Prop :=
  fst sm <> [] /\ ~ In c_nl (fst sm) /\ Forall rd_kv (snd sm).
Definition renderable (c : cfg) : Prop := Forall rd_sec c.

Lemma wf_renderable : forall c, ConfigFacts.wf_cfg c -> renderable c.
Proof.
  intros c [_ Hall]. unfold renderable.
  apply (Forall_impl rd_sec (P := ConfigFacts.wf_sec)); [|exact Hall].
  intros [s m] [[Hne Hnl] [_ Hkvs]]. cbn [fst snd] in *.
  split; [exact Hne|]. split; [exact Hnl|].
  apply (Forall_impl rd_kv (P := ConfigFacts.ok_kv)); [|exact Hkvs].
  intros [k v] [[[Hk _] _] [Hv _]]. split; assumption.
Qed.

Lemma cfg_add_renderable : forall c s k v,
  renderable c -> s <> [] -> ~ In c_nl s -> ~ In c_nl k -> ~ In c_nl v ->
  renderable (cfg_add c s k v).
Proof.
  intros c s k v Hall Hne Hs Hk Hv. unfold cfg_add, renderable in *.
  destruct (sec_get c s) as [m|] eqn:E; rewrite ConfigFacts.sec_set_aset.
  - apply ConfigFacts.aset_Forall; [exact Hall|].
    rewrite ConfigFacts.sec_get_aget in E. apply ConfigFacts.aget_some_in in E.
    rewrite Forall_forall in Hall. destruct (Hall (s, m) E) as (_ & _ & Hkvs). cbn [snd] in Hkvs.
    split; [exact Hne|]. split; [exact Hs|]. cbn [snd]. rewrite ConfigFacts.kv_set_aset.
    apply ConfigFacts.aset_Forall; [exact Hkvs|]. split; assumption.
  - apply ConfigFacts.aset_Forall; [exact Hall|].
    split; [exact Hne|]. split; [exact Hs|]. cbn [snd].
    constructor; [split; assumption | constructor].
Qed.

(* the lines the scanner returns for a rendered file *)
Definition rd_kv_line (kv : bytes * bytes) : bytes :=
  (c_tab :: fst kv ++ [c_sp; x3d; c_sp]) ++ drop_cr (snd kv).
Definition rd_lines (c : cfg) : list bytes :=
  flat_map (fun sm => ConfigFacts.sec_line (fst sm) :: map rd_kv_line (snd sm)) c.

Lemma scan_lines_app_nl_cr : forall l r,
  ~ In c_nl l -> scan_lines (l ++ c_nl :: r) = drop_cr l :: scan_lines r.
Proof.
  intros l r Hnin. unfold scan_lines. rewrite (scan_lines_aux_app_nl l [] r Hnin). reflexivity.
Qed.

(* the line scanner drops one trailing carriage return, and only from the end *)
Lemma cx_drop_cr_app : forall p a,
  p <> [] -> last p x00 <> c_cr -> drop_cr (p ++ a) = p ++ drop_cr a.
Proof.
  intros p a Hp Hl. destruct (rev a) as [|x r] eqn:E.
  - assert (Ha : a = []) by (rewrite <- (rev_involutive a), E; reflexivity). subst a.
    change (drop_cr []) with (@nil byte). rewrite app_nil_r. apply drop_cr_id. right. exact Hl.
  - unfold drop_cr. rewrite rev_app_distr, E. cbn [app].
    destruct (beqb x c_cr).
    + rewrite rev_app_distr, rev_involutive. reflexivity.
    + reflexivity.
Qed.

Lemma kv_prefix_last : forall k, last (c_tab :: k ++ [c_sp; x3d; c_sp]) x00 <> c_cr.
Proof.
  intro k.
  assert (E : c_tab :: k ++ [c_sp; x3d; c_sp] = (c_tab :: k ++ [c_sp; x3d]) ++ [c_sp]).
  { cbn [app]. f_equal. rewrite <- app_assoc. reflexivity. }
  rewrite E, last_last. discriminate.
Qed.

Lemma scan_rd_kvs : forall m rest,
  Forall rd_kv m ->
  scan_lines (flat_map render_kv m ++ rest) = map rd_kv_line m ++ scan_lines rest.
Proof.
  induction m as [|[k v] m IH]; intros rest Hall; [reflexivity|].
  apply Forall_cons_iff in Hall. destruct Hall as [[Hk Hv] Hall]. cbn [fst snd] in Hk, Hv.
  cbn [flat_map map]. rewrite ConfigFacts.render_kv_line. rewrite <- !app_assoc. cbn [app].
  rewrite scan_lines_app_nl_cr.
  - rewrite (IH rest Hall). f_equal. unfold ConfigFacts.kv_line, rd_kv_line. cbn [fst snd].
    assert (E : c_tab :: k ++ [c_sp; x3d; c_sp] ++ v = (c_tab :: k ++ [c_sp; x3d; c_sp]) ++ v).
    { cbn [app]. f_equal. rewrite <- app_assoc. reflexivity. }
    rewrite E. apply cx_drop_cr_app; [discriminate | apply kv_prefix_last].
  - unfold ConfigFacts.kv_line. cbn [fst snd].
    apply ConfigFacts.not_in_cons; [discriminate|]. apply ConfigFacts.not_in_app; [exact Hk|].
    cbn [app]. repeat (apply ConfigFacts.not_in_cons; [discriminate|]). exact Hv.
Qed.

Lemma scan_rd_cfg : forall c rest,
  renderable c ->
  scan_lines (cfg_render c ++ rest) = rd_lines c ++ scan_lines rest.
Proof.
  induction c as [|[s m] c IH]; intros rest Hall; [reflexivity|].
  apply Forall_cons_iff in Hall. destruct Hall as [(Hne & Hs & Hkvs) Hall]. cbn [fst snd] in *.
  unfold cfg_render, rd_lines in *. cbn [flat_map fst snd].
  rewrite ConfigFacts.render_sec_line. cbn [fst snd]. rewrite <- !app_assoc. cbn [app].
  rewrite scan_lines_app_nl_cr by (apply ConfigFacts.sec_line_no_nl; exact Hs).
  rewrite (drop_cr_id (ConfigFacts.sec_line s)) by (right; apply ConfigFacts.sec_line_last).
  rewrite (scan_rd_kvs m _ Hkvs). rewrite (IH rest Hall). reflexivity.
Qed.

(* what the loader accepts, line by line: a section line, or (once a section
   is open) a line that starts with a tab and holds an '=' *)
Definition seclike (l : bytes) : Prop :=
  exists s, s <> [] /\ ~ In c_nl s /\ l = ConfigFacts.sec_line s.
Definition kvlike (l : bytes) : Prop :=
  ~ In c_nl l /\ (exists r, l = c_tab :: r) /\ In x3d l.
Fixpoint accepted (ls : list bytes) (open : bool) : Prop :=
  match ls with
  | [] => True
  | l :: r => (seclike l \/ (open = true /\ kvlike l)) /\ accepted r true
  end.

Lemma load_accepted : forall ls acc cur,
  accepted ls (match cur with Some _ => true | None => false end) ->
  cfg_load_lines ls acc cur <> None.
Proof.
  induction ls as [|l r IH]; intros acc cur Hacc; [discriminate|].
  cbn [accepted] in Hacc. destruct Hacc as [Hl Hr]. cbn [cfg_load_lines].
  destruct Hl as [(s & Hne & Hs & El) | [Hopen (Hnl & [t Et] & Heq)]].
  - assert (Hre : re_search re_identRegexp l = true).
    { apply (RegexFacts.ident_spec l); [rewrite El; apply ConfigFacts.sec_line_no_nl; exact Hs|].
      exists s. rewrite El. reflexivity. }
    rewrite Hre.
    assert (Hlen : length l = S (S (length s))).
    { rewrite El. unfold ConfigFacts.sec_line. cbn [length]. rewrite app_length. cbn [length]. lia. }
    assert (Hleb : Nat.leb (length l) 2 = false).
    { apply Nat.leb_gt. rewrite Hlen. destruct s as [|s0 sr]; [contradiction Hne; reflexivity|].
      cbn [length]. lia. }
    rewrite Hleb. apply IH. exact Hr.
  - assert (Hre : re_search re_identRegexp l = false).
    { destruct (re_search re_identRegexp l) eqn:E; [|reflexivity].
      apply (RegexFacts.ident_spec l Hnl) in E. destruct E as [m0 Hm0].
      rewrite Et in Hm0. cbn [app] in Hm0. discriminate Hm0. }
    rewrite Hre.
    assert (Hblank : is_nil (trim_space l) = false).
    { assert (Hin : In x3d (trim_space l)).
      { apply ConfigFacts.trim_space_keeps; [exact Heq | exact ConfigFacts.is_space_eq]. }
      destruct (trim_space l) as [|x0 r0]; [destruct Hin | reflexivity]. }
    rewrite Hblank.
    destruct cur as [s|]; [|discriminate Hopen].
    assert (Hin : In x3d (remove_tabs l)).
    { unfold remove_tabs. apply filter_In. split; [exact Heq | reflexivity]. }
    destruct (split1 x3d (remove_tabs l)) as [a [b|]] eqn:Esp.
    + apply IH. exact Hr.
    + apply split1_inv_none in Esp. destruct Esp as [Ea Hna]. rewrite Ea in Hin. contradiction.
Qed.

Lemma rd_kv_line_like : forall kv, rd_kv kv -> kvlike (rd_kv_line kv).
Proof.
  intros [k v] [Hk Hv]. cbn [fst snd] in *. unfold rd_kv_line, kvlike. cbn [fst snd].
  split; [|split].
  - cbn [app]. apply ConfigFacts.not_in_cons; [discriminate|].
    rewrite <- app_assoc. apply ConfigFacts.not_in_app; [exact Hk|].
    cbn [app]. repeat (apply ConfigFacts.not_in_cons; [discriminate|]).
    intro Hin. apply ConfigCmdFacts.cc_drop_cr_incl in Hin. exact (Hv Hin).
  - cbn [app]. eexists. reflexivity.
  - apply in_or_app. left. right. apply in_or_app. right. right. left. reflexivity.
Qed.

Lemma rd_lines_accepted : forall c open, renderable c -> accepted (rd_lines c) open.
Proof.
  induction c as [|[s m] c IH]; intros open Hall; [exact Logic.I|].
  apply Forall_cons_iff in Hall. destruct Hall as [(Hne & Hs & Hkvs) Hall]. cbn [fst snd] in *.
  unfold rd_lines. cbn [flat_map fst snd app accepted]. split.
  - left. exists s. repeat split; assumption.
  - fold (rd_lines c). clear Hne Hs.
    induction m as [|kv m IHm]; cbn [map app].
    + apply IH. exact Hall.
    + apply Forall_cons_iff in Hkvs. destruct Hkvs as [Hkv Hkvs]. cbn [accepted]. split.
      * right. split; [reflexivity | apply rd_kv_line_like; exact Hkv].
      * apply IHm. exact Hkvs.
Qed.

Theorem renderable_loads : forall c, renderable c -> cfg_load (cfg_render c) <> None.
Proof.
  intros c Hc. unfold cfg_load.
  rewrite <- (app_nil_r (cfg_render c)). rewrite (scan_rd_cfg c [] Hc).
  rewrite scan_lines_nil, app_nil_r. apply load_accepted. cbn. apply rd_lines_accepted. exact Hc.
Qed.

(* the arguments of a `config` call after which the file still loads *)
Definition loadable_config_args (args : list bytes) : Prop :=
  match args with
  | [key; value] =>
      match split_all x2e key with
      | [sec; k] => sec <> [] /\ ~ In c_nl sec /\ ~ In c_nl k /\ ~ In c_nl value
      | _ => True                                   (* refused: nothing is written *)
      end
  | _ => True
  end.
Definition loadable_cmd (c : cmd) : Prop :=
  match c with CConfig _ args => loadable_config_args args | _ => True end.
Definition loadable_action (a : action) : Prop :=
  match a with ACmd _ c => loadable_cmd c | AEdit _ => True end.

Lemma ok_action_loadable : forall a, ConfigCmdFacts.ok_action a -> loadable_action a.
Proof.
  intros [e c|u] H; [|exact Logic.I]. destruct c; try exact Logic.I.
  cbn [ConfigCmdFacts.ok_action ConfigCmdFacts.ok_cmd] in H.
  cbn [loadable_action loadable_cmd].
  destruct args as [|key [|value [|a3 ar]]]; try exact Logic.I.
  unfold ConfigCmdFacts.ok_config_args in H. unfold loadable_config_args.
  destruct (split_all x2e key) as [|sec [|k [|s3 sr]]]; try exact Logic.I.
  destruct H as ([Hne Hs] & [[Hk _] _] & [Hv _]). repeat split; assumption.
Qed.

Lemma cfg_written_loadable : forall c s k v,
  ConfigFacts.wf_cfg c -> s <> [] -> ~ In c_nl s -> ~ In c_nl k -> ~ In c_nl v ->
  exists c', cfg_written (cfg_add c s k v) = CfgFile (Some c') /\ ConfigFacts.wf_cfg c'.
Proof.
  intros c s k v Hwf Hne Hs Hk Hv. unfold cfg_written.
  destruct (cfg_load (cfg_render (cfg_add c s k v))) as [c'|] eqn:E.
  - exists c'. split; [reflexivity | exact (ConfigCmdFacts.cfg_load_wf _ _ E)].
  - exfalso. apply (renderable_loads (cfg_add c s k v)); [|exact E].
    apply cfg_add_renderable; try assumption. apply wf_renderable. exact Hwf.
Qed.

(* what passes the guard of `config` (Repo.config_args_ok) is in
   [loadable_config_args] (the guard is stronger: it also refuses a key the
   loader would read back as another key) *)
Lemma config_args_ok_loadable : forall key value sec k,
  split_all x2e key = [sec; k] ->
  config_args_ok sec k key value = true -> loadable_config_args [key; value].
Proof.
  intros key value sec k Hsp Hok. cbn [loadable_config_args]. rewrite Hsp.
  apply (ConfigCmdFacts.config_args_ok_iff key value sec k Hsp) in Hok.
  destruct Hok as (Hne & Hs & [[Hk _] _] & Hv). repeat split; assumption.
Qed.

(* whatever its arguments, `config` keeps both files loadable: what passes
   its guard renders to a file that loads *)
Lemma cmd_config_loads : forall x g args w,
  ctx_of w = Some x ->
  hoare ConfigCmdFacts.CfgGood ConfigCmdFacts.good_G (eq w) (cmd_config x g args) (fun _ _ => True).
Proof.
  intros x g args w Hx. apply at_Inv. intro Hi0.
  destruct (ConfigCmdFacts.CfgGood_ctx w x Hi0 Hx) as [Hwl Hwg].
  unfold cmd_config.
  destruct args as [|key [|value [|a3 ar]]]; try apply hoare_fail.
  destruct (split_all x2e key) as [|sec [|k [|s3 sr]]] eqn:Esp; try apply hoare_fail.
  apply at_bind_guard. intro Hgd.
  apply (ConfigCmdFacts.config_args_ok_iff key value sec k Esp) in Hgd.
  destruct Hgd as (Hne & Hs & [[Hk _] _] & Hv).
  destruct (cfg_written_loadable (x_l x) sec k value Hwl Hne Hs Hk Hv) as (cl & El & Hcl).
  destruct (cfg_written_loadable (x_g x) sec k value Hwg Hne Hs Hk Hv) as (cg & Eg & Hcg).
  rewrite El, Eg.
  hsteps; try exact Logic.I.
  all: first [ apply ConfigCmdFacts.CfgGood_set_g;
                 [first [assumption | exact ConfigCmdFacts.wf_cfg_nil] | assumption]
             | apply ConfigCmdFacts.CfgGood_set_l; assumption ].
Qed.

Lemma cmd_config_loadable : forall x g args w,
  ctx_of w = Some x -> loadable_config_args args ->
  hoare ConfigCmdFacts.CfgGood ConfigCmdFacts.good_G (eq w) (cmd_config x g args) (fun _ _ => True).
Proof. intros x g args w Hx _. apply cmd_config_loads. exact Hx. Qed.

Theorem run_cmd_emits_loadable : forall e c,
  loadable_cmd c -> emits ConfigCmdFacts.CfgGood ConfigCmdFacts.good_G (run_cmd e c).
Proof.
  intros e c Hok. apply ConfigCmdFacts.run_cmd_emits_cfg;
    [exact ConfigCmdFacts.CfgGood_static | intros _; exact ConfigCmdFacts.CfgGood_init |].
  intros g args Hc x w _ Hx. subst c. apply cmd_config_loadable; [exact Hx | exact Hok].
Qed.

Theorem loadable_step : forall a w,
  loadable_action a -> ConfigCmdFacts.CfgGood w -> ConfigCmdFacts.CfgGood (step_w a w).
Proof.
  intros [e c|u] w Hok Hi; unfold step_w; cbn [step].
  - destruct (run_m (run_cmd e c) w) as [[r w'] tr] eqn:Erun.
    destruct (emits_sound ConfigCmdFacts.CfgGood ConfigCmdFacts.good_G _ _ w r w' tr
                (run_cmd_emits_loadable e c Hok) Hi Erun) as (Hi' & _).
    destruct r; exact Hi'.
  - cbn [fst]. unfold ConfigCmdFacts.CfgGood. rewrite w_lcfg_apply_edit, w_gcfg_apply_edit. exact Hi.
Qed.

Theorem loadable_run_from : forall h w,
  Forall loadable_action h -> ConfigCmdFacts.CfgGood w -> ConfigCmdFacts.CfgGood (run h w).
Proof.
  intro h. induction h as [|a h IH]; intros w Hall Hi; [exact Hi|].
  rewrite run_cons. apply Forall_cons_iff in Hall. destruct Hall as [Ha Hall].
  apply IH; [exact Hall|]. apply loadable_step; assumption.
Qed.

Theorem loadable_run : forall h,
  Forall loadable_action h -> ConfigCmdFacts.CfgGood (run h w_empty).
Proof. intros h Hall. apply loadable_run_from; [exact Hall | exact ConfigCmdFacts.CfgGood_empty]. Qed.

Lemma Forall_ok_loadable : forall h,
  Forall ConfigCmdFacts.ok_action h -> Forall loadable_action h.
Proof.
  intros h H. apply (Forall_impl loadable_action (P := ConfigCmdFacts.ok_action)); [exact ok_action_loadable | exact H].
Qed.

(* ------------------------------------------------------------------ *)
(** ** no condition on the history is needed (after the repair of `config`) *)

(* `config` now refuses what [loadable_action] excludes: every action either
   keeps the files loadable or is refused, the world unchanged *)
Theorem every_action_loadable_or_refused : forall a w,
  loadable_action a \/ step a w = (w, OErr, []).
Proof.
  intros [e c|u] w; [|left; exact Logic.I].
  destruct c; try (left; exact Logic.I). cbn [loadable_action loadable_cmd].
  destruct args as [|key [|value [|a3 ar]]]; try (left; exact Logic.I).
  destruct (split_all x2e key) as [|sec [|k [|s3 sr]]] eqn:Esp;
    try (left; cbn [loadable_config_args]; rewrite Esp; exact Logic.I).
  destruct (config_args_ok sec k key value) eqn:Eok.
  - left. apply (config_args_ok_loadable key value sec k Esp). exact Eok.
  - right. apply ConfigCmdFacts.hostile_config_refused. intros sec0 k0 Hsp0.
    rewrite Esp in Hsp0. injection Hsp0 as <- <-. exact Eok.
Qed.

Theorem run_cmd_emits_cfgs : forall e c,
  emits ConfigCmdFacts.CfgGood ConfigCmdFacts.good_G (run_cmd e c).
Proof.
  intros e c. apply ConfigCmdFacts.run_cmd_emits_cfg;
    [exact ConfigCmdFacts.CfgGood_static | intros _; exact ConfigCmdFacts.CfgGood_init |].
  intros g args Hc x w _ Hx. apply cmd_config_loads. exact Hx.
Qed.

Theorem cfgs_load_step : forall a w, ConfigCmdFacts.CfgGood w -> ConfigCmdFacts.CfgGood (step_w a w).
Proof.
  intros a w Hi. destruct (every_action_loadable_or_refused a w) as [Hl|Hr].
  - apply loadable_step; assumption.
  - unfold step_w. rewrite Hr. exact Hi.
Qed.

(* every history satisfies the hypothesis of [loadable_run], up to refused calls *)
Theorem cfgs_load_run_from : forall h w, ConfigCmdFacts.CfgGood w -> ConfigCmdFacts.CfgGood (run h w).
Proof.
  intro h. induction h as [|a h IH]; intros w Hi; [exact Hi|].
  rewrite run_cons. apply IH. apply cfgs_load_step. exact Hi.
Qed.

Theorem cfgs_load_run : forall h, ConfigCmdFacts.CfgGood (run h w_empty).
Proof. intro h. apply cfgs_load_run_from. exact ConfigCmdFacts.CfgGood_empty. Qed.

(* MAIN: on every reachable repository both configuration files load, as
   well-formed configurations *)
Theorem reachable_cfgs_load : forall w, Reachable w -> ConfigCmdFacts.CfgGood w.
Proof. intros w (h & _ & ->). apply cfgs_load_run. Qed.

(* the same in a world a command stops in when a write fails: a failed write
   leaves the old file (a write is all-or-nothing per file) *)
Theorem cfgs_load_fault : forall e c w k r s',
  ConfigCmdFacts.CfgGood w -> run_cmd e c (mkMS w [] (Some k)) = (r, s') ->
  ConfigCmdFacts.CfgGood (ms_w s').
Proof.
  intros e c w k r s' Hi Hrun.
  exact (proj1 (emits_sound_fault ConfigCmdFacts.CfgGood ConfigCmdFacts.good_G _ _ w k r s'
                  (run_cmd_emits_cfgs e c) Hi Hrun)).
Qed.

Corollary reachable_cfgs_load_neq : forall w,
  Reachable w -> cfg_of (w_lcfg w) <> None /\ cfg_of (w_gcfg w) <> None.
Proof.
  intros w Hr. destruct (reachable_cfgs_load w Hr) as (l & g & Hl & Hg & _).
  rewrite Hl, Hg. split; discriminate.
Qed.

(* MAIN (1) with the two configuration conditions gone: one condition on a
   file is left, and it is the user's own file *)
Theorem reachable_ctx_loads'' : forall w,
  Reachable w -> ~ ConnectedFacts.Bad w ->
  ign_load (am_get (w_files w) (str ".goitignore"%string)) <> None ->
  exists c, ctx_of w = Some c /\ ConfigFacts.wf_cfg (x_l c) /\ ConfigFacts.wf_cfg (x_g c).
Proof.
  intros w Hr Hnb Hp.
  destruct (reachable_cfgs_load w Hr) as (l & g & Hl & Hg & Hwl & Hwg).
  destruct (ign_load (am_get (w_files w) (str ".goitignore"%string))) as [pats|] eqn:Ep;
    [|contradiction Hp; reflexivity].
  destruct (reachable_ctx_loads_with w l g pats Hr Hnb Hl Hg Ep) as (hc & _ & Hx).
  exists (mkCtx l g hc pats). split; [exact Hx|]. split; assumption.
Qed.

Theorem history_ctx_loads' : forall h w,
  Forall action_ok h ->
  w = run h w_empty ->
  ~ ConnectedFacts.Bad w ->
  ign_load (am_get (w_files w) (str ".goitignore"%string)) <> None ->
  exists c, ctx_of w = Some c /\ ConfigFacts.wf_cfg (x_l c) /\ ConfigFacts.wf_cfg (x_g c).
Proof.
  intros h w Hall Hw Hnb Hp. apply reachable_ctx_loads''; [|exact Hnb|exact Hp].
  exists h. split; assumption.
Qed.

(* ... and it is an equivalence *)
Theorem reachable_ctx_loads_iff' : forall w,
  Reachable w -> ~ ConnectedFacts.Bad w ->
  ((exists c, ctx_of w = Some c) <-> ign_load (ignore_file w) <> None).
Proof.
  intros w Hr Hnb. rewrite (reachable_ctx_loads_iff w Hr Hnb).
  destruct (reachable_cfgs_load_neq w Hr) as [Hl Hg]. tauto.
Qed.

Corollary reachable_ctx_loads_live' : forall w,
  Reachable w -> w_coll w = false -> SnapshotFacts.SmallStore (w_objs w) ->
  ign_file_ok (am_get (w_files w) (str ".goitignore"%string)) = true ->
  exists c, ctx_of w = Some c /\ ConfigFacts.wf_cfg (x_l c) /\ ConfigFacts.wf_cfg (x_g c).
Proof.
  intros w Hr Hc Hs Hp. apply reachable_ctx_loads''; [exact Hr| |].
  - apply ConnectedFacts.not_bad_iff. split; [exact Hc | exact Hs].
  - apply ign_load_iff. exact Hp.
Qed.

(* no ignore file at all: nothing is left to assume about files *)
Corollary reachable_ctx_loads_no_ignore : forall w,
  Reachable w -> w_coll w = false -> SnapshotFacts.SmallStore (w_objs w) ->
  am_get (w_files w) (str ".goitignore"%string) = None ->
  exists c, ctx_of w = Some c /\ x_pats c = [ign_builtin].
Proof.
  intros w Hr Hc Hs Hn.
  destruct (reachable_ctx_loads_live' w Hr Hc Hs) as (c & Hx & _).
  - rewrite Hn. reflexivity.
  - exists c. split; [exact Hx|].
    destruct (ctx_of_fields w c Hx) as (_ & _ & _ & Hp). unfold ignore_file in Hp.
    rewrite Hn in Hp. cbn [ign_load] in Hp. injection Hp as Hp. symmetry. exact Hp.
Qed.

(* ------------------------------------------------------------------ *)
(** ** the two configuration conditions, from the history
       (the statements before the repair of `config`, kept: their hypothesis
       [Forall loadable_action h] is no longer needed, see above) *)

(* every `config` call of the history that is not refused sets a non-empty
   section name and no newline in the section name, the key and the value
   ([loadable_action]; in particular every history in the domain of C20,
   [ConfigCmdFacts.ok_action]): both files then load, as well-formed
   configurations *)
Theorem history_cfgs_load : forall h,
  Forall loadable_action h ->
  exists l g, cfg_of (w_lcfg (run h w_empty)) = Some l /\ cfg_of (w_gcfg (run h w_empty)) = Some g /\
              ConfigFacts.wf_cfg l /\ ConfigFacts.wf_cfg g.
Proof. intros h Hok. exact (loadable_run h Hok). Qed.

Corollary history_cfgs_load_neq : forall h,
  Forall loadable_action h ->
  cfg_of (w_lcfg (run h w_empty)) <> None /\ cfg_of (w_gcfg (run h w_empty)) <> None.
Proof.
  intros h Hok. destruct (history_cfgs_load h Hok) as (l & g & Hl & Hg & _).
  rewrite Hl, Hg. split; discriminate.
Qed.

(* MAIN (1), history form: one condition on a file is left, and it is the
   user's own file *)
Theorem history_ctx_loads : forall h w,
  Forall action_ok h -> Forall loadable_action h ->
  w = run h w_empty ->
  ~ ConnectedFacts.Bad w ->
  ign_load (am_get (w_files w) (str ".goitignore"%string)) <> None ->
  exists c, ctx_of w = Some c /\ ConfigFacts.wf_cfg (x_l c) /\ ConfigFacts.wf_cfg (x_g c).
Proof.
  intros h w Hall Hok Hw Hnb Hp.
  assert (Hr : Reachable w) by (exists h; split; assumption).
  destruct (history_cfgs_load h Hok) as (l & g & Hl & Hg & Hwl & Hwg).
  rewrite <- Hw in Hl, Hg.
  destruct (ign_load (am_get (w_files w) (str ".goitignore"%string))) as [pats|] eqn:Ep;
    [|contradiction Hp; reflexivity].
  destruct (reachable_ctx_loads_with w l g pats Hr Hnb Hl Hg Ep) as (hc & _ & Hx).
  exists (mkCtx l g hc pats). split; [exact Hx|]. split; assumption.
Qed.

(* the statement with the condition of C20 on the `config` calls *)
Corollary history_ctx_loads_ok : forall h w,
  Forall action_ok h -> Forall ConfigCmdFacts.ok_action h ->
  w = run h w_empty ->
  ~ ConnectedFacts.Bad w ->
  ign_load (am_get (w_files w) (str ".goitignore"%string)) <> None ->
  exists c, ctx_of w = Some c /\ ConfigFacts.wf_cfg (x_l c) /\ ConfigFacts.wf_cfg (x_g c).
Proof.
  intros h w Hall Hok. apply (history_ctx_loads h w Hall). apply Forall_ok_loadable. exact Hok.
Qed.

Corollary history_ctx_loads_live : forall h w,
  Forall action_ok h -> Forall loadable_action h ->
  w = run h w_empty ->
  w_coll w = false -> SnapshotFacts.SmallStore (w_objs w) ->
  ign_file_ok (am_get (w_files w) (str ".goitignore"%string)) = true ->
  exists c, ctx_of w = Some c /\ ConfigFacts.wf_cfg (x_l c) /\ ConfigFacts.wf_cfg (x_g c).
Proof.
  intros h w Hall Hok Hw Hc Hs Hp. apply (history_ctx_loads h w); try assumption.
  - apply ConnectedFacts.not_bad_iff. split; [exact Hc | exact Hs].
  - apply ign_load_iff. exact Hp.
Qed.

(* no ignore file at all: nothing is left to assume about files *)
Corollary history_ctx_loads_no_ignore : forall h w,
  Forall action_ok h -> Forall loadable_action h ->
  w = run h w_empty ->
  w_coll w = false -> SnapshotFacts.SmallStore (w_objs w) ->
  am_get (w_files w) (str ".goitignore"%string) = None ->
  exists c, ctx_of w = Some c /\ x_pats c = [ign_builtin].
Proof.
  intros h w Hall Hok Hw Hc Hs Hn.
  destruct (history_ctx_loads_live h w Hall Hok Hw Hc Hs) as (c & Hx & _).
  - rewrite Hn. reflexivity.
  - exists c. split; [exact Hx|].
    destruct (ctx_of_fields w c Hx) as (_ & _ & _ & Hp). unfold ignore_file in Hp.
    rewrite Hn in Hp. cbn [ign_load] in Hp. injection Hp as Hp. symmetry. exact Hp.
Qed.

(* ------------------------------------------------------------------ *)
(** ** the converse, by computation: reachable worlds whose context does not load *)

Definition cx_env : env := mkEnv 1700000000 0.

(* (a) before the repair of `config`, `init; config user.name "a\nb"` left a
   reachable world whose local file the loader rejects.  The call is now
   refused: the history ends in the world `init` leaves, whose context loads,
   although the history is not in the domain of [loadable_action] *)
Definition cx_hist_nl : list action :=
  [ACmd cx_env CInit; ACmd cx_env (CConfig false [str "user.name"%string; [x61; x0a; x62]])].

Definition cx_w_nl : world := Eval vm_compute in run cx_hist_nl w_empty.
Lemma cx_w_nl_run : run cx_hist_nl w_empty = cx_w_nl.
Proof. vm_compute. reflexivity. Qed.

Example cx_nl_reachable : Reachable cx_w_nl.
Proof.
  exists cx_hist_nl. split; [|symmetry; exact cx_w_nl_run].
  repeat constructor.
Qed.

Example cx_newline_refused :
  cx_w_nl = ConfigCmdFacts.w_inited0 /\
  step (ACmd cx_env (CConfig false [str "user.name"%string; [x61; x0a; x62]])) ConfigCmdFacts.w_inited0
    = (ConfigCmdFacts.w_inited0, OErr, []) /\
  w_lcfg cx_w_nl = CfgFile (Some []) /\ w_gcfg cx_w_nl = CfgAbsent /\
  (exists c, ctx_of cx_w_nl = Some c) /\
  ~ Forall loadable_action cx_hist_nl.
Proof.
  split; [vm_compute; reflexivity|].
  split; [vm_compute; reflexivity|].
  split; [vm_compute; reflexivity|].
  split; [vm_compute; reflexivity|].
  split; [eexists; vm_compute; reflexivity|].
  intro Hall. inversion Hall as [|a1 t1 _ Ht]; subst. inversion Ht as [|a2 t2 Ha _]; subst.
  cbn in Ha. destruct Ha as (_ & _ & _ & Hv). apply Hv. right. left. reflexivity.
Qed.

(* the world that call used to produce (ConfigCmdFacts.w_broken, now built by
   hand) is not reachable any more, and neither is any world with a
   configuration file the loader rejects *)
Theorem broken_config_unreachable : forall w, ConfigCmdFacts.cfg_broken w -> ~ Reachable w.
Proof.
  intros w Hb Hr. destruct (reachable_cfgs_load_neq w Hr) as [Hl Hg].
  destruct Hb as [Hb|Hb]; [exact (Hl Hb) | exact (Hg Hb)].
Qed.

Example cx_w_broken_unreachable :
  ~ Reachable ConfigCmdFacts.w_broken /\ ctx_of ConfigCmdFacts.w_broken = None.
Proof.
  split; [|vm_compute; reflexivity].
  apply broken_config_unreachable. left. vm_compute. reflexivity.
Qed.

(* (a') the two other ways, refused as well: an empty section name (`config .k v`
   used to write the line "[]", which the loader rejects) and a newline in
   the key *)
Example cx_empty_section_refused :
  run [ACmd cx_env CInit; ACmd cx_env (CConfig false [str ".k"%string; str "v"%string])] w_empty
    = ConfigCmdFacts.w_inited0 /\
  step (ACmd cx_env (CConfig false [str ".k"%string; str "v"%string])) ConfigCmdFacts.w_inited0
    = (ConfigCmdFacts.w_inited0, OErr, []).
Proof. split; vm_compute; reflexivity. Qed.

Example cx_newline_in_key_refused :
  run [ACmd cx_env CInit;
       ACmd cx_env (CConfig true [(str "a.k"%string ++ [c_nl] ++ str "x"%string)%list; str "v"%string])] w_empty
    = ConfigCmdFacts.w_inited0 /\
  step (ACmd cx_env (CConfig true [(str "a.k"%string ++ [c_nl] ++ str "x"%string)%list; str "v"%string]))
       ConfigCmdFacts.w_inited0
    = (ConfigCmdFacts.w_inited0, OErr, []).
Proof. split; vm_compute; reflexivity. Qed.

(* (a'') and what does NOT break it although outside the domain of C20: a tab
   and surrounding blanks in the value (ConfigCmdFacts.ex_not_ok_but_loads:
   another value is read back); an '=' in the key (it used to be read back as
   another key) is now refused, nothing written *)
Definition cx_hist_odd : list action :=
  [ACmd cx_env CInit;
   ACmd cx_env (CConfig false [str "a.k"%string; [x20; x78; x09; x79; x20]]);
   ACmd cx_env (CConfig false [str "a.p=q"%string; str "v"%string])].

Example cx_odd_values_load :
  ~ Forall ConfigCmdFacts.ok_action cx_hist_odd /\
  Forall loadable_action cx_hist_odd /\
  (exists c, ctx_of (run cx_hist_odd w_empty) = Some c /\
             ConfigFacts.wf_cfg (x_l c) /\ ConfigFacts.wf_cfg (x_g c)) /\
  w_lcfg (run cx_hist_odd w_empty)
  = CfgFile (Some [(str "a"%string, [(str "k"%string, str "xy"%string)])]).
Proof.
  assert (Hl : Forall loadable_action cx_hist_odd).
  { unfold cx_hist_odd. repeat (apply Forall_cons || apply Forall_nil);
      cbn [loadable_action loadable_cmd]; try exact Logic.I.
    all: vm_compute; repeat split; try reflexivity; intuition discriminate. }
  split; [|split; [exact Hl|split]].
  - intro Hall. inversion Hall as [|a1 t1 _ Ht]; subst. inversion Ht as [|a2 t2 Ha _]; subst.
    cbn in Ha. destruct Ha as (_ & _ & _ & Htab & _). apply Htab. right. right. left. reflexivity.
  - apply (history_ctx_loads_live cx_hist_odd (run cx_hist_odd w_empty)).
    + repeat constructor.
    + exact Hl.
    + reflexivity.
    + vm_compute. reflexivity.
    + apply SnapshotFacts.small_store_b. vm_compute. reflexivity.
    + vm_compute. reflexivity.
  - vm_compute. reflexivity.
Qed.

(* (b) a .goitignore line outside the alphabet of Ignore.v: a comment line *)
Definition cx_ignore_text : bytes := (str "# build output"%string ++ [c_nl] ++ str "*.o"%string ++ [c_nl])%list.
Definition cx_hist_ig : list action :=
  [ACmd cx_env CInit; AEdit (UWrite (str ".goitignore"%string) cx_ignore_text)].

Definition cx_w_ig : world := Eval vm_compute in run cx_hist_ig w_empty.
Lemma cx_w_ig_run : run cx_hist_ig w_empty = cx_w_ig.
Proof. vm_compute. reflexivity. Qed.

Example cx_ig_actions_ok : Forall action_ok cx_hist_ig.
Proof.
  unfold cx_hist_ig.
  repeat (apply Forall_cons || apply Forall_nil); cbn [action_ok edit_ok]; try exact Logic.I.
  unfold TreeFacts.valid_path; simpl; TreeFacts.tf_valid.
Qed.

Example cx_ig_reachable : Reachable cx_w_ig.
Proof. exists cx_hist_ig. split; [exact cx_ig_actions_ok | symmetry; exact cx_w_ig_run]. Qed.

Example cx_ignore_breaks_ctx :
  w_inited cx_w_ig = true /\ ~ ConnectedFacts.Bad cx_w_ig /\
  Forall ConfigCmdFacts.ok_action cx_hist_ig /\ Forall loadable_action cx_hist_ig /\
  cfg_of (w_lcfg cx_w_ig) <> None /\ cfg_of (w_gcfg cx_w_ig) <> None /\
  ign_load (am_get (w_files cx_w_ig) (str ".goitignore"%string)) = None /\
  ign_file_ok (am_get (w_files cx_w_ig) (str ".goitignore"%string)) = false /\
  ign_line (str "# build output"%string) = None /\ ign_line (str "*.o"%string) <> None /\
  ctx_of cx_w_ig = None /\
  (forall e, step (ACmd e CStatus) cx_w_ig = (cx_w_ig, OErr, [])).
Proof.
  split; [vm_compute; reflexivity|].
  split; [apply ConnectedFacts.bad_b_false; vm_compute; reflexivity|].
  split; [repeat constructor|].
  split; [repeat constructor|].
  split; [vm_compute; discriminate|].
  split; [vm_compute; discriminate|].
  split; [vm_compute; reflexivity|].
  split; [vm_compute; reflexivity|].
  split; [vm_compute; reflexivity|].
  split; [vm_compute; discriminate|].
  split; [vm_compute; reflexivity|].
  intro e. apply step_not_loaded; [discriminate|]. right. vm_compute. reflexivity.
Qed.

(* with the comment line removed the theorem applies again *)
Definition cx_hist_ig2 : list action :=
  cx_hist_ig ++ [AEdit (UWrite (str ".goitignore"%string) (str "*.o"%string ++ [c_nl]))].

Example cx_ignore_repaired :
  exists c, ctx_of (run cx_hist_ig2 w_empty) = Some c /\
            ConfigFacts.wf_cfg (x_l c) /\ ConfigFacts.wf_cfg (x_g c).
Proof.
  apply (history_ctx_loads_live cx_hist_ig2 (run cx_hist_ig2 w_empty)).
  - unfold cx_hist_ig2. apply Forall_app. split; [exact cx_ig_actions_ok|].
    repeat (apply Forall_cons || apply Forall_nil); cbn [action_ok edit_ok].
    unfold TreeFacts.valid_path; simpl; TreeFacts.tf_valid.
  - repeat constructor.
  - reflexivity.
  - vm_compute. reflexivity.
  - apply SnapshotFacts.small_store_b. vm_compute. reflexivity.
  - vm_compute. reflexivity.
Qed.

(* ================================================================== *)
(** * 2. C02, total: `commit` on a reachable world *)

Import CommitFacts CommitCmdFacts.

(* [Bad] does not heal: a world reached by further effects that is not bad
   comes from worlds that are not bad *)
Lemma not_bad_before : forall tr w, ~ ConnectedFacts.Bad (apply_effects tr w) -> ~ ConnectedFacts.Bad w.
Proof. intros tr w Hnb X. apply Hnb. apply ConnectedFacts.bad_sticky_trace. exact X. Qed.

Lemma not_bad_mid : forall pre ef post w,
  ~ ConnectedFacts.Bad (apply_effects (pre ++ ef :: post) w) ->
  ~ ConnectedFacts.Bad (apply_effect ef (apply_effects pre w)).
Proof.
  intros pre ef post w Hnb. rewrite apply_effects_app, apply_effects_cons in Hnb.
  exact (not_bad_before post _ Hnb).
Qed.

(* the 2^63 guards of [commit_spec], for the trees and the commit text that
   THIS commit writes.  They do not follow from [SmallStore (w_objs w)] (the
   objects are new) ... *)
Definition commit_sizes_ok (e : env) (c : ctx) (msg : bytes) (w : world) : Prop :=
  forall root subs, write_tree_top (idx_of w) = Some (root, subs) ->
    (forall d, In d (subs ++ [root]) -> (lenN d < 2 ^ 63)%N) /\
    (lenN (commit_data e c msg w root) < 2 ^ 63)%N.

(* ... but they do follow from the project's guard on the world AFTER the
   commit: every object this commit wrote is in that store *)
Lemma after_commit_sizes : forall e c msg w root subs,
  ~ ConnectedFacts.Bad (after_commit e c msg w root subs) ->
  (forall d, In d (subs ++ [root]) -> (lenN d < 2 ^ 63)%N) /\
  (lenN (commit_data e c msg w root) < 2 ^ 63)%N.
Proof.
  intros e c msg w root subs Hnb. unfold after_commit, do_commit_trace in Hnb. split.
  - intros d Hin. apply in_split in Hin. destruct Hin as (l1 & l2 & El).
    rewrite El in Hnb. rewrite map_app in Hnb. cbn [map] in Hnb.
    rewrite <- app_assoc in Hnb. rewrite <- app_comm_cons in Hnb.
    apply not_bad_mid in Hnb. unfold put_tree_eff in Hnb.
    exact (ConnectedFacts.put_small KTree d _ Hnb).
  - unfold commit_tail in Hnb. apply not_bad_mid in Hnb. unfold commit_id in Hnb.
    exact (ConnectedFacts.put_small KCommit _ _ Hnb).
Qed.

(* MAIN (2).  HeadFacts.commit_step_spec' with
   - [Forall valid_entry (idx_of w)]          from SnapshotFacts.reachable_good,
   - [write_tree_top (idx_of w) = Some ..]    from TreeFacts.write_tree_fuel_any,
   - [parse_commit .. = Some cm]              from CommitCmdFacts.commit_parses
                                              (cm is [commit_of e c msg w root]),
   - [~ In c_nl (commit_sign e c)]            from CommitCmdFacts.sign_ok_nl
   derived; the two size guards are kept, as [commit_sizes_ok] *)
Theorem commit_total : forall e msg w c,
  Reachable w -> w_coll w = false -> SnapshotFacts.SmallStore (w_objs w) ->
  ctx_of w = Some c -> gate_open w c ->
  sign_ok (user_name (x_l c) (x_g c)) (user_email (x_l c) (x_g c)) (e_time e) (e_off e) ->
  commit_sizes_ok e c msg w ->
  exists root subs cm,
    write_tree_top (idx_of w) = Some (root, subs) /\
    cm = commit_of e c msg w root /\
    step (ACmd e (CCommit msg)) w =
      (after_commit e c msg w root subs, OOk [], do_commit_trace e c msg w root subs) /\
    commit_post e c msg w root cm (after_commit e c msg w root subs) /\
    c_msg cm = msg /\
    c_parents cm = parent_list (tip_of w).
Proof.
  intros e msg w c Hr Hc Hsm Hx Hg Hso Hsz.
  pose proof (SnapshotFacts.reachable_good w Hr Hc Hsm) as Hgood.
  destruct Hgood as (_ & [_ Hv] & _).
  destruct (TreeFacts.write_tree_fuel_any (idx_of w)) as [[root subs] Hw].
  destruct (Hsz root subs Hw) as [Hszt Hszc].
  assert (Htip : forall tip, tip_of w = Some tip -> length tip = 20).
  { intros tip Ht. exact (loaded_tip_length w c tip Hx Ht). }
  pose proof (commit_parses e c msg w root Hso Htip) as Hp.
  pose proof (sign_ok_nl e c Hso) as Hnl.
  destruct (HeadFacts.commit_step_spec' e msg w c root subs (commit_of e c msg w root)
              Hr Hx Hg Hv Hw Hszt Hszc Hp Hnl) as [Hstep Hpost].
  exists root, subs, (commit_of e c msg w root).
  split; [exact Hw|]. split; [reflexivity|]. split; [exact Hstep|]. split; [exact Hpost|].
  split; reflexivity.
Qed.

(* the same with NO size hypothesis: the guard of the history theorems is put
   on the world the step ends in (it then holds before the step as well), and
   the two conditional clauses of [commit_post] hold outright *)
Theorem commit_total_live : forall e msg w c,
  Reachable w -> ctx_of w = Some c -> gate_open w c ->
  sign_ok (user_name (x_l c) (x_g c)) (user_email (x_l c) (x_g c)) (e_time e) (e_off e) ->
  w_coll (step_w (ACmd e (CCommit msg)) w) = false ->
  SnapshotFacts.SmallStore (w_objs (step_w (ACmd e (CCommit msg)) w)) ->
  exists root subs cm,
    write_tree_top (idx_of w) = Some (root, subs) /\
    cm = commit_of e c msg w root /\
    step (ACmd e (CCommit msg)) w =
      (after_commit e c msg w root subs, OOk [], do_commit_trace e c msg w root subs) /\
    commit_post e c msg w root cm (after_commit e c msg w root subs) /\
    c_msg cm = msg /\
    c_parents cm = parent_list (tip_of w) /\
    ExactFacts.objs_kept w (after_commit e c msg w root subs) /\
    spec_flatten (S (length (w_objs (after_commit e c msg w root subs))))
      (w_objs (after_commit e c msg w root subs)) [] (c_tree cm) = Some (idx_of w).
Proof.
  intros e msg w c Hr Hx Hg Hso Hc' Hsm'.
  assert (Hnb' : ~ ConnectedFacts.Bad (step_w (ACmd e (CCommit msg)) w)).
  { apply ConnectedFacts.not_bad_iff. split; [exact Hc' | exact Hsm']. }
  assert (Hnb : ~ ConnectedFacts.Bad w).
  { destruct (SnapshotFacts.step_w_eq (ACmd e (CCommit msg)) w) as [tr Htr].
    rewrite Htr in Hnb'. exact (not_bad_before tr w Hnb'). }
  apply ConnectedFacts.not_bad_iff in Hnb. destruct Hnb as [Hc Hsm].
  destruct (TreeFacts.write_tree_fuel_any (idx_of w)) as [[root subs] Hw].
  assert (Htip : forall tip, tip_of w = Some tip -> length tip = 20).
  { intros tip Ht. exact (loaded_tip_length w c tip Hx Ht). }
  pose proof (commit_parses e c msg w root Hso Htip) as Hp.
  pose proof (HeadFacts.commit_step' e msg w c root subs _ Hr Hx Hg Hw Hp) as Hstep.
  assert (Ew : step_w (ACmd e (CCommit msg)) w = after_commit e c msg w root subs).
  { unfold step_w. rewrite Hstep. reflexivity. }
  rewrite Ew in Hnb', Hc'.
  assert (Hsz : commit_sizes_ok e c msg w).
  { intros root0 subs0 Hw0. rewrite Hw in Hw0. injection Hw0 as <- <-.
    apply after_commit_sizes. exact Hnb'. }
  destruct (commit_total e msg w c Hr Hc Hsm Hx Hg Hso Hsz)
    as (root1 & subs1 & cm & Hw1 & Ecm & Hstep1 & Hpost & Emsg & Epar).
  rewrite Hw in Hw1. injection Hw1 as <- <-.
  exists root, subs, cm.
  split; [exact Hw|]. split; [exact Ecm|]. split; [exact Hstep1|]. split; [exact Hpost|].
  split; [exact Emsg|]. split; [exact Epar|].
  split; [exact (cp_kept _ _ _ _ _ _ _ Hpost Hc') | exact (cp_snapshot _ _ _ _ _ _ _ Hpost Hc')].
Qed.

(* the gate, from the difference between HEAD's snapshot and the staging
   area (GateFacts.gate_open_of_difference), or from "nothing committed yet":
   C02 and C07 in one statement, on every reachable world *)
Theorem commit_total_gate : forall e msg w c,
  Reachable w -> ctx_of w = Some c ->
  user_set (x_l c) (x_g c) = true ->
  (match tip_of w with
   | Some hid => exists s, SnapshotFacts.snapshot (w_objs w) hid = Some s /\ s <> idx_of w
   | None => w_refs w = [] /\ idx_of w <> []
   end) ->
  sign_ok (user_name (x_l c) (x_g c)) (user_email (x_l c) (x_g c)) (e_time e) (e_off e) ->
  w_coll (step_w (ACmd e (CCommit msg)) w) = false ->
  SnapshotFacts.SmallStore (w_objs (step_w (ACmd e (CCommit msg)) w)) ->
  exists root subs cm,
    write_tree_top (idx_of w) = Some (root, subs) /\
    cm = commit_of e c msg w root /\
    step (ACmd e (CCommit msg)) w =
      (after_commit e c msg w root subs, OOk [], do_commit_trace e c msg w root subs) /\
    commit_post e c msg w root cm (after_commit e c msg w root subs) /\
    c_msg cm = msg /\
    c_parents cm = parent_list (tip_of w).
Proof.
  intros e msg w c Hr Hx Hu Hd Hso Hc' Hsm'.
  assert (Hg : gate_open w c).
  { destruct (tip_of w) as [hid|] eqn:Et.
    - destruct Hd as (s & Hs & Hne).
      assert (Hnb : ~ ConnectedFacts.Bad w).
      { destruct (SnapshotFacts.step_w_eq (ACmd e (CCommit msg)) w) as [tr Htr].
        apply (not_bad_before tr w). rewrite <- Htr.
        apply ConnectedFacts.not_bad_iff. split; [exact Hc' | exact Hsm']. }
      apply ConnectedFacts.not_bad_iff in Hnb. destruct Hnb as [Hc Hsm].
      apply (GateFacts.gate_open_of_difference w c hid s); try assumption.
      apply SnapshotFacts.reachable_good; assumption.
    - destruct Hd as [Hrf Hne]. split; [exact Hu|]. rewrite Hrf. exact Hne. }
  destruct (commit_total_live e msg w c Hr Hx Hg Hso Hc' Hsm')
    as (root & subs & cm & H1 & H2 & H3 & H4 & H5 & H6 & _).
  exists root, subs, cm. repeat (split; [assumption|]). assumption.
Qed.

(* (1) and (2) together: over a history whose `config` calls keep the files
   loadable (in particular: are in the domain of C20), nothing is assumed about the loaded context any more; what is left
   is the user's ignore file, the identity/clock domain of C12 (any message), the
   staged difference, and the guard on the world the step ends in *)
Theorem history_commit_total : forall h w e msg,
  Forall action_ok h -> Forall loadable_action h ->
  w = run h w_empty ->
  ign_load (am_get (w_files w) (str ".goitignore"%string)) <> None ->
  w_coll (step_w (ACmd e (CCommit msg)) w) = false ->
  SnapshotFacts.SmallStore (w_objs (step_w (ACmd e (CCommit msg)) w)) ->
  exists c,
    ctx_of w = Some c /\ ConfigFacts.wf_cfg (x_l c) /\ ConfigFacts.wf_cfg (x_g c) /\
    (user_set (x_l c) (x_g c) = true ->
     (match tip_of w with
      | Some hid => exists s, SnapshotFacts.snapshot (w_objs w) hid = Some s /\ s <> idx_of w
      | None => w_refs w = [] /\ idx_of w <> []
      end) ->
     sign_ok (user_name (x_l c) (x_g c)) (user_email (x_l c) (x_g c)) (e_time e) (e_off e) ->
     exists root subs cm,
       write_tree_top (idx_of w) = Some (root, subs) /\
       cm = commit_of e c msg w root /\
       step (ACmd e (CCommit msg)) w =
         (after_commit e c msg w root subs, OOk [], do_commit_trace e c msg w root subs) /\
       commit_post e c msg w root cm (after_commit e c msg w root subs) /\
       c_msg cm = msg /\
       c_parents cm = parent_list (tip_of w)).
Proof.
  intros h w e msg Hall Hok Hw Hp Hc' Hsm'.
  assert (Hr : Reachable w) by (exists h; split; assumption).
  assert (Hnb : ~ ConnectedFacts.Bad w).
  { destruct (SnapshotFacts.step_w_eq (ACmd e (CCommit msg)) w) as [tr Htr].
    apply (not_bad_before tr w). rewrite <- Htr.
    apply ConnectedFacts.not_bad_iff. split; [exact Hc' | exact Hsm']. }
  destruct (history_ctx_loads h w Hall Hok Hw Hnb Hp) as (c & Hx & Hwl & Hwg).
  exists c. split; [exact Hx|]. split; [exact Hwl|]. split; [exact Hwg|].
  intros Hu Hd Hso.
  exact (commit_total_gate e msg w c Hr Hx Hu Hd Hso Hc' Hsm').
Qed.

(* the same on EVERY history: `config` refuses what would make a file
   unloadable, so no condition on the `config` calls is left *)
Theorem history_commit_total' : forall h w e msg,
  Forall action_ok h ->
  w = run h w_empty ->
  ign_load (am_get (w_files w) (str ".goitignore"%string)) <> None ->
  w_coll (step_w (ACmd e (CCommit msg)) w) = false ->
  SnapshotFacts.SmallStore (w_objs (step_w (ACmd e (CCommit msg)) w)) ->
  exists c,
    ctx_of w = Some c /\ ConfigFacts.wf_cfg (x_l c) /\ ConfigFacts.wf_cfg (x_g c) /\
    (user_set (x_l c) (x_g c) = true ->
     (match tip_of w with
      | Some hid => exists s, SnapshotFacts.snapshot (w_objs w) hid = Some s /\ s <> idx_of w
      | None => w_refs w = [] /\ idx_of w <> []
      end) ->
     sign_ok (user_name (x_l c) (x_g c)) (user_email (x_l c) (x_g c)) (e_time e) (e_off e) ->
     exists root subs cm,
       write_tree_top (idx_of w) = Some (root, subs) /\
       cm = commit_of e c msg w root /\
       step (ACmd e (CCommit msg)) w =
         (after_commit e c msg w root subs, OOk [], do_commit_trace e c msg w root subs) /\
       commit_post e c msg w root cm (after_commit e c msg w root subs) /\
       c_msg cm = msg /\
       c_parents cm = parent_list (tip_of w)).
Proof.
  intros h w e msg Hall Hw Hp Hc' Hsm'.
  assert (Hr : Reachable w) by (exists h; split; assumption).
  assert (Hnb : ~ ConnectedFacts.Bad w).
  { destruct (SnapshotFacts.step_w_eq (ACmd e (CCommit msg)) w) as [tr Htr].
    apply (not_bad_before tr w). rewrite <- Htr.
    apply ConnectedFacts.not_bad_iff. split; [exact Hc' | exact Hsm']. }
  destruct (history_ctx_loads' h w Hall Hw Hnb Hp) as (c & Hx & Hwl & Hwg).
  exists c. split; [exact Hx|]. split; [exact Hwl|]. split; [exact Hwg|].
  intros Hu Hd Hso.
  exact (commit_total_gate e msg w c Hr Hx Hu Hd Hso Hc' Hsm').
Qed.

(* ================================================================== *)
(** * 3. Non-vacuity *)

(* GateFacts.gx_hist: init; identity; three files; add; commit "first"; four
   edits; add.  Its two `config` calls are in the domain of C20 *)
Example cx_gx_ok_actions : Forall ConfigCmdFacts.ok_action GateFacts.gx_hist.
Proof.
  unfold GateFacts.gx_hist, CommitCmdFacts.ex_hist. cbn [app].
  repeat (apply Forall_cons || apply Forall_nil);
    cbn [ConfigCmdFacts.ok_action ConfigCmdFacts.ok_cmd]; try exact Logic.I.
  all: vm_compute; repeat split; try reflexivity; intuition discriminate.
Qed.

(* (1): the context of gx_w loads, by the theorem (no .goitignore there) ... *)
Example cx_gx_ctx_by_theorem :
  exists c, ctx_of GateFacts.gx_w = Some c /\ x_pats c = [ign_builtin].
Proof.
  apply (history_ctx_loads_no_ignore GateFacts.gx_hist GateFacts.gx_w).
  - exact GateFacts.gx_actions_ok.
  - exact (Forall_ok_loadable _ cx_gx_ok_actions).
  - symmetry. exact GateFacts.gx_w_run.
  - exact GateFacts.gx_coll.
  - exact GateFacts.gx_small.
  - vm_compute. reflexivity.
Qed.

(* ... and it is the context found by computation *)
Example cx_gx_ctx_computed : ctx_of GateFacts.gx_w = Some GateFacts.gx_c /\ x_pats GateFacts.gx_c = [ign_builtin].
Proof. split; [exact GateFacts.gx_ctx | vm_compute; reflexivity]. Qed.

(* (2): the second commit of that history, by [commit_total_gate]: every
   hypothesis is a computation or a fact of the history *)
Example cx_gx_step_w : step_w (ACmd GateFacts.gx_env (CCommit GateFacts.gx_msg)) GateFacts.gx_w = GateFacts.gx_w'.
Proof. unfold step_w. rewrite GateFacts.gx_step_eq. reflexivity. Qed.

Example cx_gx_commit_total :
  exists root subs cm,
    write_tree_top (idx_of GateFacts.gx_w) = Some (root, subs) /\
    cm = commit_of GateFacts.gx_env GateFacts.gx_c GateFacts.gx_msg GateFacts.gx_w root /\
    step (ACmd GateFacts.gx_env (CCommit GateFacts.gx_msg)) GateFacts.gx_w =
      (after_commit GateFacts.gx_env GateFacts.gx_c GateFacts.gx_msg GateFacts.gx_w root subs, OOk [],
       do_commit_trace GateFacts.gx_env GateFacts.gx_c GateFacts.gx_msg GateFacts.gx_w root subs) /\
    commit_post GateFacts.gx_env GateFacts.gx_c GateFacts.gx_msg GateFacts.gx_w root cm
      (after_commit GateFacts.gx_env GateFacts.gx_c GateFacts.gx_msg GateFacts.gx_w root subs) /\
    c_msg cm = GateFacts.gx_msg /\
    c_parents cm = [GateFacts.gx_hid].
Proof.
  destruct (commit_total_gate GateFacts.gx_env GateFacts.gx_msg GateFacts.gx_w GateFacts.gx_c)
    as (root & subs & cm & H1 & H2 & H3 & H4 & H5 & H6).
  - exact GateFacts.gx_reachable.
  - exact GateFacts.gx_ctx.
  - exact GateFacts.gx_user_set.
  - rewrite GateFacts.gx_tip. exists GateFacts.gx_s.
    split; [exact GateFacts.gx_snapshot | exact GateFacts.gx_differs].
  - exact GateFacts.gx_sign_ok.
  - rewrite cx_gx_step_w. exact (proj2 GateFacts.gx_commit_computed).
  - rewrite cx_gx_step_w. exact GateFacts.gx_small'.
  - exists root, subs, cm. repeat (split; [assumption|]).
    rewrite H6, GateFacts.gx_tip. reflexivity.
Qed.

(* the first commit (CommitCmdFacts.ex_w: no branch yet), through
   [history_commit_total]: the context is not assumed to load *)
Example cx_ex_ok_actions : Forall action_ok CommitCmdFacts.ex_hist /\ Forall ConfigCmdFacts.ok_action CommitCmdFacts.ex_hist.
Proof.
  split.
  - pose proof GateFacts.gx_actions_ok as Hall. unfold GateFacts.gx_hist in Hall.
    apply Forall_app in Hall. exact (proj1 Hall).
  - pose proof cx_gx_ok_actions as Hall. unfold GateFacts.gx_hist in Hall.
    apply Forall_app in Hall. exact (proj1 Hall).
Qed.

Example cx_ex_first_commit_total :
  exists c,
    ctx_of CommitCmdFacts.ex_w = Some c /\
    exists root subs cm,
      write_tree_top (idx_of CommitCmdFacts.ex_w) = Some (root, subs) /\
      step (ACmd CommitCmdFacts.ex_env (CCommit CommitCmdFacts.ex_msg)) CommitCmdFacts.ex_w =
        (after_commit CommitCmdFacts.ex_env c CommitCmdFacts.ex_msg CommitCmdFacts.ex_w root subs, OOk [],
         do_commit_trace CommitCmdFacts.ex_env c CommitCmdFacts.ex_msg CommitCmdFacts.ex_w root subs) /\
      commit_post CommitCmdFacts.ex_env c CommitCmdFacts.ex_msg CommitCmdFacts.ex_w root cm
        (after_commit CommitCmdFacts.ex_env c CommitCmdFacts.ex_msg CommitCmdFacts.ex_w root subs) /\
      c_msg cm = CommitCmdFacts.ex_msg /\ c_parents cm = [].
Proof.
  destruct (history_commit_total CommitCmdFacts.ex_hist CommitCmdFacts.ex_w
              CommitCmdFacts.ex_env CommitCmdFacts.ex_msg)
    as (c & Hx & _ & _ & Hrest).
  - exact (proj1 cx_ex_ok_actions).
  - exact (Forall_ok_loadable _ (proj2 cx_ex_ok_actions)).
  - vm_compute. reflexivity.
  - vm_compute. discriminate.
  - vm_compute. reflexivity.
  - apply SnapshotFacts.small_store_b. vm_compute. reflexivity.
  - exists c. split; [exact Hx|].
    assert (Ec : c = CommitCmdFacts.ex_c).
    { rewrite CommitCmdFacts.ex_ctx in Hx. injection Hx as Hx. symmetry. exact Hx. }
    subst c.
    destruct Hrest as (root & subs & cm & H1 & H2 & H3 & H4 & H5 & H6).
    + vm_compute. reflexivity.
    + assert (Et : tip_of CommitCmdFacts.ex_w = None) by (vm_compute; reflexivity).
      rewrite Et. split; [vm_compute; reflexivity | vm_compute; discriminate].
    + exact CommitCmdFacts.ex_sign_ok.
    + exists root, subs, cm. split; [exact H1|]. split; [exact H3|]. split; [exact H4|].
      split; [exact H5|]. rewrite H6.
      assert (Et : tip_of CommitCmdFacts.ex_w = None) by (vm_compute; reflexivity).
      rewrite Et. reflexivity.
Qed.

(* ------------------------------------------------------------------ *)
Print Assumptions ctx_of_iff.
Print Assumptions connected_ctx_loads.
Print Assumptions reachable_ctx_loads.
Print Assumptions reachable_ctx_loads'.
Print Assumptions reachable_ctx_loads_live.
Print Assumptions reachable_ctx_loads_iff.
Print Assumptions reachable_ctx_loads_with.
Print Assumptions ign_line_ok_iff.
Print Assumptions ign_load_iff.
Print Assumptions ign_file_ok_blank_line.
Print Assumptions renderable_loads.
Print Assumptions loadable_run.
Print Assumptions history_cfgs_load.
Print Assumptions history_ctx_loads_ok.
Print Assumptions cx_odd_values_load.
Print Assumptions history_ctx_loads.
Print Assumptions history_ctx_loads_live.
Print Assumptions history_ctx_loads_no_ignore.
Print Assumptions every_action_loadable_or_refused.
Print Assumptions run_cmd_emits_cfgs.
Print Assumptions reachable_cfgs_load.
Print Assumptions cfgs_load_fault.
Print Assumptions reachable_ctx_loads''.
Print Assumptions history_ctx_loads'.
Print Assumptions reachable_ctx_loads_iff'.
Print Assumptions reachable_ctx_loads_live'.
Print Assumptions reachable_ctx_loads_no_ignore.
Print Assumptions history_commit_total'.
Print Assumptions cx_newline_refused.
Print Assumptions broken_config_unreachable.
Print Assumptions cx_w_broken_unreachable.
Print Assumptions cx_empty_section_refused.
Print Assumptions cx_newline_in_key_refused.
Print Assumptions cx_ignore_breaks_ctx.
Print Assumptions cx_ignore_repaired.
Print Assumptions after_commit_sizes.
Print Assumptions commit_total.
Print Assumptions commit_total_live.
Print Assumptions commit_total_gate.
Print Assumptions history_commit_total.
Print Assumptions cx_gx_ctx_by_theorem.
Print Assumptions cx_gx_commit_total.
Print Assumptions cx_ex_first_commit_total.
