(* ChainFacts.v — property C14 at HISTORY level: on every repository reachable
   from the empty disk by commands and work-tree edits (no SHA-1 collision
   flagged), every stored commit has a duplicate-free parent chain, so the
   hypotheses of LogFacts.[cmd_log_chain] hold and `log -n k` prints exactly
   the first min(k, length) commits of the chain.

   1. the store as a list in insertion order: [st_set_fresh_app], keys stay
      distinct;
   2. [ParentsEarlier] : every readable commit has at most one parent, and it
      is a readable commit stored at a strictly smaller position;
      [pe_put] : preserved by a write whose payload, if it reads as a commit,
      names only readable commits as parents ([put_ok]);
   3. [chain_exists] : from the invariant, a chain without repetition;
   4. no value of a loaded config file contains a newline ([ch_cfg_load_nonl]);
   5. what [parse_commit] finds as parents in [commit_text] ([commit_text_parents]);
   6. the invariant [CInv] over effects; a structural tactic for the commands
      whose effects are harmless whatever the world ([quiet]); [do_commit] by
      symbolic execution; [run_cmd_inv], [reach_good];
   7. the theorems [log_on_reachable*];
   8. an example: three commits, reset --soft HEAD@{2}, a fourth commit. *)
From Coq Require Import Strings.String Strings.Byte.
From Coq Require Import List Bool NArith ZArith Arith.
From Coq Require Import Lia ZifyBool ZifyNat ZifyN.
From Goit Require Import Bytes Sha1 Obj Tree Index Regex GoRegex Commit Reflog Config Ignore World Repo.
From Goit Require Import BytesFacts ObjFacts CommitFacts MonadFacts BranchFacts Inv LogFacts.
Import ListNotations.

#[local] Arguments sha1 : simpl never.
#[local] Arguments obj_id : simpl never.
#[local] Arguments payload : simpl never.
#[local] Arguments header : simpl never.

(* ================================================================== *)
(** * 1. The store in insertion order *)

Lemma st_lookup_In : forall (st : store) k v, In (k, v) st -> st_lookup st k <> None.
Proof.
  induction st as [|[k0 v0] r IH]; intros k v Hin.
  - destruct Hin.
  - cbn [st_lookup]. destruct (bytes_eqb k0 k) eqn:Ek; [discriminate|].
    destruct Hin as [Heq|Hin].
    + injection Heq as Hk _. subst k0. rewrite bytes_eqb_refl in Ek. discriminate Ek.
    + apply (IH k v Hin).
Qed.

Lemma st_lookup_nth : forall (st : store) id, st_lookup st id <> None ->
  exists j pj, nth_error st j = Some (id, pj).
Proof.
  induction st as [|[k0 v0] r IH]; intros id Hl.
  - exfalso. apply Hl. reflexivity.
  - cbn [st_lookup] in Hl. destruct (bytes_eqb k0 id) eqn:Ek.
    + apply bytes_eqb_eq in Ek. subst k0. exists 0%nat, v0. reflexivity.
    + destruct (IH id Hl) as (j & pj & Hj). exists (S j), pj. exact Hj.
Qed.

(* a NEW id goes to the END of the list *)
Lemma st_set_fresh_app : forall st id v, st_lookup st id = None -> st_set st id v = st ++ [(id, v)].
Proof.
  induction st as [|[k0 v0] r IH]; intros id v Hl.
  - reflexivity.
  - cbn [st_lookup] in Hl. cbn [st_set]. destruct (bytes_eqb k0 id) eqn:Ek; [discriminate Hl|].
    rewrite (IH id v Hl). reflexivity.
Qed.

Lemma st_lookup_app_old : forall (st r : store) id,
  st_lookup st id <> None -> st_lookup (st ++ r) id = st_lookup st id.
Proof.
  induction st as [|[k0 v0] t IH]; intros r id Hl.
  - exfalso. apply Hl. reflexivity.
  - cbn [app st_lookup] in *. destruct (bytes_eqb k0 id); [reflexivity|]. apply IH. exact Hl.
Qed.

Lemma st_lookup_app_new : forall (st : store) id v,
  st_lookup st id = None -> st_lookup (st ++ [(id, v)]) id = Some v.
Proof.
  induction st as [|[k0 v0] t IH]; intros id v Hl.
  - cbn [app st_lookup]. rewrite bytes_eqb_refl. reflexivity.
  - cbn [app st_lookup] in *. destruct (bytes_eqb k0 id); [discriminate Hl|]. apply IH. exact Hl.
Qed.

Lemma st_set_keys_In : forall (st : store) id v x,
  In x (map fst (st_set st id v)) -> x = id \/ In x (map fst st).
Proof.
  induction st as [|[k0 v0] r IH]; intros id v x Hin.
  - cbn [st_set map fst] in Hin. destruct Hin as [Hx|[]]. left. symmetry. exact Hx.
  - cbn [st_set] in Hin. destruct (bytes_eqb k0 id) eqn:Ek.
    + right. exact Hin.
    + cbn [map fst] in Hin |- *. destruct Hin as [Hx|Hin].
      * right. left. exact Hx.
      * destruct (IH id v x Hin) as [Hx|Hx]; [left; exact Hx | right; right; exact Hx].
Qed.

(* the ids of the store stay pairwise distinct *)
Lemma st_set_nodup : forall (st : store) id v,
  NoDup (map fst st) -> NoDup (map fst (st_set st id v)).
Proof.
  induction st as [|[k0 v0] r IH]; intros id v Hnd.
  - cbn [st_set map fst]. constructor; [intros [] | constructor].
  - cbn [st_set]. destruct (bytes_eqb k0 id) eqn:Ek.
    + exact Hnd.
    + cbn [map fst] in Hnd |- *. inversion Hnd as [|k l Hnotin Hnd']; subst.
      constructor; [|apply IH; exact Hnd'].
      intro Hin. destruct (st_set_keys_In r id v k0 Hin) as [Hx|Hx].
      * subst k0. rewrite bytes_eqb_refl in Ek. discriminate Ek.
      * exact (Hnotin Hx).
Qed.

(* two positions holding the same id are the same position *)
Lemma nodup_keys_pos : forall (st : store) i j id p q,
  NoDup (map fst st) -> nth_error st i = Some (id, p) -> nth_error st j = Some (id, q) -> i = j.
Proof.
  intros st i j id p q Hnd Hi Hj.
  assert (Hi' : nth_error (map fst st) i = Some id) by (rewrite (map_nth_error fst i st Hi); reflexivity).
  assert (Hj' : nth_error (map fst st) j = Some id) by (rewrite (map_nth_error fst j st Hj); reflexivity).
  apply (proj1 (NoDup_nth_error (map fst st)) Hnd i j).
  - apply nth_error_Some. rewrite Hi'. discriminate.
  - rewrite Hi', Hj'. reflexivity.
Qed.

(* reading an object only depends on what is stored under its id *)
Lemma get_commit_lookup_eq : forall st st' id,
  st_lookup st' id = st_lookup st id -> get_commit st' id = get_commit st id.
Proof.
  intros st st' id H. unfold get_commit, get_kind, get_obj. rewrite H. reflexivity.
Qed.

Lemma get_commit_payload : forall st id c, get_commit st id = Some c ->
  exists p d, st_lookup st id = Some p /\ sha1 p = id /\
              parse_payload p = Some (KCommit, d) /\ parse_commit d = Some c.
Proof.
  intros st id c H. unfold get_commit, get_kind in H.
  destruct (get_obj st id) as [[k d]|] eqn:Eg; [|discriminate H].
  destruct (kind_eqb KCommit k) eqn:Ek; [|discriminate H].
  apply kind_eqb_eq in Ek. subst k.
  destruct (get_obj_integrity st id KCommit d Eg) as (p & Hl & Hs & Hp).
  exists p, d. repeat split; assumption.
Qed.

(* ================================================================== *)
(** * 2. The store-order invariant *)

Definition ParentsEarlier (st : store) : Prop :=
  forall i id p, nth_error st i = Some (id, p) ->
  forall c, get_commit st id = Some c ->
    (length (c_parents c) <= 1)%nat /\
    forall q, In q (c_parents c) ->
      exists j, (j < i)%nat /\ exists pj, nth_error st j = Some (q, pj) /\
                exists cq, get_commit st q = Some cq.

(* what a written payload must satisfy: IF it reads as a commit, that commit
   has at most one parent, which reads as a commit in the store written to *)
Definition put_ok (st : store) (p : bytes) : Prop :=
  forall d c, parse_payload p = Some (KCommit, d) -> parse_commit d = Some c ->
    (length (c_parents c) <= 1)%nat /\
    forall q, In q (c_parents c) -> exists cq, get_commit st q = Some cq.

Lemma pe_nil : ParentsEarlier [].
Proof. intros i id p Hn. destruct i; discriminate Hn. Qed.

Lemma pe_put_fresh : forall st id p,
  ParentsEarlier st -> st_lookup st id = None -> put_ok st p ->
  ParentsEarlier (st ++ [(id, p)]).
Proof.
  intros st id p Hpe Hfresh Hok i id' p' Hn c Hc.
  assert (Hold : forall q cq, get_commit st q = Some cq -> get_commit (st ++ [(id, p)]) q = Some cq).
  { intros q cq Hq. rewrite <- Hq. apply get_commit_lookup_eq. apply st_lookup_app_old.
    apply (LogFacts.get_commit_lookup st q cq Hq). }
  destruct (Nat.lt_ge_cases i (length st)) as [Hlt|Hge].
  - (* an old position *)
    rewrite nth_error_app1 in Hn by exact Hlt.
    assert (Hl : st_lookup st id' <> None).
    { apply (st_lookup_In st id' p'). apply (nth_error_In st i Hn). }
    assert (Hc0 : get_commit st id' = Some c).
    { rewrite <- Hc. symmetry. apply get_commit_lookup_eq. apply st_lookup_app_old. exact Hl. }
    destruct (Hpe i id' p' Hn c Hc0) as [Hlen Hpar]. split; [exact Hlen|].
    intros q Hq. destruct (Hpar q Hq) as (j & Hj & pj & Hnj & cq & Hcq).
    exists j. split; [exact Hj|]. exists pj. split.
    + rewrite nth_error_app1 by lia. exact Hnj.
    + exists cq. apply Hold. exact Hcq.
  - (* the new position *)
    assert (Hi : i = length st).
    { assert (Hlt : (i < length (st ++ [(id, p)]))%nat) by (apply nth_error_Some; rewrite Hn; discriminate).
      rewrite app_length in Hlt. cbn [length] in Hlt. lia. }
    subst i. rewrite nth_error_app2, Nat.sub_diag in Hn by lia. cbn [nth_error] in Hn.
    injection Hn as Hid Hp. subst id' p'.
    destruct (get_commit_payload _ _ _ Hc) as (p0 & d & Hl0 & _ & Hpp & Hpc).
    rewrite (st_lookup_app_new st id p Hfresh) in Hl0. injection Hl0 as Hp0. subst p0.
    destruct (Hok d c Hpp Hpc) as [Hlen Hpar]. split; [exact Hlen|].
    intros q Hq. destruct (Hpar q Hq) as [cq Hcq].
    destruct (st_lookup_nth st q (LogFacts.get_commit_lookup st q cq Hcq)) as (j & pj & Hnj).
    exists j. split.
    + apply nth_error_Some. rewrite Hnj. discriminate.
    + exists pj. split.
      * rewrite nth_error_app1; [exact Hnj|]. apply nth_error_Some. rewrite Hnj. discriminate.
      * exists cq. apply Hold. exact Hcq.
Qed.

(* a write that meets no collision keeps the invariant *)
Lemma pe_put : forall st id p,
  ParentsEarlier st -> st_collides st id p = false -> put_ok st p ->
  ParentsEarlier (st_set st id p).
Proof.
  intros st id p Hpe Hcoll Hok. destruct (st_lookup st id) as [v0|] eqn:El.
  - unfold st_collides in Hcoll. rewrite El in Hcoll.
    apply negb_false_iff in Hcoll. apply bytes_eqb_eq in Hcoll. subst v0.
    rewrite (put_idempotent st id p El). exact Hpe.
  - rewrite (st_set_fresh_app st id p El). apply pe_put_fresh; assumption.
Qed.

(* a payload of another kind never reads as a commit *)
Lemma put_ok_other_kind : forall st k d, k <> KCommit -> put_ok st (payload k d).
Proof.
  intros st k d Hk d' c Hpp _. exfalso.
  destruct (N.ltb (lenN d) (2 ^ 63)) eqn:E.
  - apply N.ltb_lt in E. rewrite (payload_roundtrip k d E) in Hpp.
    injection Hpp as Hk' _. exact (Hk Hk').
  - apply N.ltb_ge in E. rewrite (payload_too_big k d E) in Hpp. discriminate Hpp.
Qed.

(* a commit payload: the condition is about what the text reads back as *)
Lemma put_ok_commit : forall st data,
  (forall c, parse_commit data = Some c ->
     (length (c_parents c) <= 1)%nat /\
     forall q, In q (c_parents c) -> exists cq, get_commit st q = Some cq) ->
  put_ok st (payload KCommit data).
Proof.
  intros st data H d c Hpp Hpc.
  destruct (N.ltb (lenN data) (2 ^ 63)) eqn:E.
  - apply N.ltb_lt in E. rewrite (payload_roundtrip KCommit data E) in Hpp.
    injection Hpp as Hd. subst d. apply H. exact Hpc.
  - apply N.ltb_ge in E. rewrite (payload_too_big KCommit data E) in Hpp. discriminate Hpp.
Qed.

(* ================================================================== *)
(** * 3. From the invariant: the parent chain exists and never repeats *)

Lemma chain_exists_pos : forall st,
  ParentsEarlier st -> NoDup (map fst st) ->
  forall n i, (i < n)%nat -> forall id p c,
  nth_error st i = Some (id, p) -> get_commit st id = Some c ->
  exists l, chain st id l /\ NoDup l /\
            forall x, In x l -> exists j pj, (j <= i)%nat /\ nth_error st j = Some (x, pj).
Proof.
  intros st Hpe Hnd n. induction n as [|n IH]; intros i Hi id p c Hn Hc; [lia|].
  destruct (Hpe i id p Hn c Hc) as [Hlen Hpar].
  destruct (c_parents c) as [|q [|q2 rest]] eqn:Ep.
  - exists [id]. split; [apply (chain_root st id c Hc Ep)|]. split.
    + constructor; [intros [] | constructor].
    + intros x [Hx|[]]. subst x. exists i, p. split; [lia | exact Hn].
  - destruct (Hpar q (or_introl eq_refl)) as (j & Hj & pj & Hnj & cq & Hcq).
    assert (Hjn : (j < n)%nat) by lia.
    destruct (IH j Hjn q pj cq Hnj Hcq) as (l & Hch & Hndl & Hpos).
    exists (id :: l). split; [apply (chain_step st id c q l Hc Ep Hch)|]. split.
    + constructor; [|exact Hndl]. intro Hin.
      destruct (Hpos id Hin) as (j' & pj' & Hj' & Hnj').
      pose proof (nodup_keys_pos st i j' id p pj' Hnd Hn Hnj') as Heq. lia.
    + intros x [Hx|Hx].
      * subst x. exists i, p. split; [lia | exact Hn].
      * destruct (Hpos x Hx) as (j' & pj' & Hj' & Hnj'). exists j', pj'. split; [lia | exact Hnj'].
  - cbn [length] in Hlen. lia.
Qed.

Theorem chain_exists : forall st,
  ParentsEarlier st -> NoDup (map fst st) ->
  forall id c, get_commit st id = Some c -> exists l, chain st id l /\ NoDup l.
Proof.
  intros st Hpe Hnd id c Hc.
  destruct (st_lookup_nth st id (LogFacts.get_commit_lookup st id c Hc)) as (i & p & Hn).
  destruct (chain_exists_pos st Hpe Hnd (S i) i (Nat.lt_succ_diag_r i) id p c Hn Hc) as (l & Hch & Hndl & _).
  exists l. split; assumption.
Qed.

(* with the fuel [cmd_log] passes, the walk lists the chain *)
Corollary walk_on_good_store : forall st,
  ParentsEarlier st -> NoDup (map fst st) ->
  forall tip cm, get_commit st tip = Some cm -> forall n,
  exists l, chain st tip l /\ NoDup l /\
    walk_history (S (S (2 * length st))) st [tip] [] 0 n = Some (firstn (Z.to_nat n) l).
Proof.
  intros st Hpe Hnd tip cm Hc n. destruct (chain_exists st Hpe Hnd tip cm Hc) as (l & Hch & Hndl).
  exists l. split; [exact Hch|]. split; [exact Hndl|]. apply cmd_log_fuel; assumption.
Qed.
(* ================================================================== *)
(** * 4. No value of a loaded config file contains a newline *)

Definition ch_cfg_nonl (c : cfg) : Prop :=
  Forall (fun sm => Forall (fun kv => ~ In c_nl (snd kv)) (snd sm)) c.

Lemma ch_kv_set_nonl : forall m k v, Forall (fun kv : bytes * bytes => ~ In c_nl (snd kv)) m -> ~ In c_nl v ->
  Forall (fun kv : bytes * bytes => ~ In c_nl (snd kv)) (kv_set m k v).
Proof.
  induction m as [|[k' v'] r IH]; intros k v Hm Hv; cbn [kv_set].
  - constructor; [exact Hv | constructor].
  - inversion Hm as [|x l H1 H2]; subst. destruct (bytes_eqb k' k).
    + constructor; [exact Hv | exact H2].
    + constructor; [exact H1 | apply IH; assumption].
Qed.

Lemma ch_sec_set_nonl : forall c s m, ch_cfg_nonl c -> Forall (fun kv : bytes * bytes => ~ In c_nl (snd kv)) m ->
  ch_cfg_nonl (sec_set c s m).
Proof.
  induction c as [|[s' m'] r IH]; intros s m Hc Hm; cbn [sec_set].
  - constructor; [exact Hm | constructor].
  - inversion Hc as [|x l H1 H2]; subst. destruct (bytes_eqb s' s).
    + constructor; [exact Hm | exact H2].
    + constructor; [exact H1 | apply IH; assumption].
Qed.

Lemma ch_sec_get_nonl : forall c s m, ch_cfg_nonl c -> sec_get c s = Some m ->
  Forall (fun kv : bytes * bytes => ~ In c_nl (snd kv)) m.
Proof.
  induction c as [|[s' m'] r IH]; intros s m Hc H; cbn [sec_get] in H.
  - discriminate H.
  - inversion Hc as [|x l H1 H2]; subst. destruct (bytes_eqb s' s).
    + injection H as Hm. subst m'. exact H1.
    + apply (IH _ _ H2 H).
Qed.

Lemma ch_kv_get_nonl : forall m k v, Forall (fun kv : bytes * bytes => ~ In c_nl (snd kv)) m ->
  kv_get m k = Some v -> ~ In c_nl v.
Proof.
  induction m as [|[k' v'] r IH]; intros k v Hm H; cbn [kv_get] in H.
  - discriminate H.
  - inversion Hm as [|x l H1 H2]; subst. destruct (bytes_eqb k' k).
    + injection H as Hv. subst v'. exact H1.
    + apply (IH _ _ H2 H).
Qed.

Lemma ch_trim_left_incl : forall s c, In c (trim_left s) -> In c s.
Proof.
  induction s as [|x r IH]; intros c H; cbn [trim_left] in H.
  - exact H.
  - destruct (is_space x); [right; apply IH; exact H | exact H].
Qed.

Lemma ch_trim_space_incl : forall s c, In c (trim_space s) -> In c s.
Proof.
  intros s c H. unfold trim_space in H. apply in_rev in H. apply ch_trim_left_incl in H.
  apply in_rev in H. apply ch_trim_left_incl in H. exact H.
Qed.

Lemma ch_split1_incl : forall sep s a ob, split1 sep s = (a, ob) ->
  (forall c, In c a -> In c s) /\ (forall b, ob = Some b -> forall c, In c b -> In c s).
Proof.
  intros sep s. induction s as [|x r IH]; intros a ob H; cbn [split1] in H.
  - injection H as Ha Hob. subst a ob. split; [auto|]. intros b Hb. discriminate Hb.
  - destruct (beqb x sep).
    + injection H as Ha Hob. subst a ob. split; [intros c []|].
      intros b Hb c Hc. injection Hb as Hb. subst b. right. exact Hc.
    + destruct (split1 sep r) as [a' ob'] eqn:E. injection H as Ha Hob. subst a ob.
      destruct (IH _ _ eq_refl) as [H1 H2]. split.
      * intros c [Hc|Hc]; [left; exact Hc | right; apply H1; exact Hc].
      * intros b Hb c Hc. right. apply (H2 b Hb c Hc).
Qed.

Lemma ch_drop_cr_incl : forall l c, In c (drop_cr l) -> In c l.
Proof.
  intros l c H. unfold drop_cr in H. destruct (rev l) as [|x r] eqn:E; [exact H|].
  destruct (beqb x c_cr); [|exact H].
  apply in_rev. rewrite E. right. apply (proj2 (in_rev r c)) in H. exact H.
Qed.

Lemma ch_scan_lines_aux_no_nl : forall s cur l,
  ~ In c_nl cur -> In l (scan_lines_aux cur s) -> ~ In c_nl l.
Proof.
  induction s as [|c r IH]; intros cur l Hcur Hin; cbn [scan_lines_aux] in Hin.
  - destruct cur as [|x cur']; [destruct Hin|]. destruct Hin as [Hl|[]]. subst l.
    intro H. apply ch_drop_cr_incl in H. apply in_rev in H. exact (Hcur H).
  - destruct (beqb c c_nl) eqn:E.
    + destruct Hin as [Hl|Hin].
      * subst l. intro H. apply ch_drop_cr_incl in H. apply in_rev in H. exact (Hcur H).
      * apply (IH [] l); [intros [] | exact Hin].
    + apply (IH (c :: cur) l); [|exact Hin]. apply beqb_neq in E.
      intros [H|H]; [apply E; exact H | exact (Hcur H)].
Qed.

Lemma ch_scan_lines_no_nl : forall s l, In l (scan_lines s) -> ~ In c_nl l.
Proof. intros s l H. apply (ch_scan_lines_aux_no_nl s [] l); [intros [] | exact H]. Qed.

Lemma ch_remove_tabs_incl : forall s c, In c (remove_tabs s) -> In c s.
Proof. intros s c H. unfold remove_tabs in H. apply filter_In in H. apply H. Qed.

Lemma ch_cfg_load_lines_nonl : forall ls c cur c',
  (forall l, In l ls -> ~ In c_nl l) -> ch_cfg_nonl c ->
  cfg_load_lines ls c cur = Some c' -> ch_cfg_nonl c'.
Proof.
  induction ls as [|l r IH]; intros c cur c' Hls Hc H; cbn [cfg_load_lines] in H.
  - injection H as Hc'. subst c'. exact Hc.
  - assert (Hr : forall l0, In l0 r -> ~ In c_nl l0) by (intros l0 H0; apply Hls; right; exact H0).
    assert (Hl : ~ In c_nl l) by (apply Hls; left; reflexivity).
    destruct (re_search re_identRegexp l).
    + destruct (Nat.leb (length l) 2); [discriminate H|].
      apply (IH _ _ _ Hr) in H; [exact H|]. apply ch_sec_set_nonl; [exact Hc | constructor].
    + destruct (is_nil (trim_space l)).
      * apply (IH _ _ _ Hr Hc H).
      * destruct (split1 x3d (remove_tabs l)) as [k [v|]] eqn:Es; [|discriminate H].
        destruct cur as [s|]; [|discriminate H].
        apply (IH _ _ _ Hr) in H; [exact H|]. apply ch_sec_set_nonl; [exact Hc|].
        apply ch_kv_set_nonl.
        -- destruct (sec_get c s) as [m|] eqn:Eg; [apply (ch_sec_get_nonl _ _ _ Hc Eg) | constructor].
        -- intro Hin. apply ch_trim_space_incl in Hin.
           destruct (ch_split1_incl _ _ _ _ Es) as [_ H2]. apply (H2 v eq_refl) in Hin.
           apply ch_remove_tabs_incl in Hin. exact (Hl Hin).
Qed.

Lemma ch_cfg_load_nonl : forall b c, cfg_load b = Some c -> ch_cfg_nonl c.
Proof.
  intros b c H. unfold cfg_load in H.
  apply (ch_cfg_load_lines_nonl _ _ _ _ (ch_scan_lines_no_nl b) (Forall_nil _) H).
Qed.

Lemma ch_ident_get_nonl : forall l g key v, ch_cfg_nonl l -> ch_cfg_nonl g ->
  ident_get l g key = Some v -> ~ In c_nl v.
Proof.
  intros l g key v Hl Hg H. unfold ident_get in H.
  assert (Hglob : match sec_get g (str "user"%string) with Some m' => kv_get m' key | None => None end = Some v -> ~ In c_nl v).
  { destruct (sec_get g (str "user"%string)) as [m'|] eqn:Eg; [|intro X; discriminate X].
    intro X. apply (ch_kv_get_nonl _ _ _ (ch_sec_get_nonl _ _ _ Hg Eg) X). }
  destruct (sec_get l (str "user"%string)) as [m|] eqn:El.
  - destruct (kv_get m key) as [v0|] eqn:Ek.
    + injection H as Hv. subst v0. apply (ch_kv_get_nonl _ _ _ (ch_sec_get_nonl _ _ _ Hl El) Ek).
    + apply Hglob. exact H.
  - apply Hglob. exact H.
Qed.

Lemma ch_user_name_nonl : forall l g, ch_cfg_nonl l -> ch_cfg_nonl g -> ~ In c_nl (user_name l g).
Proof.
  intros l g Hl Hg. unfold user_name. destruct (ident_get l g (str "name"%string)) as [v|] eqn:E.
  - apply (ch_ident_get_nonl _ _ _ _ Hl Hg E).
  - intros [].
Qed.

Lemma ch_user_email_nonl : forall l g, ch_cfg_nonl l -> ch_cfg_nonl g -> ~ In c_nl (user_email l g).
Proof.
  intros l g Hl Hg. unfold user_email. destruct (ident_get l g (str "email"%string)) as [v|] eqn:E.
  - apply (ch_ident_get_nonl _ _ _ _ Hl Hg E).
  - intros [].
Qed.

(* ================================================================== *)
(** * 5. The parents [parse_commit] finds in [commit_text] *)

Lemma nin_app : forall (c : byte) (a b : bytes), ~ In c a -> ~ In c b -> ~ In c (a ++ b).
Proof. intros c a b Ha Hb H. apply in_app_or in H. destruct H as [H|H]; [exact (Ha H) | exact (Hb H)]. Qed.

Lemma nin_cons : forall (c x : byte) (a : bytes), x <> c -> ~ In c a -> ~ In c (x :: a).
Proof. intros c x a Hx Ha [H|H]; [exact (Hx H) | exact (Ha H)]. Qed.

Lemma dec2_no_nl : forall n, ~ In c_nl (dec2 n).
Proof.
  intro n. unfold dec2. destruct (N.ltb n 10).
  - apply nin_cons; [discriminate | apply dec_no_byte; reflexivity].
  - apply dec_no_byte. reflexivity.
Qed.

(* the signature line has a newline only if the configured name or e-mail has one *)
Lemma sign_string_nonl : forall n e t off,
  ~ In c_nl n -> ~ In c_nl e -> ~ In c_nl (sign_string n e t off).
Proof.
  intros n e t off Hn He. unfold sign_string, tz_string.
  apply nin_app; [exact Hn|].
  apply nin_app; [apply nin_cons; [discriminate|]; apply nin_cons; [discriminate | intros []]|].
  apply nin_app; [exact He|].
  apply nin_app; [apply nin_cons; [discriminate|]; apply nin_cons; [discriminate | intros []]|].
  apply nin_app.
  { destruct (Z.ltb t 0); [apply nin_cons; [discriminate|]|]; apply dec_no_byte; reflexivity. }
  apply nin_app; [apply nin_cons; [discriminate | intros []]|].
  apply nin_app.
  { destruct (Z.leb 0 off); (apply nin_cons; [discriminate | intros []]). }
  apply nin_app; apply dec2_no_nl.
Qed.

Lemma headers_tail_parents : forall a c rest c0 c1 ml,
  parse_headers ((str "author " ++ a) :: (str "committer " ++ c) :: [] :: rest) c0 = Some (c1, ml) ->
  c_parents c1 = c_parents c0.
Proof.
  intros a c rest c0 c1 ml H.
  rewrite parse_headers_author in H. destruct (read_sign a) as [sa|]; [|discriminate H].
  rewrite parse_headers_committer in H. destruct (read_sign c) as [sc|]; [|discriminate H].
  rewrite parse_headers_blank in H. injection H as Hc1 _. subst c1. reflexivity.
Qed.

Lemma scan_tail : forall a c msg, ~ In c_nl a -> ~ In c_nl c ->
  lf_lines (str "author " ++ a ++ [c_nl] ++ str "committer " ++ c ++ [c_nl] ++ [c_nl] ++ msg ++ [c_nl])
  = (str "author " ++ a) :: (str "committer " ++ c) :: [] :: lf_lines (msg ++ [c_nl]).
Proof.
  intros a c msg Ha Hc.
  rewrite (lf_sign_line (str "author ") a _ eq_refl Ha).
  rewrite (lf_sign_line (str "committer ") c _ eq_refl Hc).
  rewrite lf_blank_msg. reflexivity.
Qed.

(* the reader finds exactly the parent that [commit] wrote, whatever the
   message, as soon as the two signature lines have no newline *)
Theorem commit_text_parents : forall tree tip a c msg cm,
  ~ In c_nl a -> ~ In c_nl c ->
  (forall p, tip = Some p -> length p = 20%nat) ->
  parse_commit (commit_text tree (option_map hex tip) a c msg) = Some cm ->
  c_parents cm = parent_list tip.
Proof.
  intros tree tip a c msg cm Ha Hc Htip H.
  unfold parse_commit, commit_text in H.
  rewrite (lf_hex_line (str "tree ") tree _ eq_refl) in H.
  rewrite parse_headers_tree in H.
  destruct (read_hash (hex tree)) as [h|]; [|discriminate H].
  cbn [c_tree c_parents c_author c_committer c_msg] in H.
  pose proof (scan_tail a c msg Ha Hc) as Hscan.
  destruct tip as [p|]; cbn [option_map parent_list] in *.
  - rewrite <- !app_assoc in H.
    rewrite (lf_hex_line (str "parent ") p _ eq_refl) in H.
    rewrite parse_headers_parent, (read_hash_hex p (Htip p eq_refl)) in H.
    cbn [c_tree c_parents c_author c_committer c_msg] in H.
    rewrite Hscan in H.
    match type of H with
    | match ?X with _ => _ end = _ => destruct X as [[c1 ml]|] eqn:Eh; [|discriminate H]
    end.
    injection H as Hcm. subst cm. cbn [c_parents].
    rewrite (headers_tail_parents _ _ _ _ _ _ Eh). reflexivity.
  - rewrite app_nil_l in H. rewrite Hscan in H.
    match type of H with
    | match ?X with _ => _ end = _ => destruct X as [[c1 ml]|] eqn:Eh; [|discriminate H]
    end.
    injection H as Hcm. subst cm. cbn [c_parents].
    rewrite (headers_tail_parents _ _ _ _ _ _ Eh). reflexivity.
Qed.
(* ================================================================== *)
(** * 6. The invariant over effects *)

Definition CfgNoNl (w : world) : Prop :=
  (forall c, cfg_of (w_lcfg w) = Some c -> ch_cfg_nonl c) /\
  (forall c, cfg_of (w_gcfg w) = Some c -> ch_cfg_nonl c).

Record ChainGood (w : world) : Prop := mkChainGood {
  cg_pe : ParentsEarlier (w_objs w);
  cg_nd : NoDup (map fst (w_objs w));
  cg_cfg : CfgNoNl w }.

(* a SHA-1 collision met by a write is flagged by the model; the flag is sticky *)
Definition CInv (w : world) : Prop := w_coll w = true \/ ChainGood w.

(* what an effect must satisfy in the world where it is performed *)
Definition eff_ok (w : world) (e : effect) : Prop :=
  match e with
  | EPutObj _ p => put_ok (w_objs w) p
  | ESetLcfg c => forall cf, cfg_of c = Some cf -> ch_cfg_nonl cf
  | ESetGcfg c => forall cf, cfg_of c = Some cf -> ch_cfg_nonl cf
  | _ => True
  end.

Lemma good_step : forall w e,
  ChainGood w -> w_coll (apply_effect e w) = false -> eff_ok w e -> ChainGood (apply_effect e w).
Proof.
  intros w e [Hpe Hnd [Hl Hg]] Hcoll Hok.
  destruct e; cbn [eff_ok] in Hok;
    (constructor; [ | | unfold CfgNoNl; split]); autorewrite with wfields; try assumption.
  - (* EInit: the fresh local config is empty *)
    intros c Hc. cbn [cfg_of] in Hc. injection Hc as Hc. subst c. constructor.
  - (* EPutObj *)
    rewrite w_coll_EPutObj in Hcoll. apply orb_false_elim in Hcoll. destruct Hcoll as [_ Hcol].
    apply pe_put; assumption.
  - apply st_set_nodup. exact Hnd.
Qed.

Lemma cinv_step : forall w e,
  CInv w -> (w_coll (apply_effect e w) = false -> ChainGood w -> eff_ok w e) ->
  CInv (apply_effect e w).
Proof.
  intros w e Hi Hok. destruct (w_coll (apply_effect e w)) eqn:Ec; [left; exact Ec|].
  right. destruct Hi as [Hc|Hg].
  - rewrite (coll_sticky e w Hc) in Ec. discriminate Ec.
  - apply good_step; [exact Hg | exact Ec | apply Hok; [reflexivity | exact Hg]].
Qed.

Lemma cinv_edit : forall u w, CInv w -> CInv (apply_edit u w).
Proof.
  intros u w [Hc|[Hpe Hnd [Hl Hg]]].
  - left. rewrite w_coll_apply_edit. exact Hc.
  - right. constructor; [ | | unfold CfgNoNl; split]; autorewrite with wfields; assumption.
Qed.

Lemma cinv_empty : CInv w_empty.
Proof.
  right. constructor.
  - exact pe_nil.
  - constructor.
  - split; intros c Hc; cbn in Hc; injection Hc as Hc; subst c; constructor.
Qed.

(** ** effects that are harmless in every world *)
Definition eff_static (e : effect) : Prop :=
  match e with
  | EPutObj _ p => exists k d, k <> KCommit /\ p = payload k d
  | ESetLcfg c => forall cf, cfg_of c = Some cf -> ch_cfg_nonl cf
  | ESetGcfg c => forall cf, cfg_of c = Some cf -> ch_cfg_nonl cf
  | _ => True
  end.

Lemma eff_static_ok : forall w e, eff_static e -> eff_ok w e.
Proof.
  intros w e H. destruct e; cbn [eff_static eff_ok] in *; try exact H.
  destruct H as (k & d & Hk & Hp). subst payload. apply put_ok_other_kind. exact Hk.
Qed.

Lemma nonl_written : forall c cf, cfg_of (cfg_written c) = Some cf -> ch_cfg_nonl cf.
Proof. intros c cf H. cbn [cfg_written cfg_of] in H. apply (ch_cfg_load_nonl _ _ H). Qed.

Lemma nonl_empty : forall cf, cfg_of (CfgFile (Some [])) = Some cf -> ch_cfg_nonl cf.
Proof. intros cf H. cbn [cfg_of] in H. injection H as H. subst cf. constructor. Qed.

Definition Gt : world -> effect -> Prop := fun _ _ => True.

(* [quiet m]: every effect [m] can perform is [eff_static] *)
Definition quiet {A} (m : M A) : Prop := emits (fun _ => True) (fun _ e => eff_static e) m.

Lemma steps_static : forall tr w,
  CInv w -> steps_ok (fun _ => True) (fun _ e => eff_static e) w tr -> steps_ok CInv Gt w tr.
Proof.
  induction tr as [|e tr IH]; intros w Hi Hs.
  - exact Logic.I.
  - destruct Hs as (Hst & _ & Hs'). cbn [steps_ok].
    assert (Hi' : CInv (apply_effect e w)).
    { apply cinv_step; [exact Hi|]. intros _ _. apply eff_static_ok. exact Hst. }
    split; [exact Logic.I|]. split; [exact Hi'|]. apply IH; assumption.
Qed.

Lemma quiet_inv : forall A (m : M A), quiet m -> emits CInv Gt m.
Proof.
  intros A m Hq s Hi _. destruct (Hq s Logic.I Logic.I) as (tr & Ht & Hs & Hw & _).
  exists tr. split; [exact Ht|]. split; [apply steps_static; assumption|].
  split; [exact Hw|]. intros a _. exact Logic.I.
Qed.

Lemma quiet_ret : forall A (a : A), quiet (ret a).
Proof. intros A a. apply emits_ret. Qed.
Lemma quiet_fail : forall A, quiet (@fail A).
Proof. intros A. apply emits_fail. Qed.
Lemma quiet_panic : forall A, quiet (@panic A).
Proof. intros A. apply emits_panic. Qed.
Lemma quiet_getw : quiet getw.
Proof. apply emits_getw. Qed.
Lemma quiet_of_opt : forall A (o : option A), quiet (of_opt o).
Proof. intros A o. apply emits_of_opt. Qed.
Lemma quiet_guard : forall b, quiet (guard b).
Proof. intros b. apply emits_guard. Qed.
Lemma quiet_emit : forall e, eff_static e -> quiet (emit e).
Proof. intros e H. apply emits_emit. intros w _. split; [exact H | exact Logic.I]. Qed.
Lemma quiet_bind : forall A B (m : M A) (f : A -> M B),
  quiet m -> (forall a, quiet (f a)) -> quiet (bind m f).
Proof. intros A B m f Hm Hf. apply emits_bind; assumption. Qed.
Lemma quiet_iterM : forall A (f : A -> M unit) l, (forall x, quiet (f x)) -> quiet (iterM f l).
Proof. intros A f l H. apply emits_iterM. intros x _. apply H. Qed.

Create HintDb qlaws discriminated.

Ltac qeff := first [ exact Logic.I | exact (nonl_written _) | exact nonl_empty ].

Ltac qstep :=
  first
  [ assumption
  | lazymatch goal with
    | |- quiet (bind _ _) => apply quiet_bind; [ | intro ]
    | |- quiet (ret _) => apply quiet_ret
    | |- quiet fail => apply quiet_fail
    | |- quiet panic => apply quiet_panic
    | |- quiet getw => apply quiet_getw
    | |- quiet (emit _) => apply quiet_emit; qeff
    | |- quiet (of_opt _) => apply quiet_of_opt
    | |- quiet (guard _) => apply quiet_guard
    | |- quiet (iterM _ _) => apply quiet_iterM; intro
    | |- quiet (let _ := _ in _) => cbv zeta
    | |- quiet (match ?x with _ => _ end) => destruct x; cbv beta iota
    | |- quiet ((fix f (l : list _) {struct l} : M _ := _) ?args) =>
        induction args; cbv beta iota
    end
  | solve [ auto with qlaws nocore ] ].

Ltac quiet_tac := repeat qstep.

(* the two kinds of object every command but [commit] writes *)
Lemma put_obj_quiet : forall k d, k <> KCommit -> quiet (put_obj k d).
Proof.
  intros k d Hk. unfold put_obj. apply quiet_bind; [|intro; apply quiet_ret].
  apply quiet_emit. exists k, d. split; [exact Hk | reflexivity].
Qed.
Lemma put_blob_quiet : forall d, quiet (put_obj KBlob d).
Proof. intro d. apply put_obj_quiet. discriminate. Qed.
Lemma put_tree_quiet : forall d, quiet (put_obj KTree d).
Proof. intro d. apply put_obj_quiet. discriminate. Qed.
#[export] Hint Resolve put_blob_quiet put_tree_quiet : qlaws.

Lemma wt_put_quiet : forall p data, quiet (wt_put p data).
Proof. intros p data. unfold wt_put. quiet_tac. Qed.
#[export] Hint Resolve wt_put_quiet : qlaws.
Lemma head_tree_nodes_quiet : forall c, quiet (head_tree_nodes c).
Proof. intros c. unfold head_tree_nodes. quiet_tac. Qed.
#[export] Hint Resolve head_tree_nodes_quiet : qlaws.
Lemma cmd_init_quiet : quiet cmd_init.
Proof. unfold cmd_init. quiet_tac. Qed.
Lemma cmd_config_quiet : forall c global args, quiet (cmd_config c global args).
Proof. intros c global args. unfold cmd_config. quiet_tac. Qed.
Lemma add_file_quiet : forall p, quiet (add_file p).
Proof. intros p. unfold add_file. quiet_tac. Qed.
#[export] Hint Resolve add_file_quiet : qlaws.
Lemma cmd_add_quiet : forall c args, quiet (cmd_add c args).
Proof. intros c args. unfold cmd_add. quiet_tac. Qed.
Lemma rm_one_quiet : forall p, quiet (rm_one p).
Proof. intros p. unfold rm_one. quiet_tac. Qed.
#[export] Hint Resolve rm_one_quiet : qlaws.
Lemma cmd_rm_quiet : forall args, quiet (cmd_rm args).
Proof. intros args. unfold cmd_rm. quiet_tac. Qed.
Lemma cmd_status_quiet : forall c, quiet (cmd_status c).
Proof. intros c. unfold cmd_status. quiet_tac. Qed.
Lemma cmd_branch_quiet : forall e c args lst rename delete, quiet (cmd_branch e c args lst rename delete).
Proof. intros e c args lst rename delete. unfold cmd_branch. quiet_tac. Qed.
Lemma head_update_quiet : forall name, quiet (head_update name).
Proof. intros name. unfold head_update. quiet_tac. Qed.
#[export] Hint Resolve head_update_quiet : qlaws.
Lemma cmd_switch_quiet : forall e c args create, quiet (cmd_switch e c args create).
Proof. intros e c args create. unfold cmd_switch. quiet_tac. Qed.
Lemma cmd_reset_quiet : forall e c soft mixed hard args, quiet (cmd_reset e c soft mixed hard args).
Proof. intros e c soft mixed hard args. unfold cmd_reset. quiet_tac. Qed.
Lemma restore_wd_quiet : forall p, quiet (restore_wd p).
Proof. intros p. unfold restore_wd. quiet_tac. Qed.
#[export] Hint Resolve restore_wd_quiet : qlaws.
Lemma restore_index_quiet : forall ns p, quiet (restore_index ns p).
Proof. intros ns p. unfold restore_index. quiet_tac. Qed.
#[export] Hint Resolve restore_index_quiet : qlaws.
Lemma cmd_restore_quiet : forall c staged args, quiet (cmd_restore c staged args).
Proof. intros c staged args. unfold cmd_restore. quiet_tac. Qed.
Lemma cmd_update_ref_quiet : forall args, quiet (cmd_update_ref args).
Proof. intros args. unfold cmd_update_ref. quiet_tac. Qed.
Lemma cmd_log_quiet : forall c n, quiet (cmd_log c n).
Proof. intros c n. unfold cmd_log. quiet_tac. Qed.
Lemma cmd_reflog_quiet : quiet cmd_reflog.
Proof. unfold cmd_reflog. quiet_tac. Qed.
Lemma cmd_cat_file_quiet : forall t p args, quiet (cmd_cat_file t p args).
Proof. intros t p args. unfold cmd_cat_file. quiet_tac. Qed.
Lemma cmd_hash_object_quiet : forall args, quiet (cmd_hash_object args).
Proof. intros args. unfold cmd_hash_object. quiet_tac. Qed.
Lemma cmd_ls_files_quiet : forall s, quiet (cmd_ls_files s).
Proof. intros s. unfold cmd_ls_files. quiet_tac. Qed.
Lemma cmd_rev_parse_quiet : forall args, quiet (cmd_rev_parse args).
Proof. intros args. unfold cmd_rev_parse. quiet_tac. Qed.
Lemma cmd_write_tree_quiet : quiet cmd_write_tree.
Proof. unfold cmd_write_tree. quiet_tac. Qed.
(** ** [commit]: the one command that writes a commit object *)

Lemma triv_emit : forall w e, eff_static e -> CInv w -> Gt w e /\ CInv (apply_effect e w).
Proof.
  intros w e He Hi. split; [exact Logic.I|]. apply cinv_step; [exact Hi|].
  intros _ _. apply eff_static_ok. exact He.
Qed.

Lemma get_commit_id_length : forall st id c, get_commit st id = Some c -> length id = 20%nat.
Proof.
  intros st id c H. destruct (get_commit_payload st id c H) as (p & d & _ & Hs & _).
  rewrite <- Hs. apply sha1_length.
Qed.

Lemma ctx_of_cfg : forall w x, ctx_of w = Some x ->
  cfg_of (w_lcfg w) = Some (x_l x) /\ cfg_of (w_gcfg w) = Some (x_g x).
Proof.
  intros w x H. unfold ctx_of in H.
  destruct (cfg_of (w_gcfg w)) as [g|]; [|discriminate H].
  destruct (cfg_of (w_lcfg w)) as [l|]; [|discriminate H].
  destruct (head_commit w) as [hc|]; [|discriminate H].
  destruct (ign_load _) as [pats|]; [|discriminate H].
  injection H as Hx. subst x. split; reflexivity.
Qed.

(* the branch HEAD names holds, when the context loads, a readable commit *)
Lemma head_tip_commit : forall w x id, ctx_of w = Some x ->
  am_get (w_refs w) (w_head w) = Some id -> exists c, get_commit (w_objs w) id = Some c.
Proof.
  intros w x id Hx Hid. pose proof (ctx_of_headc w x Hx) as Hh. unfold head_commit in Hh.
  rewrite Hid in Hh. destruct (get_commit (w_objs w) id) as [c|]; [|discriminate Hh].
  exists c. reflexivity.
Qed.

(* loop invariant of the tree writes: unless a collision is flagged, nothing
   stored at the start has changed *)
Definition kept_from (w w' : world) : Prop :=
  w_coll w' = false ->
  w_coll w = false /\ forall i p, st_lookup (w_objs w) i = Some p -> st_lookup (w_objs w') i = Some p.

Lemma kept_from_refl : forall w, kept_from w w.
Proof. intros w Hc. split; [exact Hc | auto]. Qed.

Lemma kept_from_step : forall w w' e, kept_from w w' -> kept_from w (apply_effect e w').
Proof.
  intros w w' e Hk Hc.
  assert (Hc' : w_coll w' = false).
  { destruct (w_coll w') eqn:E; [|reflexivity]. rewrite (coll_sticky e w' E) in Hc. discriminate Hc. }
  destruct (Hk Hc') as [Hw Hl]. split; [exact Hw|].
  intros i p Hi. apply effect_store_grows; [exact Hc | apply Hl; exact Hi].
Qed.

Lemma kept_commit : forall w w' id c, kept_from w w' -> w_coll w' = false ->
  get_commit (w_objs w) id = Some c -> get_commit (w_objs w') id = Some c.
Proof.
  intros w w' id c Hk Hc Hg. destruct (Hk Hc) as [_ Hl].
  destruct (get_commit_payload _ _ _ Hg) as (p & d & Hp & _).
  rewrite <- Hg. apply get_commit_lookup_eq. rewrite Hp. apply Hl. exact Hp.
Qed.

Ltac triv_emits :=
  lazymatch goal with
  | |- Gt _ _ /\ CInv (apply_effect _ _) /\ _ =>
      split; [exact Logic.I|]; split; [|exact Logic.I];
      apply cinv_step; [assumption | intros _ _; exact Logic.I]
  | |- Gt _ _ /\ CInv (apply_effect _ _) =>
      apply triv_emit; [exact Logic.I | assumption]
  end.

Lemma do_commit_inv : forall e x msg w, ctx_of w = Some x ->
  hoare CInv Gt (eq w) (do_commit e x msg) (fun _ _ => True).
Proof.
  intros e x msg w Hx. apply at_Inv. intro Hi0. unfold do_commit.
  hstep. hstep.
  apply at_bind_iterM with (J := kept_from w).
  - intros _. apply kept_from_refl.
  - (* one tree write *)
    intros d w' _ Hi' Hk. unfold put_obj. hsteps.
    + apply triv_emit; [|assumption]. exists KTree, d. split; [discriminate | reflexivity].
    + apply kept_from_step. exact Hk.
  - (* the commit itself *)
    intros w1 Hi1 Hk1. cbv beta.
    hstep.
    match goal with
    | Hp : parse_commit ?data = Some ?c0 |- _ => rename Hp into Hparse; rename c0 into cm0
    end.
    change (match am_get (w_refs w) (w_head w) with Some id => Some (hex id) | None => None end)
      with (option_map hex (am_get (w_refs w) (w_head w))) in Hparse.
    unfold put_obj. hstep. hstep.
    + (* the write of the commit object is [put_ok] *)
      split; [exact Logic.I|]. apply cinv_step; [assumption|]. intros Hc2 Hg1. cbn [eff_ok].
      assert (Hc1 : w_coll w1 = false).
      { destruct (w_coll w1) eqn:E; [|reflexivity].
        rewrite (coll_sticky _ w1 E) in Hc2. discriminate Hc2. }
      destruct (Hk1 Hc1) as [Hc0 _].
      assert (Hg0 : ChainGood w) by (destruct Hi0 as [Hb|Hg]; [rewrite Hb in Hc0; discriminate Hc0 | exact Hg]).
      destruct (cg_cfg w Hg0) as [Hlc Hgc]. destruct (ctx_of_cfg w x Hx) as [Hxl Hxg].
      pose proof (Hlc _ Hxl) as Hnl. pose proof (Hgc _ Hxg) as Hng.
      apply put_ok_commit. intros c Hc.
      change (match am_get (w_refs w) (w_head w) with Some id => Some (hex id) | None => None end)
        with (option_map hex (am_get (w_refs w) (w_head w))) in Hc.
      assert (Hsig : ~ In c_nl (sign_string (user_name (x_l x) (x_g x)) (user_email (x_l x) (x_g x))
                                  (e_time e) (e_off e))).
      { apply sign_string_nonl; [apply ch_user_name_nonl | apply ch_user_email_nonl]; assumption. }
      assert (Hpar : c_parents c = parent_list (am_get (w_refs w) (w_head w))).
      { refine (commit_text_parents _ _ _ _ _ _ Hsig Hsig _ Hc).
        intros p Hp. destruct (head_tip_commit w x p Hx Hp) as [cp Hcp].
        apply (get_commit_id_length _ _ _ Hcp). }
      rewrite Hpar. destruct (am_get (w_refs w) (w_head w)) as [tip|] eqn:Etip; cbn [parent_list].
      * split; [cbn [length]; lia|]. intros q [Hq|[]]. subst q.
        destruct (head_tip_commit w x tip Hx Etip) as [cp Hcp].
        exists cp. apply (kept_commit w w1 tip cp Hk1 Hc1 Hcp).
      * split; [cbn [length]; lia|]. intros q [].
    + (* the rest only moves the branch and appends to the journals *)
      hsteps; triv_emits.
Qed.
Lemma cmd_commit_inv : forall e x msg w, ctx_of w = Some x ->
  hoare CInv Gt (eq w) (cmd_commit e x msg) (fun _ _ => True).
Proof.
  intros e x msg w Hx. unfold cmd_commit. hsteps.
  - (* the first commit of the repository *)
    apply at_bind with (R := fun _ _ => True); [apply do_commit_inv; exact Hx|].
    intros a w' _ _. hsteps. exact Logic.I.
  - (* HEAD has a commit: compare with its tree, then commit *)
    unfold head_tree_nodes. hsteps;
      (apply at_bind with (R := fun _ _ => True); [apply do_commit_inv; exact Hx|];
       intros a' w' _ _; hsteps; exact Logic.I).
Qed.

Lemma quiet_at : forall A (m : M A) w, quiet m -> hoare CInv Gt (eq w) m (fun _ _ => True).
Proof. intros A m w H. apply emits_hoare. apply quiet_inv. exact H. Qed.

Lemma dispatch_inv : forall e c x w, ctx_of w = Some x ->
  hoare CInv Gt (eq w) (dispatch e c x) (fun _ _ => True).
Proof.
  intros e c x w Hx. destruct c; cbn [dispatch].
  - apply hoare_fail.
  - apply quiet_at, cmd_config_quiet.
  - apply quiet_at, cmd_add_quiet.
  - apply quiet_at, cmd_rm_quiet.
  - apply cmd_commit_inv. exact Hx.
  - apply quiet_at, cmd_status_quiet.
  - apply quiet_at, cmd_branch_quiet.
  - apply quiet_at, cmd_switch_quiet.
  - apply quiet_at, cmd_reset_quiet.
  - apply quiet_at, cmd_restore_quiet.
  - apply quiet_at, cmd_update_ref_quiet.
  - apply quiet_at, cmd_log_quiet.
  - apply quiet_at, cmd_reflog_quiet.
  - apply quiet_at, cmd_cat_file_quiet.
  - apply quiet_at, cmd_hash_object_quiet.
  - apply quiet_at, cmd_ls_files_quiet.
  - apply quiet_at, cmd_rev_parse_quiet.
  - apply quiet_at, cmd_write_tree_quiet.
Qed.

Lemma hoare_err : forall A (s : mstate),
  exists tr : list effect,
    ms_trace (snd (@Err A, s)) = ms_trace s ++ tr /\
    steps_ok CInv Gt (ms_w s) tr /\
    ms_w (snd (@Err A, s)) = apply_effects tr (ms_w s) /\
    forall a, fst (@Err A, s) = Ok a -> True.
Proof.
  intros A s. exists []. cbn [fst snd]. rewrite app_nil_r.
  split; [reflexivity|]. split; [exact Logic.I|]. split; [reflexivity|]. intros a _. exact Logic.I.
Qed.

(* every command keeps the invariant in EVERY intermediate world, also when a
   fault is injected *)
Theorem run_cmd_inv : forall e c, emits CInv Gt (run_cmd e c).
Proof.
  intros e c s Hi _. rewrite run_cmd_eq.
  assert (Hgen : forall c', c' = c ->
            exists tr : list effect,
              ms_trace (snd (if w_inited (ms_w s)
                             then match ctx_of (ms_w s) with
                                  | Some x => dispatch e c' x s
                                  | None => (Err, s)
                                  end
                             else (Err, s))) = ms_trace s ++ tr /\
              steps_ok CInv Gt (ms_w s) tr /\
              ms_w (snd (if w_inited (ms_w s)
                         then match ctx_of (ms_w s) with
                              | Some x => dispatch e c' x s
                              | None => (Err, s)
                              end
                         else (Err, s))) = apply_effects tr (ms_w s) /\
              forall a, fst (if w_inited (ms_w s)
                             then match ctx_of (ms_w s) with
                                  | Some x => dispatch e c' x s
                                  | None => (Err, s)
                                  end
                             else (Err, s)) = Ok a -> True).
  { intros c' _. destruct (w_inited (ms_w s)); [|apply hoare_err].
    destruct (ctx_of (ms_w s)) as [x|] eqn:Ex; [|apply hoare_err].
    exact (dispatch_inv e c' x (ms_w s) Ex s Hi eq_refl). }
  destruct c; try (apply Hgen; reflexivity).
  exact (quiet_inv _ _ cmd_init_quiet s Hi Logic.I).
Qed.

(* the invariant along every history, from any world that has it *)
Theorem cinv_run : forall h w, CInv w -> CInv (run h w).
Proof. apply (run_invariant CInv Gt run_cmd_inv cinv_edit). Qed.

Theorem reach_good : forall h, w_coll (run h w_empty) = false -> ChainGood (run h w_empty).
Proof.
  intros h Hc. destruct (cinv_run h w_empty cinv_empty) as [Hb|Hg]; [|exact Hg].
  rewrite Hb in Hc. discriminate Hc.
Qed.

(* ================================================================== *)
(** * 7. C14 on every reachable repository *)

(* every id that reads as a commit — in particular the tip of EVERY branch
   whose file names a readable commit — has a duplicate-free parent chain,
   and the walk of [log] with the fuel [cmd_log] passes lists it *)
Theorem log_on_reachable_any : forall h,
  w_coll (run h w_empty) = false ->
  forall tip cm, get_commit (w_objs (run h w_empty)) tip = Some cm ->
  forall n, exists l,
    chain (w_objs (run h w_empty)) tip l /\ NoDup l /\
    walk_history (S (S (2 * length (w_objs (run h w_empty))))) (w_objs (run h w_empty)) [tip] [] 0 n
      = Some (firstn (Z.to_nat n) l).
Proof.
  intros h Hc tip cm Hg n. pose proof (reach_good h Hc) as Hgood.
  apply (walk_on_good_store _ (cg_pe _ Hgood) (cg_nd _ Hgood) tip cm Hg).
Qed.

(* the statement asked for: the tip of the current branch *)
Theorem log_on_reachable : forall h,
  w_coll (run h w_empty) = false ->
  forall tip cm,
  am_get (w_refs (run h w_empty)) (w_head (run h w_empty)) = Some tip ->
  get_commit (w_objs (run h w_empty)) tip = Some cm ->
  forall n, exists l,
    chain (w_objs (run h w_empty)) tip l /\ NoDup l /\
    walk_history (S (S (2 * length (w_objs (run h w_empty))))) (w_objs (run h w_empty)) [tip] [] 0 n
      = Some (firstn (Z.to_nat n) l).
Proof. intros h Hc tip cm _ Hg n. exact (log_on_reachable_any h Hc tip cm Hg n). Qed.

(* the command: whenever the context of a reachable repository loads and HEAD
   has a commit, `log -n k` answers with the first min(k, length) ids of the
   parent chain of that commit, newest first, and changes nothing *)
Theorem cmd_log_on_reachable : forall h x tip cm,
  w_coll (run h w_empty) = false ->
  ctx_of (run h w_empty) = Some x -> x_headc x = Some (tip, cm) ->
  exists l, chain (w_objs (run h w_empty)) tip l /\ NoDup l /\
    forall n t f,
      cmd_log x n (mkMS (run h w_empty) t f)
      = (Ok (map hex (firstn (Z.to_nat n) l)), mkMS (run h w_empty) t f).
Proof.
  intros h x tip cm Hc Hx Hh.
  pose proof (ctx_of_headc _ _ Hx) as Hhc. rewrite Hh in Hhc.
  destruct (head_commit_some _ _ _ Hhc) as [Href Hg].
  pose proof (reach_good h Hc) as Hgood.
  destruct (chain_exists _ (cg_pe _ Hgood) (cg_nd _ Hgood) tip cm Hg) as (l & Hch & Hnd).
  exists l. split; [exact Hch|]. split; [exact Hnd|].
  intros n t f. apply (cmd_log_chain x n _ tip cm l); cbn [ms_w]; try assumption.
  intro Hnil. rewrite Hnil in Href. discriminate Href.
Qed.

(* ... and as a step of the history *)
Theorem step_log_on_reachable : forall h e x tip cm n,
  w_coll (run h w_empty) = false -> w_inited (run h w_empty) = true ->
  ctx_of (run h w_empty) = Some x -> x_headc x = Some (tip, cm) ->
  exists l, chain (w_objs (run h w_empty)) tip l /\ NoDup l /\
    step (ACmd e (CLog n)) (run h w_empty)
    = (run h w_empty, OOk (map hex (firstn (Z.to_nat n) l)), []).
Proof.
  intros h e x tip cm n Hc Hin Hx Hh.
  destruct (cmd_log_on_reachable h x tip cm Hc Hx Hh) as (l & Hch & Hnd & Hlog).
  exists l. split; [exact Hch|]. split; [exact Hnd|].
  rewrite (step_loaded e (CLog n) _ x); [|discriminate | exact Hin | exact Hx].
  cbn [dispatch]. rewrite Hlog. reflexivity.
Qed.
(* the same for [Inv.Reachable] worlds (the side condition on edits is not needed) *)
Corollary log_on_Reachable : forall w,
  Reachable w -> w_coll w = false ->
  forall tip cm, get_commit (w_objs w) tip = Some cm ->
  forall n, exists l,
    chain (w_objs w) tip l /\ NoDup l /\
    walk_history (S (S (2 * length (w_objs w)))) (w_objs w) [tip] [] 0 n = Some (firstn (Z.to_nat n) l).
Proof.
  intros w (h & _ & Hw) Hc tip cm Hg n. subst w. exact (log_on_reachable_any h Hc tip cm Hg n).
Qed.

(* every branch of a reachable repository: if its file names a readable
   commit, that commit has its duplicate-free chain *)
Corollary branch_chain_on_reachable : forall h b tip cm,
  w_coll (run h w_empty) = false ->
  am_get (w_refs (run h w_empty)) b = Some tip ->
  get_commit (w_objs (run h w_empty)) tip = Some cm ->
  exists l, chain (w_objs (run h w_empty)) tip l /\ NoDup l.
Proof.
  intros h b tip cm Hc _ Hg. destruct (log_on_reachable_any h Hc tip cm Hg 0%Z) as (l & Hch & Hnd & _).
  exists l. split; assumption.
Qed.

(* ================================================================== *)
(** * 8. Example (real SHA-1, by computation): three commits, then
      [reset --soft HEAD@{2}] back to the first one, then a fourth commit *)

Section ChainExample.
  Local Open Scope string_scope.
  Let chx_env : env := mkEnv 1700000000 0.
  Let cmd_ (c : cmd) : action := ACmd chx_env c.

  Definition chx_hist : list action :=
    [cmd_ CInit;
     cmd_ (CConfig false [str "user.name"; str "t"]);
     cmd_ (CConfig false [str "user.email"; str "t@x.io"]);
     AEdit (UWrite (str "f") (str "one"));
     cmd_ (CAdd [str "f"]);
     cmd_ (CCommit (str "first"));
     AEdit (UWrite (str "f") (str "two"));
     cmd_ (CAdd [str "f"]);
     cmd_ (CCommit (str "second"));
     AEdit (UWrite (str "f") (str "three"));
     cmd_ (CAdd [str "f"]);
     cmd_ (CCommit (str "third"));
     cmd_ (CReset true false false [str "HEAD@{2}"]);
     cmd_ (CCommit (str "fourth"))].

  Definition chx_w : world := Eval vm_compute in run chx_hist w_empty.

  Lemma chx_run : run chx_hist w_empty = chx_w.
  Proof. vm_compute. reflexivity. Qed.

  (* the ids, in the order the objects were written: blob, tree, commit (x3), commit *)
  Definition chx_ids : list bytes := Eval vm_compute in map fst (w_objs chx_w).
  Definition chx_first : bytes := Eval vm_compute in nth 2 chx_ids [].
  Definition chx_second : bytes := Eval vm_compute in nth 5 chx_ids [].
  Definition chx_third : bytes := Eval vm_compute in nth 8 chx_ids [].
  Definition chx_fourth : bytes := Eval vm_compute in nth 9 chx_ids [].

  Example chx_ten_objects : length (w_objs chx_w) = 10%nat /\ w_coll chx_w = false.
  Proof. vm_compute. split; reflexivity. Qed.

  Example chx_head : am_get (w_refs chx_w) (w_head chx_w) = Some chx_fourth.
  Proof. vm_compute. reflexivity. Qed.

  Example chx_parents :
    option_map c_parents (get_commit (w_objs chx_w) chx_first) = Some [] /\
    option_map c_parents (get_commit (w_objs chx_w) chx_second) = Some [chx_first] /\
    option_map c_parents (get_commit (w_objs chx_w) chx_third) = Some [chx_second] /\
    option_map c_parents (get_commit (w_objs chx_w) chx_fourth) = Some [chx_first].
  Proof. vm_compute. repeat split; reflexivity. Qed.

  (* the chain of the new tip: the fourth commit, then the first *)
  Example chx_chain : chain (w_objs chx_w) chx_fourth [chx_fourth; chx_first].
  Proof.
    destruct chx_parents as (H1 & _ & _ & H4).
    destruct (get_commit (w_objs chx_w) chx_first) as [c1|] eqn:E1; [|discriminate H1].
    destruct (get_commit (w_objs chx_w) chx_fourth) as [c4|] eqn:E4; [|discriminate H4].
    cbn [option_map] in H1, H4. injection H1 as H1. injection H4 as H4.
    apply (chain_step _ _ c4 chx_first _ E4 H4). apply (chain_root _ _ c1 E1 H1).
  Qed.

  (* what the history-level theorem gives for this history: the chain has
     length 2 and the walk with -n 5 lists both commits *)
  Example chx_theorem :
    exists l, chain (w_objs chx_w) chx_fourth l /\ NoDup l /\ length l = 2%nat /\
      walk_history (S (S (2 * length (w_objs chx_w)))) (w_objs chx_w) [chx_fourth] [] 0 5 = Some l.
  Proof.
    destruct chx_parents as (_ & _ & _ & H4).
    destruct (get_commit (w_objs chx_w) chx_fourth) as [c4|] eqn:E4; [|discriminate H4].
    assert (Hc : w_coll (run chx_hist w_empty) = false) by (rewrite chx_run; reflexivity).
    pose proof (log_on_reachable chx_hist Hc chx_fourth c4) as Hlog.
    rewrite chx_run in Hlog. destruct (Hlog chx_head E4 5%Z) as (l & Hch & Hnd & Hwalk).
    pose proof (chain_functional _ _ _ Hch _ chx_chain) as Hl. subst l.
    exists [chx_fourth; chx_first]. split; [exact Hch|]. split; [exact Hnd|].
    split; [reflexivity | exact Hwalk].
  Qed.

  (* and the command itself, run on the model: two lines *)
  Example chx_log5 :
    step (cmd_ (CLog 5)) chx_w = (chx_w, OOk [hex chx_fourth; hex chx_first], []).
  Proof. vm_compute. reflexivity. Qed.

  Example chx_log1 :
    step (cmd_ (CLog 1)) chx_w = (chx_w, OOk [hex chx_fourth], []).
  Proof. vm_compute. reflexivity. Qed.

  (* the two abandoned commits are still stored, each with its own chain *)
  Example chx_old_chain : chain (w_objs chx_w) chx_third [chx_third; chx_second; chx_first].
  Proof.
    destruct chx_parents as (H1 & H2 & H3 & _).
    destruct (get_commit (w_objs chx_w) chx_first) as [c1|] eqn:E1; [|discriminate H1].
    destruct (get_commit (w_objs chx_w) chx_second) as [c2|] eqn:E2; [|discriminate H2].
    destruct (get_commit (w_objs chx_w) chx_third) as [c3|] eqn:E3; [|discriminate H3].
    cbn [option_map] in H1, H2, H3. injection H1 as H1. injection H2 as H2. injection H3 as H3.
    apply (chain_step _ _ c3 chx_second _ E3 H3). apply (chain_step _ _ c2 chx_first _ E2 H2).
    apply (chain_root _ _ c1 E1 H1).
  Qed.
End ChainExample.

(* ------------------------------------------------------------------ *)
(* why [CfgNoNl] is part of the invariant: with a newline in the configured
   name the reader finds a parent that [commit] never wrote *)
Example newline_in_name_adds_parent :
  let id := obj_id KBlob [] in
  let a := sign_string (str "A <a@b.cc> 1 +0000" ++ [c_nl] ++ str "parent " ++ hex id ++ [c_nl] ++ str "author A")
                       (str "a@b.cc") 1700000000 0 in
  let c := sign_string (str "A") (str "a@b.cc") 1700000000 0 in
  option_map c_parents (parse_commit (commit_text id None a c (str "m"))) = Some [id].
Proof. vm_compute. reflexivity. Qed.

Print Assumptions st_set_fresh_app.
Print Assumptions pe_put.
Print Assumptions chain_exists.
Print Assumptions commit_text_parents.
Print Assumptions run_cmd_inv.
Print Assumptions reach_good.
Print Assumptions log_on_reachable_any.
Print Assumptions log_on_reachable.
Print Assumptions cmd_log_on_reachable.
Print Assumptions step_log_on_reachable.
Print Assumptions log_on_Reachable.
Print Assumptions branch_chain_on_reachable.
Print Assumptions chx_theorem.
