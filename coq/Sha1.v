(* Sha1.v — executable SHA-1 (FIPS 180-4) over N words. *)
From Coq Require Import List NArith Arith.
From Coq Require Import Strings.Byte.
From Goit Require Import Bytes.
Import ListNotations.
Local Open Scope N_scope.

Definition w32 : N := 4294967296.
Definition add32 (a b : N) : N := (a + b) mod w32.
Definition rotl (n : N) (x : N) : N :=
  (N.lor (N.shiftl x n) (N.shiftr x (32 - n))) mod w32.
Definition not32 (x : N) : N := w32 - 1 - x.

Definition word_of (a b c d : byte) : N :=
  ((bN a * 256 + bN b) * 256 + bN c) * 256 + bN d.
Definition bytes_of_word (w : N) : bytes :=
  [Nb ((w / 16777216) mod 256); Nb ((w / 65536) mod 256); Nb ((w / 256) mod 256); Nb (w mod 256)].

Fixpoint words_of (fuel : nat) (b : bytes) : list N :=
  match fuel with
  | O => []
  | S f =>
    match b with
    | a :: b1 :: c :: d :: r => word_of a b1 c d :: words_of f r
    | _ => []
    end
  end.

Definition len64 (n : N) : bytes :=
  bytes_of_word ((n / w32) mod w32) ++ bytes_of_word (n mod w32).

(* message ++ 0x80 ++ zeros ++ 64-bit bit length; total a multiple of 64 *)
Definition pad (m : bytes) : bytes :=
  let l := length m in
  let k := (Nat.modulo (119 - Nat.modulo l 64) 64)%nat in
  m ++ [x80] ++ repeat x00 k ++ len64 (8 * N.of_nat l).

Definition f_t (t : nat) (b c d : N) : N :=
  if Nat.ltb t 20 then N.lor (N.land b c) (N.land (not32 b) d)
  else if Nat.ltb t 40 then N.lxor (N.lxor b c) d
  else if Nat.ltb t 60 then N.lor (N.lor (N.land b c) (N.land b d)) (N.land c d)
  else N.lxor (N.lxor b c) d.
Definition k_t (t : nat) : N :=
  if Nat.ltb t 20 then 1518500249
  else if Nat.ltb t 40 then 1859775393
  else if Nat.ltb t 60 then 2400959708
  else 3395469782.

(* schedule kept as a reversed list: head = W[t-1] *)
Definition next_w (ws : list N) : N :=
  rotl 1 (N.lxor (N.lxor (nth 2 ws 0) (nth 7 ws 0)) (N.lxor (nth 13 ws 0) (nth 15 ws 0))).

Fixpoint extend (n : nat) (ws : list N) : list N :=
  match n with
  | O => ws
  | S n' => extend n' (next_w ws :: ws)
  end.

Record st5 := mk5 { sa : N; sb : N; sc : N; sd : N; se : N }.

Fixpoint rounds (t : nat) (ws : list N) (s : st5) : st5 :=
  match ws with
  | [] => s
  | w :: r =>
    let tmp := add32 (add32 (add32 (add32 (rotl 5 (sa s)) (f_t t (sb s) (sc s) (sd s))) (se s)) w) (k_t t) in
    rounds (S t) r (mk5 tmp (sa s) (rotl 30 (sb s)) (sc s) (sd s))
  end.

Definition block (h : st5) (ws16 : list N) : st5 :=
  let sched := rev (extend 64 (rev ws16)) in
  let r := rounds 0 sched h in
  mk5 (add32 (sa h) (sa r)) (add32 (sb h) (sb r)) (add32 (sc h) (sc r))
      (add32 (sd h) (sd r)) (add32 (se h) (se r)).

Fixpoint blocks (fuel : nat) (h : st5) (ws : list N) : st5 :=
  match fuel with
  | O => h
  | S f =>
    match ws with
    | [] => h
    | _ => blocks f (block h (firstn 16 ws)) (skipn 16 ws)
    end
  end.

Definition h0 : st5 := mk5 1732584193 4023233417 2562383102 271733878 3285377520.

Definition sha1 (m : bytes) : bytes :=
  let p := pad m in
  let ws := words_of (length p) p in
  let h := blocks (S (length ws)) h0 ws in
  bytes_of_word (sa h) ++ bytes_of_word (sb h) ++ bytes_of_word (sc h)
  ++ bytes_of_word (sd h) ++ bytes_of_word (se h).

Lemma sha1_length : forall m, length (sha1 m) = 20%nat.
Proof. intro m. unfold sha1, bytes_of_word. rewrite !app_length. reflexivity. Qed.
