(* DecoderFacts.v - property C19 "decoders are total; damaged files give errors,
   never crashes or wrong data", model half.

   Every decoder of the model is a total function into [option]; what is
   proved here is
   (a) soundness of acceptance - whatever a decoder accepts is well formed and
       means what the bytes say:
         D1 [read_hash_sound] (sha.ReadHash), D2 [parse_ref_sound], [parse_head_sound],
         D3 [parse_payload_sound], [payload_resized_rejected], [get_obj_sound],
            [get_obj_wrong_name], [get_obj_names_distinct],
         D4 [parse_commit_sound], [read_sign_sound],
         D5 [parse_tree_items_sound], [walk_tree_level], [walk_tree_sound],
         D6 [parse_log_line_sound], [parse_reflog_sound], [get_record_beyond],
         D7 [cfg_load_sound] (from ConfigCmdFacts.cfg_load_wf), [cfg_load_stable];
   (b) D8 [read_only_commands_are_read_only]: on ANY world the read-only
       commands change nothing, emit nothing and do not crash; [write_tree_frame].
   Where the statement first guessed was false for the model, the counterexample
   is an [Example] next to the corrected theorem. *)
From Coq Require Import Strings.String Strings.Byte.
From Coq Require Import List Bool NArith ZArith Arith Lia.
From Goit Require Import Bytes Sha1 Obj Refs Tree Index Regex GoRegex Commit Reflog Config Ignore World Repo.
From Goit Require Import BytesFacts RegexFacts ObjFacts TreeFacts IndexFacts CommitFacts ReflogFacts ConfigFacts
                         MonadFacts BranchFacts TotalFacts ConfigCmdFacts.
Import ListNotations.
#[local] Arguments sha1 : simpl never.

(* ================================================================== *)
(** * 0. Lists *)

Lemma list_ind2 : forall (A : Type) (P : list A -> Prop),
  P [] -> (forall a, P [a]) -> (forall a b r, P r -> P (a :: b :: r)) -> forall l, P l.
Proof.
  intros A P H0 H1 H2.
  refine (fix F (l : list A) : P l :=
            match l with
            | [] => H0
            | [a] => H1 a
            | a :: b :: r => H2 a b r (F r)
            end).
Qed.

(* equal concatenations: the shorter head is a prefix of the longer one *)
Lemma app_eq_suffix : forall (A : Type) (l1 l2 x v : list A),
  l1 ++ x = l2 ++ v -> length l1 <= length l2 -> exists w, x = w ++ v /\ l2 = l1 ++ w.
Proof.
  intros A l1. induction l1 as [|a l1 IH]; intros l2 x v Heq Hlen.
  - exists l2. split; [exact Heq | reflexivity].
  - destruct l2 as [|b l2]; [cbn [length] in Hlen; lia|].
    cbn [app] in Heq. injection Heq as Hab Heq. subst b.
    destruct (IH l2 x v Heq) as [w [Hx Hl]]; [cbn [length] in Hlen; lia|].
    exists w. split; [exact Hx | cbn [app]; rewrite Hl; reflexivity].
Qed.

(* ================================================================== *)
(** * D1. sha.ReadHash *)

(* one hexadecimal digit, either case: its value is below 16 and printing the
   value gives the digit folded to lower case *)
Lemma unhex_digit_spec : forall c,
  match unhex_digit c with
  | Some x => hex_digit x = lower c /\ (x < 16)%N
  | None => True
  end.
Proof. intro c. destruct c; vm_compute; try exact I; split; reflexivity. Qed.

Lemma lower_hex_fix : forall c, is_lower_hex c = true -> lower c = c.
Proof. intro c. destruct c; vm_compute; intro H; try reflexivity; discriminate H. Qed.

Lemma lower_hex_digit : forall c, is_lower_hex c = true -> exists x, unhex_digit c = Some x.
Proof. intro c. destruct c; vm_compute; intro H; try discriminate H; eexists; reflexivity. Qed.

Lemma hex_pair : forall x y, (x < 16)%N -> (y < 16)%N ->
  hex [Nb (16 * x + y)] = [hex_digit x; hex_digit y].
Proof.
  intros x y Hx Hy. cbn [hex]. rewrite bN_Nb by lia.
  replace ((16 * x + y) / 16)%N with x by (apply (N.div_unique _ 16 x y); [lia | reflexivity]).
  replace ((16 * x + y) mod 16)%N with y by (apply (N.mod_unique _ 16 x y); [lia | reflexivity]).
  reflexivity.
Qed.

(* encoding/hex.DecodeString, when it succeeds: two digits per byte, and the
   decoded bytes print back as the text folded to lower case *)
Theorem unhex_sound : forall s id,
  unhex s = Some id -> length s = 2 * length id /\ hex id = map lower s.
Proof.
  intro s. induction s as [| a | a b r IH] using list_ind2; intros id Hun.
  - cbn [unhex] in Hun. injection Hun as Hid. subst id. split; reflexivity.
  - cbn [unhex] in Hun. discriminate Hun.
  - rewrite unhex_cons2 in Hun.
    pose proof (unhex_digit_spec a) as Ha. pose proof (unhex_digit_spec b) as Hb.
    destruct (unhex_digit a) as [x|]; [|discriminate Hun].
    destruct (unhex_digit b) as [y|]; [|discriminate Hun].
    destruct (unhex r) as [t|]; [|discriminate Hun].
    injection Hun as Hid. subst id. destruct (IH t eq_refl) as [Hlen Hhex].
    destruct Ha as [Ha Hx]. destruct Hb as [Hb Hy]. split.
    + cbn [length]. rewrite Hlen. lia.
    + change (hex ([Nb (16 * x + y)] ++ t) = map lower (a :: b :: r)).
      rewrite hex_app, hex_pair by assumption. cbn [map app]. rewrite Ha, Hb, Hhex. reflexivity.
Qed.

Lemma map_lower_hex : forall s, forallb is_lower_hex s = true -> map lower s = s.
Proof.
  intro s. induction s as [|c r IH]; intro H; [reflexivity|].
  cbn [forallb] in H. apply andb_true_iff in H. destruct H as [Hc Hr].
  cbn [map]. rewrite (lower_hex_fix c Hc), (IH Hr). reflexivity.
Qed.

(* D1 (corrected).  ReadHash does NOT pick an occurrence of 40 hex digits:
   the 40-digit run is only a gate; the id returned is the decoding of the
   WHOLE text, in either case of the letters.  So the id has AT LEAST 20
   bytes, and exactly 20 iff the text has exactly 40 characters. *)
Theorem read_hash_sound : forall s id,
  read_hash s = Some id ->
  unhex s = Some id /\ hexsub 40 s /\
  length s = 2 * length id /\ hex id = map lower s /\ 20 <= length id.
Proof.
  intros s id H. unfold read_hash in H.
  destruct (has_hex_run 40 0 s) eqn:Hrun; [|discriminate H].
  apply (has_hex_run_spec 40 s) in Hrun; [|lia].
  destruct (unhex_sound s id H) as [Hlen Hhex].
  split; [exact H|]. split; [exact Hrun|]. split; [exact Hlen|]. split; [exact Hhex|].
  destruct Hrun as [pre [mid [post [Es [Lm _]]]]].
  apply (f_equal (@length byte)) in Es. rewrite !app_length in Es. lia.
Qed.

(* the usual case: a text of exactly 40 characters is the lower-case hex of a 20-byte id *)
Corollary read_hash_40 : forall s id,
  read_hash s = Some id -> length s = 40 -> length id = 20 /\ s = hex id.
Proof.
  intros s id H L. destruct (read_hash_sound s id H) as (_ & Hsub & Hlen & Hhex & _).
  split; [lia|].
  destruct Hsub as [pre [mid [post [Es [Lm Fm]]]]].
  assert (Hl : length pre + (length mid + length post) = 40).
  { rewrite <- L, Es, !app_length. reflexivity. }
  assert (Hpre : pre = []) by (destruct pre; [reflexivity | cbn [length] in Hl; lia]).
  assert (Hpost : post = []) by (destruct post; [reflexivity | cbn [length] in Hl; lia]).
  subst pre post. cbn [app] in Es. rewrite app_nil_r in Es. subst mid.
  rewrite Hhex. symmetry. apply map_lower_hex. exact Fm.
Qed.

Corollary read_hash_20_iff : forall s id,
  read_hash s = Some id -> (length id = 20 <-> length s = 40).
Proof.
  intros s id H. destruct (read_hash_sound s id H) as (_ & _ & Hlen & _). lia.
Qed.

(* the guessed statement [length id = 20 /\ s = a ++ hex id ++ b] is false:
   a 42-character text gives a 21-byte id ... *)
Example read_hash_long :
  read_hash (repeat x30 40 ++ [x41; x42]) = Some (repeat x00 20 ++ [xab]).
Proof. vm_compute. reflexivity. Qed.
(* ... whose hex ("...ab") does not occur in the text ("...AB"); and a text
   that merely CONTAINS a 40-digit id is rejected, not searched *)
Example read_hash_embedded : read_hash ([c_sp] ++ repeat x30 40) = None.
Proof. vm_compute. reflexivity. Qed.
Example read_hash_newline : read_hash (repeat x30 40 ++ [c_nl]) = None.
Proof. vm_compute. reflexivity. Qed.

(* ================================================================== *)
(** * D2. The branch file and HEAD *)

Theorem parse_ref_sound : forall raw id,
  parse_ref raw = Some id ->
  unhex raw = Some id /\ hexsub 40 raw /\ length raw = 2 * length id /\
  hex id = map lower raw /\ 20 <= length id.
Proof. exact read_hash_sound. Qed.

(* a branch file of the size Goit writes holds exactly the hex of a 20-byte id *)
Corollary parse_ref_40 : forall raw id,
  parse_ref raw = Some id -> length raw = 40 -> length id = 20 /\ raw = render_ref id.
Proof. exact read_hash_40. Qed.

(* -- strings.Split and its last piece -- *)
Lemma split_all_last : forall sep s,
  ~ In sep (last (split_all sep s) []) /\
  ((~ In sep s /\ split_all sep s = [s]) \/
   (exists a, s = a ++ sep :: last (split_all sep s) []) /\
   (exists h t, split_all sep s = h :: t /\ t <> [])).
Proof.
  intros sep s. induction s as [|c r IH].
  - cbn [split_all last]. split; [intros []|]. left. split; [intros [] | reflexivity].
  - destruct IH as [Hn IH]. cbn [split_all]. destruct (beqb c sep) eqn:Ec.
    + apply beqb_eq in Ec. subst c.
      destruct IH as [[Hnin Hsp] | [[a Ha] [h [t [Hsp Ht]]]]].
      * rewrite Hsp in Hn |- *. cbn [last] in Hn |- *. split; [exact Hn|]. right. split.
        -- exists []. reflexivity.
        -- exists [], [r]. split; [reflexivity | discriminate].
      * rewrite Hsp in Hn, Ha |- *.
        change (last ([] :: h :: t) []) with (last (h :: t) (@nil byte)).
        split; [exact Hn|]. right. split.
        -- exists (sep :: a). cbn [app]. rewrite <- Ha. reflexivity.
        -- exists [], (h :: t). split; [reflexivity | discriminate].
    + apply beqb_neq in Ec.
      destruct IH as [[Hnin Hsp] | [[a Ha] [h [t [Hsp Ht]]]]].
      * rewrite Hsp. cbn [last]. split.
        -- intros [Hc|Hc]; [exact (Ec Hc) | exact (Hnin Hc)].
        -- left. split; [|reflexivity]. intros [Hc|Hc]; [exact (Ec Hc) | exact (Hnin Hc)].
      * rewrite Hsp in Hn, Ha |- *. cbv beta iota.
        destruct t as [|t0 t1]; [contradiction Ht; reflexivity|].
        cbn [last] in Hn, Ha |- *. split; [exact Hn|]. right. split.
        -- exists (c :: a). cbn [app]. rewrite <- Ha. reflexivity.
        -- exists (c :: h), (t0 :: t1). split; [reflexivity | exact Ht].
Qed.

Lemma split1s_inv : forall sep s a rest,
  split1s sep s = (a, Some rest) -> s = a ++ sep ++ rest.
Proof.
  intros sep s. induction s as [|c r IH]; intros a rest H; rewrite split1s_eq in H.
  - destruct (is_prefix sep []) eqn:Ep; [|discriminate H].
    injection H as Ha Hr. subst a rest. destruct sep as [|x sep']; [reflexivity | discriminate Ep].
  - destruct (is_prefix sep (c :: r)) eqn:Ep.
    + injection H as Ha Hr. subst a rest. apply is_prefix_spec in Ep. destruct Ep as [t Ht].
      rewrite Ht, skipn_length_app. reflexivity.
    + destruct (split1s sep r) as [a' b'] eqn:Er. injection H as Ha Hb. subst a b'.
      cbn [app]. rewrite (IH a' rest eq_refl). reflexivity.
Qed.

(* whatever follows a later occurrence of the separator also ends the rest *)
Lemma split1s_suffix : forall sep u v a rest,
  split1s sep (u ++ sep ++ v) = (a, Some rest) -> exists w, rest = w ++ v.
Proof.
  intros sep u. induction u as [|c u IH]; intros v a rest H; rewrite split1s_eq in H.
  - cbn [app] in H. rewrite is_prefix_app, skipn_length_app in H.
    injection H as _ Hr. subst rest. exists []. reflexivity.
  - remember ((c :: u) ++ sep ++ v) as s eqn:Es.
    destruct (is_prefix sep s) eqn:Ep.
    + injection H as _ Hr. subst rest. apply is_prefix_spec in Ep. destruct Ep as [t Ht].
      rewrite Ht, skipn_length_app. rewrite Ht, app_assoc in Es.
      destruct (app_eq_suffix _ sep ((c :: u) ++ sep) t v Es) as [w [Hw _]].
      * rewrite app_length. lia.
      * exists w. exact Hw.
    + rewrite Es in H. cbn [app] in H. destruct (split1s sep (u ++ sep ++ v)) as [a' b'] eqn:Er.
      injection H as _ Hb. subst b'. exact (IH v a' rest Er).
Qed.

(* D2: an accepted HEAD names the text after the LAST '/' of the file (it
   may be empty, and it may hold a newline: see the examples) *)
Theorem parse_head_sound : forall raw n,
  parse_head raw = Some n ->
  re_search re_headRegexp raw = true /\ ~ In c_slash n /\ exists a, raw = a ++ c_slash :: n.
Proof.
  intros raw n H. unfold parse_head in H.
  destruct (re_search re_headRegexp raw) eqn:Hre; [|discriminate H].
  destruct (split1s [x3a; c_sp] raw) as [a0 [rest|]] eqn:Hsp; [|discriminate H].
  injection H as Hn. split; [reflexivity|].
  apply re_search_spec in Hre. destruct Hre as [pre [mid [post [Eraw [Hmid _]]]]].
  unfold re_headRegexp in Hmid. cbn [p_body] in Hmid.
  apply lang_RCat in Hmid. destruct Hmid as [lit [t [Emid [Hlit _]]]].
  apply lang_RLit in Hlit. subst lit mid.
  assert (Eraw' : raw = (pre ++ str "ref"%string) ++ [x3a; c_sp] ++ (str "refs/heads/"%string ++ t ++ post)).
  { rewrite Eraw, <- !app_assoc. reflexivity. }
  pose proof Hsp as Hsuf. rewrite Eraw' in Hsuf. apply split1s_suffix in Hsuf. destruct Hsuf as [w Hw].
  assert (Hin : In c_slash rest).
  { rewrite Hw. apply in_or_app. right. cbn. tauto. }
  destruct (split_all_last c_slash rest) as [Hno [[Hnin _] | [[a Ha] _]]]; [contradiction (Hnin Hin)|].
  rewrite Hn in Hno, Ha. split; [exact Hno|].
  apply split1s_inv in Hsp. exists (a0 ++ [x3a; c_sp] ++ a).
  rewrite Hsp, Ha at 1. rewrite <- !app_assoc. reflexivity.
Qed.

Example parse_head_empty_name :
  parse_head (str "ref: refs/heads/a/"%string) = Some [].
Proof. vm_compute. reflexivity. Qed.
Example parse_head_newline :
  parse_head (str "ref: refs/heads/main"%string ++ [c_nl]) = Some (str "main"%string ++ [c_nl]).
Proof. vm_compute. reflexivity. Qed.
Example parse_head_early_colon :
  parse_head (str "x: ref: refs/heads/main"%string) = Some (str "main"%string).
Proof. vm_compute. reflexivity. Qed.

(* ================================================================== *)
(** * D3. The object header *)

Lemma kind_of_s_sound : forall ty k, kind_of_s ty = Some k -> ty = kind_s k.
Proof.
  intros ty k H. unfold kind_of_s in H.
  destruct (bytes_eqb ty (kind_s KBlob)) eqn:E1;
    [injection H as <-; apply bytes_eqb_eq; exact E1|].
  destruct (bytes_eqb ty (kind_s KTree)) eqn:E2;
    [injection H as <-; apply bytes_eqb_eq; exact E2|].
  destruct (bytes_eqb ty (kind_s KCommit)) eqn:E3;
    [injection H as <-; apply bytes_eqb_eq; exact E3|].
  destruct (bytes_eqb ty (kind_s KTag)) eqn:E4;
    [injection H as <-; apply bytes_eqb_eq; exact E4 | discriminate H].
Qed.

Lemma skip_blanks_spec : forall s,
  exists bl, s = bl ++ skip_blanks s /\ forallb is_blank bl = true.
Proof.
  intro s. induction s as [|c r IH].
  - exists []. split; reflexivity.
  - cbn [skip_blanks]. destruct (is_blank c) eqn:Ec.
    + destruct IH as [bl [Hs Hb]]. exists (c :: bl). split.
      * cbn [app]. rewrite <- Hs. reflexivity.
      * cbn [forallb]. rewrite Ec, Hb. reflexivity.
    + exists []. split; reflexivity.
Qed.

Lemma span_digits_spec : forall s ds tl,
  span_digits s = (ds, tl) ->
  s = ds ++ tl /\ all_digits ds = true /\
  match tl with [] => True | c :: _ => is_digit c = false end.
Proof.
  intro s. induction s as [|c r IH]; intros ds tl H; cbn [span_digits] in H.
  - injection H as <- <-. repeat split.
  - destruct (is_digit c) eqn:Ec.
    + destruct (span_digits r) as [a b] eqn:Er. injection H as <- <-.
      destruct (IH a b eq_refl) as (Hs & Hd & Ht). split; [cbn [app]; rewrite <- Hs; reflexivity|].
      split; [|exact Ht]. unfold all_digits in Hd |- *. cbn [forallb]. rewrite Ec, Hd. reflexivity.
    + injection H as <- <-. split; [reflexivity|]. split; [reflexivity | exact Ec].
Qed.

(* what fmt.Sscanf("%d") accepts, as readHeader uses it: blanks, an optional
   sign, at least one digit, then anything that does not start with a digit *)
Theorem sscanf_d_sound : forall s n,
  sscanf_d s = Some n ->
  exists bl sg ds tl,
    s = bl ++ sg ++ ds ++ tl /\ forallb is_blank bl = true /\
    (sg = [] \/ sg = [x2d] \/ sg = [x2b]) /\
    ds <> [] /\ all_digits ds = true /\
    match tl with [] => True | c :: _ => is_digit c = false end /\
    (n = Z.of_N (digits_val ds) \/ (sg = [x2d] /\ n = - Z.of_N (digits_val ds)))%Z /\
    (- 9223372036854775808 <= n <= 9223372036854775807)%Z.
Proof.
  intros s n H. unfold sscanf_d in H.
  destruct (skip_blanks_spec s) as [bl [Hs Hbl]].
  remember (skip_blanks s) as s1 eqn:Es1. clear Es1.
  assert (Hcases : exists neg sg s2,
     (match s1 with
      | c :: r => if beqb c x2d then (true, r) else if beqb c x2b then (false, r) else (false, s1)
      | [] => (false, s1)
      end) = (neg, s2) /\ s1 = sg ++ s2 /\
     (sg = [] \/ sg = [x2d] \/ sg = [x2b]) /\ (neg = true -> sg = [x2d])).
  { destruct s1 as [|c r].
    - exists false, [], []. repeat split; auto. intro Hf; discriminate Hf.
    - destruct (beqb c x2d) eqn:E1.
      + apply beqb_eq in E1. subst c. exists true, [x2d], r. repeat split; auto.
      + destruct (beqb c x2b) eqn:E2.
        * apply beqb_eq in E2. subst c. exists false, [x2b], r. repeat split; auto.
          intro Hf; discriminate Hf.
        * exists false, [], (c :: r). repeat split; auto. intro Hf; discriminate Hf. }
  destruct Hcases as (neg & sg & s2 & Hm & Hs1 & Hsg & Hneg).
  rewrite Hm in H. destruct (span_digits s2) as [ds tl] eqn:Esp.
  destruct (span_digits_spec s2 ds tl Esp) as (Hs2 & Hds & Htl).
  exists bl, sg, ds, tl. split; [rewrite Hs, Hs1, Hs2; reflexivity|].
  split; [exact Hbl|]. split; [exact Hsg|].
  destruct ds as [|d0 ds']; [discriminate H|]. split; [discriminate|]. split; [exact Hds|].
  split; [exact Htl|]. cbv zeta in H. destruct neg.
  - destruct (Z.leb (Z.of_N (digits_val (d0 :: ds'))) 9223372036854775808) eqn:El; [|discriminate H].
    injection H as <-. apply Z.leb_le in El. split; [right; split; [apply Hneg; reflexivity | reflexivity]|]. lia.
  - destruct (Z.leb (Z.of_N (digits_val (d0 :: ds'))) 9223372036854775807) eqn:El; [|discriminate H].
    injection H as <-. apply Z.leb_le in El. split; [left; reflexivity|]. lia.
Qed.

(* D3.  An accepted object file is "<kind> <size text>\0<data>" where the
   size text has no NUL and scans (Sscanf "%d") to exactly the number of data
   bytes; the data returned is everything after the FIRST NUL.  One corner
   is not of this shape: a file WITHOUT any NUL whose header, minus its last
   byte, announces size 0 is accepted as an empty object. *)
Theorem parse_payload_sound : forall p k d,
  parse_payload p = Some (k, d) ->
  exists sz,
    sscanf_d sz = Some (Z.of_nat (length d)) /\ ~ In c_nul sz /\
    (p = kind_s k ++ c_sp :: sz ++ c_nul :: d \/
     (d = [] /\ ~ In c_nul p /\ exists c, p = kind_s k ++ c_sp :: sz ++ [c])).
Proof.
  intros p k d H. unfold parse_payload in H.
  destruct (split1 c_nul p) as [hdr0 rest] eqn:Esp.
  destruct (split1_inv c_nul p hdr0 rest Esp) as [Hnul Hp].
  destruct rest as [data|].
  - destruct (split1 c_sp hdr0) as [ty [sz|]] eqn:Eh; [|discriminate H].
    apply split1_inv_some in Eh. destruct Eh as [Eh _].
    destruct (kind_of_s ty) as [k'|] eqn:Ek; [|discriminate H].
    destruct (sscanf_d sz) as [n|] eqn:En; [|discriminate H].
    destruct (Z.eqb n (Z.of_nat (length data))) eqn:Eq; [|discriminate H].
    injection H as <- <-. apply Z.eqb_eq in Eq. subst n.
    apply kind_of_s_sound in Ek. subst ty.
    exists sz. split; [exact En|]. split.
    + intro Hin. apply Hnul. rewrite Eh. apply in_or_app. right. right. exact Hin.
    + left. rewrite Hp, Eh, <- app_assoc. reflexivity.
  - subst hdr0.
    destruct (split1 c_sp (removelast p)) as [ty [sz|]] eqn:Eh; [|discriminate H].
    apply split1_inv_some in Eh. destruct Eh as [Eh _].
    destruct (kind_of_s ty) as [k'|] eqn:Ek; [|discriminate H].
    destruct (sscanf_d sz) as [n|] eqn:En; [|discriminate H].
    destruct (Z.eqb n (Z.of_nat (@length byte []))) eqn:Eq; [|discriminate H].
    injection H as <- <-. apply Z.eqb_eq in Eq. subst n.
    apply kind_of_s_sound in Ek. subst ty.
    assert (Hne : p <> []).
    { intro Hp0. subst p. cbn [removelast] in Eh. destruct (kind_s k'); discriminate Eh. }
    exists sz. split; [exact En|]. split.
    + intro Hin. apply Hnul. rewrite (app_removelast_last x00 Hne), Eh.
      apply in_or_app. left. apply in_or_app. right. right. exact Hin.
    + right. split; [reflexivity|]. split; [exact Hnul|].
      exists (last p x00). rewrite (app_removelast_last x00 Hne) at 1. rewrite Eh, <- app_assoc. reflexivity.
Qed.

(* in particular: the announced size is the length of the data, and the data is a suffix of the file *)
Corollary parse_payload_suffix : forall p k d,
  parse_payload p = Some (k, d) -> exists h, p = h ++ d /\ is_prefix (kind_s k ++ [c_sp]) h = true.
Proof.
  intros p k d H. destruct (parse_payload_sound p k d H) as [sz [_ [_ [Hp | [Hd [_ [c Hp]]]]]]].
  - exists (kind_s k ++ c_sp :: sz ++ [c_nul]). split.
    + rewrite Hp, <- !app_assoc. cbn [app]. rewrite <- app_assoc. reflexivity.
    + change (kind_s k ++ c_sp :: sz ++ [c_nul]) with (kind_s k ++ [c_sp] ++ sz ++ [c_nul]).
      rewrite app_assoc. apply is_prefix_app.
  - subst d. exists p. split; [rewrite app_nil_r; reflexivity|]. rewrite Hp.
    change (kind_s k ++ c_sp :: sz ++ [c]) with (kind_s k ++ [c_sp] ++ sz ++ [c]).
    rewrite app_assoc. apply is_prefix_app.
Qed.

(* a file with a NUL, evaluated: everything after the first NUL is the data
   and its length must be the announced one *)
Lemma parse_payload_nul : forall h d,
  ~ In c_nul h ->
  parse_payload (h ++ c_nul :: d) =
  match split1 c_sp h with
  | (ty, Some sz) =>
      match kind_of_s ty, sscanf_d sz with
      | Some k, Some n => if Z.eqb n (Z.of_nat (length d)) then Some (k, d) else None
      | _, _ => None
      end
  | (_, None) => None
  end.
Proof.
  intros h d Hn. unfold parse_payload. rewrite (split1_app_sep c_nul h d Hn). reflexivity.
Qed.

Theorem parse_payload_data_exact : forall h d k d0,
  ~ In c_nul h -> parse_payload (h ++ c_nul :: d) = Some (k, d0) -> d0 = d.
Proof.
  intros h d k d0 Hn H. rewrite (parse_payload_nul h d Hn) in H.
  destruct (split1 c_sp h) as [ty [sz|]]; [|discriminate H].
  destruct (kind_of_s ty); [|discriminate H]. destruct (sscanf_d sz); [|discriminate H].
  destruct (Z.eqb _ _); [|discriminate H]. injection H as _ <-. reflexivity.
Qed.

(* a truncated or extended object file is rejected: with the same header, data of
   any other length does not load *)
Theorem payload_resized_rejected : forall h d d' kd,
  ~ In c_nul h -> parse_payload (h ++ c_nul :: d) = Some kd ->
  length d' <> length d -> parse_payload (h ++ c_nul :: d') = None.
Proof.
  intros h d d' kd Hn H Hlen. rewrite (parse_payload_nul h d Hn) in H. rewrite (parse_payload_nul h d' Hn).
  destruct (split1 c_sp h) as [ty [sz|]]; [|reflexivity].
  destruct (kind_of_s ty); [|reflexivity]. destruct (sscanf_d sz) as [n|]; [|reflexivity].
  destruct (Z.eqb n (Z.of_nat (length d))) eqn:E1; [|discriminate H].
  destruct (Z.eqb n (Z.of_nat (length d'))) eqn:E2; [|reflexivity].
  apply Z.eqb_eq in E1, E2. lia.
Qed.

Corollary payload_truncated_rejected : forall k d n,
  n < length d -> parse_payload (header k (lenN d) ++ firstn n d) = None.
Proof.
  intros k d n Hn. unfold header.
  replace ((kind_s k ++ [c_sp] ++ dec (lenN d) ++ [c_nul]) ++ firstn n d)
    with ((kind_s k ++ c_sp :: dec (lenN d)) ++ c_nul :: firstn n d)
    by (repeat rewrite <- app_assoc; reflexivity).
  destruct (parse_payload ((kind_s k ++ c_sp :: dec (lenN d)) ++ c_nul :: d)) as [kd|] eqn:E.
  - apply (payload_resized_rejected _ d _ kd (header_no_nul k (lenN d)) E).
    rewrite firstn_length. lia.
  - (* the full file is itself too big to load: the header is rejected whatever follows *)
    rewrite (parse_payload_nul _ d (header_no_nul k (lenN d))) in E.
    rewrite (parse_payload_nul _ (firstn n d) (header_no_nul k (lenN d))).
    destruct (split1 c_sp (kind_s k ++ c_sp :: dec (lenN d))) as [ty [sz|]] eqn:Es; [|reflexivity].
    rewrite (split1_app_sep c_sp (kind_s k) (dec (lenN d)) (kind_s_no_sp k)) in Es.
    injection Es as <- <-. rewrite kind_of_s_kind_s in E |- *.
    destruct (sscanf_d (dec (lenN d))) as [m|] eqn:Em; [|reflexivity].
    destruct (N.lt_ge_cases (lenN d) (2 ^ 63)) as [Hlt|Hge].
    + rewrite (sscanf_d_dec _ Hlt) in Em. injection Em as <-.
      unfold lenN in E. rewrite nat_N_Z, Z.eqb_refl in E. discriminate E.
    + rewrite (sscanf_d_dec_big _ Hge) in Em. discriminate Em.
Qed.

Corollary payload_extended_rejected : forall k d x,
  x <> [] -> parse_payload (payload k d ++ x) = None.
Proof.
  intros k d x Hx. unfold payload, header.
  replace (((kind_s k ++ [c_sp] ++ dec (lenN d) ++ [c_nul]) ++ d) ++ x)
    with ((kind_s k ++ c_sp :: dec (lenN d)) ++ c_nul :: (d ++ x))
    by (repeat rewrite <- app_assoc; reflexivity).
  rewrite (parse_payload_nul _ _ (header_no_nul k (lenN d))).
  rewrite (split1_app_sep c_sp (kind_s k) (dec (lenN d)) (kind_s_no_sp k)), kind_of_s_kind_s.
  destruct (sscanf_d (dec (lenN d))) as [m|] eqn:Em; [|reflexivity].
  destruct (N.lt_ge_cases (lenN d) (2 ^ 63)) as [Hlt|Hge].
  - rewrite (sscanf_d_dec _ Hlt) in Em. injection Em as <-.
    destruct (Z.eqb (Z.of_N (lenN d)) (Z.of_nat (length (d ++ x)))) eqn:E; [|reflexivity].
    apply Z.eqb_eq in E. unfold lenN in E. rewrite app_length in E.
    destruct x as [|x0 x1]; [contradiction Hx; reflexivity|]. cbn [length] in E. lia.
  - rewrite (sscanf_d_dec_big _ Hge) in Em. discriminate Em.
Qed.

(* -- GetObject -- *)
(* restating Props/C19 T1 with the id length: *)
Theorem get_obj_sound : forall st id k d,
  get_obj st id = Some (k, d) ->
  length id = 20 /\
  exists p, st_lookup st id = Some p /\ sha1 p = id /\ parse_payload p = Some (k, d).
Proof.
  intros st id k d H. split; [exact (get_obj_id_length st id (k, d) H) | exact (get_obj_integrity st id k d H)].
Qed.

(* a file stored under a name that is not the SHA-1 of its bytes is never returned *)
Theorem get_obj_wrong_name : forall st id p,
  st_lookup st id = Some p -> sha1 p <> id -> get_obj st id = None.
Proof.
  intros st id p Hl Hs. unfold get_obj. rewrite Hl.
  destruct (parse_payload p); [|reflexivity].
  destruct (bytes_eqb (sha1 p) id) eqn:E; [|reflexivity].
  apply bytes_eqb_eq in E. contradiction (Hs E).
Qed.

(* a file that does not decode is never returned, whatever its name *)
Theorem get_obj_undecodable : forall st id p,
  st_lookup st id = Some p -> parse_payload p = None -> get_obj st id = None.
Proof. intros st id p Hl Hp. unfold get_obj. rewrite Hl, Hp. reflexivity. Qed.

(* two different ids never return the same file: a file is returned only under the one name that is its hash *)
Theorem get_obj_names_distinct : forall st id1 id2 kd1 kd2,
  get_obj st id1 = Some kd1 -> get_obj st id2 = Some kd2 ->
  st_lookup st id1 = st_lookup st id2 -> id1 = id2.
Proof.
  intros st id1 id2 [k1 d1] [k2 d2] H1 H2 Heq.
  destruct (get_obj_integrity st id1 k1 d1 H1) as [p1 [L1 [S1 _]]].
  destruct (get_obj_integrity st id2 k2 d2 H2) as [p2 [L2 [S2 _]]].
  rewrite L1, L2 in Heq. injection Heq as <-. rewrite <- S1, <- S2. reflexivity.
Qed.

(* non-vacuity: damaged files *)
Definition ex_payload : bytes := payload KBlob (str "hello"%string).
Example ex_payload_ok : parse_payload ex_payload = Some (KBlob, str "hello"%string).
Proof. vm_compute. reflexivity. Qed.
Example ex_truncated : parse_payload (removelast ex_payload) = None.
Proof. vm_compute. reflexivity. Qed.
Example ex_truncated_header : parse_payload (firstn 5 ex_payload) = None.
Proof. vm_compute. reflexivity. Qed.
Example ex_extended : parse_payload (ex_payload ++ [x21]) = None.
Proof. vm_compute. reflexivity. Qed.
Example ex_bad_kind : parse_payload (str "blub 5"%string ++ [c_nul] ++ str "hello"%string) = None.
Proof. vm_compute. reflexivity. Qed.
Example ex_empty_file : parse_payload [] = None.
Proof. vm_compute. reflexivity. Qed.
(* stored under the right name it loads; under another name, or with one bit flipped, it does not *)
Definition ex_id : bytes := Eval vm_compute in sha1 ex_payload.
Example ex_right_name : get_obj [(ex_id, ex_payload)] ex_id = Some (KBlob, str "hello"%string).
Proof. vm_compute. reflexivity. Qed.
Example ex_wrong_name : get_obj [(repeat x11 20, ex_payload)] (repeat x11 20) = None.
Proof. vm_compute. reflexivity. Qed.
Example ex_bit_flipped :
  get_obj [(ex_id, firstn 7 ex_payload ++ [x49] ++ skipn 8 ex_payload)] ex_id = None.   (* "hello" -> "iello" *)
Proof. vm_compute. reflexivity. Qed.
Example ex_truncated_stored : get_obj [(ex_id, removelast ex_payload)] ex_id = None.
Proof. vm_compute. reflexivity. Qed.

(* FINDINGS.  The header reader is laxer than Git's format: *)
(* (a) no NUL at all: the header loses its last byte and "size 0" is accepted as an empty object *)
Example ex_no_nul_accepted : parse_payload (str "blob 0x"%string) = Some (KBlob, []).
Proof. vm_compute. reflexivity. Qed.
(* (b) blanks, a sign and trailing text are accepted in the size field, so one content has
   many accepted files, each under its own (different) name; none of them is [obj_id] *)
Definition ex_lax : bytes := str "blob  +5 bytes"%string ++ [c_nul] ++ str "hello"%string.
Example ex_lax_accepted : parse_payload ex_lax = Some (KBlob, str "hello"%string).
Proof. vm_compute. reflexivity. Qed.
Example ex_lax_stored :
  get_obj [(sha1 ex_lax, ex_lax)] (sha1 ex_lax) = Some (KBlob, str "hello"%string) /\
  sha1 ex_lax <> obj_id KBlob (str "hello"%string).
Proof. split; [vm_compute; reflexivity | vm_compute; discriminate]. Qed.

(* ================================================================== *)
(** * D4. The commit reader *)

(* every field of an accepted commit was read from a header line of the text *)
Definition commit_from (L : list bytes) (c : commit) : Prop :=
  (c_tree c = [] \/
   exists body, In (str "tree"%string ++ c_sp :: body) L /\ read_hash body = Some (c_tree c)) /\
  Forall (fun p => exists body, In (str "parent"%string ++ c_sp :: body) L /\ read_hash body = Some p)
         (c_parents c) /\
  (forall sg, c_author c = Some sg ->
     exists body, In (str "author"%string ++ c_sp :: body) L /\ read_sign body = Some sg /\
                  re_search re_signRegexp body = true) /\
  (forall sg, c_committer c = Some sg ->
     exists body, In (str "committer"%string ++ c_sp :: body) L /\ read_sign body = Some sg /\
                  re_search re_signRegexp body = true).

Lemma parse_headers_sound : forall L ls c0 c rest,
  incl ls L -> commit_from L c0 -> parse_headers ls c0 = Some (c, rest) -> commit_from L c.
Proof.
  intros L ls. induction ls as [|l r IH]; intros c0 c rest Hincl H0 H; cbn [parse_headers] in H.
  - injection H as <- _. exact H0.
  - assert (Hr : incl r L) by (intros x Hx; apply Hincl; right; exact Hx).
    assert (Hl : In l L) by (apply Hincl; left; reflexivity).
    destruct (split1 c_sp l) as [ty [body|]] eqn:Esp.
    2:{ injection H as <- _. exact H0. }
    apply split1_inv_some in Esp. destruct Esp as [El _].
    destruct H0 as (Ht & Hp & Ha & Hc).
    destruct (bytes_eqb ty (str "tree"%string)) eqn:E1.
    { apply bytes_eqb_eq in E1. subst ty.
      destruct (read_hash body) as [h|] eqn:Eh; [|discriminate H].
      apply (IH _ _ _ Hr) in H; [exact H|]. unfold commit_from. cbn [c_tree c_parents c_author c_committer].
      split; [right; exists body; split; [rewrite <- El; exact Hl | exact Eh]|].
      split; [exact Hp|]. split; [exact Ha | exact Hc]. }
    destruct (bytes_eqb ty (str "parent"%string)) eqn:E2.
    { apply bytes_eqb_eq in E2. subst ty.
      destruct (read_hash body) as [h|] eqn:Eh; [|discriminate H].
      apply (IH _ _ _ Hr) in H; [exact H|]. unfold commit_from. cbn [c_tree c_parents c_author c_committer].
      split; [exact Ht|]. split; [|split; [exact Ha | exact Hc]].
      apply Forall_app. split; [exact Hp|]. constructor; [|constructor].
      exists body. split; [rewrite <- El; exact Hl | exact Eh]. }
    destruct (bytes_eqb ty (str "author"%string)) eqn:E3.
    { apply bytes_eqb_eq in E3. subst ty.
      destruct (read_sign body) as [s|] eqn:Es; [|discriminate H].
      apply (IH _ _ _ Hr) in H; [exact H|]. unfold commit_from. cbn [c_tree c_parents c_author c_committer].
      split; [exact Ht|]. split; [exact Hp|]. split; [|exact Hc].
      intros sg Hsg. injection Hsg as <-. exists body.
      split; [rewrite <- El; exact Hl|]. split; [exact Es | exact (read_sign_gate body s Es)]. }
    destruct (bytes_eqb ty (str "committer"%string)) eqn:E4.
    { apply bytes_eqb_eq in E4. subst ty.
      destruct (read_sign body) as [s|] eqn:Es; [|discriminate H].
      apply (IH _ _ _ Hr) in H; [exact H|]. unfold commit_from. cbn [c_tree c_parents c_author c_committer].
      split; [exact Ht|]. split; [exact Hp|]. split; [exact Ha|].
      intros sg Hsg. injection Hsg as <-. exists body.
      split; [rewrite <- El; exact Hl|]. split; [exact Es | exact (read_sign_gate body s Es)]. }
    apply (IH _ _ _ Hr) in H; [exact H|]. split; [exact Ht|]. split; [exact Hp|]. split; [exact Ha | exact Hc].
Qed.

(* D4 (corrected): see [commit_from]; the ids are decodings of whole header
   bodies, so they have at least 20 bytes, and the tree id is EMPTY when the
   text has no "tree" line (such a text is still accepted as a commit) *)
Theorem parse_commit_sound : forall data c,
  parse_commit data = Some c -> commit_from (lf_lines data) c.
Proof.
  intros data c H. unfold parse_commit in H.
  destruct (parse_headers (lf_lines data) (mkCommit [] [] None None [])) as [[c1 ml]|] eqn:Eh; [|discriminate H].
  injection H as <-.
  apply (parse_headers_sound (lf_lines data)) in Eh.
  - exact Eh.
  - apply incl_refl.
  - unfold commit_from. cbn [c_tree c_parents c_author c_committer].
    split; [left; reflexivity|]. split; [constructor|]. split; intros sg Hsg; discriminate Hsg.
Qed.

Corollary parse_commit_ids : forall data c,
  parse_commit data = Some c ->
  (c_tree c = [] \/ 20 <= length (c_tree c)) /\ Forall (fun p => 20 <= length p) (c_parents c).
Proof.
  intros data c H. destruct (parse_commit_sound data c H) as (Ht & Hp & _). split.
  - destruct Ht as [Ht | [body [_ Hb]]]; [left; exact Ht | right].
    destruct (read_hash_sound _ _ Hb) as (_ & _ & _ & _ & Hlen). exact Hlen.
  - apply (Forall_impl _ (P := fun p => exists body, In (str "parent"%string ++ c_sp :: body) (lf_lines data)
                                               /\ read_hash body = Some p)); [|exact Hp].
    intros p [body [_ Hb]]. destruct (read_hash_sound _ _ Hb) as (_ & _ & _ & _ & Hlen). exact Hlen.
Qed.

(* a commit that is going to be USED has a 20-byte tree and 20-byte parents: every
   use goes through [get_kind]/[get_commit], which answer only for 20-byte ids *)
Corollary used_tree_20 : forall st c d, get_kind st KTree (c_tree c) = Some d -> length (c_tree c) = 20.
Proof.
  intros st c d H. unfold get_kind in H. destruct (get_obj st (c_tree c)) as [kd|] eqn:E; [|discriminate H].
  exact (get_obj_id_length st _ kd E).
Qed.

(* the time stamp and the zone offset of an accepted signature are bounded *)
Lemma scan2_bound : forall s v r, scan2 s = Some (v, r) -> (v <= 99)%N.
Proof.
  intros s v r H. unfold scan2 in H.
  assert (Hd : forall c, is_digit c = true -> (digit_val c <= 9)%N).
  { intros c Hc. apply is_digit_iff in Hc. unfold digit_val. lia. }
  destruct s as [|a [|b t]].
  - discriminate H.
  - destruct (is_digit a) eqn:Ea; [|discriminate H]. injection H as <- _. pose proof (Hd a Ea). lia.
  - destruct (is_digit a) eqn:Ea; [|discriminate H]. pose proof (Hd a Ea) as Ha.
    destruct (is_digit b) eqn:Eb; injection H as <- _; [pose proof (Hd b Eb)|]; lia.
Qed.

Theorem read_sign_sound : forall s sg,
  read_sign s = Some sg ->
  re_search re_signRegexp s = true /\
  (0 <= s_time sg <= 9223372036854775807)%Z /\ (- 362340 <= s_off sg <= 362340)%Z.
Proof.
  intros s sg H. split; [exact (read_sign_gate s sg H)|]. unfold read_sign in H.
  destruct (re_search re_signRegexp s); [|discriminate H].
  destruct (split1s [c_sp; x3c] s) as [name [r1|]]; [|discriminate H].
  destruct (split1s [x3e; c_sp] r1) as [email [r2|]]; [|discriminate H].
  destruct (split1 c_sp r2) as [ts [tz|]]; [|discriminate H].
  destruct (parse_dec ts) as [t|]; [|discriminate H].
  destruct tz as [|sgn digits]; [discriminate H|].
  destruct (scan2 digits) as [[hh r3]|] eqn:E1; [|discriminate H].
  destruct (scan2 r3) as [[mm r4]|] eqn:E2; [|discriminate H].
  apply scan2_bound in E1, E2.
  set (m := (3600 * hh + 60 * mm)%N) in H.
  assert (Hm : (m <= 362340)%N) by (subst m; lia). clearbody m.
  destruct (Z.leb (Z.of_N t) 9223372036854775807) eqn:El; [|discriminate H].
  injection H as <-. cbn [s_time s_off]. apply Z.leb_le in El.
  split; [lia|]. destruct (beqb sgn x2d); lia.
Qed.

Example commit_without_tree : parse_commit [] = Some (mkCommit [] [] None None []).
Proof. vm_compute. reflexivity. Qed.
Example commit_long_tree :
  option_map c_tree (parse_commit (str "tree "%string ++ repeat x30 40 ++ [x41; x42; c_nl]))
  = Some (repeat x00 20 ++ [xab]).
Proof. vm_compute. reflexivity. Qed.
Example commit_bad_tree : parse_commit (str "tree 1234"%string ++ [c_nl]) = None.
Proof. vm_compute. reflexivity. Qed.
Example commit_bad_author : parse_commit (str "author nobody"%string ++ [c_nl]) = None.
Proof. vm_compute. reflexivity. Qed.

(* ================================================================== *)
(** * D5. The tree reader *)

Definition item_ok (it : bytes * bytes * bytes) : Prop :=
  let '(mode, name, id) := it in
  length id = 20 /\ ~ In c_nul name /\ ~ In c_nul mode /\ ~ In c_sp mode.
Definition item_bytes (it : bytes * bytes * bytes) : bytes :=
  let '(mode, name, id) := it in tree_line mode name id.

(* one level: the data is exactly the accepted items, one after the other,
   possibly followed by a NUL and ANYTHING (an "empty line" ends the list) *)
Theorem parse_tree_items_sound : forall fuel data items,
  parse_tree_items fuel data = Some items ->
  Forall item_ok items /\
  exists tail, data = flat_map item_bytes items ++ tail /\ (tail = [] \/ exists t, tail = c_nul :: t).
Proof.
  intro fuel. induction fuel as [|f IH]; intros data items H; [discriminate H|].
  cbn [parse_tree_items] in H. destruct (split1 c_nul data) as [line rest] eqn:Esp.
  destruct (split1_inv c_nul data line rest Esp) as [Hnul Hdata].
  destruct line as [|l0 l1].
  - injection H as <-. split; [constructor|]. exists data. split; [reflexivity|].
    destruct rest as [r|]; [right; exists r; exact Hdata | left; exact Hdata].
  - remember (l0 :: l1) as line eqn:Eline.
    destruct (split1 c_sp line) as [mode [name|]] eqn:Esp2; [|discriminate H].
    apply split1_inv_some in Esp2. destruct Esp2 as [Hline Hsp].
    remember (match rest with Some r => r | None => [] end) as r eqn:Er.
    destruct (Nat.eqb (length (firstn 20 r)) 20) eqn:Elen; [|discriminate H].
    apply Nat.eqb_eq in Elen.
    destruct (parse_tree_items f (skipn 20 r)) as [l|] eqn:Erec; [|discriminate H].
    injection H as <-. destruct (IH _ _ Erec) as [Hall [tail [Htail Hcase]]].
    assert (Hrest : rest = Some r).
    { destruct rest as [r'|]; [subst r; reflexivity|]. subst r. cbn in Elen. discriminate Elen. }
    subst rest. split.
    + constructor; [|exact Hall]. unfold item_ok. split; [exact Elen|].
      split; [intro Hin; apply Hnul; rewrite Hline; apply in_or_app; right; right; exact Hin|].
      split; [intro Hin; apply Hnul; rewrite Hline; apply in_or_app; left; exact Hin|].
      exact Hsp.
    + exists tail. split; [|exact Hcase]. cbn [flat_map item_bytes]. unfold tree_line.
      rewrite Hdata, Hline. rewrite <- (firstn_skipn 20 r) at 1. rewrite Htail.
      repeat rewrite <- app_assoc. reflexivity.
Qed.

(* -- the recursive walk -- *)
Fixpoint node_ok (n : node) : Prop :=
  let 'Node i m ch := n in
  length i = 20 /\ ~ In c_nul m /\
  (fix all (l : list node) : Prop := match l with [] => True | c :: r => node_ok c /\ all r end) ch.

Lemma node_ok_eq : forall i m ch,
  node_ok (Node i m ch) <-> length i = 20 /\ ~ In c_nul m /\ Forall node_ok ch.
Proof.
  intros i m ch. cbn [node_ok].
  assert (Hall : (fix all (l : list node) : Prop :=
                    match l with [] => True | c :: r => node_ok c /\ all r end) ch <-> Forall node_ok ch).
  { induction ch as [|c r IH].
    - split; [intros _; constructor | intros _; exact I].
    - split.
      + intros [Hc Hr]. constructor; [exact Hc | apply IH; exact Hr].
      + intro Hf. apply Forall_cons_iff in Hf. destruct Hf as [Hc Hr]. split; [exact Hc | apply IH; exact Hr]. }
  rewrite Hall. reflexivity.
Qed.

Fixpoint node_depth (n : node) : nat :=
  let 'Node _ _ ch := n in
  S ((fix mx (l : list node) : nat := match l with [] => 0 | c :: r => Nat.max (node_depth c) (mx r) end) ch).
Definition forest_depth (ns : list node) : nat := fold_right (fun n m => Nat.max (node_depth n) m) 0 ns.

Lemma node_depth_eq : forall i m ch, node_depth (Node i m ch) = S (forest_depth ch).
Proof. intros i m ch. reflexivity. Qed.

(* one level of the walk, exactly: node k is item k; an item whose mode is
   the directory mode must name a stored tree object, which is walked with
   one unit of fuel less; any other mode gives a leaf *)
Definition level_rel (f : nat) (st : store) (it : bytes * bytes * bytes) (n : node) : Prop :=
  let '(mode, name, id) := it in
  n_id n = id /\ n_name n = name /\
  if bytes_eqb mode mode_dir
  then exists d, get_kind st KTree id = Some d /\ walk_tree f st d = Some (n_children n)
  else n_children n = [].

Lemma wk_go_level : forall f st items ns,
  wk_go (walk_tree f st) st items = Some ns -> Forall2 (level_rel f st) items ns.
Proof.
  intros f st items. induction items as [|[[mode name] id] r IH]; intros ns H; cbn [wk_go] in H.
  - injection H as <-. constructor.
  - cbv zeta in H. destruct (bytes_eqb mode mode_dir) eqn:Em.
    + destruct (get_kind st KTree id) as [d|] eqn:Ek; [|discriminate H].
      destruct (walk_tree f st d) as [ch|] eqn:Ew; [|discriminate H].
      destruct (wk_go (walk_tree f st) st r) as [ns'|] eqn:Er; [|discriminate H].
      injection H as <-. constructor; [|apply IH; reflexivity].
      unfold level_rel. rewrite Em. cbn [n_id n_name n_children].
      split; [reflexivity|]. split; [reflexivity|]. exists d. split; [exact Ek | exact Ew].
    + destruct (wk_go (walk_tree f st) st r) as [ns'|] eqn:Er; [|discriminate H].
      injection H as <-. constructor; [|apply IH; reflexivity].
      unfold level_rel. rewrite Em. cbn [n_id n_name n_children]. repeat split.
Qed.

Theorem walk_tree_level : forall f st data ns,
  walk_tree (S f) st data = Some ns ->
  exists items, parse_tree_items (S (length data)) data = Some items /\
                Forall item_ok items /\ Forall2 (level_rel f st) items ns.
Proof.
  intros f st data ns H. rewrite walk_tree_S in H.
  destruct (parse_tree_items (S (length data)) data) as [items|] eqn:Ei; [|discriminate H].
  exists items. split; [reflexivity|]. split.
  - exact (proj1 (parse_tree_items_sound _ _ _ Ei)).
  - apply wk_go_level. exact H.
Qed.

(* D5: every node of an accepted tree (at any depth) has a 20-byte id and a
   NUL-free name, and the tree is no deeper than the fuel given: the walk is
   structurally recursive on the fuel, so it terminates on any store, also
   one whose trees refer to each other in a cycle (it then answers None) *)
Theorem walk_tree_sound : forall fuel st data ns,
  walk_tree fuel st data = Some ns -> Forall node_ok ns /\ forest_depth ns <= fuel.
Proof.
  intro fuel. induction fuel as [|f IHf]; intros st data ns H; [discriminate H|].
  destruct (walk_tree_level f st data ns H) as [items [_ [Hok Hrel]]].
  clear H. induction Hrel as [|[[mode name] id] [i m ch] items' ns' Hone Hrest IH].
  - split; [constructor | cbn; lia].
  - apply Forall_cons_iff in Hok. destruct Hok as [Hit Hok'].
    destruct (IH Hok') as [Hns Hdep].
    unfold level_rel in Hone. cbn [n_id n_name n_children] in Hone.
    destruct Hone as [-> [-> Hch]]. destruct Hit as (Hlen & Hname & _).
    assert (Hsub : Forall node_ok ch /\ forest_depth ch <= f).
    { destruct (bytes_eqb mode mode_dir).
      - destruct Hch as [d [_ Hw]]. exact (IHf st d ch Hw).
      - subst ch. split; [constructor | cbn; lia]. }
    destruct Hsub as [Hchok Hchd]. split.
    + constructor; [|exact Hns]. apply node_ok_eq. repeat split; assumption.
    + unfold forest_depth. cbn [fold_right]. fold (forest_depth ns'). rewrite node_depth_eq. lia.
Qed.

(* "a node is a tree exactly when its mode was the directory mode" holds in one direction only *)
Theorem walk_tree_nonleaf_is_dir : forall f st it n,
  level_rel f st it n -> is_leaf n = false -> fst (fst it) = mode_dir.
Proof.
  intros f st [[mode name] id] n H Hleaf. unfold level_rel in H. destruct H as (_ & _ & H).
  cbn [fst]. destruct (bytes_eqb mode mode_dir) eqn:Em; [apply bytes_eqb_eq; exact Em|].
  unfold is_leaf in Hleaf. rewrite H in Hleaf. discriminate Hleaf.
Qed.

(* ... the converse fails: a directory entry that names the EMPTY tree object
   is read back as a leaf, and cat-file -p lists it as a blob *)
Definition ex_empty_tree_id : bytes := Eval vm_compute in obj_id KTree [].
Definition ex_dir_data : bytes := tree_line mode_dir [x64] ex_empty_tree_id.
Example empty_subtree_is_leaf :
  walk_tree 2 [(ex_empty_tree_id, payload KTree [])] ex_dir_data = Some [Node ex_empty_tree_id [x64] []] /\
  option_map tree_listing (walk_tree 2 [(ex_empty_tree_id, payload KTree [])] ex_dir_data)
    = Some [(false, ex_empty_tree_id, [x64])].
Proof. split; vm_compute; reflexivity. Qed.

(* damaged tree data: a cut id, a missing sub-tree, a tree that contains itself *)
Example tree_cut_id : walk_tree 5 [] (removelast ex_dir_data) = None.
Proof. vm_compute. reflexivity. Qed.
Example tree_missing_subtree : walk_tree 5 [] ex_dir_data = None.
Proof. vm_compute. reflexivity. Qed.
Example tree_no_space : parse_tree_items 50 (str "100644"%string ++ [c_nul] ++ repeat x01 20) = None.
Proof. vm_compute. reflexivity. Qed.
(* what follows a NUL that starts an item is ignored *)
Example tree_trailing_ignored :
  parse_tree_items 50 (tree_line mode_file [x61] (repeat x01 20) ++ [c_nul] ++ str "anything"%string)
  = Some [(mode_file, [x61], repeat x01 20)].
Proof. vm_compute. reflexivity. Qed.

(* ================================================================== *)
(** * D6. The journal reader *)

Lemma rtype_of_s_sound : forall s t, rtype_of_s s = Some t -> s = rtype_s t.
Proof.
  intros s t H. unfold rtype_of_s in H.
  destruct (bytes_eqb s (str "commit"%string)) eqn:E1; [injection H as <-; apply bytes_eqb_eq; exact E1|].
  destruct (bytes_eqb s (str "checkout"%string)) eqn:E2; [injection H as <-; apply bytes_eqb_eq; exact E2|].
  destruct (bytes_eqb s (str "branch"%string)) eqn:E3; [injection H as <-; apply bytes_eqb_eq; exact E3|].
  destruct (bytes_eqb s (str "reset"%string)) eqn:E4; [injection H as <-; apply bytes_eqb_eq; exact E4|].
  discriminate H.
Qed.

(* the id of a record: the zero marker, or the decoding of the second field *)
Definition rec_id_ok (to : bytes) (o : option bytes) : Prop :=
  match o with
  | None => to = zero_hex
  | Some h => to <> zero_hex /\ read_hash to = Some h
  end.

Theorem parse_log_line_sound : forall l r,
  parse_log_line l = Some (Some r) ->
  exists from to pre,
    l = from ++ c_sp :: to ++ c_sp :: pre ++ c_tab :: rtype_s (r_type r) ++ [x3a; c_sp] ++ r_msg r /\
    ~ In c_sp from /\ ~ In c_sp to /\ ~ In c_tab pre /\ rec_id_ok to (r_id r).
Proof.
  intros l r H. unfold parse_log_line in H.
  destruct (split1 c_sp l) as [from [r1|]] eqn:E1; [|discriminate H].
  apply split1_inv_some in E1. destruct E1 as [El Hfrom].
  destruct (split1 c_sp r1) as [to [rest|]] eqn:E2; [|discriminate H].
  apply split1_inv_some in E2. destruct E2 as [Er1 Hto].
  remember (if bytes_eqb to zero_hex then Some None
            else match read_hash to with Some h => Some (Some h) | None => None end) as hid eqn:Ehid.
  destruct hid as [id|]; [|discriminate H].
  destruct (split1 c_tab rest) as [pre [tail|]] eqn:E3; [|discriminate H].
  apply split1_inv_some in E3. destruct E3 as [Erest Hpre].
  destruct (split1s [x3a; c_sp] tail) as [ty [msg|]] eqn:E4; [|discriminate H].
  apply split1s_inv in E4.
  destruct (rtype_of_s ty) as [t|] eqn:E5; [|discriminate H].
  apply rtype_of_s_sound in E5. injection H as <-. cbn [r_id r_type r_msg].
  exists from, to, pre. split; [rewrite El, Er1, Erest, E4, E5; reflexivity|].
  split; [exact Hfrom|]. split; [exact Hto|]. split; [exact Hpre|].
  unfold rec_id_ok. destruct (bytes_eqb to zero_hex) eqn:Ez.
  - injection Ehid as ->. apply bytes_eqb_eq. exact Ez.
  - apply bytes_eqb_neq in Ez. destruct (read_hash to) as [h|]; [|discriminate Ehid].
    injection Ehid as ->. split; [exact Ez | reflexivity].
Qed.

Lemma rec_id_ok_length : forall to o,
  rec_id_ok to o -> match o with None => True | Some h => 20 <= length h /\ h <> zero_id end.
Proof.
  intros to [h|] H; [|exact I]. destruct H as [Hz Hr].
  destruct (read_hash_sound to h Hr) as (_ & _ & Hlen & _ & H20). split; [exact H20|].
  intro Hh. subst h. apply Hz.
  assert (L : length to = 40) by (rewrite Hlen; reflexivity).
  destruct (read_hash_40 to zero_id Hr L) as [_ Hto]. rewrite Hto, zero_hex_hex. reflexivity.
Qed.

Theorem parse_log_lines_sound : forall ls rs,
  parse_log_lines ls = Some rs ->
  Forall (fun r => exists l, In l ls /\ parse_log_line l = Some (Some r)) rs /\ length rs <= length ls.
Proof.
  intro ls. induction ls as [|l t IH]; intros rs H; cbn [parse_log_lines] in H.
  - injection H as <-. split; [constructor | reflexivity].
  - destruct (parse_log_line l) as [[x|]|] eqn:El; [| |discriminate H].
    + destruct (parse_log_lines t) as [xs|]; [|discriminate H]. injection H as <-.
      destruct (IH xs eq_refl) as [Hall Hlen]. split; [|cbn [length]; lia].
      constructor; [exists l; split; [left; reflexivity | exact El]|].
      apply (Forall_impl _ (P := fun r => exists l0, In l0 t /\ parse_log_line l0 = Some (Some r))); [|exact Hall].
      intros r [l0 [Hin Hp]]. exists l0. split; [right; exact Hin | exact Hp].
    + destruct (parse_log_lines t) as [xs|]; [|discriminate H]. injection H as <-.
      destruct (IH xs eq_refl) as [Hall Hlen]. split; [|cbn [length]; lia].
      apply (Forall_impl _ (P := fun r => exists l0, In l0 t /\ parse_log_line l0 = Some (Some r))); [|exact Hall].
      intros r [l0 [Hin Hp]]. exists l0. split; [right; exact Hin | exact Hp].
Qed.

(* D6 (corrected: "at least 20 bytes", for the same reason as D1) *)
Theorem parse_reflog_sound : forall b rs,
  parse_reflog b = Some rs ->
  Forall (fun r => match r_id r with None => True | Some h => 20 <= length h /\ h <> zero_id end) rs /\
  Forall (fun r => exists l, In l (scan_lines b) /\ parse_log_line l = Some (Some r)) rs /\
  length rs <= length (scan_lines b).
Proof.
  intros b rs H. unfold parse_reflog in H. destruct (parse_log_lines_sound _ _ H) as [Hall Hlen].
  split; [|split; [exact Hall | exact Hlen]].
  apply (Forall_impl _ (P := fun r => exists l, In l (scan_lines b) /\ parse_log_line l = Some (Some r))); [|exact Hall].
  intros r [l [_ Hp]]. destruct (parse_log_line_sound l r Hp) as (from & to & pre & _ & _ & _ & _ & Hid).
  exact (rec_id_ok_length to (r_id r) Hid).
Qed.

(* Reflog.GetRecord never reaches outside the list *)
Theorem get_record_beyond : forall rs n, length rs <= n -> get_record rs n = None.
Proof. intros rs n H. unfold get_record. apply Nat.leb_le in H. rewrite H. reflexivity. Qed.

Theorem get_record_in : forall rs n r, get_record rs n = Some r -> n < length rs /\ In r rs.
Proof.
  intros rs n r H. unfold get_record in H. destruct (Nat.leb (length rs) n) eqn:E; [discriminate H|].
  apply Nat.leb_gt in E. split; [exact E | exact (nth_error_In _ _ H)].
Qed.

(* the position `reset` asks for is clamped first, so any number is safe *)
Corollary get_record_clamped : forall rs (n : N),
  (N.of_nat (length rs) <= n)%N -> get_record rs (N.to_nat (N.min n (N.of_nat (length rs)))) = None.
Proof. intros rs n H. apply get_record_beyond. rewrite N.min_r by exact H. rewrite Nat2N.id. reflexivity. Qed.

Example reflog_bad_id :
  parse_reflog (repeat x30 40 ++ [c_sp] ++ str "xyz"%string ++ [c_sp] ++ str "a <a@b.cd> 1 +0000"%string
                ++ [c_tab] ++ str "commit: m"%string ++ [c_nl]) = None.
Proof. vm_compute. reflexivity. Qed.
Example reflog_garbage_lines_skipped :
  parse_reflog (str "garbage"%string ++ [c_nl] ++ str "more garbage here"%string ++ [c_nl]) = None /\
  parse_reflog (str "garbage"%string ++ [c_nl]) = Some [].
Proof. split; vm_compute; reflexivity. Qed.

(* ================================================================== *)
(** * D7. The config reader *)

(* whatever the loader accepts is well formed ([wf_cfg], ConfigFacts): section
   names distinct, NON-EMPTY and newline-free; keys of a section distinct;
   keys and values without newline or TAB and without leading or trailing
   white space; keys without '='.  (Section names may hold '=', ']', TAB;
   keys may be empty; values may hold '='.) *)
Theorem cfg_load_sound : forall b c, cfg_load b = Some c -> wf_cfg c.
Proof. exact cfg_load_wf. Qed.

Corollary cfg_load_no_empty_section : forall b c s m,
  cfg_load b = Some c -> In (s, m) c -> s <> [] /\ ~ In c_nl s.
Proof.
  intros b c s m H Hin. destruct (cfg_load_wf b c H) as [_ Hall].
  rewrite Forall_forall in Hall. destruct (Hall (s, m) Hin) as [Hs _]. exact Hs.
Qed.

Corollary cfg_load_keys : forall b c s m k v,
  cfg_load b = Some c -> In (s, m) c -> In (k, v) m ->
  ~ In c_nl k /\ ~ In c_tab k /\ ~ In x3d k /\ trim_space k = k /\
  ~ In c_nl v /\ ~ In c_tab v /\ trim_space v = v.
Proof.
  intros b c s m k v H Hin Hkv. destruct (cfg_load_wf b c H) as [_ Hall].
  rewrite Forall_forall in Hall. destruct (Hall (s, m) Hin) as (_ & _ & Hm). cbn [snd] in Hm.
  rewrite Forall_forall in Hm. destruct (Hm (k, v) Hkv) as [[(K1 & K2 & K3) K4] (V1 & V2 & V3)].
  cbn [fst snd] in *. repeat split; assumption.
Qed.

(* and it is a fixed point of the codec: rendering it and loading again gives it back *)
Corollary cfg_load_stable : forall b c, cfg_load b = Some c -> cfg_load (cfg_render c) = Some c.
Proof. intros b c H. apply cfg_roundtrip_exact. exact (cfg_load_wf b c H). Qed.

Example cfg_empty_section_rejected : cfg_load (str "[]"%string ++ [c_nl]) = None.
Proof. vm_compute. reflexivity. Qed.
Example cfg_key_before_section_rejected : cfg_load (str "k = v"%string ++ [c_nl]) = None.
Proof. vm_compute. reflexivity. Qed.
Example cfg_line_without_eq_rejected : cfg_load (str "[a]"%string ++ [c_nl] ++ str "junk"%string ++ [c_nl]) = None.
Proof. vm_compute. reflexivity. Qed.
Example cfg_empty_key_accepted :
  cfg_load (str "[a]"%string ++ [c_nl] ++ str "= v"%string ++ [c_nl]) = Some [(str "a"%string, [([], str "v"%string)])].
Proof. vm_compute. reflexivity. Qed.

(* ================================================================== *)
(** * D8. The read-only commands are read-only, on ANY world *)

(* a procedure that only reads: whatever it answers, the state it returns is
   the state it was given - same world, same trace, same pending fault (so
   it did not even ATTEMPT an effect: [emit] always changes the state) *)
Definition reads_only {A} (m : M A) : Prop := forall s, snd (m s) = s.

Lemma ro_ret : forall A (a : A), reads_only (ret a).
Proof. intros A a s. reflexivity. Qed.
Lemma ro_fail : forall A, reads_only (@fail A).
Proof. intros A s. reflexivity. Qed.
Lemma ro_getw : reads_only getw.
Proof. intros s. reflexivity. Qed.
Lemma ro_bind : forall A B (m : M A) (f : A -> M B),
  reads_only m -> (forall a, reads_only (f a)) -> reads_only (bind m f).
Proof.
  intros A B m f Hm Hf s. unfold bind. pose proof (Hm s) as Hs.
  destruct (m s) as [[a| |] s1]; cbn [snd] in Hs; subst s1; [apply Hf | reflexivity | reflexivity].
Qed.
Lemma ro_of_opt : forall A (o : option A), reads_only (of_opt o).
Proof. intros A o. destruct o; [apply ro_ret | apply ro_fail]. Qed.
Lemma ro_guard : forall b, reads_only (guard b).
Proof. intros b. destruct b; [apply ro_ret | apply ro_fail]. Qed.
Lemma ro_load_ctx : reads_only load_ctx.
Proof. exact load_ctx_pure. Qed.

(* [emit] is not [reads_only]: no rule, so the tactic fails on a procedure that writes *)
Lemma emit_writes : forall e s, snd (emit e s) <> s.
Proof.
  intros e [w t [[|k]|]]; unfold emit; cbn [ms_fault ms_w ms_trace snd]; intro H.
  - discriminate H.
  - injection H as _ _ Hk. induction k as [|k IH]; [discriminate Hk | injection Hk as Hk; exact (IH Hk)].
  - injection H as _ Ht. apply (f_equal (@length effect)) in Ht. rewrite app_length in Ht. cbn [length] in Ht. lia.
Qed.

Ltac rostep :=
  first
  [ assumption
  | lazymatch goal with
    | |- reads_only (bind _ _) => apply ro_bind; [ | intro ]
    | |- reads_only (ret _) => apply ro_ret
    | |- reads_only fail => apply ro_fail
    | |- reads_only getw => apply ro_getw
    | |- reads_only load_ctx => apply ro_load_ctx
    | |- reads_only (of_opt _) => apply ro_of_opt
    | |- reads_only (guard _) => apply ro_guard
    | |- reads_only (let _ := _ in _) => cbv zeta
    | |- reads_only (match ?x with _ => _ end) => destruct x; cbv beta iota
    | |- reads_only ((fix f (l : list _) {struct l} : M _ := _) ?args) =>
        induction args; cbv beta iota
    end ].
Ltac ro_tac := repeat rostep.

Lemma head_tree_nodes_ro : forall c, reads_only (head_tree_nodes c).
Proof. intros c. unfold head_tree_nodes. ro_tac. Qed.
Lemma cmd_status_ro : forall c, reads_only (cmd_status c).
Proof. intros c. unfold cmd_status. apply ro_bind; [apply ro_getw | intro w].
  apply ro_bind; [apply head_tree_nodes_ro | intro ns]. cbv zeta. apply ro_ret. Qed.
Lemma cmd_log_ro : forall c n, reads_only (cmd_log c n).
Proof. intros c n. unfold cmd_log. ro_tac. Qed.
Lemma cmd_reflog_ro : reads_only cmd_reflog.
Proof. unfold cmd_reflog. ro_tac. Qed.
Lemma cmd_cat_file_ro : forall t p args, reads_only (cmd_cat_file t p args).
Proof. intros t p args. unfold cmd_cat_file. ro_tac. Qed.
Lemma cmd_hash_object_ro : forall args, reads_only (cmd_hash_object args).
Proof. intros args. unfold cmd_hash_object. ro_tac. Qed.
Lemma cmd_ls_files_ro : forall s, reads_only (cmd_ls_files s).
Proof. intros s. unfold cmd_ls_files. ro_tac. Qed.
Lemma cmd_rev_parse_ro : forall args, reads_only (cmd_rev_parse args).
Proof. intros args. unfold cmd_rev_parse. ro_tac. Qed.

(* branch with the list flag: either the parameter check refuses it, or it only lists *)
Lemma cmd_branch_list_ro : forall e c args rn dl, reads_only (cmd_branch e c args true rn dl).
Proof.
  intros e c args rn dl. unfold cmd_branch. cbv zeta.
  destruct args as [|a r]; destruct rn as [|x rn']; destruct dl as [|y dl'];
    cbn [is_nil negb andb orb length Nat.eqb]; rewrite ?andb_false_r; cbn [orb];
    intro s; reflexivity.
Qed.

Definition read_only (c : cmd) : bool :=
  match c with
  | CStatus | CLog _ | CReflog | CLsFiles _ | CCatFile _ _ _ | CRevParse _ | CHashObject _ => true
  | CBranch _ true _ _ => true
  | _ => false
  end.

Lemma dispatch_ro : forall e c x, read_only c = true -> reads_only (dispatch e c x).
Proof.
  intros e c x H. destruct c; try discriminate H; cbn [dispatch].
  - apply cmd_status_ro.
  - destruct list_flag; [apply cmd_branch_list_ro | discriminate H].
  - apply cmd_log_ro.
  - apply cmd_reflog_ro.
  - apply cmd_cat_file_ro.
  - apply cmd_hash_object_ro.
  - apply cmd_ls_files_ro.
  - apply cmd_rev_parse_ro.
Qed.

(* from ANY state: any world, any trace so far, any pending write failure *)
Theorem run_cmd_read_only : forall e c, read_only c = true -> reads_only (run_cmd e c).
Proof.
  intros e c H s. rewrite run_cmd_eq.
  destruct (w_inited (ms_w s)); [|destruct c; try reflexivity; discriminate H].
  destruct (ctx_of (ms_w s)) as [x|]; [|destruct c; try reflexivity; discriminate H].
  pose proof (dispatch_ro e c x H s) as Hd.
  destruct c; try discriminate H; exact Hd.
Qed.

(* D8.  For ANY world [w] - arbitrary object files, arbitrary staging-area
   entries, arbitrary journal bytes, arbitrary config state - and any
   environment, status, log, reflog, ls-files, cat-file, rev-parse, hash-object
   and branch --list leave the world exactly as it was, perform no effect,
   and answer with a result or an error, never a crash. *)
Theorem read_only_commands_are_read_only : forall e c w,
  read_only c = true ->
  exists out, step (ACmd e c) w = (w, out, []) /\ out <> OPanic.
Proof.
  intros e c w H. pose proof (no_panic (ACmd e c) w) as Hnp.
  rewrite step_cmd_eq in Hnp |- *. rewrite (run_cmd_read_only e c H (mkMS w [] None)) in *.
  cbn [ms_w ms_trace fst snd] in Hnp |- *.
  exists (outcome_of (fst (run_cmd e c (mkMS w [] None)))). split; [reflexivity | exact Hnp].
Qed.

Corollary read_only_step_w : forall e c w, read_only c = true -> step_w (ACmd e c) w = w.
Proof.
  intros e c w H. destruct (read_only_commands_are_read_only e c w H) as [out [Hs _]].
  unfold step_w. rewrite Hs. reflexivity.
Qed.

(* the instances asked for *)
Corollary status_read_only : forall e w, exists out, step (ACmd e CStatus) w = (w, out, []) /\ out <> OPanic.
Proof. intros e w. apply read_only_commands_are_read_only. reflexivity. Qed.
Corollary log_read_only : forall e n w, exists out, step (ACmd e (CLog n)) w = (w, out, []) /\ out <> OPanic.
Proof. intros e n w. apply read_only_commands_are_read_only. reflexivity. Qed.
Corollary reflog_read_only : forall e w, exists out, step (ACmd e CReflog) w = (w, out, []) /\ out <> OPanic.
Proof. intros e w. apply read_only_commands_are_read_only. reflexivity. Qed.
Corollary ls_files_read_only : forall e s w, exists out, step (ACmd e (CLsFiles s)) w = (w, out, []) /\ out <> OPanic.
Proof. intros e s w. apply read_only_commands_are_read_only. reflexivity. Qed.
Corollary cat_file_read_only : forall e t p args w,
  exists out, step (ACmd e (CCatFile t p args)) w = (w, out, []) /\ out <> OPanic.
Proof. intros e t p args w. apply read_only_commands_are_read_only. reflexivity. Qed.
Corollary rev_parse_read_only : forall e args w,
  exists out, step (ACmd e (CRevParse args)) w = (w, out, []) /\ out <> OPanic.
Proof. intros e args w. apply read_only_commands_are_read_only. reflexivity. Qed.
Corollary hash_object_read_only : forall e args w,
  exists out, step (ACmd e (CHashObject args)) w = (w, out, []) /\ out <> OPanic.
Proof. intros e args w. apply read_only_commands_are_read_only. reflexivity. Qed.
Corollary branch_list_read_only : forall e args rn dl w,
  exists out, step (ACmd e (CBranch args true rn dl)) w = (w, out, []) /\ out <> OPanic.
Proof. intros e args rn dl w. apply read_only_commands_are_read_only. reflexivity. Qed.

(* -- write-tree is NOT read-only: it stores tree objects.  Its frame: the
   only effects are object writes, so nothing but the object store (and the
   collision flag) can change -- *)
Definition same_but_objs (w w' : world) : Prop :=
  w_inited w' = w_inited w /\ w_head w' = w_head w /\ w_refs w' = w_refs w /\
  w_index w' = w_index w /\ w_hlog w' = w_hlog w /\ w_blogs w' = w_blogs w /\
  w_lcfg w' = w_lcfg w /\ w_gcfg w' = w_gcfg w /\ w_files w' = w_files w /\ w_dirs w' = w_dirs w.

Lemma puts_same_but_objs : forall tr w,
  Forall (fun ef => is_put ef = true) tr -> same_but_objs w (apply_effects tr w).
Proof.
  intro tr. induction tr as [|ef r IH]; intros w H.
  - cbn. unfold same_but_objs. repeat split.
  - apply Forall_cons_iff in H. destruct H as [He Hr]. destruct ef; try discriminate He.
    rewrite apply_effects_cons. destruct (IH (apply_effect (EPutObj id payload) w) Hr)
      as (H1 & H2 & H3 & H4 & H5 & H6 & H7 & H8 & H9 & H10).
    unfold same_but_objs. rewrite H1, H2, H3, H4, H5, H6, H7, H8, H9, H10.
    autorewrite with wfields. repeat split.
Qed.

Lemma steps_ok_puts : forall tr w,
  steps_ok (fun _ => True) (fun _ ef => is_put ef = true) w tr -> Forall (fun ef => is_put ef = true) tr.
Proof.
  intro tr. induction tr as [|ef r IH]; intros w H; [constructor|].
  cbn [steps_ok] in H. destruct H as (Hg & _ & Hr). constructor; [exact Hg | exact (IH _ Hr)].
Qed.

Theorem write_tree_frame : forall e w w' out tr,
  step (ACmd e CWriteTree) w = (w', out, tr) ->
  Forall (fun ef => is_put ef = true) tr /\ w' = apply_effects tr w /\ same_but_objs w w' /\ out <> OPanic.
Proof.
  intros e w w' out tr Hstep.
  pose proof (no_panic (ACmd e CWriteTree) w) as Hnp. rewrite Hstep in Hnp. cbn [fst snd] in Hnp.
  assert (Hputs : Forall (fun ef => is_put ef = true) tr /\ w' = apply_effects tr w).
  { rewrite step_cmd_eq, run_cmd_eq in Hstep. cbn [ms_w] in Hstep.
    destruct (w_inited w); [|injection Hstep as <- _ <-; split; [constructor | reflexivity]].
    destruct (ctx_of w) as [x|]; [|injection Hstep as <- _ <-; split; [constructor | reflexivity]].
    cbn [dispatch] in Hstep.
    destruct (cmd_write_tree (mkMS w [] None)) as [r s'] eqn:Em. cbn [fst snd] in Hstep.
    injection Hstep as <- _ <-.
    destruct (hoare_sound (fun _ => True) (fun _ ef => is_put ef = true) _ _ _ _ w [] None r s'
                cmd_write_tree_emits Logic.I Logic.I Em) as (tr0 & Ht & Hw & Hs & _).
    cbn [app] in Ht. subst tr0. split; [exact (steps_ok_puts _ _ Hs) | exact Hw]. }
  destruct Hputs as [Hp Hw]. split; [exact Hp|]. split; [exact Hw|]. split; [|exact Hnp].
  rewrite Hw. apply puts_same_but_objs. exact Hp.
Qed.

(* -- non-vacuity: worlds holding damaged files -- *)
Definition ex_env : env := mkEnv 0 0.
(* no branch yet; a staged entry naming a missing blob; a truncated object; journal bytes that are not records *)
Definition ex_w1 : world :=
  mkW true (str "main"%string) [] (Some [mkE (repeat x22 20) (str "f"%string)])
      [(ex_id, removelast ex_payload)] false (Some (str "not a journal"%string ++ [c_nl])) []
      (CfgFile (Some [])) CfgAbsent [(str "f"%string, str "hello"%string)] [].
Example ex_w1_status :
  step (ACmd ex_env CStatus) ex_w1
  = (ex_w1, OOk [str "staged-new f"%string; str "modified f"%string], []).
Proof. vm_compute. reflexivity. Qed.
Example ex_w1_cat_truncated :
  step (ACmd ex_env (CCatFile false true [hex ex_id])) ex_w1 = (ex_w1, OErr, []).
Proof. vm_compute. reflexivity. Qed.
Example ex_w1_reflog : step (ACmd ex_env CReflog) ex_w1 = (ex_w1, OErr, []).
Proof. vm_compute. reflexivity. Qed.
Example ex_w1_ls_files :
  step (ACmd ex_env (CLsFiles true)) ex_w1 = (ex_w1, OOk [hex (repeat x22 20) ++ [c_sp] ++ str "f"%string], []).
Proof. vm_compute. reflexivity. Qed.
Example ex_w1_log : step (ACmd ex_env (CLog 5)) ex_w1 = (ex_w1, OErr, []).
Proof. vm_compute. reflexivity. Qed.
(* the branch file names the truncated object: nothing loads, every command is refused, nothing is written *)
Definition ex_w2 : world :=
  mkW true (str "main"%string) [(str "main"%string, ex_id)] None
      [(ex_id, removelast ex_payload)] false None [] (CfgFile (Some [])) CfgAbsent [] [].
Example ex_w2_status : step (ACmd ex_env CStatus) ex_w2 = (ex_w2, OErr, []).
Proof. vm_compute. reflexivity. Qed.
Example ex_w2_rev_parse : step (ACmd ex_env (CRevParse [str "HEAD"%string])) ex_w2 = (ex_w2, OErr, []).
Proof. vm_compute. reflexivity. Qed.
(* the branch file names an intact object of the wrong kind: a blob is not a commit *)
Definition ex_w3 : world :=
  mkW true (str "main"%string) [(str "main"%string, ex_id)] None
      [(ex_id, ex_payload)] false None [] (CfgFile (Some [])) CfgAbsent [] [].
Example ex_w3_log : step (ACmd ex_env (CLog 5)) ex_w3 = (ex_w3, OErr, []).
Proof. vm_compute. reflexivity. Qed.
(* a rejected config file *)
Definition ex_w4 : world :=
  mkW true (str "main"%string) [] None [] false None [] (CfgFile None) CfgAbsent [] [].
Example ex_w4_ls_files : step (ACmd ex_env (CLsFiles false)) ex_w4 = (ex_w4, OErr, []).
Proof. vm_compute. reflexivity. Qed.
(* write-tree does write: it is rightly not in the list *)
Example ex_write_tree_writes :
  snd (step (ACmd ex_env CWriteTree) ex_w1)
  = [EPutObj (obj_id KTree (tree_line mode_file (str "f"%string) (repeat x22 20)))
             (payload KTree (tree_line mode_file (str "f"%string) (repeat x22 20)))].
Proof. vm_compute. reflexivity. Qed.

(* ================================================================== *)
Print Assumptions read_hash_sound.
Print Assumptions read_hash_40.
Print Assumptions parse_ref_sound.
Print Assumptions parse_ref_40.
Print Assumptions parse_head_sound.
Print Assumptions sscanf_d_sound.
Print Assumptions parse_payload_sound.
Print Assumptions parse_payload_suffix.
Print Assumptions parse_payload_data_exact.
Print Assumptions payload_resized_rejected.
Print Assumptions payload_truncated_rejected.
Print Assumptions payload_extended_rejected.
Print Assumptions get_obj_sound.
Print Assumptions get_obj_wrong_name.
Print Assumptions get_obj_undecodable.
Print Assumptions get_obj_names_distinct.
Print Assumptions parse_commit_sound.
Print Assumptions parse_commit_ids.
Print Assumptions read_sign_sound.
Print Assumptions parse_tree_items_sound.
Print Assumptions walk_tree_level.
Print Assumptions walk_tree_sound.
Print Assumptions walk_tree_nonleaf_is_dir.
Print Assumptions parse_log_line_sound.
Print Assumptions parse_reflog_sound.
Print Assumptions get_record_beyond.
Print Assumptions get_record_in.
Print Assumptions get_record_clamped.
Print Assumptions cfg_load_sound.
Print Assumptions cfg_load_no_empty_section.
Print Assumptions cfg_load_keys.
Print Assumptions cfg_load_stable.
Print Assumptions run_cmd_read_only.
Print Assumptions read_only_commands_are_read_only.
Print Assumptions read_only_step_w.
Print Assumptions write_tree_frame.
Print Assumptions ex_lax_stored.
Print Assumptions empty_subtree_is_leaf.
Print Assumptions ex_w1_status.
