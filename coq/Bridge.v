(* Bridge.v — the tie between the patterns the current Go source contains and
   the patterns the model is written against.

   SrcRegex.v is regenerated from /repo on every run (one [go_<name>] per
   package-level regexp.MustCompile literal, parsed by Go's own regexp/syntax).
   GoRegex.v holds the reference patterns [re_<name>] that Repo.v and every
   theorem mention.  Each lemma below is proved by RUNNING the verified
   equivalence checker of RegexEquiv.v (a bisimulation of Brzozowski
   derivatives, [req_check_sound]) on the two patterns: it holds exactly when
   the literal in the source denotes the same language — with the same
   anchoring — as the reference, however it is written (\d or [0-9], grouping,
   capture groups, redundant sub-expressions, {4} or four copies ...).  A
   literal that changes the language, or a pattern that no longer exists in the
   source, makes this file fail to compile; every Props file imports it. *)
From Coq Require Import Strings.Byte.
From Coq Require Import List NArith.
From Goit Require Import Bytes Regex GoRegex SrcRegex RegexEquiv.
Import ListNotations.

Definition FUEL : nat := 5000.

Ltac bridge := intro s; apply (pat_check_sound FUEL); vm_compute; reflexivity.

Lemma bridge_branchRegexp : forall s, re_search go_branchRegexp s = re_search re_branchRegexp s.
Proof. bridge. Qed.
Lemma bridge_directoryRegexp : forall s, re_search go_directoryRegexp s = re_search re_directoryRegexp s.
Proof. bridge. Qed.
Lemma bridge_headRegexp : forall s, re_search go_headRegexp s = re_search re_headRegexp s.
Proof. bridge. Qed.
Lemma bridge_identRegexp : forall s, re_search go_identRegexp s = re_search re_identRegexp s.
Proof. bridge. Qed.
Lemma bridge_resetRegexp : forall s, re_search go_resetRegexp s = re_search re_resetRegexp s.
Proof. bridge. Qed.
Lemma bridge_sha1Regexp : forall s, re_search go_sha1Regexp s = re_search re_sha1Regexp s.
Proof. bridge. Qed.
Lemma bridge_signRegexp : forall s, re_search go_signRegexp s = re_search re_signRegexp s.
Proof. bridge. Qed.

(* all seven at once: what each Props file restates as its first theorem *)
Definition source_patterns_agree : Prop :=
  (forall s, re_search go_branchRegexp s = re_search re_branchRegexp s) /\
  (forall s, re_search go_directoryRegexp s = re_search re_directoryRegexp s) /\
  (forall s, re_search go_headRegexp s = re_search re_headRegexp s) /\
  (forall s, re_search go_identRegexp s = re_search re_identRegexp s) /\
  (forall s, re_search go_resetRegexp s = re_search re_resetRegexp s) /\
  (forall s, re_search go_sha1Regexp s = re_search re_sha1Regexp s) /\
  (forall s, re_search go_signRegexp s = re_search re_signRegexp s).

Theorem source_patterns : source_patterns_agree.
Proof.
  unfold source_patterns_agree.
  split; [exact bridge_branchRegexp|]. split; [exact bridge_directoryRegexp|].
  split; [exact bridge_headRegexp|]. split; [exact bridge_identRegexp|].
  split; [exact bridge_resetRegexp|]. split; [exact bridge_sha1Regexp|]. exact bridge_signRegexp.
Qed.

Print Assumptions source_patterns.
