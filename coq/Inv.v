(* Inv.v — the invariants the history-level theorems are about (definitions
   only; the proofs are in ConnectedFacts.v, SnapshotFacts.v, ...). *)
From Coq Require Import Strings.String Strings.Byte.
From Coq Require Import List Bool NArith Sorted.
From Goit Require Import Bytes Sha1 Obj Tree Index Commit Reflog Config World Repo.
(* Canonical / paths come from IndexFacts, valid_comp / valid_path / valid_entry from TreeFacts *)
From Goit Require Import IndexFacts TreeFacts.
Import ListNotations.

(* ---------- connectivity (C03) ---------- *)
Definition commit_ok (st : store) (id : bytes) : Prop := exists c, get_commit st id = Some c.
Definition blob_ok (st : store) (id : bytes) : Prop := exists d, get_kind st KBlob id = Some d.
Definition tree_ok (st : store) (id : bytes) : Prop := exists d, get_kind st KTree id = Some d.

(* every entry of a stored tree refers to a stored object of the matching kind *)
Definition tree_items_ok (st : store) (d : bytes) : Prop :=
  exists items, parse_tree_items (S (length d)) d = Some items /\
    Forall (fun it => let '(mode, _, cid) := it in
                      if bytes_eqb mode mode_dir then tree_ok st cid else blob_ok st cid) items.

Definition Closed (st : store) : Prop :=
  (forall id d, get_kind st KTree id = Some d -> tree_items_ok st d) /\
  (forall id c, get_commit st id = Some c ->
                tree_ok st (c_tree c) /\ Forall (commit_ok st) (c_parents c)).

(* every object file is named by the SHA-1 of its content *)
Definition WellNamed (st : store) : Prop := forall id p, st_lookup st id = Some p -> sha1 p = id.

Definition Connected (w : world) : Prop :=
  (* every branch holds the id of an existing commit *)
  (forall n id, am_get (w_refs w) n = Some id -> commit_ok (w_objs w) id) /\
  (* HEAD names an existing branch as soon as there is any branch *)
  (w_refs w = [] \/ am_mem (w_refs w) (w_head w) = true) /\
  (* every staged path refers to an existing blob *)
  Forall (fun e => blob_ok (w_objs w) (e_id e)) (idx_of w) /\
  (* every commit's snapshot and parents, every snapshot entry, exist with the right kind *)
  Closed (w_objs w) /\
  WellNamed (w_objs w).

(* A SHA-1 collision (a different file already stored under the id being
   written) is flagged by the model and is the one situation the theorems do
   not cover; the flag is sticky. *)
Definition ConnectedOrCollided (w : world) : Prop := w_coll w = true \/ Connected w.

(* ---------- staging area (C06) and snapshots (C05) ---------- *)
(* the work tree only holds files at valid paths (what a file system allows) *)
Definition WtValid (w : world) : Prop := forall p d, am_get (w_files w) p = Some d -> valid_path p.

Definition IndexGood (w : world) : Prop := Canonical (idx_of w) /\ Forall valid_entry (idx_of w).

(* every stored commit's tree reads back, with Goit's own reader and the fuel
   the commands give it, as a canonical list of valid entries *)
Definition SnapshotsGood (st : store) : Prop :=
  forall id c, get_commit st id = Some c ->
    exists d ns, get_kind st KTree (c_tree c) = Some d /\
                 walk_tree (S (length st)) st d = Some ns /\
                 Canonical (flatten [] ns) /\ Forall valid_entry (flatten [] ns).

(* ---------- the journal (C08, C11) ---------- *)
(* every record of logs/HEAD that names an id names a stored commit *)
Definition HlogGood (w : world) : Prop :=
  match w_hlog w with
  | None => True
  | Some b => exists rs, parse_reflog b = Some rs /\
                Forall (fun r => match r_id r with Some id => commit_ok (w_objs w) id | None => True end) rs
  end.

(* what the next process loads from the two config files is well formed: no
   tab or newline in any section, key or value *)
Definition no_ctl (s : bytes) : Prop := ~ In c_nl s /\ ~ In c_tab s.
Definition cfg_clean (c : cfg) : Prop :=
  Forall (fun sm => no_ctl (fst sm) /\ Forall (fun kv => no_ctl (fst kv) /\ no_ctl (snd kv)) (snd sm)) c.
Definition CfgGood (w : world) : Prop :=
  (forall c, cfg_of (w_lcfg w) = Some c -> cfg_clean c) /\
  (forall c, cfg_of (w_gcfg w) = Some c -> cfg_clean c).

(* ---------- reachable worlds ---------- *)
Definition edit_ok (u : edit) : Prop :=
  match u with
  | UWrite p _ => valid_path p
  | _ => True
  end.
Definition action_ok (a : action) : Prop := match a with AEdit u => edit_ok u | ACmd _ _ => True end.
Definition Reachable (w : world) : Prop :=
  exists h, Forall action_ok h /\ w = run h w_empty.
