(* FaultReachFacts.v — invariants that survive faults and crashes.

   [Inv.Reachable w] is [w = run h w_empty] where [run] folds fault-FREE steps
   only.  A world left behind by a command that stopped at an injected write
   failure ([run_cmd e c (mkMS w [] (Some k))]: the k-th write fails) — which
   by [MonadFacts.cmd_fault_prefix] is also exactly a crash-prefix state — is
   not [Reachable], and no "on every reachable repository" theorem applies to
   a history that goes on after a failure.  This file closes that gap.

   1. [FReachable]: the empty disk, closed under fault-free steps AND under
      commands stopped by a fault at any position;
      [reachable_freachable], [freachable_crash] (every crash prefix of every
      command run from an [FReachable] world is [FReachable]),
      [freachable_iff_frun] (the same set as a fold over histories whose
      entries are actions or faulted commands).
   2. each invariant of the development is kept by a faulted command;
   3. [freachable_invariants].
   4. non-vacuity: a commit interrupted after its objects were written. *)
From Coq Require Import Strings.String Strings.Byte.
From Coq Require Import List Bool NArith ZArith Arith Lia ZifyBool ZifyNat ZifyN.
From Goit Require Import Bytes Sha1 Obj Tree Index Regex GoRegex Commit Reflog Config Ignore World Repo.
From Goit Require Import BytesFacts ObjFacts MonadFacts BranchFacts Inv.
From Goit Require ChainFacts ConnectedFacts SnapshotFacts TreeUniqueFacts HeadFacts ConfigCmdFacts
                  JournalFacts ResetFacts CtxFacts.
Import ListNotations.

Arguments sha1 : simpl never.

(* ================================================================== *)
(** * 1. Worlds reachable through faults *)

Inductive FReachable : world -> Prop :=
| FR0 : FReachable w_empty
| FRs : forall a w, action_ok a -> FReachable w -> FReachable (step_w a w)
| FRf : forall e c k w r s',
    FReachable w -> run_cmd e c (mkMS w [] (Some k)) = (r, s') -> FReachable (ms_w s').

Lemma freachable_run : forall h w, Forall action_ok h -> FReachable w -> FReachable (run h w).
Proof.
  induction h as [|a h IH]; intros w Hall Hw; [exact Hw|].
  inversion Hall as [|a' h' Ha Hh]; subst. rewrite run_cons.
  apply IH; [exact Hh | apply FRs; assumption].
Qed.

Theorem reachable_freachable : forall w, Reachable w -> FReachable w.
Proof. intros w (h & Hall & ->). apply freachable_run; [exact Hall | exact FR0]. Qed.

(* the world of a fault-free command run *)
Lemma run_m_step_w : forall e c w r w' tr,
  run_m (run_cmd e c) w = (r, w', tr) -> step_w (ACmd e c) w = w'.
Proof.
  intros e c w r w' tr Hrun. unfold step_w. cbn [step]. rewrite Hrun. destruct r; reflexivity.
Qed.

Lemma run_m_world : forall e c w r w' tr,
  run_m (run_cmd e c) w = (r, w', tr) -> w' = apply_effects tr w.
Proof.
  intros e c w r w' tr Hrun. exact (proj1 (fsim_run _ _ _ _ _ _ (run_cmd_fsim e c) Hrun)).
Qed.

(* crash form: EVERY prefix of the writes of a command run from an
   [FReachable] world leaves an [FReachable] world *)
Theorem freachable_crash : forall e c w r w' tr k,
  FReachable w -> run_m (run_cmd e c) w = (r, w', tr) ->
  FReachable (apply_effects (firstn k tr) w).
Proof.
  intros e c w r w' tr k Hw Hrun.
  destruct (Nat.ltb k (length tr)) eqn:Ek.
  - apply Nat.ltb_lt in Ek.
    pose proof (cmd_fault_prefix e c w r w' tr k Hrun Ek) as Hf.
    exact (FRf e c k w _ _ Hw Hf).
  - apply Nat.ltb_ge in Ek. rewrite (firstn_all2 tr Ek).
    rewrite <- (run_m_world e c w r w' tr Hrun), <- (run_m_step_w e c w r w' tr Hrun).
    apply FRs; [exact Logic.I | exact Hw].
Qed.

(* the same in the terms of [step] *)
Corollary freachable_crash_step : forall e c w w' o tr k,
  FReachable w -> step (ACmd e c) w = (w', o, tr) ->
  FReachable (apply_effects (firstn k tr) w).
Proof.
  intros e c w w' o tr k Hw Hs. cbn [step] in Hs.
  destruct (run_m (run_cmd e c) w) as [[r w1] tr1] eqn:Erun.
  assert (Htr : tr1 = tr) by (destruct r; injection Hs as _ _ Ht; exact Ht).
  subst tr1. exact (freachable_crash e c w r w1 tr k Hw Erun).
Qed.

(* and conversely a faulted command stops in a crash-prefix world of the
   fault-free run (or, when the position lies beyond the last write, in the
   world of the fault-free run) *)
Lemma fault_world_prefix : forall e c w k r s',
  run_cmd e c (mkMS w [] (Some k)) = (r, s') ->
  ms_w s' = apply_effects (firstn k (snd (run_m (run_cmd e c) w))) w.
Proof.
  intros e c w k r s' Hf.
  destruct (run_m (run_cmd e c) w) as [[r0 w0] tr] eqn:Erun. cbn [snd].
  destruct (Nat.ltb k (length tr)) eqn:Ek.
  - apply Nat.ltb_lt in Ek. rewrite (cmd_fault_prefix e c w r0 w0 tr k Erun Ek) in Hf.
    injection Hf as _ <-. reflexivity.
  - apply Nat.ltb_ge in Ek. rewrite (cmd_fault_beyond e c w r0 w0 tr k Erun Ek) in Hf.
    injection Hf as _ <-. cbn [ms_w]. rewrite (firstn_all2 tr Ek).
    exact (run_m_world e c w r0 w0 tr Erun).
Qed.

(** ** the same set, as a fold over histories with faulted commands *)
Inductive faction :=
| FAct (a : action)                       (* a fault-free step *)
| FFault (e : env) (c : cmd) (k : nat).   (* the command, its k-th write failing *)

Definition faction_ok (f : faction) : Prop :=
  match f with FAct a => action_ok a | FFault _ _ _ => True end.

Definition fstep_w (f : faction) (w : world) : world :=
  match f with
  | FAct a => step_w a w
  | FFault e c k => ms_w (snd (run_cmd e c (mkMS w [] (Some k))))
  end.

Definition frun (h : list faction) (w : world) : world := fold_left (fun w f => fstep_w f w) h w.

Lemma frun_cons : forall f h w, frun (f :: h) w = frun h (fstep_w f w).
Proof. reflexivity. Qed.

Lemma frun_app : forall h1 h2 w, frun (h1 ++ h2) w = frun h2 (frun h1 w).
Proof. intros h1 h2 w. unfold frun. apply fold_left_app. Qed.

Lemma fstep_freachable : forall f w, faction_ok f -> FReachable w -> FReachable (fstep_w f w).
Proof.
  intros [a|e c k] w Hok Hw; cbn [fstep_w].
  - apply FRs; assumption.
  - destruct (run_cmd e c (mkMS w [] (Some k))) as [r s'] eqn:Ef. cbn [snd].
    exact (FRf e c k w r s' Hw Ef).
Qed.

Lemma frun_freachable : forall h w, Forall faction_ok h -> FReachable w -> FReachable (frun h w).
Proof.
  induction h as [|f h IH]; intros w Hall Hw; [exact Hw|].
  inversion Hall as [|f' h' Hf Hh]; subst. rewrite frun_cons.
  apply IH; [exact Hh | apply fstep_freachable; assumption].
Qed.

Theorem freachable_iff_frun : forall w,
  FReachable w <-> exists h, Forall faction_ok h /\ w = frun h w_empty.
Proof.
  intro w. split.
  - intro Hw. induction Hw as [|a w Ha Hw IH|e c k w r s' Hw IH Hf].
    + exists []. split; [constructor | reflexivity].
    + destruct IH as (h & Hall & ->). exists (h ++ [FAct a]). split.
      * apply Forall_app. split; [exact Hall | constructor; [exact Ha | constructor]].
      * rewrite frun_app. reflexivity.
    + destruct IH as (h & Hall & ->). exists (h ++ [FFault e c k]). split.
      * apply Forall_app. split; [exact Hall | constructor; [exact Logic.I | constructor]].
      * rewrite frun_app. cbn [frun fold_left fstep_w]. rewrite Hf. reflexivity.
  - intros (h & Hall & ->). apply frun_freachable; [exact Hall | exact FR0].
Qed.

(* ================================================================== *)
(** * 2. Each invariant is kept by a faulted command *)

(* the general shape: an invariant that every command keeps after each of its
   writes ([emits]) holds in the world a faulted command stops in *)
Lemma emits_fault : forall (I : world -> Prop) (G : world -> effect -> Prop) e c w k r s',
  emits I G (run_cmd e c) -> I w -> run_cmd e c (mkMS w [] (Some k)) = (r, s') -> I (ms_w s').
Proof.
  intros I G e c w k r s' Hm Hi Hrun.
  exact (proj1 (emits_sound_fault I G _ _ w k r s' Hm Hi Hrun)).
Qed.

(** ** connectivity: [ConnectedFacts.CInv] *)
Lemma CInv_fault : forall e c w k r s',
  ConnectedFacts.CInv w -> run_cmd e c (mkMS w [] (Some k)) = (r, s') ->
  ConnectedFacts.CInv (ms_w s').
Proof.
  intros e c w k r s'.
  exact (emits_fault ConnectedFacts.CInv ConnectedFacts.CG e c w k r s' (ConnectedFacts.run_cmd_conn e c)).
Qed.

(** ** parent chains: [ChainFacts.CInv] *)
Lemma ChInv_fault : forall e c w k r s',
  ChainFacts.CInv w -> run_cmd e c (mkMS w [] (Some k)) = (r, s') -> ChainFacts.CInv (ms_w s').
Proof.
  intros e c w k r s'.
  exact (emits_fault ChainFacts.CInv ChainFacts.Gt e c w k r s' (ChainFacts.run_cmd_inv e c)).
Qed.

Lemma ChInv_step : forall a w, ChainFacts.CInv w -> ChainFacts.CInv (step_w a w).
Proof.
  exact (step_invariant ChainFacts.CInv ChainFacts.Gt ChainFacts.run_cmd_inv ChainFacts.cinv_edit).
Qed.

(** ** staging area and snapshots: [SnapshotFacts.Inv] *)
Lemma SInv_fault : forall e c w k r s',
  SnapshotFacts.Inv w -> run_cmd e c (mkMS w [] (Some k)) = (r, s') -> SnapshotFacts.Inv (ms_w s').
Proof.
  intros e c w k r s'.
  exact (emits_fault SnapshotFacts.Inv SnapshotFacts.G e c w k r s' (SnapshotFacts.run_cmd_emits e c)).
Qed.

(** ** no two directory entries of one name: [TreeUniqueFacts.UInv] *)
Lemma UInv_fault : forall e c w k r s',
  SnapshotFacts.Inv w -> TreeUniqueFacts.UInv w ->
  run_cmd e c (mkMS w [] (Some k)) = (r, s') -> TreeUniqueFacts.UInv (ms_w s').
Proof.
  intros e c w k r s' Hi Hu Hrun.
  destruct (emits_sound_fault SnapshotFacts.Inv TreeUniqueFacts.Gu _ _ w k r s'
              (TreeUniqueFacts.run_cmd_emits_u e c) Hi Hrun) as (_ & Hw & Hs).
  rewrite Hw. apply TreeUniqueFacts.steps_ok_unique; assumption.
Qed.

(** ** the journal: [JournalFacts.JInv], without the hypothesis on name arguments *)

(* a command whose name argument holds a newline is refused before its first
   write, so a fault injected into it changes nothing *)
Lemma unclean_fault_noop : forall e c w k r s',
  ~ JournalFacts.cmd_names_clean c -> run_cmd e c (mkMS w [] (Some k)) = (r, s') -> ms_w s' = w.
Proof.
  intros e c w k r s' Hun Hrun.
  pose proof (ResetFacts.unclean_cmd_refused e c w Hun) as Hs. cbn [step] in Hs.
  destruct (run_m (run_cmd e c) w) as [[r0 w0] tr0] eqn:Erun.
  assert (Hw0 : w0 = w /\ tr0 = []) by (destruct r0; try discriminate Hs; injection Hs as H1 H3; split; assumption).
  destruct Hw0 as [-> ->].
  rewrite (cmd_fault_beyond e c w r0 w [] k Erun (Nat.le_0_l k)) in Hrun.
  injection Hrun as _ <-. reflexivity.
Qed.

Lemma JInv_fault_any : forall e c w k r s',
  JournalFacts.JInv w -> run_cmd e c (mkMS w [] (Some k)) = (r, s') -> JournalFacts.JInv (ms_w s').
Proof.
  intros e c w k r s' Hi Hrun.
  destruct (ResetFacts.cmd_names_clean_dec c) as [Hc|Hun].
  - exact (JournalFacts.JInv_fault e c w k r s' Hc Hi Hrun).
  - rewrite (unclean_fault_noop e c w k r s' Hun Hrun). exact Hi.
Qed.

(** ** every id the journal names is a stored commit: [ResetFacts.KI] *)
Lemma KI_fault : forall e c w k r s',
  ResetFacts.KI w -> run_cmd e c (mkMS w [] (Some k)) = (r, s') -> ResetFacts.KI (ms_w s').
Proof.
  intros e c w k r s' (Hj & Hc & Hids) Hrun.
  split; [exact (JInv_fault_any e c w k r s' Hj Hrun)|].
  split; [exact (CInv_fault e c w k r s' Hc Hrun)|].
  destruct (ResetFacts.cmd_names_clean_dec c) as [Hcl|Hun].
  2:{ rewrite (unclean_fault_noop e c w k r s' Hun Hrun). exact Hids. }
  destruct (JournalFacts.run_cmd_sound True e c w (Some k) r s' (fun _ => conj Hj Hcl) Hrun)
    as (Hw & Hall & _).
  destruct (hoare_sound ConnectedFacts.CInv ConnectedFacts.CG _ _ _ _ w [] (Some k) r s'
              (ConnectedFacts.run_cmd_conn e c) Hc Logic.I Hrun)
    as (tr0 & Ht & _ & Hcg & _).
  cbn [app] in Ht. subst tr0.
  destruct (hoare_sound JournalFacts.Tr ResetFacts.HG _ _ _ _ w [] (Some k) r s'
              (ResetFacts.run_cmd_hlog e c w) Logic.I eq_refl Hrun)
    as (tr1 & Ht1 & _ & Hhg & _).
  cbn [app] in Ht1. subst tr1.
  rewrite Hw. intro Hnb.
  apply ResetFacts.hlog_ids_trace; try assumption.
  - apply (JournalFacts.Forall_JG_of True _ _ Logic.I Hall).
  - apply Hids. intro X. apply Hnb. apply ConnectedFacts.bad_sticky_trace. exact X.
Qed.

(* ================================================================== *)
(** * 3. The invariants of every world reachable through faults *)

Definition FInv (w : world) : Prop :=
  ResetFacts.KI w /\                 (* JInv, ConnectedFacts.CInv, journal ids *)
  ChainFacts.CInv w /\
  SnapshotFacts.Inv w /\
  TreeUniqueFacts.UInv w /\
  HeadFacts.NamesValid w /\
  ConfigCmdFacts.WfCfg w /\
  ConfigCmdFacts.CfgGood w /\       (* both configuration files load (CtxFacts) *)
  refs_sorted w.

Lemma FInv_empty : FInv w_empty.
Proof.
  split; [exact ResetFacts.KI_empty|].
  split; [exact ChainFacts.cinv_empty|].
  split; [exact (SnapshotFacts.GoodW_Inv _ SnapshotFacts.GoodW_empty)|].
  split; [intros _; exact TreeUniqueFacts.TreesUnique_empty|].
  split; [exact HeadFacts.NamesValid_empty|].
  split; [exact ConfigCmdFacts.WfCfg_empty|].
  split; [exact ConfigCmdFacts.CfgGood_empty|].
  apply am_sorted_nil.
Qed.

Lemma FInv_step : forall a w, action_ok a -> FInv w -> FInv (step_w a w).
Proof.
  intros a w Hok (Hk & Hch & Hs & Hu & Hn & Hc & Hcg & Hr).
  split; [exact (ResetFacts.KI_step a w Hok Hk)|].
  split; [exact (ChInv_step a w Hch)|].
  split; [exact (SnapshotFacts.step_Inv a w Hok Hs)|].
  split; [exact (TreeUniqueFacts.step_unique a w Hok Hs Hu)|].
  split; [exact (HeadFacts.names_valid_step a w Hn)|].
  split; [exact (ConfigCmdFacts.WfCfg_step a w Hc)|].
  split; [exact (CtxFacts.cfgs_load_step a w Hcg)|].
  exact (refs_sorted_step a w Hr).
Qed.

Lemma FInv_fault : forall e c w k r s',
  FInv w -> run_cmd e c (mkMS w [] (Some k)) = (r, s') -> FInv (ms_w s').
Proof.
  intros e c w k r s' (Hk & Hch & Hs & Hu & Hn & Hc & Hcg & Hr) Hrun.
  split; [exact (KI_fault e c w k r s' Hk Hrun)|].
  split; [exact (ChInv_fault e c w k r s' Hch Hrun)|].
  split; [exact (SInv_fault e c w k r s' Hs Hrun)|].
  split; [exact (UInv_fault e c w k r s' Hs Hu Hrun)|].
  split; [exact (HeadFacts.names_valid_fault e c w k r s' Hn Hrun)|].
  split; [exact (ConfigCmdFacts.WfCfg_fault e c w k r s' Hc Hrun)|].
  split; [exact (CtxFacts.cfgs_load_fault e c w k r s' Hcg Hrun)|].
  exact (refs_sorted_fault e c w k r s' Hr Hrun).
Qed.

Theorem freachable_FInv : forall w, FReachable w -> FInv w.
Proof.
  intros w Hw. induction Hw as [|a w Ha Hw IH|e c k w r s' Hw IH Hf].
  - exact FInv_empty.
  - exact (FInv_step a w Ha IH).
  - exact (FInv_fault e c w k r s' IH Hf).
Qed.

(* the bundle, spelled out.  [w_coll w = false] (no SHA-1 collision met by a
   write) and [SmallStore] (no object file of 2^63 bytes or more) are the two
   guards under which the store invariants are known on fault-free histories
   too; the other invariants hold unconditionally *)
Theorem freachable_invariants : forall w, FReachable w ->
  (* unconditional *)
  HeadFacts.NamesValid w /\
  ConfigCmdFacts.WfCfg w /\
  ConfigCmdFacts.CfgGood w /\
  refs_sorted w /\
  JournalFacts.JInv w /\
  (* in guarded form *)
  ConnectedFacts.CInv w /\ SnapshotFacts.Inv w /\ TreeUniqueFacts.UInv w /\ ChainFacts.CInv w /\
  (* with the guards discharged *)
  (w_coll w = false -> ChainFacts.ChainGood w) /\
  (w_coll w = false -> SnapshotFacts.SmallStore (w_objs w) ->
     Connected w /\ WtValid w /\ IndexGood w /\ SnapshotsGood (w_objs w) /\
     TreeUniqueFacts.SnapshotsUnique (w_objs w) /\ HlogGood w).
Proof.
  intros w Hw.
  destruct (freachable_FInv w Hw) as ((Hj & Hc & Hids) & Hch & Hs & Hu & Hn & Hcfg & Hcg & Hr).
  split; [exact Hn|]. split; [exact Hcfg|]. split; [exact Hcg|]. split; [exact Hr|]. split; [exact Hj|].
  split; [exact Hc|]. split; [exact Hs|]. split; [exact Hu|]. split; [exact Hch|].
  split.
  - intro Hcoll. destruct Hch as [Hb|Hg]; [rewrite Hb in Hcoll; discriminate Hcoll | exact Hg].
  - intros Hcoll Hsmall.
    assert (Hnb : ~ ConnectedFacts.Bad w) by (apply ConnectedFacts.not_bad_iff; split; assumption).
    assert (HL : SnapshotFacts.Live w) by (split; assumption).
    destruct (Hs HL) as (Hwt & Hix & Hsn & _).
    split; [apply ConnectedFacts.good_connected; exact (Hc Hnb)|].
    split; [exact Hwt|]. split; [exact Hix|].
    split; [apply SnapshotFacts.SnapshotsGood'_weaken; exact Hsn|].
    split; [apply TreeUniqueFacts.SnapshotsUnique_iff; split; [exact Hsn | exact (Hu HL)]|].
    unfold HlogGood. destruct (w_hlog w) as [hl|] eqn:Hhl; [|exact Logic.I].
    destruct Hj as [[[rs Hrs] _] _].
    assert (Hrs' : parse_reflog hl = Some rs).
    { unfold JournalFacts.hlog_bytes in Hrs. rewrite Hhl in Hrs. exact Hrs. }
    exists rs. split; [exact Hrs'|].
    apply (Forall_impl _ (P := ResetFacts.ids_ok (w_objs w))); [|exact (Hids Hnb rs Hrs)].
    intros r0 H0. destruct (r_id r0) as [id|] eqn:Eid; [apply H0; exact Eid | exact Logic.I].
Qed.

(* the invariants in every crash-prefix world of every command run from a
   world reachable through faults *)
Corollary freachable_crash_invariants : forall e c w r w' tr k,
  FReachable w -> run_m (run_cmd e c) w = (r, w', tr) ->
  FInv (apply_effects (firstn k tr) w).
Proof.
  intros e c w r w' tr k Hw Hrun. apply freachable_FInv.
  exact (freachable_crash e c w r w' tr k Hw Hrun).
Qed.

(* ================================================================== *)
(** * 4. Non-vacuity: a world reachable ONLY through a fault *)

(** ** 4.1 an invariant of fault-free histories that faults break

   On every fault-free history, a store that holds a commit object comes
   with a journal: the only command that writes a commit object is [commit],
   and a [commit] that is not stopped by a failing write either writes no
   commit object or goes on to append its line to logs/HEAD.  (The invariant
   speaks of object FILES that start with the byte 'c': every payload the
   commands write starts with its kind's name.) *)
Definition is_commit_payload (p : bytes) : bool :=
  match p with c :: _ => Byte.eqb c x63 | [] => false end.
Definition has_commit (st : store) : bool := existsb (fun kv => is_commit_payload (snd kv)) st.

Definition NoOrphanCommit (w : world) : Prop := has_commit (w_objs w) = true -> w_hlog w <> None.

Definition no_commit_put (e : effect) : Prop :=
  match e with EPutObj _ p => is_commit_payload p = false | _ => True end.

Lemma static_no_commit_put : forall e, ChainFacts.eff_static e -> no_commit_put e.
Proof.
  intros e H. destruct e; try exact Logic.I. cbn [ChainFacts.eff_static] in H.
  destruct H as (kd & d & Hk & ->). cbn [no_commit_put].
  destruct kd; [reflexivity | reflexivity | contradiction Hk; reflexivity | reflexivity].
Qed.

Lemma has_commit_set : forall st id p,
  has_commit (st_set st id p) = true -> has_commit st = true \/ is_commit_payload p = true.
Proof.
  induction st as [|[k0 v0] st IH]; intros id p H; cbn [st_set] in H.
  - unfold has_commit in H. cbn [existsb snd] in H. rewrite orb_false_r in H. right. exact H.
  - destruct (bytes_eqb k0 id).
    + unfold has_commit in H |- *. cbn [existsb snd] in H |- *.
      apply orb_true_iff in H. destruct H as [H|H]; [right; exact H | left; rewrite H; apply orb_true_r].
    + unfold has_commit in H |- *. cbn [existsb snd] in H |- *.
      apply orb_true_iff in H. destruct H as [H|H]; [left; rewrite H; reflexivity|].
      destruct (IH id p H) as [H1|H1]; [left; unfold has_commit in H1; rewrite H1; apply orb_true_r | right; exact H1].
Qed.

Lemma has_commit_effect : forall e w, no_commit_put e ->
  has_commit (w_objs (apply_effect e w)) = true -> has_commit (w_objs w) = true.
Proof.
  intros e w Hn H. destruct (is_put e) eqn:Ep.
  - destruct e; try discriminate Ep. rewrite w_objs_EPutObj in H. cbn [no_commit_put] in Hn.
    destruct (has_commit_set _ _ _ H) as [H1|H1]; [exact H1 | rewrite Hn in H1; discriminate H1].
  - rewrite (w_objs_not_put e w Ep) in H. exact H.
Qed.

Lemma hlog_kept_effect : forall e w, w_hlog w <> None -> w_hlog (apply_effect e w) <> None.
Proof.
  intros e w H.
  destruct e as [ | pid ppl | name rid | name | old new | hname | ies | line | bname bline | dbname
                | lst | gst | fpath fdata | rpath | mpath ]; autorewrite with wfields; try exact H.
  discriminate.
Qed.

Lemma hlog_kept_effects : forall tr w, w_hlog w <> None -> w_hlog (apply_effects tr w) <> None.
Proof.
  induction tr as [|e tr IH]; intros w H; [exact H|].
  rewrite apply_effects_cons. apply IH. apply hlog_kept_effect. exact H.
Qed.

(* the traces of fault-free commands: no commit object written, or a line
   appended to logs/HEAD *)
Definition TrOk (tr : list effect) : Prop :=
  Forall no_commit_put tr \/ exists l, In (EAppendHlog l) tr.

Lemma NoOrphan_quiet_trace : forall tr w,
  Forall no_commit_put tr -> NoOrphanCommit w -> NoOrphanCommit (apply_effects tr w).
Proof.
  induction tr as [|e tr IH]; intros w Hall Hn; [exact Hn|].
  inversion Hall as [|e' tr' He Htr]; subst. rewrite apply_effects_cons. apply IH; [exact Htr|].
  intro Hc. apply hlog_kept_effect. apply Hn. exact (has_commit_effect e w He Hc).
Qed.

Lemma NoOrphan_trace : forall tr w, TrOk tr -> NoOrphanCommit w -> NoOrphanCommit (apply_effects tr w).
Proof.
  intros tr w [Hall|[l Hin]] Hn.
  - apply NoOrphan_quiet_trace; assumption.
  - intros _. destruct (in_split _ _ Hin) as (l1 & l2 & ->).
    rewrite apply_effects_app, apply_effects_cons. apply hlog_kept_effects.
    rewrite w_hlog_EAppendHlog. discriminate.
Qed.

(* every command but [commit] *)
Ltac rq L :=
  unfold run_cmd; apply ChainFacts.quiet_bind; [apply ChainFacts.quiet_getw | intro];
  apply ChainFacts.quiet_bind; [apply ChainFacts.quiet_guard | intro];
  apply ChainFacts.quiet_bind; [apply TreeUniqueFacts.load_ctx_quiet | intro]; apply L.

Lemma run_cmd_quiet : forall e c, (forall msg, c <> CCommit msg) -> ChainFacts.quiet (run_cmd e c).
Proof.
  intros e c Hc. destruct c.
  - unfold run_cmd. apply ChainFacts.quiet_bind; [apply ChainFacts.quiet_getw | intro].
    apply ChainFacts.cmd_init_quiet.
  - rq ChainFacts.cmd_config_quiet.
  - rq ChainFacts.cmd_add_quiet.
  - rq ChainFacts.cmd_rm_quiet.
  - exfalso. exact (Hc msg eq_refl).
  - rq ChainFacts.cmd_status_quiet.
  - rq ChainFacts.cmd_branch_quiet.
  - rq ChainFacts.cmd_switch_quiet.
  - rq ChainFacts.cmd_reset_quiet.
  - rq ChainFacts.cmd_restore_quiet.
  - rq ChainFacts.cmd_update_ref_quiet.
  - rq ChainFacts.cmd_log_quiet.
  - rq ChainFacts.cmd_reflog_quiet.
  - rq ChainFacts.cmd_cat_file_quiet.
  - rq ChainFacts.cmd_hash_object_quiet.
  - rq ChainFacts.cmd_ls_files_quiet.
  - rq ChainFacts.cmd_rev_parse_quiet.
  - rq ChainFacts.cmd_write_tree_quiet.
Qed.

Lemma steps_static_forall : forall tr w,
  steps_ok (fun _ => True) (fun _ e => ChainFacts.eff_static e) w tr -> Forall no_commit_put tr.
Proof.
  induction tr as [|e tr IH]; intros w Hs; [constructor|].
  destruct Hs as (He & _ & Hs'). constructor; [apply static_no_commit_put; exact He | exact (IH _ Hs')].
Qed.

(* [commit], run to its end *)
Lemma cmd_commit_trok : forall e c msg w,
  ctx_of w = Some c ->
  (CommitCmdFacts.tip_of w = None -> valid_branch_name (w_head w) = true) ->
  exists r tr, ExactFacts.runs (cmd_commit e c msg) w r tr /\ TrOk tr.
Proof.
  intros e c msg w Hx Hv.
  destruct (user_set (x_l c) (x_g c)) eqn:Hu.
  2:{ exists Err, []. split; [apply CommitCmdFacts.cmd_commit_no_identity_runs; exact Hu | left; constructor]. }
  assert (Hgate : CommitCmdFacts.gate_open w c ->
            exists r tr, ExactFacts.runs (cmd_commit e c msg) w r tr /\ TrOk tr).
  { intro Hg. destruct (write_tree_top (idx_of w)) as [[root subs]|] eqn:Hw.
    - destruct (parse_commit (CommitCmdFacts.commit_data e c msg w root)) as [cm|] eqn:Hp.
      + exists (Ok []), (CommitCmdFacts.do_commit_trace e c msg w root subs). split.
        * apply (proj1 (CommitCmdFacts.cmd_commit_passes e c msg w _ Hg)).
          exact (CommitCmdFacts.do_commit_runs e c msg w root subs cm Hw Hp
                   (CommitCmdFacts.head_ok_loaded w c Hx Hv)).
        * right. exists (CommitCmdFacts.commit_line e c msg w root).
          unfold CommitCmdFacts.do_commit_trace, CommitCmdFacts.commit_tail.
          apply in_or_app. right. right. right. left. reflexivity.
      + exists Err, (map CommitCmdFacts.put_tree_eff (subs ++ [root])). split.
        * apply (proj2 (CommitCmdFacts.cmd_commit_passes e c msg w _ Hg)).
          exact (CommitCmdFacts.do_commit_unparsable e c msg w root subs Hw Hp).
        * left. apply Forall_forall. intros x Hin. apply in_map_iff in Hin.
          destruct Hin as (d & <- & _). reflexivity.
    - exists Err, []. split; [|left; constructor].
      apply (proj2 (CommitCmdFacts.cmd_commit_passes e c msg w _ Hg)).
      unfold do_commit. ExactFacts.rstep. apply ExactFacts.runs_bind_of_opt_none. exact Hw. }
  destruct (w_refs w) as [|kv rs] eqn:Er.
  - destruct (idx_of w) as [|en es] eqn:Ei.
    + exists Err, []. split; [apply CommitCmdFacts.cmd_commit_first_nothing; assumption | left; constructor].
    + apply Hgate. split; [exact Hu|]. rewrite Er, Ei. discriminate.
  - assert (Hne : w_refs w <> []) by (rewrite Er; discriminate).
    destruct (ExactFacts.head_nodes c w) as [ns|] eqn:Hn.
    + destruct (diff_with_tree (idx_of w) ns) as [|d ds] eqn:Hd.
      * exists Err, []. split; [|left; constructor].
        exact (CommitCmdFacts.cmd_commit_nothing_staged e c msg w ns Hne Hn Hd).
      * apply Hgate. split; [exact Hu|]. rewrite Er. exists ns. split; [exact Hn | rewrite Hd; discriminate].
    + exists Err, []. split; [|left; constructor].
      exact (CommitCmdFacts.cmd_commit_no_head e c msg w Hne Hn).
Qed.

Lemma cmd_trace_ok : forall e c w w' o tr,
  HeadFacts.NamesValid w -> step (ACmd e c) w = (w', o, tr) -> TrOk tr.
Proof.
  intros e c w w' o tr Hnv Hs.
  assert (Hc : (exists msg, c = CCommit msg) \/ (forall msg, c <> CCommit msg)).
  { destruct c; try (right; intros m Hm; discriminate Hm). left. exists msg. reflexivity. }
  destruct Hc as [[msg ->]|Hc].
  - assert (Htr : tr = snd (step (ACmd e (CCommit msg)) w)) by (rewrite Hs; reflexivity).
    rewrite Htr. clear Hs Htr.
    destruct (w_inited w) eqn:Hi.
    2:{ rewrite step_not_loaded; [left; constructor | discriminate | left; exact Hi]. }
    destruct (ctx_of w) as [x|] eqn:Hx.
    2:{ rewrite step_not_loaded; [left; constructor | discriminate | right; exact Hx]. }
    rewrite (step_loaded e (CCommit msg) w x); [|discriminate | exact Hi | exact Hx].
    cbn [dispatch snd].
    destruct (cmd_commit_trok e x msg w Hx (fun _ => proj1 Hnv Hi)) as (r & tr0 & Hrun & Hok).
    rewrite (Hrun []). cbn [snd ms_trace app]. exact Hok.
  - left. cbn [step] in Hs. destruct (run_m (run_cmd e c) w) as [[r w1] tr1] eqn:Erun.
    assert (Htr : tr1 = tr) by (destruct r; injection Hs as _ _ Ht; exact Ht). subst tr1.
    destruct (emits_sound (fun _ => True) (fun _ e0 => ChainFacts.eff_static e0) _ _ w r w1 tr
                (run_cmd_quiet e c Hc) Logic.I Erun) as (_ & _ & Hst & _).
    exact (steps_static_forall tr w Hst).
Qed.

Lemma NoOrphan_step : forall a w,
  HeadFacts.NamesValid w -> NoOrphanCommit w -> NoOrphanCommit (step_w a w).
Proof.
  intros [e c|u] w Hnv Hn.
  - unfold step_w. destruct (step (ACmd e c) w) as [[w' o] tr] eqn:Es. cbn [fst].
    pose proof (step_trace _ _ _ _ _ Es) as Hw. cbn beta iota in Hw. subst w'.
    apply NoOrphan_trace; [exact (cmd_trace_ok e c w _ o tr Hnv Es) | exact Hn].
  - unfold step_w. cbn [step fst]. unfold NoOrphanCommit.
    rewrite w_objs_apply_edit, w_hlog_apply_edit. exact Hn.
Qed.

Lemma NoOrphan_run : forall h w,
  HeadFacts.NamesValid w -> NoOrphanCommit w -> NoOrphanCommit (run h w).
Proof.
  induction h as [|a h IH]; intros w Hnv Hn; [exact Hn|].
  rewrite run_cons. apply IH; [apply HeadFacts.names_valid_step; exact Hnv | apply NoOrphan_step; assumption].
Qed.

(* on every fault-free history: a commit object in the store comes with a journal *)
Theorem reachable_no_orphan_commit : forall w, Reachable w -> NoOrphanCommit w.
Proof.
  intros w (h & _ & ->). apply NoOrphan_run; [exact HeadFacts.NamesValid_empty|].
  intro H. discriminate H.
Qed.

(** ** 4.2 a commit interrupted after its objects were written *)
Section Example.
  Local Open Scope string_scope.

  Definition fx_env : env := ConnectedFacts.ex_env.
  Definition fx_commit : cmd := CCommit (str "first").

  (* init; an identity; write f.txt; add f.txt ... *)
  Definition fx_pre : list action := firstn 5 ConnectedFacts.ex_hist0.
  (* ... and [commit], whose third write (the branch file) fails *)
  Definition fx_hist : list faction := map FAct fx_pre ++ [FFault fx_env fx_commit 2].

  Definition fx_w0 : world := Eval vm_compute in run fx_pre w_empty.
  Definition fx_w : world := Eval vm_compute in frun fx_hist w_empty.
  (* the writes of the same commit when nothing fails *)
  Definition fx_tr : list effect := Eval vm_compute in snd (step (ACmd fx_env fx_commit) fx_w0).

  Lemma fx_w0_run : run fx_pre w_empty = fx_w0.
  Proof. vm_compute. reflexivity. Qed.
  Lemma fx_w_run : frun fx_hist w_empty = fx_w.
  Proof. vm_compute. reflexivity. Qed.

  Lemma Forall_faction_ok_map : forall l, Forall action_ok l -> Forall faction_ok (map FAct l).
  Proof.
    intros l H. apply Forall_forall. intros f Hf. apply in_map_iff in Hf.
    destruct Hf as (a & <- & Ha). rewrite Forall_forall in H. exact (H a Ha).
  Qed.

  Lemma fx_pre_ok : Forall action_ok fx_pre.
  Proof. apply ConnectedFacts.action_ok_b_ok. vm_compute. reflexivity. Qed.

  Lemma fx_w0_reachable : Reachable fx_w0.
  Proof. exists fx_pre. split; [exact fx_pre_ok | symmetry; exact fx_w0_run]. Qed.

  Theorem fx_freachable : FReachable fx_w.
  Proof.
    apply freachable_iff_frun. exists fx_hist. split; [|symmetry; exact fx_w_run].
    apply Forall_app. split; [apply Forall_faction_ok_map; exact fx_pre_ok|].
    constructor; [exact Logic.I | constructor].
  Qed.

  (* what the interrupted commit left behind: of the six writes of the
     command (root tree, commit object, branch file, logs/HEAD, the branch's
     log, HEAD) the first two were made.  The store holds the blob, the tree
     and the commit object; no branch, no journal *)
  Example fx_shape :
    length fx_tr = 6 /\
    map is_put fx_tr = [true; true; false; false; false; false] /\
    fx_w = apply_effects (firstn 2 fx_tr) fx_w0 /\
    length (w_objs fx_w0) = 1 /\ length (w_objs fx_w) = 3 /\
    has_commit (w_objs fx_w) = true /\
    (exists id cm, In id (map fst (w_objs fx_w)) /\ get_commit (w_objs fx_w) id = Some cm /\
                   c_parents cm = [] /\ tree_ok (w_objs fx_w) (c_tree cm)) /\
    w_refs fx_w = [] /\ w_hlog fx_w = None /\ w_blogs fx_w = [] /\
    w_head fx_w = str "main" /\ w_index fx_w = w_index fx_w0 /\ w_files fx_w = w_files fx_w0 /\
    (* neither the world before the command nor the world after it *)
    fx_w <> fx_w0 /\ fx_w <> step_w (ACmd fx_env fx_commit) fx_w0.
  Proof.
    split; [vm_compute; reflexivity|]. split; [vm_compute; reflexivity|].
    split; [vm_compute; reflexivity|]. split; [vm_compute; reflexivity|].
    split; [vm_compute; reflexivity|]. split; [vm_compute; reflexivity|].
    split.
    { exists (fst (nth 2 (w_objs fx_w) ([], []))).
      destruct (get_commit (w_objs fx_w) (fst (nth 2 (w_objs fx_w) ([], [])))) as [cm|] eqn:Eg;
        [|vm_compute in Eg; discriminate Eg].
      exists cm. split; [vm_compute; auto|]. split; [reflexivity|].
      assert (Hcm : Some cm = get_commit (w_objs fx_w) (fst (nth 2 (w_objs fx_w) ([], []))))
        by (symmetry; exact Eg).
      vm_compute in Hcm. injection Hcm as ->. split; [reflexivity|].
      unfold tree_ok. cbn [c_tree].
      match goal with |- exists d, ?g = Some d =>
        let v := eval vm_compute in g in
        match v with Some ?d => exists d; vm_compute; reflexivity end end. }
    split; [reflexivity|]. split; [reflexivity|]. split; [reflexivity|].
    split; [reflexivity|]. split; [reflexivity|]. split; [reflexivity|].
    split.
    - intro H. assert (Hl : length (w_objs fx_w) = length (w_objs fx_w0)) by (rewrite H; reflexivity).
      vm_compute in Hl. discriminate Hl.
    - intro H. assert (Hl : w_refs fx_w = w_refs (step_w (ACmd fx_env fx_commit) fx_w0)) by (rewrite <- H; reflexivity).
      vm_compute in Hl. discriminate Hl.
  Qed.

  (* this world is NOT reached by any fault-free history: it holds a commit
     object and no journal ([reachable_no_orphan_commit]) *)
  Theorem fx_not_reachable : ~ Reachable fx_w.
  Proof.
    intro Hr. apply (reachable_no_orphan_commit fx_w Hr); vm_compute; reflexivity.
  Qed.

  (* ... while the world before the interrupted command is *)
  Example fx_only_through_fault : Reachable fx_w0 /\ FReachable fx_w /\ ~ Reachable fx_w.
  Proof. split; [exact fx_w0_reachable|]. split; [exact fx_freachable | exact fx_not_reachable]. Qed.

  Lemma fx_live : w_coll fx_w = false /\ SnapshotFacts.SmallStore (w_objs fx_w).
  Proof.
    assert (Hnb : ~ ConnectedFacts.Bad fx_w) by (apply ConnectedFacts.bad_b_false; vm_compute; reflexivity).
    apply ConnectedFacts.not_bad_iff in Hnb. exact Hnb.
  Qed.

  (* the invariants, read off from the theorem: nothing in the repository
     refers to something that is not there, the staging area and every stored
     snapshot are well formed, the (absent) journal is good, ... *)
  Example fx_invariants :
    Connected fx_w /\ WtValid fx_w /\ IndexGood fx_w /\ SnapshotsGood (w_objs fx_w) /\
    TreeUniqueFacts.SnapshotsUnique (w_objs fx_w) /\ HlogGood fx_w /\
    ChainFacts.ChainGood fx_w /\
    HeadFacts.NamesValid fx_w /\ ConfigCmdFacts.WfCfg fx_w /\ refs_sorted fx_w /\ JournalFacts.JInv fx_w.
  Proof.
    destruct (freachable_invariants fx_w fx_freachable)
      as (Hn & Hcfg & _ & Hr & Hj & _ & _ & _ & _ & Hch & Hst).
    destruct fx_live as [Hc Hs].
    destruct (Hst Hc Hs) as (H1 & H2 & H3 & H4 & H5 & H6).
    auto 12 using (Hch Hc).
  Qed.

  (* the history goes on after the failure: the user runs the same commit
     again, this time nothing fails.  The world reached is exactly the world
     of the history in which nothing ever failed, and every world on the way
     is covered by the theorem *)
  Definition fx_w2 : world := Eval vm_compute in step_w (ACmd fx_env fx_commit) fx_w.

  Example fx_retry :
    step_w (ACmd fx_env fx_commit) fx_w = fx_w2 /\
    fx_w2 = ConnectedFacts.ex_w0 /\
    FReachable fx_w2 /\ FInv fx_w2 /\
    map fst (w_refs fx_w2) = [str "main"] /\ w_hlog fx_w2 <> None.
  Proof.
    assert (E : step_w (ACmd fx_env fx_commit) fx_w = fx_w2) by (vm_compute; reflexivity).
    split; [exact E|]. split; [vm_compute; reflexivity|].
    assert (Hf : FReachable fx_w2) by (rewrite <- E; apply FRs; [exact Logic.I | exact fx_freachable]).
    split; [exact Hf|]. split; [exact (freachable_FInv fx_w2 Hf)|].
    split; [vm_compute; reflexivity | vm_compute; discriminate].
  Qed.

  (* every one of the seven crash-prefix worlds of the commit is covered *)
  Example fx_all_prefixes : forall k,
    FReachable (apply_effects (firstn k fx_tr) fx_w0) /\ FInv (apply_effects (firstn k fx_tr) fx_w0).
  Proof.
    intro k.
    assert (Hs : step (ACmd fx_env fx_commit) fx_w0
                 = (step_w (ACmd fx_env fx_commit) fx_w0, snd (fst (step (ACmd fx_env fx_commit) fx_w0)), fx_tr)).
    { vm_compute. reflexivity. }
    assert (Hf : FReachable (apply_effects (firstn k fx_tr) fx_w0)).
    { exact (freachable_crash_step fx_env fx_commit fx_w0 _ _ fx_tr k
               (reachable_freachable fx_w0 fx_w0_reachable) Hs). }
    split; [exact Hf | exact (freachable_FInv _ Hf)].
  Qed.
End Example.

(* ================================================================== *)
Print Assumptions reachable_freachable.
Print Assumptions freachable_crash.
Print Assumptions freachable_iff_frun.
Print Assumptions FInv_fault.
Print Assumptions freachable_FInv.
Print Assumptions freachable_invariants.
Print Assumptions freachable_crash_invariants.
Print Assumptions reachable_no_orphan_commit.
Print Assumptions fx_only_through_fault.
Print Assumptions fx_invariants.
Print Assumptions fx_retry.
