(* Index.v — the staging area: binary file codec, look-ups, updates, and the
   comparison with a tree (internal/store/index.go). *)
From Coq Require Import Strings.Byte.
From Coq Require Import List Bool NArith Arith.
From Goit Require Import Bytes Sha1 Obj Tree.
Import ListNotations.
Local Open Scope N_scope.

(* ---------- codec ---------- *)
Definition idx_magic : bytes := [x44; x49; x52; x43].            (* "DIRC" *)
Definition idx_version : N := 1.

Definition encode_entry (e : entry) : bytes :=
  e_id e ++ be16 (lenN (e_path e) mod 65536) ++ e_path e.

Definition encode_index (es : list entry) : bytes :=
  idx_magic ++ be32 idx_version ++ be32 (N.of_nat (length es) mod 4294967296) ++ flat_map encode_entry es.

(* Index.read: 12-byte header (signature and version are read, not checked),
   then EntryNum times: 20 bytes, u16 length, that many bytes.  Trailing
   bytes are ignored; running out of bytes is an error. *)
Fixpoint decode_entries (n : nat) (b : bytes) : option (list entry) :=
  match n with
  | O => Some []
  | S k =>
      let id := firstn 20 b in
      let b1 := skipn 20 b in
      let l2 := firstn 2 b1 in
      let b2 := skipn 2 b1 in
      if Nat.eqb (length id) 20 && Nat.eqb (length l2) 2 then
        let len := N.to_nat (unbe l2) in
        let p := firstn len b2 in
        if Nat.eqb (length p) len then
          match decode_entries k (skipn len b2) with
          | Some r => Some (mkE id p :: r)
          | None => None
          end
        else None
      else None
  end.

(* A u16-length path needs at least 22 bytes, so the count is bounded by the
   file size before any allocation (decode_entries fails early otherwise). *)
Definition decode_index (b : bytes) : option (list entry) :=
  if Nat.ltb (length b) 12 then None
  else
    let cnt := unbe (firstn 4 (skipn 8 b)) in
    if N.ltb (lenN b) (12 + 22 * cnt) then None
    else decode_entries (N.to_nat cnt) (skipn 12 b).

(* ---------- look-ups ---------- *)
(* Index.GetEntry: binary search over [left, right) *)
Fixpoint bsearch (fuel : nat) (es : list entry) (p : bytes) (left right : nat) : option (nat * entry) :=
  match fuel with
  | O => None
  | S f =>
      let middle := Nat.div (left + right) 2 in
      match nth_error es middle with
      | None => None
      | Some e =>
          if bytes_eqb (e_path e) p then Some (middle, e)
          else
            let '(l', r') := if blt (e_path e) p then (S middle, right) else (left, middle) in
            if Nat.ltb l' r' then bsearch f es p l' r' else None
      end
  end.
Definition get_entry (es : list entry) (p : bytes) : option (nat * entry) :=
  match es with
  | [] => None
  | _ => bsearch (S (length es)) es p 0 (length es)
  end.

(* directory prefix: "<name>/", or the empty prefix for "." *)
Definition dir_prefix (name : bytes) : bytes :=
  if bytes_eqb name [x2e] then [] else name ++ [c_slash].
Definition under_dir (name : bytes) (p : bytes) : bool :=
  let pre := dir_prefix name in
  is_prefix pre p && Nat.ltb (length pre) (length p).

(* GetEntriesByDirectory / IsRegisteredAsDirectory (after the prefix repair) *)
Definition entries_by_dir (es : list entry) (name : bytes) : list entry :=
  filter (fun e => under_dir name (e_path e)) es.
Definition is_dir (es : list entry) (name : bytes) : bool :=
  negb (is_nil (entries_by_dir es name)).

(* ---------- updates ---------- *)
(* sort.Slice by path; modelled as insertion into an already sorted list
   (stable insertion sort; the keys are unique where Goit calls it) *)
Fixpoint insert_sorted (e : entry) (es : list entry) : list entry :=
  match es with
  | [] => [e]
  | x :: r => if blt (e_path e) (e_path x) then e :: es else x :: insert_sorted e r
  end.
Definition sort_entries (es : list entry) : list entry := fold_right insert_sorted [] es.

Fixpoint remove_nth {A} (n : nat) (l : list A) : list A :=
  match n, l with
  | _, [] => []
  | O, _ :: r => r
  | S k, x :: r => x :: remove_nth k r
  end.

(* Index.Update: None = nothing to do (same id already there) *)
Definition idx_update (es : list entry) (id path : bytes) : option (list entry) :=
  match get_entry es path with
  | Some (pos, e) =>
      if bytes_eqb (e_id e) id then None
      else Some (sort_entries (remove_nth pos es ++ [mkE id path]))
  | None => Some (sort_entries (es ++ [mkE id path]))
  end.

(* Index.DeleteEntry: None = not registered (an error in Goit) *)
Definition idx_delete (es : list entry) (path : bytes) : option (list entry) :=
  match get_entry es path with
  | Some (pos, _) => Some (remove_nth pos es)
  | None => None
  end.

(* ---------- comparison with a tree ---------- *)
Inductive dkind := DDeleted | DNew | DModified.
Definition dkind_eqb (a b : dkind) : bool :=
  match a, b with DDeleted, DDeleted | DNew, DNew | DModified, DModified => true | _, _ => false end.

Definition diff_with_tree (es : list entry) (ns : list node) : list (dkind * bytes) :=
  let gone :=
    flat_map (fun g =>
      match get_entry es (e_path g) with
      | None => [(DDeleted, e_path g)]
      | Some (_, e) => if bytes_eqb (e_id e) (e_id g) then [] else [(DModified, e_path e)]
      end) (flatten [] ns) in
  let fresh :=
    flat_map (fun e =>
      match get_node ns (e_path e) with
      | Some n => if is_leaf n then [] else [(DNew, e_path e)]
      | None => [(DNew, e_path e)]
      end) es in
  gone ++ fresh.
