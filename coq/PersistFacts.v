(* PersistFacts.v — C20 and C12 over histories.

   A. What `config` REALLY stores, for every call it accepts (not only for the
      arguments of the C20 domain [ok_key]/[ok_val]): the file the next process
      loads is [cfg_add l sec (eff_key k v) (eff_val k v)] — the key and the
      value as the line-based loader reads them back (tabs removed, split at
      the FIRST '=', both sides trimmed).  Since `config` refuses a key with
      '=', a TAB or white space around it, the key of every ACCEPTED call is
      read back as itself ([accepted_key_is_effective]): the file is
      [cfg_add l sec k (eff_val k v)].
   B. A setting PERSISTS: after any later history in which no accepted
      `config` call on the same file has the same section and the same key,
      [sec.key] still maps to the stored value; more generally every
      (section, key) that no later accepted call names is as before; an
      accepted call alters no other key ([config_never_alters_another_key]).
   C. The identity the loaded context yields (local over global).
   D. C12 on reachable repositories: `commit` succeeds and `log` shows the
      configured name and e-mail, the instant and the offset of the call, and
      exactly the message given, at once and for ever.
   E. B and D together: the name `log` shows is the value given to the last
      accepted `config user.name`. *)
From Coq Require Import Strings.String Strings.Byte.
From Coq Require Import List Bool NArith ZArith Arith Lia ZifyBool ZifyNat ZifyN.
From Goit Require Import Bytes Sha1 Obj Tree Index Regex GoRegex Commit Reflog Config Ignore World Repo.
From Goit Require Import BytesFacts MonadFacts BranchFacts Inv ConfigFacts.
From Goit Require RegexFacts ObjFacts CommitFacts LogFacts ChainFacts LogView LogViewFacts.
From Goit Require ExactFacts TotalFacts CommitCmdFacts ConfigCmdFacts SnapshotFacts ConnectedFacts HeadFacts CtxFacts.
From Goit Require BranchReachFacts.
Import ListNotations.

#[local] Arguments sha1 : simpl never.

(* ================================================================== *)
(** * A. What an accepted `config` call stores *)

(* the key and the value the loader reads back from the line
   "<TAB>k = v" that [cfg_render] writes for the pair (k, v) *)
Definition eff_kv (k v : bytes) : bytes * bytes :=
  match split1 x3d (remove_tabs (CtxFacts.rd_kv_line (k, v))) with
  | (a, Some b) => (trim_space a, trim_space b)
  | (a, None) => (trim_space a, [])
  end.
Definition eff_key (k v : bytes) : bytes := fst (eff_kv k v).
Definition eff_val (k v : bytes) : bytes := snd (eff_kv k v).

Lemma ok_val_drop_cr : forall v, ok_val v -> drop_cr v = v.
Proof.
  intros v (_ & _ & Ht). apply drop_cr_id.
  destruct v as [|v0 vr]; [left; reflexivity|right].
  apply trim_space_fix in Ht.
  pose proof (trimmed_last (v0 :: vr) Ht) as Hl.
  intro Hcr. rewrite Hcr, is_space_cr in Hl.
  assert (Hf : true = false) by (apply Hl; discriminate). discriminate Hf.
Qed.

Lemma rd_kv_line_ok : forall kv, ok_kv kv -> CtxFacts.rd_kv_line kv = kv_line kv.
Proof.
  intros [k v] [_ Hv]. cbn [fst snd] in Hv. unfold CtxFacts.rd_kv_line, kv_line. cbn [fst snd].
  rewrite (ok_val_drop_cr v Hv). cbn [app]. f_equal. rewrite <- app_assoc. reflexivity.
Qed.

Lemma rd_lines_wf : forall c, Forall wf_sec c -> CtxFacts.rd_lines c = cfg_lines c.
Proof.
  induction c as [|[s m] c IH]; intro Hall; [reflexivity|].
  apply Forall_cons_iff in Hall. destruct Hall as [(_ & _ & Hkvs) Hall]. cbn [snd] in Hkvs.
  unfold CtxFacts.rd_lines, cfg_lines in *. cbn [flat_map]. rewrite (IH Hall).
  unfold sec_lines. cbn [fst snd app]. f_equal. f_equal.
  apply map_ext_in. intros kv Hin. apply rd_kv_line_ok.
  rewrite Forall_forall in Hkvs. apply Hkvs. exact Hin.
Qed.

Lemma rd_lines_app : forall a b, CtxFacts.rd_lines (a ++ b) = CtxFacts.rd_lines a ++ CtxFacts.rd_lines b.
Proof. intros a b. unfold CtxFacts.rd_lines. apply flat_map_app. Qed.

(* a key in the C20 domain is read back as itself, whatever the value *)
Lemma eff_kv_ok_key : forall k v, ok_key k ->
  eff_kv k v = (k, trim_space (c_sp :: remove_tabs (drop_cr v))).
Proof.
  intros k v [(_ & Hkt & Htr) Hke]. unfold eff_kv, CtxFacts.rd_kv_line. cbn [fst snd].
  change ((c_tab :: k ++ [c_sp; x3d; c_sp]) ++ drop_cr v)
    with ([c_tab] ++ (k ++ [c_sp; x3d; c_sp]) ++ drop_cr v).
  rewrite !remove_tabs_app. rewrite (remove_tabs_id k Hkt).
  change (remove_tabs [c_tab]) with (@nil byte).
  change (remove_tabs [c_sp; x3d; c_sp]) with [c_sp; x3d; c_sp].
  cbn [app]. rewrite <- app_assoc. cbn [app].
  change (k ++ c_sp :: x3d :: c_sp :: remove_tabs (drop_cr v))
    with (k ++ [c_sp] ++ x3d :: c_sp :: remove_tabs (drop_cr v)).
  rewrite app_assoc. rewrite split1_app_sep.
  - f_equal. apply trim_space_snoc_sp. apply trim_space_fix. exact Htr.
  - apply not_in_app; [exact Hke|]. apply not_in_cons; [discriminate|]. intros [].
Qed.

(* in the C20 domain the pair is read back as it was given *)
Lemma eff_kv_ok : forall k v, ok_key k -> ok_val v -> eff_kv k v = (k, v).
Proof.
  intros k v Hk Hv. rewrite (eff_kv_ok_key k v Hk). rewrite (ok_val_drop_cr v Hv).
  destruct Hv as (_ & Hvt & Htr). rewrite (remove_tabs_id v Hvt).
  f_equal. apply trim_space_sp_cons. apply trim_space_fix. exact Htr.
Qed.

Lemma eff_key_ok : forall k v, ok_key k -> eff_key k v = k.
Proof. intros k v Hk. unfold eff_key. rewrite (eff_kv_ok_key k v Hk). reflexivity. Qed.

Lemma eff_val_ok : forall k v, ok_key k -> ok_val v -> eff_val k v = v.
Proof. intros k v Hk Hv. unfold eff_val. rewrite (eff_kv_ok k v Hk Hv). reflexivity. Qed.

(* under such a key ANY value is read back without a final CR, without TABs
   and without the white space around it *)
Lemma eff_val_ok_key : forall k v, ok_key k -> eff_val k v = trim_space (remove_tabs (drop_cr v)).
Proof. intros k v Hk. unfold eff_val. rewrite (eff_kv_ok_key k v Hk). reflexivity. Qed.

(* the key of every call that passes the guard of `config` is in the C20
   domain, hence read back as itself: an accepted call sets the key it names *)
Lemma accepted_key_ok : forall key v s k,
  split_all x2e key = [s; k] -> config_args_ok s k key v = true -> ok_key k.
Proof.
  intros key v s k Hsp Hok. apply (ConfigCmdFacts.config_args_ok_iff key v s k Hsp) in Hok.
  apply Hok.
Qed.

Theorem accepted_key_is_effective : forall key v s k,
  split_all x2e key = [s; k] -> config_args_ok s k key v = true -> eff_key k v = k.
Proof. intros key v s k Hsp Hok. apply eff_key_ok. exact (accepted_key_ok key v s k Hsp Hok). Qed.

(* the loader on the line of ANY pair without line feed *)
Lemma load_raw_line : forall (k v : bytes) L (acc : cfg) s (m1 : kvs),
  ~ In c_nl k -> ~ In c_nl v -> ~ In s (map fst acc) ->
  cfg_load_lines (CtxFacts.rd_kv_line (k, v) :: L) (acc ++ [(s, m1)]) (Some s)
  = cfg_load_lines L (acc ++ [(s, kv_set m1 (eff_key k v) (eff_val k v))]) (Some s).
Proof.
  intros k v L acc s m1 Hk Hv Hs.
  destruct (CtxFacts.rd_kv_line_like (k, v) (conj Hk Hv)) as (Hnl & [t Et] & Heq).
  unfold eff_key, eff_val, eff_kv.
  remember (CtxFacts.rd_kv_line (k, v)) as ln eqn:Eln.
  cbn [cfg_load_lines].
  assert (Hre : re_search re_identRegexp ln = false).
  { destruct (re_search re_identRegexp ln) eqn:E; [|reflexivity].
    apply (RegexFacts.ident_spec ln Hnl) in E. destruct E as [m0 Hm0].
    rewrite Et in Hm0. cbn [app] in Hm0. discriminate Hm0. }
  rewrite Hre.
  assert (Hblank : is_nil (trim_space ln) = false).
  { assert (Hin : In x3d (trim_space ln)).
    { apply trim_space_keeps; [exact Heq | exact is_space_eq]. }
    destruct (trim_space ln) as [|x0 r0]; [destruct Hin | reflexivity]. }
  rewrite Hblank.
  assert (Hin : In x3d (remove_tabs ln)).
  { unfold remove_tabs. apply filter_In. split; [exact Heq | reflexivity]. }
  destruct (split1 x3d (remove_tabs ln)) as [a [b|]] eqn:Esp.
  - cbn [fst snd].
    rewrite sec_get_aget, (aget_app_notin kvs acc [(s, m1)] s Hs).
    cbn [aget]. rewrite bytes_eqb_refl.
    rewrite sec_set_aset, (aset_app_notin kvs acc [(s, m1)] s _ Hs).
    cbn [aset]. rewrite bytes_eqb_refl. reflexivity.
  - apply split1_inv_none in Esp. destruct Esp as [Ea Hna]. rewrite Ea in Hin. contradiction.
Qed.

(* [ConfigFacts.load_cfg] with lines left to read *)
Lemma load_cfg_k : forall (rest acc : cfg) cur L,
  Forall wf_sec rest -> NoDup (map fst (acc ++ rest)) ->
  exists cur', cfg_load_lines (cfg_lines rest ++ L) acc cur = cfg_load_lines L (acc ++ rest) cur'.
Proof.
  intro rest. induction rest as [|[s m] rest' IH]; intros acc cur L Hall Hnd.
  - exists cur. rewrite app_nil_r. reflexivity.
  - apply Forall_cons_iff in Hall. destruct Hall as [[Hsec [Hndm Hkvs]] Hall].
    cbn [fst snd] in Hsec, Hndm, Hkvs.
    assert (Hs : ~ In s (map fst acc)).
    { rewrite map_app in Hnd. cbn [map fst] in Hnd.
      apply NoDup_remove_2 in Hnd. intro Hin. apply Hnd. apply in_or_app. left. exact Hin. }
    assert (Happ : acc ++ (s, m) :: rest' = (acc ++ [(s, m)]) ++ rest').
    { rewrite <- app_assoc. reflexivity. }
    assert (Hnd' : NoDup (map fst ((acc ++ [(s, m)]) ++ rest'))).
    { rewrite <- Happ. exact Hnd. }
    destruct (IH (acc ++ [(s, m)]) (Some s) L Hall Hnd') as [cur' Hc].
    exists cur'.
    unfold cfg_lines. cbn [flat_map]. unfold sec_lines at 1. cbn [fst snd].
    rewrite <- app_assoc. cbn [app].
    rewrite (load_sec_line s _ acc cur Hsec Hs).
    rewrite (load_kvs m [] acc s _ Hkvs Hndm Hs). cbn [app].
    rewrite Happ. exact Hc.
Qed.

Lemma aget_split : forall (V : Type) (m : list (bytes * V)) k v,
  aget m k = Some v -> exists m1 m2, m = m1 ++ (k, v) :: m2 /\ ~ In k (map fst m1).
Proof.
  intros V m. induction m as [|[k' v'] r IH]; intros k v Hg; [discriminate Hg|].
  cbn [aget] in Hg. destruct (bytes_eqb k' k) eqn:E.
  - apply bytes_eqb_eq in E. injection Hg as Hv. subst k' v'.
    exists [], r. split; [reflexivity | intros []].
  - destruct (IH k v Hg) as (m1 & m2 & Em & Hn). exists ((k', v') :: m1), m2. split.
    + rewrite Em. reflexivity.
    + cbn [map fst]. intros [Hk|Hin]; [|exact (Hn Hin)].
      apply bytes_eqb_neq in E. exact (E Hk).
Qed.

Lemma aset_split : forall (V : Type) (m1 m2 : list (bytes * V)) k v0 v,
  ~ In k (map fst m1) -> aset (m1 ++ (k, v0) :: m2) k v = m1 ++ (k, v) :: m2.
Proof.
  intros V m1 m2 k v0 v Hn. rewrite (aset_app_notin V m1 _ k v Hn).
  cbn [aset]. rewrite bytes_eqb_refl. reflexivity.
Qed.

Lemma nodup_app_l : forall (A : Type) (a b : list A), NoDup (a ++ b) -> NoDup a.
Proof.
  intros A a b. induction a as [|x a IH]; intro H; [constructor|].
  cbn [app] in H. apply NoDup_cons_iff in H. destruct H as [Hx H]. constructor.
  - intro Hin. apply Hx. apply in_or_app. left. exact Hin.
  - apply IH. exact H.
Qed.

Lemma map_rd_ok : forall m, Forall ok_kv m -> map CtxFacts.rd_kv_line m = map kv_line m.
Proof.
  intros m Hall. apply map_ext_in. intros kv Hin. apply rd_kv_line_ok.
  rewrite Forall_forall in Hall. apply Hall. exact Hin.
Qed.

Lemma rd_lines_cons : forall s m c,
  CtxFacts.rd_lines ((s, m) :: c) = (sec_line s :: map CtxFacts.rd_kv_line m) ++ CtxFacts.rd_lines c.
Proof. reflexivity. Qed.

Lemma map_fst_mid : forall (V : Type) (l1 l2 : list (bytes * V)) s m m',
  map fst ((l1 ++ [(s, m')]) ++ l2) = map fst (l1 ++ (s, m) :: l2).
Proof. intros V l1 l2 s m m'. rewrite <- app_assoc, !map_app. reflexivity. Qed.

(* MAIN (A): the file `config` writes for ANY pair that passes its guard
   loads as the configuration in which the pair the loader reads back has
   been set *)
Theorem cfg_add_reload : forall l s (k v : bytes),
  wf_cfg l -> ok_sec s -> ~ In c_nl k -> ~ In c_nl v ->
  cfg_load (cfg_render (cfg_add l s k v)) = Some (cfg_add l s (eff_key k v) (eff_val k v)).
Proof.
  intros l s k v [Hnd Hall] Hsec Hk Hv.
  assert (Hrd : CtxFacts.renderable (cfg_add l s k v)).
  { apply CtxFacts.cfg_add_renderable;
      [apply CtxFacts.wf_renderable; split; assumption
      | exact (proj1 Hsec) | exact (proj2 Hsec) | exact Hk | exact Hv]. }
  unfold cfg_load. rewrite <- (app_nil_r (cfg_render (cfg_add l s k v))).
  rewrite (CtxFacts.scan_rd_cfg _ [] Hrd). rewrite scan_lines_nil, app_nil_r.
  clear Hrd.
  remember (eff_key k v) as ek eqn:Eek. remember (eff_val k v) as ev eqn:Eev.
  unfold cfg_add. rewrite !sec_get_aget.
  destruct (aget l s) as [m|] eqn:Es.
  - (* the section exists *)
    destruct (aget_split kvs l s m Es) as (l1 & l2 & El & Hn1). subst l.
    apply Forall_app in Hall. destruct Hall as [Hall1 Hall2].
    apply Forall_cons_iff in Hall2. destruct Hall2 as [(_ & Hndm & Hkvs) Hall2].
    cbn [fst snd] in Hndm, Hkvs.
    rewrite !sec_set_aset, !(aset_split kvs l1 l2 s m _ Hn1).
    rewrite rd_lines_app, rd_lines_cons, (rd_lines_wf l1 Hall1), (rd_lines_wf l2 Hall2).
    assert (Hnd1 : NoDup (map fst ([] ++ l1))).
    { cbn [app]. rewrite map_app in Hnd. exact (nodup_app_l _ _ _ Hnd). }
    destruct (load_cfg_k l1 [] None
                ((sec_line s :: map CtxFacts.rd_kv_line (kv_set m k v)) ++ cfg_lines l2) Hall1 Hnd1)
      as [cur' Hc].
    rewrite Hc. clear Hc. cbn [app].
    rewrite (load_sec_line s _ l1 cur' Hsec Hn1).
    assert (Hfin : forall m', cfg_load_lines (cfg_lines l2) (l1 ++ [(s, m')]) (Some s)
                              = Some (l1 ++ (s, m') :: l2)).
    { intro m'. rewrite (load_cfg l2 (l1 ++ [(s, m')]) (Some s) Hall2).
      - rewrite <- app_assoc. reflexivity.
      - rewrite (map_fst_mid kvs l1 l2 s m m'). exact Hnd. }
    rewrite !kv_set_aset.
    destruct (aget m k) as [v0|] eqn:Ek.
    + (* the key exists: it is a key of the C20 domain, read back as itself *)
      destruct (aget_split bytes m k v0 Ek) as (m1 & m2 & Em & Hnk). subst m.
      apply Forall_app in Hkvs. destruct Hkvs as [Hkvs1 Hkvs2].
      apply Forall_cons_iff in Hkvs2. destruct Hkvs2 as [[Hkk _] Hkvs2]. cbn [fst] in Hkk.
      assert (Eek' : ek = k) by (rewrite Eek; apply eff_key_ok; exact Hkk).
      rewrite Eek'.
      rewrite !(aset_split bytes m1 m2 k v0 _ Hnk).
      rewrite map_app. cbn [map]. rewrite (map_rd_ok m1 Hkvs1), (map_rd_ok m2 Hkvs2).
      rewrite <- app_assoc. cbn [app].
      assert (Hndm1 : NoDup (map fst ([] ++ m1))).
      { cbn [app]. rewrite map_app in Hndm. exact (nodup_app_l _ _ _ Hndm). }
      rewrite (load_kvs m1 [] l1 s _ Hkvs1 Hndm1 Hn1). cbn [app].
      rewrite (load_raw_line k v _ l1 s m1 Hk Hv Hn1).
      rewrite <- Eek, <- Eev, Eek'.
      rewrite kv_set_aset, (aset_notin bytes m1 k ev Hnk).
      assert (Hndm2 : NoDup (map fst ((m1 ++ [(k, ev)]) ++ m2))).
      { rewrite (map_fst_mid bytes m1 m2 k v0 ev). exact Hndm. }
      rewrite (load_kvs m2 (m1 ++ [(k, ev)]) l1 s _ Hkvs2 Hndm2 Hn1).
      rewrite Hfin. rewrite <- app_assoc. reflexivity.
    + (* a new key of an existing section: the pair is the last line of the section *)
      assert (Hnk : ~ In k (map fst m)) by (apply aget_none_iff; exact Ek).
      rewrite (aset_notin bytes m k v Hnk).
      rewrite map_app. cbn [map]. rewrite (map_rd_ok m Hkvs).
      rewrite <- app_assoc. cbn [app].
      assert (Hndm0 : NoDup (map fst ([] ++ m))) by exact Hndm.
      rewrite (load_kvs m [] l1 s _ Hkvs Hndm0 Hn1). cbn [app].
      rewrite (load_raw_line k v _ l1 s m Hk Hv Hn1).
      rewrite <- Eek, <- Eev. rewrite Hfin. rewrite kv_set_aset. reflexivity.
  - (* a new section, written last *)
    assert (Hns : ~ In s (map fst l)) by (apply aget_none_iff; exact Es).
    rewrite !sec_set_aset, !(aset_notin kvs l s _ Hns).
    rewrite rd_lines_app, rd_lines_cons, (rd_lines_wf l Hall).
    assert (Hnd0 : NoDup (map fst ([] ++ l))) by exact Hnd.
    destruct (load_cfg_k l [] None
                ((sec_line s :: map CtxFacts.rd_kv_line [(k, v)]) ++ CtxFacts.rd_lines []) Hall Hnd0)
      as [cur' Hc].
    rewrite Hc. clear Hc. cbn [app map].
    rewrite (load_sec_line s _ l cur' Hsec Hns).
    change (CtxFacts.rd_lines []) with (@nil bytes). cbn [app].
    etransitivity; [exact (load_raw_line k v [] l s [] Hk Hv Hns)|].
    rewrite <- Eek, <- Eev. reflexivity.
Qed.

(* ... hence what the next process loads after an accepted `config` call *)
Corollary cfg_written_eff : forall l s (k v : bytes),
  wf_cfg l -> ok_sec s -> ~ In c_nl k -> ~ In c_nl v ->
  cfg_written (cfg_add l s k v) = CfgFile (Some (cfg_add l s (eff_key k v) (eff_val k v)))
  /\ wf_cfg (cfg_add l s (eff_key k v) (eff_val k v)).
Proof.
  intros l s k v Hwf Hs Hk Hv. pose proof (cfg_add_reload l s k v Hwf Hs Hk Hv) as E.
  split.
  - unfold cfg_written. rewrite E. reflexivity.
  - exact (ConfigCmdFacts.cfg_load_wf _ _ E).
Qed.

(* ================================================================== *)
(** * B. A setting persists *)

Notation CfgLoads := ConfigCmdFacts.CfgGood.

(* one of the two files: [true] is ~/.goitconfig, [false] is .goit/config *)
Definition file_of (glob : bool) (w : world) : cfgst := if glob then w_gcfg w else w_lcfg w.

(* what the next process finds under <sec>.<k> in that file *)
Definition setting (glob : bool) (w : world) (sec k : bytes) : option bytes :=
  match cfg_of (file_of glob w) with
  | Some c => cfg_lookup c sec k
  | None => None
  end.

(* the file, the section and the key a `config` call names when its arguments
   pass the guard of the command (the key as given: it is the key the loader
   reads back, [accepted_key_is_effective]) *)
Definition config_target (c : cmd) : option (bool * bytes * bytes) :=
  match c with
  | CConfig g [key; v] =>
      match split_all x2e key with
      | [s; k] => if config_args_ok s k key v then Some (g, s, k) else None
      | _ => None
      end
  | _ => None
  end.

Definition names (glob : bool) (sec k : bytes) (a : action) : bool :=
  match a with
  | ACmd _ c =>
      match config_target c with
      | Some (g, s', k') => Bool.eqb g glob && bytes_eqb s' sec && bytes_eqb k' k
      | None => false
      end
  | AEdit _ => false
  end.

(* no `config` call of the history names that file, section and key.  (A
   syntactic, decidable condition on the actions: a call whose arguments pass
   the guard counts even if it is refused for another reason, e.g. a context
   that does not load; a call the guard refuses writes nothing and does not
   count.) *)
Definition no_reconfig (glob : bool) (sec k : bytes) (h : list action) : bool :=
  forallb (fun a => negb (names glob sec k a)) h.

Lemma no_reconfig_cons : forall glob sec k a h,
  no_reconfig glob sec k (a :: h) = true <-> names glob sec k a = false /\ no_reconfig glob sec k h = true.
Proof.
  intros glob sec k a h. unfold no_reconfig. cbn [forallb].
  rewrite andb_true_iff, negb_true_iff. reflexivity.
Qed.

Lemma no_reconfig_app : forall glob sec k h1 h2,
  no_reconfig glob sec k (h1 ++ h2) = true <->
  no_reconfig glob sec k h1 = true /\ no_reconfig glob sec k h2 = true.
Proof.
  intros glob sec k h1 h2. unfold no_reconfig. rewrite forallb_app, andb_true_iff. reflexivity.
Qed.

(* ---------- the repository stays initialised ---------- *)
Lemma inited_effect : forall e w, w_inited w = true -> w_inited (apply_effect e w) = true.
Proof.
  intros e w Hi. destruct e; autorewrite with wfields; try exact Hi; try reflexivity.
Qed.

Lemma inited_effects : forall tr w, w_inited w = true -> w_inited (apply_effects tr w) = true.
Proof.
  intro tr. induction tr as [|e tr IH]; intros w Hi; [exact Hi|].
  rewrite apply_effects_cons. apply IH. apply inited_effect. exact Hi.
Qed.

Lemma inited_step : forall a w, w_inited w = true -> w_inited (step_w a w) = true.
Proof.
  intros a w Hi. pose proof (SnapshotFacts.step_w_eq a w) as H. destruct a as [e c|u].
  - destruct H as [tr Htr]. rewrite Htr. apply inited_effects. exact Hi.
  - rewrite H, w_inited_apply_edit. exact Hi.
Qed.

Lemma inited_run : forall h w, w_inited w = true -> w_inited (run h w) = true.
Proof.
  intro h. induction h as [|a h IH]; intros w Hi; [exact Hi|].
  rewrite run_cons. apply IH. apply inited_step. exact Hi.
Qed.

(* a command that answers Ok, other than `init`, ran in an initialised
   repository whose context loads *)
Lemma ok_step_loaded : forall e c w w' out tr,
  c <> CInit -> step (ACmd e c) w = (w', OOk out, tr) ->
  w_inited w = true /\ exists x, ctx_of w = Some x.
Proof.
  intros e c w w' out tr Hc Hstep.
  destruct (w_inited w) eqn:Ei.
  - split; [reflexivity|]. destruct (ctx_of w) as [x|] eqn:Ex; [exists x; reflexivity|].
    rewrite (step_not_loaded e c w Hc (or_intror Ex)) in Hstep. discriminate Hstep.
  - rewrite (step_not_loaded e c w Hc (or_introl Ei)) in Hstep. discriminate Hstep.
Qed.

(* ---------- `config`, for every call: refused, or the key is set to the value read back ---------- *)
Lemma config_step_cases : forall e g args w,
  w_inited w = true -> CfgLoads w ->
  step (ACmd e (CConfig g args)) w = (w, OErr, []) \/
  exists key v s k x tr,
    args = [key; v] /\ split_all x2e key = [s; k] /\ config_args_ok s k key v = true /\
    ctx_of w = Some x /\
    wf_cfg (if g then x_g x else x_l x) /\
    wf_cfg (cfg_add (if g then x_g x else x_l x) s k (eff_val k v)) /\
    cfg_of (file_of g w) = Some (if g then x_g x else x_l x) /\
    step (ACmd e (CConfig g args)) w = (apply_effects tr w, OOk [], tr) /\
    Forall ConfigCmdFacts.cfg_eff tr /\
    file_of g (apply_effects tr w)
      = CfgFile (Some (cfg_add (if g then x_g x else x_l x) s k (eff_val k v))) /\
    file_of (negb g) (apply_effects tr w) = file_of (negb g) w.
Proof.
  intros e g args w Hi Hgood.
  destruct (ctx_of w) as [x|] eqn:Ex;
    [|left; apply step_not_loaded; [discriminate | right; exact Ex]].
  rewrite (ConfigCmdFacts.step_config_eq e g args w x Hi Ex).
  unfold ConfigCmdFacts.config_trace.
  destruct args as [|key [|v [|a3 ar]]]; try (left; reflexivity).
  destruct (split_all x2e key) as [|s [|k [|s3 sr]]] eqn:Esp; try (left; reflexivity).
  destruct (config_args_ok s k key v) eqn:Eok; [|left; reflexivity].
  right.
  destruct (ConfigCmdFacts.CfgGood_ctx w x Hgood Ex) as [Hwl Hwg].
  destruct (ConfigCmdFacts.ctx_of_cfgs w x Ex) as [Hxl Hxg].
  pose proof Eok as Hargs. apply (ConfigCmdFacts.config_args_ok_iff key v s k Esp) in Hargs.
  destruct Hargs as (Hne & Hs & Hkok & Hv).
  pose proof (proj1 (proj1 Hkok)) as Hk. pose proof (eff_key_ok k v Hkok) as Ekk.
  destruct g.
  - destruct (cfg_written_eff (x_g x) s k v Hwg (conj Hne Hs) Hk Hv) as [Ew Hwf'].
    rewrite Ekk in Ew, Hwf'. rewrite Ew.
    eexists key, v, s, k, x, _.
    split; [reflexivity|]. split; [exact Esp|]. split; [exact Eok|]. split; [reflexivity|].
    split; [exact Hwg|]. split; [exact Hwf'|]. split; [exact Hxg|]. split; [reflexivity|].
    split; [|split].
    + apply Forall_app. split; [destruct (w_gcfg w); repeat constructor | repeat constructor].
    + rewrite apply_effects_app. reflexivity.
    + rewrite apply_effects_app. cbn [negb file_of apply_effects fold_left apply_effect].
      destruct (w_gcfg w); reflexivity.
  - destruct (cfg_written_eff (x_l x) s k v Hwl (conj Hne Hs) Hk Hv) as [Ew Hwf'].
    rewrite Ekk in Ew, Hwf'. rewrite Ew.
    eexists key, v, s, k, x, _.
    split; [reflexivity|]. split; [exact Esp|]. split; [exact Eok|]. split; [reflexivity|].
    split; [exact Hwl|]. split; [exact Hwf'|]. split; [exact Hxl|]. split; [reflexivity|].
    split; [|split].
    + repeat constructor.
    + reflexivity.
    + reflexivity.
Qed.

(* every command but `init` and `config` leaves both files alone *)
Lemma files_kept_other : forall e c w,
  c <> CInit -> (forall g args, c <> CConfig g args) ->
  w_lcfg (step_w (ACmd e c) w) = w_lcfg w /\ w_gcfg (step_w (ACmd e c) w) = w_gcfg w.
Proof.
  intros e c w Hni Hnc. unfold step_w.
  destruct (step (ACmd e c) w) as [[w' o] tr] eqn:Est. cbn [fst].
  destruct (ConfigCmdFacts.other_commands_keep_configs e c w w' o tr Hni Hnc Est) as (El & Eg & _).
  split; assumption.
Qed.

(* one action that does not name <sec>.<k> of that file leaves it as it is *)
Lemma setting_step : forall glob sec k a w,
  w_inited w = true -> CfgLoads w -> names glob sec k a = false ->
  setting glob (step_w a w) sec k = setting glob w sec k.
Proof.
  intros glob sec k a w Hi Hgood Hn. destruct a as [e c|u].
  - assert (Hother : c <> CInit -> (forall g args, c <> CConfig g args) ->
                     setting glob (step_w (ACmd e c) w) sec k = setting glob w sec k).
    { intros Hni Hnc. destruct (files_kept_other e c w Hni Hnc) as [El Eg].
      unfold setting, file_of. rewrite El, Eg. reflexivity. }
    destruct c; try (apply Hother; [discriminate | intros; discriminate]).
    + (* init: refused, the repository exists *)
      unfold step_w. rewrite (TotalFacts.init_twice_refused e w Hi). reflexivity.
    + (* config *)
      destruct (config_step_cases e global args w Hi Hgood)
        as [Href | (key & v & s' & k' & x & tr & Ea & Esp & Eok & Ex & Hwf & Hwf' & Hfile & Hstep & _ & Hnew & Hoth)].
      * unfold step_w. rewrite Href. reflexivity.
      * unfold step_w. rewrite Hstep. cbn [fst].
        subst args. cbn [names config_target] in Hn. rewrite Esp, Eok in Hn.
        destruct (Bool.eqb global glob) eqn:Eg.
        -- apply Bool.eqb_prop in Eg. subst glob. cbn [andb] in Hn.
           unfold setting. rewrite Hnew, Hfile. cbn [cfg_of].
           apply cfg_add_frame. intro Heq. injection Heq as Hs Hk. subst sec k.
           rewrite !bytes_eqb_refl in Hn. discriminate Hn.
        -- assert (Eglob : glob = negb global).
           { destruct global, glob; try discriminate Eg; reflexivity. }
           unfold setting. rewrite Eglob, Hoth. reflexivity.
  - unfold step_w. cbn [step fst]. unfold setting, file_of.
    rewrite w_lcfg_apply_edit, w_gcfg_apply_edit. reflexivity.
Qed.

(* MAIN (B1): whatever a history does, a (file, section, key) that none of its
   `config` calls names is, at the end, what it was at the beginning *)
Theorem setting_run : forall h glob sec k w,
  w_inited w = true -> CfgLoads w -> no_reconfig glob sec k h = true ->
  setting glob (run h w) sec k = setting glob w sec k.
Proof.
  intro h. induction h as [|a h IH]; intros glob sec k w Hi Hgood Hno; [reflexivity|].
  apply no_reconfig_cons in Hno. destruct Hno as [Ha Hno].
  rewrite run_cons. rewrite (IH glob sec k (step_w a w)).
  - apply setting_step; assumption.
  - apply inited_step. exact Hi.
  - apply CtxFacts.cfgs_load_step. exact Hgood.
  - exact Hno.
Qed.

(* what an accepted call leaves behind *)
Theorem config_accepted : forall e glob key v sec k w0 w1 out tr,
  CfgLoads w0 -> split_all x2e key = [sec; k] ->
  step (ACmd e (CConfig glob [key; v])) w0 = (w1, OOk out, tr) ->
  out = [] /\
  setting glob w1 sec k = Some (eff_val k v) /\
  (forall s' k', (s', k') <> (sec, k) -> setting glob w1 s' k' = setting glob w0 s' k') /\
  file_of (negb glob) w1 = file_of (negb glob) w0 /\
  w_inited w1 = true /\ CfgLoads w1.
Proof.
  intros e glob key v sec k w0 w1 out tr Hgood Hsp Hstep.
  assert (Hnc : CConfig glob [key; v] <> CInit) by discriminate.
  destruct (ok_step_loaded e _ w0 w1 out tr Hnc Hstep) as [Hi _].
  assert (Hgood1 : CfgLoads w1).
  { pose proof (CtxFacts.cfgs_load_step (ACmd e (CConfig glob [key; v])) w0 Hgood) as H.
    unfold step_w in H. rewrite Hstep in H. exact H. }
  destruct (config_step_cases e glob [key; v] w0 Hi Hgood)
    as [Href | (key' & v' & s' & k' & x & tr' & Ea & Esp & Eok & Ex & Hwf & Hwf' & Hfile & Hstep' & Heff & Hnew & Hoth)].
  - rewrite Href in Hstep. discriminate Hstep.
  - injection Ea as <- <-. rewrite Hsp in Esp. injection Esp as <- <-.
    rewrite Hstep' in Hstep. injection Hstep as Hw1 Hout Htr. subst w1 out tr'.
    split; [reflexivity|]. split; [|split; [|split; [|split]]].
    + unfold setting. rewrite Hnew. cbn [cfg_of]. apply cfg_add_get.
    + intros s' k' Hne. unfold setting. rewrite Hnew, Hfile. cbn [cfg_of].
      apply cfg_add_frame. exact Hne.
    + exact Hoth.
    + apply inited_effects. exact Hi.
    + exact Hgood1.
Qed.

(* a section of one of the two files, as the next process finds it *)
Definition has_section (glob : bool) (w : world) (sec : bytes) : Prop :=
  exists c, cfg_of (file_of glob w) = Some c /\ sec_get c sec <> None.

(* no section is lost, and the section named exists afterwards *)
Theorem config_accepted_sections : forall e glob key v sec k w0 w1 out tr,
  CfgLoads w0 -> split_all x2e key = [sec; k] ->
  step (ACmd e (CConfig glob [key; v])) w0 = (w1, OOk out, tr) ->
  has_section glob w1 sec /\
  (forall s', has_section glob w0 s' -> has_section glob w1 s') /\
  (forall s', s' <> sec -> has_section glob w1 s' -> has_section glob w0 s').
Proof.
  intros e glob key v sec k w0 w1 out tr Hgood Hsp Hstep.
  assert (Hnc : CConfig glob [key; v] <> CInit) by discriminate.
  destruct (ok_step_loaded e _ w0 w1 out tr Hnc Hstep) as [Hi _].
  destruct (config_step_cases e glob [key; v] w0 Hi Hgood)
    as [Href | (key' & v' & s' & k' & x & tr' & Ea & Esp & Eok & Ex & Hwf & Hwf' & Hfile & Hstep' & Heff & Hnew & Hoth)].
  - rewrite Href in Hstep. discriminate Hstep.
  - injection Ea as <- <-. rewrite Hsp in Esp. injection Esp as <- <-.
    rewrite Hstep' in Hstep. injection Hstep as Hw1 Hout Htr. subst w1 out tr'.
    unfold has_section. rewrite Hnew, Hfile. cbn [cfg_of].
    split; [|split].
    + eexists. split; [reflexivity|]. intro Hnone.
      pose proof (cfg_add_get (if glob then x_g x else x_l x) sec k (eff_val k v)) as Hget.
      unfold cfg_lookup in Hget. rewrite Hnone in Hget. discriminate Hget.
    + intros s0 (c & Ec & Hc). injection Ec as <-. eexists. split; [reflexivity|].
      apply cfg_add_keeps_sections. exact Hc.
    + intros s0 Hne (c & Ec & Hc). injection Ec as <-. eexists. split; [reflexivity|].
      rewrite (cfg_add_sections _ sec k (eff_val k v) s0 Hne) in Hc. exact Hc.
Qed.

(* ---------- on reachable repositories ---------- *)

(* a key the loader would read back as another key is never accepted *)
Theorem accepted_config_key_ok : forall e glob key v w0 w1 out tr sec k,
  split_all x2e key = [sec; k] ->
  step (ACmd e (CConfig glob [key; v])) w0 = (w1, OOk out, tr) ->
  ok_key k /\ eff_key k v = k.
Proof.
  intros e glob key v w0 w1 out tr sec k Hsp Hstep.
  assert (Hk : ok_key k).
  { destruct (config_args_ok sec k key v) eqn:Eok; [exact (accepted_key_ok key v sec k Hsp Eok)|].
    rewrite (ConfigCmdFacts.hostile_config_refused e glob key v w0) in Hstep; [discriminate Hstep|].
    intros sec' k' Hsp'. rewrite Hsp in Hsp'. injection Hsp' as <- <-. exact Eok. }
  split; [exact Hk | exact (eff_key_ok k v Hk)].
Qed.

(* MAIN (B0), C20 for EVERY accepted call.  `config [--global] <sec>.<k> <v>`
   answered Ok in a reachable repository: the next process finds under
   <sec>.<k> the value as the loader reads it back, EVERY other key of every
   section of that file is what it was, no section is lost, and the other file
   is untouched.  (Before `config` refused keys with '=', a TAB or white space
   around them this was false: `config "user. name" X` and
   `config user.name=x y` were accepted and overwrote user.name.) *)
Theorem config_never_alters_another_key : forall e glob key v w0 w1 out tr sec k,
  Reachable w0 -> split_all x2e key = [sec; k] ->
  step (ACmd e (CConfig glob [key; v])) w0 = (w1, OOk out, tr) ->
  (forall s' k', (s', k') <> (sec, k) -> setting glob w1 s' k' = setting glob w0 s' k') /\
  setting glob w1 sec k = Some (eff_val k v) /\
  eff_val k v = trim_space (remove_tabs (drop_cr v)) /\
  (forall s', has_section glob w0 s' -> has_section glob w1 s') /\
  file_of (negb glob) w1 = file_of (negb glob) w0.
Proof.
  intros e glob key v w0 w1 out tr sec k Hr Hsp Hstep.
  pose proof (CtxFacts.reachable_cfgs_load w0 Hr) as Hgood.
  destruct (config_accepted e glob key v sec k w0 w1 out tr Hgood Hsp Hstep)
    as (_ & Hset & Hfr & Hoth & _ & _).
  destruct (config_accepted_sections e glob key v sec k w0 w1 out tr Hgood Hsp Hstep)
    as (_ & Hsecs & _).
  split; [exact Hfr|]. split; [exact Hset|]. split; [|split; [exact Hsecs | exact Hoth]].
  apply eff_val_ok_key.
  exact (proj1 (accepted_config_key_ok e glob key v w0 w1 out tr sec k Hsp Hstep)).
Qed.


(* MAIN (B2), C20 over histories.  `config [--global] <sec>.<k> <v>` answered
   Ok in a reachable repository; then, after ANY later history [h] none of
   whose `config` calls names the same file, section and key, the next process
   still finds the stored value under <sec>.<k>.  (The value as the loader
   reads it back: without TABs, without the white space around it,
   [eff_val_ok_key]; in the C20 domain it is [v]: see [setting_persists_ok].) *)
Theorem setting_persists : forall e glob key v sec k w0 w1 out tr h,
  Reachable w0 -> split_all x2e key = [sec; k] ->
  step (ACmd e (CConfig glob [key; v])) w0 = (w1, OOk out, tr) ->
  no_reconfig glob sec k h = true ->
  setting glob (run h w1) sec k = Some (eff_val k v).
Proof.
  intros e glob key v sec k w0 w1 out tr h Hr Hsp Hstep Hno.
  pose proof (CtxFacts.reachable_cfgs_load w0 Hr) as Hgood.
  destruct (config_accepted e glob key v sec k w0 w1 out tr Hgood Hsp Hstep)
    as (_ & Hset & _ & _ & Hi1 & Hgood1).
  rewrite (setting_run h glob sec k w1 Hi1 Hgood1 Hno). exact Hset.
Qed.

Corollary setting_persists_ok : forall e glob key v sec k w0 w1 out tr h,
  Reachable w0 -> split_all x2e key = [sec; k] -> ok_key k -> ok_val v ->
  step (ACmd e (CConfig glob [key; v])) w0 = (w1, OOk out, tr) ->
  no_reconfig glob sec k h = true ->
  setting glob (run h w1) sec k = Some v.
Proof.
  intros e glob key v sec k w0 w1 out tr h Hr Hsp Hk Hv Hstep Hno.
  pose proof (setting_persists e glob key v sec k w0 w1 out tr h Hr Hsp Hstep Hno) as H.
  rewrite (eff_val_ok k v Hk Hv) in H. exact H.
Qed.

(* every OTHER key of that file — and every key of the other file — is, after
   the call and the later history, what it was before the call, unless a
   `config` call of the later history names it *)
Theorem other_settings_persist : forall e glob key v sec k w0 w1 out tr h g' s' k',
  Reachable w0 -> split_all x2e key = [sec; k] ->
  step (ACmd e (CConfig glob [key; v])) w0 = (w1, OOk out, tr) ->
  (g', s', k') <> (glob, sec, k) ->
  no_reconfig g' s' k' h = true ->
  setting g' (run h w1) s' k' = setting g' w0 s' k'.
Proof.
  intros e glob key v sec k w0 w1 out tr h g' s' k' Hr Hsp Hstep Hne Hno.
  pose proof (CtxFacts.reachable_cfgs_load w0 Hr) as Hgood.
  destruct (config_accepted e glob key v sec k w0 w1 out tr Hgood Hsp Hstep)
    as (_ & _ & Hfr & Hoth & Hi1 & Hgood1).
  rewrite (setting_run h g' s' k' w1 Hi1 Hgood1 Hno).
  destruct (Bool.eqb g' glob) eqn:Eg.
  - apply Bool.eqb_prop in Eg. subst g'. apply Hfr. intro Heq. apply Hne.
    injection Heq as -> ->. reflexivity.
  - assert (Eg' : g' = negb glob) by (destruct g', glob; try discriminate Eg; reflexivity).
    unfold setting. rewrite Eg', Hoth. reflexivity.
Qed.

(* the later history, in any reachable repository: nothing but a `config`
   call that names it changes a setting *)
Theorem reachable_setting_run : forall h glob sec k w,
  Reachable w -> w_inited w = true -> no_reconfig glob sec k h = true ->
  setting glob (run h w) sec k = setting glob w sec k.
Proof.
  intros h glob sec k w Hr Hi Hno. apply setting_run; [exact Hi | | exact Hno].
  apply CtxFacts.reachable_cfgs_load. exact Hr.
Qed.

(* ================================================================== *)
(** * C. The identity later commands work with *)

Lemma setting_some : forall glob w sec k v,
  setting glob w sec k = Some v ->
  exists c, cfg_of (file_of glob w) = Some c /\ cfg_lookup c sec k = Some v.
Proof.
  intros glob w sec k v H. unfold setting in H.
  destruct (cfg_of (file_of glob w)) as [c|]; [|discriminate H]. exists c. split; [reflexivity | exact H].
Qed.

(* a key of section "user" found in the local file is what the context yields *)
Theorem ident_local : forall w x key v,
  ctx_of w = Some x -> setting false w s_user key = Some v ->
  ident_get (x_l x) (x_g x) key = Some v.
Proof.
  intros w x key v Hx Hs. destruct (setting_some false w s_user key v Hs) as (l & Hl & Hv).
  exact (ConfigCmdFacts.effective_local w x l key v Hx Hl Hv).
Qed.

(* with no such key in the local file, the global file is used *)
Theorem ident_global : forall w x key v,
  ctx_of w = Some x -> setting false w s_user key = None -> setting true w s_user key = Some v ->
  ident_get (x_l x) (x_g x) key = Some v.
Proof.
  intros w x key v Hx Hn Hs. destruct (setting_some true w s_user key v Hs) as (g & Hg & Hv).
  destruct (ConfigCmdFacts.ctx_of_cfgs w x Hx) as [Hxl Hxg].
  rewrite (ConfigCmdFacts.effective_global w x (x_l x) g key Hx Hxl Hg).
  - exact Hv.
  - unfold setting, file_of in Hn. rewrite Hxl in Hn. exact Hn.
Qed.

Definition k_name : bytes := ConfigCmdFacts.k_name.
Definition k_email : bytes := ConfigCmdFacts.k_email.

Lemma ok_key_name : ok_key k_name.
Proof.
  split; [split; [cbn; intuition discriminate | split; [cbn; intuition discriminate | vm_compute; reflexivity]]
         | cbn; intuition discriminate].
Qed.
Lemma ok_key_email : ok_key k_email.
Proof.
  split; [split; [cbn; intuition discriminate | split; [cbn; intuition discriminate | vm_compute; reflexivity]]
         | cbn; intuition discriminate].
Qed.

Lemma split_user_name : split_all x2e (str "user.name"%string) = [s_user; k_name].
Proof. vm_compute. reflexivity. Qed.
Lemma split_user_email : split_all x2e (str "user.email"%string) = [s_user; k_email].
Proof. vm_compute. reflexivity. Qed.

Lemma user_name_of_ident : forall l g v, ident_get l g k_name = Some v -> user_name l g = v.
Proof. intros l g v H. unfold user_name. change (str "name"%string) with k_name. rewrite H. reflexivity. Qed.
Lemma user_email_of_ident : forall l g v, ident_get l g k_email = Some v -> user_email l g = v.
Proof. intros l g v H. unfold user_email. change (str "email"%string) with k_email. rewrite H. reflexivity. Qed.

(* MAIN (C1): `config user.<key> <v>` (local) accepted; any later history
   without a local `config user.<key> ...`; then whatever the global file
   holds and whatever happened to it, the identity the context of a later
   command yields under <key> is [v] *)
Theorem local_identity_persists : forall e fullkey key v w0 w1 out tr h x,
  Reachable w0 -> split_all x2e fullkey = [s_user; key] -> ok_key key -> ok_val v ->
  step (ACmd e (CConfig false [fullkey; v])) w0 = (w1, OOk out, tr) ->
  no_reconfig false s_user key h = true ->
  ctx_of (run h w1) = Some x ->
  ident_get (x_l x) (x_g x) key = Some v.
Proof.
  intros e fullkey key v w0 w1 out tr h x Hr Hsp Hk Hv Hstep Hno Hx.
  apply (ident_local (run h w1) x key v Hx).
  exact (setting_persists_ok e false fullkey v s_user key w0 w1 out tr h Hr Hsp Hk Hv Hstep Hno).
Qed.

(* MAIN (C2): `config --global user.<key> <v>` accepted in a repository whose
   local file has no user.<key>; any later history with neither a global nor
   a local `config user.<key> ...`; then the identity is [v] *)
Theorem global_identity_persists : forall e fullkey key v w0 w1 out tr h x,
  Reachable w0 -> split_all x2e fullkey = [s_user; key] -> ok_key key -> ok_val v ->
  setting false w0 s_user key = None ->
  step (ACmd e (CConfig true [fullkey; v])) w0 = (w1, OOk out, tr) ->
  no_reconfig true s_user key h = true ->
  no_reconfig false s_user key h = true ->
  ctx_of (run h w1) = Some x ->
  ident_get (x_l x) (x_g x) key = Some v.
Proof.
  intros e fullkey key v w0 w1 out tr h x Hr Hsp Hk Hv Hnone Hstep Hnog Hnol Hx.
  apply (ident_global (run h w1) x key v Hx).
  - rewrite (other_settings_persist e true fullkey v s_user key w0 w1 out tr h false s_user key
               Hr Hsp Hstep); [exact Hnone | discriminate | exact Hnol].
  - exact (setting_persists_ok e true fullkey v s_user key w0 w1 out tr h Hr Hsp Hk Hv Hstep Hnog).
Qed.

(* the same for EVERY accepted call, in or out of the C20 domain of values:
   the identity is the value as the loader reads it back *)
Theorem local_identity_persists_any : forall e fullkey key v w0 w1 out tr h x,
  Reachable w0 -> split_all x2e fullkey = [s_user; key] ->
  step (ACmd e (CConfig false [fullkey; v])) w0 = (w1, OOk out, tr) ->
  no_reconfig false s_user key h = true ->
  ctx_of (run h w1) = Some x ->
  ident_get (x_l x) (x_g x) key = Some (trim_space (remove_tabs (drop_cr v))).
Proof.
  intros e fullkey key v w0 w1 out tr h x Hr Hsp Hstep Hno Hx.
  apply (ident_local (run h w1) x key _ Hx).
  rewrite <- (eff_val_ok_key key v (proj1 (accepted_config_key_ok e false fullkey v w0 w1 out tr s_user key Hsp Hstep))).
  exact (setting_persists e false fullkey v s_user key w0 w1 out tr h Hr Hsp Hstep Hno).
Qed.

Theorem global_identity_persists_any : forall e fullkey key v w0 w1 out tr h x,
  Reachable w0 -> split_all x2e fullkey = [s_user; key] ->
  setting false w0 s_user key = None ->
  step (ACmd e (CConfig true [fullkey; v])) w0 = (w1, OOk out, tr) ->
  no_reconfig true s_user key h = true ->
  no_reconfig false s_user key h = true ->
  ctx_of (run h w1) = Some x ->
  ident_get (x_l x) (x_g x) key = Some (trim_space (remove_tabs (drop_cr v))).
Proof.
  intros e fullkey key v w0 w1 out tr h x Hr Hsp Hnone Hstep Hnog Hnol Hx.
  apply (ident_global (run h w1) x key _ Hx).
  - rewrite (other_settings_persist e true fullkey v s_user key w0 w1 out tr h false s_user key
               Hr Hsp Hstep); [exact Hnone | discriminate | exact Hnol].
  - rewrite <- (eff_val_ok_key key v (proj1 (accepted_config_key_ok e true fullkey v w0 w1 out tr s_user key Hsp Hstep))).
    exact (setting_persists e true fullkey v s_user key w0 w1 out tr h Hr Hsp Hstep Hnog).
Qed.

(* the four user-visible instances *)
Corollary local_name_persists : forall e N w0 w1 out tr h x,
  Reachable w0 -> ok_val N ->
  step (ACmd e (CConfig false [str "user.name"%string; N])) w0 = (w1, OOk out, tr) ->
  no_reconfig false s_user k_name h = true ->
  ctx_of (run h w1) = Some x ->
  user_name (x_l x) (x_g x) = N.
Proof.
  intros e N w0 w1 out tr h x Hr HN Hstep Hno Hx. apply user_name_of_ident.
  exact (local_identity_persists e _ k_name N w0 w1 out tr h x Hr split_user_name ok_key_name HN Hstep Hno Hx).
Qed.

Corollary local_email_persists : forall e E w0 w1 out tr h x,
  Reachable w0 -> ok_val E ->
  step (ACmd e (CConfig false [str "user.email"%string; E])) w0 = (w1, OOk out, tr) ->
  no_reconfig false s_user k_email h = true ->
  ctx_of (run h w1) = Some x ->
  user_email (x_l x) (x_g x) = E.
Proof.
  intros e E w0 w1 out tr h x Hr HE Hstep Hno Hx. apply user_email_of_ident.
  exact (local_identity_persists e _ k_email E w0 w1 out tr h x Hr split_user_email ok_key_email HE Hstep Hno Hx).
Qed.

Corollary global_name_persists : forall e N w0 w1 out tr h x,
  Reachable w0 -> ok_val N ->
  setting false w0 s_user k_name = None ->
  step (ACmd e (CConfig true [str "user.name"%string; N])) w0 = (w1, OOk out, tr) ->
  no_reconfig true s_user k_name h = true ->
  no_reconfig false s_user k_name h = true ->
  ctx_of (run h w1) = Some x ->
  user_name (x_l x) (x_g x) = N.
Proof.
  intros e N w0 w1 out tr h x Hr HN Hnone Hstep Hnog Hnol Hx. apply user_name_of_ident.
  exact (global_identity_persists e _ k_name N w0 w1 out tr h x Hr split_user_name ok_key_name HN
           Hnone Hstep Hnog Hnol Hx).
Qed.

Corollary global_email_persists : forall e E w0 w1 out tr h x,
  Reachable w0 -> ok_val E ->
  setting false w0 s_user k_email = None ->
  step (ACmd e (CConfig true [str "user.email"%string; E])) w0 = (w1, OOk out, tr) ->
  no_reconfig true s_user k_email h = true ->
  no_reconfig false s_user k_email h = true ->
  ctx_of (run h w1) = Some x ->
  user_email (x_l x) (x_g x) = E.
Proof.
  intros e E w0 w1 out tr h x Hr HE Hnone Hstep Hnog Hnol Hx. apply user_email_of_ident.
  exact (global_identity_persists e _ k_email E w0 w1 out tr h x Hr split_user_email ok_key_email HE
           Hnone Hstep Hnog Hnol Hx).
Qed.

(* a local setting overrides the global one even when the global one is set
   LATER: [local_name_persists] puts no condition on the global calls of [h] *)

(* ================================================================== *)
(** * D. C12 on reachable repositories: `commit`, then `log` *)

Import CommitCmdFacts LogView.

Lemma log_view_hex : forall st ids, log_view st (map hex ids) = map (log_entry st) ids.
Proof.
  intros st ids. unfold log_view. rewrite map_map. apply map_ext. intro id.
  rewrite unhex_hex. reflexivity.
Qed.

(* the context the next command loads after a successful commit: the same two
   configurations and ignore patterns, HEAD at the new commit *)
Lemma ctx_after_commit : forall e c msg w root cm w',
  ctx_of w = Some c -> commit_post e c msg w root cm w' ->
  ctx_of w' = Some (mkCtx (x_l c) (x_g c) (Some (commit_id e c msg w root, cm)) (x_pats c)).
Proof.
  intros e c msg w root cm w' Hx Hp.
  destruct (CtxFacts.ctx_of_fields w c Hx) as (Hl & Hg & _ & Hpats). unfold CtxFacts.ignore_file in Hpats.
  unfold ctx_of, head_commit.
  rewrite (cp_lcfg _ _ _ _ _ _ _ Hp), (cp_gcfg _ _ _ _ _ _ _ Hp), (cp_files _ _ _ _ _ _ _ Hp),
          (cp_head _ _ _ _ _ _ _ Hp), (cp_branch _ _ _ _ _ _ _ Hp), (cp_commit _ _ _ _ _ _ _ Hp).
  rewrite Hl, Hg, Hpats. reflexivity.
Qed.

Lemma run_snoc : forall h a w, run (h ++ [a]) w = step_w a (run h w).
Proof. intros h a w. rewrite SnapshotFacts.run_app. reflexivity. Qed.

(* what `log` shows of the commit: its id, the configured identity, the clock
   reading and zone offset of the `commit` call, the message given *)
Definition shown (e : env) (c : ctx) (msg cid : bytes) : option (bytes * option sign * bytes) :=
  Some (hex cid,
        Some (mkSign (user_name (x_l c) (x_g c)) (user_email (x_l c) (x_g c)) (e_time e) (e_off e)),
        msg).

(* MAIN (D).  [Props/C12.C12_commit_then_log] needs [head_ok], valid staged
   entries, [write_tree_top ... = Some ...], the two size bounds and the
   length of the tip; on a reachable repository all of them follow from
   [Reachable], the loaded context, the open gate (an identity is configured
   and something is staged), the C12 domain of the identity and the clock,
   and the standard guard on the world the command ends in. *)
Theorem commit_then_log_reachable : forall e msg w c,
  Reachable w -> ctx_of w = Some c -> gate_open w c ->
  CommitFacts.sign_ok (user_name (x_l c) (x_g c)) (user_email (x_l c) (x_g c)) (e_time e) (e_off e) ->
  w_coll (step_w (ACmd e (CCommit msg)) w) = false ->
  SnapshotFacts.SmallStore (w_objs (step_w (ACmd e (CCommit msg)) w)) ->
  exists root subs,
    let cid := commit_id e c msg w root in
    let w' := after_commit e c msg w root subs in
    write_tree_top (idx_of w) = Some (root, subs) /\
    (* the commit succeeds, HEAD's branch names the new commit *)
    step (ACmd e (CCommit msg)) w = (w', OOk [], do_commit_trace e c msg w root subs) /\
    tip_of w' = Some cid /\
    (* its entry *)
    log_entry (w_objs w') cid = shown e c msg cid /\
    (* `log` at once: the first line is that commit *)
    (forall e' n, (0 < n)%Z ->
       exists rest, step (ACmd e' (CLog n)) w' = (w', OOk (hex cid :: rest), [])) /\
    (* for ever: the entry stays what it is *)
    (forall h, w_coll (run h w') = false -> log_entry (w_objs (run h w')) cid = shown e c msg cid) /\
    (* and `log` after any later history prints the chain of HEAD; when that
       chain still holds the commit, the entry behind its line is the same *)
    (forall h e' n x2 tip cm2,
       w_coll (run h w') = false -> ctx_of (run h w') = Some x2 -> x_headc x2 = Some (tip, cm2) ->
       exists l, LogFacts.chain (w_objs (run h w')) tip l /\ NoDup l /\
         step (ACmd e' (CLog n)) (run h w')
           = (run h w', OOk (map hex (firstn (Z.to_nat n) l)), []) /\
         (In cid (firstn (Z.to_nat n) l) ->
          In (hex cid) (map hex (firstn (Z.to_nat n) l)) /\
          In (shown e c msg cid) (log_view (w_objs (run h w')) (map hex (firstn (Z.to_nat n) l))))).
Proof.
  intros e msg w c Hr Hx Hg Hso Hc' Hsm'.
  destruct (CtxFacts.commit_total_live e msg w c Hr Hx Hg Hso Hc' Hsm')
    as (root & subs & cm & Hw & Ecm & Hstep & Hpost & _).
  exists root, subs. cbv zeta.
  set (cid := commit_id e c msg w root).
  set (w' := after_commit e c msg w root subs) in *.
  assert (Ew : step_w (ACmd e (CCommit msg)) w = w').
  { unfold step_w. rewrite Hstep. reflexivity. }
  rewrite Ew in Hc'.
  assert (Hnc : CCommit msg <> CInit) by discriminate.
  destruct (ok_step_loaded e _ w w' [] _ Hnc Hstep) as [Hi _].
  assert (Hi' : w_inited w' = true) by (rewrite <- Ew; apply inited_step; exact Hi).
  assert (Hentry : log_entry (w_objs w') cid = shown e c msg cid).
  { unfold log_entry, shown, cid. rewrite (cp_commit _ _ _ _ _ _ _ Hpost).
    rewrite Ecm. reflexivity. }
  pose proof (ctx_after_commit e c msg w root cm w' Hx Hpost) as Hx'. fold cid in Hx'.
  destruct Hr as (h0 & _ & Eh0).
  assert (Erun : forall h, run h w' = run ((h0 ++ [ACmd e (CCommit msg)]) ++ h) w_empty).
  { intro h. rewrite SnapshotFacts.run_app, run_snoc, <- Eh0, Ew. reflexivity. }
  assert (Hever : forall h, w_coll (run h w') = false ->
                            log_entry (w_objs (run h w')) cid = shown e c msg cid).
  { intros h Hc. apply LogViewFacts.log_entry_stable; assumption. }
  assert (Hlog : forall h e' n x2 tip cm2,
    w_coll (run h w') = false -> ctx_of (run h w') = Some x2 -> x_headc x2 = Some (tip, cm2) ->
    exists l, LogFacts.chain (w_objs (run h w')) tip l /\ NoDup l /\
      step (ACmd e' (CLog n)) (run h w') = (run h w', OOk (map hex (firstn (Z.to_nat n) l)), [])).
  { intros h e' n x2 tip cm2 Hc Hx2 Hh2.
    assert (Hi2 : w_inited (run h w') = true) by (apply inited_run; exact Hi').
    rewrite (Erun h) in *.
    exact (ChainFacts.step_log_on_reachable _ e' x2 tip cm2 n Hc Hi2 Hx2 Hh2). }
  split; [exact Hw|]. split; [exact Hstep|].
  split; [unfold tip_of; rewrite (cp_head _ _ _ _ _ _ _ Hpost); exact (cp_branch _ _ _ _ _ _ _ Hpost)|].
  split; [exact Hentry|]. split; [|split; [exact Hever|]].
  - intros e' n Hn.
    destruct (Hlog [] e' n _ cid cm Hc' Hx' eq_refl) as (l & Hch & _ & Hst).
    destruct (LogFacts.chain_head _ _ _ Hch) as [l' El]. subst l.
    cbn [run fold_left] in Hst.
    destruct (Z.to_nat n) as [|n'] eqn:En; [lia|].
    cbn [firstn map] in Hst. eexists. exact Hst.
  - intros h e' n x2 tip cm2 Hc Hx2 Hh2.
    destruct (Hlog h e' n x2 tip cm2 Hc Hx2 Hh2) as (l & Hch & Hnd & Hst).
    exists l. split; [exact Hch|]. split; [exact Hnd|]. split; [exact Hst|].
    intro Hin. split; [apply in_map; exact Hin|].
    rewrite log_view_hex, <- (Hever h Hc). apply in_map. exact Hin.
Qed.

(* ================================================================== *)
(** * E. B/C and D together: `log` shows the last configured identity *)

Definition entry_of (cid N E : bytes) (e : env) (msg : bytes) : option (bytes * option sign * bytes) :=
  Some (hex cid, Some (mkSign N E (e_time e) (e_off e)), msg).

(* what is established about a commit and the later `log`s *)
Definition commit_logged (e : env) (msg : bytes) (w : world) (c : ctx) (N E : bytes) : Prop :=
  exists root subs,
    let cid := commit_id e c msg w root in
    let w' := after_commit e c msg w root subs in
    step (ACmd e (CCommit msg)) w = (w', OOk [], do_commit_trace e c msg w root subs) /\
    tip_of w' = Some cid /\
    log_entry (w_objs w') cid = entry_of cid N E e msg /\
    (forall e' n, (0 < n)%Z ->
       exists rest, step (ACmd e' (CLog n)) w' = (w', OOk (hex cid :: rest), [])) /\
    (forall h, w_coll (run h w') = false ->
       log_entry (w_objs (run h w')) cid = entry_of cid N E e msg) /\
    (forall h e' n x2 tip cm2,
       w_coll (run h w') = false -> ctx_of (run h w') = Some x2 -> x_headc x2 = Some (tip, cm2) ->
       exists l, LogFacts.chain (w_objs (run h w')) tip l /\ NoDup l /\
         step (ACmd e' (CLog n)) (run h w')
           = (run h w', OOk (map hex (firstn (Z.to_nat n) l)), []) /\
         (In cid (firstn (Z.to_nat n) l) ->
          In (hex cid) (map hex (firstn (Z.to_nat n) l)) /\
          In (entry_of cid N E e msg) (log_view (w_objs (run h w')) (map hex (firstn (Z.to_nat n) l))))).

Lemma commit_logged_intro : forall e msg w c N E,
  Reachable w -> ctx_of w = Some c -> gate_open w c ->
  user_name (x_l c) (x_g c) = N -> user_email (x_l c) (x_g c) = E ->
  CommitFacts.sign_ok N E (e_time e) (e_off e) ->
  w_coll (step_w (ACmd e (CCommit msg)) w) = false ->
  SnapshotFacts.SmallStore (w_objs (step_w (ACmd e (CCommit msg)) w)) ->
  commit_logged e msg w c N E.
Proof.
  intros e msg w c N E Hr Hx Hg HN HE Hso Hc' Hsm'. subst N E.
  destruct (commit_then_log_reachable e msg w c Hr Hx Hg Hso Hc' Hsm')
    as (root & subs & _ & H1 & H2 & H3 & H4 & H5 & H6).
  exists root, subs. cbv zeta. unfold entry_of. unfold shown in H3, H5, H6.
  split; [exact H1|]. split; [exact H2|]. split; [exact H3|]. split; [exact H4|].
  split; [exact H5 | exact H6].
Qed.

Lemma reachable_after_config : forall e g args w0 w1 out tr h,
  Reachable w0 -> step (ACmd e (CConfig g args)) w0 = (w1, out, tr) -> Forall action_ok h ->
  Reachable (run h w1).
Proof.
  intros e g args w0 w1 out tr h Hr Hstep Hall.
  apply BranchReachFacts.reachable_run; [exact Hall|].
  assert (E : w1 = step_w (ACmd e (CConfig g args)) w0) by (unfold step_w; rewrite Hstep; reflexivity).
  rewrite E. apply BranchReachFacts.reachable_step; [exact Logic.I | exact Hr].
Qed.

(* MAIN (E1).  `config user.name N` (local) is accepted; a later history [h]
   holds no other local `config user.name ...` (so this call is the LAST
   accepted one; global calls are unrestricted); then `commit` in [run h w1]:
   the name `log` shows for the new commit, at once and for ever, is N *)
Theorem log_shows_last_local_name : forall e0 N w0 w1 out0 tr0 h e msg c,
  Reachable w0 -> ok_val N ->
  step (ACmd e0 (CConfig false [str "user.name"%string; N])) w0 = (w1, OOk out0, tr0) ->
  Forall action_ok h -> no_reconfig false s_user k_name h = true ->
  ctx_of (run h w1) = Some c -> gate_open (run h w1) c ->
  CommitFacts.sign_ok N (user_email (x_l c) (x_g c)) (e_time e) (e_off e) ->
  w_coll (step_w (ACmd e (CCommit msg)) (run h w1)) = false ->
  SnapshotFacts.SmallStore (w_objs (step_w (ACmd e (CCommit msg)) (run h w1))) ->
  user_name (x_l c) (x_g c) = N /\
  commit_logged e msg (run h w1) c N (user_email (x_l c) (x_g c)).
Proof.
  intros e0 N w0 w1 out0 tr0 h e msg c Hr HN Hstep Hall Hno Hx Hg Hso Hc' Hsm'.
  pose proof (local_name_persists e0 N w0 w1 out0 tr0 h c Hr HN Hstep Hno Hx) as Hname.
  split; [exact Hname|].
  apply commit_logged_intro; try assumption; try reflexivity.
  exact (reachable_after_config _ _ _ _ _ _ _ h Hr Hstep Hall).
Qed.

(* MAIN (E2).  The global case: `config --global user.name N` accepted in a
   repository whose local file has no user.name; no later global or local
   `config user.name ...`; the name `log` shows is N *)
Theorem log_shows_last_global_name : forall e0 N w0 w1 out0 tr0 h e msg c,
  Reachable w0 -> ok_val N ->
  setting false w0 s_user k_name = None ->
  step (ACmd e0 (CConfig true [str "user.name"%string; N])) w0 = (w1, OOk out0, tr0) ->
  Forall action_ok h ->
  no_reconfig true s_user k_name h = true -> no_reconfig false s_user k_name h = true ->
  ctx_of (run h w1) = Some c -> gate_open (run h w1) c ->
  CommitFacts.sign_ok N (user_email (x_l c) (x_g c)) (e_time e) (e_off e) ->
  w_coll (step_w (ACmd e (CCommit msg)) (run h w1)) = false ->
  SnapshotFacts.SmallStore (w_objs (step_w (ACmd e (CCommit msg)) (run h w1))) ->
  user_name (x_l c) (x_g c) = N /\
  commit_logged e msg (run h w1) c N (user_email (x_l c) (x_g c)).
Proof.
  intros e0 N w0 w1 out0 tr0 h e msg c Hr HN Hnone Hstep Hall Hnog Hnol Hx Hg Hso Hc' Hsm'.
  pose proof (global_name_persists e0 N w0 w1 out0 tr0 h c Hr HN Hnone Hstep Hnog Hnol Hx) as Hname.
  split; [exact Hname|].
  apply commit_logged_intro; try assumption; try reflexivity.
  exact (reachable_after_config _ _ _ _ _ _ _ h Hr Hstep Hall).
Qed.

(* a `config user.email ...` call does not name user.name, and conversely *)
Lemma email_call_not_name : forall e g E,
  names false s_user k_name (ACmd e (CConfig g [str "user.email"%string; E])) = false.
Proof.
  intros e g E. cbn [names config_target]. rewrite split_user_email.
  destruct (config_args_ok s_user k_email (str "user.email"%string) E); [|reflexivity].
  destruct g; vm_compute; reflexivity.
Qed.

(* MAIN (E3).  Name and e-mail both: `config user.name N`, a history h1,
   `config user.email E`, a history h2, `commit -m msg`, with no other local
   `config user.name` in h1, h2 and no other local `config user.email` in
   h2: `log` shows N, E, the instant and the offset of the `commit` call and
   exactly [msg] *)
Theorem log_shows_configured_identity : forall eN N eE E w0 w1 w2 outN trN outE trE h1 h2 e msg c,
  Reachable w0 -> ok_val N -> ok_val E ->
  step (ACmd eN (CConfig false [str "user.name"%string; N])) w0 = (w1, OOk outN, trN) ->
  Forall action_ok h1 -> no_reconfig false s_user k_name h1 = true ->
  step (ACmd eE (CConfig false [str "user.email"%string; E])) (run h1 w1) = (w2, OOk outE, trE) ->
  Forall action_ok h2 ->
  no_reconfig false s_user k_name h2 = true -> no_reconfig false s_user k_email h2 = true ->
  ctx_of (run h2 w2) = Some c -> gate_open (run h2 w2) c ->
  CommitFacts.sign_ok N E (e_time e) (e_off e) ->
  w_coll (step_w (ACmd e (CCommit msg)) (run h2 w2)) = false ->
  SnapshotFacts.SmallStore (w_objs (step_w (ACmd e (CCommit msg)) (run h2 w2))) ->
  user_name (x_l c) (x_g c) = N /\ user_email (x_l c) (x_g c) = E /\
  commit_logged e msg (run h2 w2) c N E.
Proof.
  intros eN N eE E w0 w1 w2 outN trN outE trE h1 h2 e msg c
         Hr HN HE HstepN Hall1 Hno1 HstepE Hall2 Hno2n Hno2e Hx Hg Hso Hc' Hsm'.
  assert (Hr1 : Reachable (run h1 w1)) by exact (reachable_after_config _ _ _ _ _ _ _ h1 Hr HstepN Hall1).
  assert (Hr2 : Reachable (run h2 w2)) by exact (reachable_after_config _ _ _ _ _ _ _ h2 Hr1 HstepE Hall2).
  assert (Ew2 : run h2 w2 = run (h1 ++ ACmd eE (CConfig false [str "user.email"%string; E]) :: h2) w1).
  { rewrite SnapshotFacts.run_app, run_cons. unfold step_w. rewrite HstepE. reflexivity. }
  assert (Hname : user_name (x_l c) (x_g c) = N).
  { apply (local_name_persists eN N w0 w1 outN trN
             (h1 ++ ACmd eE (CConfig false [str "user.email"%string; E]) :: h2) c Hr HN HstepN).
    - apply no_reconfig_app. split; [exact Hno1|]. apply no_reconfig_cons.
      split; [apply email_call_not_name | exact Hno2n].
    - rewrite <- Ew2. exact Hx. }
  assert (Hemail : user_email (x_l c) (x_g c) = E).
  { exact (local_email_persists eE E (run h1 w1) w2 outE trE h2 c Hr1 HE HstepE Hno2e Hx). }
  split; [exact Hname|]. split; [exact Hemail|].
  apply commit_logged_intro; assumption.
Qed.

(* ================================================================== *)
(** * F. Examples (closed computations) *)

(* ---------- F1. the keys that used to be read back as ANOTHER key ---------- *)
(* `config user.name=x y` used to pass the guard of the command; its key
   "name=x" is not "name"; the line written was "<TAB>name=x = y", which the
   loader splits at the FIRST '=': user.name became "x = y".  A TAB inside the
   key, or blanks around it, had the same effect (TABs are removed, both sides
   are trimmed).  All three are now REFUSED: nothing is written, user.name
   keeps its value, and the calls name no key ([names] is false: they may
   occur in the later history of [setting_persists]). *)
Definition px_env : env := mkEnv 1700000000 0.
Definition px_hist : list action :=
  [ACmd px_env CInit; ACmd px_env (CConfig false [str "user.name"%string; str "A"%string])].
Definition px_eq : action := ACmd px_env (CConfig false [str "user.name=x"%string; str "y"%string]).
Definition px_tab : action :=
  ACmd px_env (CConfig false [(str "user.na"%string ++ [c_tab] ++ str "me"%string)%list; str "z"%string]).
Definition px_blank : action := ACmd px_env (CConfig false [str "user. name "%string; str "q"%string]).
Definition px_lead : action := ACmd px_env (CConfig false [str "user. name"%string; str "X"%string]).

Example px_ambiguous_keys_refused :
  setting false (run px_hist w_empty) s_user k_name = Some (str "A"%string) /\
  (* the keys are not "name" ... *)
  split_all x2e (str "user.name=x"%string) = [s_user; str "name=x"%string] /\
  split_all x2e (str "user.na"%string ++ [c_tab] ++ str "me"%string)%list
    = [s_user; (str "na"%string ++ [c_tab] ++ str "me"%string)%list] /\
  split_all x2e (str "user. name "%string) = [s_user; str " name "%string] /\
  split_all x2e (str "user. name"%string) = [s_user; str " name"%string] /\
  (* ... but the loader would read each of them back as "name" ... *)
  eff_kv (str "name=x"%string) (str "y"%string) = (k_name, str "x = y"%string) /\
  eff_key (str "na"%string ++ [c_tab] ++ str "me"%string)%list (str "z"%string) = k_name /\
  eff_key (str " name "%string) (str "q"%string) = k_name /\
  eff_key (str " name"%string) (str "X"%string) = k_name /\
  (* ... so each call is refused, the world unchanged, user.name as before *)
  (forall a, In a [px_eq; px_tab; px_blank; px_lead] ->
     step a (run px_hist w_empty) = (run px_hist w_empty, OErr, []) /\
     setting false (run (px_hist ++ [a]) w_empty) s_user k_name = Some (str "A"%string) /\
     names false s_user k_name a = false) /\
  (* a key of the C20 domain is accepted as before; so is an empty key *)
  setting false (run (px_hist ++ [ACmd px_env (CConfig false [str "user.name"%string; str "ok name"%string])]) w_empty)
    s_user k_name = Some (str "ok name"%string) /\
  setting false (run (px_hist ++ [ACmd px_env (CConfig false [str "s."%string; str "v"%string])]) w_empty)
    (str "s"%string) [] = Some (str "v"%string).
Proof.
  do 9 (split; [vm_compute; reflexivity|]).
  split; [|split; vm_compute; reflexivity].
  intros a [<-|[<-|[<-|[<-|[]]]]]; vm_compute; repeat split; reflexivity.
Qed.

(* values: blanks around the value and TABs inside it are not read back, a
   value of the C20 domain is *)
Example px_effective_values :
  eff_kv k_name (str "  two  words  "%string) = (k_name, str "two  words"%string) /\
  eff_kv k_name (str "a"%string ++ [c_tab] ++ str "b"%string)%list = (k_name, str "ab"%string) /\
  eff_kv k_name (str "a=b [c] #d"%string) = (k_name, str "a=b [c] #d"%string).
Proof. vm_compute. repeat split; reflexivity. Qed.

(* ---------- F2. the theorems apply: CommitCmdFacts.ex_hist ---------- *)
(* init; config user.name "Ann Lee"; config user.email "ann@example.org";
   three files; add .; commit -m first (at +09:00) *)
Definition px_N : bytes := str "Ann Lee"%string.
Definition px_E : bytes := str "ann@example.org"%string.
Definition px_w0 : world := Eval vm_compute in run [ACmd ex_env CInit] w_empty.
Lemma px_w0_run : run [ACmd ex_env CInit] w_empty = px_w0.
Proof. vm_compute. reflexivity. Qed.
Lemma px_w0_reach : Reachable px_w0.
Proof.
  exists [ACmd ex_env CInit]. split; [repeat constructor | symmetry; exact px_w0_run].
Qed.
Definition px_aN : action := ACmd ex_env (CConfig false [str "user.name"%string; px_N]).
Definition px_aE : action := ACmd ex_env (CConfig false [str "user.email"%string; px_E]).
Definition px_w1 : world := Eval vm_compute in step_w px_aN px_w0.
Definition px_w2 : world := Eval vm_compute in step_w px_aE px_w1.
Lemma px_stepN : step px_aN px_w0 = (px_w1, OOk [], [ESetLcfg (w_lcfg px_w1)]).
Proof. vm_compute. reflexivity. Qed.
Lemma px_stepE : step px_aE px_w1 = (px_w2, OOk [], [ESetLcfg (w_lcfg px_w2)]).
Proof. vm_compute. reflexivity. Qed.
Definition px_h2 : list action :=
  [ AEdit (UWrite (str "lib/a"%string) (str "alpha"%string ++ [c_nl]));
    AEdit (UWrite (str "lib.go"%string) (str "package lib"%string ++ [c_nl]));
    AEdit (UWrite (str "lib-old"%string) (str "old"%string ++ [c_nl]));
    ACmd ex_env (CAdd [str "."%string]) ].
Lemma px_run2 : run px_h2 px_w2 = ex_w.
Proof. vm_compute. reflexivity. Qed.

Lemma px_ok_vals : ok_val px_N /\ ok_val px_E.
Proof.
  split; (split; [cbn; intuition discriminate | split; [cbn; intuition discriminate | vm_compute; reflexivity]]).
Qed.

Lemma px_actions_ok : Forall action_ok px_h2.
Proof.
  unfold px_h2. repeat (apply Forall_cons || apply Forall_nil); cbn [action_ok edit_ok]; try exact Logic.I.
  all: unfold TreeFacts.valid_path; vm_compute; TreeFacts.tf_valid.
Qed.

Example px_identity_shown :
  user_name (x_l ex_c) (x_g ex_c) = px_N /\ user_email (x_l ex_c) (x_g ex_c) = px_E /\
  commit_logged ex_env ex_msg ex_w ex_c px_N px_E.
Proof.
  pose proof (log_shows_configured_identity ex_env px_N ex_env px_E px_w0 px_w1 px_w2
                [] [ESetLcfg (w_lcfg px_w1)] [] [ESetLcfg (w_lcfg px_w2)] [] px_h2
                ex_env ex_msg ex_c px_w0_reach (proj1 px_ok_vals) (proj2 px_ok_vals) px_stepN
                (Forall_nil _) eq_refl px_stepE px_actions_ok) as H.
  rewrite px_run2 in H. apply H.
  - vm_compute. reflexivity.
  - vm_compute. reflexivity.
  - exact ex_ctx.
  - exact ex_gate.
  - exact ex_sign_ok.
  - vm_compute. reflexivity.
  - apply SnapshotFacts.small_store_b. vm_compute. reflexivity.
Qed.

(* ------------------------------------------------------------------ *)
Print Assumptions cfg_add_reload.
Print Assumptions cfg_written_eff.
Print Assumptions config_step_cases.
Print Assumptions setting_run.
Print Assumptions accepted_key_is_effective.
Print Assumptions config_accepted.
Print Assumptions config_accepted_sections.
Print Assumptions accepted_config_key_ok.
Print Assumptions config_never_alters_another_key.
Print Assumptions setting_persists.
Print Assumptions setting_persists_ok.
Print Assumptions other_settings_persist.
Print Assumptions reachable_setting_run.
Print Assumptions local_identity_persists.
Print Assumptions global_identity_persists.
Print Assumptions local_identity_persists_any.
Print Assumptions global_identity_persists_any.
Print Assumptions local_name_persists.
Print Assumptions local_email_persists.
Print Assumptions global_name_persists.
Print Assumptions global_email_persists.
Print Assumptions commit_then_log_reachable.
Print Assumptions log_shows_last_local_name.
Print Assumptions log_shows_last_global_name.
Print Assumptions log_shows_configured_identity.
Print Assumptions px_ambiguous_keys_refused.
Print Assumptions px_effective_values.
Print Assumptions px_identity_shown.
