(* StatusFacts.v — property C13 at COMMAND / STEP level.

   `status` is evaluated exactly: it never writes ([status_pure]), its outcome
   is a function of the world ([status_step]), it succeeds as soon as the
   context and HEAD's snapshot load ([status_succeeds_when_loadable]) — which
   they do on every reachable world ([status_on_reachable]) — and a line
   "modified p" / "deleted p" / "untracked p" / "staged-* p" is printed
   exactly when p is in the corresponding class ([modified_line_iff], ...).
   Rewriting a file with the bytes it already holds changes nothing
   ([identical_rewrite_same_world], [identical_rewrite_reports_nothing]);
   adding an ignored, untracked file changes nothing in the report
   ([status_unaffected_by_untracked_ignored]). *)
From Coq Require Import Strings.String Strings.Byte.
From Coq Require Import List Bool NArith ZArith Arith Sorted.
From Coq Require Import Lia ZifyBool ZifyNat ZifyN.
From Goit Require Import Bytes Sha1 Obj Refs Tree Index Regex GoRegex Commit Reflog Config Ignore World Repo.
From Goit Require Import BytesFacts ObjFacts IndexFacts TreeFacts IgnoreFacts MonadFacts Inv
                         ExactFacts BranchFacts SnapshotFacts.
Import ListNotations.

#[local] Arguments sha1 : simpl never.
#[local] Arguments obj_id : simpl never.
#[local] Arguments payload : simpl never.

(* ================================================================== *)
(** * 1. `status` evaluated exactly *)

(* the nodes of HEAD's snapshot as `status` loads them: nothing before the
   first commit of the current branch; [None] when the tree does not read *)
Definition head_ns (c : ctx) (w : world) : option (list node) :=
  match x_headc c with
  | None => Some []
  | Some (_, cm) =>
      match get_kind (w_objs w) KTree (c_tree cm) with
      | None => None
      | Some d => walk_tree (S (length (w_objs w))) (w_objs w) d
      end
  end.

Definition staged_part (w : world) (ns : list node) : list bytes :=
  map (fun d => dkind_tag (fst d) ++ snd d) (diff_with_tree (idx_of w) ns).
Definition modified_part (w : world) (pats : list regex) : list bytes :=
  map (fun kv => str "modified " ++ fst kv) (st_modified w pats).
Definition deleted_part (w : world) : list bytes :=
  map (fun e => str "deleted " ++ e_path e) (st_deleted w).
Definition untracked_part (w : world) (pats : list regex) : list bytes :=
  map (fun kv => str "untracked " ++ fst kv) (st_untracked w pats).

(* what `status` prints *)
Definition status_lines (w : world) (c : ctx) (ns : list node) : list bytes :=
  staged_part w ns ++ modified_part w (x_pats c) ++ deleted_part w ++ untracked_part w (x_pats c).

Lemma head_tree_nodes_eq : forall c s,
  head_tree_nodes c s = (match head_ns c (ms_w s) with Some ns => Ok ns | None => Err end, s).
Proof.
  intros c s. unfold head_tree_nodes, head_ns. rewrite ev_bind_getw.
  destruct (x_headc c) as [[hid cm]|]; [|reflexivity].
  rewrite ev_bind_of_opt. destruct (get_kind (w_objs (ms_w s)) KTree (c_tree cm)) as [d|]; [|reflexivity].
  rewrite ev_of_opt. destruct (walk_tree _ _ d); reflexivity.
Qed.

Lemma cmd_status_eq : forall c s,
  cmd_status c s =
  (match head_ns c (ms_w s) with Some ns => Ok (status_lines (ms_w s) c ns) | None => Err end, s).
Proof.
  intros c s. rewrite cmd_status_uses_filters. rewrite ev_bind_getw.
  unfold bind at 1. rewrite head_tree_nodes_eq.
  destruct (head_ns c (ms_w s)) as [ns|]; reflexivity.
Qed.

(* the outcome of `status`, as a function of the world *)
Definition status_outcome (w : world) : outcome :=
  if w_inited w then
    match ctx_of w with
    | Some c => match head_ns c w with
                | Some ns => OOk (status_lines w c ns)
                | None => OErr
                end
    | None => OErr
    end
  else OErr.

(* MAIN (S1, exact form): the step is the identity on the world, performs no
   effect, and answers [status_outcome] *)
Theorem status_step : forall e w,
  step (ACmd e CStatus) w = (w, status_outcome w, []).
Proof.
  intros e w. rewrite step_cmd_eq, run_cmd_eq. cbn [ms_w dispatch]. unfold status_outcome.
  destruct (w_inited w); [|reflexivity].
  destruct (ctx_of w) as [c|]; [|reflexivity].
  rewrite cmd_status_eq. cbn [ms_w]. destruct (head_ns c w) as [ns|]; reflexivity.
Qed.

(* (S1) whatever the outcome, no effect and the same world; never a crash *)
Theorem status_pure : forall e w,
  exists o, step (ACmd e CStatus) w = (w, o, []) /\ o <> OPanic.
Proof.
  intros e w. exists (status_outcome w). split; [apply status_step|].
  unfold status_outcome. destruct (w_inited w); [|discriminate].
  destruct (ctx_of w) as [c|]; [|discriminate]. destruct (head_ns c w); discriminate.
Qed.

Corollary status_world_unchanged : forall e w, step_w (ACmd e CStatus) w = w.
Proof. intros e w. unfold step_w. rewrite status_step. reflexivity. Qed.

Corollary status_no_effect : forall e w, snd (step (ACmd e CStatus) w) = [].
Proof. intros e w. rewrite status_step. reflexivity. Qed.

(* also under fault injection (nothing is written, so nothing can fail) *)
Theorem status_pure_fault : forall c w t k,
  snd (cmd_status c (mkMS w t k)) = mkMS w t k.
Proof. intros c w t k. rewrite cmd_status_eq. reflexivity. Qed.

(* (S2, first half) *)
Theorem status_succeeds_when_loadable : forall e w c ns,
  w_inited w = true -> ctx_of w = Some c -> head_ns c w = Some ns ->
  step (ACmd e CStatus) w = (w, OOk (status_lines w c ns), []).
Proof.
  intros e w c ns Hi Hc Hn. rewrite status_step. unfold status_outcome. rewrite Hi, Hc, Hn. reflexivity.
Qed.

(* ... and the converse: these are the only worlds where it succeeds *)
Theorem status_ok_inv : forall e w w' out tr,
  step (ACmd e CStatus) w = (w', OOk out, tr) ->
  w' = w /\ tr = [] /\ w_inited w = true /\
  exists c ns, ctx_of w = Some c /\ head_ns c w = Some ns /\ out = status_lines w c ns.
Proof.
  intros e w w' out tr. rewrite status_step. unfold status_outcome. intro H.
  injection H as Hw Ho Ht. split; [symmetry; exact Hw|]. split; [symmetry; exact Ht|].
  destruct (w_inited w); [|discriminate Ho]. split; [reflexivity|].
  destruct (ctx_of w) as [c|]; [|discriminate Ho].
  destruct (head_ns c w) as [ns|] eqn:Hn; [|discriminate Ho].
  injection Ho as Ho. exists c, ns. split; [reflexivity|]. split; [exact Hn | symmetry; exact Ho].
Qed.

(* HEAD's snapshot loads wherever every stored commit's tree reads back *)
Lemma head_ns_loads : forall w c,
  SnapshotsGood (w_objs w) -> ctx_of w = Some c -> exists ns, head_ns c w = Some ns.
Proof.
  intros w c Hs Hc. unfold head_ns. apply ctx_of_headc in Hc.
  destruct (x_headc c) as [[hid cm]|]; [|exists []; reflexivity].
  apply head_commit_some in Hc. destruct Hc as [_ Hg].
  destruct (Hs hid cm Hg) as (d & ns & Hk & Hw & _). rewrite Hk. exists ns. exact Hw.
Qed.

(* (S2, on every reachable world) no collision met, no giant object: `status`
   succeeds as soon as the repository is initialised and its context loads *)
Theorem status_on_reachable : forall e w c,
  Reachable w -> w_coll w = false -> SmallStore (w_objs w) ->
  w_inited w = true -> ctx_of w = Some c ->
  exists ns, head_ns c w = Some ns /\
             step (ACmd e CStatus) w = (w, OOk (status_lines w c ns), []).
Proof.
  intros e w c Hr Hcoll Hsm Hi Hc.
  destruct (reachable_good w Hr Hcoll Hsm) as (_ & _ & Hs & _).
  destruct (head_ns_loads w c (SnapshotsGood'_weaken _ Hs) Hc) as [ns Hn].
  exists ns. split; [exact Hn | apply status_succeeds_when_loadable; assumption].
Qed.

(* ================================================================== *)
(** * 2. The four classes of lines *)

(* the tags begin with four different bytes, so a line determines its class *)
Definition first_byte (l : bytes) : option byte := match l with [] => None | b :: _ => Some b end.

Lemma staged_tag_first : forall k p, first_byte (dkind_tag k ++ p) = Some x73.
Proof. intros [] p; reflexivity. Qed.
Lemma modified_tag_first : forall p, first_byte (str "modified " ++ p) = Some x6d.
Proof. reflexivity. Qed.
Lemma deleted_tag_first : forall p, first_byte (str "deleted " ++ p) = Some x64.
Proof. reflexivity. Qed.
Lemma untracked_tag_first : forall p, first_byte (str "untracked " ++ p) = Some x75.
Proof. reflexivity. Qed.

Theorem tags_distinct : forall k p q,
  dkind_tag k ++ p <> str "modified " ++ q /\
  dkind_tag k ++ p <> str "deleted " ++ q /\
  dkind_tag k ++ p <> str "untracked " ++ q /\
  str "modified " ++ p <> str "deleted " ++ q /\
  str "modified " ++ p <> str "untracked " ++ q /\
  str "deleted " ++ p <> str "untracked " ++ q.
Proof.
  intros k p q.
  repeat split; intro E; apply (f_equal first_byte) in E;
    rewrite ?staged_tag_first, ?modified_tag_first, ?deleted_tag_first, ?untracked_tag_first in E;
    discriminate E.
Qed.

(* the three staged tags are not prefixes of one another either *)
Lemma dkind_tag_inj : forall k k' p p', dkind_tag k ++ p = dkind_tag k' ++ p' -> k = k' /\ p = p'.
Proof.
  intros k k' p p' E. destruct k, k'; cbn in E; try discriminate E;
    (split; [reflexivity|]); repeat (injection E as E); exact E.
Qed.

Lemma staged_part_first : forall w ns l, In l (staged_part w ns) -> first_byte l = Some x73.
Proof.
  intros w ns l H. unfold staged_part in H. apply in_map_iff in H.
  destruct H as [[k p] [<- _]]. apply staged_tag_first.
Qed.
Lemma modified_part_first : forall w pats l, In l (modified_part w pats) -> first_byte l = Some x6d.
Proof.
  intros w pats l H. unfold modified_part in H. apply in_map_iff in H.
  destruct H as [kv [<- _]]. reflexivity.
Qed.
Lemma deleted_part_first : forall w l, In l (deleted_part w) -> first_byte l = Some x64.
Proof.
  intros w l H. unfold deleted_part in H. apply in_map_iff in H.
  destruct H as [en [<- _]]. reflexivity.
Qed.
Lemma untracked_part_first : forall w pats l, In l (untracked_part w pats) -> first_byte l = Some x75.
Proof.
  intros w pats l H. unfold untracked_part in H. apply in_map_iff in H.
  destruct H as [kv [<- _]]. reflexivity.
Qed.

Lemma status_lines_in : forall w c ns l,
  In l (status_lines w c ns) <->
  In l (staged_part w ns) \/ In l (modified_part w (x_pats c)) \/
  In l (deleted_part w) \/ In l (untracked_part w (x_pats c)).
Proof. intros w c ns l. unfold status_lines. rewrite !in_app_iff. reflexivity. Qed.

(* a line of the report is in the part its first byte names *)
Ltac wrong_part H :=
  first [ apply staged_part_first in H | apply modified_part_first in H
        | apply deleted_part_first in H | apply untracked_part_first in H ];
  rewrite ?staged_tag_first, ?modified_tag_first, ?deleted_tag_first, ?untracked_tag_first in H;
  discriminate H.

Lemma staged_line_part : forall w c ns k p,
  In (dkind_tag k ++ p) (status_lines w c ns) <-> In (dkind_tag k ++ p) (staged_part w ns).
Proof.
  intros w c ns k p. rewrite status_lines_in. split.
  - intros [H|[H|[H|H]]]; [exact H | wrong_part H | wrong_part H | wrong_part H].
  - intro H. left. exact H.
Qed.
Lemma modified_line_part : forall w c ns p,
  In (str "modified " ++ p) (status_lines w c ns) <-> In (str "modified " ++ p) (modified_part w (x_pats c)).
Proof.
  intros w c ns p. rewrite status_lines_in. split.
  - intros [H|[H|[H|H]]]; [wrong_part H | exact H | wrong_part H | wrong_part H].
  - intro H. right. left. exact H.
Qed.
Lemma deleted_line_part : forall w c ns p,
  In (str "deleted " ++ p) (status_lines w c ns) <-> In (str "deleted " ++ p) (deleted_part w).
Proof.
  intros w c ns p. rewrite status_lines_in. split.
  - intros [H|[H|[H|H]]]; [wrong_part H | wrong_part H | exact H | wrong_part H].
  - intro H. right. right. left. exact H.
Qed.
Lemma untracked_line_part : forall w c ns p,
  In (str "untracked " ++ p) (status_lines w c ns) <-> In (str "untracked " ++ p) (untracked_part w (x_pats c)).
Proof.
  intros w c ns p. rewrite status_lines_in. split.
  - intros [H|[H|[H|H]]]; [wrong_part H | wrong_part H | wrong_part H | exact H].
  - intro H. right. right. right. exact H.
Qed.

(* ---------- the exact characterisations (S2, second half) ---------- *)

(* "staged-<kind> p" : exactly the differences between the staging area and HEAD's snapshot *)
Theorem staged_line_iff : forall w c ns k p,
  In (dkind_tag k ++ p) (status_lines w c ns) <-> In (k, p) (diff_with_tree (idx_of w) ns).
Proof.
  intros w c ns k p. rewrite staged_line_part. unfold staged_part. rewrite in_map_iff. split.
  - intros [[k' p'] [E Hin]]. cbn [fst snd] in E. apply dkind_tag_inj in E. destruct E as [-> ->]. exact Hin.
  - intro Hin. exists (k, p). split; [reflexivity | exact Hin].
Qed.

(* "modified p" : exactly the visible files at a staged path whose bytes hash
   to another id than the staged one *)
Theorem modified_line_iff : forall w c ns p,
  In (str "modified " ++ p) (status_lines w c ns) <->
  exists data, In (p, data) (w_files w) /\ visible w (x_pats c) p = true /\
    exists i en, get_entry (idx_of w) p = Some (i, en) /\ e_id en <> obj_id KBlob data.
Proof.
  intros w c ns p. rewrite modified_line_part. unfold modified_part. rewrite in_map_iff. split.
  - intros [[p' data] [E Hin]]. cbn [fst] in E. apply app_inv_head in E. subst p'.
    exists data. apply modified_exact. exact Hin.
  - intros [data H]. exists (p, data). split; [reflexivity|]. apply modified_exact. exact H.
Qed.

(* "deleted p" : exactly the staged paths at which there is no file *)
Theorem deleted_line_iff : forall w c ns p,
  In (str "deleted " ++ p) (status_lines w c ns) <->
  (exists en, In en (idx_of w) /\ e_path en = p) /\ wt_stat w p <> SFile.
Proof.
  intros w c ns p. rewrite deleted_line_part, <- deleted_paths_exact. unfold deleted_part.
  rewrite !in_map_iff. split.
  - intros [en [E Hin]]. apply app_inv_head in E. exists en. split; assumption.
  - intros [en [E Hin]]. exists en. split; [rewrite E; reflexivity | exact Hin].
Qed.

(* "untracked p" : exactly the visible files that are not staged *)
Theorem untracked_line_iff : forall w c ns p,
  In (str "untracked " ++ p) (status_lines w c ns) <->
  exists data, In (p, data) (w_files w) /\ visible w (x_pats c) p = true /\ tracked w p = false.
Proof.
  intros w c ns p. rewrite untracked_line_part. unfold untracked_part. rewrite in_map_iff. split.
  - intros [[p' data] [E Hin]]. cbn [fst] in E. apply app_inv_head in E. subst p'.
    exists data. apply untracked_exact in Hin. exact Hin.
  - intros [data H]. exists (p, data). split; [reflexivity|]. apply untracked_exact. exact H.
Qed.

(* every line of the report is of one of the four shapes *)
Theorem status_line_shape : forall w c ns l,
  In l (status_lines w c ns) ->
  (exists k p, l = dkind_tag k ++ p) \/ (exists p, l = str "modified " ++ p) \/
  (exists p, l = str "deleted " ++ p) \/ (exists p, l = str "untracked " ++ p).
Proof.
  intros w c ns l H. apply status_lines_in in H.
  destruct H as [H|[H|[H|H]]]; apply in_map_iff in H; destruct H as [x [<- _]].
  - left. exists (fst x), (snd x). reflexivity.
  - right. left. exists (fst x). reflexivity.
  - right. right. left. exists (e_path x). reflexivity.
  - right. right. right. exists (fst x). reflexivity.
Qed.

(* ================================================================== *)
(** * 3. The same in terms of [file] / [staged] / [tracked] *)

(* the work tree as every history builds it: strictly ascending paths *)
Definition dirs_sorted (s : list bytes) : Prop := StronglySorted (fun a b => blt a b = true) s.
Definition wt_sorted (w : world) : Prop := am_sorted (w_files w) /\ dirs_sorted (w_dirs w).

Lemma am_sorted_in_get : forall (V : Type) (m : amap V) k v,
  am_sorted m -> In (k, v) m -> am_get m k = Some v.
Proof.
  intros V m k v. induction m as [|[k0 v0] r IH]; intros Hs Hin; [destruct Hin|].
  apply am_sorted_cons in Hs. destruct Hs as [Hs Hf]. cbn [am_get].
  destruct Hin as [E|Hin].
  - injection E as -> ->. rewrite bytes_eqb_refl. reflexivity.
  - assert (Hlt : blt k0 k = true).
    { rewrite Forall_forall in Hf. exact (Hf (k, v) Hin). }
    assert (Hne : bytes_eqb k0 k = false) by (apply bytes_eqb_neq; apply blt_neq; exact Hlt).
    rewrite Hne. apply IH; assumption.
Qed.

Lemma file_in_iff : forall w p data,
  am_sorted (w_files w) -> (In (p, data) (w_files w) <-> file w p = Some data).
Proof.
  intros w p data Hs. unfold file. split; [apply am_sorted_in_get; exact Hs | apply am_get_in].
Qed.

Lemma staged_get_entry : forall w p id,
  staged w p = Some id <-> exists i en, get_entry (idx_of w) p = Some (i, en) /\ e_id en = id.
Proof.
  intros w p id. unfold staged. destruct (get_entry (idx_of w) p) as [[i en]|]; cbn [option_map snd]; split.
  - intro E. injection E as E. exists i, en. split; [reflexivity | exact E].
  - intros (i' & en' & E & Hid). injection E as _ ->. rewrite Hid. reflexivity.
  - discriminate.
  - intros (i' & en' & E & _). discriminate E.
Qed.

Lemma tracked_iff_entry : forall w p,
  Canonical (idx_of w) -> (tracked w p = true <-> exists en, In en (idx_of w) /\ e_path en = p).
Proof.
  intros w p Hc. split; [apply tracked_In|].
  intro H. destruct (get_entry_complete _ _ Hc H) as (i & en & Hg). unfold tracked. rewrite Hg. reflexivity.
Qed.

Theorem modified_line_iff_file : forall w c ns p,
  am_sorted (w_files w) ->
  (In (str "modified " ++ p) (status_lines w c ns) <->
   exists data id, file w p = Some data /\ staged w p = Some id /\
                   visible w (x_pats c) p = true /\ id <> obj_id KBlob data).
Proof.
  intros w c ns p Hs. rewrite modified_line_iff. split.
  - intros (data & Hin & Hv & i & en & Hg & Hne). exists data, (e_id en).
    split; [apply file_in_iff; assumption|]. split; [|split; assumption].
    apply staged_get_entry. exists i, en. split; [exact Hg | reflexivity].
  - intros (data & id & Hf & Hst & Hv & Hne). exists data.
    split; [apply file_in_iff; assumption|]. split; [exact Hv|].
    apply staged_get_entry in Hst. destruct Hst as (i & en & Hg & Hid).
    exists i, en. split; [exact Hg | rewrite Hid; exact Hne].
Qed.

Theorem deleted_line_iff_tracked : forall w c ns p,
  Canonical (idx_of w) ->
  (In (str "deleted " ++ p) (status_lines w c ns) <-> tracked w p = true /\ wt_stat w p <> SFile).
Proof. intros w c ns p Hc. rewrite deleted_line_iff, (tracked_iff_entry w p Hc). reflexivity. Qed.

Theorem untracked_line_iff_file : forall w c ns p,
  am_sorted (w_files w) ->
  (In (str "untracked " ++ p) (status_lines w c ns) <->
   exists data, file w p = Some data /\ visible w (x_pats c) p = true /\ tracked w p = false).
Proof.
  intros w c ns p Hs. rewrite untracked_line_iff. split; intros (data & Hin & H); exists data;
    (split; [apply file_in_iff in Hin; assumption | exact H]).
Qed.

(* a tracked file at a clean path is always examined, so for such a file
   "modified" means exactly "other bytes than staged" *)
Corollary tracked_file_modified_iff : forall w c ns p data id,
  am_sorted (w_files w) -> last p x00 <> c_slash ->
  file w p = Some data -> staged w p = Some id ->
  (In (str "modified " ++ p) (status_lines w c ns) <-> id <> obj_id KBlob data).
Proof.
  intros w c ns p data id Hs Hl Hf Hst. rewrite (modified_line_iff_file w c ns p Hs). split.
  - intros (data' & id' & Hf' & Hst' & _ & Hne). congruence.
  - intro Hne. exists data, id. split; [exact Hf|]. split; [exact Hst|]. split; [|exact Hne].
    apply tracked_visible; [|exact Hl]. unfold tracked.
    apply staged_get_entry in Hst. destruct Hst as (i & en & Hg & _). rewrite Hg. reflexivity.
Qed.

(* MAIN: a file whose bytes hash to the staged id is not reported at all *)
Theorem unchanged_file_not_reported : forall w c ns p data,
  am_sorted (w_files w) ->
  file w p = Some data -> staged w p = Some (obj_id KBlob data) -> wt_stat w p = SFile ->
  ~ In (str "modified " ++ p) (status_lines w c ns) /\
  ~ In (str "deleted " ++ p) (status_lines w c ns) /\
  ~ In (str "untracked " ++ p) (status_lines w c ns).
Proof.
  intros w c ns p data Hs Hf Hst Hfile. split; [|split].
  - rewrite (modified_line_iff_file w c ns p Hs). intros (data' & id' & Hf' & Hst' & _ & Hne).
    rewrite Hf in Hf'. injection Hf' as <-. rewrite Hst in Hst'. injection Hst' as <-.
    apply Hne. reflexivity.
  - rewrite deleted_line_iff. intros [_ Hn]. exact (Hn Hfile).
  - rewrite untracked_line_iff. intros (data' & _ & _ & Ht).
    apply staged_get_entry in Hst. destruct Hst as (i & en & Hg & _).
    unfold tracked in Ht. rewrite Hg in Ht. discriminate Ht.
Qed.

(* ================================================================== *)
(** * 4. The work tree stays sorted on every history *)

Lemma ss_filter : forall (A : Type) (R : A -> A -> Prop) (f : A -> bool) l,
  StronglySorted R l -> StronglySorted R (filter f l).
Proof.
  intros A R f l Hs. induction Hs as [|a l Hs IH Hf]; cbn [filter]; [constructor|].
  destruct (f a); [|exact IH]. constructor; [exact IH|].
  rewrite Forall_forall in Hf |- *. intros x Hx. apply filter_In in Hx. exact (Hf x (proj1 Hx)).
Qed.

Lemma set_add_In : forall s k x, In x (set_add s k) <-> x = k \/ In x s.
Proof.
  induction s as [|k' r IH]; intros k x; cbn [set_add].
  - cbn [In]. split; (intros [H|[]]; left; congruence).
  - destruct (bytes_eqb k' k) eqn:E.
    + apply bytes_eqb_eq in E. subst k'. cbn [In]. split; [intro H; right; exact H|].
      intros [H|H]; [left; congruence | exact H].
    + destruct (blt k k'); cbn [In]; [split; (intros [H|H]; [left; congruence | right; exact H])|].
      rewrite IH. split.
      * intros [H|[H|H]]; [right; left; exact H | left; exact H | right; right; exact H].
      * intros [H|[H|H]]; [right; left; exact H | left; exact H | right; right; exact H].
Qed.

Lemma set_add_sorted : forall s k, dirs_sorted s -> dirs_sorted (set_add s k).
Proof.
  unfold dirs_sorted. induction s as [|k' r IH]; intros k Hs; cbn [set_add].
  - constructor; constructor.
  - destruct (bytes_eqb k' k) eqn:E; [exact Hs|].
    destruct (blt k k') eqn:L.
    + constructor; [exact Hs|]. constructor; [exact L|].
      inversion Hs as [|a l Hs' Hf]; subst. rewrite Forall_forall in Hf |- *.
      intros x Hx. apply (blt_trans k k' x L (Hf x Hx)).
    + inversion Hs as [|a l Hs' Hf]; subst. constructor; [apply IH; exact Hs'|].
      rewrite Forall_forall in Hf |- *. intros x Hx. apply set_add_In in Hx.
      destruct Hx as [->|Hx]; [|exact (Hf x Hx)].
      apply bytes_eqb_neq in E. destruct (blt_total k' k) as [H|[H|H]]; [exact H | contradiction | congruence].
Qed.

Lemma fold_set_add_sorted : forall l s, dirs_sorted s -> dirs_sorted (fold_left set_add l s).
Proof.
  induction l as [|k l IH]; intros s Hs; cbn [fold_left]; [exact Hs|]. apply IH, set_add_sorted, Hs.
Qed.

Lemma wt_sorted_effect : forall e w, wt_sorted w -> wt_sorted (apply_effect e w).
Proof.
  intros e w [Hf Hd]. unfold wt_sorted.
  destruct e; autorewrite with wfields; try (split; assumption).
  - split; [apply am_set_sorted; exact Hf | exact Hd].
  - split; [apply am_del_sorted; exact Hf | apply ss_filter; exact Hd].
  - split; [exact Hf | apply fold_set_add_sorted; exact Hd].
Qed.

Lemma wt_sorted_edit : forall u w, wt_sorted w -> wt_sorted (apply_edit u w).
Proof.
  intros u w Hs. destruct u; cbn [apply_edit].
  - apply wt_sorted_effect. destruct (parent_dir p); [apply wt_sorted_effect|]; exact Hs.
  - apply wt_sorted_effect. exact Hs.
  - destruct Hs as [Hf Hd]. split; cbn [set_wt w_files w_dirs]; apply ss_filter; assumption.
  - apply wt_sorted_effect. exact Hs.
Qed.

Theorem wt_sorted_run_from : forall h w, wt_sorted w -> wt_sorted (run h w).
Proof.
  apply (run_invariant wt_sorted (fun _ _ => True)).
  - apply run_cmd_emits_stable. intros e w Hs. split; [exact Logic.I | apply wt_sorted_effect; exact Hs].
  - exact wt_sorted_edit.
Qed.

Theorem wt_sorted_run : forall h, wt_sorted (run h w_empty).
Proof. intro h. apply wt_sorted_run_from. split; constructor. Qed.

Corollary wt_sorted_reachable : forall w, Reachable w -> wt_sorted w.
Proof. intros w (h & _ & ->). apply wt_sorted_run. Qed.

(* ================================================================== *)
(** * 5. (S3) Rewriting a file with the bytes it already holds *)

(* every directory above a file exists (what a file system guarantees) *)
Definition dirs_cover (w : world) : bool :=
  forallb (fun kv => forallb (set_mem (w_dirs w)) (ancestors (fst kv))) (w_files w).

Lemma set_mem_iff : forall s k, set_mem s k = true <-> In k s.
Proof.
  intros s k. unfold set_mem. rewrite existsb_exists. split.
  - intros [x [Hx E]]. apply bytes_eqb_eq in E. subst x. exact Hx.
  - intro H. exists k. split; [exact H | apply bytes_eqb_refl].
Qed.

Lemma dirs_cover_spec : forall w f data a,
  dirs_cover w = true -> In (f, data) (w_files w) -> In a (ancestors f) -> In a (w_dirs w).
Proof.
  intros w f data a Hc Hin Ha. unfold dirs_cover in Hc. rewrite forallb_forall in Hc.
  specialize (Hc (f, data) Hin). cbn [fst] in Hc. rewrite forallb_forall in Hc.
  apply set_mem_iff. exact (Hc a Ha).
Qed.

Lemma set_add_present : forall s k, dirs_sorted s -> In k s -> set_add s k = s.
Proof.
  unfold dirs_sorted. induction s as [|k' r IH]; intros k Hs Hin; [destruct Hin|].
  cbn [set_add]. destruct (bytes_eqb k' k) eqn:E; [reflexivity|].
  apply bytes_eqb_neq in E. destruct Hin as [H|Hin]; [contradiction|].
  inversion Hs as [|a l Hs' Hf]; subst. rewrite Forall_forall in Hf.
  rewrite (blt_asym k' k (Hf k Hin)). rewrite (IH k Hs' Hin). reflexivity.
Qed.

Lemma fold_set_add_present : forall l s,
  dirs_sorted s -> (forall k, In k l -> In k s) -> fold_left set_add l s = s.
Proof.
  induction l as [|k l IH]; intros s Hs Hall; cbn [fold_left]; [reflexivity|].
  rewrite (set_add_present s k Hs (Hall k (or_introl eq_refl))).
  apply IH; [exact Hs|]. intros x Hx. apply Hall. right. exact Hx.
Qed.

Lemma am_set_present : forall (V : Type) (m : amap V) k v,
  am_sorted m -> am_get m k = Some v -> am_set m k v = m.
Proof.
  intros V m k v Hs Hg. apply am_ext; [apply am_set_sorted; exact Hs | exact Hs|].
  intro k'. destruct (bytes_eq_dec k' k) as [->|Hne].
  - rewrite am_get_set_same, Hg. reflexivity.
  - apply am_get_set_other. exact Hne.
Qed.

Lemma mkdir_present : forall w dd,
  dirs_sorted (w_dirs w) -> (forall a, In a (ancestors dd ++ [dd]) -> In a (w_dirs w)) ->
  apply_effect (EMkdirAll dd) w = w.
Proof.
  intros w dd Hs Hall. cbn [apply_effect]. rewrite (fold_set_add_present _ _ Hs Hall).
  destruct w; reflexivity.
Qed.

(* MAIN (S3, the world): in a sorted work tree where the directories above
   [p] exist, writing to [p] the bytes it already holds is the identity *)
Theorem identical_rewrite_same_world : forall w p d,
  wt_sorted w -> (forall a, In a (ancestors p) -> In a (w_dirs w)) ->
  file w p = Some d ->
  apply_edit (UWrite p d) w = w.
Proof.
  intros w p d [Hf Hd] Hanc Hfile. cbn [apply_edit].
  assert (H1 : match parent_dir p with Some dd => apply_effect (EMkdirAll dd) w | None => w end = w).
  { destruct (parent_dir p) as [dd|] eqn:Ep; [|reflexivity].
    apply mkdir_present; [exact Hd|]. intros a Ha. apply Hanc.
    pose proof (ex_parent_dir_ancestor p dd Ep) as Hdd.
    apply in_app_or in Ha. destruct Ha as [Ha|[<-|[]]]; [|exact Hdd].
    exact (ex_ancestors_trans a dd p Ha Hdd). }
  rewrite H1. cbn [apply_effect]. rewrite (am_set_present _ _ _ _ Hf Hfile). destruct w; reflexivity.
Qed.

Corollary identical_rewrite_same_world' : forall w p d,
  wt_sorted w -> dirs_cover w = true -> file w p = Some d -> apply_edit (UWrite p d) w = w.
Proof.
  intros w p d Hs Hc Hfile. apply identical_rewrite_same_world; [exact Hs | | exact Hfile].
  intros a Ha. apply (dirs_cover_spec w p d a Hc); [apply am_get_in; exact Hfile | exact Ha].
Qed.

(* MAIN (S3): ... hence `status` answers the same, whatever it answered *)
Theorem identical_rewrite_reports_nothing : forall e w p d,
  wt_sorted w -> (forall a, In a (ancestors p) -> In a (w_dirs w)) ->
  file w p = Some d ->
  step (ACmd e CStatus) (apply_edit (UWrite p d) w) = step (ACmd e CStatus) w.
Proof. intros e w p d Hs Hanc Hf. rewrite (identical_rewrite_same_world w p d Hs Hanc Hf). reflexivity. Qed.

(* as two steps of a history: the edit, then `status` *)
Corollary identical_rewrite_history : forall e h p d,
  let w := run h w_empty in
  (forall a, In a (ancestors p) -> In a (w_dirs w)) -> file w p = Some d ->
  run (h ++ [AEdit (UWrite p d)]) w_empty = w /\
  step (ACmd e CStatus) (run (h ++ [AEdit (UWrite p d)]) w_empty) = step (ACmd e CStatus) w.
Proof.
  intros e h p d w Hanc Hf.
  assert (E : run (h ++ [AEdit (UWrite p d)]) w_empty = w).
  { unfold run. rewrite fold_left_app. cbn [fold_left]. unfold step_w. cbn [step fst].
    apply identical_rewrite_same_world; [apply wt_sorted_run | exact Hanc | exact Hf]. }
  split; [exact E | rewrite E; reflexivity].
Qed.

(* ... and a file that was clean before the rewrite is not reported after it *)
Corollary identical_rewrite_clean_stays_clean : forall w c ns p d,
  wt_sorted w -> (forall a, In a (ancestors p) -> In a (w_dirs w)) ->
  file w p = Some d -> staged w p = Some (obj_id KBlob d) -> wt_stat w p = SFile ->
  let w' := apply_edit (UWrite p d) w in
  ~ In (str "modified " ++ p) (status_lines w' c ns) /\
  ~ In (str "deleted " ++ p) (status_lines w' c ns) /\
  ~ In (str "untracked " ++ p) (status_lines w' c ns).
Proof.
  intros w c ns p d Hs Hanc Hf Hst Hfile w'. unfold w'.
  rewrite (identical_rewrite_same_world w p d Hs Hanc Hf).
  apply (unchanged_file_not_reported w c ns p d (proj1 Hs) Hf Hst Hfile).
Qed.

(* ================================================================== *)
(** * 6. (S4) Adding an ignored, untracked file *)

Lemma existsb_ext_in : forall (A : Type) (f g : A -> bool) l,
  (forall x, In x l -> f x = g x) -> existsb f l = existsb g l.
Proof.
  intros A f g l H. induction l as [|x l IH]; [reflexivity|]. cbn [existsb].
  rewrite (H x (or_introl eq_refl)), IH; [reflexivity|]. intros y Hy. apply H. right. exact Hy.
Qed.

Lemma forallb_ext_in : forall (A : Type) (f g : A -> bool) l,
  (forall x, In x l -> f x = g x) -> forallb f l = forallb g l.
Proof.
  intros A f g l H. induction l as [|x l IH]; [reflexivity|]. cbn [forallb].
  rewrite (H x (or_introl eq_refl)), IH; [reflexivity|]. intros y Hy. apply H. right. exact Hy.
Qed.

(* the work tree after [UWrite p d] *)
Lemma w_files_write : forall w p d, w_files (apply_edit (UWrite p d) w) = am_set (w_files w) p d.
Proof. intros w p d. cbn [apply_edit]. destruct (parent_dir p); reflexivity. Qed.

Lemma w_dirs_write : forall w p d,
  w_dirs (apply_edit (UWrite p d) w) =
  match parent_dir p with
  | Some dd => fold_left set_add (ancestors dd ++ [dd]) (w_dirs w)
  | None => w_dirs w
  end.
Proof. intros w p d. cbn [apply_edit]. destruct (parent_dir p); reflexivity. Qed.

Lemma idx_of_edit : forall u w, idx_of (apply_edit u w) = idx_of w.
Proof. intros u w. unfold idx_of. rewrite w_index_apply_edit. reflexivity. Qed.

Lemma fold_set_add_In : forall l s x, In x (fold_left set_add l s) <-> In x s \/ In x l.
Proof.
  induction l as [|k l IH]; intros s x; cbn [fold_left].
  - cbn [In]. tauto.
  - rewrite IH, set_add_In. cbn [In]. split.
    + intros [[H|H]|H]; [right; left; congruence | left; exact H | right; right; exact H].
    + intros [H|[H|H]]; [left; right; exact H | left; left; congruence | right; exact H].
Qed.

(* directories are only added *)
Lemma dirs_write_mono : forall w p d q,
  set_mem (w_dirs w) q = true -> set_mem (w_dirs (apply_edit (UWrite p d) w)) q = true.
Proof.
  intros w p d q H. rewrite w_dirs_write. destruct (parent_dir p); [|exact H].
  apply set_mem_iff. apply fold_set_add_In. left. apply set_mem_iff. exact H.
Qed.

(* [wt_stat] at a path other than [p], not below [p], that is not a missing directory *)
Lemma wt_stat_write_other : forall w p d q,
  q <> p -> ~ In p (ancestors q) ->
  (am_mem (w_files w) q = true \/ set_mem (w_dirs w) q = true) ->
  wt_stat (apply_edit (UWrite p d) w) q = wt_stat w q.
Proof.
  intros w p d q Hne Hnanc Hex. unfold wt_stat. rewrite w_files_write.
  destruct (bytes_eqb q [x2e]); [reflexivity|].
  assert (E1 : existsb (fun a => am_mem (am_set (w_files w) p d) a) (ancestors q)
               = existsb (fun a => am_mem (w_files w) a) (ancestors q)).
  { apply existsb_ext_in. intros a Ha. apply am_mem_set_other. intro E. subst a. exact (Hnanc Ha). }
  rewrite E1. destruct (existsb (fun a => am_mem (w_files w) a) (ancestors q)); [reflexivity|].
  rewrite (am_mem_set_other (w_files w) p d q Hne).
  destruct (am_mem (w_files w) q) eqn:Em; [reflexivity|].
  destruct Hex as [Hex|Hex]; [discriminate Hex|].
  rewrite Hex, (dirs_write_mono w p d q Hex). reflexivity.
Qed.

(* "there is a file at q" as a boolean *)
Definition is_file (w : world) (q : bytes) : bool :=
  negb (bytes_eqb q [x2e]) && negb (existsb (fun a => am_mem (w_files w) a) (ancestors q))
  && am_mem (w_files w) q.

Lemma not_file_is_file : forall w q,
  (match wt_stat w q with SFile => false | _ => true end) = negb (is_file w q).
Proof.
  intros w q. unfold wt_stat, is_file. destruct (bytes_eqb q [x2e]); [reflexivity|].
  destruct (existsb (fun a => am_mem (w_files w) a) (ancestors q)); [reflexivity|].
  destruct (am_mem (w_files w) q); [reflexivity|]. destruct (set_mem (w_dirs w) q); reflexivity.
Qed.

Lemma ignored_ext : forall w w' pats x,
  idx_of w' = idx_of w -> wt_stat w' x = wt_stat w x -> ignored w' pats x = ignored w pats x.
Proof. intros w w' pats x Hi Hs. unfold ignored. rewrite Hi, Hs. reflexivity. Qed.

Lemma filter_am_set_fresh : forall (V : Type) (g g' : bytes * V -> bool) m k v,
  am_get m k = None -> g' (k, v) = false -> (forall kv, In kv m -> g' kv = g kv) ->
  filter g' (am_set m k v) = filter g m.
Proof.
  intros V g g' m k v. induction m as [|[k0 v0] r IH]; intros Hg Hk Hext.
  - cbn [am_set filter]. rewrite Hk. reflexivity.
  - cbn [am_get] in Hg. cbn [am_set]. destruct (bytes_eqb k0 k); [discriminate Hg|].
    destruct (blt k k0).
    + cbn [filter]. rewrite Hk. change (filter g' ((k0, v0) :: r) = filter g ((k0, v0) :: r)).
      apply filter_ext_in. exact Hext.
    + cbn [filter]. rewrite (Hext (k0, v0) (or_introl eq_refl)).
      rewrite (IH Hg Hk); [reflexivity|]. intros kv Hin. apply Hext. right. exact Hin.
Qed.

Section AddIgnored.
  Variables (w : world) (p d : bytes) (pats : list regex).
  Let w' := apply_edit (UWrite p d) w.

  (* the file-system guarantee; [p] is a new name: no file, no directory;
     [p] is not staged; as a file, [p] is ignored *)
  Hypothesis Hcov : dirs_cover w = true.
  Hypothesis Hnew : file w p = None.
  Hypothesis Hnodir : set_mem (w_dirs w) p = false.
  Hypothesis Hcan : Canonical (idx_of w).
  Hypothesis Hut : tracked w p = false.
  Hypothesis Hig : ignored w' pats p = true.

  Lemma ai_idx : idx_of w' = idx_of w.
  Proof. apply idx_of_edit. Qed.

  Lemma ai_tracked : forall q, tracked w' q = tracked w q.
  Proof. intro q. unfold tracked. rewrite ai_idx. reflexivity. Qed.

  Lemma ai_old_file : forall f data, In (f, data) (w_files w) ->
    am_mem (w_files w) f = true /\ f <> p /\ ~ In p (ancestors f).
  Proof.
    intros f data Hin.
    assert (Hm : am_mem (w_files w) f = true).
    { apply am_mem_iff. unfold am_keys. apply in_map_iff. exists (f, data). split; [reflexivity | exact Hin]. }
    split; [exact Hm|]. split.
    - intro E. subst f. unfold file in Hnew. apply am_mem_false in Hnew. rewrite Hnew in Hm. discriminate Hm.
    - intro Ha. pose proof (dirs_cover_spec w f data p Hcov Hin Ha) as Hd.
      apply set_mem_iff in Hd. rewrite Hd in Hnodir. discriminate Hnodir.
  Qed.

  Lemma ai_wt_stat_file : forall f data, In (f, data) (w_files w) -> wt_stat w' f = wt_stat w f.
  Proof.
    intros f data Hin. destruct (ai_old_file f data Hin) as (Hm & Hne & Hna).
    apply wt_stat_write_other; [exact Hne | exact Hna | left; exact Hm].
  Qed.

  Lemma ai_wt_stat_anc : forall f data a, In (f, data) (w_files w) -> In a (ancestors f) ->
    wt_stat w' a = wt_stat w a.
  Proof.
    intros f data a Hin Ha. destruct (ai_old_file f data Hin) as (_ & _ & Hna).
    apply wt_stat_write_other.
    - intro E. subst a. exact (Hna Ha).
    - intro Hp. exact (Hna (ex_ancestors_trans p a f Hp Ha)).
    - right. apply set_mem_iff. exact (dirs_cover_spec w f data a Hcov Hin Ha).
  Qed.

  (* every file that was there is exactly as visible as before *)
  Lemma ai_visible_old : forall f data, In (f, data) (w_files w) -> visible w' pats f = visible w pats f.
  Proof.
    intros f data Hin. unfold visible. rewrite ai_tracked.
    rewrite (ignored_ext w w' pats f ai_idx (ai_wt_stat_file f data Hin)).
    f_equal. apply forallb_ext_in. intros a Ha.
    rewrite (ignored_ext w w' pats a ai_idx (ai_wt_stat_anc f data a Hin Ha)), ai_idx, ?ai_tracked. reflexivity.
  Qed.

  (* the new file is not *)
  Lemma ai_visible_new : visible w' pats p = false.
  Proof. unfold visible. rewrite Hig, ai_tracked, Hut. cbn [negb andb]. apply andb_false_r. Qed.

  Lemma ai_vis : st_vis w' pats = st_vis w pats.
  Proof.
    unfold st_vis. unfold w' at 2. rewrite w_files_write.
    apply (filter_am_set_fresh bytes (fun kv => visible w pats (fst kv)) (fun kv => visible w' pats (fst kv))).
    - exact Hnew.
    - exact ai_visible_new.
    - intros [f data] Hin. cbn [fst]. apply (ai_visible_old f data Hin).
  Qed.

  Lemma ai_modified : st_modified w' pats = st_modified w pats.
  Proof. unfold st_modified. rewrite ai_vis, ai_idx. reflexivity. Qed.

  Lemma ai_untracked : st_untracked w' pats = st_untracked w pats.
  Proof.
    unfold st_untracked. rewrite ai_vis. apply filter_ext. intros kv. rewrite ai_tracked. reflexivity.
  Qed.

  Lemma ai_is_file : forall q, q <> p -> is_file w' q = is_file w q.
  Proof.
    intros q Hne. unfold is_file. unfold w' at 1 2. rewrite w_files_write.
    rewrite (am_mem_set_other (w_files w) p d q Hne).
    destruct (am_mem (w_files w) q) eqn:Em; [|rewrite !andb_false_r; reflexivity].
    rewrite !andb_true_r. f_equal. f_equal.
    apply existsb_ext_in. intros a Ha. apply am_mem_set_other. intro E. subst a.
    (* [q] is a file below [p]: then [p] would be a directory *)
    apply am_mem_get in Em. destruct Em as [data Hg]. apply am_get_in in Hg.
    destruct (ai_old_file q data Hg) as (_ & _ & Hna). exact (Hna Ha).
  Qed.

  Lemma ai_deleted : st_deleted w' = st_deleted w.
  Proof.
    unfold st_deleted. rewrite ai_idx. apply filter_ext_in. intros en Hin.
    rewrite !not_file_is_file. f_equal. apply ai_is_file.
    intro E. assert (Ht : tracked w p = true).
    { apply (tracked_iff_entry w p Hcan). exists en. split; assumption. }
    rewrite Ht in Hut. discriminate Hut.
  Qed.

  (* MAIN (S4, the report): the four parts are literally the same lists *)
  Theorem add_ignored_same_lines : forall c ns,
    x_pats c = pats -> status_lines w' c ns = status_lines w c ns.
  Proof.
    intros c ns Hp. unfold status_lines, staged_part, modified_part, deleted_part, untracked_part.
    rewrite Hp, ai_idx, ai_modified, ai_deleted, ai_untracked. reflexivity.
  Qed.
End AddIgnored.

Lemma ctx_of_write : forall w p d,
  p <> str ".goitignore" -> ctx_of (apply_edit (UWrite p d) w) = ctx_of w.
Proof.
  intros w p d Hne. unfold ctx_of, head_commit.
  rewrite w_gcfg_apply_edit, w_lcfg_apply_edit, w_refs_apply_edit, w_head_apply_edit,
          w_objs_apply_edit, w_files_write.
  rewrite (am_get_set_other (w_files w) p d (str ".goitignore")); [reflexivity|].
  intro E. apply Hne. symmetry. exact E.
Qed.

Lemma head_ns_edit : forall c u w, head_ns c (apply_edit u w) = head_ns c w.
Proof. intros c u w. unfold head_ns. rewrite w_objs_apply_edit. reflexivity. Qed.

(* MAIN (S4, the step): a new file that is not staged and that the patterns
   in force ignore leaves the answer of `status` unchanged — the same lines in
   the same order, or the same refusal.  ([p] is not .goitignore itself: that
   file changes the patterns.) *)
Theorem status_unaffected_by_untracked_ignored : forall e w p d,
  dirs_cover w = true -> file w p = None -> set_mem (w_dirs w) p = false ->
  Canonical (idx_of w) -> tracked w p = false ->
  p <> str ".goitignore" ->
  (forall c, ctx_of w = Some c -> ignored (apply_edit (UWrite p d) w) (x_pats c) p = true) ->
  step (ACmd e CStatus) (apply_edit (UWrite p d) w)
  = (apply_edit (UWrite p d) w, snd (fst (step (ACmd e CStatus) w)), []).
Proof.
  intros e w p d Hcov Hnew Hnd Hcan Hut Hne Hig. rewrite !status_step. cbn [fst snd].
  f_equal. f_equal. unfold status_outcome.
  rewrite w_inited_apply_edit, (ctx_of_write w p d Hne).
  destruct (w_inited w); [|reflexivity].
  destruct (ctx_of w) as [c|] eqn:Hc; [|reflexivity].
  rewrite head_ns_edit. destruct (head_ns c w) as [ns|]; [|reflexivity].
  rewrite (add_ignored_same_lines w p d (x_pats c) Hcov Hnew Hnd Hcan Hut (Hig c eq_refl) c ns eq_refl).
  reflexivity.
Qed.

(* when is the new file ignored?  As a FILE its name alone is matched ... *)
Lemma ignored_new_file : forall w p d pats,
  p <> [x2e] -> (forall a, In a (ancestors p) -> am_mem (w_files w) a = false) ->
  ignored (apply_edit (UWrite p d) w) pats p = ign_match pats p.
Proof.
  intros w p d pats Hdot Hanc. apply ignored_file. unfold wt_stat. rewrite w_files_write.
  apply bytes_eqb_neq in Hdot. rewrite Hdot.
  assert (E : existsb (fun a => am_mem (am_set (w_files w) p d) a) (ancestors p) = false).
  { destruct (existsb (fun a => am_mem (am_set (w_files w) p d) a) (ancestors p)) eqn:E; [|reflexivity].
    apply existsb_exists in E. destruct E as [a [Ha Hm]].
    rewrite am_mem_set_other in Hm; [rewrite (Hanc a Ha) in Hm; discriminate Hm|].
    intro Eq. subst a. apply ex_ancestor_shorter in Ha. lia. }
  rewrite E, am_mem_set_same. reflexivity.
Qed.

(* ... which is also what [ignored] looked at BEFORE the file existed,
   provided nothing is staged below that name *)
Lemma ignored_absent : forall w pats p,
  wt_stat w p = SNone -> is_nil (entries_by_dir (idx_of w) p) = true ->
  ignored w pats p = ign_match pats p.
Proof. intros w pats p Hs Hn. unfold ignored. rewrite Hs, Hn. reflexivity. Qed.

Lemma wt_stat_SNone_inv : forall w p, wt_stat w p = SNone ->
  p <> [x2e] /\ (forall a, In a (ancestors p) -> am_mem (w_files w) a = false) /\
  file w p = None /\ set_mem (w_dirs w) p = false.
Proof.
  intros w p. unfold wt_stat, file. destruct (bytes_eqb p [x2e]) eqn:Ed; [discriminate|].
  destruct (existsb (fun a => am_mem (w_files w) a) (ancestors p)) eqn:Ea; [discriminate|].
  destruct (am_mem (w_files w) p) eqn:Em; [discriminate|].
  destruct (set_mem (w_dirs w) p) eqn:Es; [discriminate|]. intros _.
  split; [apply bytes_eqb_neq; exact Ed|]. split; [|split; [apply am_mem_false; exact Em | reflexivity]].
  intros a Ha. destruct (am_mem (w_files w) a) eqn:E; [|reflexivity].
  assert (Hex : existsb (fun a => am_mem (w_files w) a) (ancestors p) = true).
  { apply existsb_exists. exists a. split; assumption. }
  rewrite Hex in Ea. discriminate Ea.
Qed.

(* (S4 as asked, hypotheses on the world BEFORE the edit): nothing at [p],
   nothing staged at or below [p], [p] ignored *)
Corollary status_unaffected_by_untracked_ignored_before : forall e w p d,
  dirs_cover w = true -> Canonical (idx_of w) ->
  wt_stat w p = SNone -> tracked w p = false -> is_nil (entries_by_dir (idx_of w) p) = true ->
  p <> str ".goitignore" ->
  (forall c, ctx_of w = Some c -> ignored w (x_pats c) p = true) ->
  step (ACmd e CStatus) (apply_edit (UWrite p d) w)
  = (apply_edit (UWrite p d) w, snd (fst (step (ACmd e CStatus) w)), []).
Proof.
  intros e w p d Hcov Hcan Hs Hut Hnil Hne Hig.
  destruct (wt_stat_SNone_inv w p Hs) as (Hdot & Hanc & Hnew & Hnd).
  apply status_unaffected_by_untracked_ignored; try assumption.
  intros c Hc. rewrite (ignored_new_file w p d (x_pats c) Hdot Hanc).
  rewrite <- (ignored_absent w (x_pats c) p Hs Hnil). exact (Hig c Hc).
Qed.

(* ================================================================== *)
(** * 6b. C13 on every reachable world *)

(* MAIN: on every world a history reaches (no SHA-1 collision met, no object
   of 2^63 bytes), once the repository is initialised and its context loads,
   `status` writes nothing, succeeds, and its lines are exactly: *)
Theorem status_report_on_reachable : forall e w c,
  Reachable w -> w_coll w = false -> SmallStore (w_objs w) ->
  w_inited w = true -> ctx_of w = Some c ->
  exists ns,
    head_ns c w = Some ns /\
    step (ACmd e CStatus) w = (w, OOk (status_lines w c ns), []) /\
    forall p,
      (In (str "modified " ++ p) (status_lines w c ns) <->
       exists data id, file w p = Some data /\ staged w p = Some id /\
                       visible w (x_pats c) p = true /\ id <> obj_id KBlob data) /\
      (In (str "deleted " ++ p) (status_lines w c ns) <->
       tracked w p = true /\ wt_stat w p <> SFile) /\
      (In (str "untracked " ++ p) (status_lines w c ns) <->
       exists data, file w p = Some data /\ visible w (x_pats c) p = true /\ tracked w p = false) /\
      (forall k, In (dkind_tag k ++ p) (status_lines w c ns) <-> In (k, p) (diff_with_tree (idx_of w) ns)).
Proof.
  intros e w c Hr Hcoll Hsm Hi Hc.
  destruct (status_on_reachable e w c Hr Hcoll Hsm Hi Hc) as (ns & Hn & Hstep).
  destruct (reachable_good w Hr Hcoll Hsm) as (_ & [Hcan _] & _).
  destruct (wt_sorted_reachable w Hr) as [Hfs _].
  exists ns. split; [exact Hn|]. split; [exact Hstep|]. intro p.
  split; [apply modified_line_iff_file; exact Hfs|].
  split; [apply deleted_line_iff_tracked; exact Hcan|].
  split; [apply untracked_line_iff_file; exact Hfs|].
  intro k. apply staged_line_iff.
Qed.

Lemma valid_path_last : forall p, valid_path p -> last p x00 <> c_slash.
Proof.
  intros p Hv Hl. destruct (exists_last (l := p)) as (p' & b & E).
  { intro E. subst p. cbn [last] in Hl. discriminate Hl. }
  subst p. rewrite last_last in Hl. subst b.
  unfold valid_path in Hv. rewrite split_all_app_sep in Hv. apply Forall_app in Hv.
  destruct Hv as [_ Hv]. cbn [split_all] in Hv. inversion Hv as [|x l [Hne _] _]; subst.
  apply Hne. reflexivity.
Qed.

(* on such a world a tracked file is always examined (its path is clean), so
   it is reported modified exactly when its bytes hash to another id *)
Corollary tracked_file_on_reachable : forall w c ns p data id,
  Reachable w -> w_coll w = false -> SmallStore (w_objs w) ->
  file w p = Some data -> staged w p = Some id ->
  (In (str "modified " ++ p) (status_lines w c ns) <-> id <> obj_id KBlob data).
Proof.
  intros w c ns p data id Hr Hcoll Hsm Hf Hst.
  destruct (reachable_good w Hr Hcoll Hsm) as (Hwt & _).
  apply (tracked_file_modified_iff w c ns p data id (proj1 (wt_sorted_reachable w Hr))); try assumption.
  apply valid_path_last. exact (Hwt p data Hf).
Qed.

(* ================================================================== *)
(** * 7. Non-vacuity: a concrete history *)

Definition ex_env : env := mkEnv 1700000000 32400.

(* a first commit of five files (one of them the ignore file, one in a
   sub-directory) ... *)
Definition ex_h0 : list action :=
  [ ACmd ex_env CInit;
    ACmd ex_env (CConfig false [str "user.name"; str "Ada L"]);
    ACmd ex_env (CConfig false [str "user.email"; str "ada@example.com"]);
    AEdit (UWrite (str "keep") (str "k1"));
    AEdit (UWrite (str "mod") (str "m1"));
    AEdit (UWrite (str "del") (str "d1"));
    AEdit (UWrite (str "d/same") (str "s1"));
    AEdit (UWrite (str ".goitignore") (str "*.log" ++ [c_nl]));
    ACmd ex_env (CAdd [str "."]);
    ACmd ex_env (CCommit (str "c1")) ].
(* ... then one file modified, one deleted, one created *)
Definition ex_h1 : list action :=
  ex_h0 ++
  [ AEdit (UWrite (str "mod") (str "m2"));
    AEdit (UDelete (str "del"));
    AEdit (UWrite (str "new") (str "n")) ].

Definition ex_w1 : world := Eval vm_compute in run ex_h1 w_empty.
Lemma ex_w1_run : run ex_h1 w_empty = ex_w1.
Proof. vm_compute. reflexivity. Qed.

Definition ex_report : list bytes := [str "modified mod"; str "deleted del"; str "untracked new"].

(* the report names exactly the three; "keep", "d/same", ".goitignore" are
   clean and not mentioned; nothing is written *)
Example ex_status : step (ACmd ex_env CStatus) ex_w1 = (ex_w1, OOk ex_report, []).
Proof. vm_compute. reflexivity. Qed.

Lemma ex_w1_sorted : wt_sorted ex_w1.
Proof. rewrite <- ex_w1_run. apply wt_sorted_run. Qed.

(* the hypotheses of [identical_rewrite_same_world] hold for "d/same" ... *)
Example ex_identical_rewrite :
  file ex_w1 (str "d/same") = Some (str "s1") /\
  apply_edit (UWrite (str "d/same") (str "s1")) ex_w1 = ex_w1 /\
  step (ACmd ex_env CStatus) (apply_edit (UWrite (str "d/same") (str "s1")) ex_w1)
  = (ex_w1, OOk ex_report, []).
Proof.
  assert (Hf : file ex_w1 (str "d/same") = Some (str "s1")) by (vm_compute; reflexivity).
  assert (E : apply_edit (UWrite (str "d/same") (str "s1")) ex_w1 = ex_w1).
  { apply identical_rewrite_same_world'; [exact ex_w1_sorted | vm_compute; reflexivity | exact Hf]. }
  split; [exact Hf|]. split; [exact E|]. rewrite E. exact ex_status.
Qed.

(* ... and those of [unchanged_file_not_reported] *)
Example ex_clean_not_reported : forall c ns,
  ~ In (str "modified d/same") (status_lines ex_w1 c ns) /\
  ~ In (str "deleted d/same") (status_lines ex_w1 c ns) /\
  ~ In (str "untracked d/same") (status_lines ex_w1 c ns).
Proof.
  intros c ns.
  apply (unchanged_file_not_reported ex_w1 c ns (str "d/same") (str "s1") (proj1 ex_w1_sorted));
    vm_compute; reflexivity.
Qed.

(* while rewriting "mod" with OTHER bytes is what made it appear *)
Example ex_modified_is_content :
  file ex_w1 (str "mod") = Some (str "m2") /\
  staged ex_w1 (str "mod") = Some (obj_id KBlob (str "m1")) /\
  obj_id KBlob (str "m1") <> obj_id KBlob (str "m2").
Proof.
  split; [vm_compute; reflexivity|]. split; [vm_compute; reflexivity|].
  vm_compute. intro H. discriminate H.
Qed.

(* an ignored new file: the hypotheses of (S4) hold and nothing changes *)
Lemma ex_w1_canonical : Canonical (idx_of ex_w1).
Proof. unfold Canonical. vm_compute. repeat constructor. Qed.

Example ex_add_ignored :
  step (ACmd ex_env CStatus) (apply_edit (UWrite (str "x.log") (str "junk")) ex_w1)
  = (apply_edit (UWrite (str "x.log") (str "junk")) ex_w1, OOk ex_report, []).
Proof.
  rewrite (status_unaffected_by_untracked_ignored_before ex_env ex_w1 (str "x.log") (str "junk")).
  - rewrite ex_status. reflexivity.
  - vm_compute. reflexivity.
  - exact ex_w1_canonical.
  - vm_compute. reflexivity.
  - vm_compute. reflexivity.
  - vm_compute. reflexivity.
  - vm_compute. intro H. discriminate H.
  - intros c Hc. vm_compute in Hc. injection Hc as <-. vm_compute. reflexivity.
Qed.

(* the same file under a name no pattern matches IS reported *)
Example ex_add_not_ignored :
  snd (fst (step (ACmd ex_env CStatus) (apply_edit (UWrite (str "x.txt") (str "junk")) ex_w1)))
  = OOk (ex_report ++ [str "untracked x.txt"]).
Proof. vm_compute. reflexivity. Qed.

(* staging the three changes moves them to the first part of the report *)
Example ex_staged :
  snd (fst (step (ACmd ex_env CStatus)
                 (step_w (ACmd ex_env (CAdd [str "mod"; str "new"; str "del"])) ex_w1)))
  = OOk [str "staged-deleted del"; str "staged-modified mod"; str "staged-new new"].
Proof. vm_compute. reflexivity. Qed.

(* outside a repository `status` is refused, and still writes nothing *)
Example ex_not_a_repository : step (ACmd ex_env CStatus) w_empty = (w_empty, OErr, []).
Proof. vm_compute. reflexivity. Qed.

(** ** The side conditions are needed *)

(* (S3) needs the directories above the file to exist.  The model's [UDelete]
   also drops a DIRECTORY entry while keeping the files below it (no file
   system does that); in the world so obtained "d/f" sits in no directory, the
   entry "d" of .goitignore hides it (the missing "d" is matched as "d"), and
   rewriting "d/f" with the same bytes re-creates "d", now matched as "d/" *)
Definition ex_hb : list action :=
  [ ACmd ex_env CInit;
    AEdit (UWrite (str ".goitignore") (str "d" ++ [c_nl]));
    AEdit (UWrite (str "d/f") (str "x"));
    AEdit (UDelete (str "d")) ].
Definition ex_wb : world := Eval vm_compute in run ex_hb w_empty.
Example ex_s3_needs_dirs :
  run ex_hb w_empty = ex_wb /\ dirs_cover ex_wb = false /\
  file ex_wb (str "d/f") = Some (str "x") /\
  snd (fst (step (ACmd ex_env CStatus) ex_wb)) = OOk [str "untracked .goitignore"] /\
  snd (fst (step (ACmd ex_env CStatus) (apply_edit (UWrite (str "d/f") (str "x")) ex_wb)))
  = OOk [str "untracked .goitignore"; str "untracked d/f"].
Proof. repeat split; vm_compute; reflexivity. Qed.

(* (S4) with the hypothesis on the world BEFORE the edit needs "nothing staged
   below p": with "p/x" staged and the tree "p" removed, the absent "p" is
   matched as the directory "p/" (ignored by the entry "p/"), but the FILE "p"
   written next is matched as "p" (not ignored) and is reported *)
Definition ex_hc : list action :=
  [ ACmd ex_env CInit;
    AEdit (UWrite (str "p/x") (str "x"));
    ACmd ex_env (CAdd [str "p/x"]);
    AEdit (UWrite (str ".goitignore") (str "p/" ++ [c_nl]));
    AEdit (URmTree (str "p")) ].
Definition ex_wc : world := Eval vm_compute in run ex_hc w_empty.
Example ex_s4_needs_nothing_below :
  run ex_hc w_empty = ex_wc /\
  option_map (fun c => (ignored ex_wc (x_pats c) (str "p"), tracked ex_wc (str "p"),
                        ignored (apply_edit (UWrite (str "p") (str "x")) ex_wc) (x_pats c) (str "p")))
             (ctx_of ex_wc) = Some (true, false, false) /\
  wt_stat ex_wc (str "p") = SNone /\ dirs_cover ex_wc = true /\
  snd (fst (step (ACmd ex_env CStatus) ex_wc))
  = OOk [str "staged-new p/x"; str "deleted p/x"; str "untracked .goitignore"] /\
  snd (fst (step (ACmd ex_env CStatus) (apply_edit (UWrite (str "p") (str "x")) ex_wc)))
  = OOk [str "staged-new p/x"; str "deleted p/x"; str "untracked .goitignore"; str "untracked p"].
Proof. repeat split; vm_compute; reflexivity. Qed.

Print Assumptions status_step.
Print Assumptions status_pure.
Print Assumptions status_pure_fault.
Print Assumptions status_succeeds_when_loadable.
Print Assumptions status_ok_inv.
Print Assumptions status_on_reachable.
Print Assumptions tags_distinct.
Print Assumptions status_line_shape.
Print Assumptions staged_line_iff.
Print Assumptions modified_line_iff.
Print Assumptions deleted_line_iff.
Print Assumptions untracked_line_iff.
Print Assumptions modified_line_iff_file.
Print Assumptions deleted_line_iff_tracked.
Print Assumptions untracked_line_iff_file.
Print Assumptions tracked_file_modified_iff.
Print Assumptions unchanged_file_not_reported.
Print Assumptions status_report_on_reachable.
Print Assumptions tracked_file_on_reachable.
Print Assumptions wt_sorted_run.
Print Assumptions identical_rewrite_same_world.
Print Assumptions identical_rewrite_reports_nothing.
Print Assumptions identical_rewrite_history.
Print Assumptions identical_rewrite_clean_stays_clean.
Print Assumptions add_ignored_same_lines.
Print Assumptions status_unaffected_by_untracked_ignored.
Print Assumptions status_unaffected_by_untracked_ignored_before.
Print Assumptions ex_status.
Print Assumptions ex_identical_rewrite.
Print Assumptions ex_add_ignored.
Print Assumptions ex_s3_needs_dirs.
Print Assumptions ex_s4_needs_nothing_below.
