(* ConfigFacts.v — property C20: configuration round trip and precedence.

   1. what [cfg_render] writes, [cfg_load] reads back — exactly, for every
      well-formed configuration, in whatever order the sections and the keys
      of each section are written (Go iterates maps in an arbitrary order);
   2. [cfg_add] sets exactly one (section, key) pair;
   3. hence a value set with `config` is the value the next process loads, and
      no other value is lost or altered;
   4. local identity takes precedence over global identity. *)
From Coq Require Import Strings.Byte Strings.String.
From Coq Require Import List Bool NArith Arith Permutation.
From Coq Require Import Lia ZifyBool ZifyNat ZifyN.
From Goit Require Import Bytes Regex GoRegex Config BytesFacts RegexFacts.
Import ListNotations.

(* ------------------------------------------------------------------ *)
(** * 0. Association lists keyed by byte strings *)

Section Assoc.
  Variable V : Type.

  Fixpoint aget (m : list (bytes * V)) (k : bytes) : option V :=
    match m with
    | [] => None
    | (k', v) :: r => if bytes_eqb k' k then Some v else aget r k
    end.

  Fixpoint aset (m : list (bytes * V)) (k : bytes) (v : V) : list (bytes * V) :=
    match m with
    | [] => [(k, v)]
    | (k', v') :: r => if bytes_eqb k' k then (k', v) :: r else (k', v') :: aset r k v
    end.

  Lemma aget_some_in : forall m k v, aget m k = Some v -> In (k, v) m.
  Proof.
    intro m. induction m as [|[k' v'] r IH]; intros k v Hg.
    - discriminate Hg.
    - cbn [aget] in Hg. destruct (bytes_eqb k' k) eqn:E.
      + apply bytes_eqb_eq in E. injection Hg as Hv. subst k' v'. left. reflexivity.
      + right. apply IH. exact Hg.
  Qed.

  Lemma aget_none_iff : forall m k, aget m k = None <-> ~ In k (map fst m).
  Proof.
    intro m. induction m as [|[k' v'] r IH]; intro k.
    - split; [intros _ []|reflexivity].
    - cbn [aget map fst]. destruct (bytes_eqb k' k) eqn:E.
      + apply bytes_eqb_eq in E. subst k'. split.
        * intro H. discriminate H.
        * intro H. contradiction H. left. reflexivity.
      + apply bytes_eqb_neq in E. rewrite IH. split.
        * intros Hn [Hk | Hin]; [apply E; exact Hk | apply Hn; exact Hin].
        * intros Hn Hin. apply Hn. right. exact Hin.
  Qed.

  Lemma aget_in_nodup : forall m k v,
    NoDup (map fst m) -> In (k, v) m -> aget m k = Some v.
  Proof.
    intro m. induction m as [|[k' v'] r IH]; intros k v Hnd Hin.
    - destruct Hin.
    - cbn [map fst] in Hnd. apply NoDup_cons_iff in Hnd. destruct Hnd as [Hk' Hnd].
      cbn [aget]. destruct Hin as [Heq | Hin].
      + injection Heq as Hk Hv. subst k' v'. rewrite bytes_eqb_refl. reflexivity.
      + destruct (bytes_eqb k' k) eqn:E.
        * apply bytes_eqb_eq in E. subst k'. exfalso. apply Hk'.
          apply (in_map fst) in Hin. exact Hin.
        * apply IH; assumption.
  Qed.

  Lemma aget_perm : forall m m' k,
    NoDup (map fst m) -> Permutation m m' -> aget m k = aget m' k.
  Proof.
    intros m m' k Hnd Hp.
    assert (Hnd' : NoDup (map fst m')).
    { apply (Permutation_NoDup (Permutation_map fst Hp)). exact Hnd. }
    destruct (aget m k) as [v|] eqn:E.
    - symmetry. apply aget_in_nodup; [exact Hnd'|].
      apply (Permutation_in _ Hp). apply aget_some_in. exact E.
    - symmetry. apply aget_none_iff. apply aget_none_iff in E. intro Hin. apply E.
      apply (Permutation_in _ (Permutation_sym (Permutation_map fst Hp))). exact Hin.
  Qed.

  Lemma aget_app_notin : forall a b k,
    ~ In k (map fst a) -> aget (a ++ b) k = aget b k.
  Proof.
    intro a. induction a as [|[k' v'] r IH]; intros b k Hn.
    - reflexivity.
    - cbn [app aget]. cbn [map fst] in Hn.
      assert (E : bytes_eqb k' k = false).
      { apply bytes_eqb_neq. intro Hk. apply Hn. left. exact Hk. }
      rewrite E. apply IH. intro Hin. apply Hn. right. exact Hin.
  Qed.

  Lemma aset_app_notin : forall a b k v,
    ~ In k (map fst a) -> aset (a ++ b) k v = a ++ aset b k v.
  Proof.
    intro a. induction a as [|[k' v'] r IH]; intros b k v Hn.
    - reflexivity.
    - cbn [app aset]. cbn [map fst] in Hn.
      assert (E : bytes_eqb k' k = false).
      { apply bytes_eqb_neq. intro Hk. apply Hn. left. exact Hk. }
      rewrite E. rewrite IH; [reflexivity|]. intro Hin. apply Hn. right. exact Hin.
  Qed.

  Lemma aset_notin : forall m k v, ~ In k (map fst m) -> aset m k v = m ++ [(k, v)].
  Proof.
    intros m k v Hn. rewrite <- (app_nil_r m) at 1.
    rewrite (aset_app_notin m [] k v Hn). reflexivity.
  Qed.

  Lemma aget_aset_same : forall m k v, aget (aset m k v) k = Some v.
  Proof.
    intro m. induction m as [|[k' v'] r IH]; intros k v.
    - cbn [aset aget]. rewrite bytes_eqb_refl. reflexivity.
    - cbn [aset]. destruct (bytes_eqb k' k) eqn:E.
      + cbn [aget]. rewrite E. reflexivity.
      + cbn [aget]. rewrite E. apply IH.
  Qed.

  Lemma aget_aset_other : forall m k v k', k' <> k -> aget (aset m k v) k' = aget m k'.
  Proof.
    intro m. induction m as [|[k0 v0] r IH]; intros k v k' Hne.
    - cbn [aset aget].
      assert (E : bytes_eqb k k' = false).
      { apply bytes_eqb_neq. intro Hk. apply Hne. symmetry. exact Hk. }
      rewrite E. reflexivity.
    - cbn [aset]. destruct (bytes_eqb k0 k) eqn:E.
      + apply bytes_eqb_eq in E. subst k0. cbn [aget].
        assert (E' : bytes_eqb k k' = false).
        { apply bytes_eqb_neq. intro Hk. apply Hne. symmetry. exact Hk. }
        rewrite E'. reflexivity.
      + cbn [aget]. destruct (bytes_eqb k0 k') eqn:E'; [reflexivity|].
        apply IH. exact Hne.
  Qed.

  Lemma aset_keys_in : forall m k v x,
    In x (map fst (aset m k v)) -> x = k \/ In x (map fst m).
  Proof.
    intro m. induction m as [|[k0 v0] r IH]; intros k v x Hin.
    - cbn [aset map fst] in Hin. destruct Hin as [Hx | []]. left. symmetry. exact Hx.
    - cbn [aset] in Hin. destruct (bytes_eqb k0 k) eqn:E.
      + right. exact Hin.
      + cbn [map fst] in Hin. destruct Hin as [Hx | Hin].
        * right. left. exact Hx.
        * destruct (IH k v x Hin) as [Hk | Hr]; [left; exact Hk | right; right; exact Hr].
  Qed.

  Lemma aset_NoDup : forall m k v, NoDup (map fst m) -> NoDup (map fst (aset m k v)).
  Proof.
    intro m. induction m as [|[k0 v0] r IH]; intros k v Hnd.
    - cbn [aset map fst]. constructor; [intros []|constructor].
    - cbn [aset]. destruct (bytes_eqb k0 k) eqn:E.
      + exact Hnd.
      + cbn [map fst] in *. apply NoDup_cons_iff in Hnd. destruct Hnd as [Hk0 Hnd].
        constructor.
        * intro Hin. destruct (aset_keys_in r k v k0 Hin) as [Hk | Hr].
          -- apply bytes_eqb_neq in E. apply E. exact Hk.
          -- apply Hk0. exact Hr.
        * apply IH. exact Hnd.
  Qed.

  Lemma aset_Forall : forall (P : bytes * V -> Prop) m k v,
    Forall P m -> P (k, v) -> Forall P (aset m k v).
  Proof.
    intros P m. induction m as [|[k0 v0] r IH]; intros k v Hall Hp.
    - cbn [aset]. constructor; [exact Hp | constructor].
    - cbn [aset]. apply Forall_cons_iff in Hall. destruct Hall as [H0 Hr].
      destruct (bytes_eqb k0 k) eqn:E.
      + apply bytes_eqb_eq in E. subst k0. constructor; assumption.
      + constructor; [exact H0 | apply IH; assumption].
  Qed.
End Assoc.

Arguments aget {V} m k.
Arguments aset {V} m k v.

Lemma kv_get_aget : forall m k, kv_get m k = aget m k.
Proof. intros m k. induction m as [|[k' v'] r IH]; [reflexivity|]. cbn [kv_get aget]. rewrite IH. reflexivity. Qed.
Lemma sec_get_aget : forall c s, sec_get c s = aget c s.
Proof. intros c s. induction c as [|[k' v'] r IH]; [reflexivity|]. cbn [sec_get aget]. rewrite IH. reflexivity. Qed.
Lemma kv_set_aset : forall m k v, kv_set m k v = aset m k v.
Proof. intros m k v. induction m as [|[k' v'] r IH]; [reflexivity|]. cbn [kv_set aset]. rewrite IH. reflexivity. Qed.
Lemma sec_set_aset : forall c s m, sec_set c s m = aset c s m.
Proof. intros c s m. induction c as [|[k' v'] r IH]; [reflexivity|]. cbn [sec_set aset]. rewrite IH. reflexivity. Qed.

(* ------------------------------------------------------------------ *)
(** * 1. White space *)

Lemma is_space_sp : is_space c_sp = true.   Proof. reflexivity. Qed.
Lemma is_space_cr : is_space c_cr = true.   Proof. reflexivity. Qed.
Lemma is_space_eq : is_space x3d = false.   Proof. reflexivity. Qed.

Lemma trim_left_length : forall s, (length (trim_left s) <= length s)%nat.
Proof.
  intro s. induction s as [|c r IH].
  - cbn [trim_left length]. lia.
  - cbn [trim_left]. destruct (is_space c) eqn:E; cbn [length]; lia.
Qed.

Lemma trim_left_len_eq : forall s, length (trim_left s) = length s -> trim_left s = s.
Proof.
  intros s Hlen. destruct s as [|c r]; [reflexivity|].
  cbn [trim_left] in *. destruct (is_space c) eqn:E; [|reflexivity].
  pose proof (trim_left_length r) as Hle. cbn [length] in Hlen. lia.
Qed.

Lemma trim_left_fix_hd : forall s,
  trim_left s = s -> s = [] \/ exists c r, s = c :: r /\ is_space c = false.
Proof.
  intros s Hs. destruct s as [|c r]; [left; reflexivity|]. right.
  exists c, r. split; [reflexivity|]. destruct (is_space c) eqn:E; [|reflexivity].
  cbn [trim_left] in Hs. rewrite E in Hs.
  pose proof (trim_left_length r) as Hle. rewrite Hs in Hle. cbn [length] in Hle. lia.
Qed.

Lemma trim_left_nonspace : forall c r, is_space c = false -> trim_left (c :: r) = c :: r.
Proof. intros c r E. cbn [trim_left]. rewrite E. reflexivity. Qed.

Lemma trim_left_keeps : forall s c, In c s -> is_space c = false -> In c (trim_left s).
Proof.
  intro s. induction s as [|x r IH]; intros c Hin Hc.
  - destruct Hin.
  - cbn [trim_left]. destruct (is_space x) eqn:E.
    + destruct Hin as [Hx | Hin].
      * subst x. rewrite Hc in E. discriminate E.
      * apply IH; assumption.
    + exact Hin.
Qed.

Lemma trim_space_keeps : forall s c, In c s -> is_space c = false -> In c (trim_space s).
Proof.
  intros s c Hin Hc. unfold trim_space. apply in_rev. rewrite rev_involutive.
  apply trim_left_keeps; [|exact Hc]. apply -> in_rev.
  apply trim_left_keeps; assumption.
Qed.

(* no leading and no trailing white space *)
Definition trimmed (v : bytes) : Prop := trim_left v = v /\ trim_left (rev v) = rev v.

Lemma trim_space_fix : forall v, trim_space v = v <-> trimmed v.
Proof.
  intro v. unfold trim_space, trimmed. split.
  - intro H.
    assert (L1 : length (trim_left v) = length v).
    { pose proof (f_equal (@length byte) H) as Hl. rewrite rev_length in Hl.
      pose proof (trim_left_length (rev (trim_left v))) as H1. rewrite rev_length in H1.
      pose proof (trim_left_length v) as H2. lia. }
    apply trim_left_len_eq in L1. split; [exact L1|].
    rewrite L1 in H. apply (f_equal (@rev byte)) in H. rewrite rev_involutive in H. exact H.
  - intros [H1 H2]. rewrite H1, H2. apply rev_involutive.
Qed.

Lemma trim_space_sp_cons : forall v, trimmed v -> trim_space (c_sp :: v) = v.
Proof.
  intros v [H1 H2]. unfold trim_space. cbn [trim_left]. rewrite is_space_sp.
  rewrite H1, H2. apply rev_involutive.
Qed.

Lemma trim_space_snoc_sp : forall k, trimmed k -> trim_space (k ++ [c_sp]) = k.
Proof.
  intros k [H1 H2]. unfold trim_space.
  destruct (trim_left_fix_hd k H1) as [Hk | [c [r [Hk Hc]]]].
  - subst k. cbn [app trim_left]. rewrite is_space_sp. reflexivity.
  - assert (E : trim_left (k ++ [c_sp]) = k ++ [c_sp]).
    { rewrite Hk. cbn [app]. apply trim_left_nonspace. exact Hc. }
    rewrite E. rewrite rev_app_distr. cbn [rev app trim_left]. rewrite is_space_sp.
    rewrite H2. apply rev_involutive.
Qed.

Lemma trimmed_last : forall v, trimmed v -> v <> [] -> is_space (last v x00) = false.
Proof.
  intros v [_ H2] Hne. destruct (trim_left_fix_hd (rev v) H2) as [Hr | [c [r [Hr Hc]]]].
  - exfalso. apply Hne. rewrite <- (rev_involutive v), Hr. reflexivity.
  - assert (Hv : v = rev r ++ [c]).
    { rewrite <- (rev_involutive v), Hr. reflexivity. }
    rewrite Hv, last_last. exact Hc.
Qed.

Lemma last_app_ne : forall (a b : bytes) (d : byte), b <> [] -> last (a ++ b) d = last b d.
Proof.
  intros a b d Hb. induction a as [|x a' IH].
  - reflexivity.
  - cbn [app]. destruct (a' ++ b) as [|y t] eqn:E.
    + apply app_eq_nil in E. destruct E as [_ E]. contradiction.
    + exact IH.
Qed.

Lemma not_in_app : forall (c : byte) (a b : bytes), ~ In c a -> ~ In c b -> ~ In c (a ++ b).
Proof.
  intros c a b Ha Hb Hin. apply in_app_or in Hin.
  destruct Hin as [Hin | Hin]; [apply Ha | apply Hb]; exact Hin.
Qed.

Lemma not_in_cons : forall (c x : byte) (a : bytes), x <> c -> ~ In c a -> ~ In c (x :: a).
Proof. intros c x a Hx Ha [Hin | Hin]; [apply Hx | apply Ha]; exact Hin. Qed.

Lemma remove_tabs_app : forall a b, remove_tabs (a ++ b) = remove_tabs a ++ remove_tabs b.
Proof. intros a b. unfold remove_tabs. apply filter_app. Qed.

Lemma remove_tabs_id : forall s, ~ In c_tab s -> remove_tabs s = s.
Proof.
  intro s. induction s as [|x r IH]; intro Hn.
  - reflexivity.
  - unfold remove_tabs in *. cbn [filter].
    assert (E : beqb x c_tab = false).
    { apply beqb_neq. intro Hx. apply Hn. left. exact Hx. }
    rewrite E. cbn [negb]. rewrite IH; [reflexivity|].
    intro Hin. apply Hn. right. exact Hin.
Qed.

Lemma firstn_length_app : forall (a b : bytes), firstn (length a) (a ++ b) = a.
Proof.
  intros a b. induction a as [|x r IH]; [destruct b; reflexivity|].
  cbn [length app firstn]. rewrite IH. reflexivity.
Qed.

(* ------------------------------------------------------------------ *)
(** * 2. Well-formed configurations *)

(* A value (or key) survives the trip iff it has no newline (the file is
   line oriented), no TAB (the loader deletes every TAB of a key/value line)
   and no leading or trailing white space (both sides of '=' are trimmed).
   Empty values, inner blanks, '=', '[', ']', '#', quotes, '\r' and '\v' in
   the middle, non-ASCII bytes are all fine. *)
Definition ok_val (v : bytes) : Prop := ~ In c_nl v /\ ~ In c_tab v /\ trim_space v = v.
(* a key, in addition, has no '=' (the line is split at the FIRST '=') *)
Definition ok_key (k : bytes) : Prop := ok_val k /\ ~ In x3d k.
(* "[]" is rejected by the loader; everything but a newline may occur inside *)
Definition ok_sec (s : bytes) : Prop := s <> [] /\ ~ In c_nl s.

Definition ok_kv (kv : bytes * bytes) : Prop := ok_key (fst kv) /\ ok_val (snd kv).
Definition wf_sec (sm : bytes * kvs) : Prop :=
  ok_sec (fst sm) /\ NoDup (map fst (snd sm)) /\ Forall ok_kv (snd sm).
Definition wf_cfg (c : cfg) : Prop := NoDup (map fst c) /\ Forall wf_sec c.

(* the (stronger) conditions proposed in the task statement imply ours *)
Definition ok_val_strict (v : bytes) : Prop :=
  v <> [] /\ ~ In c_nl v /\ ~ In c_tab v /\ ~ In c_cr v /\ trim_space v = v.
Definition ok_key_strict (k : bytes) : Prop := ok_val_strict k /\ ~ In x3d k /\ hd x00 k <> x5b.
Definition ok_sec_strict (s : bytes) : Prop := s <> [] /\ ~ In c_nl s /\ ~ In c_cr s.

Lemma ok_val_strict_ok : forall v, ok_val_strict v -> ok_val v.
Proof. intros v [_ [H1 [H2 [_ H3]]]]. repeat split; assumption. Qed.
Lemma ok_key_strict_ok : forall k, ok_key_strict k -> ok_key k.
Proof. intros k [H1 [H2 _]]. split; [apply ok_val_strict_ok; exact H1 | exact H2]. Qed.
Lemma ok_sec_strict_ok : forall s, ok_sec_strict s -> ok_sec s.
Proof. intros s [H1 [H2 _]]. split; assumption. Qed.

Definition cfg_lookup (c : cfg) (s k : bytes) : option bytes :=
  match sec_get c s with Some m => kv_get m k | None => None end.

Definition cfg_equiv (a b : cfg) : Prop :=
  forall s k,
    (match sec_get a s with Some m => kv_get m k | None => None end)
    = (match sec_get b s with Some m => kv_get m k | None => None end)
    /\ (sec_get a s = None <-> sec_get b s = None).

Lemma cfg_equiv_refl : forall c, cfg_equiv c c.
Proof. intros c s k. split; [reflexivity | split; intro H; exact H]. Qed.

Lemma cfg_equiv_lookup : forall a b s k, cfg_equiv a b -> cfg_lookup a s k = cfg_lookup b s k.
Proof. intros a b s k H. exact (proj1 (H s k)). Qed.

(* ------------------------------------------------------------------ *)
(** * 3. The lines of a rendered file *)

Definition sec_line (s : bytes) : bytes := x5b :: s ++ [x5d].
Definition kv_line (kv : bytes * bytes) : bytes :=
  c_tab :: fst kv ++ [c_sp; x3d; c_sp] ++ snd kv.
Definition sec_lines (sm : bytes * kvs) : list bytes :=
  sec_line (fst sm) :: map kv_line (snd sm).
Definition cfg_lines (c : cfg) : list bytes := flat_map sec_lines c.

Lemma render_kv_line : forall kv, render_kv kv = kv_line kv ++ [c_nl].
Proof.
  intros [k v]. unfold render_kv, kv_line. cbn [fst snd app].
  rewrite <- !app_assoc. reflexivity.
Qed.

Lemma kv_line_no_nl : forall kv, ok_kv kv -> ~ In c_nl (kv_line kv).
Proof.
  intros [k v] [[[Hk _] _] [Hv _]]. unfold kv_line. cbn [fst snd] in *.
  apply not_in_cons; [discriminate|]. apply not_in_app; [exact Hk|].
  cbn [app]. repeat (apply not_in_cons; [discriminate|]). exact Hv.
Qed.

Lemma kv_line_last : forall kv, ok_kv kv -> last (kv_line kv) x00 <> c_cr.
Proof.
  intros [k v] [_ [_ [_ Hv]]]. unfold kv_line. cbn [fst snd] in *.
  change (c_tab :: k ++ [c_sp; x3d; c_sp] ++ v) with ((c_tab :: k) ++ [c_sp; x3d; c_sp] ++ v).
  rewrite last_app_ne by discriminate.
  destruct v as [|v0 vr].
  - cbn. discriminate.
  - change ([c_sp; x3d; c_sp] ++ v0 :: vr) with ([c_sp; x3d; c_sp] ++ (v0 :: vr)).
    rewrite last_app_ne by discriminate.
    apply trim_space_fix in Hv.
    pose proof (trimmed_last (v0 :: vr) Hv) as Hl.
    intro Hcr. rewrite Hcr, is_space_cr in Hl.
    assert (Hf : true = false) by (apply Hl; discriminate). discriminate Hf.
Qed.

Lemma scan_kvs : forall m rest,
  Forall ok_kv m ->
  scan_lines (flat_map render_kv m ++ rest) = map kv_line m ++ scan_lines rest.
Proof.
  intro m. induction m as [|kv m' IH]; intros rest Hall.
  - reflexivity.
  - apply Forall_cons_iff in Hall. destruct Hall as [Hkv Hall].
    cbn [flat_map map]. rewrite render_kv_line. rewrite <- !app_assoc. cbn [app].
    rewrite scan_lines_app_nl.
    + rewrite (IH rest Hall). reflexivity.
    + apply kv_line_no_nl. exact Hkv.
    + right. apply kv_line_last. exact Hkv.
Qed.

Lemma render_sec_line : forall sm,
  render_sec sm = sec_line (fst sm) ++ c_nl :: flat_map render_kv (snd sm).
Proof.
  intros [s m]. unfold render_sec, sec_line. cbn [fst snd app].
  rewrite <- !app_assoc. reflexivity.
Qed.

Lemma sec_line_no_nl : forall s, ~ In c_nl s -> ~ In c_nl (sec_line s).
Proof.
  intros s Hs. unfold sec_line. apply not_in_cons; [discriminate|].
  apply not_in_app; [exact Hs|]. apply not_in_cons; [discriminate|]. intros [].
Qed.

Lemma sec_line_last : forall s, last (sec_line s) x00 <> c_cr.
Proof.
  intro s. unfold sec_line. change (x5b :: s ++ [x5d]) with ((x5b :: s) ++ [x5d]).
  rewrite last_last. discriminate.
Qed.

Lemma scan_cfg : forall c rest,
  Forall wf_sec c ->
  scan_lines (cfg_render c ++ rest) = cfg_lines c ++ scan_lines rest.
Proof.
  intro c. induction c as [|sm c' IH]; intros rest Hall.
  - reflexivity.
  - apply Forall_cons_iff in Hall. destruct Hall as [[[_ Hs] [_ Hkvs]] Hall].
    unfold cfg_render, cfg_lines in *. cbn [flat_map].
    rewrite render_sec_line. rewrite <- !app_assoc. cbn [app].
    rewrite scan_lines_app_nl.
    + rewrite (scan_kvs (snd sm) _ Hkvs). rewrite (IH rest Hall).
      unfold sec_lines. cbn [app]. reflexivity.
    + apply sec_line_no_nl. exact Hs.
    + right. apply sec_line_last.
Qed.

(* ------------------------------------------------------------------ *)
(** * 4. The loader on those lines *)

Lemma load_sec_line : forall s L (acc : cfg) cur,
  ok_sec s -> ~ In s (map fst acc) ->
  cfg_load_lines (sec_line s :: L) acc cur = cfg_load_lines L (acc ++ [(s, [])]) (Some s).
Proof.
  intros s L acc cur [Hne Hnl] Hacc. cbn [cfg_load_lines].
  assert (Hre : re_search re_identRegexp (sec_line s) = true).
  { apply (ident_spec (sec_line s) (sec_line_no_nl s Hnl)). exists s. reflexivity. }
  rewrite Hre.
  assert (Hlen : length (sec_line s) = S (S (length s))).
  { unfold sec_line. cbn [length]. rewrite app_length. cbn [length]. lia. }
  assert (Hleb : Nat.leb (length (sec_line s)) 2 = false).
  { apply Nat.leb_gt. rewrite Hlen. destruct s as [|s0 sr]; [contradiction Hne; reflexivity|].
    cbn [length]. lia. }
  rewrite Hleb.
  assert (Hid : firstn (length (sec_line s) - 2) (skipn 1 (sec_line s)) = s).
  { rewrite Hlen. replace (S (S (length s)) - 2)%nat with (length s) by lia.
    unfold sec_line. cbn [skipn]. apply firstn_length_app. }
  rewrite Hid. rewrite sec_set_aset. rewrite (aset_notin kvs acc s [] Hacc). reflexivity.
Qed.

Lemma kv_line_not_ident : forall kv, ok_kv kv -> re_search re_identRegexp (kv_line kv) = false.
Proof.
  intros kv Hkv. destruct (re_search re_identRegexp (kv_line kv)) eqn:E; [|reflexivity].
  apply (ident_spec (kv_line kv) (kv_line_no_nl kv Hkv)) in E.
  destruct E as [m Hm]. unfold kv_line in Hm. cbn [app] in Hm. discriminate Hm.
Qed.

Lemma kv_line_not_blank : forall kv, is_nil (trim_space (kv_line kv)) = false.
Proof.
  intro kv.
  assert (Hin : In x3d (trim_space (kv_line kv))).
  { apply trim_space_keeps; [|exact is_space_eq].
    unfold kv_line. right. apply in_or_app. right. cbn [app]. right. left. reflexivity. }
  destruct (trim_space (kv_line kv)) as [|x r]; [destruct Hin | reflexivity].
Qed.

Lemma kv_line_split : forall k v,
  ok_key k -> ok_val v ->
  split1 x3d (remove_tabs (kv_line (k, v))) = (k ++ [c_sp], Some (c_sp :: v)).
Proof.
  intros k v [[_ [Hkt _]] Hke] [_ [Hvt _]]. unfold kv_line. cbn [fst snd].
  change (c_tab :: k ++ [c_sp; x3d; c_sp] ++ v) with ([c_tab] ++ k ++ [c_sp; x3d; c_sp] ++ v).
  rewrite !remove_tabs_app. rewrite (remove_tabs_id k Hkt), (remove_tabs_id v Hvt).
  change (remove_tabs [c_tab]) with (@nil byte).
  change (remove_tabs [c_sp; x3d; c_sp]) with [c_sp; x3d; c_sp].
  cbn [app].
  change (k ++ c_sp :: x3d :: c_sp :: v) with (k ++ [c_sp] ++ x3d :: c_sp :: v).
  rewrite app_assoc. apply split1_app_sep.
  apply not_in_app; [exact Hke|]. apply not_in_cons; [discriminate|]. intros [].
Qed.

Lemma load_kv_line : forall k v L (acc : cfg) s (m1 : kvs),
  ok_key k -> ok_val v -> ~ In s (map fst acc) -> ~ In k (map fst m1) ->
  cfg_load_lines (kv_line (k, v) :: L) (acc ++ [(s, m1)]) (Some s)
  = cfg_load_lines L (acc ++ [(s, m1 ++ [(k, v)])]) (Some s).
Proof.
  intros k v L acc s m1 Hk Hv Hs Hkm. cbn [cfg_load_lines].
  rewrite (kv_line_not_ident (k, v) (conj Hk Hv)).
  rewrite (kv_line_not_blank (k, v)).
  rewrite (kv_line_split k v Hk Hv).
  rewrite sec_get_aget, (aget_app_notin kvs acc [(s, m1)] s Hs).
  cbn [aget]. rewrite bytes_eqb_refl.
  assert (Hkt : trim_space (k ++ [c_sp]) = k).
  { apply trim_space_snoc_sp. apply trim_space_fix. exact (proj2 (proj2 (proj1 Hk))). }
  assert (Hvt : trim_space (c_sp :: v) = v).
  { apply trim_space_sp_cons. apply trim_space_fix. exact (proj2 (proj2 Hv)). }
  rewrite Hkt, Hvt.
  rewrite kv_set_aset, (aset_notin bytes m1 k v Hkm).
  rewrite sec_set_aset, (aset_app_notin kvs acc [(s, m1)] s _ Hs).
  cbn [aset]. rewrite bytes_eqb_refl. reflexivity.
Qed.

Lemma load_kvs : forall (m2 m1 : kvs) (acc : cfg) s L,
  Forall ok_kv m2 -> NoDup (map fst (m1 ++ m2)) -> ~ In s (map fst acc) ->
  cfg_load_lines (map kv_line m2 ++ L) (acc ++ [(s, m1)]) (Some s)
  = cfg_load_lines L (acc ++ [(s, m1 ++ m2)]) (Some s).
Proof.
  intro m2. induction m2 as [|[k v] m2' IH]; intros m1 acc s L Hall Hnd Hs.
  - rewrite app_nil_r. reflexivity.
  - apply Forall_cons_iff in Hall. destruct Hall as [[Hk Hv] Hall].
    cbn [fst snd] in Hk, Hv.
    assert (Hkm : ~ In k (map fst m1)).
    { rewrite map_app in Hnd. cbn [map fst] in Hnd.
      apply NoDup_remove_2 in Hnd. intro Hin. apply Hnd. apply in_or_app. left. exact Hin. }
    cbn [map app]. rewrite (load_kv_line k v _ acc s m1 Hk Hv Hs Hkm).
    assert (Happ : m1 ++ (k, v) :: m2' = (m1 ++ [(k, v)]) ++ m2').
    { rewrite <- app_assoc. reflexivity. }
    rewrite Happ. apply IH.
    + exact Hall.
    + rewrite <- Happ. exact Hnd.
    + exact Hs.
Qed.

Lemma load_cfg : forall (rest acc : cfg) cur,
  Forall wf_sec rest -> NoDup (map fst (acc ++ rest)) ->
  cfg_load_lines (cfg_lines rest) acc cur = Some (acc ++ rest).
Proof.
  intro rest. induction rest as [|[s m] rest' IH]; intros acc cur Hall Hnd.
  - rewrite app_nil_r. reflexivity.
  - apply Forall_cons_iff in Hall. destruct Hall as [[Hsec [Hndm Hkvs]] Hall].
    cbn [fst snd] in Hsec, Hndm, Hkvs.
    assert (Hs : ~ In s (map fst acc)).
    { rewrite map_app in Hnd. cbn [map fst] in Hnd.
      apply NoDup_remove_2 in Hnd. intro Hin. apply Hnd. apply in_or_app. left. exact Hin. }
    unfold cfg_lines. cbn [flat_map]. unfold sec_lines at 1. cbn [fst snd app].
    rewrite (load_sec_line s _ acc cur Hsec Hs).
    rewrite (load_kvs m [] acc s _ Hkvs Hndm Hs). cbn [app].
    assert (Happ : acc ++ (s, m) :: rest' = (acc ++ [(s, m)]) ++ rest').
    { rewrite <- app_assoc. reflexivity. }
    rewrite Happ. apply IH.
    + exact Hall.
    + rewrite <- Happ. exact Hnd.
Qed.

(* ------------------------------------------------------------------ *)
(** * 5. Round trip *)

(* the association-list order is preserved: the reader returns the very
   list that was written *)
Theorem cfg_roundtrip_exact : forall c, wf_cfg c -> cfg_load (cfg_render c) = Some c.
Proof.
  intros c [Hnd Hall]. unfold cfg_load.
  rewrite <- (app_nil_r (cfg_render c)). rewrite (scan_cfg c [] Hall).
  rewrite scan_lines_nil, app_nil_r.
  apply (load_cfg c [] None Hall). exact Hnd.
Qed.

Theorem cfg_roundtrip : forall c,
  wf_cfg c -> exists c', cfg_load (cfg_render c) = Some c' /\ cfg_equiv c c'.
Proof.
  intros c Hwf. exists c. split; [apply cfg_roundtrip_exact; exact Hwf | apply cfg_equiv_refl].
Qed.

Corollary cfg_written_wf : forall c, wf_cfg c -> cfg_written c = CfgFile (Some c).
Proof. intros c Hwf. unfold cfg_written. rewrite (cfg_roundtrip_exact c Hwf). reflexivity. Qed.

(* ------------------------------------------------------------------ *)
(** * 6. Any iteration order *)

(* [c1] lists the sections of [c] in some order, and the keys of each section
   in some order *)
Definition sec_perm (a b : bytes * kvs) : Prop := fst a = fst b /\ Permutation (snd a) (snd b).
Definition cfg_perm (c c1 : cfg) : Prop :=
  exists c2, Forall2 sec_perm c c2 /\ Permutation c2 c1.

Lemma sec_perm_refl : forall c, Forall2 sec_perm c c.
Proof.
  intro c. induction c as [|sm c' IH]; constructor; [|exact IH].
  split; [reflexivity | apply Permutation_refl].
Qed.

Lemma cfg_perm_refl : forall c, cfg_perm c c.
Proof. intro c. exists c. split; [apply sec_perm_refl | apply Permutation_refl]. Qed.

(* in particular: the sections in any order *)
Lemma cfg_perm_of_perm : forall c c1, Permutation c c1 -> cfg_perm c c1.
Proof. intros c c1 Hp. exists c. split; [apply sec_perm_refl | exact Hp]. Qed.

Lemma sec_perm_keys : forall c c2, Forall2 sec_perm c c2 -> map fst c = map fst c2.
Proof.
  intros c c2 Hf. induction Hf as [|a b l l' [Hab _] Hf IH]; [reflexivity|].
  cbn [map]. rewrite Hab, IH. reflexivity.
Qed.

Lemma sec_perm_wf : forall c c2, Forall2 sec_perm c c2 -> Forall wf_sec c -> Forall wf_sec c2.
Proof.
  intros c c2 Hf. induction Hf as [|a b l l' [Hab Hp] Hf IH]; intro Hall; [constructor|].
  apply Forall_cons_iff in Hall. destruct Hall as [[Hsec [Hnd Hkvs]] Hall].
  constructor; [|apply IH; exact Hall].
  split; [rewrite <- Hab; exact Hsec|]. split.
  - apply (Permutation_NoDup (Permutation_map fst Hp)). exact Hnd.
  - apply Forall_forall. intros kv Hin. rewrite Forall_forall in Hkvs. apply Hkvs.
    apply (Permutation_in _ (Permutation_sym Hp)). exact Hin.
Qed.

Lemma sec_perm_get : forall c c2 s,
  Forall2 sec_perm c c2 ->
  match sec_get c s, sec_get c2 s with
  | Some m, Some m' => Permutation m m'
  | None, None => True
  | _, _ => False
  end.
Proof.
  intros c c2 s Hf. induction Hf as [|[sa ma] [sb mb] l l' [Hab Hp] Hf IH].
  - exact I.
  - cbn [fst snd] in Hab, Hp. subst sb. cbn [sec_get].
    destruct (bytes_eqb sa s) eqn:E; [exact Hp | exact IH].
Qed.

Theorem wf_cfg_perm : forall c c1, wf_cfg c -> cfg_perm c c1 -> wf_cfg c1.
Proof.
  intros c c1 [Hnd Hall] [c2 [Hf Hp]]. split.
  - apply (Permutation_NoDup (Permutation_map fst Hp)).
    rewrite <- (sec_perm_keys c c2 Hf). exact Hnd.
  - pose proof (sec_perm_wf c c2 Hf Hall) as Hall2.
    apply Forall_forall. intros sm Hin. rewrite Forall_forall in Hall2. apply Hall2.
    apply (Permutation_in _ (Permutation_sym Hp)). exact Hin.
Qed.

Theorem cfg_equiv_perm : forall c c1, wf_cfg c -> cfg_perm c c1 -> cfg_equiv c c1.
Proof.
  intros c c1 [Hnd Hall] [c2 [Hf Hp]] s k.
  assert (Hnd2 : NoDup (map fst c2)).
  { rewrite <- (sec_perm_keys c c2 Hf). exact Hnd. }
  assert (Hget : sec_get c2 s = sec_get c1 s).
  { rewrite !sec_get_aget. apply aget_perm; assumption. }
  rewrite <- Hget. pose proof (sec_perm_get c c2 s Hf) as Hs.
  destruct (sec_get c s) as [m|] eqn:Ec; destruct (sec_get c2 s) as [m'|] eqn:Ec2;
    try contradiction.
  - split.
    + rewrite !kv_get_aget. apply aget_perm; [|exact Hs].
      rewrite sec_get_aget in Ec. apply aget_some_in in Ec.
      rewrite Forall_forall in Hall. destruct (Hall (s, m) Ec) as [_ [Hndm _]]. exact Hndm.
    + split; intro H; discriminate H.
  - split; [reflexivity | split; intro H; reflexivity].
Qed.

(* whatever order the Go maps are iterated in, the next process loads the
   same mapping *)
Theorem cfg_roundtrip_perm : forall c c1,
  wf_cfg c -> cfg_perm c c1 ->
  exists c', cfg_load (cfg_render c1) = Some c' /\ cfg_equiv c c'.
Proof.
  intros c c1 Hwf Hp. exists c1. split.
  - apply cfg_roundtrip_exact. apply (wf_cfg_perm c c1 Hwf Hp).
  - apply cfg_equiv_perm; assumption.
Qed.

(* ------------------------------------------------------------------ *)
(** * 7. Config.Add *)

Theorem cfg_add_get : forall c s k v, cfg_lookup (cfg_add c s k v) s k = Some v.
Proof.
  intros c s k v. unfold cfg_lookup, cfg_add.
  destruct (sec_get c s) as [m|] eqn:E;
    rewrite sec_set_aset, sec_get_aget, aget_aset_same.
  - rewrite kv_set_aset, kv_get_aget. apply aget_aset_same.
  - cbn [kv_get]. rewrite bytes_eqb_refl. reflexivity.
Qed.

Theorem cfg_add_frame : forall c s k v s' k',
  (s', k') <> (s, k) -> cfg_lookup (cfg_add c s k v) s' k' = cfg_lookup c s' k'.
Proof.
  intros c s k v s' k' Hne. unfold cfg_lookup, cfg_add.
  destruct (bytes_eq_dec s' s) as [Hs | Hs].
  - subst s'.
    assert (Hk : k' <> k). { intro Hk. apply Hne. rewrite Hk. reflexivity. }
    destruct (sec_get c s) as [m|] eqn:E;
      rewrite sec_set_aset, sec_get_aget, aget_aset_same.
    + rewrite kv_set_aset, !kv_get_aget. apply aget_aset_other. exact Hk.
    + cbn [kv_get].
      assert (Eb : bytes_eqb k k' = false).
      { apply bytes_eqb_neq. intro Hkk. apply Hk. symmetry. exact Hkk. }
      rewrite Eb. reflexivity.
  - destruct (sec_get c s) as [m|] eqn:E;
      rewrite sec_set_aset, !sec_get_aget, (aget_aset_other _ c s _ s' Hs); reflexivity.
Qed.

(* no section is lost *)
Theorem cfg_add_keeps_sections : forall c s k v s',
  sec_get c s' <> None -> sec_get (cfg_add c s k v) s' <> None.
Proof.
  intros c s k v s' Hsome. unfold cfg_add.
  destruct (bytes_eq_dec s' s) as [Hs | Hs].
  - subst s'. destruct (sec_get c s) as [m|] eqn:E;
      rewrite sec_set_aset, sec_get_aget, aget_aset_same; discriminate.
  - destruct (sec_get c s) as [m|] eqn:E;
      rewrite sec_set_aset, sec_get_aget, (aget_aset_other _ c s _ s' Hs), <- sec_get_aget;
      exact Hsome.
Qed.

(* and none appears except the one that was named *)
Theorem cfg_add_sections : forall c s k v s',
  s' <> s -> sec_get (cfg_add c s k v) s' = sec_get c s'.
Proof.
  intros c s k v s' Hs. unfold cfg_add.
  destruct (sec_get c s) as [m|] eqn:E;
    rewrite sec_set_aset, !sec_get_aget; apply aget_aset_other; exact Hs.
Qed.

Theorem cfg_add_wf : forall c s k v,
  wf_cfg c -> ok_sec s -> ok_key k -> ok_val v -> wf_cfg (cfg_add c s k v).
Proof.
  intros c s k v [Hnd Hall] Hs Hk Hv. unfold cfg_add.
  destruct (sec_get c s) as [m|] eqn:E; rewrite sec_set_aset; split.
  - apply aset_NoDup. exact Hnd.
  - apply aset_Forall; [exact Hall|].
    rewrite sec_get_aget in E. apply aget_some_in in E.
    rewrite Forall_forall in Hall. destruct (Hall (s, m) E) as [_ [Hndm Hkvs]].
    cbn [fst snd] in Hndm, Hkvs.
    split; [exact Hs|]. cbn [snd]. rewrite kv_set_aset. split.
    + apply aset_NoDup. exact Hndm.
    + apply aset_Forall; [exact Hkvs|]. split; assumption.
  - apply aset_NoDup. exact Hnd.
  - apply aset_Forall; [exact Hall|].
    split; [exact Hs|]. cbn [snd map fst]. split.
    + constructor; [intros []|constructor].
    + constructor; [split; assumption | constructor].
Qed.

(* ------------------------------------------------------------------ *)
(** * 8. A value that is set is the value the next process uses *)

Theorem set_then_load : forall c s k v,
  wf_cfg c -> ok_sec s -> ok_key k -> ok_val v ->
  exists c', cfg_load (cfg_render (cfg_add c s k v)) = Some c' /\
             cfg_lookup c' s k = Some v /\
             (forall s' k', (s', k') <> (s, k) -> cfg_lookup c' s' k' = cfg_lookup c s' k') /\
             (forall s', sec_get c s' <> None -> sec_get c' s' <> None).
Proof.
  intros c s k v Hwf Hs Hk Hv. exists (cfg_add c s k v). split.
  - apply cfg_roundtrip_exact. apply cfg_add_wf; assumption.
  - split; [apply cfg_add_get|]. split.
    + intros s' k' Hne. apply cfg_add_frame. exact Hne.
    + intros s' Hsome. apply cfg_add_keeps_sections. exact Hsome.
Qed.

(* the same, whatever order the maps are written in *)
Theorem set_then_load_perm : forall c s k v c1,
  wf_cfg c -> ok_sec s -> ok_key k -> ok_val v ->
  cfg_perm (cfg_add c s k v) c1 ->
  exists c', cfg_load (cfg_render c1) = Some c' /\
             cfg_lookup c' s k = Some v /\
             (forall s' k', (s', k') <> (s, k) -> cfg_lookup c' s' k' = cfg_lookup c s' k') /\
             (forall s', sec_get c s' <> None -> sec_get c' s' <> None).
Proof.
  intros c s k v c1 Hwf Hs Hk Hv Hp.
  pose proof (cfg_add_wf c s k v Hwf Hs Hk Hv) as Hwf'.
  destruct (cfg_roundtrip_perm _ c1 Hwf' Hp) as [c' [Hload Heq]].
  exists c'. split; [exact Hload|]. split.
  - rewrite <- (cfg_equiv_lookup _ _ s k Heq). apply cfg_add_get.
  - split.
    + intros s' k' Hne. rewrite <- (cfg_equiv_lookup _ _ s' k' Heq).
      apply cfg_add_frame. exact Hne.
    + intros s' Hsome Hnone. apply (proj2 (Heq s' [])) in Hnone.
      apply (cfg_add_keeps_sections c s k v s' Hsome). exact Hnone.
Qed.

(* ------------------------------------------------------------------ *)
(** * 9. Precedence: local over global *)

Definition s_user : bytes := str "user"%string.

Theorem ident_get_local_first : forall l g key v,
  cfg_lookup l s_user key = Some v -> ident_get l g key = Some v.
Proof.
  intros l g key v Hl. unfold cfg_lookup, s_user in Hl. unfold ident_get.
  destruct (sec_get l (str "user"%string)) as [m|] eqn:E; [|discriminate Hl].
  rewrite Hl. reflexivity.
Qed.

Theorem ident_get_global_fallback : forall l g key,
  cfg_lookup l s_user key = None -> ident_get l g key = cfg_lookup g s_user key.
Proof.
  intros l g key Hl. unfold cfg_lookup, s_user in *. unfold ident_get.
  destruct (sec_get l (str "user"%string)) as [m|] eqn:E; [|reflexivity].
  rewrite Hl. reflexivity.
Qed.

Theorem user_set_iff : forall l g,
  user_set l g = true <->
  (exists n, ident_get l g (str "name"%string) = Some n) /\
  (exists e, ident_get l g (str "email"%string) = Some e).
Proof.
  intros l g. unfold user_set. split.
  - intro H.
    destruct (ident_get l g (str "name"%string)) as [n|] eqn:En; [|discriminate H].
    destruct (ident_get l g (str "email"%string)) as [e|] eqn:Ee; [|discriminate H].
    split; [exists n | exists e]; reflexivity.
  - intros [[n Hn] [e He]]. rewrite Hn, He. reflexivity.
Qed.

(* ------------------------------------------------------------------ *)
(** * 10. Non-vacuity *)

Local Open Scope string_scope.

Definition ex_cfg : cfg :=
  [(str "user", [(str "name", str "a=b c"); (str "email", str "e@x.yy")]);
   (str "core", [(str "k", str "[x] # ""q""")])].
(* the same mapping, sections and keys in another order *)
Definition ex_cfg_perm : cfg :=
  [(str "core", [(str "k", str "[x] # ""q""")]);
   (str "user", [(str "email", str "e@x.yy"); (str "name", str "a=b c")])].

Ltac solve_not_in := cbn; intuition discriminate.
Ltac solve_ok_val := split; [solve_not_in | split; [solve_not_in | vm_compute; reflexivity]].
Ltac solve_ok_key := split; [solve_ok_val | solve_not_in].
Ltac solve_nodup :=
  repeat (constructor; [cbn; intuition discriminate|]); constructor.

Example ex_cfg_wf : wf_cfg ex_cfg.
Proof.
  split.
  - solve_nodup.
  - repeat constructor; try solve_ok_key; try solve_ok_val; try discriminate;
      try solve_not_in.
Qed.

Example ex_cfg_roundtrip : cfg_load (cfg_render ex_cfg) = Some ex_cfg.
Proof. vm_compute. reflexivity. Qed.

Example ex_cfg_perm_ok : cfg_perm ex_cfg ex_cfg_perm.
Proof.
  exists [(str "user", [(str "email", str "e@x.yy"); (str "name", str "a=b c")]);
          (str "core", [(str "k", str "[x] # ""q""")])].
  split.
  - constructor.
    + split; [reflexivity | apply perm_swap].
    + constructor; [split; [reflexivity | apply Permutation_refl] | constructor].
  - apply perm_swap.
Qed.

Example ex_cfg_perm_roundtrip :
  cfg_load (cfg_render ex_cfg_perm) = Some ex_cfg_perm
  /\ cfg_lookup ex_cfg_perm (str "user") (str "name") = Some (str "a=b c")
  /\ cfg_lookup ex_cfg (str "user") (str "name") = Some (str "a=b c").
Proof. repeat split; vm_compute; reflexivity. Qed.

Example ex_set_then_load :
  cfg_load (cfg_render (cfg_add ex_cfg (str "user") (str "name") (str "N N")))
  = Some [(str "user", [(str "name", str "N N"); (str "email", str "e@x.yy")]);
          (str "core", [(str "k", str "[x] # ""q""")])].
Proof. vm_compute. reflexivity. Qed.

(* Each restriction is needed.  (tab, leading blank, newline in a value;
   '=' in a key; empty section name; newline in a section name; duplicate
   section; duplicate key.) *)
Definition rt (c : cfg) : option cfg := cfg_load (cfg_render c).

Example cex_tab_in_value :
  rt [(str "s", [(str "k", [x61; x09; x62])])] = Some [(str "s", [(str "k", str "ab")])].
Proof. vm_compute. reflexivity. Qed.
Example cex_leading_blank :
  rt [(str "s", [(str "k", str " a")])] = Some [(str "s", [(str "k", str "a")])].
Proof. vm_compute. reflexivity. Qed.
Example cex_trailing_cr :
  rt [(str "s", [(str "k", [x61; x0d])])] = Some [(str "s", [(str "k", str "a")])].
Proof. vm_compute. reflexivity. Qed.
Example cex_nl_in_value :
  rt [(str "s", [(str "k", [x61; x0a; x62])])] = None.
Proof. vm_compute. reflexivity. Qed.
Example cex_nl_in_value_silent :
  rt [(str "s", [(str "k", [x61; x0a; x62; x3d; x63])])]
  = Some [(str "s", [(str "k", str "a"); (str "b", str "c")])].
Proof. vm_compute. reflexivity. Qed.
Example cex_eq_in_key :
  rt [(str "s", [(str "a=b", str "v")])] = Some [(str "s", [(str "a", str "b = v")])].
Proof. vm_compute. reflexivity. Qed.
Example cex_tab_in_key :
  rt [(str "s", [([x61; x09; x62], str "v")])] = Some [(str "s", [(str "ab", str "v")])].
Proof. vm_compute. reflexivity. Qed.
Example cex_empty_section : rt [([], [(str "k", str "v")])] = None.
Proof. vm_compute. reflexivity. Qed.
Example cex_nl_in_section : rt [([x61; x0a; x62], [(str "k", str "v")])] = None.
Proof. vm_compute. reflexivity. Qed.
Example cex_dup_section :
  rt [(str "s", [(str "k", str "v")]); (str "s", [(str "k2", str "v2")])]
  = Some [(str "s", [(str "k2", str "v2")])].
Proof. vm_compute. reflexivity. Qed.
Example cex_dup_key :
  rt [(str "s", [(str "k", str "v"); (str "k", str "w")])] = Some [(str "s", [(str "k", str "w")])].
Proof. vm_compute. reflexivity. Qed.

(* Restrictions of the task statement that are NOT needed: empty value and
   empty key, '\r' and '[' inside, a key that looks like "[k]", '\r' and TAB
   and ']' in a section name. *)
Example ok_without_strict :
  rt [([x61; x0d], [(str "k", []); ([], str "v"); (str "[k]", str "v]");
                    (str "c", [x61; x0d; x62])]);
      ([x61; x09; x5d; x5b], [])]
  = Some [([x61; x0d], [(str "k", []); ([], str "v"); (str "[k]", str "v]");
                        (str "c", [x61; x0d; x62])]);
          ([x61; x09; x5d; x5b], [])].
Proof. vm_compute. reflexivity. Qed.

Print Assumptions cfg_roundtrip_exact.
Print Assumptions cfg_roundtrip.
Print Assumptions cfg_roundtrip_perm.
Print Assumptions wf_cfg_perm.
Print Assumptions cfg_equiv_perm.
Print Assumptions cfg_add_get.
Print Assumptions cfg_add_frame.
Print Assumptions cfg_add_keeps_sections.
Print Assumptions cfg_add_wf.
Print Assumptions set_then_load.
Print Assumptions set_then_load_perm.
Print Assumptions ident_get_local_first.
Print Assumptions ident_get_global_fallback.
Print Assumptions user_set_iff.
Print Assumptions ex_cfg_wf.
Print Assumptions ex_cfg_roundtrip.
