(* ExactFacts.v — exactness specifications at command level:
   C04 (add / rm change precisely the named paths), C09 (restore is exact),
   C08 (reset moves exactly what each mode promises).

   Two styles of statement are used:
   - [runs m w r tr]  : TOTAL, fault-free: from world [w] (any trace so far) the
     computation answers [r], appends exactly [tr] to the trace and ends in
     [apply_effects tr w];
   - [hoare Inv G (eq w) m Q] (MonadFacts): PARTIAL ("if it answers Ok then Q")
     plus "only effects allowed by G are emitted, in every intermediate world". *)
From Coq Require Import Strings.String Strings.Byte.
From Coq Require Import List Bool NArith ZArith Arith Lia Sorted.
From Goit Require Import Bytes Sha1 Obj Tree Index Regex GoRegex Commit Reflog Config Ignore World Repo.
From Goit Require Import BytesFacts ObjFacts IndexFacts IgnoreFacts MonadFacts Inv.
Import ListNotations.

(* ================================================================== *)
(** * 0. The abstract views *)

Definition stg (es : list entry) (p : bytes) : option bytes :=
  option_map (fun ie => e_id (snd ie)) (get_entry es p).
Definition staged (w : world) (p : bytes) : option bytes :=
  option_map (fun ie => e_id (snd ie)) (get_entry (idx_of w) p).
Definition file (w : world) (p : bytes) : option bytes := am_get (w_files w) p.

Lemma staged_stg : forall w p, staged w p = stg (idx_of w) p.
Proof. reflexivity. Qed.

Lemma stg_some_iff : forall es p id, Canonical es ->
  (stg es p = Some id <-> In (mkE id p) es).
Proof.
  intros es p id Hc. unfold stg. split.
  - intro Hs. destruct (get_entry es p) as [[i e]|] eqn:Hg; [|discriminate Hs].
    cbn in Hs. injection Hs as Hid. apply get_entry_sound in Hg. destruct Hg as [Hnth Hp].
    apply nth_error_In in Hnth. destruct e as [i0 p0]. cbn in Hid, Hp. subst. exact Hnth.
  - intro Hin. destruct (proj2 (get_entry_some_iff es p (mkE id p) Hc)) as [i Hg].
    { split; [exact Hin | reflexivity]. }
    rewrite Hg. reflexivity.
Qed.

Lemma staged_some_iff : forall w p id, Canonical (idx_of w) ->
  (staged w p = Some id <-> In (mkE id p) (idx_of w)).
Proof. intros w p id Hc. rewrite staged_stg. apply stg_some_iff. exact Hc. Qed.

Lemma stg_none_iff : forall es p, Canonical es -> (stg es p = None <-> ~ In p (paths es)).
Proof.
  intros es p Hc. rewrite <- (get_entry_none_iff es p Hc). unfold stg.
  destruct (get_entry es p) as [[i e]|]; cbn; split; intro H; try discriminate H; reflexivity.
Qed.

Lemma stg_tracked : forall w p, tracked w p = match staged w p with Some _ => true | None => false end.
Proof. intros w p. unfold tracked, staged. destruct (get_entry (idx_of w) p); reflexivity. Qed.

(* two canonical lists with the same entries at [q] agree at [q] *)
Lemma stg_ext : forall es es' q, Canonical es -> Canonical es' ->
  (forall e, e_path e = q -> (In e es' <-> In e es)) -> stg es' q = stg es q.
Proof.
  intros es es' q Hc Hc' Hiff. destruct (stg es q) as [i|] eqn:Hs.
  - apply (stg_some_iff es q i Hc) in Hs. apply (stg_some_iff es' q i Hc').
    apply Hiff; [reflexivity | exact Hs].
  - destruct (stg es' q) as [i'|] eqn:Hs'; [|reflexivity].
    apply (stg_some_iff es' q i' Hc') in Hs'. apply Hiff in Hs'; [|reflexivity].
    apply (stg_some_iff es q i' Hc) in Hs'. rewrite Hs' in Hs. discriminate Hs.
Qed.

Lemma stg_update : forall es id p es', Canonical es -> idx_update es id p = Some es' ->
  Canonical es' /\ stg es' p = Some id /\ (forall q, q <> p -> stg es' q = stg es q).
Proof.
  intros es id p es' Hc Hu. destruct (idx_update_spec es id p es' Hc Hu) as (Hc' & _ & _ & Hoth).
  split; [exact Hc'|]. split.
  - apply (stg_some_iff es' p id Hc'). apply (idx_update_In es id p es' Hc Hu).
  - intros q Hq. apply stg_ext; try assumption. intros e He. apply Hoth. congruence.
Qed.

Lemma stg_delete : forall es p es', Canonical es -> idx_delete es p = Some es' ->
  Canonical es' /\ stg es' p = None /\ (forall q, q <> p -> stg es' q = stg es q).
Proof.
  intros es p es' Hc Hd. destruct (idx_delete_spec es p es' Hc Hd) as (Hc' & Hnin & Hoth).
  split; [exact Hc'|]. split.
  - apply (stg_none_iff es' p Hc'). exact Hnin.
  - intros q Hq. apply stg_ext; try assumption. intros e He. apply Hoth. congruence.
Qed.

(* [idx_update] answers None exactly when that very id is already staged *)
Lemma stg_update_none : forall es id p, Canonical es ->
  (idx_update es id p = None <-> stg es p = Some id).
Proof.
  intros es id p Hc. rewrite (idx_update_none_iff es id p Hc), (stg_some_iff es p id Hc). split.
  - intros [[i q] (Hin & Hp & Hi)]. cbn in Hp, Hi. subst. exact Hin.
  - intro Hin. exists (mkE id p). auto.
Qed.

Lemma stg_delete_some : forall es p, Canonical es -> stg es p <> None ->
  exists es', idx_delete es p = Some es'.
Proof.
  intros es p Hc Hs. destruct (idx_delete es p) as [es'|] eqn:Hd; [exists es'; reflexivity|].
  exfalso. apply Hs. apply (stg_none_iff es p Hc). apply (idx_delete_none es p Hc). exact Hd.
Qed.

(* ---------- association lists ---------- *)
Lemma ex_am_get_set_same : forall (V : Type) (m : amap V) k v, am_get (am_set m k v) k = Some v.
Proof.
  intros V m k v. induction m as [|[k' v'] r IH]; cbn [am_set am_get].
  - rewrite bytes_eqb_refl. reflexivity.
  - destruct (bytes_eqb k' k) eqn:E.
    + cbn [am_get]. rewrite bytes_eqb_refl. reflexivity.
    + destruct (blt k k') eqn:L; cbn [am_get].
      * rewrite bytes_eqb_refl. reflexivity.
      * rewrite E. exact IH.
Qed.

Lemma ex_am_get_set_other : forall (V : Type) (m : amap V) k v q, q <> k ->
  am_get (am_set m k v) q = am_get m q.
Proof.
  intros V m k v q Hq. apply bytes_eqb_neq in Hq. rewrite bytes_eqb_sym in Hq.
  induction m as [|[k' v'] r IH]; cbn [am_set am_get].
  - rewrite Hq. reflexivity.
  - destruct (bytes_eqb k' k) eqn:E.
    + apply bytes_eqb_eq in E. subst k'. cbn [am_get]. rewrite Hq. reflexivity.
    + destruct (blt k k') eqn:L; cbn [am_get].
      * rewrite Hq. reflexivity.
      * rewrite IH. reflexivity.
Qed.

Lemma ex_am_get_del_other : forall (V : Type) (m : amap V) k q, q <> k ->
  am_get (am_del m k) q = am_get m q.
Proof.
  intros V m k q Hq. apply bytes_eqb_neq in Hq. rewrite bytes_eqb_sym in Hq.
  induction m as [|[k' v'] r IH]; cbn [am_del am_get]; [reflexivity|].
  destruct (bytes_eqb k' k) eqn:E.
  - apply bytes_eqb_eq in E. subst k'. rewrite Hq. reflexivity.
  - cbn [am_get]. rewrite IH. reflexivity.
Qed.

(* deleting needs the key to occur at most once *)
Definition ex_nodup_keys {V : Type} (m : amap V) : Prop := NoDup (map fst m).

Lemma ex_am_get_none : forall (V : Type) (m : amap V) k, ~ In k (map fst m) -> am_get m k = None.
Proof.
  intros V m k. induction m as [|[k' v'] r IH]; intro Hn; [reflexivity|].
  cbn [am_get]. destruct (bytes_eqb k' k) eqn:E.
  - apply bytes_eqb_eq in E. exfalso. apply Hn. left. exact E.
  - apply IH. intro Hin. apply Hn. right. exact Hin.
Qed.

Lemma ex_am_get_del_same : forall (V : Type) (m : amap V) k, ex_nodup_keys m ->
  am_get (am_del m k) k = None.
Proof.
  intros V m k. unfold ex_nodup_keys. induction m as [|[k' v'] r IH]; intro Hnd; [reflexivity|].
  cbn [am_del]. inversion Hnd as [|x l Hnin Hnd']; subst. destruct (bytes_eqb k' k) eqn:E.
  - apply bytes_eqb_eq in E. cbn [fst] in Hnin. subst k'. apply ex_am_get_none. exact Hnin.
  - cbn [am_get]. rewrite E. apply IH. exact Hnd'.
Qed.

Lemma ex_am_del_keys_incl : forall (V : Type) (m : amap V) k x, In x (map fst (am_del m k)) -> In x (map fst m).
Proof.
  intros V m k x. induction m as [|[k' v'] r IH]; cbn [am_del]; [auto|].
  destruct (bytes_eqb k' k); cbn [map fst In]; intro H; [right; exact H|].
  destruct H as [H|H]; [left; exact H | right; apply IH; exact H].
Qed.

Lemma ex_am_del_nodup : forall (V : Type) (m : amap V) k, ex_nodup_keys m -> ex_nodup_keys (am_del m k).
Proof.
  intros V m k. unfold ex_nodup_keys. induction m as [|[k' v'] r IH]; intro Hnd; [exact Hnd|].
  cbn [am_del]. inversion Hnd as [|x l Hnin Hnd']; subst. destruct (bytes_eqb k' k); [exact Hnd'|].
  cbn [map fst]. constructor; [|apply IH; exact Hnd'].
  intro Hin. apply Hnin. apply (ex_am_del_keys_incl V r k). exact Hin.
Qed.

Lemma ex_am_get_in : forall (V : Type) (m : amap V) k v, In (k, v) m -> exists v', am_get m k = Some v'.
Proof.
  intros V m k v. induction m as [|[k' v'] r IH]; intro Hin; [contradiction Hin|].
  cbn [am_get]. destruct (bytes_eqb k' k) eqn:E; [exists v'; reflexivity|].
  destruct Hin as [Hin|Hin]; [|apply IH; exact Hin].
  injection Hin as Hk _. subst k'. rewrite bytes_eqb_refl in E. discriminate E.
Qed.

Lemma ex_am_mem_get : forall (V : Type) (m : amap V) k, am_mem m k = true <-> am_get m k <> None.
Proof.
  intros V m k. unfold am_mem. destruct (am_get m k); split; intro H.
  - discriminate.
  - reflexivity.
  - discriminate H.
  - exfalso. apply H. reflexivity.
Qed.

(* ================================================================== *)
(** * 1. Total, fault-free execution: [runs] *)

Definition runs {A} (m : M A) (w : world) (r : res A) (tr : list effect) : Prop :=
  forall t, m (mkMS w t None) = (r, mkMS (apply_effects tr w) (t ++ tr) None).

Lemma runs_run_m : forall A (m : M A) w r tr, runs m w r tr -> run_m m w = (r, apply_effects tr w, tr).
Proof. intros A m w r tr H. unfold run_m. rewrite (H []). reflexivity. Qed.

Lemma runs_det : forall A (m : M A) w r tr r' tr', runs m w r tr -> runs m w r' tr' -> r = r' /\ tr = tr'.
Proof.
  intros A m w r tr r' tr' H H'. pose proof (H []) as E. rewrite (H' []) in E.
  cbn [app] in E. injection E as E1 _ E2. auto.
Qed.

Lemma runs_ret : forall A (a : A) w, runs (ret a) w (Ok a) [].
Proof. intros A a w t. unfold ret. rewrite app_nil_r. reflexivity. Qed.

Lemma runs_fail : forall A w, runs (@fail A) w Err [].
Proof. intros A w t. unfold fail. rewrite app_nil_r. reflexivity. Qed.

Lemma runs_emit : forall e w, runs (emit e) w (Ok tt) [e].
Proof. intros e w t. reflexivity. Qed.

Lemma runs_bind : forall A B (m : M A) (f : A -> M B) w a tr1 r tr2,
  runs m w (Ok a) tr1 -> runs (f a) (apply_effects tr1 w) r tr2 -> runs (bind m f) w r (tr1 ++ tr2).
Proof.
  intros A B m f w a tr1 r tr2 H1 H2 t. unfold bind. rewrite (H1 t), (H2 (t ++ tr1)).
  rewrite apply_effects_app, app_assoc. reflexivity.
Qed.

Lemma runs_bind_err : forall A B (m : M A) (f : A -> M B) w tr1,
  runs m w Err tr1 -> runs (bind m f) w Err tr1.
Proof. intros A B m f w tr1 H1 t. unfold bind. rewrite (H1 t). reflexivity. Qed.

(* weakest-precondition shaped rules: the goal keeps its concrete trace *)
Lemma runs_bind_getw : forall B (f : world -> M B) w r tr,
  runs (f w) w r tr -> runs (bind getw f) w r tr.
Proof. intros B f w r tr H t. unfold bind, getw. cbn [ms_w]. apply H. Qed.

Lemma runs_bind_ret : forall A B (a : A) (f : A -> M B) w r tr,
  runs (f a) w r tr -> runs (bind (ret a) f) w r tr.
Proof. intros A B a f w r tr H t. unfold bind, ret. apply H. Qed.

Lemma runs_bind_emit : forall B e (f : unit -> M B) w r tr,
  runs (f tt) (apply_effect e w) r tr -> runs (bind (emit e) f) w r (e :: tr).
Proof.
  intros B e f w r tr H t. unfold bind, emit. cbn [ms_fault ms_w ms_trace].
  rewrite (H (t ++ [e])), <- app_assoc. reflexivity.
Qed.

Lemma runs_bind_guard : forall B b (f : unit -> M B) w r tr,
  b = true -> runs (f tt) w r tr -> runs (bind (guard b) f) w r tr.
Proof. intros B b f w r tr -> H t. unfold bind, guard, ret. apply H. Qed.

Lemma runs_bind_guard_false : forall B b (f : unit -> M B) w,
  b = false -> runs (bind (guard b) f) w Err [].
Proof. intros B b f w -> t. unfold bind, guard, fail. rewrite app_nil_r. reflexivity. Qed.

Lemma runs_bind_of_opt : forall A B (o : option A) a (f : A -> M B) w r tr,
  o = Some a -> runs (f a) w r tr -> runs (bind (of_opt o) f) w r tr.
Proof. intros A B o a f w r tr -> H t. unfold bind, of_opt, ret. apply H. Qed.

Lemma runs_bind_of_opt_none : forall A B (o : option A) (f : A -> M B) w,
  o = None -> runs (bind (of_opt o) f) w Err [].
Proof. intros A B o f w -> t. unfold bind, of_opt, fail. rewrite app_nil_r. reflexivity. Qed.

Lemma runs_bind_fail : forall A B (f : A -> M B) w, runs (bind fail f) w Err [].
Proof. intros A B f w t. unfold bind, fail. rewrite app_nil_r. reflexivity. Qed.

Lemma runs_assoc : forall A B C (m : M A) (f : A -> M B) (g : B -> M C) w r tr,
  runs (bind m (fun a => bind (f a) g)) w r tr -> runs (bind (bind m f) g) w r tr.
Proof. intros A B C m f g w r tr H t. rewrite bind_assoc. apply H. Qed.

Lemma runs_emit_end : forall e w, runs (emit e) w (Ok tt) [e].
Proof. exact runs_emit. Qed.

(* a unit-valued call in front, by its own specification *)
Lemma runs_seq : forall B (m : M unit) (f : unit -> M B) w tr1 r tr2,
  runs m w (Ok tt) tr1 -> runs (f tt) (apply_effects tr1 w) r tr2 -> runs (bind m f) w r (tr1 ++ tr2).
Proof. intros B m f w tr1 r tr2 H1 H2. apply (runs_bind _ _ m f w tt); assumption. Qed.

Ltac rstep :=
  lazymatch goal with
  | |- runs (bind (bind _ _) _) _ _ _ => apply runs_assoc
  | |- runs (bind getw _) _ _ _ => apply runs_bind_getw; cbv beta
  | |- runs (bind (ret _) _) _ _ _ => apply runs_bind_ret; cbv beta
  | |- runs (bind (emit _) _) _ _ (_ :: _) => apply runs_bind_emit
  | |- runs (emit _) _ _ _ => apply runs_emit
  | |- runs (ret _) _ _ _ => apply runs_ret
  | |- runs fail _ _ _ => apply runs_fail
  | |- runs (bind fail _) _ _ _ => apply runs_bind_fail
  | |- runs (bind (let _ := _ in _) _) _ _ _ => cbv zeta
  | |- runs (let _ := _ in _) _ _ _ => cbv zeta
  end.

Ltac ropt x H := repeat (apply runs_assoc); apply (runs_bind_of_opt _ _ _ x); [exact H | cbv beta].
Ltac rguard H := repeat (apply runs_assoc); apply runs_bind_guard; [exact H | cbv beta].

(* the loop rule: [J done w] after the elements [done] have been processed *)
Lemma runs_iterM : forall A (f : A -> M unit) (J : list A -> world -> Prop) (G : effect -> Prop) l w,
  J [] w ->
  (forall done x rest w1, l = done ++ x :: rest -> J done w1 ->
     exists tr, runs (f x) w1 (Ok tt) tr /\ Forall G tr /\ J (done ++ [x]) (apply_effects tr w1)) ->
  exists tr, runs (iterM f l) w (Ok tt) tr /\ Forall G tr /\ J l (apply_effects tr w).
Proof.
  intros A f J G l w HJ Hstep.
  assert (Hgen : forall rest done w1, l = done ++ rest -> J done w1 ->
            exists tr, runs (iterM f rest) w1 (Ok tt) tr /\ Forall G tr /\ J l (apply_effects tr w1)).
  { induction rest as [|x rest IH]; intros done w1 Hl Hj.
    - exists []. split; [apply runs_ret|]. split; [constructor|].
      rewrite app_nil_r in Hl. subst done. exact Hj.
    - destruct (Hstep done x rest w1 Hl Hj) as (tr1 & Hr1 & Hg1 & Hj1).
      destruct (IH (done ++ [x]) (apply_effects tr1 w1)) as (tr2 & Hr2 & Hg2 & Hj2).
      { rewrite <- app_assoc. exact Hl. }
      { exact Hj1. }
      exists (tr1 ++ tr2). split; [|split].
      + cbn [iterM]. apply runs_seq; assumption.
      + apply Forall_app. auto.
      + rewrite apply_effects_app. exact Hj2. }
  apply (Hgen l [] w); [reflexivity | exact HJ].
Qed.

(* ================================================================== *)
(** * 2. What stays the same *)

(* everything except objects, collision flag and staging area *)
Definition same_wt (w w' : world) : Prop := w_files w' = w_files w /\ w_dirs w' = w_dirs w.
Definition same_meta (w w' : world) : Prop :=
  w_inited w' = w_inited w /\ w_head w' = w_head w /\ w_refs w' = w_refs w /\
  w_hlog w' = w_hlog w /\ w_blogs w' = w_blogs w /\ w_lcfg w' = w_lcfg w /\ w_gcfg w' = w_gcfg w.
Definition same_objs (w w' : world) : Prop := w_objs w' = w_objs w /\ w_coll w' = w_coll w.
(* every object that could be read can still be read, with the same content *)
Definition objs_kept (w w' : world) : Prop :=
  forall id kd, get_obj (w_objs w) id = Some kd -> get_obj (w_objs w') id = Some kd.

Lemma same_wt_refl : forall w, same_wt w w. Proof. intro w. split; reflexivity. Qed.
Lemma same_meta_refl : forall w, same_meta w w. Proof. intro w. repeat split. Qed.
Lemma same_objs_refl : forall w, same_objs w w. Proof. intro w. split; reflexivity. Qed.
Lemma same_wt_trans : forall a b c, same_wt a b -> same_wt b c -> same_wt a c.
Proof. intros a b c [H1 H2] [H3 H4]. split; congruence. Qed.
Lemma same_meta_trans : forall a b c, same_meta a b -> same_meta b c -> same_meta a c.
Proof.
  intros a b c (A1 & A2 & A3 & A4 & A5 & A6 & A7) (B1 & B2 & B3 & B4 & B5 & B6 & B7).
  repeat split; congruence.
Qed.
Lemma same_objs_trans : forall a b c, same_objs a b -> same_objs b c -> same_objs a c.
Proof. intros a b c [H1 H2] [H3 H4]. split; congruence. Qed.

Lemma get_obj_lookup : forall st st' id, st_lookup st' id = st_lookup st id -> get_obj st' id = get_obj st id.
Proof. intros st st' id H. unfold get_obj. rewrite H. reflexivity. Qed.

(* no collision flagged at the end: nothing readable was lost on the way *)
Lemma objs_kept_trace : forall tr w, w_coll (apply_effects tr w) = false -> objs_kept w (apply_effects tr w).
Proof.
  intros tr w Hc id kd Hg. unfold get_obj in Hg |- *.
  destruct (st_lookup (w_objs w) id) as [p|] eqn:Hl; [|discriminate Hg].
  rewrite (trace_store_grows tr w id p Hc Hl). exact Hg.
Qed.

(* the effect classes the commands below use *)
Definition is_idx (e : effect) : bool := match e with ESetIndex _ => true | _ => false end.
Definition add_eff (e : effect) : Prop := match e with EPutObj _ _ | ESetIndex _ => True | _ => False end.

Lemma add_eff_frame : forall e w, add_eff e -> same_wt w (apply_effect e w) /\ same_meta w (apply_effect e w).
Proof. intros e w He. destruct e; try contradiction He; split; repeat split. Qed.

Lemma add_eff_trace_frame : forall tr w, Forall add_eff tr ->
  same_wt w (apply_effects tr w) /\ same_meta w (apply_effects tr w).
Proof.
  induction tr as [|e tr IH]; intros w Hall.
  - split; [apply same_wt_refl | apply same_meta_refl].
  - inversion Hall as [|e' tr' He Htr]; subst. rewrite apply_effects_cons.
    destruct (add_eff_frame e w He) as [H1 H2]. destruct (IH (apply_effect e w) Htr) as [H3 H4].
    split; [eapply same_wt_trans | eapply same_meta_trans]; eassumption.
Qed.

(* ================================================================== *)
(** * 3. [add_file] *)

Definition blob_id (data : bytes) : bytes := obj_id KBlob data.

(* the trace of [add_file p] *)
Definition add_file_trace (w : world) (p : bytes) : list effect :=
  match file w p with
  | None => []
  | Some data =>
      match idx_update (idx_of w) (blob_id data) p with
      | None => []
      | Some i => [EPutObj (blob_id data) (payload KBlob data); ESetIndex i]
      end
  end.

Lemma add_file_runs : forall w p data, Canonical (idx_of w) -> file w p = Some data ->
  runs (add_file p) w (Ok tt) (add_file_trace w p).
Proof.
  intros w p data Hc Hf. unfold add_file_trace. rewrite Hf. unfold add_file.
  rstep. apply (runs_bind_of_opt _ _ _ data); [exact Hf|]. cbv zeta. fold (blob_id data).
  pose proof (stg_update_none (idx_of w) (blob_id data) p Hc) as Hn.
  unfold stg in Hn. unfold idx_update in *.
  destruct (get_entry (idx_of w) p) as [[pos e]|] eqn:Hg.
  - destruct (bytes_eqb (e_id e) (blob_id data)) eqn:Eid.
    + apply runs_ret.
    + unfold put_obj. fold (blob_id data). repeat rstep.
  - unfold put_obj. fold (blob_id data). repeat rstep.
Qed.

(* "re-adding an unchanged file changes nothing" *)
Theorem add_file_unchanged : forall w p data, Canonical (idx_of w) ->
  file w p = Some data -> staged w p = Some (blob_id data) ->
  runs (add_file p) w (Ok tt) [] /\ run_m (add_file p) w = (Ok tt, w, []).
Proof.
  intros w p data Hc Hf Hs.
  assert (Ht : add_file_trace w p = []).
  { unfold add_file_trace. rewrite Hf.
    rewrite (proj2 (stg_update_none (idx_of w) (blob_id data) p Hc) Hs). reflexivity. }
  pose proof (add_file_runs w p data Hc Hf) as Hr. rewrite Ht in Hr.
  split; [exact Hr | apply (runs_run_m _ _ _ _ _ Hr)].
Qed.

Record add_file_post (w : world) (p data : bytes) (w' : world) : Prop := {
  afp_canon : Canonical (idx_of w');
  afp_staged : staged w' p = Some (blob_id data);
  afp_others : forall q, q <> p -> staged w' q = staged w q;
  afp_wt : same_wt w w';
  afp_meta : same_meta w w';
  afp_kept : w_coll w' = false -> objs_kept w w';
  afp_stored : staged w p <> Some (blob_id data) -> w_coll w' = false ->
               (lenN data < 2 ^ 63)%N ->
               get_obj (w_objs w') (blob_id data) = Some (KBlob, data);
  afp_noop : staged w p = Some (blob_id data) -> w' = w
}.

Theorem add_file_spec : forall w p data, Canonical (idx_of w) -> file w p = Some data ->
  exists tr, runs (add_file p) w (Ok tt) tr /\ Forall add_eff tr /\
             (staged w p = Some (blob_id data) -> tr = []) /\
             add_file_post w p data (apply_effects tr w).
Proof.
  intros w p data Hc Hf. exists (add_file_trace w p).
  split; [apply (add_file_runs w p data Hc Hf)|].
  unfold add_file_trace. rewrite Hf.
  destruct (idx_update (idx_of w) (blob_id data) p) as [i|] eqn:Hu.
  - destruct (stg_update (idx_of w) (blob_id data) p i Hc Hu) as (Hci & Hsp & Hso).
    assert (Hns : staged w p <> Some (blob_id data)).
    { intro Hs. apply (stg_update_none (idx_of w) (blob_id data) p Hc) in Hs. congruence. }
    split; [repeat constructor|]. split; [intro Hs; contradiction (Hns Hs)|].
    set (tr := [EPutObj (blob_id data) (payload KBlob data); ESetIndex i]).
    assert (Hidx : idx_of (apply_effects tr w) = i) by reflexivity.
    constructor.
    + rewrite Hidx. exact Hci.
    + rewrite staged_stg, Hidx. exact Hsp.
    + intros q Hq. rewrite !staged_stg, Hidx. apply Hso. exact Hq.
    + split; reflexivity.
    + repeat split.
    + intro Hcoll. apply objs_kept_trace. exact Hcoll.
    + intros _ Hcoll Hlen. unfold tr. autorewrite with wfields. unfold blob_id. apply get_put. exact Hlen.
    + intro Hs. contradiction (Hns Hs).
  - assert (Hs : staged w p = Some (blob_id data)).
    { apply (stg_update_none (idx_of w) (blob_id data) p Hc). exact Hu. }
    split; [constructor|]. split; [reflexivity|]. cbn [apply_effects fold_left].
    constructor; try reflexivity.
    + exact Hc.
    + exact Hs.
    + apply same_wt_refl.
    + apply same_meta_refl.
    + intros _ id kd Hg. exact Hg.
    + intro Hn. contradiction (Hn Hs).
Qed.

(* ================================================================== *)
(** * 4. [rm] *)

(* [wt_stat] reads the work tree only *)
Lemma wt_stat_ext : forall w w' q, w_files w' = w_files w -> w_dirs w' = w_dirs w ->
  wt_stat w' q = wt_stat w q.
Proof. intros w w' q Hf Hd. unfold wt_stat. rewrite Hf, Hd. reflexivity. Qed.

Lemma wt_stat_SFile : forall w q, wt_stat w q = SFile -> file w q <> None.
Proof.
  intros w q. unfold wt_stat, file.
  destruct (bytes_eqb q [x2e]); [discriminate|].
  destruct (existsb (fun d => am_mem (w_files w) d) (ancestors q)); [discriminate|].
  destruct (am_mem (w_files w) q) eqn:E.
  - intros _. apply ex_am_mem_get. exact E.
  - destruct (set_mem (w_dirs w) q); discriminate.
Qed.

Lemma wt_stat_SNone : forall w q, wt_stat w q = SNone -> file w q = None.
Proof.
  intros w q. unfold wt_stat, file, am_mem.
  destruct (bytes_eqb q [x2e]); [discriminate|].
  destruct (existsb _ (ancestors q)); [discriminate|].
  destruct (am_get (w_files w) q); [discriminate|]. reflexivity.
Qed.

Lemma ex_am_mem_del : forall (V : Type) (m : amap V) k d, am_mem (am_del m k) d = true -> am_mem m d = true.
Proof.
  intros V m k d. unfold am_mem. induction m as [|[k' v'] r IH]; cbn [am_del am_get]; [auto|].
  destruct (bytes_eqb k' k) eqn:E.
  - destruct (bytes_eqb k' d); [reflexivity | auto].
  - cbn [am_get]. destruct (bytes_eqb k' d); [reflexivity | exact IH].
Qed.

Lemma ex_existsb_mono : forall (A : Type) (f g : A -> bool) l,
  (forall x, f x = true -> g x = true) -> existsb g l = false -> existsb f l = false.
Proof.
  intros A f g l H. induction l as [|x l IH]; cbn [existsb]; [reflexivity|].
  intro Hg. apply orb_false_elim in Hg. destruct Hg as [Hx Hl].
  rewrite (IH Hl). destruct (f x) eqn:E; [|reflexivity]. rewrite (H x E) in Hx. discriminate Hx.
Qed.

Lemma ex_set_mem_del : forall s k q, set_mem (set_del s k) q = true -> set_mem s q = true.
Proof.
  intros s k q. unfold set_mem, set_del. rewrite !existsb_exists.
  intros [x [Hin Hx]]. apply filter_In in Hin. exists x. tauto.
Qed.

Lemma wt_stat_remove_SFile : forall w p q, wt_stat w q = SFile -> q <> p ->
  wt_stat (apply_effect (ERemovePath p) w) q = SFile.
Proof.
  intros w p q Hs Hq. unfold wt_stat in *. autorewrite with wfields.
  destruct (bytes_eqb q [x2e]); [discriminate Hs|].
  destruct (existsb (fun d => am_mem (w_files w) d) (ancestors q)) eqn:Ea; [discriminate Hs|].
  rewrite (ex_existsb_mono _ (fun d => am_mem (am_del (w_files w) p) d) _ (ancestors q)
             (fun d => ex_am_mem_del _ (w_files w) p d) Ea).
  destruct (am_mem (w_files w) q) eqn:Em.
  - unfold am_mem in *. rewrite ex_am_get_del_other by exact Hq. rewrite Em. reflexivity.
  - destruct (set_mem (w_dirs w) q); discriminate Hs.
Qed.

Lemma wt_stat_remove_SNone : forall w p q, wt_stat w q = SNone ->
  wt_stat (apply_effect (ERemovePath p) w) q = SNone.
Proof.
  intros w p q Hs. unfold wt_stat in *. autorewrite with wfields.
  destruct (bytes_eqb q [x2e]); [discriminate Hs|].
  destruct (existsb (fun d => am_mem (w_files w) d) (ancestors q)) eqn:Ea; [discriminate Hs|].
  rewrite (ex_existsb_mono _ (fun d => am_mem (am_del (w_files w) p) d) _ (ancestors q)
             (fun d => ex_am_mem_del _ (w_files w) p d) Ea).
  destruct (am_mem (w_files w) q) eqn:Em; [discriminate Hs|].
  destruct (am_mem (am_del (w_files w) p) q) eqn:Em'.
  { apply ex_am_mem_del in Em'. congruence. }
  destruct (set_mem (w_dirs w) q) eqn:Ed; [discriminate Hs|].
  destruct (set_mem (set_del (w_dirs w) p) q) eqn:Ed'; [|reflexivity].
  apply ex_set_mem_del in Ed'. congruence.
Qed.

Definition rm_eff (e : effect) : Prop := match e with ERemovePath _ | ESetIndex _ => True | _ => False end.

Lemma rm_eff_frame : forall e w, rm_eff e -> same_objs w (apply_effect e w) /\ same_meta w (apply_effect e w).
Proof. intros e w He. destruct e; try contradiction He; split; repeat split. Qed.

Lemma rm_one_runs : forall w p i, idx_delete (idx_of w) p = Some i ->
  (wt_stat w p = SFile -> runs (rm_one p) w (Ok tt) [ERemovePath p; ESetIndex i]) /\
  (wt_stat w p = SNone -> runs (rm_one p) w (Ok tt) [ESetIndex i]).
Proof.
  intros w p i Hd. split; intro Hs; unfold rm_one; rstep; rewrite Hs.
  - rstep. rstep. apply (runs_bind_of_opt _ _ _ i); [exact Hd|]. rstep.
  - rstep. rstep. apply (runs_bind_of_opt _ _ _ i); [exact Hd|]. rstep.
Qed.

(* a tracked path that is not on disk as a file or absent: nothing happens *)
Lemma rm_one_refuses : forall w p, wt_stat w p = SNotDir -> runs (rm_one p) w Err [].
Proof. intros w p Hs. unfold rm_one. rstep. rewrite Hs. rstep. Qed.

Lemma rm_one_untracked : forall w p, Canonical (idx_of w) -> staged w p = None -> wt_stat w p = SNone ->
  runs (rm_one p) w Err [].
Proof.
  intros w p Hc Hst Hs. unfold rm_one. rstep. rewrite Hs. rstep. rstep.
  apply runs_bind_of_opt_none. apply (idx_delete_none (idx_of w) p Hc).
  apply (stg_none_iff (idx_of w) p Hc). exact Hst.
Qed.

Record rm_one_post (w : world) (p : bytes) (w' : world) : Prop := {
  rop_canon : Canonical (idx_of w');
  rop_staged : staged w' p = None;
  rop_staged_others : forall q, q <> p -> staged w' q = staged w q;
  rop_file : file w' p = None;
  rop_file_others : forall q, q <> p -> file w' q = file w q;
  rop_nodup : ex_nodup_keys (w_files w');
  rop_objs : same_objs w w';
  rop_meta : same_meta w w';
  rop_stat_file : forall q, wt_stat w q = SFile -> q <> p -> wt_stat w' q = SFile;
  rop_stat_none : forall q, wt_stat w q = SNone -> wt_stat w' q = SNone
}.

Theorem rm_one_spec : forall w p, Canonical (idx_of w) -> ex_nodup_keys (w_files w) ->
  staged w p <> None -> (wt_stat w p = SFile \/ wt_stat w p = SNone) ->
  exists tr, runs (rm_one p) w (Ok tt) tr /\ Forall rm_eff tr /\
             (forall q, In (ERemovePath q) tr -> q = p) /\
             rm_one_post w p (apply_effects tr w).
Proof.
  intros w p Hc Hnd Hst Hs.
  destruct (stg_delete_some (idx_of w) p Hc Hst) as [i Hd].
  destruct (stg_delete (idx_of w) p i Hc Hd) as (Hci & Hsp & Hso).
  destruct (rm_one_runs w p i Hd) as [Hrf Hrn].
  destruct Hs as [Hs|Hs].
  - exists [ERemovePath p; ESetIndex i]. split; [apply Hrf; exact Hs|].
    split; [repeat constructor|]. split.
    { intros q [H|[H|[]]]; [injection H as H; auto | discriminate H]. }
    constructor.
    + exact Hci.
    + exact Hsp.
    + intros q Hq. rewrite !staged_stg. apply Hso. exact Hq.
    + unfold file. autorewrite with wfields. apply ex_am_get_del_same. exact Hnd.
    + intros q Hq. unfold file. autorewrite with wfields. apply ex_am_get_del_other. exact Hq.
    + autorewrite with wfields. apply ex_am_del_nodup. exact Hnd.
    + split; reflexivity.
    + repeat split.
    + intros q Hq Hne. rewrite apply_effects_cons, apply_effects_one.
      rewrite (wt_stat_ext (apply_effect (ERemovePath p) w)) by reflexivity.
      apply wt_stat_remove_SFile; assumption.
    + intros q Hq. rewrite apply_effects_cons, apply_effects_one.
      rewrite (wt_stat_ext (apply_effect (ERemovePath p) w)) by reflexivity.
      apply wt_stat_remove_SNone; assumption.
  - exists [ESetIndex i]. split; [apply Hrn; exact Hs|].
    split; [repeat constructor|]. split.
    { intros q [H|[]]. discriminate H. }
    constructor.
    + exact Hci.
    + exact Hsp.
    + intros q Hq. rewrite !staged_stg. apply Hso. exact Hq.
    + apply wt_stat_SNone in Hs. exact Hs.
    + intros q Hq. reflexivity.
    + exact Hnd.
    + split; reflexivity.
    + repeat split.
    + intros q Hq _. rewrite apply_effects_one. rewrite (wt_stat_ext w) by reflexivity. exact Hq.
    + intros q Hq. rewrite apply_effects_one. rewrite (wt_stat_ext w) by reflexivity. exact Hq.
Qed.

(* ---------- the command ---------- *)
Definition rm_body (a : bytes) : M unit :=
  w <- getw ;;
  if tracked w a then rm_one a
  else iterM rm_one (map e_path (entries_by_dir (idx_of w) a)).

Lemma cmd_rm_uses_body : forall args,
  cmd_rm args =
  ((w <- getw ;; guard (forallb (fun a => tracked w a || is_dir (idx_of w) a) args)) ;;;
   iterM rm_body args ;;; ret []).
Proof. reflexivity. Qed.

(* validation: every argument is tracked or a tracked directory, else nothing happens *)
Theorem cmd_rm_refuses : forall w args,
  forallb (fun a => tracked w a || is_dir (idx_of w) a) args = false ->
  runs (cmd_rm args) w Err [] /\ run_m (cmd_rm args) w = (Err, w, []).
Proof.
  intros w args Hv.
  assert (Hr : runs (cmd_rm args) w Err []).
  { rewrite cmd_rm_uses_body. rstep. rstep. apply runs_bind_guard_false. exact Hv. }
  split; [exact Hr | apply (runs_run_m _ _ _ _ _ Hr)].
Qed.

Lemma cmd_rm_one_arg : forall w a tr,
  tracked w a || is_dir (idx_of w) a = true ->
  runs (rm_body a) w (Ok tt) tr -> runs (cmd_rm [a]) w (Ok []) tr.
Proof.
  intros w a tr Hv Hb. rewrite cmd_rm_uses_body. rstep. rstep.
  apply runs_bind_guard; [cbn [forallb]; rewrite Hv; reflexivity|].
  cbn [iterM]. rstep. rewrite <- (app_nil_r tr). apply runs_seq; [exact Hb|].
  rstep. rstep.
Qed.

(* one argument that is a tracked path *)
Theorem cmd_rm_file_spec : forall w a, Canonical (idx_of w) -> ex_nodup_keys (w_files w) ->
  staged w a <> None -> (wt_stat w a = SFile \/ wt_stat w a = SNone) ->
  exists tr, runs (cmd_rm [a]) w (Ok []) tr /\ Forall rm_eff tr /\
             (forall q, In (ERemovePath q) tr -> q = a) /\
             rm_one_post w a (apply_effects tr w).
Proof.
  intros w a Hc Hnd Hst Hs. destruct (rm_one_spec w a Hc Hnd Hst Hs) as (tr & Hr & Hrest).
  exists tr. split; [|exact Hrest].
  assert (Ht : tracked w a = true).
  { rewrite stg_tracked. destruct (staged w a); [reflexivity | contradiction Hst; reflexivity]. }
  apply cmd_rm_one_arg; [rewrite Ht; reflexivity|].
  unfold rm_body. rstep. rewrite Ht. exact Hr.
Qed.

(* the tracked paths below a directory *)
Lemma dir_targets_iff : forall es d q, Canonical es ->
  (In q (map e_path (entries_by_dir es d)) <-> stg es q <> None /\ under_dir d q = true).
Proof.
  intros es d q Hc. rewrite in_map_iff. split.
  - intros [e [Hp Hin]]. apply entries_by_dir_exact in Hin. destruct Hin as [Hin Hu]. subst q.
    split; [|exact Hu]. intro Hn. apply (stg_none_iff es _ Hc) in Hn. apply Hn.
    apply in_map. exact Hin.
  - intros [Hs Hu]. destruct (stg es q) as [i|] eqn:Hsq; [|contradiction Hs; reflexivity].
    apply (stg_some_iff es q i Hc) in Hsq. exists (mkE i q). split; [reflexivity|].
    apply entries_by_dir_exact. split; [exact Hsq | exact Hu].
Qed.

Lemma dir_targets_nodup : forall es d, Canonical es -> NoDup (map e_path (entries_by_dir es d)).
Proof.
  intros es d Hc. apply (Canonical_NoDup_paths (entries_by_dir es d)).
  apply entries_by_dir_canonical. exact Hc.
Qed.

Lemma ex_nodup_mid : forall (A : Type) (done : list A) x rest, NoDup (done ++ x :: rest) -> ~ In x done.
Proof.
  intros A done x rest Hnd Hin. apply NoDup_remove_2 in Hnd. apply Hnd. apply in_or_app. left. exact Hin.
Qed.

Record rm_many_post (w : world) (sel : bytes -> Prop) (w' : world) : Prop := {
  rmp_canon : Canonical (idx_of w');
  rmp_nodup : ex_nodup_keys (w_files w');
  rmp_objs : same_objs w w';
  rmp_meta : same_meta w w';
  rmp_gone : forall q, sel q -> staged w' q = None /\ file w' q = None;
  rmp_kept : forall q, ~ sel q -> staged w' q = staged w q /\ file w' q = file w q;
  rmp_stat_file : forall q, wt_stat w q = SFile -> ~ sel q -> wt_stat w' q = SFile;
  rmp_stat_none : forall q, wt_stat w q = SNone -> wt_stat w' q = SNone
}.

(* removing a duplicate-free list of tracked paths, each a file or absent on disk *)
Lemma rm_list_spec : forall w l, Canonical (idx_of w) -> ex_nodup_keys (w_files w) -> NoDup l ->
  (forall q, In q l -> staged w q <> None /\ (wt_stat w q = SFile \/ wt_stat w q = SNone)) ->
  exists tr, runs (iterM rm_one l) w (Ok tt) tr /\
             Forall (fun e => rm_eff e /\ forall q, e = ERemovePath q -> In q l) tr /\
             rm_many_post w (fun q => In q l) (apply_effects tr w).
Proof.
  intros w l Hc Hnd Hndl Hl.
  apply (runs_iterM _ rm_one (fun done w1 => rm_many_post w (fun q => In q done) w1)).
  - constructor; try (intros; contradiction); auto.
    + apply same_objs_refl.
    + apply same_meta_refl.
  - intros done x rest w1 El HJ. destruct HJ as [Jc Jnd Jo Jm Jg Jk Jsf Jsn].
    assert (Hx : In x l) by (rewrite El; apply in_or_app; right; left; reflexivity).
    assert (Hxd : ~ In x done) by (rewrite El in Hndl; apply (ex_nodup_mid _ _ _ _ Hndl)).
    destruct (Hl x Hx) as [Hst Hs]. destruct (Jk x Hxd) as [Jkx _].
    assert (Hs1 : wt_stat w1 x = SFile \/ wt_stat w1 x = SNone).
    { destruct Hs as [Hs|Hs]; [left; apply Jsf; assumption | right; apply Jsn; assumption]. }
    assert (Hst1 : staged w1 x <> None) by (rewrite Jkx; exact Hst).
    destruct (rm_one_spec w1 x Jc Jnd Hst1 Hs1) as (tr & Hr & Hg & Hrm & Hpost).
    destruct Hpost as [Pc Ps Pso Pf Pfo Pnd Po Pm Psf Psn].
    exists tr. split; [exact Hr|]. split.
    { apply Forall_forall. intros e He. split; [apply (proj1 (Forall_forall _ _) Hg e He)|].
      intros q Eq. subst e. rewrite (Hrm q He). exact Hx. }
    constructor.
    + exact Pc.
    + exact Pnd.
    + apply (same_objs_trans _ _ _ Jo Po).
    + apply (same_meta_trans _ _ _ Jm Pm).
    + intros q Hq. destruct (bytes_eq_dec q x) as [->|Hne]; [split; assumption|].
      apply in_app_or in Hq. destruct Hq as [Hq|[Hq|[]]]; [|congruence].
      rewrite (Pso q Hne), (Pfo q Hne). apply Jg. exact Hq.
    + intros q Hq. assert (Hne : q <> x) by (intros ->; apply Hq; apply in_or_app; right; left; reflexivity).
      assert (Hqd : ~ In q done) by (intro H; apply Hq; apply in_or_app; left; exact H).
      rewrite (Pso q Hne), (Pfo q Hne). apply Jk. exact Hqd.
    + intros q Hq Hnin. assert (Hne : q <> x) by (intros ->; apply Hnin; apply in_or_app; right; left; reflexivity).
      apply Psf; [|exact Hne]. apply Jsf; [exact Hq|]. intro H; apply Hnin; apply in_or_app; left; exact H.
    + intros q Hq. apply Psn. apply Jsn. exact Hq.
Qed.

(* one argument that is a directory holding tracked paths: exactly those
   leave the staging area and the work tree; nothing else moves *)
Theorem cmd_rm_dir_spec : forall w d, Canonical (idx_of w) -> ex_nodup_keys (w_files w) ->
  staged w d = None -> is_dir (idx_of w) d = true ->
  (forall q, staged w q <> None -> under_dir d q = true -> wt_stat w q = SFile \/ wt_stat w q = SNone) ->
  exists tr, runs (cmd_rm [d]) w (Ok []) tr /\
    Forall (fun e => rm_eff e /\ forall q, e = ERemovePath q -> staged w q <> None /\ under_dir d q = true) tr /\
    rm_many_post w (fun q => staged w q <> None /\ under_dir d q = true) (apply_effects tr w).
Proof.
  intros w d Hc Hnd Hst Hdir Hdisk.
  set (l := map e_path (entries_by_dir (idx_of w) d)).
  assert (Hl : forall q, In q l <-> staged w q <> None /\ under_dir d q = true).
  { intro q. apply (dir_targets_iff (idx_of w) d q Hc). }
  destruct (rm_list_spec w l Hc Hnd (dir_targets_nodup (idx_of w) d Hc)) as (tr & Hr & Hg & Hpost).
  { intros q Hq. apply Hl in Hq. destruct Hq as [H1 H2]. split; [exact H1 | apply Hdisk; assumption]. }
  exists tr. split; [|split].
  - assert (Ht : tracked w d = false) by (rewrite stg_tracked, Hst; reflexivity).
    apply cmd_rm_one_arg; [rewrite Hdir; apply orb_true_r|].
    unfold rm_body. rstep. rewrite Ht. exact Hr.
  - apply Forall_forall. intros e He. destruct (proj1 (Forall_forall _ _) Hg e He) as [H1 H2].
    split; [exact H1|]. intros q Eq. apply Hl. apply H2. exact Eq.
  - destruct Hpost as [Pc Pnd Po Pm Pg Pk Psf Psn]. constructor; try assumption.
    + intros q Hq. apply Pg. apply Hl. exact Hq.
    + intros q Hq. apply Pk. intro H. apply Hq. apply Hl. exact H.
    + intros q Hq Hn. apply Psf; [exact Hq|]. intro H. apply Hn. apply Hl. exact H.
Qed.

(* an UNTRACKED file, wherever it is, is untouched by [rm <dir>] *)
Corollary cmd_rm_dir_untracked_untouched : forall w d tr q,
  rm_many_post w (fun q => staged w q <> None /\ under_dir d q = true) (apply_effects tr w) ->
  staged w q = None -> file (apply_effects tr w) q = file w q.
Proof.
  intros w d tr q Hp Hq. apply (rmp_kept _ _ _ Hp). intros [H _]. contradiction (H Hq).
Qed.

(* ---------- the whole command, any argument list ---------- *)
(* only [ESetIndex] and [ERemovePath p] for [p] staged at the start are ever
   emitted, whatever the outcome (also part-way failures and injected faults) *)
Definition rm_inv (w0 w : world) : Prop :=
  Canonical (idx_of w) /\ forall q, staged w q <> None -> staged w0 q <> None.
Definition rm_G (w0 : world) (_ : world) (e : effect) : Prop :=
  match e with
  | ESetIndex _ => True
  | ERemovePath p => staged w0 p <> None
  | _ => False
  end.

Lemma rm_inv_remove : forall w0 w p, rm_inv w0 w -> rm_inv w0 (apply_effect (ERemovePath p) w).
Proof. intros w0 w p H. exact H. Qed.

Lemma rm_inv_delete : forall w0 w p a, rm_inv w0 w -> idx_delete (idx_of w) p = Some a ->
  rm_inv w0 (apply_effect (ESetIndex a) w).
Proof.
  intros w0 w p a [Hc Hsub] Hd. destruct (stg_delete _ _ _ Hc Hd) as (Hc' & Hs' & Ho').
  split; [exact Hc'|]. intros q Hq. apply Hsub.
  destruct (bytes_eq_dec q p) as [->|Hne].
  - exfalso. apply Hq. exact Hs'.
  - rewrite staged_stg. rewrite <- (Ho' q Hne). exact Hq.
Qed.

Ltac rm_side p Hp :=
  repeat match goal with
  | |- _ /\ _ => split
  | |- True => exact Logic.I
  | |- rm_G _ _ _ => first [exact Logic.I | exact Hp]
  | |- rm_inv _ (apply_effect (ERemovePath _) _) => apply rm_inv_remove; assumption
  | |- rm_inv _ (apply_effect (ESetIndex _) _) => apply rm_inv_delete with (p := p); assumption
  end.

Lemma rm_one_emits : forall w0 p, staged w0 p <> None ->
  emits (rm_inv w0) (rm_G w0) (rm_one p).
Proof. intros w0 p Hp. hinline. hsteps; try exact Logic.I; rm_side p Hp. Qed.

Lemma tracked_staged : forall w p, tracked w p = true -> staged w p <> None.
Proof. intros w p. rewrite stg_tracked. destruct (staged w p); [discriminate | intro H; discriminate H]. Qed.

Theorem cmd_rm_emits : forall w0 args, emits (rm_inv w0) (rm_G w0) (cmd_rm args).
Proof.
  intros w0 args. rewrite cmd_rm_uses_body. hsteps.
  apply at_bind_iterM with (J := fun _ => True).
  - auto.
  - intros x w' _ Hi _. unfold rm_body. hsteps.
    + match goal with H : tracked _ _ = true |- _ => rename H into Ht end.
      apply at_call with (P := fun _ => True) (R := fun _ _ => True); [|auto|auto].
      apply rm_one_emits. destruct Hi as [_ Hsub]. apply Hsub. apply tracked_staged. exact Ht.
    + apply at_iterM with (J := fun _ => True); [auto| |auto].
      intros p w'' Hp _ _.
      apply at_call with (P := fun _ => True) (R := fun _ _ => True); [|auto|auto].
      apply rm_one_emits. destruct Hi as [Hc Hsub]. apply Hsub.
      apply (dir_targets_iff (idx_of w') x p Hc) in Hp. exact (proj1 Hp).
  - intros w' _ _. hsteps. exact Logic.I.
Qed.

Lemma steps_ok_forall : forall (Inv : world -> Prop) (G : world -> effect -> Prop) (P : effect -> Prop),
  (forall w e, G w e -> P e) -> forall tr w, steps_ok Inv G w tr -> Forall P tr.
Proof.
  intros Inv G P H tr. induction tr as [|e tr IH]; intros w Hs; [constructor|].
  destruct Hs as (Hg & _ & Hs). constructor; [apply (H w e Hg) | apply (IH _ Hs)].
Qed.

Definition rm_allowed (w0 : world) (e : effect) : Prop := rm_G w0 w0 e.

Lemma rm_allowed_frame : forall w0 tr w, Forall (rm_allowed w0) tr ->
  same_objs w (apply_effects tr w) /\ same_meta w (apply_effects tr w) /\
  (forall q, staged w0 q = None -> file (apply_effects tr w) q = file w q).
Proof.
  intros w0 tr. induction tr as [|e tr IH]; intros w Hall.
  - split; [apply same_objs_refl|]. split; [apply same_meta_refl | reflexivity].
  - inversion Hall as [|e' tr' He Htr]; subst. rewrite apply_effects_cons.
    destruct (IH (apply_effect e w) Htr) as (Ho & Hm & Hf).
    assert (He' : rm_eff e) by (destruct e; try exact Logic.I; exact He).
    destruct (rm_eff_frame e w He') as [Ho1 Hm1].
    split; [apply (same_objs_trans _ _ _ Ho1 Ho)|]. split; [apply (same_meta_trans _ _ _ Hm1 Hm)|].
    intros q Hq. rewrite (Hf q Hq). destruct e; try (exfalso; exact He); try reflexivity.
    unfold file. autorewrite with wfields. apply ex_am_get_del_other.
    intros ->. cbn in He. contradiction (He Hq).
Qed.

(* C04 for [rm], any arguments, any outcome: the only work-tree paths that
   can be removed are paths staged when the command started; objects, refs,
   HEAD, logs and configs never change; a path not staged keeps its file *)
Theorem cmd_rm_frame : forall w args r w' tr, Canonical (idx_of w) ->
  run_m (cmd_rm args) w = (r, w', tr) ->
  w' = apply_effects tr w /\ Forall (rm_allowed w) tr /\
  same_objs w w' /\ same_meta w w' /\
  (forall q, staged w q = None -> file w' q = file w q).
Proof.
  intros w args r w' tr Hc Hrun.
  assert (Hi : rm_inv w w) by (split; [exact Hc | auto]).
  destruct (emits_sound (rm_inv w) (rm_G w) _ _ w r w' tr (cmd_rm_emits w args) Hi Hrun)
    as (_ & Hw & Hs & _).
  assert (Hall : Forall (rm_allowed w) tr).
  { apply (steps_ok_forall (rm_inv w) (rm_G w) (rm_allowed w)) with (w := w); [|exact Hs].
    intros w1 e He. exact He. }
  split; [exact Hw|]. split; [exact Hall|]. subst w'. apply rm_allowed_frame. exact Hall.
Qed.

(* ================================================================== *)
(** * 5. [wt_put], [restore_wd], [restore] of the work tree *)

(* ---------- partial specification (no precondition) ---------- *)
Definition wt_G (ok : bytes -> Prop) (_ : world) (e : effect) : Prop :=
  match e with
  | EWriteFile q _ => ok q
  | EMkdirAll _ => True
  | _ => False
  end.

Record wt_put_post (w : world) (p data : bytes) (w' : world) : Prop := {
  wpp_file : file w' p = Some data;
  wpp_others : forall q, q <> p -> file w' q = file w q;
  wpp_index : w_index w' = w_index w;
  wpp_objs : same_objs w w';
  wpp_meta : same_meta w w'
}.

Lemma wt_put_post_write : forall w p data, wt_put_post w p data (apply_effect (EWriteFile p data) w).
Proof.
  intros w p data. constructor.
  - unfold file. autorewrite with wfields. apply ex_am_get_set_same.
  - intros q Hq. unfold file. autorewrite with wfields. apply ex_am_get_set_other. exact Hq.
  - reflexivity.
  - split; reflexivity.
  - repeat split.
Qed.

Lemma wt_put_post_mkdir_write : forall w d p data,
  wt_put_post w p data (apply_effect (EWriteFile p data) (apply_effect (EMkdirAll d) w)).
Proof.
  intros w d p data. constructor.
  - unfold file. autorewrite with wfields. apply ex_am_get_set_same.
  - intros q Hq. unfold file. autorewrite with wfields. apply ex_am_get_set_other. exact Hq.
  - reflexivity.
  - split; reflexivity.
  - repeat split.
Qed.

Lemma wt_put_hoare : forall (ok : bytes -> Prop) p data w, ok p ->
  hoare (fun _ => True) (wt_G ok) (eq w) (wt_put p data) (fun _ w' => wt_put_post w p data w').
Proof.
  intros ok p data w Hok. unfold wt_put. hsteps; try exact Logic.I;
    repeat match goal with
    | |- _ /\ _ => split
    | |- True => exact Logic.I
    | |- wt_G _ _ _ => first [exact Logic.I | exact Hok]
    | |- wt_put_post _ _ _ (apply_effect (EWriteFile _ _) (apply_effect (EMkdirAll _) _)) => apply wt_put_post_mkdir_write
    | |- wt_put_post _ _ _ (apply_effect (EWriteFile _ _) _) => apply wt_put_post_write
    end.
Qed.

(* ---------- total specification ---------- *)
(* the preconditions of [wt_put]: no ancestor of [p] is a file and [p] is not
   a directory (and not ".") *)
Definition wt_put_ok (w : world) (p : bytes) : Prop :=
  p <> [x2e] /\
  (forall d, In d (ancestors p) -> am_mem (w_files w) d = false) /\
  (am_mem (w_files w) p = true \/ set_mem (w_dirs w) p = false).

Lemma ex_ancestors_from_intro : forall s1 s2 pre,
  In (rev pre ++ s1) (ancestors_from pre (s1 ++ c_slash :: s2)).
Proof.
  induction s1 as [|c s1 IH]; intros s2 pre.
  - cbn [app ancestors_from]. rewrite beqb_refl, app_nil_r. left. reflexivity.
  - cbn [app ancestors_from].
    assert (H : In (rev pre ++ c :: s1) (ancestors_from (c :: pre) (s1 ++ c_slash :: s2))).
    { specialize (IH s2 (c :: pre)). cbn [rev] in IH. rewrite <- app_assoc in IH. exact IH. }
    destruct (beqb c c_slash); [right; exact H | exact H].
Qed.

Lemma ex_ancestors_intro : forall d rest, In d (ancestors (d ++ c_slash :: rest)).
Proof. intros d rest. exact (ex_ancestors_from_intro d rest []). Qed.

Lemma ex_ancestors_trans : forall x d p, In x (ancestors d) -> In d (ancestors p) -> In x (ancestors p).
Proof.
  intros x d p Hx Hd. apply ancestors_In in Hx. apply ancestors_In in Hd.
  destruct Hx as [r1 E1]. destruct Hd as [r2 E2]. subst d p.
  rewrite <- app_assoc. cbn [app]. apply ex_ancestors_intro.
Qed.

Lemma ex_parent_dir_ancestor : forall p d, parent_dir p = Some d -> In d (ancestors p).
Proof.
  intros p d. unfold parent_dir. destruct (rev (ancestors p)) as [|x l] eqn:E; [discriminate|].
  intro H. injection H as ->. apply in_rev. rewrite E. left. reflexivity.
Qed.

Lemma ex_ancestor_shorter : forall x p, In x (ancestors p) -> length x < length p.
Proof.
  intros x p H. apply ancestors_In in H. destruct H as [r ->]. rewrite app_length. cbn [length]. lia.
Qed.

Lemma ex_set_mem_add : forall s k q, set_mem (set_add s k) q = true -> set_mem s q = true \/ q = k.
Proof.
  intros s k q. unfold set_mem. induction s as [|k' r IH]; cbn [set_add existsb].
  - rewrite orb_false_r. intro H. right. apply bytes_eqb_eq. exact H.
  - destruct (bytes_eqb k' k) eqn:E; [cbn [existsb]; auto|].
    destruct (blt k k') eqn:L; cbn [existsb]; intro H.
    + apply orb_true_iff in H. destruct H as [H|H]; [right; apply bytes_eqb_eq; exact H | left; exact H].
    + apply orb_true_iff in H. destruct H as [H|H]; [left; rewrite H; reflexivity|].
      destruct (IH H) as [H'|H']; [left; rewrite H'; apply orb_true_r | right; exact H'].
Qed.

Lemma ex_set_mem_fold_add : forall l s q, set_mem (fold_left set_add l s) q = true -> set_mem s q = true \/ In q l.
Proof.
  induction l as [|k l IH]; intros s q H; [left; exact H|].
  cbn [fold_left] in H. destruct (IH _ _ H) as [H'|H']; [|right; right; exact H'].
  destruct (ex_set_mem_add _ _ _ H') as [H''|H'']; [left; exact H'' | right; left; symmetry; exact H''].
Qed.

Lemma wt_put_ok_parent : forall w p d, wt_put_ok w p -> parent_dir p = Some d ->
  wt_stat w d = SDir \/ wt_stat w d = SNone.
Proof.
  intros w p d (_ & Hanc & _) Hpd. pose proof (ex_parent_dir_ancestor p d Hpd) as Hd.
  unfold wt_stat. destruct (bytes_eqb d [x2e]); [left; reflexivity|].
  assert (Ha : existsb (fun x => am_mem (w_files w) x) (ancestors d) = false).
  { destruct (existsb (fun x => am_mem (w_files w) x) (ancestors d)) eqn:E; [|reflexivity].
    apply existsb_exists in E. destruct E as [x [Hx Hm]].
    rewrite (Hanc x (ex_ancestors_trans x d p Hx Hd)) in Hm. discriminate Hm. }
  rewrite Ha, (Hanc d Hd). destruct (set_mem (w_dirs w) d); [left | right]; reflexivity.
Qed.

Lemma wt_put_ok_stat : forall w p, wt_put_ok w p -> wt_stat w p = SFile \/ wt_stat w p = SNone.
Proof.
  intros w p (Hdot & Hanc & Hp). unfold wt_stat.
  apply bytes_eqb_neq in Hdot. rewrite Hdot.
  assert (Ha : existsb (fun x => am_mem (w_files w) x) (ancestors p) = false).
  { destruct (existsb (fun x => am_mem (w_files w) x) (ancestors p)) eqn:E; [|reflexivity].
    apply existsb_exists in E. destruct E as [x [Hx Hm]]. rewrite (Hanc x Hx) in Hm. discriminate Hm. }
  rewrite Ha. destruct (am_mem (w_files w) p); [left; reflexivity|].
  destruct Hp as [Hp|Hp]; [discriminate Hp|]. rewrite Hp. right. reflexivity.
Qed.

Lemma wt_put_ok_mkdir : forall w p d, wt_put_ok w p -> parent_dir p = Some d ->
  wt_put_ok (apply_effect (EMkdirAll d) w) p.
Proof.
  intros w p d (Hdot & Hanc & Hp) Hpd. split; [exact Hdot|]. split; [exact Hanc|].
  autorewrite with wfields. destruct Hp as [Hp|Hp]; [left; exact Hp|]. right.
  destruct (set_mem (fold_left set_add (ancestors d ++ [d]) (w_dirs w)) p) eqn:E; [|reflexivity].
  exfalso. apply ex_set_mem_fold_add in E. destruct E as [E|E]; [congruence|].
  pose proof (ex_ancestor_shorter d p (ex_parent_dir_ancestor p d Hpd)) as Hlen.
  apply in_app_or in E. destruct E as [E|[E|[]]].
  - apply ex_ancestor_shorter in E. lia.
  - subst d. lia.
Qed.

Definition wt_put_trace (w : world) (p data : bytes) : list effect :=
  match parent_dir p with
  | Some d => match wt_stat w d with SNone => [EMkdirAll d] | _ => [] end
  | None => []
  end ++ [EWriteFile p data].

Lemma wt_put_tail : forall w p data, wt_put_ok w p ->
  runs (w0 <- getw ;; match wt_stat w0 p with SFile | SNone => emit (EWriteFile p data) | _ => fail end)
       w (Ok tt) [EWriteFile p data].
Proof.
  intros w p data Hok. rstep. destruct (wt_put_ok_stat w p Hok) as [Hs|Hs]; rewrite Hs; rstep.
Qed.

Theorem wt_put_runs : forall w p data, wt_put_ok w p ->
  runs (wt_put p data) w (Ok tt) (wt_put_trace w p data).
Proof.
  intros w p data Hok. unfold wt_put, wt_put_trace. rstep.
  destruct (parent_dir p) as [d|] eqn:Hpd.
  - destruct (wt_put_ok_parent w p d Hok Hpd) as [Hs|Hs]; rewrite Hs.
    + rstep. cbn [app]. apply wt_put_tail. exact Hok.
    + cbn [app]. rstep. apply wt_put_tail. apply wt_put_ok_mkdir; assumption.
  - rstep. cbn [app]. apply wt_put_tail. exact Hok.
Qed.

Lemma wt_put_trace_post : forall w p data, wt_put_post w p data (apply_effects (wt_put_trace w p data) w).
Proof.
  intros w p data. unfold wt_put_trace. destruct (parent_dir p) as [d|]; [destruct (wt_stat w d)|]; cbn [app];
    first [apply wt_put_post_write | apply wt_put_post_mkdir_write].
Qed.

Lemma wt_put_trace_eff : forall w p data, Forall (wt_G (eq p) w) (wt_put_trace w p data).
Proof.
  intros w p data. unfold wt_put_trace. destruct (parent_dir p) as [d|]; [destruct (wt_stat w d)|]; cbn [app];
    repeat constructor.
Qed.

(* ---------- restore_wd ---------- *)
(* the content [restore] writes for a path: the stored blob of its staged id *)
Definition blob_of (w : world) (p : bytes) : option bytes :=
  match staged w p with
  | Some id => option_map snd (get_obj (w_objs w) id)
  | None => None
  end.

Theorem restore_wd_spec : forall w p data, blob_of w p = Some data -> wt_put_ok w p ->
  exists tr, runs (restore_wd p) w (Ok tt) tr /\ Forall (wt_G (eq p) w) tr /\
             wt_put_post w p data (apply_effects tr w).
Proof.
  intros w p data Hb Hok. exists (wt_put_trace w p data).
  split; [|split; [apply wt_put_trace_eff | apply wt_put_trace_post]].
  unfold restore_wd. rstep. unfold blob_of, staged in Hb.
  destruct (get_entry (idx_of w) p) as [[i en]|]; [|discriminate Hb]. cbn [option_map snd] in Hb.
  destruct (get_obj (w_objs w) (e_id en)) as [kd|] eqn:Hg; [|discriminate Hb].
  cbn [option_map] in Hb. injection Hb as <-.
  apply (runs_bind_of_opt _ _ _ kd); [reflexivity|]. apply wt_put_runs. exact Hok.
Qed.

(* an unknown path: error, nothing written *)
Theorem restore_wd_unknown : forall w p, staged w p = None -> runs (restore_wd p) w Err [].
Proof.
  intros w p Hs. unfold restore_wd. rstep. unfold staged in Hs.
  destruct (get_entry (idx_of w) p) as [[i en]|]; [discriminate Hs|]. rstep.
Qed.

(* the blob is missing / unreadable: error, nothing written *)
Theorem restore_wd_no_blob : forall w p id, staged w p = Some id -> get_obj (w_objs w) id = None ->
  runs (restore_wd p) w Err [].
Proof.
  intros w p id Hs Hg. unfold restore_wd. rstep. unfold staged in Hs.
  destruct (get_entry (idx_of w) p) as [[i en]|]; [|discriminate Hs]. cbn in Hs. injection Hs as Hs.
  apply runs_bind_of_opt_none. rewrite Hs. exact Hg.
Qed.

Lemma restore_wd_hoare : forall (ok : bytes -> Prop) p w, ok p ->
  hoare (fun _ => True) (wt_G ok) (eq w) (restore_wd p)
        (fun _ w' => exists data, blob_of w p = Some data /\ wt_put_post w p data w').
Proof.
  intros ok p w Hok. unfold restore_wd. hsteps.
  match goal with Hg : get_entry (idx_of w) p = Some _, Ho : get_obj _ _ = Some ?kd |- _ =>
    apply at_call with (P := eq w) (R := fun _ w' => wt_put_post w p (snd kd) w');
      [apply wt_put_hoare; exact Hok | auto |];
    intros _ w' _ Hp; exists (snd kd); split; [|exact Hp];
    unfold blob_of, staged; rewrite Hg; cbn [option_map snd]; rewrite Ho; reflexivity
  end.
Qed.

(* ---------- loops: an invariant indexed by the elements done so far ---------- *)
Lemma hoare_iterM_idx : forall (Inv : world -> Prop) (G : world -> effect -> Prop) A
                               (J : list A -> world -> Prop) (f : A -> M unit) l,
  (forall done x rest, l = done ++ x :: rest ->
     hoare Inv G (J done) (f x) (fun _ => J (done ++ [x]))) ->
  forall rest done, l = done ++ rest -> hoare Inv G (J done) (iterM f rest) (fun _ => J l).
Proof.
  intros Inv G A J f l Hstep. induction rest as [|x rest IH]; intros done El.
  - rewrite app_nil_r in El. subst done. apply hoare_ret. auto.
  - cbn [iterM]. apply hoare_bind with (R := fun _ => J (done ++ [x])).
    + apply (Hstep done x rest El).
    + intros _. apply IH. rewrite <- app_assoc. exact El.
Qed.

Lemma at_iterM_idx : forall (Inv : world -> Prop) (G : world -> effect -> Prop) A
                            (J : list A -> world -> Prop) (f : A -> M unit) l (Q : unit -> world -> Prop) w,
  (Inv w -> J [] w) ->
  (forall done x rest w', l = done ++ x :: rest -> Inv w' -> J done w' ->
     hoare Inv G (eq w') (f x) (fun _ => J (done ++ [x]))) ->
  (forall w', Inv w' -> J l w' -> Q tt w') ->
  hoare Inv G (eq w) (iterM f l) Q.
Proof.
  intros Inv G A J f l Q w H0 Hstep HQ.
  apply at_call with (P := J []) (R := fun _ => J l); [| exact H0 | intros [] w' Hi Hj; apply HQ; assumption].
  apply (hoare_iterM_idx Inv G A J f l); [|reflexivity].
  intros done x rest El. apply hoare_world. intros w' Hi Hj. apply (Hstep done x rest w' El Hi Hj).
Qed.

(* ---------- monad equalities used to flatten nested loops ---------- *)
Lemma bind_ext : forall A B (m : M A) (f f' : A -> M B) s,
  (forall a s', f a s' = f' a s') -> bind m f s = bind m f' s.
Proof. intros A B m f f' s H. unfold bind. destruct (m s) as [[a| |] s1]; [apply H | reflexivity | reflexivity]. Qed.

Lemma bind_ext_m : forall A B (m m' : M A) (f : A -> M B) s,
  (forall s', m s' = m' s') -> bind m f s = bind m' f s.
Proof. intros A B m m' f s H. unfold bind. rewrite H. reflexivity. Qed.

Lemma bind_ret_l : forall A B (a : A) (f : A -> M B) s, bind (ret a) f s = f a s.
Proof. reflexivity. Qed.

Lemma bind_ret_r : forall A (m : M A) s, bind m (fun a => ret a) s = m s.
Proof. intros A m s. unfold bind, ret. destruct (m s) as [[a| |] s1]; reflexivity. Qed.

Lemma iterM_app : forall A (g : A -> M unit) a b s,
  iterM g (a ++ b) s = bind (iterM g a) (fun _ => iterM g b) s.
Proof.
  intros A g a b. induction a as [|x a IH]; intro s; cbn [app iterM].
  - reflexivity.
  - rewrite bind_assoc. apply bind_ext. intros _ s'. apply IH.
Qed.

Lemma iterM_concat : forall A (g : A -> M unit) ls s,
  iterM (fun t => iterM g t) ls s = iterM g (concat ls) s.
Proof.
  intros A g ls. induction ls as [|t ls IH]; intro s; cbn [concat iterM].
  - reflexivity.
  - rewrite iterM_app. apply bind_ext. intros _ s'. apply IH.
Qed.

(* ---------- the command, work-tree mode ---------- *)
Definition wd_targets (w : world) (args : list bytes) : list bytes :=
  concat (map (restore_targets w false []) args).

Definition restore_wd_flat (args : list bytes) : M (list bytes) :=
  guard (negb (is_nil args)) ;;;
  w <- getw ;;
  guard (forallb (fun t => negb (is_nil t)) (map (restore_targets w false []) args)) ;;;
  iterM restore_wd (wd_targets w args) ;;;
  ret [].

Lemma cmd_restore_wd_flat : forall c args s, cmd_restore c false args s = restore_wd_flat args s.
Proof.
  intros c args s. unfold cmd_restore, restore_wd_flat.
  apply bind_ext. intros _ s1. apply bind_ext. intros w s2.
  rewrite bind_ret_l. cbv zeta. apply bind_ext. intros _ s3.
  apply bind_ext_m. intro s4. unfold wd_targets. rewrite <- iterM_concat. reflexivity.
Qed.

Lemma runs_ext : forall A (m m' : M A) w r tr, (forall s, m s = m' s) -> runs m' w r tr -> runs m w r tr.
Proof. intros A m m' w r tr He H t. rewrite He. apply H. Qed.

(* which paths a work-tree restore touches *)
Lemma wd_targets_iff : forall w args q, Canonical (idx_of w) ->
  (In q (wd_targets w args) <->
   exists a, In a args /\
     ((q = a /\ staged w a <> None) \/
      (staged w a = None /\ staged w q <> None /\ under_dir a q = true))).
Proof.
  intros w args q Hc. unfold wd_targets. rewrite in_concat. split.
  - intros [t [Ht Hq]]. apply in_map_iff in Ht. destruct Ht as [a [Et Ha]]. subst t.
    exists a. split; [exact Ha|]. unfold restore_targets in Hq. rewrite stg_tracked in Hq.
    destruct (staged w a) as [i|] eqn:Hs.
    + destruct Hq as [<-|[]]. left. split; [reflexivity | discriminate].
    + right. apply (dir_targets_iff (idx_of w) a q Hc) in Hq. tauto.
  - intros [a [Ha Hq]]. exists (restore_targets w false [] a). split; [apply in_map; exact Ha|].
    unfold restore_targets. rewrite stg_tracked. destruct Hq as [[-> Hs]|(Hs & Hq & Hu)].
    + destruct (staged w a); [left; reflexivity | contradiction Hs; reflexivity].
    + rewrite Hs. apply (dir_targets_iff (idx_of w) a q Hc). tauto.
Qed.

Record restore_wd_post (w : world) (targets : list bytes) (w' : world) : Prop := {
  rwp_index : w_index w' = w_index w;
  rwp_objs : same_objs w w';
  rwp_meta : same_meta w w';
  rwp_done : forall q, In q targets -> exists data, blob_of w q = Some data /\ file w' q = Some data;
  rwp_kept : forall q, ~ In q targets -> file w' q = file w q
}.

Lemma blob_of_same : forall w w' q, w_index w' = w_index w -> same_objs w w' -> blob_of w' q = blob_of w q.
Proof.
  intros w w' q Hi [Ho _]. unfold blob_of, staged, idx_of. rewrite Hi, Ho. reflexivity.
Qed.

(* C09, work tree, any argument list (files and directories), PARTIAL: if the
   command answers Ok then every selected tracked path holds its staged blob,
   whether or not it existed, every other file is unchanged, the staging area,
   objects and refs are unchanged; whatever the outcome only selected paths
   are written (and directories made) *)
Theorem cmd_restore_wd_hoare : forall c args w,
  hoare (fun _ => True) (wt_G (fun q => In q (wd_targets w args))) (eq w)
        (cmd_restore c false args) (fun _ w' => restore_wd_post w (wd_targets w args) w').
Proof.
  intros c args w.
  apply (hoare_ext _ _ _ _ _ _ _ (fun s => eq_sym (cmd_restore_wd_flat c args s))).
  unfold restore_wd_flat. hsteps.
  set (l := wd_targets w args).
  apply at_bind with (R := fun _ w' => restore_wd_post w l w').
  - apply at_iterM_idx with
      (J := fun done w1 => w_index w1 = w_index w /\ same_objs w w1 /\ same_meta w w1 /\
              (forall q, In q done -> exists data, blob_of w q = Some data /\ file w1 q = Some data) /\
              (forall q, ~ In q l -> file w1 q = file w q)).
    + intros _. split; [reflexivity|]. split; [apply same_objs_refl|]. split; [apply same_meta_refl|].
      split; [intros q []|reflexivity].
    + intros done x rest w1 El _ (Ji & Jo & Jm & Jd & Jk).
      assert (Hx : In x l) by (rewrite El; apply in_or_app; right; left; reflexivity).
      apply at_call with (P := eq w1)
        (R := fun _ w2 => exists data, blob_of w1 x = Some data /\ wt_put_post w1 x data w2);
        [apply restore_wd_hoare; exact Hx | auto |].
      intros _ w2 _ [data [Hb Hp]]. destruct Hp as [Pf Po Pi Pob Pm].
      rewrite (blob_of_same w w1 x Ji Jo) in Hb.
      split; [congruence|]. split; [apply (same_objs_trans _ _ _ Jo Pob)|].
      split; [apply (same_meta_trans _ _ _ Jm Pm)|]. split.
      * intros q Hq. destruct (bytes_eq_dec q x) as [->|Hne]; [exists data; auto|].
        apply in_app_or in Hq. destruct Hq as [Hq|[Hq|[]]]; [|congruence].
        rewrite (Po q Hne). apply Jd. exact Hq.
      * intros q Hq. rewrite Po; [apply Jk; exact Hq|]. intros ->. contradiction (Hq Hx).
    + intros w1 _ (Ji & Jo & Jm & Jd & Jk). constructor; assumption.
  - intros [] w1 _ Hp. hsteps. exact Hp.
Qed.

Theorem cmd_restore_wd_spec : forall c args w out w' tr,
  run_m (cmd_restore c false args) w = (Ok out, w', tr) ->
  restore_wd_post w (wd_targets w args) w' /\ w' = apply_effects tr w /\
  Forall (fun e => match e with EWriteFile q _ => In q (wd_targets w args) | EMkdirAll _ => True | _ => False end) tr.
Proof.
  intros c args w out w' tr Hrun. unfold run_m in Hrun.
  destruct (cmd_restore c false args (mkMS w [] None)) as [r s'] eqn:Em.
  injection Hrun as -> <- <-.
  destruct (hoare_sound _ _ _ _ _ _ w [] None (Ok out) s' (cmd_restore_wd_hoare c args w) Logic.I eq_refl Em)
    as (tr0 & Ht & Hw & Hs & _ & _ & _ & HQ).
  cbn [app] in Ht. subst tr0. split; [apply (HQ out eq_refl)|]. split; [exact Hw|].
  apply (steps_ok_forall _ _ _ (fun w1 e He => He) _ _ Hs).
Qed.

(* the same frame whatever the outcome (Err part-way included) *)
Theorem cmd_restore_wd_frame : forall c args w r w' tr,
  run_m (cmd_restore c false args) w = (r, w', tr) ->
  w' = apply_effects tr w /\
  Forall (fun e => match e with EWriteFile q _ => In q (wd_targets w args) | EMkdirAll _ => True | _ => False end) tr.
Proof.
  intros c args w r w' tr Hrun. unfold run_m in Hrun.
  destruct (cmd_restore c false args (mkMS w [] None)) as [r0 s'] eqn:Em.
  injection Hrun as -> <- <-.
  destruct (hoare_sound _ _ _ _ _ _ w [] None r s' (cmd_restore_wd_hoare c args w) Logic.I eq_refl Em)
    as (tr0 & Ht & Hw & Hs & _).
  cbn [app] in Ht. subst tr0. split; [exact Hw|].
  apply (steps_ok_forall _ _ _ (fun w1 e He => He) _ _ Hs).
Qed.

(* TOTAL, one tracked path whose blob is stored and whose place is free *)
Theorem cmd_restore_wd_file_spec : forall c w a data,
  staged w a <> None -> blob_of w a = Some data -> wt_put_ok w a ->
  exists tr, runs (cmd_restore c false [a]) w (Ok []) tr /\ Forall (wt_G (eq a) w) tr /\
             wt_put_post w a data (apply_effects tr w).
Proof.
  intros c w a data Hs Hb Hok. destruct (restore_wd_spec w a data Hb Hok) as (tr & Hr & Hg & Hp).
  exists tr. split; [|auto].
  apply (runs_ext _ _ _ _ _ _ (cmd_restore_wd_flat c [a])). unfold restore_wd_flat.
  apply runs_bind_guard; [reflexivity|]. rstep.
  assert (Ht : restore_targets w false [] a = [a]).
  { unfold restore_targets. rewrite stg_tracked. destruct (staged w a); [reflexivity | contradiction Hs; reflexivity]. }
  unfold wd_targets. cbn [map concat forallb]. rewrite Ht. cbn [app].
  apply runs_bind_guard; [reflexivity|]. cbn [iterM]. rstep.
  rewrite <- (app_nil_r tr). apply runs_seq; [exact Hr|]. rstep. rstep.
Qed.

(* an argument that selects nothing (unknown path): Err, trace [] *)
Theorem cmd_restore_wd_unknown : forall c w args a, In a args ->
  staged w a = None -> entries_by_dir (idx_of w) a = [] ->
  runs (cmd_restore c false args) w Err [] /\ run_m (cmd_restore c false args) w = (Err, w, []).
Proof.
  intros c w args a Ha Hs He.
  assert (Hr : runs (cmd_restore c false args) w Err []).
  { apply (runs_ext _ _ _ _ _ _ (cmd_restore_wd_flat c args)). unfold restore_wd_flat.
    destruct args as [|a0 args0]; [contradiction Ha|].
    apply runs_bind_guard; [reflexivity|]. rstep. apply runs_bind_guard_false.
    destruct (forallb (fun t => negb (is_nil t)) (map (restore_targets w false []) (a0 :: args0))) eqn:E; [|reflexivity].
    exfalso. rewrite forallb_forall in E. specialize (E (restore_targets w false [] a) (in_map _ _ _ Ha)).
    unfold restore_targets in E. rewrite stg_tracked, Hs, He in E. discriminate E. }
  split; [exact Hr | apply (runs_run_m _ _ _ _ _ Hr)].
Qed.

(* ================================================================== *)
(** * 6. [reset] *)

(* the commit id "HEAD@{n}" resolves to: None covers a malformed argument, a
   number beyond int64, no journal, an unreadable journal, an index out of
   range and a record whose id is the zero id *)
Definition reset_target (w : world) (a : bytes) : option bytes :=
  match reset_arg a with
  | None => None
  | Some n =>
      if N.leb n 9223372036854775807 then
        match w_hlog w with
        | None => None
        | Some hl =>
            match parse_reflog hl with
            | None => None
            | Some rs =>
                match get_record rs (N.to_nat (N.min n (N.of_nat (length rs)))) with
                | None => None
                | Some r => r_id r
                end
            end
        end
      else None
  end.

(* the flattened snapshot of that commit *)
Definition reset_entries (w : world) (a : bytes) : option (list entry) :=
  match reset_target w a with
  | None => None
  | Some tid =>
      match get_commit (w_objs w) tid with
      | None => None
      | Some tc =>
          match get_kind (w_objs w) KTree (c_tree tc) with
          | None => None
          | Some d =>
              match walk_tree (S (length (w_objs w))) (w_objs w) d with
              | None => None
              | Some ns => Some (flatten [] ns)
              end
          end
      end
  end.

Lemma reset_target_intro : forall w a n hl rs r tid,
  reset_arg a = Some n -> N.leb n 9223372036854775807 = true -> w_hlog w = Some hl ->
  parse_reflog hl = Some rs -> get_record rs (N.to_nat (N.min n (N.of_nat (length rs)))) = Some r ->
  r_id r = Some tid -> reset_target w a = Some tid.
Proof.
  intros w a n hl rs r tid H1 H2 H3 H4 H5 H6. unfold reset_target. rewrite H1, H2, H3, H4, H5. exact H6.
Qed.

Lemma reset_target_elim : forall w a tid, reset_target w a = Some tid ->
  exists n hl rs r, reset_arg a = Some n /\ N.leb n 9223372036854775807 = true /\ w_hlog w = Some hl /\
    parse_reflog hl = Some rs /\ get_record rs (N.to_nat (N.min n (N.of_nat (length rs)))) = Some r /\
    r_id r = Some tid.
Proof.
  intros w a tid H. unfold reset_target in H.
  destruct (reset_arg a) as [n|] eqn:E1; [|discriminate H].
  destruct (N.leb n 9223372036854775807) eqn:E2; [|discriminate H].
  destruct (w_hlog w) as [hl|] eqn:E3; [|discriminate H].
  destruct (parse_reflog hl) as [rs|] eqn:E4; [|discriminate H].
  destruct (get_record rs (N.to_nat (N.min n (N.of_nat (length rs))))) as [r|] eqn:E5; [|discriminate H].
  exists n, hl, rs, r. repeat split; assumption.
Qed.

Definition reset_mode_ok (soft mixed hard : bool) : bool :=
  let mixed := if soft || hard then false else mixed in
  (soft && negb mixed && negb hard) || (negb soft && mixed && negb hard) || (negb soft && negb mixed && hard).

(* a refused reset changes nothing: bad flags, not exactly one argument, or
   an argument that does not resolve *)
Theorem cmd_reset_refused : forall e c soft mixed hard args w,
  (reset_mode_ok soft mixed hard = false \/ length args <> 1 \/
   (exists a, args = [a] /\ reset_target w a = None)) ->
  runs (cmd_reset e c soft mixed hard args) w Err [] /\
  run_m (cmd_reset e c soft mixed hard args) w = (Err, w, []).
Proof.
  intros e c soft mixed hard args w H.
  assert (Hr : runs (cmd_reset e c soft mixed hard args) w Err []).
  { unfold cmd_reset. cbv zeta.
    destruct (reset_mode_ok soft mixed hard) eqn:Em.
    2:{ apply runs_bind_guard_false. exact Em. }
    apply runs_bind_guard; [exact Em|].
    destruct H as [H|[H|[a [-> H]]]]; [discriminate H | |].
    - destruct args as [|a [|b args]]; [apply runs_fail | contradiction H; reflexivity | apply runs_fail].
    - unfold reset_target in H.
      destruct (reset_arg a) as [n|] eqn:E1; [|apply runs_bind_of_opt_none; reflexivity].
      apply (runs_bind_of_opt _ _ _ n); [reflexivity|].
      destruct (N.leb n 9223372036854775807) eqn:E2; [|apply runs_bind_guard_false; reflexivity].
      apply runs_bind_guard; [reflexivity|]. rstep.
      destruct (w_hlog w) as [hl|] eqn:E3; [|apply runs_bind_of_opt_none; reflexivity].
      apply (runs_bind_of_opt _ _ _ hl); [reflexivity|].
      destruct (parse_reflog hl) as [rs|] eqn:E4; [|apply runs_bind_of_opt_none; reflexivity].
      apply (runs_bind_of_opt _ _ _ rs); [reflexivity|].
      destruct (get_record rs (N.to_nat (N.min n (N.of_nat (length rs))))) as [r|] eqn:E5;
        [|apply runs_bind_of_opt_none; reflexivity].
      apply (runs_bind_of_opt _ _ _ r); [reflexivity|].
      apply runs_bind_of_opt_none. exact H. }
  split; [exact Hr | apply (runs_run_m _ _ _ _ _ Hr)].
Qed.

(* via [step]: a refused reset leaves the world alone *)
Corollary cmd_reset_refused_step : forall e c soft mixed hard args w r w' tr,
  run_m (cmd_reset e c soft mixed hard args) w = (r, w', tr) ->
  (reset_mode_ok soft mixed hard = false \/ length args <> 1 \/
   (exists a, args = [a] /\ reset_target w a = None)) ->
  r = Err /\ w' = w /\ tr = [].
Proof.
  intros e c soft mixed hard args w r w' tr Hrun H.
  destruct (cmd_reset_refused e c soft mixed hard args w H) as [_ Hr]. rewrite Hr in Hrun.
  injection Hrun as <- <- <-. auto.
Qed.

(* what every accepted reset does to refs / HEAD / objects / configs *)
Record reset_common_post (w : world) (tid : bytes) (w' : world) : Prop := {
  rcp_branch : am_get (w_refs w') (w_head w) = Some tid;
  rcp_others : forall n, n <> w_head w -> am_get (w_refs w') n = am_get (w_refs w) n;
  rcp_head : w_head w' = w_head w;
  rcp_objs : same_objs w w';
  rcp_cfg : w_lcfg w' = w_lcfg w /\ w_gcfg w' = w_gcfg w /\ w_inited w' = w_inited w
}.

Definition reset_line (e : env) (c : ctx) (prev tid a : bytes) : bytes :=
  log_rec e c (Some prev) (Some tid) RReset (str "moving to "%string ++ a).

Definition reset_head_trace (e : env) (c : ctx) (w : world) (prev tid a : bytes) : list effect :=
  [ESetRef (w_head w) tid; EAppendHlog (reset_line e c prev tid a);
   EAppendBlog (w_head w) (reset_line e c prev tid a)].

Lemma reset_common_after : forall e c w prev tid a rest,
  Forall (fun x => match x with ESetIndex _ | EWriteFile _ _ | EMkdirAll _ => True | _ => False end) rest ->
  reset_common_post w tid (apply_effects (reset_head_trace e c w prev tid a ++ rest) w).
Proof.
  intros e c w prev tid a rest Hrest. rewrite apply_effects_app.
  set (w1 := apply_effects (reset_head_trace e c w prev tid a) w).
  assert (H1 : reset_common_post w tid w1).
  { unfold w1, reset_head_trace. constructor; autorewrite with wfields.
    - apply ex_am_get_set_same.
    - intros n Hn. apply ex_am_get_set_other. exact Hn.
    - reflexivity.
    - split; autorewrite with wfields; reflexivity.
    - auto. }
  clearbody w1. revert w1 H1. induction rest as [|x rest IH]; intros w1 H1; [exact H1|].
  inversion Hrest as [|x' rest' Hx Hr]; subst. rewrite apply_effects_cons. apply IH; [exact Hr|].
  destruct H1 as [A B C [D1 D2] (E1 & E2 & E3)].
  destruct x; try contradiction Hx; (constructor; autorewrite with wfields; auto; split; autorewrite with wfields; assumption).
Qed.

Section ResetRuns.
  Variables (e : env) (c : ctx) (w : world) (a prev tid : bytes) (pc tc : commit).
  Hypothesis Htarget : reset_target w a = Some tid.
  Hypothesis Hheadc : x_headc c = Some (prev, pc).
  Hypothesis Hcommit : get_commit (w_objs w) tid = Some tc.
  Hypothesis Hbranch : am_mem (w_refs w) (w_head w) = true.

  (* the common prefix of every accepted reset, with the rest [k] abstract *)
  Lemma reset_prefix_runs : forall soft mixed hard r tr,
    reset_mode_ok soft mixed hard = true ->
    (let mixed' := if soft || hard then false else mixed in
     runs ((if mixed' || hard then
              d <- of_opt (get_kind (w_objs w) KTree (c_tree tc)) ;;
              ns <- of_opt (walk_tree (S (length (w_objs w))) (w_objs w) d) ;;
              let es := flatten [] ns in
              emit (ESetIndex es) ;;;
              (if hard then
                 iterM (fun en =>
                          w' <- getw ;;
                          kd <- of_opt (get_obj (w_objs w') (e_id en)) ;;
                          wt_put (e_path en) (snd kd)) es
               else ret tt)
            else ret tt) ;;; ret [])
          (apply_effects (reset_head_trace e c w prev tid a) w) r tr) ->
    runs (cmd_reset e c soft mixed hard [a]) w r (reset_head_trace e c w prev tid a ++ tr).
  Proof.
    intros soft mixed hard r tr Hmode Hk.
    destruct (reset_target_elim w a tid Htarget) as (n & hl & rs & rc & H1 & H2 & H3 & H4 & H5 & H6).
    unfold cmd_reset. cbv zeta. apply runs_bind_guard; [exact Hmode|].
    apply (runs_bind_of_opt _ _ _ n); [exact H1|].
    apply runs_bind_guard; [exact H2|]. rstep.
    apply (runs_bind_of_opt _ _ _ hl); [exact H3|].
    apply (runs_bind_of_opt _ _ _ rs); [exact H4|].
    apply (runs_bind_of_opt _ _ _ rc); [exact H5|].
    apply (runs_bind_of_opt _ _ _ tid); [exact H6|].
    rewrite Hheadc. apply (runs_bind_of_opt _ _ _ tc); [exact Hcommit|].
    apply runs_bind_guard; [exact Hbranch|].
    unfold reset_head_trace. cbn [app]. rstep. rstep. rstep. exact Hk.
  Qed.

  (* --soft: the branch and the journals move; staging area and work tree stay *)
  Theorem cmd_reset_soft_spec : forall mixed,
    let tr := reset_head_trace e c w prev tid a in
    runs (cmd_reset e c true mixed false [a]) w (Ok []) tr /\
    reset_common_post w tid (apply_effects tr w) /\
    w_index (apply_effects tr w) = w_index w /\ same_wt w (apply_effects tr w).
  Proof.
    intros mixed tr. split; [|split; [|split]].
    - unfold tr. rewrite <- (app_nil_r (reset_head_trace e c w prev tid a)).
      apply reset_prefix_runs; [reflexivity|]. cbn [orb]. cbv zeta. rstep. rstep.
    - unfold tr. rewrite <- (app_nil_r (reset_head_trace e c w prev tid a)).
      apply reset_common_after. constructor.
    - reflexivity.
    - split; reflexivity.
  Qed.

  (* --mixed: additionally the staging area becomes the commit's snapshot *)
  Theorem cmd_reset_mixed_spec : forall d ns,
    get_kind (w_objs w) KTree (c_tree tc) = Some d ->
    walk_tree (S (length (w_objs w))) (w_objs w) d = Some ns ->
    let tr := reset_head_trace e c w prev tid a ++ [ESetIndex (flatten [] ns)] in
    runs (cmd_reset e c false true false [a]) w (Ok []) tr /\
    reset_common_post w tid (apply_effects tr w) /\
    idx_of (apply_effects tr w) = flatten [] ns /\ same_wt w (apply_effects tr w).
  Proof.
    intros d ns Hd Hns tr. split; [|split; [|split]].
    - unfold tr. apply reset_prefix_runs; [reflexivity|]. cbn [orb]. cbv zeta.
      ropt d Hd. ropt ns Hns. cbv zeta. repeat rstep.
    - unfold tr. apply reset_common_after. repeat constructor.
    - reflexivity.
    - split; reflexivity.
  Qed.
End ResetRuns.

(* ---------- --hard (partial: the success case) ---------- *)
Lemma reset_entries_intro : forall w a tid tc d ns,
  reset_target w a = Some tid -> get_commit (w_objs w) tid = Some tc ->
  get_kind (w_objs w) KTree (c_tree tc) = Some d ->
  walk_tree (S (length (w_objs w))) (w_objs w) d = Some ns ->
  reset_entries w a = Some (flatten [] ns).
Proof. intros w a tid tc d ns H1 H2 H3 H4. unfold reset_entries. rewrite H1, H2, H3, H4. reflexivity. Qed.

(* what a reset may emit: only files at paths of the target snapshot are written *)
Definition reset_G (w : world) (a : bytes) (_ : world) (e : effect) : Prop :=
  match e with
  | ESetRef _ _ | EAppendHlog _ | EAppendBlog _ _ | ESetIndex _ | EMkdirAll _ => True
  | EWriteFile q _ => exists es, reset_entries w a = Some es /\ In q (paths es)
  | _ => False
  end.

Record reset_hard_post (w : world) (tid : bytes) (es : list entry) (w' : world) : Prop := {
  rhp_common : reset_common_post w tid w';
  rhp_index : idx_of w' = es;
  rhp_written : NoDup (paths es) -> forall en, In en es ->
                exists kd, get_obj (w_objs w) (e_id en) = Some kd /\ file w' (e_path en) = Some (snd kd);
  rhp_untouched : forall q, ~ In q (paths es) -> file w' q = file w q
}.

Lemma reset_common_post_step : forall w tid w1 w2,
  reset_common_post w tid w1 -> same_objs w1 w2 -> same_meta w1 w2 -> reset_common_post w tid w2.
Proof.
  intros w tid w1 w2 [A B C D (E1 & E2 & E3)] Ho (M1 & M2 & M3 & M4 & M5 & M6 & M7).
  constructor.
  - rewrite M3. exact A.
  - intros n Hn. rewrite M3. apply B. exact Hn.
  - congruence.
  - apply (same_objs_trans _ _ _ D Ho).
  - repeat split; congruence.
Qed.

Lemma ex_nodup_map_mid : forall (A B : Type) (f : A -> B) done x rest y,
  NoDup (map f (done ++ x :: rest)) -> In y done -> f y <> f x.
Proof.
  intros A B f done x rest y Hnd Hy Heq. rewrite map_app in Hnd. cbn [map] in Hnd.
  apply NoDup_remove_2 in Hnd. apply Hnd. apply in_or_app. left. rewrite <- Heq. apply in_map. exact Hy.
Qed.

Theorem cmd_reset_hard_hoare : forall e c mixed a w,
  hoare (fun _ => True) (reset_G w a) (eq w) (cmd_reset e c false mixed true [a])
        (fun _ w' => exists tid es, reset_target w a = Some tid /\ reset_entries w a = Some es /\
                                    reset_hard_post w tid es w').
Proof.
  intros e c mixed a w. unfold cmd_reset. cbv zeta. cbn [orb andb negb].
  hsteps; try (split; exact Logic.I).
  match goal with H : r_id _ = Some ?t |- _ =>
    assert (Ht : reset_target w a = Some t) by (eapply reset_target_intro; eassumption);
    rename t into tid end.
  match goal with H : walk_tree _ _ _ = Some ?n |- _ =>
    assert (He : reset_entries w a = Some (flatten [] n)) by (eapply reset_entries_intro; eassumption);
    rename n into ns end.
  match goal with H : x_headc c = Some (?p, _) |- _ => rename p into prev end.
  set (es := flatten [] ns) in *.
  match goal with |- hoare _ _ (eq ?x) _ _ => set (w4 := x) end.
  assert (Hw4 : reset_common_post w tid w4).
  { apply (reset_common_after e c w prev tid a [ESetIndex es]). repeat constructor. }
  apply at_bind with (R := fun _ w' => reset_hard_post w tid es w').
  - apply at_iterM_idx with
      (J := fun done w1 => reset_common_post w tid w1 /\ idx_of w1 = es /\
              (NoDup (paths es) -> forall en, In en done ->
                 exists kd, get_obj (w_objs w) (e_id en) = Some kd /\ file w1 (e_path en) = Some (snd kd)) /\
              (forall q, ~ In q (paths es) -> file w1 q = file w q)).
    + intros _. split; [exact Hw4|]. split; [reflexivity|]. split; [intros _ en []|reflexivity].
    + intros done x rest w1 El _ (Jc & Ji & Jd & Jk).
      assert (Hx : In x es) by (rewrite El; apply in_or_app; right; left; reflexivity).
      hsteps.
      match goal with Hk : get_obj (w_objs w1) (e_id x) = Some ?k |- _ => rename k into kd; rename Hk into Hkd end.
      apply at_call with (P := eq w1) (R := fun _ w2 => wt_put_post w1 (e_path x) (snd kd) w2); [| auto |].
      * apply hoare_weaken_G with (G := wt_G (fun q => In q (paths es))).
        { intros w0 ef _ Hg. destruct ef; try contradiction Hg; try exact Logic.I.
          exists es. split; [exact He | exact Hg]. }
        apply wt_put_hoare. apply in_map. exact Hx.
      * intros _ w2 _ [Pf Po Pi Pob Pm].
        split; [apply (reset_common_post_step _ _ _ _ Jc Pob Pm)|].
        split; [unfold idx_of in *; rewrite Pi; exact Ji|]. split.
        -- intros Hnd en Hen. apply in_app_or in Hen. destruct Hen as [Hen|[<-|[]]].
           ++ destruct (Jd Hnd en Hen) as [kd' [Hg' Hf']]. exists kd'. split; [exact Hg'|].
              rewrite Po; [exact Hf'|]. unfold paths in Hnd. rewrite El in Hnd.
              apply (ex_nodup_map_mid _ _ e_path done x rest en Hnd Hen).
           ++ exists kd. split; [|exact Pf]. destruct Jc as [_ _ _ [Jo _] _]. rewrite <- Jo. exact Hkd.
        -- intros q Hq. rewrite Po; [apply Jk; exact Hq|].
           intros ->. apply Hq. apply in_map. exact Hx.
    + intros w1 _ (Jc & Ji & Jd & Jk). constructor; assumption.
  - intros [] w1 _ Hp. hsteps. exists tid, es. auto.
Qed.

(* C08 --hard as a statement about [run_m] *)
Theorem cmd_reset_hard_spec : forall e c mixed a w out w' tr,
  run_m (cmd_reset e c false mixed true [a]) w = (Ok out, w', tr) ->
  exists tid es, reset_target w a = Some tid /\ reset_entries w a = Some es /\
                 reset_hard_post w tid es w' /\ w' = apply_effects tr w.
Proof.
  intros e c mixed a w out w' tr Hrun. unfold run_m in Hrun.
  destruct (cmd_reset e c false mixed true [a] (mkMS w [] None)) as [r s'] eqn:Em.
  injection Hrun as -> <- <-.
  destruct (hoare_sound _ _ _ _ _ _ w [] None (Ok out) s' (cmd_reset_hard_hoare e c mixed a w) Logic.I eq_refl Em)
    as (tr0 & Ht & Hw & Hs & _ & _ & _ & HQ).
  cbn [app] in Ht. subst tr0. destruct (HQ out eq_refl) as (tid & es & H1 & H2 & H3).
  exists tid, es. auto.
Qed.

(* whatever the outcome of [reset --hard] (also when a write fails part-way),
   a file whose path is not in the target snapshot is never written:
   "never touches a file that was never tracked" *)
Theorem cmd_reset_hard_frame : forall e c mixed a w r w' tr q,
  run_m (cmd_reset e c false mixed true [a]) w = (r, w', tr) ->
  (forall es, reset_entries w a = Some es -> ~ In q (paths es)) ->
  file w' q = file w q.
Proof.
  intros e c mixed a w r w' tr q Hrun Hq. unfold run_m in Hrun.
  destruct (cmd_reset e c false mixed true [a] (mkMS w [] None)) as [r0 s'] eqn:Em.
  injection Hrun as -> <- <-.
  destruct (hoare_sound _ _ _ _ _ _ w [] None r s' (cmd_reset_hard_hoare e c mixed a w) Logic.I eq_refl Em)
    as (tr0 & Ht & Hw & Hs & _).
  cbn [app] in Ht. subst tr0. rewrite Hw.
  pose proof (steps_ok_forall _ _ _ (fun w1 e0 He => He) _ _ Hs) as Hall. cbv beta in Hall.
  clear Em Hs Hw. generalize dependent w. intros w Hq Hall.
  assert (Hgen : forall tr0 w1, Forall (fun e0 => reset_G w a w e0) tr0 -> file (apply_effects tr0 w1) q = file w1 q).
  { induction tr0 as [|e0 tr0 IH]; intros w1 Hf; [reflexivity|].
    inversion Hf as [|e0' tr0' He0 Htr0]; subst. rewrite apply_effects_cons, (IH _ Htr0).
    destruct e0; try contradiction He0; try reflexivity.
    unfold file. autorewrite with wfields. apply ex_am_get_set_other.
    destruct He0 as [es [He1 He2]]. intros ->. apply (Hq es He1 He2). }
  apply Hgen. exact Hall.
Qed.

(* ================================================================== *)
(** * 7. [add] *)

Definition add_arg (c : ctx) (a : bytes) : M unit :=
  w <- getw ;;
  if ignored w (x_pats c) a then ret tt
  else match wt_stat w a with
       | SNone | SNotDir => add_missing_body w a
       | SDir => iterM (add_dir_body c) (files_under w a)
       | SFile => add_file a
       end.

Lemma cmd_add_uses_arg : forall c args,
  cmd_add c args =
  (guard (negb (is_nil args)) ;;;
   (w <- getw ;;
    guard (forallb (fun a => exists_on_disk w a || tracked w a || is_dir (idx_of w) a) args)) ;;;
   iterM (add_arg c) args ;;; ret []).
Proof. reflexivity. Qed.

Lemma cmd_add_one_arg : forall c w a tr,
  exists_on_disk w a || tracked w a || is_dir (idx_of w) a = true ->
  runs (add_arg c a) w (Ok tt) tr -> runs (cmd_add c [a]) w (Ok []) tr.
Proof.
  intros c w a tr Hv Hb. rewrite cmd_add_uses_arg.
  apply runs_bind_guard; [reflexivity|]. rstep. rstep.
  apply runs_bind_guard; [cbn [forallb]; rewrite Hv; reflexivity|].
  cbn [iterM]. rstep. rewrite <- (app_nil_r tr). apply runs_seq; [exact Hb|]. rstep. rstep.
Qed.

(* validation: every argument exists on disk, is tracked, or is a directory holding
   tracked paths; else nothing happens *)
Theorem cmd_add_refuses : forall c w args,
  forallb (fun a => exists_on_disk w a || tracked w a || is_dir (idx_of w) a) args = false ->
  runs (cmd_add c args) w Err [] /\ run_m (cmd_add c args) w = (Err, w, []).
Proof.
  intros c w args Hv.
  assert (Hr : runs (cmd_add c args) w Err []).
  { rewrite cmd_add_uses_arg. destruct args as [|a0 args0]; [apply runs_bind_guard_false; reflexivity|].
    apply runs_bind_guard; [reflexivity|]. rstep. rstep. apply runs_bind_guard_false. exact Hv. }
  split; [exact Hr | apply (runs_run_m _ _ _ _ _ Hr)].
Qed.

(* (a) one argument that is an existing, non-ignored file *)
Theorem cmd_add_file_spec : forall c w a data, Canonical (idx_of w) ->
  wt_stat w a = SFile -> ignored w (x_pats c) a = false -> file w a = Some data ->
  exists tr, runs (cmd_add c [a]) w (Ok []) tr /\ Forall add_eff tr /\
             (staged w a = Some (blob_id data) -> tr = []) /\
             add_file_post w a data (apply_effects tr w).
Proof.
  intros c w a data Hc Hs Hig Hf. destruct (add_file_spec w a data Hc Hf) as (tr & Hr & Hrest).
  exists tr. split; [|exact Hrest].
  apply cmd_add_one_arg; [unfold exists_on_disk; rewrite Hs; reflexivity|].
  unfold add_arg. rstep. rewrite Hig, Hs. exact Hr.
Qed.

(* an ignored argument: nothing at all *)
Theorem cmd_add_ignored_spec : forall c w a,
  exists_on_disk w a || tracked w a || is_dir (idx_of w) a = true -> ignored w (x_pats c) a = true ->
  runs (cmd_add c [a]) w (Ok []) [].
Proof.
  intros c w a Hv Hig. apply cmd_add_one_arg; [exact Hv|]. unfold add_arg. rstep. rewrite Hig. rstep.
Qed.

(* (b) one argument that is a tracked path no longer on disk *)
Record add_missing_post (w : world) (a : bytes) (w' : world) : Prop := {
  amp_canon : Canonical (idx_of w');
  amp_staged : staged w' a = None;
  amp_others : forall q, q <> a -> staged w' q = staged w q;
  amp_wt : same_wt w w';
  amp_meta : same_meta w w';
  amp_objs : same_objs w w'
}.

Theorem cmd_add_missing_spec : forall c w a, Canonical (idx_of w) ->
  wt_stat w a = SNone -> staged w a <> None -> ignored w (x_pats c) a = false ->
  exists i, idx_delete (idx_of w) a = Some i /\
            runs (cmd_add c [a]) w (Ok []) [ESetIndex i] /\
            add_missing_post w a (apply_effects [ESetIndex i] w).
Proof.
  intros c w a Hc Hs Hst Hig. destruct (stg_delete_some (idx_of w) a Hc Hst) as [i Hd].
  destruct (stg_delete (idx_of w) a i Hc Hd) as (Hci & Hsp & Hso).
  assert (Ht : tracked w a = true).
  { rewrite stg_tracked. destruct (staged w a); [reflexivity | contradiction Hst; reflexivity]. }
  exists i. split; [exact Hd|]. split.
  - apply cmd_add_one_arg.
    { rewrite Ht. rewrite orb_true_r. reflexivity. }
    unfold add_arg. rstep. rewrite Hig, Hs. unfold add_missing_body. rewrite Ht. ropt i Hd. rstep.
  - constructor.
    + exact Hci.
    + exact Hsp.
    + intros q Hq. rewrite !staged_stg. apply Hso. exact Hq.
    + split; reflexivity.
    + repeat split.
    + split; reflexivity.
Qed.

(* (b') one argument that is a directory holding tracked paths and no longer on disk (or
   whose name is now taken by something that is not a directory): every tracked path
   beneath it leaves the staging area, one index write each; nothing else moves *)
Record add_missing_dir_post (w : world) (sel : bytes -> Prop) (w' : world) : Prop := {
  amd_canon : Canonical (idx_of w');
  amd_gone : forall q, sel q -> staged w' q = None;
  amd_others : forall q, ~ sel q -> staged w' q = staged w q;
  amd_wt : same_wt w w';
  amd_meta : same_meta w w';
  amd_objs : same_objs w w'
}.

Lemma add_unstage_one_runs : forall w q i, idx_delete (idx_of w) q = Some i ->
  runs (add_unstage_one q) w (Ok tt) [ESetIndex i].
Proof. intros w q i Hd. unfold add_unstage_one. rstep. ropt i Hd. rstep. Qed.

(* unstaging a duplicate-free list of tracked paths *)
Lemma add_unstage_list_spec : forall l w, Canonical (idx_of w) -> NoDup l ->
  (forall q, In q l -> staged w q <> None) ->
  exists tr, runs (iterM add_unstage_one l) w (Ok tt) tr /\
             Forall (fun e => is_idx e = true) tr /\ length tr = length l /\
             add_missing_dir_post w (fun q => In q l) (apply_effects tr w).
Proof.
  induction l as [|x l IH]; intros w Hc Hnd Hl.
  - exists []. split; [apply runs_ret|]. split; [constructor|]. split; [reflexivity|].
    constructor; try (intros; contradiction); auto.
    + apply same_wt_refl.
    + apply same_meta_refl.
    + apply same_objs_refl.
  - inversion Hnd as [|x' l' Hx Hnd']; subst.
    assert (Hstx : stg (idx_of w) x <> None) by (rewrite <- staged_stg; apply Hl; left; reflexivity).
    destruct (stg_delete_some (idx_of w) x Hc Hstx) as [i Hd].
    destruct (stg_delete (idx_of w) x i Hc Hd) as (Hci & Hsx & Hso).
    set (w1 := apply_effect (ESetIndex i) w).
    assert (Hso1 : forall q, q <> x -> staged w1 q = staged w q).
    { intros q Hq. rewrite !staged_stg. apply Hso. exact Hq. }
    destruct (IH w1 Hci Hnd') as (tr & Hr & Hg & Hlen & Hp).
    { intros q Hq. rewrite Hso1; [apply Hl; right; exact Hq | intros ->; contradiction]. }
    destruct Hp as [Pc Pg Po Pw Pm Pob].
    exists ([ESetIndex i] ++ tr). split; [|split; [|split]].
    + cbn [iterM]. apply runs_seq; [apply add_unstage_one_runs; exact Hd | exact Hr].
    + constructor; [reflexivity | exact Hg].
    + cbn [app length]. rewrite Hlen. reflexivity.
    + cbn [app]. rewrite apply_effects_cons. fold w1. constructor.
      * exact Pc.
      * intros q [<-|Hq]; [|apply Pg; exact Hq]. rewrite (Po x Hx). exact Hsx.
      * intros q Hq. assert (Hne : q <> x) by (intros ->; apply Hq; left; reflexivity).
        rewrite Po; [apply Hso1; exact Hne | intro H; apply Hq; right; exact H].
      * apply (same_wt_trans _ w1); [split; reflexivity | exact Pw].
      * apply (same_meta_trans _ w1); [repeat split | exact Pm].
      * apply (same_objs_trans _ w1); [split; reflexivity | exact Pob].
Qed.

Theorem cmd_add_missing_dir_spec : forall c w a, Canonical (idx_of w) ->
  (wt_stat w a = SNone \/ wt_stat w a = SNotDir) ->
  tracked w a = false -> is_dir (idx_of w) a = true -> ignored w (x_pats c) a = false ->
  exists tr, runs (cmd_add c [a]) w (Ok []) tr /\
             Forall (fun e => is_idx e = true) tr /\
             length tr = length (entries_by_dir (idx_of w) a) /\
             add_missing_dir_post w (fun q => under_dir a q = true) (apply_effects tr w).
Proof.
  intros c w a Hc Hs Ht Hdir Hig.
  set (l := map e_path (entries_by_dir (idx_of w) a)).
  assert (Hl : forall q, In q l <-> staged w q <> None /\ under_dir a q = true).
  { intro q. apply (dir_targets_iff (idx_of w) a q Hc). }
  destruct (add_unstage_list_spec l w Hc (dir_targets_nodup (idx_of w) a Hc)) as (tr & Hr & Hg & Hlen & Hp).
  { intros q Hq. apply Hl in Hq. exact (proj1 Hq). }
  exists tr. split; [|split; [exact Hg|split]].
  - apply cmd_add_one_arg; [rewrite Hdir; apply orb_true_r|].
    unfold add_arg. rstep. rewrite Hig.
    assert (Hm : runs (add_missing_body w a) w (Ok tt) tr).
    { unfold add_missing_body. rewrite Ht, Hdir. exact Hr. }
    destruct Hs as [Hs|Hs]; rewrite Hs; exact Hm.
  - rewrite Hlen. unfold l. apply map_length.
  - destruct Hp as [Pc Pg Po Pw Pm Pob]. constructor; try assumption.
    + intros q Hu. destruct (staged w q) as [id|] eqn:Hsq.
      * apply Pg. apply Hl. split; [rewrite Hsq; discriminate | exact Hu].
      * rewrite Po; [exact Hsq|]. intro Hin. apply Hl in Hin. destruct Hin as [Hn _].
        apply Hn. exact Hsq.
    + intros q Hu. apply Po. intro Hin. apply Hl in Hin. apply Hu. exact (proj2 Hin).
Qed.

(* (c) a directory argument *)
(* every file of the work tree is a file for [wt_stat] (no file below a file,
   no file called "."): what a real file system guarantees *)
Definition ex_wt_consistent (w : world) : Prop :=
  forall f data, file w f = Some data -> wt_stat w f = SFile.

Lemma files_under_in : forall w d f, In f (files_under w d) ->
  under_dir d f = true /\ exists data, file w f = Some data.
Proof.
  intros w d f H. unfold files_under in H. apply in_map_iff in H. destruct H as [[k v] [Ek Hin]].
  cbn [fst] in Ek. subst k. apply filter_In in Hin. destruct Hin as [Hin Hu]. cbn [fst] in Hu.
  split; [exact Hu|]. apply (ex_am_get_in _ _ _ _ Hin).
Qed.

Lemma files_under_intro : forall w d f data, In (f, data) (w_files w) -> under_dir d f = true ->
  In f (files_under w d).
Proof.
  intros w d f data Hin Hu. unfold files_under. apply in_map_iff. exists (f, data).
  split; [reflexivity|]. apply filter_In. split; [exact Hin | exact Hu].
Qed.

(* for an existing file [ignored] looks at the patterns only: it does not
   depend on the staging area, hence stays the same all through [add] *)
Lemma ignored_file_indep : forall w w' pats f,
  w_files w' = w_files w -> w_dirs w' = w_dirs w -> wt_stat w f = SFile ->
  ignored w' pats f = ignored w pats f /\ ignored w pats f = ign_match pats f.
Proof.
  intros w w' pats f Hf Hd Hs. rewrite (ignored_file w pats f Hs).
  rewrite (ignored_file w' pats f); [auto|]. rewrite (wt_stat_ext w w' f Hf Hd). exact Hs.
Qed.

Record add_dir_post (w : world) (pats : list regex) (sel : bytes -> Prop) (w' : world) : Prop := {
  adp_canon : Canonical (idx_of w');
  adp_wt : same_wt w w';
  adp_meta : same_meta w w';
  adp_staged : forall q, sel q -> ign_match pats q = false -> staged w' q = option_map blob_id (file w q);
  adp_others : forall q, ~ (sel q /\ ign_match pats q = false) -> staged w' q = staged w q
}.

Lemma add_dir_body_runs_ignored : forall c w f, ignored w (x_pats c) f = true ->
  runs (add_dir_body c f) w (Ok tt) [].
Proof. intros c w f H. unfold add_dir_body. rstep. rewrite H. rstep. Qed.

Lemma add_dir_body_runs_add : forall c w f tr, ignored w (x_pats c) f = false ->
  runs (add_file f) w (Ok tt) tr -> runs (add_dir_body c f) w (Ok tt) tr.
Proof. intros c w f tr H Hr. unfold add_dir_body. rstep. rewrite H. exact Hr. Qed.

Lemma add_list_spec : forall c w l, Canonical (idx_of w) -> ex_wt_consistent w ->
  (forall f, In f l -> exists data, file w f = Some data) ->
  exists tr, runs (iterM (add_dir_body c) l) w (Ok tt) tr /\ Forall add_eff tr /\
             add_dir_post w (x_pats c) (fun q => In q l) (apply_effects tr w).
Proof.
  intros c w l Hc Hcons Hl.
  apply (runs_iterM _ (add_dir_body c) (fun done w1 => add_dir_post w (x_pats c) (fun q => In q done) w1)).
  - constructor.
    + exact Hc.
    + apply same_wt_refl.
    + apply same_meta_refl.
    + intros q [].
    + reflexivity.
  - intros done x rest w1 El [Jc Jw Jm Js Jo].
    assert (Hx : In x l) by (rewrite El; apply in_or_app; right; left; reflexivity).
    destruct (Hl x Hx) as [data Hdata]. pose proof (Hcons x data Hdata) as Hsx.
    destruct Jw as [Jf Jd].
    destruct (ignored_file_indep w w1 (x_pats c) x Jf Jd Hsx) as [Hi1 Hi2].
    assert (Hdata1 : file w1 x = Some data) by (unfold file; rewrite Jf; exact Hdata).
    destruct (ign_match (x_pats c) x) eqn:Eig.
    + exists []. split; [apply add_dir_body_runs_ignored; congruence|]. split; [constructor|].
      cbn [apply_effects fold_left]. constructor; try assumption.
      * split; assumption.
      * intros q Hq Hqi. apply in_app_or in Hq. destruct Hq as [Hq|[<-|[]]]; [apply Js; assumption | congruence].
      * intros q Hq. apply Jo. intros [H1 H2]. apply Hq. split; [apply in_or_app; left; exact H1 | exact H2].
    + destruct (add_file_spec w1 x data Jc Hdata1) as (tr & Hr & Hg & _ & Hp).
      destruct Hp as [Pc Ps Po Pw Pm _ _ _].
      exists tr. split; [apply add_dir_body_runs_add; [congruence | exact Hr]|]. split; [exact Hg|].
      constructor.
      * exact Pc.
      * apply (same_wt_trans _ w1); [split; assumption | exact Pw].
      * apply (same_meta_trans _ _ _ Jm Pm).
      * intros q Hq Hqi. destruct (bytes_eq_dec q x) as [->|Hne].
        -- rewrite Ps, Hdata. reflexivity.
        -- rewrite (Po q Hne). apply in_app_or in Hq. destruct Hq as [Hq|[Hq|[]]]; [|congruence].
           apply Js; assumption.
      * intros q Hq. assert (Hne : q <> x).
        { intros ->. apply Hq. split; [apply in_or_app; right; left; reflexivity | exact Eig]. }
        rewrite (Po q Hne). apply Jo. intros [H1 H2]. apply Hq.
        split; [apply in_or_app; left; exact H1 | exact H2].
Qed.

Theorem cmd_add_dir_spec : forall c w d, Canonical (idx_of w) -> ex_wt_consistent w ->
  wt_stat w d = SDir -> ignored w (x_pats c) d = false ->
  exists tr, runs (cmd_add c [d]) w (Ok []) tr /\ Forall add_eff tr /\
             add_dir_post w (x_pats c) (fun q => In q (files_under w d)) (apply_effects tr w) /\
             (w_coll (apply_effects tr w) = false -> objs_kept w (apply_effects tr w)).
Proof.
  intros c w d Hc Hcons Hs Hig.
  destruct (add_list_spec c w (files_under w d) Hc Hcons) as (tr & Hr & Hg & Hp).
  { intros f Hf. exact (proj2 (files_under_in w d f Hf)). }
  exists tr. split; [|split; [exact Hg|split; [exact Hp | apply objs_kept_trace]]].
  apply cmd_add_one_arg; [unfold exists_on_disk; rewrite Hs; reflexivity|].
  unfold add_arg. rstep. rewrite Hig, Hs. exact Hr.
Qed.

(* ---------- (d) the whole command, any argument list, any outcome ---------- *)
(* the paths [add args] may (re)stage or unstage, fixed by the initial world: an argument,
   an existing file below an argument, or a staged path below an argument that is not on
   disk (the tracked directory that is gone) *)
Definition add_sel (w0 : world) (args : list bytes) (q : bytes) : Prop :=
  exists a, In a args /\
    (q = a \/ (under_dir a q = true /\ file w0 q <> None)
     \/ (under_dir a q = true /\ exists_on_disk w0 a = false /\ staged w0 q <> None)).

Definition add_inv (w0 : world) (args : list bytes) (w : world) : Prop :=
  Canonical (idx_of w) /\ w_files w = w_files w0 /\ w_dirs w = w_dirs w0 /\
  forall q, staged w q <> staged w0 q -> add_sel w0 args q.

Lemma add_inv_put : forall w0 args w i p, add_inv w0 args w -> add_inv w0 args (apply_effect (EPutObj i p) w).
Proof. intros w0 args w i p H. exact H. Qed.

Lemma add_inv_setidx : forall w0 args w p es', add_inv w0 args w -> add_sel w0 args p ->
  Canonical es' -> (forall q, q <> p -> stg es' q = stg (idx_of w) q) ->
  add_inv w0 args (apply_effect (ESetIndex es') w).
Proof.
  intros w0 args w p es' (Hc & Hf & Hdd & Hsel) Hp Hc' Ho. split; [exact Hc'|]. split; [exact Hf|].
  split; [exact Hdd|].
  intros q Hq. destruct (bytes_eq_dec q p) as [->|Hne]; [exact Hp|].
  apply Hsel. rewrite staged_stg. rewrite <- (Ho q Hne). exact Hq.
Qed.

Lemma add_inv_add_file_idx : forall w0 args w p id i0 pl, add_inv w0 args w -> add_sel w0 args p ->
  add_inv w0 args (apply_effect
     (ESetIndex (match idx_update (idx_of w) id p with Some i => i | None => idx_of w end))
     (apply_effect (EPutObj i0 pl) w)).
Proof.
  intros w0 args w p id i0 pl Hi Hp.
  apply add_inv_setidx with (p := p); [apply add_inv_put; exact Hi | exact Hp | |].
  - destruct Hi as [Hc _]. destruct (idx_update (idx_of w) id p) as [i|] eqn:Hu; [|exact Hc].
    exact (proj1 (stg_update _ _ _ _ Hc Hu)).
  - intros q Hq. destruct Hi as [Hc _]. destruct (idx_update (idx_of w) id p) as [i|] eqn:Hu; [|reflexivity].
    exact (proj2 (proj2 (stg_update _ _ _ _ Hc Hu)) q Hq).
Qed.

Lemma add_inv_delete : forall w0 args w p i, add_inv w0 args w -> add_sel w0 args p ->
  idx_delete (idx_of w) p = Some i -> add_inv w0 args (apply_effect (ESetIndex i) w).
Proof.
  intros w0 args w p i Hi Hp Hd. destruct (stg_delete _ _ _ (proj1 Hi) Hd) as (Hc' & _ & Ho).
  apply add_inv_setidx with (p := p); assumption.
Qed.

Definition add_G (_ : world) (e : effect) : Prop := add_eff e.

Lemma add_file_emits : forall w0 args p, add_sel w0 args p ->
  emits (add_inv w0 args) add_G (add_file p).
Proof.
  intros w0 args p Hp. hinline. unfold put_obj. hsteps; try exact Logic.I;
    repeat match goal with
    | |- _ /\ _ => split
    | |- True => exact Logic.I
    | |- add_G _ _ => exact Logic.I
    | |- add_inv _ _ (apply_effect (EPutObj _ _) _) => apply add_inv_put; assumption
    | |- add_inv _ _ (apply_effect (ESetIndex _) (apply_effect (EPutObj _ _) _)) =>
        apply add_inv_add_file_idx; assumption
    end.
Qed.

Lemma ex_opt_bytes_dec : forall a b : option bytes, {a = b} + {a <> b}.
Proof. intros a b. decide equality. apply bytes_eq_dec. Qed.

(* a staged path below an argument that is not on disk may be unstaged *)
Lemma add_sel_under_missing : forall w0 args w1 x q, add_inv w0 args w1 -> In x args ->
  exists_on_disk w1 x = false ->
  In q (map e_path (entries_by_dir (idx_of w1) x)) -> add_sel w0 args q.
Proof.
  intros w0 args w1 x q (Hc & Hf & Hdd & Hsel) Hx Hdisk Hq.
  apply (dir_targets_iff (idx_of w1) x q Hc) in Hq. destruct Hq as [Hst Hu].
  rewrite <- staged_stg in Hst.
  destruct (ex_opt_bytes_dec (staged w1 q) (staged w0 q)) as [E|E]; [|apply Hsel; exact E].
  exists x. split; [exact Hx|]. right. right. split; [exact Hu|]. split.
  - unfold exists_on_disk in *. rewrite <- (wt_stat_ext w0 w1 x Hf Hdd). exact Hdisk.
  - rewrite <- E. exact Hst.
Qed.

(* the argument that is not on disk *)
Lemma add_missing_emits : forall w0 args x w1, In x args -> exists_on_disk w1 x = false ->
  hoare (add_inv w0 args) add_G (eq w1) (add_missing_body w1 x) (fun _ _ => True).
Proof.
  intros w0 args x w1 Hx Hdisk. apply at_Inv. intro Hi1. unfold add_missing_body. hsteps; try exact Logic.I.
  - (* a tracked path that is gone *)
    split; [exact Logic.I|]. split; [|exact Logic.I].
    eapply add_inv_delete; [eassumption | | eassumption].
    exists x. split; [exact Hx | left; reflexivity].
  - (* a tracked directory that is gone: every tracked path beneath it *)
    apply at_iterM with (J := fun _ => True); [auto| |auto].
    intros q w2 Hq Hi2 _. unfold add_unstage_one. hsteps; try exact Logic.I.
    split; [exact Logic.I|]. split; [|exact Logic.I].
    eapply add_inv_delete; [eassumption | | eassumption].
    apply (add_sel_under_missing w0 args w1 x q Hi1 Hx Hdisk Hq).
Qed.

Theorem cmd_add_emits : forall w0 c args, emits (add_inv w0 args) add_G (cmd_add c args).
Proof.
  intros w0 c args. rewrite cmd_add_uses_arg. hsteps.
  apply at_bind_iterM with (J := fun _ => True).
  - auto.
  - intros x w' Hx Hi _. unfold add_arg. hsteps; try exact Logic.I.
    + (* an existing file *)
      apply at_call with (P := fun _ => True) (R := fun _ _ => True); [|auto|auto].
      apply add_file_emits. exists x. split; [exact Hx | left; reflexivity].
    + (* a directory: every file below it *)
      apply at_iterM with (J := fun _ => True); [auto| |auto].
      intros f w'' Hf Hi'' _. unfold add_dir_body. hsteps; try exact Logic.I.
      apply at_call with (P := fun _ => True) (R := fun _ _ => True); [|auto|auto].
      apply add_file_emits. exists x. split; [exact Hx|]. right. left.
      destruct (files_under_in w' x f Hf) as [Hu [data Hd]]. split; [exact Hu|].
      destruct Hi as (_ & Hfw & _). unfold file in *. rewrite <- Hfw, Hd. discriminate.
    + (* nothing on disk under that name *)
      apply add_missing_emits; [exact Hx|].
      unfold exists_on_disk. match goal with H : wt_stat _ _ = SNone |- _ => rewrite H end. reflexivity.
    + (* the name is below a file *)
      apply add_missing_emits; [exact Hx|].
      unfold exists_on_disk. match goal with H : wt_stat _ _ = SNotDir |- _ => rewrite H end. reflexivity.
  - intros w' _ _. hsteps. exact Logic.I.
Qed.

(* C04 for [add], any arguments, any outcome (failures part-way included):
   only object writes and index writes are performed, so the work tree, refs,
   HEAD, journals and configs never change; no readable object is lost; and a
   path whose staged value changed is an argument, an existing file below
   an argument, or a staged path below an argument that is not on disk *)
Theorem cmd_add_frame : forall c w args r w' tr, Canonical (idx_of w) ->
  run_m (cmd_add c args) w = (r, w', tr) ->
  w' = apply_effects tr w /\ Forall add_eff tr /\
  same_wt w w' /\ same_meta w w' /\
  (w_coll w' = false -> objs_kept w w') /\
  Canonical (idx_of w') /\
  (forall q, staged w' q <> staged w q -> add_sel w args q).
Proof.
  intros c w args r w' tr Hc Hrun.
  assert (Hi : add_inv w args w).
  { split; [exact Hc|]. split; [reflexivity|]. split; [reflexivity|]. intros q Hq. contradiction Hq. reflexivity. }
  destruct (emits_sound (add_inv w args) add_G _ _ w r w' tr (cmd_add_emits w c args) Hi Hrun)
    as (Hi' & Hw & Hs & _).
  assert (Hall : Forall add_eff tr).
  { apply (steps_ok_forall (add_inv w args) add_G add_eff) with (w := w); [|exact Hs]. intros w1 e0 He. exact He. }
  split; [exact Hw|]. split; [exact Hall|].
  destruct (add_eff_trace_frame tr w Hall) as [H1 H2]. rewrite <- Hw in H1, H2.
  split; [exact H1|]. split; [exact H2|].
  split; [intro Hcoll; rewrite Hw in *; apply objs_kept_trace; exact Hcoll|].
  destruct Hi' as (Hc' & _ & _ & Hsel). split; [exact Hc' | exact Hsel].
Qed.

(* ================================================================== *)
(** * 8. [restore --staged] *)

(* the id HEAD's snapshot has at [p] when [p] is a file there *)
Definition head_leaf (ns : list node) (p : bytes) : option bytes := option_map n_id (leaf_node ns p).

Definition idx_G (_ : world) (e : effect) : Prop := is_idx e = true.

Record restore_index_post (w : world) (ns : list node) (p : bytes) (w' : world) : Prop := {
  rip_canon : Canonical (idx_of w');
  rip_staged : staged w' p = head_leaf ns p;
  rip_others : forall q, q <> p -> staged w' q = staged w q;
  rip_wt : same_wt w w';
  rip_objs : same_objs w w';
  rip_meta : same_meta w w'
}.

Lemma rip_update : forall w ns p n i, Canonical (idx_of w) -> leaf_node ns p = Some n ->
  idx_update (idx_of w) (n_id n) p = Some i -> restore_index_post w ns p (apply_effect (ESetIndex i) w).
Proof.
  intros w ns p n i Hc Hl Hu. destruct (stg_update _ _ _ _ Hc Hu) as (Hc' & Hs & Ho).
  constructor; try (split; reflexivity); try (repeat split; reflexivity).
  - exact Hc'.
  - unfold head_leaf. rewrite Hl. exact Hs.
  - intros q Hq. rewrite !staged_stg. apply Ho. exact Hq.
Qed.

Lemma rip_noop : forall w ns p n, Canonical (idx_of w) -> leaf_node ns p = Some n ->
  idx_update (idx_of w) (n_id n) p = None -> restore_index_post w ns p w.
Proof.
  intros w ns p n Hc Hl Hu. constructor; try reflexivity.
  - exact Hc.
  - unfold head_leaf. rewrite Hl. rewrite staged_stg. apply (stg_update_none _ _ _ Hc). exact Hu.
  - apply same_wt_refl.
  - apply same_objs_refl.
  - apply same_meta_refl.
Qed.

Lemma rip_delete : forall w ns p i, Canonical (idx_of w) -> leaf_node ns p = None ->
  idx_delete (idx_of w) p = Some i -> restore_index_post w ns p (apply_effect (ESetIndex i) w).
Proof.
  intros w ns p i Hc Hl Hd. destruct (stg_delete _ _ _ Hc Hd) as (Hc' & Hs & Ho).
  constructor; try (split; reflexivity); try (repeat split; reflexivity).
  - exact Hc'.
  - unfold head_leaf. rewrite Hl. exact Hs.
  - intros q Hq. rewrite !staged_stg. apply Ho. exact Hq.
Qed.

Definition restore_index_trace (w : world) (ns : list node) (p : bytes) : list effect :=
  match leaf_node ns p with
  | Some n => match idx_update (idx_of w) (n_id n) p with Some i => [ESetIndex i] | None => [] end
  | None => match idx_delete (idx_of w) p with Some i => [ESetIndex i] | None => [] end
  end.

(* the four-way case split on (staged?, a file in HEAD?) *)
Theorem restore_index_spec : forall w ns p, Canonical (idx_of w) ->
  (staged w p = None -> leaf_node ns p = None -> runs (restore_index ns p) w Err []) /\
  (staged w p <> None \/ leaf_node ns p <> None ->
   runs (restore_index ns p) w (Ok tt) (restore_index_trace w ns p) /\
   restore_index_post w ns p (apply_effects (restore_index_trace w ns p) w)).
Proof.
  intros w ns p Hc. unfold restore_index_trace, restore_index, staged. split.
  - intros Hs Hl. rstep. rewrite Hl. destruct (get_entry (idx_of w) p); [discriminate Hs|]. rstep.
  - intros Hor. destruct (leaf_node ns p) as [n|] eqn:Hl.
    + assert (Hr : runs (match idx_update (idx_of w) (n_id n) p with
                         | Some i => emit (ESetIndex i) | None => ret tt end) w (Ok tt)
                        (match idx_update (idx_of w) (n_id n) p with Some i => [ESetIndex i] | None => [] end)).
      { destruct (idx_update (idx_of w) (n_id n) p); rstep. }
      split.
      * rstep. destruct (get_entry (idx_of w) p); exact Hr.
      * destruct (idx_update (idx_of w) (n_id n) p) as [i|] eqn:Hu.
        -- apply (rip_update w ns p n i Hc Hl Hu).
        -- apply (rip_noop w ns p n Hc Hl Hu).
    + destruct (get_entry (idx_of w) p) as [[pos en]|] eqn:Hg.
      2:{ destruct Hor as [H|H]; contradiction H; reflexivity. }
      assert (Hd : idx_delete (idx_of w) p = Some (remove_nth pos (idx_of w))).
      { unfold idx_delete. rewrite Hg. reflexivity. }
      rewrite Hd. split.
      * rstep. rewrite Hg. ropt (remove_nth pos (idx_of w)) Hd. rstep.
      * apply (rip_delete w ns p _ Hc Hl Hd).
Qed.

Lemma restore_index_hoare : forall ns p w, Canonical (idx_of w) ->
  hoare (fun _ => True) idx_G (eq w) (restore_index ns p) (fun _ w' => restore_index_post w ns p w').
Proof.
  intros ns p w Hc. unfold restore_index. hsteps;
    repeat match goal with
    | |- _ /\ _ => split
    | |- True => exact Logic.I
    | |- idx_G _ _ => reflexivity
    | Hl : leaf_node ns p = Some ?n, Hu : idx_update _ (n_id ?n) p = Some ?i
      |- restore_index_post _ _ _ (apply_effect (ESetIndex ?i) _) => apply (rip_update w ns p n i Hc Hl Hu)
    | Hl : leaf_node ns p = Some ?n, Hu : idx_update _ (n_id ?n) p = None
      |- restore_index_post _ _ _ _ => apply (rip_noop w ns p n Hc Hl Hu)
    | Hl : leaf_node ns p = None, Hd : idx_delete _ p = Some ?i
      |- restore_index_post _ _ _ (apply_effect (ESetIndex ?i) _) => apply (rip_delete w ns p i Hc Hl Hd)
    end.
Qed.

(* ---------- the command, staging-area mode ---------- *)
(* the nodes of HEAD's snapshot, as the command loads them *)
Definition head_nodes (c : ctx) (w : world) : option (list node) :=
  match x_headc c with
  | None => None
  | Some (_, cm) =>
      match get_kind (w_objs w) KTree (c_tree cm) with
      | None => None
      | Some d => walk_tree (S (length (w_objs w))) (w_objs w) d
      end
  end.

Definition idx_targets (w : world) (ns : list node) (args : list bytes) : list bytes :=
  concat (map (restore_targets w true ns) args).

Definition restore_idx_flat (c : ctx) (args : list bytes) : M (list bytes) :=
  guard (negb (is_nil args)) ;;;
  w <- getw ;;
  ns <- (guard (am_mem (w_refs w) (w_head w)) ;;;
         match x_headc c with None => fail | Some _ => head_tree_nodes c end) ;;
  guard (forallb (fun t => negb (is_nil t)) (map (restore_targets w true ns) args)) ;;;
  iterM (restore_index ns) (idx_targets w ns args) ;;;
  ret [].

Lemma cmd_restore_idx_flat : forall c args s, cmd_restore c true args s = restore_idx_flat c args s.
Proof.
  intros c args s. unfold cmd_restore, restore_idx_flat.
  apply bind_ext. intros _ s1. apply bind_ext. intros w s2. apply bind_ext. intros ns s3.
  cbv zeta. apply bind_ext. intros _ s4.
  apply bind_ext_m. intro s5. unfold idx_targets. rewrite <- iterM_concat. reflexivity.
Qed.

Record restore_idx_post (w : world) (ns : list node) (targets : list bytes) (w' : world) : Prop := {
  rxp_canon : Canonical (idx_of w');
  rxp_wt : same_wt w w';
  rxp_objs : same_objs w w';
  rxp_meta : same_meta w w';
  rxp_done : forall q, In q targets -> staged w' q = head_leaf ns q;
  rxp_kept : forall q, ~ In q targets -> staged w' q = staged w q
}.

(* C09, staging area, any argument list, PARTIAL: if the command answers Ok
   every selected path is staged exactly as in HEAD (or not at all when HEAD
   has no file there), every other staged value is unchanged, the work tree,
   objects and refs are unchanged; only the index is ever written *)
Theorem cmd_restore_idx_hoare : forall c args w, Canonical (idx_of w) ->
  hoare (fun _ => True) idx_G (eq w) (cmd_restore c true args)
        (fun _ w' => exists ns, head_nodes c w = Some ns /\
                                restore_idx_post w ns (idx_targets w ns args) w').
Proof.
  intros c args w Hc.
  apply (hoare_ext _ _ _ _ _ _ _ (fun s => eq_sym (cmd_restore_idx_flat c args s))).
  unfold restore_idx_flat. hsteps. hinline. hsteps; try (exfalso; congruence).
  match goal with H : walk_tree _ _ _ = Some ?n |- _ => rename n into ns; rename H into Hns end.
  assert (Hhn : head_nodes c w = Some ns).
  { unfold head_nodes.
    match goal with H : x_headc c = Some (_, ?cm), Hd : get_kind _ _ (c_tree ?cm) = Some _ |- _ => rewrite H, Hd end.
    exact Hns. }
  set (l := idx_targets w ns args).
  apply at_bind with (R := fun _ w' => restore_idx_post w ns l w').
  - apply at_iterM_idx with
      (J := fun done w1 => Canonical (idx_of w1) /\ same_wt w w1 /\ same_objs w w1 /\ same_meta w w1 /\
              (forall q, In q done -> staged w1 q = head_leaf ns q) /\
              (forall q, ~ In q l -> staged w1 q = staged w q)).
    + intros _. split; [exact Hc|]. split; [apply same_wt_refl|]. split; [apply same_objs_refl|].
      split; [apply same_meta_refl|]. split; [intros q []|reflexivity].
    + intros done x rest w1 El _ (Jc & Jw & Jo & Jm & Jd & Jk).
      assert (Hx : In x l) by (rewrite El; apply in_or_app; right; left; reflexivity).
      apply at_call with (P := eq w1) (R := fun _ w2 => restore_index_post w1 ns x w2);
        [apply restore_index_hoare; exact Jc | auto |].
      intros _ w2 _ [Pc Ps Po Pw Pob Pm].
      split; [exact Pc|]. split; [apply (same_wt_trans _ _ _ Jw Pw)|].
      split; [apply (same_objs_trans _ _ _ Jo Pob)|]. split; [apply (same_meta_trans _ _ _ Jm Pm)|]. split.
      * intros q Hq. destruct (bytes_eq_dec q x) as [->|Hne]; [exact Ps|].
        apply in_app_or in Hq. destruct Hq as [Hq|[Hq|[]]]; [|congruence].
        rewrite (Po q Hne). apply Jd. exact Hq.
      * intros q Hq. rewrite Po; [apply Jk; exact Hq|]. intros ->. contradiction (Hq Hx).
    + intros w1 _ (Jc & Jw & Jo & Jm & Jd & Jk). constructor; assumption.
  - intros [] w1 _ Hp. hsteps. exists ns. auto.
Qed.

Theorem cmd_restore_idx_spec : forall c args w out w' tr, Canonical (idx_of w) ->
  run_m (cmd_restore c true args) w = (Ok out, w', tr) ->
  exists ns, head_nodes c w = Some ns /\ restore_idx_post w ns (idx_targets w ns args) w' /\
             w' = apply_effects tr w /\ Forall (fun e => is_idx e = true) tr.
Proof.
  intros c args w out w' tr Hc Hrun. unfold run_m in Hrun.
  destruct (cmd_restore c true args (mkMS w [] None)) as [r s'] eqn:Em.
  injection Hrun as -> <- <-.
  destruct (hoare_sound _ _ _ _ _ _ w [] None (Ok out) s' (cmd_restore_idx_hoare c args w Hc) Logic.I eq_refl Em)
    as (tr0 & Ht & Hw & Hs & _ & _ & _ & HQ).
  cbn [app] in Ht. subst tr0. destruct (HQ out eq_refl) as (ns & H1 & H2).
  exists ns. split; [exact H1|]. split; [exact H2|]. split; [exact Hw|].
  apply (steps_ok_forall _ _ _ (fun w1 e He => He) _ _ Hs).
Qed.

(* whatever the outcome, [restore --staged] writes nothing but the index *)
Theorem cmd_restore_idx_frame : forall c args w r w' tr, Canonical (idx_of w) ->
  run_m (cmd_restore c true args) w = (r, w', tr) ->
  w' = apply_effects tr w /\ Forall (fun e => is_idx e = true) tr /\
  same_wt w w' /\ same_objs w w' /\ same_meta w w'.
Proof.
  intros c args w r w' tr Hc Hrun. unfold run_m in Hrun.
  destruct (cmd_restore c true args (mkMS w [] None)) as [r0 s'] eqn:Em.
  injection Hrun as -> <- <-.
  destruct (hoare_sound _ _ _ _ _ _ w [] None r s' (cmd_restore_idx_hoare c args w Hc) Logic.I eq_refl Em)
    as (tr0 & Ht & Hw & Hs & _).
  cbn [app] in Ht. subst tr0.
  pose proof (steps_ok_forall _ _ _ (fun w1 e He => He) _ _ Hs) as Hall. cbv beta in Hall.
  split; [exact Hw|]. split; [exact Hall|]. rewrite Hw. clear Em Hs Hw Hc.
  revert w. induction (ms_trace s') as [|e tr IH]; intros w.
  - split; [apply same_wt_refl|]. split; [apply same_objs_refl | apply same_meta_refl].
  - inversion Hall as [|e' tr' He Htr]; subst. rewrite apply_effects_cons.
    destruct (IH Htr (apply_effect e w)) as (H1 & H2 & H3).
    destruct e; try discriminate He.
    split; [eapply same_wt_trans; [|exact H1]; split; reflexivity|].
    split; [eapply same_objs_trans; [|exact H2]; split; reflexivity|].
    eapply same_meta_trans; [|exact H3]. repeat split.
Qed.

(* TOTAL, one argument that is staged or a file in HEAD: the four cases *)
Theorem cmd_restore_idx_file_spec : forall c w a hid cm d ns, Canonical (idx_of w) ->
  am_mem (w_refs w) (w_head w) = true -> x_headc c = Some (hid, cm) ->
  get_kind (w_objs w) KTree (c_tree cm) = Some d ->
  walk_tree (S (length (w_objs w))) (w_objs w) d = Some ns ->
  (staged w a <> None \/ leaf_node ns a <> None) ->
  runs (cmd_restore c true [a]) w (Ok []) (restore_index_trace w ns a) /\
  restore_index_post w ns a (apply_effects (restore_index_trace w ns a) w).
Proof.
  intros c w a hid cm d ns Hc Hb Hh Hd Hns Hor.
  destruct (proj2 (restore_index_spec w ns a Hc) Hor) as [Hr Hp]. split; [|exact Hp].
  apply (runs_ext _ _ _ _ _ _ (cmd_restore_idx_flat c [a])). unfold restore_idx_flat.
  apply runs_bind_guard; [reflexivity|]. rstep. rstep. rguard Hb. rewrite Hh.
  unfold head_tree_nodes. rstep. rstep. rewrite Hh. ropt d Hd. ropt ns Hns.
  assert (Ht : restore_targets w true ns a = [a]).
  { unfold restore_targets. rewrite stg_tracked.
    destruct (staged w a); [reflexivity|]. destruct (leaf_node ns a); [reflexivity|].
    destruct Hor as [H|H]; contradiction H; reflexivity. }
  unfold idx_targets. cbn [map concat forallb]. rewrite Ht. cbn [app].
  apply runs_bind_guard; [reflexivity|]. cbn [iterM]. rstep.
  rewrite <- (app_nil_r (restore_index_trace w ns a)). apply runs_seq; [exact Hr|]. rstep. rstep.
Qed.

(* the refusal cases named in C08, as instances of [reset_target = None] *)
Lemma reset_target_bad_arg : forall w a, reset_arg a = None -> reset_target w a = None.
Proof. intros w a H. unfold reset_target. rewrite H. reflexivity. Qed.

Lemma reset_target_out_of_range : forall w a n hl rs,
  reset_arg a = Some n -> w_hlog w = Some hl -> parse_reflog hl = Some rs ->
  (N.of_nat (length rs) <= n)%N -> reset_target w a = None.
Proof.
  intros w a n hl rs H1 H2 H3 Hn. unfold reset_target. rewrite H1, H2, H3.
  destruct (N.leb n 9223372036854775807); [|reflexivity].
  rewrite (N.min_r n (N.of_nat (length rs)) Hn), Nat2N.id.
  unfold get_record. rewrite Nat.leb_refl. reflexivity.
Qed.

Lemma reset_target_zero_id : forall w a n hl rs r,
  reset_arg a = Some n -> w_hlog w = Some hl -> parse_reflog hl = Some rs ->
  get_record rs (N.to_nat (N.min n (N.of_nat (length rs)))) = Some r -> r_id r = None ->
  reset_target w a = None.
Proof.
  intros w a n hl rs r H1 H2 H3 H4 H5. unfold reset_target. rewrite H1, H2, H3, H4.
  destruct (N.leb n 9223372036854775807); [exact H5 | reflexivity].
Qed.

(* the duplicate-free hypothesis on the work-tree map is necessary for
   "[rm] makes the file absent": [am_del] removes the first binding only
   (an artefact of the representation: no command creates a second binding) *)
Example ex_nodup_needed :
  am_get (am_del [([x61], [x31]); ([x61], [x32])] [x61]) [x61] = Some [x32].
Proof. reflexivity. Qed.

(* ================================================================== *)
(** * 9. Non-vacuity on a concrete history *)

Definition ex_env : env := mkEnv 0 0.
Definition ex_hist : list action :=
  [ACmd ex_env CInit;
   AEdit (UWrite (str "d/x"%string) (str "one"%string));
   AEdit (UWrite (str "d/y"%string) (str "two"%string));
   AEdit (UWrite (str "d-old"%string) (str "three"%string));
   AEdit (UWrite (str "ad/x"%string) (str "four"%string));
   ACmd ex_env (CAdd [str "."%string])].
Definition ex_w1 : world := Eval vm_compute in run ex_hist w_empty.
Definition ex_rm : world * outcome * list effect := Eval vm_compute in step (ACmd ex_env (CRm [str "d"%string])) ex_w1.
Definition ex_w2 : world := fst (fst ex_rm).

(* after [add .] all four files are staged, in path order *)
Example ex_added : map e_path (idx_of ex_w1) =
  [str "ad/x"%string; str "d-old"%string; str "d/x"%string; str "d/y"%string].
Proof. vm_compute. reflexivity. Qed.

Example ex_added_ids :
  staged ex_w1 (str "ad/x"%string) = Some (blob_id (str "four"%string)) /\
  staged ex_w1 (str "d/y"%string) = Some (blob_id (str "two"%string)) /\
  get_obj (w_objs ex_w1) (blob_id (str "four"%string)) = Some (KBlob, str "four"%string).
Proof. vm_compute. repeat split. Qed.

(* [rm d] succeeds ... *)
Example ex_rm_ok : snd (fst ex_rm) = OOk [].
Proof. vm_compute. reflexivity. Qed.

(* ... the staging area then holds exactly ad/x and d-old ... *)
Example ex_rm_index : map e_path (idx_of ex_w2) = [str "ad/x"%string; str "d-old"%string].
Proof. vm_compute. reflexivity. Qed.

(* ... d/x and d/y are gone, ad/x and d-old are byte-identical ... *)
Example ex_rm_files :
  file ex_w2 (str "d/x"%string) = None /\ file ex_w2 (str "d/y"%string) = None /\
  file ex_w2 (str "ad/x"%string) = Some (str "four"%string) /\
  file ex_w2 (str "d-old"%string) = Some (str "three"%string) /\
  map fst (w_files ex_w2) = [str "ad/x"%string; str "d-old"%string].
Proof. vm_compute. repeat split. Qed.

(* ... and exactly two paths were removed *)
Example ex_rm_trace :
  filter (fun e => match e with ERemovePath _ => true | _ => false end) (snd ex_rm)
  = [ERemovePath (str "d/x"%string); ERemovePath (str "d/y"%string)].
Proof. vm_compute. reflexivity. Qed.

(* the hypotheses of [cmd_rm_dir_spec] are satisfiable: it applies to this world *)
Lemma ex_w1_canonical : Canonical (idx_of ex_w1).
Proof.
  unfold Canonical. vm_compute.
  repeat (constructor; [| repeat (constructor; [vm_compute; reflexivity|]); constructor]).
  constructor.
Qed.

Lemma ex_w1_nodup : ex_nodup_keys (w_files ex_w1).
Proof.
  unfold ex_nodup_keys. vm_compute.
  repeat (constructor; [intro H; repeat (destruct H as [H|H]; [discriminate H|]); exact H|]).
  constructor.
Qed.

Example ex_rm_dir_spec_applies :
  exists tr, runs (cmd_rm [str "d"%string]) ex_w1 (Ok []) tr /\
    rm_many_post ex_w1 (fun q => staged ex_w1 q <> None /\ under_dir (str "d"%string) q = true)
                 (apply_effects tr ex_w1).
Proof.
  destruct (cmd_rm_dir_spec ex_w1 (str "d"%string) ex_w1_canonical ex_w1_nodup) as (tr & Hr & _ & Hp).
  - vm_compute. reflexivity.
  - vm_compute. reflexivity.
  - intros q Hs _.
    destruct (in_dec bytes_eq_dec q (paths (idx_of ex_w1))) as [Hin|Hn].
    + vm_compute in Hin.
      repeat (destruct Hin as [<-|Hin]; [left; vm_compute; reflexivity|]). contradiction Hin.
    + exfalso. apply Hs. rewrite staged_stg. apply (stg_none_iff _ _ ex_w1_canonical). exact Hn.
  - exists tr. split; assumption.
Qed.

(* the hypotheses of [cmd_add_missing_dir_spec] are satisfiable: the user removes the
   directory d from disk; [add d] then unstages d/x and d/y, in two index writes, and
   nothing else moves *)
Definition ex_w5 : world := Eval vm_compute in run [AEdit (URmTree (str "d"%string))] ex_w1.

Example ex_add_missing_dir_spec_applies : forall c, x_pats c = [ign_builtin] ->
  exists tr, runs (cmd_add c [str "d"%string]) ex_w5 (Ok []) tr /\
    Forall (fun e => is_idx e = true) tr /\ length tr = 2 /\
    add_missing_dir_post ex_w5 (fun q => under_dir (str "d"%string) q = true) (apply_effects tr ex_w5).
Proof.
  intros c Hpats.
  destruct (cmd_add_missing_dir_spec c ex_w5 (str "d"%string) ex_w1_canonical) as (tr & Hr & Hg & Hlen & Hp).
  - left. vm_compute. reflexivity.
  - vm_compute. reflexivity.
  - vm_compute. reflexivity.
  - rewrite Hpats. vm_compute. reflexivity.
  - exists tr. split; [exact Hr|]. split; [exact Hg|]. split; [|exact Hp].
    rewrite Hlen. vm_compute. reflexivity.
Qed.

Example ex_add_missing_dir :
  let '(w', o, tr) := step (ACmd ex_env (CAdd [str "d"%string])) ex_w5 in
  o = OOk [] /\ length tr = 2 /\
  map e_path (idx_of w') = [str "ad/x"%string; str "d-old"%string] /\
  w_files w' = w_files ex_w5 /\ w_objs w' = w_objs ex_w5.
Proof. vm_compute. repeat split. Qed.

(* re-adding unchanged files changes nothing *)
Example ex_readd_noop : step (ACmd ex_env (CAdd [str "."%string])) ex_w1 = (ex_w1, OOk [], []).
Proof. vm_compute. reflexivity. Qed.

(* ---------- findings: why the directory theorems carry their hypotheses ---------- *)
(* (F-a) [rm d] is not atomic: when a tracked path below [d] has meanwhile
   become a non-empty directory the command answers Err AFTER having removed
   the paths before it, from disk and from the staging area.  (The frame
   theorem [cmd_rm_frame] still holds; the total theorem [cmd_rm_dir_spec]
   asks every tracked path below [d] to be a file or absent.) *)
Definition ex_w3 : world :=
  Eval vm_compute in run [AEdit (UDelete (str "d/y"%string));
                          AEdit (UWrite (str "d/y/z"%string) (str "zz"%string))] ex_w1.
Example ex_rm_partway :
  let '(w', o, tr) := step (ACmd ex_env (CRm [str "d"%string])) ex_w3 in
  o = OErr /\ length tr = 2 /\
  map e_path (idx_of w') = [str "ad/x"%string; str "d-old"%string; str "d/y"%string] /\
  file w' (str "d/x"%string) = None /\ file ex_w3 (str "d/x"%string) = Some (str "one"%string).
Proof. vm_compute. repeat split. Qed.

(* (F-b) [add] does not unstage a tracked file that has become a directory:
   the staging area then holds a path and a path below it, and a later
   [restore .] stops with Err after having rewritten the paths before it
   (hence the PARTIAL form of [cmd_restore_wd_spec]). *)
Definition ex_w4 : world :=
  Eval vm_compute in run [AEdit (UDelete (str "d-old"%string));
                          AEdit (UWrite (str "d-old/b"%string) (str "bb"%string));
                          ACmd ex_env (CAdd [str "d-old/b"%string])] ex_w1.
Example ex_stale_file_and_dir :
  map e_path (idx_of ex_w4) =
    [str "ad/x"%string; str "d-old"%string; str "d-old/b"%string; str "d/x"%string; str "d/y"%string] /\
  let '(w', o, tr) := step (ACmd ex_env (CRestore false [str "."%string])) ex_w4 in
  o = OErr /\ length tr = 1.
Proof. vm_compute. repeat split. Qed.

(* ================================================================== *)
Print Assumptions add_file_spec.
Print Assumptions add_file_unchanged.
Print Assumptions cmd_add_file_spec.
Print Assumptions cmd_add_missing_spec.
Print Assumptions cmd_add_missing_dir_spec.
Print Assumptions cmd_add_refuses.
Print Assumptions cmd_add_dir_spec.
Print Assumptions cmd_add_frame.
Print Assumptions cmd_rm_refuses.
Print Assumptions cmd_rm_file_spec.
Print Assumptions cmd_rm_dir_spec.
Print Assumptions cmd_rm_frame.
Print Assumptions wt_put_runs.
Print Assumptions restore_wd_spec.
Print Assumptions cmd_restore_wd_spec.
Print Assumptions cmd_restore_wd_frame.
Print Assumptions cmd_restore_wd_file_spec.
Print Assumptions cmd_restore_wd_unknown.
Print Assumptions restore_index_spec.
Print Assumptions cmd_restore_idx_spec.
Print Assumptions cmd_restore_idx_frame.
Print Assumptions cmd_restore_idx_file_spec.
Print Assumptions cmd_reset_refused.
Print Assumptions cmd_reset_soft_spec.
Print Assumptions cmd_reset_mixed_spec.
Print Assumptions cmd_reset_hard_spec.
Print Assumptions cmd_reset_hard_frame.
Print Assumptions ex_rm_dir_spec_applies.
Print Assumptions ex_add_missing_dir_spec_applies.
