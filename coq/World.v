(* World.v — the disk as typed regions, the effects Goit performs on it, and
   the command monad (state + error + effect trace + optional fault). *)
From Coq Require Import Strings.String Strings.Byte.
From Coq Require Import List Bool NArith ZArith Arith.
From Goit Require Import Bytes Sha1 Obj Tree Index Commit Reflog Config.
Import ListNotations.

(* sorted association lists keyed by byte strings *)
Section Amap.
  Context {V : Type}.
  Definition amap := list (bytes * V).
  Fixpoint am_get (m : amap) (k : bytes) : option V :=
    match m with
    | [] => None
    | (k', v) :: r => if bytes_eqb k' k then Some v else am_get r k
    end.
  Fixpoint am_set (m : amap) (k : bytes) (v : V) : amap :=
    match m with
    | [] => [(k, v)]
    | (k', v') :: r =>
        if bytes_eqb k' k then (k, v) :: r
        else if blt k k' then (k, v) :: m
        else (k', v') :: am_set r k v
    end.
  Fixpoint am_del (m : amap) (k : bytes) : amap :=
    match m with
    | [] => []
    | (k', v') :: r => if bytes_eqb k' k then r else (k', v') :: am_del r k
    end.
  Definition am_mem (m : amap) (k : bytes) : bool :=
    match am_get m k with Some _ => true | None => false end.
End Amap.
Arguments amap : clear implicits.

Fixpoint set_add (s : list bytes) (k : bytes) : list bytes :=
  match s with
  | [] => [k]
  | k' :: r => if bytes_eqb k' k then s else if blt k k' then k :: s else k' :: set_add r k
  end.
Definition set_mem (s : list bytes) (k : bytes) : bool := existsb (bytes_eqb k) s.
Definition set_del (s : list bytes) (k : bytes) : list bytes := filter (fun x => negb (bytes_eqb x k)) s.

Record world := mkW {
  w_inited : bool;                       (* .goit and its skeleton exist *)
  w_head : bytes;                        (* branch named by .goit/HEAD *)
  w_refs : amap bytes;                   (* refs/heads/<name> |-> 20-byte id *)
  w_index : option (list entry);         (* None: no index file yet *)
  w_objs : store;                        (* objects/<id> |-> inflated bytes *)
  w_coll : bool;                         (* some write met a different payload under its id *)
  w_hlog : option bytes;                 (* logs/HEAD *)
  w_blogs : amap bytes;                  (* logs/refs/heads/<name> *)
  w_lcfg : cfgst;                        (* .goit/config *)
  w_gcfg : cfgst;                        (* ~/.goitconfig *)
  w_files : amap bytes;                  (* the user's files, by clean relative path *)
  w_dirs : list bytes                    (* the user's directories *)
}.

Definition w_empty : world :=
  mkW false [] [] None [] false None [] CfgAbsent CfgAbsent [] [].

Definition idx_of (w : world) : list entry := match w_index w with Some es => es | None => [] end.

(* ---------- the work tree ---------- *)
Inductive fstat := SFile | SDir | SNone | SNotDir.

(* proper ancestor directories of a clean relative path, outermost first *)
Fixpoint ancestors_from (pre_rev : bytes) (s : bytes) : list bytes :=
  match s with
  | [] => []
  | c :: r => if beqb c c_slash then rev pre_rev :: ancestors_from (c :: pre_rev) r
              else ancestors_from (c :: pre_rev) r
  end.
Definition ancestors (p : bytes) : list bytes := ancestors_from [] p.

Definition parent_dir (p : bytes) : option bytes :=
  match rev (ancestors p) with d :: _ => Some d | [] => None end.

Definition wt_stat (w : world) (p : bytes) : fstat :=
  if bytes_eqb p [x2e] then SDir
  else if existsb (fun d => am_mem (w_files w) d) (ancestors p) then SNotDir
  else if am_mem (w_files w) p then SFile
  else if set_mem (w_dirs w) p then SDir
  else SNone.

(* files below a directory ("." = everything), in path order *)
Definition files_under (w : world) (d : bytes) : list bytes :=
  map fst (filter (fun kv => under_dir d (fst kv)) (w_files w)).

(* ---------- effects ---------- *)
Inductive effect :=
| EInit
| EPutObj (id payload : bytes)
| ESetRef (name id : bytes)
| EDelRef (name : bytes)
| ERenameRef (old new : bytes)
| ESetHead (name : bytes)
| ESetIndex (es : list entry)
| EAppendHlog (line : bytes)
| EAppendBlog (name line : bytes)
| EDelBlog (name : bytes)
| ESetLcfg (c : cfgst)
| ESetGcfg (c : cfgst)
| EWriteFile (path data : bytes)
| ERemovePath (path : bytes)
| EMkdirAll (path : bytes).

Definition set_objs (w : world) (o : store) (c : bool) : world :=
  mkW (w_inited w) (w_head w) (w_refs w) (w_index w) o c (w_hlog w) (w_blogs w)
      (w_lcfg w) (w_gcfg w) (w_files w) (w_dirs w).
Definition set_refs (w : world) (r : amap bytes) : world :=
  mkW (w_inited w) (w_head w) r (w_index w) (w_objs w) (w_coll w) (w_hlog w) (w_blogs w)
      (w_lcfg w) (w_gcfg w) (w_files w) (w_dirs w).
Definition set_head (w : world) (h : bytes) : world :=
  mkW (w_inited w) h (w_refs w) (w_index w) (w_objs w) (w_coll w) (w_hlog w) (w_blogs w)
      (w_lcfg w) (w_gcfg w) (w_files w) (w_dirs w).
Definition set_index (w : world) (i : option (list entry)) : world :=
  mkW (w_inited w) (w_head w) (w_refs w) i (w_objs w) (w_coll w) (w_hlog w) (w_blogs w)
      (w_lcfg w) (w_gcfg w) (w_files w) (w_dirs w).
Definition set_hlog (w : world) (l : option bytes) : world :=
  mkW (w_inited w) (w_head w) (w_refs w) (w_index w) (w_objs w) (w_coll w) l (w_blogs w)
      (w_lcfg w) (w_gcfg w) (w_files w) (w_dirs w).
Definition set_blogs (w : world) (l : amap bytes) : world :=
  mkW (w_inited w) (w_head w) (w_refs w) (w_index w) (w_objs w) (w_coll w) (w_hlog w) l
      (w_lcfg w) (w_gcfg w) (w_files w) (w_dirs w).
Definition set_lcfg (w : world) (c : cfgst) : world :=
  mkW (w_inited w) (w_head w) (w_refs w) (w_index w) (w_objs w) (w_coll w) (w_hlog w) (w_blogs w)
      c (w_gcfg w) (w_files w) (w_dirs w).
Definition set_gcfg (w : world) (c : cfgst) : world :=
  mkW (w_inited w) (w_head w) (w_refs w) (w_index w) (w_objs w) (w_coll w) (w_hlog w) (w_blogs w)
      (w_lcfg w) c (w_files w) (w_dirs w).
Definition set_wt (w : world) (f : amap bytes) (d : list bytes) : world :=
  mkW (w_inited w) (w_head w) (w_refs w) (w_index w) (w_objs w) (w_coll w) (w_hlog w) (w_blogs w)
      (w_lcfg w) (w_gcfg w) f d.

Definition apply_effect (e : effect) (w : world) : world :=
  match e with
  | EInit =>
      mkW true (str "main"%string) (w_refs w) (w_index w) (w_objs w) (w_coll w) (w_hlog w) (w_blogs w)
          (CfgFile (Some [])) (w_gcfg w) (w_files w) (w_dirs w)
  | EPutObj id p => set_objs w (st_set (w_objs w) id p) (w_coll w || st_collides (w_objs w) id p)
  | ESetRef n id => set_refs w (am_set (w_refs w) n id)
  | EDelRef n => set_refs w (am_del (w_refs w) n)
  | ERenameRef o n =>
      match am_get (w_refs w) o with
      | Some id => set_refs w (am_set (am_del (w_refs w) o) n id)
      | None => w
      end
  | ESetHead n => set_head w n
  | ESetIndex es => set_index w (Some es)
  | EAppendHlog l => set_hlog w (Some (match w_hlog w with Some b => b ++ l | None => l end))
  | EAppendBlog n l =>
      set_blogs w (am_set (w_blogs w) n (match am_get (w_blogs w) n with Some b => b ++ l | None => l end))
  | EDelBlog n => set_blogs w (am_del (w_blogs w) n)
  | ESetLcfg c => set_lcfg w c
  | ESetGcfg c => set_gcfg w c
  | EWriteFile p d => set_wt w (am_set (w_files w) p d) (w_dirs w)
  | ERemovePath p => set_wt w (am_del (w_files w) p) (set_del (w_dirs w) p)
  | EMkdirAll p => set_wt w (w_files w) (fold_left set_add (ancestors p ++ [p]) (w_dirs w))
  end.

Definition apply_effects (es : list effect) (w : world) : world := fold_left (fun w e => apply_effect e w) es w.

(* ---------- the command monad ---------- *)
Inductive res (A : Type) :=
| Ok (a : A)
| Err            (* the command reports an error (exit status 1) *)
| Panic.         (* the Go program would crash here *)
Arguments Ok {A}. Arguments Err {A}. Arguments Panic {A}.

Record mstate := mkMS {
  ms_w : world;
  ms_trace : list effect;      (* effects performed so far, oldest first *)
  ms_fault : option nat        (* Some k: the k-th effect from now fails instead *)
}.

Definition M (A : Type) := mstate -> res A * mstate.

Definition ret {A} (a : A) : M A := fun s => (Ok a, s).
Definition bind {A B} (m : M A) (f : A -> M B) : M B :=
  fun s => match m s with
           | (Ok a, s') => f a s'
           | (Err, s') => (Err, s')
           | (Panic, s') => (Panic, s')
           end.
Definition fail {A} : M A := fun s => (Err, s).
Definition panic {A} : M A := fun s => (Panic, s).
Definition getw : M world := fun s => (Ok (ms_w s), s).

(* perform one modifying file-system effect; under fault injection the chosen
   one returns an error to the caller and leaves the disk alone *)
Definition emit (e : effect) : M unit :=
  fun s =>
    match ms_fault s with
    | Some O => (Err, mkMS (ms_w s) (ms_trace s) None)
    | Some (S k) => (Ok tt, mkMS (apply_effect e (ms_w s)) (ms_trace s ++ [e]) (Some k))
    | None => (Ok tt, mkMS (apply_effect e (ms_w s)) (ms_trace s ++ [e]) None)
    end.

Notation "x <- m ;; f" := (bind m (fun x => f)) (at level 61, m at next level, right associativity).
Notation "m ;;; f" := (bind m (fun _ => f)) (at level 61, right associativity).

Definition of_opt {A} (o : option A) : M A := match o with Some a => ret a | None => fail end.
Definition guard (b : bool) : M unit := if b then ret tt else fail.

Fixpoint iterM {A} (f : A -> M unit) (l : list A) : M unit :=
  match l with
  | [] => ret tt
  | x :: r => f x ;;; iterM f r
  end.

Definition run_m {A} (m : M A) (w : world) : res A * world * list effect :=
  let '(r, s) := m (mkMS w [] None) in (r, ms_w s, ms_trace s).
