(* CommitFacts.v — property C12: commit metadata survives a write/read round
   trip in every time zone.

   Writer: Commit.sign_string / tz_string / commit_text.  Reader: Commit.read_sign
   (regexp gate re_signRegexp, then SplitN on " <", "> ", " ", then two
   Sscanf-style two-digit scans) and Commit.parse_commit.

   Main results
     tz_string_form                 sign and exactly four digits when |off| < 100 h
     sign_regex_shape               the reference pattern re_signRegexp, decomposed (Bridge.v ties it to the Go literal)
     sign_regex_spec                exactly which lines pass the gate
     sign_regex_accepts             every generated line passes it
     sign_roundtrip                 read_sign (sign_string n e t off) = Some (mkSign n e t off)
     sign_roundtrip_quarter_hours   ... for every quarter hour in [-12:00, +14:00]
     sign_string_shape              Name <email> <unix-seconds> +-HHMM
     msg_lines                      every message comes back byte for byte (split at '\n' only, joined again)
     parse_commit_roundtrip         commit_text / parse_commit, any two readable lines
     commit_roundtrip               the two combined
   Facts about re_signRegexp go through the semantic lemmas of RegexFacts.v
   (lang_RCat, lang_star_cls, ...), never through derivative computation. *)
From Coq Require Import Strings.String Strings.Byte.
From Coq Require Import List Bool NArith ZArith Arith.
From Coq Require Import Lia ZifyBool ZifyNat ZifyN.
From Goit Require Import Bytes Sha1 Obj Regex GoRegex Commit BytesFacts RegexFacts ObjFacts.
Import ListNotations.

#[local] Ltac Zify.zify_post_hook ::= Z.div_mod_to_equations.

(* ------------------------------------------------------------------ *)
(** * 0. Small list facts *)

Lemma last_in : forall (l : bytes) d, l <> [] -> In (last l d) l.
Proof.
  intros l d. induction l as [|x l' IH]; intro Hne.
  - contradiction Hne. reflexivity.
  - destruct l' as [|y l''].
    + left. reflexivity.
    + right. apply IH. discriminate.
Qed.

Lemma last_app_ne : forall (p s : bytes) d, s <> [] -> last (p ++ s) d = last s d.
Proof.
  intros p s d Hne. induction p as [|x p' IH].
  - reflexivity.
  - cbn [app]. destruct (p' ++ s) as [|y t] eqn:E.
    + apply app_eq_nil in E. destruct E as [_ E]. contradiction.
    + cbn [last]. cbn [last] in IH. exact IH.
Qed.

Lemma notin_last : forall (c : byte) (l : bytes), ~ In c l -> l = [] \/ last l x00 <> c.
Proof.
  intros c l Hnin. destruct l as [|x l'].
  - left. reflexivity.
  - right. intro E. apply Hnin. rewrite <- E. apply last_in. discriminate.
Qed.

(* ------------------------------------------------------------------ *)
(** * 1. Decimal text of a positive number starts with a non-zero digit *)

Definition is_digit19 (c : byte) : bool := N.leb 49 (bN c) && N.leb (bN c) 57.

Lemma dec_aux_head19 : forall f n acc,
  (0 < n)%N -> (n < 2 ^ N.of_nat f)%N ->
  exists c r, dec_aux (S f) n acc = c :: r /\ is_digit19 c = true.
Proof.
  intro f. induction f as [|f IH]; intros n acc Hpos Hlt.
  - change (2 ^ N.of_nat 0)%N with 1%N in Hlt. lia.
  - rewrite dec_aux_S. destruct (N.ltb n 10) eqn:E.
    + exists (digit_of (n mod 10)), acc. split; [reflexivity|].
      unfold is_digit19. rewrite bN_digit_of by lia. lia.
    + apply IH.
      * lia.
      * rewrite Nat2N.inj_succ, N.pow_succ_r' in Hlt.
        remember (2 ^ N.of_nat f)%N as P eqn:HP. clear HP IH. lia.
Qed.

Lemma dec_head19 : forall n, (0 < n)%N ->
  exists c r, dec n = c :: r /\ is_digit19 c = true /\ all_digits r = true.
Proof.
  intros n Hpos. unfold dec.
  destruct (dec_aux_head19 (N.size_nat n) n [] Hpos (dec_fuel n)) as [c [r [E Hc]]].
  exists c, r. split; [exact E|]. split; [exact Hc|].
  pose proof (dec_all_digits n) as Hall. unfold dec in Hall. rewrite E in Hall.
  unfold all_digits in *. cbn [forallb] in Hall.
  apply andb_true_iff in Hall. destruct Hall as [_ Hr]. exact Hr.
Qed.

(* two-digit, zero-padded text of a number below 100 *)
Lemma dec_small : forall n, (n < 10)%N -> dec n = [digit_of n].
Proof.
  intros n Hn. unfold dec. rewrite dec_aux_S.
  assert (E : N.ltb n 10 = true) by lia. rewrite E.
  assert (Em : (n mod 10 = n)%N) by lia. rewrite Em. reflexivity.
Qed.

Lemma dec_two : forall n, (10 <= n < 100)%N -> dec n = [digit_of (n / 10); digit_of (n mod 10)].
Proof.
  intros n Hn. unfold dec.
  destruct (N.size_nat n) as [|k] eqn:Ek.
  - pose proof (dec_fuel n) as Hf. rewrite Ek in Hf. change (2 ^ N.of_nat 0)%N with 1%N in Hf. lia.
  - rewrite dec_aux_S.
    assert (E : N.ltb n 10 = false) by lia. rewrite E.
    rewrite dec_aux_S.
    assert (E2 : N.ltb (n / 10) 10 = true) by lia. rewrite E2.
    assert (Em : ((n / 10) mod 10 = n / 10)%N) by lia. rewrite Em. reflexivity.
Qed.

Lemma dec2_form : forall n, (n < 100)%N -> dec2 n = [digit_of (n / 10); digit_of (n mod 10)].
Proof.
  intros n Hn. unfold dec2. destruct (N.ltb n 10) eqn:E.
  - rewrite dec_small by lia.
    assert (E0 : (n / 10 = 0)%N) by lia.
    assert (Em : (n mod 10 = n)%N) by lia.
    rewrite E0, Em. reflexivity.
  - apply dec_two. lia.
Qed.
(* ------------------------------------------------------------------ *)
(** * 2. The time-zone text *)

Lemma tz_string_eq : forall off, (-360000 < off < 360000)%Z ->
  tz_string off =
  (if Z.leb 0 off then x2b else x2d) ::
  [digit_of (Z.to_N (Z.abs off) / 3600 / 10); digit_of ((Z.to_N (Z.abs off) / 3600) mod 10);
   digit_of ((Z.to_N (Z.abs off) / 60) mod 60 / 10); digit_of (((Z.to_N (Z.abs off) / 60) mod 60) mod 10)].
Proof.
  intros off Hoff. unfold tz_string.
  remember (Z.to_N (Z.abs off)) as a eqn:Ea.
  assert (Ha : (a < 360000)%N) by lia.
  rewrite (dec2_form (a / 3600)) by lia.
  rewrite (dec2_form ((a / 60) mod 60)) by lia.
  destruct (Z.leb 0 off); reflexivity.
Qed.

Theorem tz_string_form : forall off,
  (-360000 < off < 360000)%Z -> (off mod 60 = 0)%Z ->
  exists sg h1 h2 m1 m2,
    tz_string off = [sg; h1; h2; m1; m2] /\ (sg = x2b \/ sg = x2d) /\
    is_digit h1 = true /\ is_digit h2 = true /\ is_digit m1 = true /\ is_digit m2 = true.
Proof.
  intros off Hoff _. rewrite (tz_string_eq off Hoff).
  remember (Z.to_N (Z.abs off)) as a eqn:Ea.
  assert (Ha : (a < 360000)%N) by lia.
  eexists _, _, _, _, _. split; [reflexivity|]. split.
  - destruct (Z.leb 0 off); [left | right]; reflexivity.
  - repeat split; apply is_digit_digit_of; lia.
Qed.

(* what the reader's two [scan2] calls make of the four digits *)
Lemma scan2_two : forall a b r, (a < 10)%N -> (b < 10)%N ->
  scan2 (digit_of a :: digit_of b :: r) = Some ((a * 10 + b)%N, r).
Proof.
  intros a b r Ha Hb. unfold scan2.
  rewrite (is_digit_digit_of a Ha), (is_digit_digit_of b Hb).
  rewrite (digit_val_digit_of a Ha), (digit_val_digit_of b Hb). reflexivity.
Qed.
(* ------------------------------------------------------------------ *)
(** * 3. The shape of [re_signRegexp] *)

Definition cls_not_lt : cls := mkCls false [(0, 59); (61, 255)]%N.         (* [^<] *)
Definition cls_local : cls :=
  mkCls false [(43, 43); (45, 46); (48, 57); (65, 90); (95, 95); (97, 122)]%N. (* [a-zA-Z0-9_.+-] *)
Definition cls_alnum : cls := mkCls false [(48, 57); (65, 90); (97, 122)]%N.
Definition cls_alnumdash : cls := mkCls false [(45, 45); (48, 57); (65, 90); (97, 122)]%N.
Definition cls_alpha : cls := mkCls false [(65, 90); (97, 122)]%N.
Definition cls_19 : cls := mkCls false [(49, 57)]%N.
Definition cls_digit : cls := mkCls false [(48, 57)]%N.
Definition cls_pm : cls := mkCls false [(43, 43); (45, 45)]%N.

(* [a-zA-Z0-9_.+-]+@([a-zA-Z0-9][a-zA-Z0-9-]*[a-zA-Z0-9]*\.)+[a-zA-Z]{2,} *)
Definition label_re : regex :=
  RCat (RCls cls_alnum) (RCat (RStar (RCls cls_alnumdash)) (RCat (RStar (RCls cls_alnum)) (RLit [x2e]))).
Definition email_re : regex :=
  RCat (RPlus (RCls cls_local))
       (RCat (RLit [x40]) (RCat (RPlus label_re) (RRepMin 2 (RCls cls_alpha)))).
(* [1-9][0-9]* [+-][0-9]{4} *)
Definition ts_re : regex :=
  RCat (RCls cls_19) (RCat (RStar (RCls cls_digit))
       (RCat (RLit [c_sp]) (RCat (RCls cls_pm) (RRep 4 (RCls cls_digit))))).

(* The translator emits concatenations in normal form (capture groups dropped,
   nested concatenations inlined, right-nested): grouping in the Go literal does
   not reach the model.  [sign_body_flat] is that normal form, [sign_body] the
   grouped reading the proofs below take apart; they have the same language. *)
Definition sign_body : regex :=
  RCat (RStar (RCls cls_not_lt))
    (RCat (RLit [c_sp; x3c]) (RCat email_re (RCat (RLit [x3e; c_sp]) ts_re))).
Definition sign_body_flat : regex :=
  RCat (RStar (RCls cls_not_lt))
    (RCat (RLit [c_sp; x3c])
       (RCat (RPlus (RCls cls_local))
          (RCat (RLit [x40]) (RCat (RPlus label_re) (RCat (RRepMin 2 (RCls cls_alpha))
             (RCat (RLit [x3e; c_sp]) ts_re)))))).

(* If the Go literal changes, this is the lemma that breaks. *)
Lemma sign_regex_shape : re_signRegexp = mkPat true sign_body_flat true.
Proof. reflexivity. Qed.

Definition req (r1 r2 : regex) : Prop := forall s, lang r1 s <-> lang r2 s.
Lemma req_refl r : req r r. Proof. intro s. tauto. Qed.
Lemma req_sym r1 r2 : req r1 r2 -> req r2 r1. Proof. intros H s. symmetry. apply H. Qed.
Lemma req_trans r1 r2 r3 : req r1 r2 -> req r2 r3 -> req r1 r3.
Proof. intros H1 H2 s. rewrite (H1 s). apply H2. Qed.
Lemma req_cat_r a b b' : req b b' -> req (RCat a b) (RCat a b').
Proof.
  intros H s. split; intro Hl; apply lang_RCat in Hl; destruct Hl as [u [v [E [Hu Hv]]]];
    apply lang_RCat; exists u, v; (split; [exact E|]); (split; [exact Hu|]); apply H; exact Hv.
Qed.
Lemma req_assoc a b c : req (RCat (RCat a b) c) (RCat a (RCat b c)).
Proof.
  intro s. split; intro Hl.
  - apply lang_RCat in Hl. destruct Hl as [uv [w [E [Huv Hw]]]].
    apply lang_RCat in Huv. destruct Huv as [u [v [E2 [Hu Hv]]]]. subst uv s.
    apply lang_RCat. exists u, (v ++ w). split; [apply app_assoc_reverse|]. split; [exact Hu|].
    apply lang_RCat. exists v, w. split; [reflexivity|]. split; assumption.
  - apply lang_RCat in Hl. destruct Hl as [u [vw [E [Hu Hvw]]]].
    apply lang_RCat in Hvw. destruct Hvw as [v [w [E2 [Hv Hw]]]]. subst vw s.
    apply lang_RCat. exists (u ++ v), w. split; [apply app_assoc|]. split; [|exact Hw].
    apply lang_RCat. exists u, v. split; [reflexivity|]. split; assumption.
Qed.

Lemma sign_body_flat_eq : req sign_body_flat sign_body.
Proof.
  unfold sign_body_flat, sign_body, email_re.
  apply req_cat_r. apply req_cat_r. apply req_sym.
  eapply req_trans; [apply req_assoc|]. apply req_cat_r.
  eapply req_trans; [apply req_assoc|]. apply req_cat_r.
  apply req_assoc.
Qed.

Definition valid_name (n : bytes) : Prop := ~ In x3c n.
Definition valid_email (e : bytes) : Prop := lang email_re e.

(* -- bytes that no member of a regex can contain -- *)
Fixpoint regex_excl (x : byte) (r : regex) : bool :=
  match r with
  | REmpty | REps => true
  | RCls c => negb (in_cls c x)
  | RCat a b | RAlt a b => regex_excl x a && regex_excl x b
  | RStar a => regex_excl x a
  end.

Lemma lang_excl : forall x r s, lang r s -> regex_excl x r = true -> ~ In x s.
Proof.
  intros x r s H.
  induction H as [ | c b Hb | a b s t Ha IHa Hb IHb | a b s Ha IHa | a b s Hb IHb
                 | a | a s t Ha IHa Hs IHs]; cbn [regex_excl]; intros Hex Hin.
  - destruct Hin.
  - destruct Hin as [E | []]. subst b. rewrite Hb in Hex. discriminate Hex.
  - apply andb_true_iff in Hex. destruct Hex as [Hxa Hxb].
    apply in_app_or in Hin. destruct Hin as [Hin | Hin].
    + exact (IHa Hxa Hin).
    + exact (IHb Hxb Hin).
  - apply andb_true_iff in Hex. destruct Hex as [Hxa _]. exact (IHa Hxa Hin).
  - apply andb_true_iff in Hex. destruct Hex as [_ Hxb]. exact (IHb Hxb Hin).
  - destruct Hin.
  - apply in_app_or in Hin. destruct Hin as [Hin | Hin].
    + exact (IHa Hex Hin).
    + apply IHs; [exact Hex | exact Hin].
Qed.

Lemma email_no_lt : forall e, valid_email e -> ~ In x3c e.
Proof. intros e He. apply (lang_excl x3c email_re e He). reflexivity. Qed.
Lemma email_no_gt : forall e, valid_email e -> ~ In x3e e.
Proof. intros e He. apply (lang_excl x3e email_re e He). reflexivity. Qed.
Lemma email_no_sp : forall e, valid_email e -> ~ In c_sp e.
Proof. intros e He. apply (lang_excl c_sp email_re e He). reflexivity. Qed.
Lemma email_no_nl : forall e, valid_email e -> ~ In c_nl e.
Proof. intros e He. apply (lang_excl c_nl email_re e He). reflexivity. Qed.
Lemma email_no_cr : forall e, valid_email e -> ~ In c_cr e.
Proof. intros e He. apply (lang_excl c_cr email_re e He). reflexivity. Qed.

(* -- the classes as boolean predicates -- *)
Lemma in_cls_not_lt : forall b, in_cls cls_not_lt b = true <-> b <> x3c.
Proof.
  intro b. split.
  - intros H E. subst b. discriminate H.
  - intro Hne. destruct b; try reflexivity. contradiction Hne. reflexivity.
Qed.

Lemma in_cls_19 : forall b, in_cls cls_19 b = is_digit19 b.
Proof.
  intro b. unfold in_cls, in_ranges, is_digit19, cls_19.
  cbn [c_neg c_ranges existsb fst snd]. apply orb_false_r.
Qed.

Lemma in_cls_pm : forall b, in_cls cls_pm b = true <-> b = x2b \/ b = x2d.
Proof.
  intro b. split.
  - intro H. destruct b; try discriminate H; [left | right]; reflexivity.
  - intros [E | E]; subst b; reflexivity.
Qed.

Lemma Forall_not_lt : forall n, Forall (fun b => in_cls cls_not_lt b = true) n <-> valid_name n.
Proof.
  intro n. unfold valid_name. rewrite Forall_forall. split.
  - intros H Hin. apply H in Hin. apply in_cls_not_lt in Hin. apply Hin. reflexivity.
  - intros Hn b Hb. apply in_cls_not_lt. intro E. subst b. exact (Hn Hb).
Qed.

Lemma Forall_digit : forall s, Forall (fun b => in_cls cls_digit b = true) s <-> all_digits s = true.
Proof. intro s. unfold all_digits. apply Forall_cls_forallb. exact in_cls_digit. Qed.
(* ------------------------------------------------------------------ *)
(** * 4. What the regexp gate accepts *)

Definition ts_form (t : bytes) : Prop :=
  exists c ds sg d4,
    t = (c :: ds) ++ [c_sp] ++ sg :: d4 /\
    is_digit19 c = true /\ all_digits ds = true /\ (sg = x2b \/ sg = x2d) /\
    length d4 = 4%nat /\ all_digits d4 = true.

Lemma lang_ts_re : forall t, lang ts_re t <-> ts_form t.
Proof.
  intro t. unfold ts_re, ts_form. split.
  - intro H.
    apply lang_RCat in H. destruct H as [s1 [r1 [E1 [H1 H]]]].
    apply lang_RCat in H. destruct H as [s2 [r2 [E2 [H2 H]]]].
    apply lang_RCat in H. destruct H as [s3 [r3 [E3 [H3 H]]]].
    apply lang_RCat in H. destruct H as [s4 [s5 [E4 [H4 H5]]]].
    apply lang_RCls in H1. destruct H1 as [c [Ec Hc]].
    apply lang_star_cls in H2. apply Forall_digit in H2.
    apply lang_RLit in H3.
    apply lang_RCls in H4. destruct H4 as [sg [Esg Hsg]].
    apply lang_rep_cls in H5. destruct H5 as [Hlen Hd4]. apply Forall_digit in Hd4.
    rewrite in_cls_19 in Hc. apply in_cls_pm in Hsg.
    exists c, s2, sg, s5. subst t r1 r2 r3 s1 s3 s4.
    split; [reflexivity|]. repeat split; assumption.
  - intros [c [ds [sg [d4 [E [Hc [Hds [Hsg [Hlen Hd4]]]]]]]]]. subst t.
    apply lang_RCat. exists [c], (ds ++ [c_sp] ++ sg :: d4). split; [reflexivity|]. split.
    { apply lang_RCls. exists c. split; [reflexivity|]. rewrite in_cls_19. exact Hc. }
    apply lang_RCat. exists ds, ([c_sp] ++ sg :: d4). split; [reflexivity|]. split.
    { apply lang_star_cls. apply Forall_digit. exact Hds. }
    apply lang_RCat. exists [c_sp], (sg :: d4). split; [reflexivity|]. split.
    { apply lang_RLit. reflexivity. }
    apply lang_RCat. exists [sg], d4. split; [reflexivity|]. split.
    { apply lang_RCls. exists sg. split; [reflexivity|]. apply in_cls_pm. exact Hsg. }
    apply lang_rep_cls. split; [exact Hlen|]. apply Forall_digit. exact Hd4.
Qed.

Theorem sign_regex_spec : forall s,
  re_search re_signRegexp s = true <->
  exists n e t,
    s = n ++ [c_sp; x3c] ++ e ++ [x3e; c_sp] ++ t /\
    valid_name n /\ valid_email e /\ ts_form t.
Proof.
  intro s. rewrite re_search_spec. rewrite sign_regex_shape. cbn [p_body p_bol p_eol]. split.
  - intros [pre [mid [post [E [Hm [Hp Hq]]]]]]. apply sign_body_flat_eq in Hm. unfold sign_body in Hm.
    specialize (Hp eq_refl). specialize (Hq eq_refl). subst pre post.
    cbn [app] in E. rewrite app_nil_r in E. subst mid.
    apply lang_RCat in Hm. destruct Hm as [n [r1 [E1 [Hn H]]]].
    apply lang_RCat in H. destruct H as [l1 [r2 [E2 [Hl1 H]]]].
    apply lang_RCat in H. destruct H as [e [r3 [E3 [He H]]]].
    apply lang_RCat in H. destruct H as [l2 [t [E4 [Hl2 Ht]]]].
    apply lang_star_cls in Hn. apply Forall_not_lt in Hn.
    apply lang_RLit in Hl1. apply lang_RLit in Hl2. apply lang_ts_re in Ht.
    exists n, e, t. subst s r1 r2 r3 l1 l2.
    split; [reflexivity|]. split; [exact Hn|]. split; [exact He | exact Ht].
  - intros [n [e [t [E [Hn [He Ht]]]]]].
    exists [], s, []. split; [cbn [app]; symmetry; apply app_nil_r|].
    split; [|split; intros _; reflexivity].
    subst s. apply sign_body_flat_eq. unfold sign_body.
    apply lang_RCat. exists n, ([c_sp; x3c] ++ e ++ [x3e; c_sp] ++ t). split; [reflexivity|]. split.
    { apply lang_star_cls. apply Forall_not_lt. exact Hn. }
    apply lang_RCat. exists [c_sp; x3c], (e ++ [x3e; c_sp] ++ t). split; [reflexivity|]. split.
    { apply lang_RLit. reflexivity. }
    apply lang_RCat. exists e, ([x3e; c_sp] ++ t). split; [reflexivity|]. split.
    { exact He. }
    apply lang_RCat. exists [x3e; c_sp], t. split; [reflexivity|]. split.
    { apply lang_RLit. reflexivity. }
    apply lang_ts_re. exact Ht.
Qed.
(* ------------------------------------------------------------------ *)
(** * 5. The writer's line and the reader's splits *)

Theorem sign_string_shape : forall n e t off, (0 <= t)%Z ->
  sign_string n e t off =
  n ++ str " <" ++ e ++ str "> " ++ dec (Z.to_N t) ++ [c_sp] ++ tz_string off.
Proof.
  intros n e t off Ht. unfold sign_string.
  assert (E : Z.ltb t 0 = false) by lia. rewrite E. reflexivity.
Qed.

(* a name without '<' does not contain " <" *)
Lemma split1s_sp_lt : forall n b, valid_name n ->
  split1s [c_sp; x3c] (n ++ [c_sp; x3c] ++ b) = (n, Some b).
Proof.
  unfold valid_name. intros n b. induction n as [|x n' IH]; intro Hn.
  - cbn [app]. rewrite split1s_eq.
    change (c_sp :: x3c :: b) with ([c_sp; x3c] ++ b).
    rewrite is_prefix_app, skipn_length_app. reflexivity.
  - rewrite split1s_eq.
    assert (Hp : is_prefix [c_sp; x3c] ((x :: n') ++ [c_sp; x3c] ++ b) = false).
    { cbn [app is_prefix]. destruct (beqb c_sp x); [|reflexivity]. cbn [andb].
      destruct n' as [|y n''].
      - reflexivity.
      - cbn [app is_prefix].
        assert (Hy : beqb x3c y = false).
        { apply beqb_neq. intro E. apply Hn. right. left. symmetry. exact E. }
        rewrite Hy. reflexivity. }
    rewrite Hp. cbn [app]. cbn [app] in IH. rewrite IH.
    + reflexivity.
    + intro Hin. apply Hn. right. exact Hin.
Qed.

Lemma ts_form_dec : forall T sg d4, (0 < T)%N -> (sg = x2b \/ sg = x2d) ->
  length d4 = 4%nat -> all_digits d4 = true ->
  ts_form (dec T ++ [c_sp] ++ sg :: d4).
Proof.
  intros T sg d4 HT Hsg Hlen Hd4.
  destruct (dec_head19 T HT) as [c [ds [E [Hc Hds]]]].
  exists c, ds, sg, d4. rewrite E. split; [reflexivity|]. repeat split; assumption.
Qed.

(* the reader on a line in the writer's form, with the four zone digits
   given by their values *)
Lemma read_sign_canon : forall n e T sg a b c d,
  valid_name n -> valid_email e -> (0 < T)%N -> (Z.of_N T <= 9223372036854775807)%Z ->
  (sg = x2b \/ sg = x2d) ->
  (a < 10)%N -> (b < 10)%N -> (c < 10)%N -> (d < 10)%N ->
  read_sign (n ++ [c_sp; x3c] ++ e ++ [x3e; c_sp] ++ dec T ++ [c_sp]
               ++ sg :: [digit_of a; digit_of b; digit_of c; digit_of d]) =
  Some (mkSign n e (Z.of_N T)
          (if beqb sg x2d then (- Z.of_N (3600 * (a * 10 + b) + 60 * (c * 10 + d)))%Z
           else Z.of_N (3600 * (a * 10 + b) + 60 * (c * 10 + d)))).
Proof.
  intros n e T sg a b c d Hn He HT HTmax Hsg Ha Hb Hc Hd.
  unfold read_sign.
  assert (Hgate : re_search re_signRegexp
            (n ++ [c_sp; x3c] ++ e ++ [x3e; c_sp] ++ dec T ++ [c_sp]
               ++ sg :: [digit_of a; digit_of b; digit_of c; digit_of d]) = true).
  { apply sign_regex_spec. exists n, e, (dec T ++ [c_sp] ++ sg :: [digit_of a; digit_of b; digit_of c; digit_of d]).
    split; [reflexivity|]. split; [exact Hn|]. split; [exact He|].
    apply ts_form_dec; [exact HT | exact Hsg | reflexivity |].
    unfold all_digits. cbn [forallb].
    rewrite (is_digit_digit_of a Ha), (is_digit_digit_of b Hb),
            (is_digit_digit_of c Hc), (is_digit_digit_of d Hd). reflexivity. }
  rewrite Hgate.
  rewrite (split1s_sp_lt n _ Hn).
  rewrite (split1s_app_nofirst x3e [c_sp] e _ (email_no_gt e He)).
  change ([c_sp] ++ sg :: [digit_of a; digit_of b; digit_of c; digit_of d])
    with (c_sp :: sg :: [digit_of a; digit_of b; digit_of c; digit_of d]).
  rewrite (split1_app_sep c_sp (dec T) _ (dec_no_byte T c_sp eq_refl)).
  rewrite parse_dec_dec.
  rewrite (scan2_two a b _ Ha Hb), (scan2_two c d _ Hc Hd).
  assert (Hle : Z.leb (Z.of_N T) 9223372036854775807 = true) by lia.
  rewrite Hle. reflexivity.
Qed.
(* ------------------------------------------------------------------ *)
(** * 6. Main theorems about the author/committer line *)

(* the writer's line in the canonical form used by [read_sign_canon] *)
Lemma sign_string_canon : forall n e t off,
  (0 < t)%Z -> (-360000 < off < 360000)%Z ->
  sign_string n e t off =
  n ++ [c_sp; x3c] ++ e ++ [x3e; c_sp] ++ dec (Z.to_N t) ++ [c_sp]
    ++ (if Z.leb 0 off then x2b else x2d) ::
       [digit_of (Z.to_N (Z.abs off) / 3600 / 10); digit_of ((Z.to_N (Z.abs off) / 3600) mod 10);
        digit_of ((Z.to_N (Z.abs off) / 60) mod 60 / 10);
        digit_of (((Z.to_N (Z.abs off) / 60) mod 60) mod 10)].
Proof.
  intros n e t off Ht Hoff. unfold sign_string.
  assert (E : Z.ltb t 0 = false) by lia. rewrite E.
  rewrite (tz_string_eq off Hoff). reflexivity.
Qed.

Theorem sign_regex_accepts : forall n e t off,
  valid_name n -> valid_email e -> (0 < t)%Z ->
  (-360000 < off < 360000)%Z -> (off mod 60 = 0)%Z ->
  re_search re_signRegexp (sign_string n e t off) = true.
Proof.
  intros n e t off Hn He Ht Hoff _.
  rewrite (sign_string_canon n e t off Ht Hoff).
  remember (Z.to_N (Z.abs off)) as a eqn:Ea.
  assert (Ha : (a < 360000)%N) by lia.
  apply sign_regex_spec. eexists n, e, _.
  split; [reflexivity|]. split; [exact Hn|]. split; [exact He|].
  apply ts_form_dec.
  - lia.
  - destruct (Z.leb 0 off); [left | right]; reflexivity.
  - reflexivity.
  - unfold all_digits. cbn [forallb].
    rewrite !is_digit_digit_of by lia. reflexivity.
Qed.

Theorem sign_roundtrip : forall n e t off,
  valid_name n -> valid_email e -> (0 < t <= 9223372036854775807)%Z ->
  (-360000 < off < 360000)%Z -> (off mod 60 = 0)%Z ->
  read_sign (sign_string n e t off) = Some (mkSign n e t off).
Proof.
  intros n e t off Hn He Ht Hoff Hmod.
  rewrite (sign_string_canon n e t off (proj1 Ht) Hoff).
  remember (Z.to_N (Z.abs off)) as a eqn:Ea.
  assert (Ha : (a < 360000)%N) by lia.
  rewrite read_sign_canon.
  - assert (Et : Z.of_N (Z.to_N t) = t) by lia. rewrite Et.
    assert (Emag : (3600 * (a / 3600 / 10 * 10 + (a / 3600) mod 10)
                    + 60 * ((a / 60) mod 60 / 10 * 10 + ((a / 60) mod 60) mod 10))%N = a).
    { assert (Ham : (a mod 60 = 0)%N).
      { subst a. clear Ht Hn He Ha. lia. }
      clear Ea. lia. }
    rewrite Emag.
    destruct (Z.leb 0 off) eqn:Esg.
    + change (beqb x2b x2d) with false. cbv iota.
      assert (Eoff : Z.of_N a = off) by lia. rewrite Eoff. reflexivity.
    + change (beqb x2d x2d) with true. cbv iota.
      assert (Eoff : (- Z.of_N a)%Z = off) by lia. rewrite Eoff. reflexivity.
  - exact Hn.
  - exact He.
  - lia.
  - lia.
  - destruct (Z.leb 0 off); [left | right]; reflexivity.
  - lia.
  - lia.
  - lia.
  - lia.
Qed.

(* every quarter-hour offset of the tz database range [-12:00, +14:00] *)
Corollary sign_roundtrip_quarter_hours : forall n e t q,
  valid_name n -> valid_email e -> (0 < t <= 9223372036854775807)%Z ->
  (-48 <= q <= 56)%Z ->
  read_sign (sign_string n e t (q * 900)) = Some (mkSign n e t (q * 900)).
Proof.
  intros n e t q Hn He Ht Hq. apply sign_roundtrip.
  - exact Hn.
  - exact He.
  - exact Ht.
  - lia.
  - lia.
Qed.
(* ------------------------------------------------------------------ *)
(** * 7. Lines the reader accepts end in a digit *)

Lemma read_sign_gate : forall s sg, read_sign s = Some sg -> re_search re_signRegexp s = true.
Proof.
  intros s sg H. unfold read_sign in H.
  destruct (re_search re_signRegexp s) eqn:E; [reflexivity | discriminate H].
Qed.

Lemma sign_line_end : forall s, re_search re_signRegexp s = true ->
  s <> [] /\ last s x00 <> c_cr.
Proof.
  intros s H. apply sign_regex_spec in H.
  destruct H as [n [e [t [E [_ [_ Ht]]]]]].
  destruct Ht as [c [ds [sg [d4 [Et [_ [_ [_ [Hlen Hd4]]]]]]]]].
  assert (Hne : d4 <> []).
  { intro E4. subst d4. discriminate Hlen. }
  assert (Es : s = (n ++ [c_sp; x3c] ++ e ++ [x3e; c_sp] ++ (c :: ds) ++ [c_sp; sg]) ++ d4).
  { subst s t. rewrite <- !app_assoc. reflexivity. }
  split.
  - intro Enil. rewrite Enil in Es. symmetry in Es. apply app_eq_nil in Es.
    destruct Es as [_ Es]. exact (Hne Es).
  - rewrite Es, (last_app_ne _ d4 x00 Hne). intro Ecr.
    pose proof (last_in d4 x00 Hne) as Hin. rewrite Ecr in Hin.
    unfold all_digits in Hd4. rewrite forallb_forall in Hd4.
    apply Hd4 in Hin. discriminate Hin.
Qed.

(* ------------------------------------------------------------------ *)
(** * 8. The message: lines split and joined again *)

Lemma join_cons : forall sep l X, X <> [] -> join sep (l :: X) = l ++ sep ++ join sep X.
Proof.
  intros sep l X HX. destruct X as [|x X'].
  - contradiction HX. reflexivity.
  - reflexivity.
Qed.

Lemma first_nl : forall m : bytes,
  ~ In c_nl m \/ exists l r, m = l ++ c_nl :: r /\ ~ In c_nl l.
Proof.
  intro m. destruct (split1 c_nl m) as [l ob] eqn:Es.
  destruct ob as [r|].
  - apply split1_inv_some in Es. destruct Es as [E Hl].
    right. exists l, r. split; assumption.
  - apply split1_inv_none in Es. destruct Es as [E Hl]. subst l. left. exact Hl.
Qed.

(* the reader splits at line feeds only and joins with line feeds: every
   message comes back, whatever bytes it holds (carriage returns, empty,
   ending in line feeds, lines of any length) *)
Theorem msg_lines : forall m, join [c_nl] (lf_lines (m ++ [c_nl])) = m.
Proof. exact lf_lines_join. Qed.
(* ------------------------------------------------------------------ *)
(** * 9. The commit text *)

Lemma contains_byte_false : forall c s, contains_byte c s = false -> ~ In c s.
Proof.
  intros c s. induction s as [|x r IH]; intros H Hin.
  - destruct Hin.
  - cbn [contains_byte] in H. apply orb_false_iff in H. destruct H as [Hx Hr].
    destruct Hin as [E | Hin].
    + subst x. rewrite beqb_refl in Hx. discriminate Hx.
    + exact (IH Hr Hin).
Qed.

Lemma notin_app : forall (c : byte) (p b : bytes),
  contains_byte c p = false -> ~ In c b -> ~ In c (p ++ b).
Proof.
  intros c p b Hp Hb Hin. apply in_app_or in Hin. destruct Hin as [Hin | Hin].
  - exact (contains_byte_false c p Hp Hin).
  - exact (Hb Hin).
Qed.

Lemma hex_no_byte : forall b x, is_lower_hex x = false -> ~ In x (hex b).
Proof.
  intros b x Hx Hin. pose proof (hex_lower b) as Hall.
  rewrite forallb_forall in Hall. apply Hall in Hin. rewrite Hin in Hx. discriminate Hx.
Qed.

(* one header line "<key> <body>\n" *)
Lemma lf_header_line : forall p b rest,
  ~ In c_nl (p ++ b) ->
  lf_lines (p ++ b ++ [c_nl] ++ rest) = (p ++ b) :: lf_lines rest.
Proof.
  intros p b rest Hnl. rewrite app_assoc.
  change ([c_nl] ++ rest) with (c_nl :: rest).
  apply lf_lines_app_nl; assumption.
Qed.

Lemma lf_hex_line : forall p id rest,
  contains_byte c_nl p = false ->
  lf_lines (p ++ hex id ++ [c_nl] ++ rest) = (p ++ hex id) :: lf_lines rest.
Proof.
  intros p id rest Hp. apply lf_header_line.
  apply notin_app; [exact Hp | apply hex_no_byte; reflexivity].
Qed.

(* an author/committer line: any body without a line feed is kept whole *)
Lemma lf_sign_line : forall p a rest,
  contains_byte c_nl p = false -> ~ In c_nl a ->
  lf_lines (p ++ a ++ [c_nl] ++ rest) = (p ++ a) :: lf_lines rest.
Proof.
  intros p a rest Hp Ha. apply lf_header_line. apply notin_app; assumption.
Qed.

(* the blank line and the message after it *)
Lemma lf_blank_msg : forall msg,
  lf_lines ([c_nl] ++ msg ++ [c_nl]) = [] :: lf_lines (msg ++ [c_nl]).
Proof. intro msg. exact (lf_lines_nl (msg ++ [c_nl])). Qed.

(* the reader's header loop, one kind of line at a time *)
Lemma parse_headers_tree : forall body r c0,
  parse_headers ((str "tree " ++ body) :: r) c0 =
  match read_hash body with
  | Some h => parse_headers r (mkCommit h (c_parents c0) (c_author c0) (c_committer c0) (c_msg c0))
  | None => None
  end.
Proof. reflexivity. Qed.

Lemma parse_headers_parent : forall body r c0,
  parse_headers ((str "parent " ++ body) :: r) c0 =
  match read_hash body with
  | Some h => parse_headers r (mkCommit (c_tree c0) (c_parents c0 ++ [h]) (c_author c0) (c_committer c0) (c_msg c0))
  | None => None
  end.
Proof. reflexivity. Qed.

Lemma parse_headers_author : forall body r c0,
  parse_headers ((str "author " ++ body) :: r) c0 =
  match read_sign body with
  | Some s => parse_headers r (mkCommit (c_tree c0) (c_parents c0) (Some s) (c_committer c0) (c_msg c0))
  | None => None
  end.
Proof. reflexivity. Qed.

Lemma parse_headers_committer : forall body r c0,
  parse_headers ((str "committer " ++ body) :: r) c0 =
  match read_sign body with
  | Some s => parse_headers r (mkCommit (c_tree c0) (c_parents c0) (c_author c0) (Some s) (c_msg c0))
  | None => None
  end.
Proof. reflexivity. Qed.

Lemma parse_headers_blank : forall r c0, parse_headers ([] :: r) c0 = Some (c0, r).
Proof. reflexivity. Qed.

Definition parent_list (parent : option bytes) : list bytes :=
  match parent with Some p => [p] | None => [] end.

(* MAIN (commit text): what [commit_text] writes, [parse_commit] reads back,
   field by field; the message comes back byte for byte, whatever it is
   (carriage returns, empty, ending in one or more "\n", lines of any length). *)
Theorem parse_commit_roundtrip : forall tree parent a c sa sc msg,
  length tree = 20%nat ->
  (forall p, parent = Some p -> length p = 20%nat) ->
  read_sign a = Some sa -> read_sign c = Some sc ->
  ~ In c_nl a -> ~ In c_nl c ->
  parse_commit (commit_text tree (option_map hex parent) a c msg) =
  Some (mkCommit tree (parent_list parent) (Some sa) (Some sc) msg).
Proof.
  intros tree parent a c sa sc msg Htree Hparent Ha Hc Hanl Hcnl.
  unfold parse_commit, commit_text.
  rewrite (lf_hex_line (str "tree ") tree _ eq_refl).
  rewrite parse_headers_tree, (read_hash_hex tree Htree).
  cbn [c_tree c_parents c_author c_committer c_msg].
  destruct parent as [p|]; cbn [option_map parent_list].
  - rewrite <- !app_assoc.
    rewrite (lf_hex_line (str "parent ") p _ eq_refl).
    rewrite parse_headers_parent, (read_hash_hex p (Hparent p eq_refl)).
    cbn [c_tree c_parents c_author c_committer c_msg].
    rewrite (lf_sign_line (str "author ") a _ eq_refl Hanl).
    rewrite parse_headers_author, Ha.
    cbn [c_tree c_parents c_author c_committer c_msg].
    rewrite (lf_sign_line (str "committer ") c _ eq_refl Hcnl).
    rewrite parse_headers_committer, Hc.
    cbn [c_tree c_parents c_author c_committer c_msg].
    rewrite lf_blank_msg.
    rewrite parse_headers_blank.
    cbn [c_tree c_parents c_author c_committer c_msg].
    rewrite (msg_lines msg). reflexivity.
  - rewrite app_nil_l.
    rewrite (lf_sign_line (str "author ") a _ eq_refl Hanl).
    rewrite parse_headers_author, Ha.
    cbn [c_tree c_parents c_author c_committer c_msg].
    rewrite (lf_sign_line (str "committer ") c _ eq_refl Hcnl).
    rewrite parse_headers_committer, Hc.
    cbn [c_tree c_parents c_author c_committer c_msg].
    rewrite lf_blank_msg.
    rewrite parse_headers_blank.
    cbn [c_tree c_parents c_author c_committer c_msg].
    rewrite (msg_lines msg). reflexivity.
Qed.
(* ------------------------------------------------------------------ *)
(** * 10. C12: a commit written with two generated lines reads back *)

Lemma tz_string_no_nl : forall off,
  (-360000 < off < 360000)%Z -> (off mod 60 = 0)%Z -> ~ In c_nl (tz_string off).
Proof.
  intros off Hoff Hmod.
  destruct (tz_string_form off Hoff Hmod)
    as [sg [h1 [h2 [m1 [m2 [E [Hsg [H1 [H2 [H3 H4]]]]]]]]]].
  rewrite E. intros [Ei | [Ei | [Ei | [Ei | [Ei | []]]]]].
  - destruct Hsg as [Es | Es]; rewrite Es in Ei; discriminate Ei.
  - rewrite Ei in H1. vm_compute in H1. discriminate H1.
  - rewrite Ei in H2. vm_compute in H2. discriminate H2.
  - rewrite Ei in H3. vm_compute in H3. discriminate H3.
  - rewrite Ei in H4. vm_compute in H4. discriminate H4.
Qed.

Lemma sign_string_no_nl : forall n e t off,
  ~ In c_nl n -> valid_email e -> (0 <= t)%Z ->
  (-360000 < off < 360000)%Z -> (off mod 60 = 0)%Z ->
  ~ In c_nl (sign_string n e t off).
Proof.
  intros n e t off Hn He Ht Hoff Hmod.
  rewrite (sign_string_shape n e t off Ht). intro Hin.
  apply in_app_or in Hin. destruct Hin as [Hin | Hin]; [exact (Hn Hin)|].
  apply in_app_or in Hin. destruct Hin as [Hin | Hin].
  { exact (contains_byte_false c_nl (str " <") eq_refl Hin). }
  apply in_app_or in Hin. destruct Hin as [Hin | Hin]; [exact (email_no_nl e He Hin)|].
  apply in_app_or in Hin. destruct Hin as [Hin | Hin].
  { exact (contains_byte_false c_nl (str "> ") eq_refl Hin). }
  apply in_app_or in Hin. destruct Hin as [Hin | Hin].
  { exact (dec_no_byte (Z.to_N t) c_nl eq_refl Hin). }
  apply in_app_or in Hin. destruct Hin as [Hin | Hin].
  { exact (contains_byte_false c_nl [c_sp] eq_refl Hin). }
  exact (tz_string_no_nl off Hoff Hmod Hin).
Qed.

Definition sign_ok (n e : bytes) (t off : Z) : Prop :=
  valid_name n /\ ~ In c_nl n /\ valid_email e /\
  (0 < t <= 9223372036854775807)%Z /\ (-360000 < off < 360000)%Z /\ (off mod 60 = 0)%Z.

Theorem commit_roundtrip : forall tree parent na ea ta oa nc ec tc oc msg,
  length tree = 20%nat ->
  (forall p, parent = Some p -> length p = 20%nat) ->
  sign_ok na ea ta oa -> sign_ok nc ec tc oc ->
  parse_commit (commit_text tree (option_map hex parent)
                  (sign_string na ea ta oa) (sign_string nc ec tc oc) msg) =
  Some (mkCommit tree (parent_list parent)
          (Some (mkSign na ea ta oa)) (Some (mkSign nc ec tc oc)) msg).
Proof.
  intros tree parent na ea ta oa nc ec tc oc msg Htree Hparent
         [Hna [Hnla [Hea [Hta [Hoa Hma]]]]] [Hnc [Hnlc [Hec [Htc [Hoc Hmc]]]]].
  apply parse_commit_roundtrip.
  - exact Htree.
  - exact Hparent.
  - apply sign_roundtrip; assumption.
  - apply sign_roundtrip; assumption.
  - apply sign_string_no_nl; [exact Hnla | exact Hea | lia | exact Hoa | exact Hma].
  - apply sign_string_no_nl; [exact Hnlc | exact Hec | lia | exact Hoc | exact Hmc].
Qed.

(* ------------------------------------------------------------------ *)
(** * 11. Non-vacuity *)

(* "é Zoë": non-ASCII bytes and a space *)
Definition ex_name : bytes := [xc3; xa9; x20; x5a; x6f; xc3; xab].
Definition ex_email : bytes := str "first.last+tag@sub.example.org".
Definition ex_t : Z := 1700000000.
Definition ex_off : Z := (-12600)%Z.                                  (* -03:30 *)

Example ex_valid_name : valid_name ex_name.
Proof. apply contains_byte_false. reflexivity. Qed.

Example ex_valid_email : valid_email ex_email.
Proof. unfold valid_email. apply matches_spec. vm_compute. reflexivity. Qed.

Example ex_sign_ok : sign_ok ex_name ex_email ex_t ex_off.
Proof.
  unfold sign_ok. split; [exact ex_valid_name|].
  split; [apply contains_byte_false; reflexivity|].
  split; [exact ex_valid_email|].
  unfold ex_t, ex_off. split; [lia|]. split; [lia | reflexivity].
Qed.

Example ex_sign_text :
  sign_string ex_name ex_email ex_t ex_off =
  ex_name ++ str " <first.last+tag@sub.example.org> 1700000000 -0330".
Proof. vm_compute. reflexivity. Qed.

Example ex_sign_roundtrip :
  read_sign (sign_string ex_name ex_email ex_t ex_off) = Some (mkSign ex_name ex_email ex_t ex_off).
Proof. vm_compute. reflexivity. Qed.

Example ex_commit_roundtrip :
  parse_commit (commit_text (repeat x01 20) (Some (hex (repeat x02 20)))
                  (sign_string ex_name ex_email ex_t ex_off)
                  (sign_string ex_name ex_email ex_t 50400) (str "subject" ++ [c_nl; c_nl] ++ str "body" ++ [c_nl])) =
  Some (mkCommit (repeat x01 20) [repeat x02 20]
          (Some (mkSign ex_name ex_email ex_t ex_off)) (Some (mkSign ex_name ex_email ex_t 50400))
          (str "subject" ++ [c_nl; c_nl] ++ str "body" ++ [c_nl])).
Proof. vm_compute. reflexivity. Qed.

(* the hypotheses of [sign_roundtrip] are needed: the model (like the program)
   does not read these lines back *)
Example ex_t_zero_rejected : read_sign (sign_string ex_name ex_email 0 0) = None.
Proof. vm_compute. reflexivity. Qed.
Example ex_t_negative_rejected : read_sign (sign_string ex_name ex_email (-1) 0) = None.
Proof. vm_compute. reflexivity. Qed.
Example ex_off_100h_rejected : read_sign (sign_string ex_name ex_email ex_t 360000) = None.
Proof. vm_compute. reflexivity. Qed.
Example ex_off_seconds_lost :
  read_sign (sign_string ex_name ex_email ex_t (-30)) = Some (mkSign ex_name ex_email ex_t 0).
Proof. vm_compute. reflexivity. Qed.
Example ex_name_lt_rejected : read_sign (sign_string [x61; x3c; x62] ex_email ex_t 0) = None.
Proof. vm_compute. reflexivity. Qed.
(* carriage returns in the message are preserved: "l1\r\nl2\r" *)
Definition ex_msg_cr : bytes := str "l1" ++ [c_cr; c_nl] ++ str "l2" ++ [c_cr].
Example ex_msg_cr_kept :
  option_map c_msg (parse_commit (commit_text (repeat x01 20) None
     (sign_string ex_name ex_email ex_t 0) (sign_string ex_name ex_email ex_t 0) ex_msg_cr))
  = Some ex_msg_cr.
Proof. vm_compute. reflexivity. Qed.
(* the whole commit, with a parent and two zones, message "l1\r\nl2\r"
   written byte by byte *)
Example ex_commit_cr_roundtrip :
  parse_commit (commit_text (repeat x01 20) (Some (hex (repeat x02 20)))
                  (sign_string ex_name ex_email 1700000000 (-12600))
                  (sign_string ex_name ex_email 1700000000 50400)
                  [x6c; x31; c_cr; c_nl; x6c; x32; c_cr]) =
  Some (mkCommit (repeat x01 20) [repeat x02 20]
          (Some (mkSign ex_name ex_email 1700000000 (-12600)))
          (Some (mkSign ex_name ex_email 1700000000 50400))
          [x6c; x31; c_cr; c_nl; x6c; x32; c_cr]).
Proof. vm_compute. reflexivity. Qed.
(* a carriage return at the end of a header line is kept too: such an
   author line is then refused by the reader (the regexp ends in a digit) *)
Example ex_header_cr_refused :
  parse_commit (commit_text (repeat x01 20) None
     (sign_string ex_name ex_email ex_t 0 ++ [c_cr]) (sign_string ex_name ex_email ex_t 0) (str "m")) = None.
Proof. vm_compute. reflexivity. Qed.

(* ------------------------------------------------------------------ *)

Print Assumptions tz_string_form.
Print Assumptions sign_regex_spec.
Print Assumptions sign_regex_accepts.
Print Assumptions sign_roundtrip.
Print Assumptions sign_roundtrip_quarter_hours.
Print Assumptions sign_string_shape.
Print Assumptions msg_lines.
Print Assumptions parse_commit_roundtrip.
Print Assumptions commit_roundtrip.
Print Assumptions ex_sign_ok.
Print Assumptions ex_sign_roundtrip.
Print Assumptions ex_commit_cr_roundtrip.
